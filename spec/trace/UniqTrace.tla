----------------------------- MODULE UniqTrace -----------------------------
(* Trace validation for C06.  Every event is one complete run of the real code on a data set far   *)
(* larger than what TLC enumerates (about 10^3 records, tens of sequences, up to 3 category        *)
(* attributes, merged maps with several values), abstracted by the harness to the record tuples of *)
(* Uniq.tla.  TLC recomputes the specification on the logged input and accepts the event iff the   *)
(* logged output is the required one.                                                              *)
(*   op = "uniq"    : obichunk.IUniqueSequence (level "lib") or the obiuniq binary (level "bin")   *)
(*                    (options -m k, -m k:w or both: `merge`, `wmerge`)                            *)
(*   op = "pass2"   : second pass of obiuniq, with the same options, over the real output records  *)
(*                    of two first passes (one per half of a data set): `recs` are those output    *)
(*                    records read back as input records (already merged for every requested      *)
(*                    descriptor, with whatever k and w they kept)                                *)
(*   op = "demerge" : the obidemerge binary / MakeDemergeWorker on merged records                  *)
(*   op = "law"     : last stage of  obiuniq -m k | obidemerge -d k | obiuniq -m k ; `ref` is the  *)
(*                    output of the first stage, which the last one must reproduce                 *)
EXTENDS Integers, Sequences, FiniteSets, TLC, Json, CSV, IOUtils

VARIABLES l, res

Trace == ndJsonDeserialize(IOEnv.VERIF_TRACE)
TraceKeys == Trace[1].keys

U == INSTANCE Uniq WITH Seqs <- {}, NCat <- 0, CatVals <- {}, PlainShapes <- {}, MrgKeySeq <- TraceKeys,
        MapShapes <- {}, OptSet <- {}, MaxN <- 0, ChunkCounts <- {}, LawsMaxN <- 0, NA <- "NA", Missing <- "-",
        opt <- [ncat |-> 0, merge |-> FALSE, ns |-> FALSE], idx <- <<>>

Rec(t) == [seq |-> t[1], cat |-> t[2], count |-> t[3], mt |-> t[4], mv |-> t[5], mm |-> t[6], w |-> t[7], wt |-> t[8], wm |-> t[9]]
OutRec(t) == [seq |-> t[1], cat |-> t[2], count |-> t[3], merged |-> t[4]]
SetOf(s) == {s[i] : i \in DOMAIN s}
Key2(S) == {<<x[1], x[2]>> : x \in S}
Key3(S) == {<<x[1], x[2], x[3]>> : x \in S}
Key4(S) == {<<x[1], x[2], x[3], x[4]>> : x \in S}

Compare(e, got, exp) ==
  IF Len(e.out) # Cardinality(Key2(got)) THEN "duplicate-key"
  ELSE IF Key2(got) # Key2(exp) THEN (IF Key2(got) \subseteq Key2(exp) THEN "class-lost" ELSE "class-wrong")
  ELSE IF Key3(got) # Key3(exp) THEN "count"
  ELSE IF Key4(got) # Key4(exp) THEN "merged"
  ELSE IF got # exp THEN "wmerged"
  ELSE "ok"

Verdict(e) ==
  IF e.keys # TraceKeys THEN "keys-universe"
  ELSE IF e.hung # 0 THEN "hung"
  ELSE IF e.rc # 0 THEN "exit-status"
  ELSE IF e.bad # 0 THEN "undecodable-output"
  ELSE IF e.op \in {"uniq", "law", "pass2"} THEN
       LET r   == [i \in DOMAIN e.recs |-> Rec(e.recs[i])]
           o   == [ncat |-> e.ncat, merge |-> e.merge = 1, ns |-> e.ns = 1, wmerge |-> e.wmerge = 1]
           exp == {U!EncOut(x) : x \in U!UniqFold(r, o)}
           got == SetOf(e.out)
           c   == Compare(e, got, exp)
       IN  IF c # "ok" THEN c
           ELSE IF e.op = "law" /\ Key4(got) # Key4(SetOf(e.ref)) THEN "law-broken"
           ELSE "ok"
  ELSE IF e.op = "demerge" THEN
       LET exp == {U!EncDem(d) : d \in U!Demerge({OutRec(e.recs[i]) : i \in DOMAIN e.recs})}
           got == SetOf(e.out)
       IN  IF Len(e.out) # Cardinality(got) THEN "duplicate-record"
           ELSE IF got # exp THEN (IF Key3(got) = Key3(exp) THEN "demerge-value" ELSE "demerge-count")
           ELSE "ok"
  ELSE "unknown-op"

Init == l \in 1..Len(Trace) /\ res = "todo"
Next == res = "todo" /\ res' = Verdict(Trace[l]) /\ UNCHANGED l

Report == (res \notin {"todo", "ok"}) =>
   CSVWrite("%1$s", <<ToJson([l |-> l, why |-> res])>>, IOEnv.VERIF_REJECTS)
=============================================================================

---------------------------- MODULE SeqHeapTrace ----------------------------
(* Trace validation for C07.  An event is one history executed on real          *)
(* *obiseq.BioSequence objects: the operations (with their arguments) and,       *)
(* after every operation, the observed value of ALL handles.  The specification  *)
(* (value semantics of SeqHeap.tla / SeqVal.tla) is re-evaluated step by step;   *)
(* the first step whose observation differs is reported:                         *)
(*    result@i    the object produced/modified by step i has a wrong value        *)
(*    alias@i     another live object changed at step i (shared mutable state)    *)
(*    returned@i  the object returned by an in-place call is not the result       *)
(*    liveness@i / failed-call@i (error or panic on a valid call)                 *)
(* The feature table (raw text attached by the flat-file readers) is part of the *)
(* record too: it is carried next to the value (fv): New sets it, copies,        *)
(* non-in-place reverse complements and joins inherit it, a subsequence has      *)
(* none, nothing else touches it.                                                *)
(*    bad-event@i the logged operation is outside the specified domain            *)
(*                (generator problem, not a verdict)                              *)
EXTENDS Integers, Sequences, FiniteSets, TLC, Json, CSV, IOUtils

VARIABLES l, res
H == INSTANCE SeqHeap WITH MaxObj <- 0, Depth <- 0, Starts <- {}, NewVals <- {}, OpKinds <- {}, WinKinds <- {},
        hist <- <<>>, k <- 0, live <- {}, val <- <<>>, heap <- <<>>

Trace == ndJsonDeserialize(IOEnv.VERIF_TRACE)

ToSet(s) == {s[i] : i \in 1..Len(s)}
FromJson(v) == [seq |-> v.seq, qual |-> v.qual, mm |-> ToSet(v.mm)]

(* the two sides of a mismatch are an unordered pair (see the driver) *)
MMKey(m) == [p |-> m.p, sides |-> {<<m.x, m.qx>>, <<m.y, m.qy>>}]
SameVal(o, v) ==
  /\ o.seq = v.seq
  /\ o.qual = v.qual
  /\ {MMKey(m) : m \in ToSet(o.mm)} = {MMKey(m) : m \in v.mm}

Feat(v) == IF "feat" \in DOMAIN v THEN v.feat ELSE ""
FeatAfter(fv, st) ==
  LET t == H!Target(st) IN
  CASE st.op = "new"                                   -> [fv EXCEPT ![t] = Feat(st.v)]
    [] st.op = "copy"                                  -> [fv EXCEPT ![t] = fv[st.o]]
    [] st.op \in {"rc", "join"} /\ st.inplace = 0      -> [fv EXCEPT ![t] = fv[st.o]]
    [] st.op \in {"sub", "recycle"}                    -> [fv EXCEPT ![t] = ""]
    [] OTHER                                           -> fv

OpOK(op, lv, vv, N) ==
  LET free(r) == r \in (1..N) \ lv
      len(o) == Len(vv[o].seq)
  IN CASE op.op = "new"     -> free(op.r) /\ H!WellFormed(op.v) /\ Len(op.v.seq) >= 1
       [] op.op = "copy"    -> op.o \in lv /\ free(op.r)
       [] op.op = "sub"     -> op.o \in lv /\ free(op.r) /\ H!SubValid(len(op.o), op.from, op.to, op.circ = 1)
       [] op.op = "rc"      -> op.o \in lv /\ (op.inplace = 1 \/ free(op.r))
       [] op.op = "setseq"  -> op.o \in lv /\ Len(op.s) = len(op.o) /\ H!IsSeq(op.s)
       [] op.op = "setqual" -> op.o \in lv /\ Len(op.q) = len(op.o)
       [] op.op = "mutate"  -> op.o \in lv /\ op.i \in 1..len(op.o) /\ op.x \in H!Alphabet
       [] op.op = "recycle" -> op.o \in lv
       [] op.op = "join"    -> op.o \in lv /\ op.p \in lv /\ H!JoinValid(vv[op.o], vv[op.p]) /\ (op.inplace = 1 \/ free(op.r))
       [] OTHER -> FALSE

At(why, i) == why \o "@" \o ToString(i)

(* one step: the verdict and the specification state after it *)
StepVerdict(st, vv, lv, fv, N) ==
  LET op == [st EXCEPT !.v = FromJson(@)] IN
  IF ~OpOK(op, lv, vv, N) THEN [why |-> "bad-event", vv |-> vv, lv |-> lv, fv |-> fv]
  ELSE IF st.problem # "" THEN [why |-> "failed-call", vv |-> vv, lv |-> lv, fv |-> fv]
  ELSE
    LET vv2 == H!ApplyV(vv, op)
        lv2 == H!LiveAfter(lv, op)
        tgt == H!Target(op)
        fv2 == FeatAfter(fv, st)
        Same(h) == SameVal(st.obs[h].v, vv2[h]) /\ Feat(st.obs[h].v) = fv2[h]
        why == IF Len(st.obs) # N \/ \E h \in 1..N : (st.obs[h].l = 1) # (h \in lv2) THEN "liveness"
               ELSE IF tgt \in lv2 /\ ~Same(tgt) THEN "result"
               ELSE IF \E h \in lv2 \ {tgt} : ~Same(h) THEN "alias"
               ELSE IF st.ret.l = 1 /\ ~SameVal(st.ret.v, vv2[tgt]) THEN "returned"
               ELSE "ok"
    IN [why |-> why, vv |-> vv2, lv |-> lv2, fv |-> fv2]

(* one initial state per recorded history (validated in parallel), one transition per logged step; *)
(* the specification state (vv, lv) is carried in the TLC state.                                   *)
VARIABLES i, vv, lv, fv
Init == /\ l \in 1..Len(Trace)
        /\ i = 1
        /\ vv = [h \in 1..Trace[l].n |-> H!Nil]
        /\ fv = [h \in 1..Trace[l].n |-> ""]
        /\ lv = {}
        /\ res = "run"

Next ==
  /\ res = "run"
  /\ LET steps == Trace[l].steps IN
     IF i > Len(steps)
       THEN res' = "ok" /\ UNCHANGED <<l, i, vv, lv, fv>>
       ELSE LET r == StepVerdict(steps[i], vv, lv, fv, Trace[l].n) IN
            IF r.why = "ok"
              THEN vv' = r.vv /\ lv' = r.lv /\ fv' = r.fv /\ i' = i + 1 /\ UNCHANGED <<l, res>>
              ELSE res' = At(r.why, i) /\ UNCHANGED <<l, i, vv, lv, fv>>

Report == (res \notin {"run", "ok"}) =>
   CSVWrite("%1$s", <<ToJson([l |-> l, why |-> res])>>, IOEnv.VERIF_REJECTS)
=============================================================================

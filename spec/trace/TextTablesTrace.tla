--------------------------- MODULE TextTablesTrace ---------------------------
(* Trace validation for X03, part (c): events recorded from the real CSV writer / reader and the real     *)
(* ecoPCR reader (obiverif record X03 --opt tables=1); one verdict per event.                              *)
(*  op = "csv"     a random record and column options: accepted iff the real header and fields are         *)
(*                 TextTables!HeaderFields / RowFields (floats by value, other kinds of values free), the   *)
(*                 text is CsvLine of them, and the record ReadCSV returns from that text is CsvBackF of    *)
(*                 the real fields.                                                                         *)
(*  op = "ecopcr"  random ecoPCR lines: accepted iff the text is EcoText of the lines and the records       *)
(*                 ReadEcoPCR delivered are EcoRecord of every line, and the reader ended normally.         *)
(* Disagreements that the as-written variants explain carry the departure's name ("known+...").            *)
EXTENDS TextTables

VARIABLES l, res

TTrace == ndJsonDeserialize(IOEnv.VERIF_TRACE)
Rng2(f) == {f[x] : x \in DOMAIN f}
CharsAll(ss) == [n \in 1..Len(ss) |-> Chars(ss[n])]
KVOf(x) == [k |-> Chars(x.k), t |-> x.t, v |-> IF x.t \in {"int", "float"} THEN CanonNum(Chars(x.v)) ELSE Chars(x.v)]
KVIn(x) == [k |-> Chars(x.k), t |-> x.t, v |-> Chars(x.v)]

SameBack(bk, e) ==
  IF bk.lost THEN e.nrec = 0
  ELSE /\ e.nrec = 1 /\ Chars(e.back.id) = bk.id /\ Chars(e.back.seq) = bk.seq /\ Chars(e.back.qual) = bk.qual
       /\ {KVOf(x) : x \in Rng2(e.back.ents)} = bk.ents

CsvVerdict(e) ==
  IF e.wfatal # 0 THEN "bad:write-crash"
  ELSE
  LET o  == [id |-> e.opts.id, count |-> e.opts.count, taxon |-> e.opts.taxon, definition |-> e.opts.definition,
             sequence |-> e.opts.sequence, quality |-> e.opts.quality, keys |-> CharsAll(e.opts.keys), na |-> NA]
      r  == [id |-> Chars(e.rec.id), seq |-> Chars(e.rec.seq), qual |-> e.rec.qual, def |-> Chars(e.rec.def),
             ents |-> [n \in 1..Len(e.rec.ents) |-> KVIn(e.rec.ents[n])]]
      eh == HeaderFields(o)
      ef == RowFields(r, o, 33, Ascii)
      ty == RowTypes(r, o)
      hs == CharsAll(e.header)
      fs == CharsAll(e.fields)
      fieldOk(n) == IF ty[n] = "float" THEN IsNum(fs[n]) /\ CanonNum(fs[n]) = CanonNum(ef[n])
                    ELSE IF ty[n] = "other" THEN TRUE
                    ELSE fs[n] = ef[n]
      bk == CsvBackF(hs, fs, NA, CsvNoDev)
      aw == CsvBackF(hs, fs, NA, CsvAsWritten)
  IN  IF hs # eh THEN "bad:header"
      ELSE IF Len(fs) # Len(ef) \/ \E n \in 1..Len(ef) : ~fieldOk(n) THEN "bad:fields"
      ELSE IF Chars(e.text) # CsvLine(hs) \o <<"\n">> \o CsvLine(fs) \o <<"\n">> THEN "bad:text"
      ELSE IF e.rfatal # 0 THEN "bad:read-crash"
      ELSE IF \E x \in bk.ents : x.t = "undecided" THEN "undecided"
      ELSE IF SameBack(bk, e) THEN "ok"
      ELSE IF \E x \in aw.ents : x.t = "undecided" THEN "undecided"
      ELSE IF SameBack(aw, e) THEN "known" \o (IF aw.lost /\ ~bk.lost THEN "+hash" ELSE "") \o (IF [aw EXCEPT !.lost = bk.lost] # bk THEN "+qualcol" ELSE "")
      ELSE "bad:read-back"

EcoVerdict(e) ==
  LET rows == [n \in 1..Len(e.rows) |-> CharsAll(e.rows[n])]
      mode == Chars(e.mode)
      exp(tm) == [n \in 1..Len(rows) |-> EcoRecord(rows, n, e.version, mode, Chars(e.fwd), Chars(e.rev), tm)]
      got == [n \in 1..Len(e.recs) |-> [id |-> Chars(e.recs[n].id), seq |-> Chars(e.recs[n].seq), def |-> Chars(e.recs[n].def),
                                        ents |-> {KVOf(x) : x \in Rng2(e.recs[n].ents)}]]
      und == \E n \in 1..Len(rows) : \E x \in exp(FALSE)[n].ents : x.t = "undecided"
  IN  IF Chars(e.text) # EcoText(rows, e.version, mode, Chars(e.fwd), Chars(e.rev)) THEN "bad:generator-text"
      ELSE IF e.hung # 0 THEN "bad:hang"
      ELSE IF und THEN "undecided"
      ELSE IF got = exp(FALSE) THEN (IF e.crashed # 0 THEN "known+crash" ELSE "ok")
      ELSE IF got = exp(TRUE) THEN (IF e.crashed # 0 THEN "known+tm+crash" ELSE "known+tm")
      ELSE "bad:records"

(* the command obicsv on a file: e.recs = the records of the file (decoded from their JSON headers), e.header /   *)
(* e.rows = the CSV it printed (decoded), e.opts = the columns asked on the command line, e.na the --na-value.  *)
(* As written, obicsv passes neither --quality nor --na-value to the writer (departures noqual, nona).          *)
CmdRow(x, o) ==
  LET r == [id |-> Chars(x.id), seq |-> Chars(x.seq), qual |-> x.qual, def |-> Chars(x.def),
            ents |-> [n \in 1..Len(x.ents) |-> KVIn(x.ents[n])]]
  IN  [f |-> RowFields(r, o, 33, Ascii), t |-> RowTypes(r, o)]
CmdMatches(e, o) ==
  /\ CharsAll(e.header) = HeaderFields(o)
  /\ Len(e.rows) = Len(e.recs)
  /\ \A n \in 1..Len(e.recs) :
        LET w == CmdRow(e.recs[n], o) got == CharsAll(e.rows[n]) IN
        /\ Len(got) = Len(w.f)
        /\ \A m \in 1..Len(w.f) : IF w.t[m] \in {"num", "float"} THEN IsNum(got[m]) /\ CanonNum(got[m]) = CanonNum(w.f[m])
                                    ELSE IF w.t[m] \in {"map", "other"} THEN TRUE
                                    ELSE got[m] = w.f[m]
CsvCmdVerdict(e) ==
  LET o == [id |-> e.opts.id, count |-> e.opts.count, taxon |-> e.opts.taxon, definition |-> e.opts.definition,
            sequence |-> e.opts.sequence, quality |-> e.opts.quality, keys |-> CharsAll(e.opts.keys), na |-> Chars(e.na)]
  IN  IF e.hung # 0 THEN "bad:cmd-hung"
      ELSE IF e.rc # 0 THEN "bad:cmd-exit-status"
      ELSE IF CmdMatches(e, o) THEN "ok"
      ELSE IF CmdMatches(e, [o EXCEPT !.quality = FALSE, !.na = NA])
           THEN "known" \o (IF o.quality THEN "+noqual" ELSE "") \o (IF o.na # NA THEN "+nona" ELSE "")
      ELSE "bad:columns"

(* a command reading an ecoPCR file must end, succeed, and deliver one record per line *)
EcoCmdVerdict(e) == IF e.hung # 0 THEN "bad:cmd-hung" ELSE IF e.rc # 0 THEN "bad:cmd-exit-status"
                    ELSE IF e.nout # e.nrows THEN "bad:cmd-record-count" ELSE "ok"

Verdict2(e) == CASE e.op = "csv" -> CsvVerdict(e) [] e.op = "ecopcr" -> EcoVerdict(e)
                 [] e.op = "csvcmd" -> CsvCmdVerdict(e) [] e.op = "ecocmd" -> EcoCmdVerdict(e)

TInit == l \in 1..Len(TTrace) /\ res = "todo"
TNext == res = "todo" /\ res' = Verdict2(TTrace[l]) /\ UNCHANGED l

TReport == (res \notin {"todo", "ok"}) =>
   CSVWrite("%1$s", <<ToJson([l |-> l, why |-> res])>>, IOEnv.VERIF_REJECTS)
=============================================================================

----------------------------- MODULE DemuxTrace -----------------------------
(***************************************************************************)
(* Trace validation for C12.  Every event is one read run on the real code *)
(* (NGSLibrary.ExtractMultiBarcode on a library read by ReadNGSFilter from *)
(* a sheet file), on both strands: the sheet, the read, the records that   *)
(* came back (marker, direction, barcode, primer matches, error counts,    *)
(* extracted tags, sample, error flag) and, for events recorded from       *)
(* random scenarios (src "T"), the PIECES the read was made of.            *)
(*                                                                         *)
(* TLC rebuilds the read from the pieces (Build, reverse complement by the *)
(* specification), evaluates Demux.tla on the read and on its reverse      *)
(* complement, and accepts or rejects:                                     *)
(*   fault        the real code panicked / died on the read                *)
(*   flag         a read without amplicon not returned flagged, or both    *)
(*   safety.*     a record carries a sample its extracted tags do not      *)
(*                identify, a primer match outside the budget, pieces that *)
(*                do not lie in the read as the sheet says (SafetyVerdict; *)
(*                judged on the logged read, records and sheet ONLY)       *)
(*   demux.*      the records differ from the specification's (first field)*)
(*   symmetry     rc(read) does not give the flipped records               *)
(* Sheets with a tag delimiter (delimiter-based extraction, tag rescue)    *)
(* are judged on fault / flag / safety only.                               *)
(* harness.* / spec.*: the driver or the specification contradicts itself  *)
(* (reported as inconclusive, never as a violation).                       *)
(***************************************************************************)
EXTENDS Demux, Json, CSV, IOUtils

VARIABLES l, res

Trace == ndJsonDeserialize(IOEnv.VERIF_TRACE)

MarkerOfEv(em, es) ==
  [fP |-> Parse(em.fwd), rP |-> Parse(em.rev), ef |-> em.ef, er |-> em.er, indel |-> es.indel = 1, mode |-> es.mode,
   sf |-> em.sf, sr |-> em.sr, lf |-> em.lf, lr |-> em.lr,
   smp |-> [j \in DOMAIN em.samples |-> [ft |-> em.samples[j].ft, rt |-> em.samples[j].rt, name |-> em.samples[j].name]]]
SheetOfEv(ev) == [i \in DOMAIN ev.sheet.markers |-> MarkerOfEv(ev.sheet.markers[i], ev.sheet)]

(* Build: tag . filler . forward primer . barcode . rc(reverse primer) . filler . rc(tag) *)
AmpT(a) ==
  LET f == a.tf \o a.sfill \o a.pf \o a.bc \o RC(a.pr) \o a.rfill \o RC(a.tr)
  IN  IF a.ori = 0 THEN f ELSE RC(f)
BuildT(s) ==
  s.lf \o (IF Len(s.amps) >= 1 THEN AmpT(s.amps[1]) ELSE <<>>)
       \o (IF Len(s.amps) >= 2 THEN s.mid \o AmpT(s.amps[2]) ELSE <<>>)
       \o s.rf

Fields == <<"mk", "dir", "bc", "fm", "rm", "fe", "re", "ft", "rt", "smp", "err">>
FName  == [mk |-> "marker", dir |-> "direction", bc |-> "barcode", fm |-> "forward_match", rm |-> "reverse_match",
           fe |-> "forward_error", re |-> "reverse_error", ft |-> "forward_tag", rt |-> "reverse_tag",
           smp |-> "sample", err |-> "error_flag"]
DiffField(e, g) ==
  IF Len(e) # Len(g) THEN "count"
  ELSE LET i == CHOOSE j \in DOMAIN e : e[j] # g[j] /\ \A k \in 1..(j - 1) : e[k] = g[k]
           f == CHOOSE j \in DOMAIN Fields : e[i][Fields[j]] # g[i][Fields[j]]
                                              /\ \A k \in 1..(j - 1) : e[i][Fields[k]] = g[i][Fields[k]]
       IN  FName[Fields[f]]

FirstBadSafety(sheet, S, outs, fixed) ==
  LET vs == [i \in DOMAIN outs |-> SafetyVerdict(sheet, S, outs[i], fixed)]
  IN  IF \A i \in DOMAIN vs : vs[i] = "ok" THEN "ok"
      ELSE vs[CHOOSE i \in DOMAIN vs : vs[i] # "ok"]

(* a planted amplicon made of declared pieces within the budgets must be among the specification's answers *)
IsCleanAmp(sheet, a) ==
  /\ a.clean = 1 /\ a.mk \in DOMAIN sheet /\ a.bc # <<>>
  /\ LET mk == sheet[a.mk] IN
       /\ ~mk.indel /\ a.smp \in DOMAIN mk.smp
       /\ a.tf = mk.smp[a.smp].ft /\ a.tr = mk.smp[a.smp].rt
       /\ Len(a.pf) = Len(mk.fP) /\ MismFull(mk.fP, a.pf, 0) <= mk.ef
       /\ Len(a.pr) = Len(mk.rP) /\ MismFull(mk.rP, a.pr, 0) <= mk.er
PlantedFound(sheet, a, outs) ==
  \E i \in DOMAIN outs : LET o == outs[i] IN
     /\ o.mk = a.mk /\ o.bc = a.bc /\ o.fm = a.pf /\ o.rm = a.pr /\ o.ft = a.tf /\ o.rt = a.tr
     /\ o.dir = (IF a.ori = 0 THEN "forward" ELSE "reverse")
     /\ o.smp = sheet[a.mk].smp[a.smp].name /\ o.err = 0

Verdict(ev) ==
  IF ev.fault # "" THEN "fault"
  ELSE
  LET S     == ev.read
      sheet == SheetOfEv(ev)
      fixed == ev.sheet.delim = 0
  IN
  IF ev.sc.has = 1 /\ BuildT(ev.sc) # S THEN "harness.build"
  ELSE IF ev.readrc # RC(S) THEN "harness.rc"
  ELSE IF (ev.none = 1) # (ev.out = <<>>) \/ (ev.nonerc = 1) # (ev.outrc = <<>>) THEN "flag"
  ELSE LET s1 == FirstBadSafety(sheet, S, ev.out, fixed)
           s2 == FirstBadSafety(sheet, RC(S), ev.outrc, fixed)
       IN
       IF s1 # "ok" THEN "safety." \o s1
       ELSE IF s2 # "ok" THEN "safety." \o s2
       ELSE IF ~fixed THEN "ok"
       ELSE LET d == DemuxRead(sheet, S)
                r == DemuxRead(sheet, RC(S))
            IN
            IF ~d.amb /\ ev.out # d.outs THEN "demux." \o DiffField(d.outs, ev.out)
            ELSE IF ~r.amb /\ ev.outrc # r.outs THEN "demux." \o DiffField(r.outs, ev.outrc)
            ELSE IF ~d.amb /\ ~r.amb /\ ev.outrc # Flip(ev.out) THEN "symmetry"
            ELSE IF ev.sc.has = 1 /\ ev.sc.free = 0 /\ ~d.amb
                    /\ \E i \in DOMAIN ev.sc.amps : IsCleanAmp(sheet, ev.sc.amps[i]) /\ ~PlantedFound(sheet, ev.sc.amps[i], d.outs)
                 THEN "spec.planted"
            ELSE "ok"

Init == l \in 1..Len(Trace) /\ res = "todo"
Next == res = "todo" /\ res' = Verdict(Trace[l]) /\ UNCHANGED l

Report == (res \notin {"todo", "ok"}) =>
   CSVWrite("%1$s", <<ToJson([l |-> l, why |-> res])>>, IOEnv.VERIF_REJECTS)
=============================================================================

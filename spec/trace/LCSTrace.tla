------------------------------- MODULE LCSTrace -------------------------------
(***************************************************************************)
(* Trace validation for C09.  Each event is one call of a real kernel      *)
(* (obialign.FastLCSScore "lcs", FastLCSEGFScore "egf", D1Or0 "d1") on a   *)
(* seeded random pair far beyond the bounded model (hundreds of bases,     *)
(* IUPAC codes, planted edits), together with the same call with swapped   *)
(* arguments:                                                              *)
(*   [k, a, b, e, buf, r, rr, x, y, rx, ry]                                *)
(*   r / rr = <<score, length>> (lcs, egf) or <<d, pos>> (d1)              *)
(* TLC re-evaluates the reference definitions of LCS.tla / D1.tla on the   *)
(* logged arguments and judges the logged answers with the contract        *)
(* (Judge, JudgeD1).  Stateless: one initial state per event, all workers  *)
(* validate in parallel; rejected events are reported with the reason.     *)
(***************************************************************************)
EXTENDS Integers, Sequences, TLC, Json, CSV, IOUtils, LCS, D1

VARIABLES l, res

Trace == ndJsonDeserialize(IOEnv.VERIF_TRACE)

Pair(s) == <<s[1], s[2]>>

(* end-gap-free: on equal lengths either argument may play the longer part *)
JudgeEgf(r, a, b, e) ==
  IF \E best \in EgfAllowed(a, b) : Conforms(r, best, e) THEN "ok"
  ELSE Judge(r, EgfOriented(a, b), e)

Verdict(ev) ==
  CASE ev.k = "lcs" ->
         LET best == LCSPair(ev.a, ev.b)
             j1   == Judge(Pair(ev.r), best, ev.e)
             j2   == Judge(Pair(ev.rr), best, ev.e)
         IN IF j1 # "ok" THEN "lcs." \o j1
            ELSE IF j2 # "ok" THEN "lcs." \o j2
            ELSE IF Pair(ev.r) # Pair(ev.rr) THEN "lcs.symmetry"
            ELSE "ok"
    [] ev.k = "egf" ->
         LET j1 == JudgeEgf(Pair(ev.r), ev.a, ev.b, ev.e)
             j2 == JudgeEgf(Pair(ev.rr), ev.b, ev.a, ev.e)
         IN IF j1 # "ok" THEN "egf." \o j1
            ELSE IF j2 # "ok" THEN "egf." \o j2
            ELSE IF Len(ev.a) # Len(ev.b) /\ Pair(ev.r) # Pair(ev.rr) THEN "egf.symmetry"
            ELSE "ok"
    [] ev.k = "d1" ->
         LET j1 == JudgeD1(ev.a, ev.b, ev.r[1], ev.r[2], ev.x, ev.y)
             j2 == JudgeD1(ev.b, ev.a, ev.rr[1], ev.rr[2], ev.rx, ev.ry)
         IN IF j1 # "ok" THEN "d1." \o j1
            ELSE IF j2 # "ok" THEN "d1." \o j2
            ELSE "ok"
    [] OTHER -> "unknown-event-kind"

Init == l \in 1..Len(Trace) /\ res = "todo"
Next == res = "todo" /\ res' = Verdict(Trace[l]) /\ UNCHANGED l

Report == (res \notin {"todo", "ok"}) =>
   CSVWrite("%1$s", <<ToJson([l |-> l, why |-> res])>>, IOEnv.VERIF_REJECTS)
=============================================================================

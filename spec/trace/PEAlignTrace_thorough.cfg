CONSTANTS DPCap = 6400  VoteCap = 22500
INIT Init
NEXT Next
INVARIANT Report

----------------------------- MODULE ObiFpTrace -----------------------------
(***************************************************************************)
(* Trace validation for C20: each event is one group of obifp methods run  *)
(* by the harness on seeded random operands (fields a, b, n) with every    *)
(* observed result (record o, all fields sequences of integers).  The      *)
(* specification ObiFp!Expect is re-evaluated on the logged operands and   *)
(* every constrained field must match; res = the mismatching field names.  *)
(* Divisions are verified instead of recomputed: the logged quotient must  *)
(* satisfy q*b <= a /\ a - q*b < b, the remainder must be a - q*b.         *)
(***************************************************************************)
EXTENDS ObiFp, TLC, Json, CSV, IOUtils

VARIABLES l, res

Trace == ndJsonDeserialize(IOEnv.VERIF_TRACE)

Todo == <<"todo">>
Ok   == <<"ok">>

Expected(e) ==
  IF e.g = "div" THEN DivFromObserved(e.a, e.b, e.o.dq) ELSE Expect(e.g, e.a, e.b, e.n)

Verdict(e) ==
  LET x   == Expected(e)
      bad == { f \in DOMAIN x : (f \notin DOMAIN e.o) \/ ~Match(x[f], e.o[f]) }
  IN IF bad = {} THEN Ok ELSE SetToSeq(bad)

Init == l \in 1..Len(Trace) /\ res = Todo
Next == res = Todo /\ res' = Verdict(Trace[l]) /\ UNCHANGED l

Report == (res # Todo /\ res # Ok) =>
   CSVWrite("%1$s", <<ToJson([l |-> l, why |-> res])>>, IOEnv.VERIF_REJECTS)
=============================================================================

----------------------------- MODULE ApatTrace -----------------------------
(***************************************************************************)
(* Trace validation for C10.  Every event is one scenario run on the real  *)
(* code: a pattern text, a sequence, a budget, a mode, a search window and *)
(* what MakeApatPattern, FindAllIndex, IsMatching, the reverse-complemented*)
(* pattern's FindAllIndex, FilterBestMatch, AllMatches and BestMatch       *)
(* returned (kind "apat"), or one call of obialign.LocatePattern (kind     *)
(* "loc").  The operators of Apat.tla are evaluated on the logged          *)
(* arguments and the logged results are accepted or rejected; a rejected   *)
(* event is reported with the name of the clause it breaks.                *)
(* Events are independent: all TLC workers validate in parallel.           *)
(***************************************************************************)
EXTENDS Apat, TLC, Json, CSV, IOUtils

VARIABLES l, res

Trace == ndJsonDeserialize(IOEnv.VERIF_TRACE)

MaxPatLen == 64      \* MAX_PAT_LEN of apat.h: how far past begin+length the scan may run

First(vs) ==  \* first verdict that is not "ok"; vs is a sequence of <<prefix, verdict>>
  IF \A i \in DOMAIN vs : vs[i][2] = "ok" THEN "ok"
  ELSE LET i == CHOOSE j \in DOMAIN vs : vs[j][2] # "ok" /\ \A k \in 1..(j - 1) : vs[k][2] = "ok"
       IN  vs[i][1] \o "." \o vs[i][2]

ApatVerdict(ev) ==
  IF ev.perr # 0 THEN "compile.rejected"
  ELSE
  LET P   == Parse(ev.pt)
      S   == ev.s
      m   == Len(P)
      ind == ev.indel = 1
      exact == ~ind \/ ObFree(P)          \* '#' with indels: hit lists not specified
      acgt  == \A i \in DOMAIN S : S[i] \in Nuc
      realign == PureText(ev.pt) /\ acgt  \* what the Go re-alignment is documented to handle
      A   == Allowed(P, S, ev.e, ind, ev.b, ev.l, MaxPatLen)
      Q   == RequiredOf(A, m, Len(S), ind, ev.b, ev.l)
      cA  == Allowed(Comp(P), S, ev.e, ind, ev.b, ev.l, MaxPatLen)
      cQ  == RequiredOf(cA, m, Len(S), ind, ev.b, ev.l)
  IN
  IF ev.plen # m THEN "compile.length"
  ELSE IF ev.pfind # 0 THEN "find.panic"
  ELSE IF ev.pism # 0 THEN "ism.panic"
  ELSE IF ev.prc # 0 THEN "rcfind.panic"
  ELSE IF ev.pfilt # 0 THEN "filt.panic"
  ELSE IF ev.pall # 0 THEN "all.panic"
  ELSE IF ev.pbest # 0 THEN "best.panic"
  ELSE IF ~exact THEN "ok"
  ELSE First(<<
     <<"find",   FindVerdict(ev.find, A, Q, m)>>,
     <<"ism",    IsMatchVerdict(ev.ism, A, Q)>>,
     <<"rcfind", FindVerdict(ev.rcfind, cA, cQ, m)>>,
     <<"filt",   FilterVerdict(ev.filt, A, Q, m)>>,
     <<"all",    IF ~ind THEN FilterVerdict(ev.all, A, Q, m)
                 ELSE IF realign THEN AllIndelVerdict(P, S, ev.e, ev.all, A, Q)
                 ELSE "ok">>,
     <<"best",   IF ~ind \/ realign THEN BestVerdict(P, S, ev.e, ind, ev.best, A, Q) ELSE "ok">>,
     (* the sequence predicate (whole sequence as window): a match iff there is a hit; on both strands: *)
     (* iff the pattern or its complement has one                                                       *)
     <<"pred",   IF ev.pred = -1 THEN "ok" ELSE IF ev.pred = 2 THEN "panic" ELSE IsMatchVerdict(ev.pred, A, Q)>>,
     <<"predboth", IF ev.predboth = -1 THEN "ok" ELSE IF ev.predboth = 2 THEN "panic"
                   ELSE IF ev.predboth = 1 /\ A = {} /\ cA = {} THEN "spurious"
                   ELSE IF ev.predboth = 0 /\ (Q # {} \/ cQ # {}) THEN "missing" ELSE "ok">>
  >>)

LocVerdict(ev) ==
  IF ev.panic # 0 THEN "loc.panic"
  ELSE LET v == LocateVerdict(Parse(ev.pt), ev.s, ev.out) IN IF v = "ok" THEN "ok" ELSE "loc." \o v

Verdict(ev) == IF ev.k = "loc" THEN LocVerdict(ev) ELSE ApatVerdict(ev)

Init == l \in 1..Len(Trace) /\ res = "todo"
Next == res = "todo" /\ res' = Verdict(Trace[l]) /\ UNCHANGED l

Report == (res \notin {"todo", "ok"}) =>
   CSVWrite("%1$s", <<ToJson([l |-> l, why |-> res])>>, IOEnv.VERIF_REJECTS)
=============================================================================

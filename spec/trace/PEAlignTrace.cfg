CONSTANTS DPCap = 2500  VoteCap = 10000
INIT Init
NEXT Next
INVARIANT Report

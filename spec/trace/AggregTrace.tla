---------------------------- MODULE AggregTrace ----------------------------
(* Trace validation for X02.  Every event is one complete run of the real code on seeded random records    *)
(* (hundreds to thousands of them, far beyond AggregMC's universe): a command (obisummary / obimatrix /    *)
(* obicount binaries, with their parallelism options, over a file, stdin or two files) or a library call   *)
(* (DataSummary.Update per batch + Add along a random merge tree; ISummary / IMatrix with 1..6 workers).   *)
(* The event carries the records (as the abstract records of Aggreg.tla) and what was observed, decoded.   *)
(* TLC evaluates the definitions of Aggreg.tla on the logged records and rejects the event with one reason *)
(* per clause that does not hold (reasons are independent: a known defect on one clause does not hide the  *)
(* others).  Stateless: all TLC workers validate events in parallel.                                       *)
EXTENDS Aggreg, Json, CSV, IOUtils
VARIABLES l, res

Trace == ndJsonDeserialize(IOEnv.VERIF_TRACE)

SameF(f, g) == DOMAIN f = DOMAIN g /\ \A k \in DOMAIN f : f[k] = g[k]
If(c, r) == IF c THEN {r} ELSE {}
SeqSet(q) == {q[i] : i \in 1..Len(q)}

(* --------------------------------------------------------------------------------- obisummary *)
SummaryReasons(o, x) ==
     If(<<o.variants, o.reads, o.total_length>> # <<x.variants, x.reads, x.total_length>>, "count")
\cup If(\/ <<o.has_annotations, o.scalar_attributes, o.map_attributes, o.vector_attributes>>
             # <<x.has_annotations, x.scalar_attributes, x.map_attributes, x.vector_attributes>>
        \/ ~SameF(o.scalar, x.scalar) \/ ~SameF(o.map, x.map) \/ ~SameF(o.vector, x.vector), "annotations")
\cup If(\/ <<o.has_samples, o.sample_count>> # <<x.has_samples, x.sample_count>>
        \/ DOMAIN o.stats # DOMAIN x.stats
        \/ \E s \in (DOMAIN o.stats) \cap (DOMAIN x.stats) :
              <<o.stats[s].reads, o.stats[s].variants, o.stats[s].singletons, o.stats[s].obiclean_bad>>
            # <<x.stats[s].reads, x.stats[s].variants, x.stats[s].singletons, x.stats[s].obiclean_bad>>, "samples")

RawReasons(o, x) ==
     If(<<o.variants, o.reads, o.length, o.nms, o.nocs, o.nocw>> # <<x.variants, x.reads, x.length, x.nms, x.nocs, x.nocw>>, "count")
\cup If(~SameF(o.scalar, x.scalar) \/ ~SameF(o.map, x.map) \/ ~SameF(o.vector, x.vector), "keys")
\cup If(~SameF(o.sreads, x.sreads) \/ ~SameF(o.svar, x.svar) \/ ~SameF(o.ssingle, x.ssingle) \/ ~SameF(o.sbad, x.sbad), "samples")

Prefixed(p, S) == {p \o r : r \in S}

VSummary(e) ==
  IF e.hung # 0 \/ e.rc # 0 THEN {"summary.exit"}
  ELSE IF e.decoded = 0 THEN {"summary.format"}          \* the driver decodes the format SummaryFormat requires
  ELSE Prefixed("summary.", SummaryReasons(e.obs, SummaryOutput(e.recs)))
(* partial summaries merged along the logged tree: the result is the summary of all the records, whatever  *)
(* the cut in batches and the tree                                                                         *)
VMerge(e) ==
  IF e.crash # 0 THEN {"summary.lib.merge.crash"}
  ELSE Prefixed("summary.lib.merge.", RawReasons(e.obs, Summary(FlattenSeq(e.batches))))
VISummary(e) ==
  IF e.crash # 0 THEN {"summary.lib.isummary.crash"}
  ELSE Prefixed("summary.lib.isummary.", SummaryReasons(e.obs, SummaryOutput(e.recs)))

(* --------------------------------------------------------------------------------- obicount *)
VCount(e) ==
  LET x == CountOutput(e.recs, SeqSet(e.flags)) IN
  IF e.hung # 0 \/ e.rc # 0 THEN {"count.exit"}
  ELSE IF e.decoded = 0 THEN {"count.format"}
  ELSE If(e.obs.header # x.header, "count.header")
  \cup If(\/ Len(e.obs.lines) # Len(x.lines)
          \/ \E i \in 1..Len(x.lines) : i <= Len(e.obs.lines) /\
                <<e.obs.lines[i].name, e.obs.lines[i].n>> # <<x.lines[i].name, x.lines[i].n>>, "count.lines")

(* --------------------------------------------------------------------------------- obimatrix *)
(* The printed table is read back as the set of (record id, vector of the record over the printed names);  *)
(* it must be the set of (R[i].id, vector of R[i]) - in either layout - with sorted header and rows.       *)
NonNumericNA == {"0", "NA", "", "x"}                 \* NA texts that count 0 in the conservation law
VMatrix(e) ==
  LET R == e.recs  key == e.key
      h == e.tab.header  rows == e.tab.rows
      byrec == e.layout = "byrecord"
      cols == IF h = <<>> THEN <<>> ELSE Tail(h)
      rownames == [i \in 1..Len(rows) |-> rows[i].name]
      ids == IF byrec THEN rownames ELSE cols
      names == IF byrec THEN cols ELSE rownames
      ObsVec(p, raw) == [q \in 1..Len(names) |->
                           IF byrec THEN (IF raw THEN rows[p].cells[q] ELSE rows[p].vals[q])
                                    ELSE (IF raw THEN rows[q].cells[p] ELSE rows[q].vals[p])]
      ExpVec(r) == LET m == MapText(r, key) IN
                   [q \in 1..Len(names) |-> IF names[q] \in DOMAIN m THEN m[names[q]] ELSE e.na]
      obsV == {<<ids[p], ObsVec(p, FALSE)>> : p \in 1..Len(ids)}
      obsC == {<<ids[p], ObsVec(p, TRUE)>> : p \in 1..Len(ids)}
      expS == {<<R[i].id, ExpVec(R[i])>> : i \in {j \in 1..Len(R) : R[j].id \in SeqSet(ids)}}
      isInt == \A i \in 1..Len(R) : R[i].a[key].t = "imap"
      total == FoldLeft(LAMBDA acc, row : acc + FoldLeft(LAMBDA a2, v : a2 + v, 0, row.ivals), 0, rows)
  IN
  IF e.hung # 0 THEN {"matrix.exit"}
  ELSE IF ~MatrixDefined(R, key) THEN If(e.rc = 0, "matrix.exit")
  ELSE IF e.rc # 0 THEN {"matrix.exit"}
  ELSE IF e.decoded = 0 \/ h = <<>> THEN {"matrix.format"}
  ELSE IF \E i \in 1..Len(rows) : Len(rows[i].cells) # Len(cols) THEN {"matrix.cells"}
  ELSE If(h[1] # "id", "matrix.header_first")
  \cup If(SeqSet(ids) # IdsOf(R) \/ Cardinality(SeqSet(ids)) # Len(ids), "matrix.ids")
  \cup If(SeqSet(names) # NamesOf(R, key) \/ Cardinality(SeqSet(names)) # Len(names), "matrix.names")
  \cup If(~StrictlyAscending(cols), "matrix.col_order")
  \cup If(~StrictlyAscending(rownames), "matrix.row_order")
  \cup (IF obsV # expS THEN {"matrix.cells"} ELSE If(obsC # expS, "matrix.cell_text"))
  \cup If(isInt /\ e.na \in NonNumericNA /\ total # MapTotal(R, key), "matrix.total")

VThree(e) ==
  LET R == e.recs  key == e.key  rows == e.tab.rows
      obsV == {<<rows[i].name, rows[i].vals[1], rows[i].vals[2]>> : i \in 1..Len(rows)}
      obsC == {<<rows[i].name, rows[i].cells[1], rows[i].cells[2]>> : i \in 1..Len(rows)}
      isInt == \A i \in 1..Len(R) : R[i].a[key].t = "imap"
      total == FoldLeft(LAMBDA acc, row : acc + row.ivals[2], 0, rows)
  IN
  IF e.hung # 0 THEN {"three.exit"}
  ELSE IF ~MatrixDefined(R, key) THEN If(e.rc = 0, "three.exit")
  ELSE IF e.rc # 0 THEN {"three.exit"}
  ELSE IF e.decoded = 0 THEN {"three.format"}
  ELSE IF \E i \in 1..Len(rows) : Len(rows[i].cells) # 2 THEN {"three.rows"}
  ELSE If(e.tab.header # <<"id", e.sname, e.vname>>, "three.header")
  \cup (IF obsV # Triples(R, key) \/ Len(rows) # Cardinality(Triples(R, key)) THEN {"three.rows"}
        ELSE If(obsC # Triples(R, key), "three.cell_text"))
  \cup If(\E i \in 1..(Len(rows) - 1) : ~TripleLess(<<rows[i].name, rows[i].cells[1]>>, <<rows[i + 1].name, rows[i + 1].cells[1]>>), "three.row_order")
  \cup If(isInt /\ total # MapTotal(R, key), "three.total")

(* IMatrix (library): the in-memory matrix is id -> (name -> value) of every record *)
VIMatrix(e) ==
  LET R == e.recs  key == e.key  rows == e.rows
      ById == [id \in IdsOf(R) |-> CHOOSE i \in 1..Len(R) : R[i].id = id]
  IN
  IF e.crash # 0 THEN {"matrix.lib.crash"}
  ELSE If({rows[i].name : i \in 1..Len(rows)} # IdsOf(R) \/ Len(rows) # Len(R), "matrix.lib.ids")
  \cup If(\E i \in 1..Len(rows) : rows[i].name \in IdsOf(R) /\ ~SameF(rows[i].m, MapText(R[ById[rows[i].name]], key)), "matrix.lib.cells")

(* ------------------------------------------------------------------------------------------------ *)
Reasons(e) ==
  IF e.k = "summary" THEN VSummary(e)
  ELSE IF e.k = "merge" THEN VMerge(e)
  ELSE IF e.k = "isummary" THEN VISummary(e)
  ELSE IF e.k = "count" THEN VCount(e)
  ELSE IF e.k = "matrix" THEN VMatrix(e)
  ELSE IF e.k = "three" THEN VThree(e)
  ELSE IF e.k = "imatrix" THEN VIMatrix(e)
  ELSE {"unknown-event"}

ClassOfEvent(e) ==
  IF e.k = "merge" THEN ScenarioClass(FlattenSeq(e.batches), "lib/merge", "", "")
  ELSE IF e.k \in {"matrix", "three"} THEN ScenarioClass(e.recs, e.k, e.key, IF e.k = "matrix" THEN e.layout ELSE "")
  ELSE IF e.k = "imatrix" THEN ScenarioClass(e.recs, "lib/imatrix", "", "")
  ELSE IF e.k = "isummary" THEN ScenarioClass(e.recs, "lib/isummary", "", "")
  ELSE ScenarioClass(e.recs, e.k, "", "")

Init == l \in 1..Len(Trace) /\ res = [st |-> "todo", why |-> {}, cls |-> ""]
Next == /\ res.st = "todo"
        /\ res' = [st |-> "done", why |-> Reasons(Trace[l]), cls |-> ClassOfEvent(Trace[l])]
        /\ UNCHANGED l

(* every event is reported with its class (coverage); rejected events carry their reasons *)
Report == (res.st = "done") =>
   CSVWrite("%1$s", <<ToJson([l |-> l, why |-> SetToSeq(res.why), cls |-> res.cls])>>, IOEnv.VERIF_REJECTS)
=============================================================================

--------------------------- MODULE ScoreGridTrace ---------------------------
(* Shape of the substitution scores PEAlign really uses (hook H2), for every  *)
(* pair of qualities 0..93.  The numeric values of the log-odds tables are a  *)
(* parameter of PEAlign.tla; what the documented scheme fixes, and what the    *)
(* reassembly clause of C08 relies on, is their SHAPE for informative bases    *)
(* (quality >= QLow: error probability below that of a random base):           *)
(*    symmetric          score(q1,q2) = score(q2,q1)                           *)
(*    match.positive     two identical bases score > 0                          *)
(*    mismatch.nonpos    two different bases score <= 0                         *)
(*    match.monotone     a better quality never lowers the score of a match     *)
(*    mismatch.monotone  ... and never raises the score of a mismatch           *)
(* One event = one 94 x 94 grid (kind "match" | "mismatch") for one scale.     *)
EXTENDS Integers, Sequences, TLC, Json, CSV, IOUtils

CONSTANT QLow
VARIABLES l, res
Trace == ndJsonDeserialize(IOEnv.VERIF_TRACE)

Q == QLow..93
G(ev, a, b) == ev.grid[a + 1][b + 1]

Chk(ok, why) == IF ok THEN "ok" ELSE why
FirstBad(s) == LET bad == {i \in 1..Len(s) : s[i] # "ok"} IN
               IF bad = {} THEN "ok" ELSE s[CHOOSE i \in bad : \A j \in bad : i <= j]

Verdict(ev) ==
  IF Len(ev.grid) # 94 \/ \E r \in 1..94 : Len(ev.grid[r]) # 94 THEN "event.malformed"
  ELSE LET m == ev.kind = "match" IN
  FirstBad(<<
    Chk(\A a, b \in Q : G(ev, a, b) = G(ev, b, a), "table.symmetric"),
    Chk(m => \A a, b \in Q : G(ev, a, b) > 0, "table.match_positive"),
    Chk(~m => \A a, b \in Q : G(ev, a, b) <= 0, "table.mismatch_nonpositive"),
    Chk(m => \A a \in Q \ {93}, b \in Q : G(ev, a + 1, b) >= G(ev, a, b), "table.match_monotone"),
    Chk(~m => \A a \in Q \ {93}, b \in Q : G(ev, a + 1, b) <= G(ev, a, b), "table.mismatch_monotone")
  >>)

Init == l \in 1..Len(Trace) /\ res = "todo"
Next == res = "todo" /\ res' = Verdict(Trace[l]) /\ UNCHANGED l

Report == (res \notin {"todo", "ok"}) =>
   CSVWrite("%1$s", <<ToJson([l |-> l, why |-> res])>>, IOEnv.VERIF_REJECTS)
=============================================================================

---------------------------- MODULE StreamTrace ----------------------------
(* Trace validation for C03: each event is one complete run of a real,      *)
(* NONDETERMINISTIC stream combinator (worker pools with random latencies,  *)
(* Pool, Concat, multi-file reader, chained pipelines) reduced to the       *)
(* stream it delivered, in emission order.  The event is accepted iff the   *)
(* stream satisfies the contracts of StreamOps for that combinator.         *)
EXTENDS StreamOps, TLC, Json, CSV, IOUtils

VARIABLES l, res
Cmd == INSTANCE Command

Trace == ndJsonDeserialize(IOEnv.VERIF_TRACE)

RECURSIVE SumTo(_, _)
SumTo(s, k) == IF k = 0 THEN 0 ELSE s[k] + SumTo(s, k - 1)
MkFrom(s, base) == [k \in 1..Len(s) |-> [j \in 1..s[k] |-> base + SumTo(s, k - 1) + j]]

KeepSet(e) == {r \in 1..Len(e.keep) : e.keep[r] = 1}
AllItems(bs) == LET RECURSIVE F(_) F(k) == IF k > Len(bs) THEN <<>> ELSE bs[k].items \o F(k + 1) IN F(1)

Verdict(e) ==
  LET iscmd == e.op \in {"cmd", "count", "poolstress"}
      inp == IF iscmd THEN <<>> ELSE MkFrom(e.sizes, 0)
      in2 == IF iscmd THEN <<>> ELSE MkFrom(e.sizes2, 100)
      in3 == IF iscmd THEN <<>> ELSE MkFrom(e.sizes3, 200)
      out == IF e.op = "count" THEN <<>> ELSE e.out
      K   == IF iscmd THEN {} ELSE KeepSet(e)
  IN
  IF e.hung # 0 THEN "hung"
  ELSE IF e.fatal # 0 THEN "fatal"
  ELSE IF e.op = "cmd" THEN
       (* end-to-end command: stdout ids = the selected records of the files, in input order *)
       IF e.rc # 0 THEN "exit-status"
       ELSE IF e.out = Cmd!Stdout(e.files, LAMBDA r : e.lens[r] >= e.minlen) THEN "ok" ELSE "records"
  ELSE IF e.op = "count" THEN
       (* obicount / obisummary: the totals are the conservation law of Command.tla *)
       IF e.rc # 0 THEN "exit-status"
       ELSE IF [variants |-> e.variants, reads |-> e.reads, symbols |-> e.symbols] = Cmd!Totals(e.files, e.lens, e.counts)
            THEN "ok" ELSE "totals"
  ELSE IF e.op = "poolstress" THEN
       (* many streams of one-record batches pooled at once, several rounds: e.w = number of rounds in which the *)
       (* batch numbers out of Pool were not 0..N-1 each exactly once (the order contract under real timing)     *)
       IF e.w # 0 THEN "order-contract" ELSE "ok"
  ELSE IF e.op = "limitmem" THEN
       (* LimitMemory under a limit that is never met: the bounded wait ends, every batch goes through *)
       IF ~OrderContract(out) THEN "order-contract"
       ELSE IF Records(out) # Flat(inp) THEN "records"
       ELSE "ok"
  ELSE IF e.op = "pool_workers" THEN
       IF ~OrderContract(out) THEN "order-contract"
       ELSE IF Len(out) # Len(inp) THEN "batch-count"
       ELSE IF \E i \in 1..Len(out) : out[i].items # SelectSeq(inp[out[i].o + 1], LAMBDA r : r \in K) THEN "batch-content"
       ELSE "ok"
  ELSE IF e.op = "sortlate" THEN      \* a long stream with one very late batch through SortBatches
       IF out = SortOut(inp) THEN "ok" ELSE "output"
  ELSE IF e.op \in {"pool_filter", "pipeline"} THEN
       IF out = FilterOut(inp, K, e.size) THEN "ok" ELSE "output"
  ELSE IF e.op = "concat" THEN
       IF ~OrderContract(out) THEN "order-contract"
       ELSE IF Records(out) # Flat(inp) \o Flat(in2) \o Flat(in3) THEN "records"
       ELSE "ok"
  ELSE IF e.op \in {"pool", "files"} THEN
       IF ~OrderContract(out) THEN "order-contract"
       ELSE IF Len(out) # Len(inp) + Len(in2) + Len(in3) THEN "batch-count"
       ELSE IF ~SameBag(AllItems(out), Flat(inp) \o Flat(in2) \o Flat(in3)) THEN "lost-or-duplicated"
       ELSE IF SelectSeq(Records(out), LAMBDA r : r < 100) # Flat(inp) THEN "source1-order"
       ELSE IF SelectSeq(Records(out), LAMBDA r : r > 100 /\ r < 200) # Flat(in2) THEN "source2-order"
       ELSE IF SelectSeq(Records(out), LAMBDA r : r > 200) # Flat(in3) THEN "source3-order"
       ELSE IF e.op = "files" /\ (1 + (e.w % 5)) = 1 /\ Records(out) # Flat(inp) \o Flat(in2) \o Flat(in3) THEN "file-order"
       ELSE "ok"
  ELSE "unknown-op"

Init == l \in 1..Len(Trace) /\ res = "todo"
Next == res = "todo" /\ res' = Verdict(Trace[l]) /\ UNCHANGED l

Report == (res \notin {"todo", "ok"}) =>
   CSVWrite("%1$s", <<ToJson([l |-> l, why |-> res])>>, IOEnv.VERIF_REJECTS)
=============================================================================

------------------------------ MODULE TaxTrace ------------------------------
(***************************************************************************)
(* Trace validation for C14.  The harness loads a random taxonomy (up to   *)
(* thousands of nodes) into the real pkg/obitax - through the API and      *)
(* through a synthetic NCBI dump - and logs                                *)
(*    {"e":"load", parent, rank, name, alias, loaded, err}                 *)
(* followed by the queries it put to THAT taxonomy with the answers of the *)
(* real code                                                               *)
(*    {"e":"q", src, op, a, b, k, in, sets, res, s, err}.                  *)
(* The trace is stateful: cur is the taxonomy loaded last, every query is  *)
(* judged against it with the operators of Tax.tla (walking definitions,   *)
(* proven equal to the reference ones on all small trees by TaxModel).     *)
(* One behaviour per loaded taxonomy (TLC runs them in parallel); a load   *)
(* event ends the previous behaviour.                                      *)
(***************************************************************************)
EXTENDS Tax, TLC, Json, CSV, IOUtils

VARIABLES l,      \* position in the trace
          cur,    \* position of the load event of the current taxonomy
          res     \* verdict on event l: "ok" or the reason of the rejection

Trace == ndJsonDeserialize(IOEnv.VERIF_TRACE)

TaxOf(i) == [parent |-> Trace[i].parent, rank |-> Trace[i].rank, name |-> Trace[i].name, alias |-> Trace[i].alias]

Rng(s) == { s[i] : i \in 1..Len(s) }
B(x)   == IF x THEN 1 ELSE 0
Rev(s) == [i \in 1..Len(s) |-> s[Len(s) + 1 - i]]

PathId(T, id) == LET x == Resolve(T, id) IN IF x = 0 THEN <<>> ELSE Path(T, x)

(* per record: <<taxid of the LCA, error in 1/1000>> flattened *)
LcaAnswers(T, sets) == [j \in 1..(2 * Len(sets)) |-> IF j % 2 = 1 THEN SeqLCA(T, Rng(sets[(j + 1) \div 2])) ELSE 0]
LcaNames(T, sets)   == [j \in 1..Len(sets) |-> NameOf(T, SeqLCA(T, Rng(sets[j])))]
RankAnswers(T, in, q) == [j \in 1..Len(in) |-> SeqAtRank(T, in[j], q)]
RankNames(T, in, q)   == [j \in 1..Len(in) |-> NameOf(T, SeqAtRank(T, in[j], q))]

Conforms(T, e) ==
  LET x == IF Len(e.a) >= 1 THEN Resolve(T, e.a[1]) ELSE 0
      y == IF Len(e.a) >= 2 THEN Resolve(T, e.a[2]) ELSE 0
  IN
  CASE e.op \in {"resolve", "resolve_str"} -> e.res = <<x>>
    [] e.op = "lca"     -> e.res = IF x = 0 \/ y = 0 THEN <<-1>> ELSE <<LCA(T, x, y)>>
    [] e.op = "sub"     -> e.res = IF x = 0 \/ y = 0 THEN <<-1>> ELSE <<B(SubCladeWalk(T, x, y))>>
    [] e.op = "path"    -> e.res = IF x = 0 THEN <<-1>> ELSE Path(T, x)
    [] e.op = "tpath"   -> e.res = PathId(T, e.a[1])
    [] e.op = "seq_path" -> e.res = IF x = 0 THEN <<-1>> ELSE Rev(Path(T, x))
    [] e.op = "clade"   -> /\ x # 0
                           /\ Rng(e.res) = CladeWalk(T, x) /\ Len(e.res) = Cardinality(CladeWalk(T, x))
    [] e.op = "belong"  -> /\ x # 0
                           /\ e.res = <<B(\E c \in Rng(e.b) : Resolve(T, c) # 0 /\ SubCladeWalk(T, x, Resolve(T, c)))>>
    [] e.op = "atrank"  -> /\ x # 0
                           /\ e.res = <<AtRank(T, x, e.k[1])>> /\ e.s = <<NameOf(T, AtRank(T, x, e.k[1]))>>
    [] e.op = "hasrank" -> x # 0 /\ e.res = <<B(AtRank(T, x, e.k[1]) # 0)>>
    [] e.op = "seq_restrict" -> e.res = SelectSeq(e.in, LAMBDA s : InCladeId(T, s, e.a[1]))
    [] e.op = "seq_hasrank"  -> e.res = SelectSeq(e.in, LAMBDA s : HasRankId(T, s, e.k[1]))
    [] e.op = "seq_valid"    -> e.res = SelectSeq(e.in, LAMBDA s : Resolve(T, s) # 0)
    [] e.op \in {"seq_atrank", "cmd_atrank"} ->
                           e.res = RankAnswers(T, e.in, e.k[1]) /\ e.s = RankNames(T, e.in, e.k[1])
    [] e.op = "seq_lca" -> e.res = LcaAnswers(T, e.sets)
    [] e.op \in {"seq_lca_worker", "cmd_lca"} ->
                           e.res = LcaAnswers(T, e.sets) /\ e.s = LcaNames(T, e.sets)
    [] e.op = "cmd_grep" -> LET keep == { s \in Rng(e.in) : GrepKeeps(T, Rng(e.a), Rng(e.b), Rng(e.k), s) }
                            IN Rng(e.res) = keep /\ Len(e.res) = Cardinality(keep)
    [] OTHER -> FALSE

(* "unresolved": the real code could not find a taxid (answer -1) that the taxonomy resolves *)
Verdict(T, e) ==
  IF e.err # "" THEN "error"
  ELSE IF Conforms(T, e) THEN "ok"
  ELSE IF e.res = <<-1>> /\ \A i \in 1..Len(e.a) : Resolve(T, e.a[i]) # 0 THEN "unresolved"
  ELSE "answer"

LoadVerdict(e) ==
  LET n == Len(e.parent) IN
  IF n <= 64 /\ ~IsTaxonomy([parent |-> e.parent, rank |-> e.rank, name |-> e.name, alias |-> e.alias]) THEN "bad-input"
  ELSE IF e.err # "" THEN "load-error"
  ELSE IF e.loaded # <<n, n>> THEN "load-count"
  ELSE "ok"

Init == /\ l \in { i \in 1..Len(Trace) : Trace[i].e = "load" }
        /\ cur = l
        /\ res = LoadVerdict(Trace[l])

Next == /\ l < Len(Trace) /\ Trace[l + 1].e = "q"
        /\ l' = l + 1 /\ cur' = cur
        /\ res' = Verdict(TaxOf(cur), Trace[l + 1])

Report == (res # "ok") => CSVWrite("%1$s", <<ToJson([l |-> l, why |-> res])>>, IOEnv.VERIF_REJECTS)
=============================================================================

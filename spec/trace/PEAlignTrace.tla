---------------------------- MODULE PEAlignTrace ----------------------------
(***************************************************************************)
(* Trace validation for C08.  Each event is one read pair handed to the    *)
(* real code (obialign.PEAlign, then obialign.BuildQualityConsensus on the *)
(* returned path, then obipairing.AssemblePESequences) on a seeded random  *)
(* scenario far beyond the bounded model (reads up to 300 bases, every     *)
(* overlap geometry, qualities 0..93, IUPAC codes, sequencing errors,      *)
(* fast/exact mode, relative/absolute vote, several delta/gap/scale,       *)
(* reused arena), together with the implementation's OWN integer scores    *)
(* for the pair (hook H2):                                                 *)
(*   a, qa, b, qb        the reads                                         *)
(*   csa, cqa, ca        classes of A: position i has class ca[i] =        *)
(*                       (symbol csa[ca[i]], quality cqa[ca[i]]); idem B   *)
(*   tab, gapp           tab[x][y] = score of class x of A facing class y  *)
(*                       of B; gapp = score of one non-free gap position   *)
(*   fast, rel, delta    PEAlign arguments (0/1, 0/1, int)                 *)
(*   minov, idn, idd     minimum overlap, minimum identity idn/idd         *)
(*   panic               1: PEAlign panicked on this pair; 2: the          *)
(*                       consensus builders did on the returned path       *)
(*   left, score, path, fc, over        results of PEAlign                 *)
(*   cs, cq, match                      results of BuildQualityConsensus   *)
(*   os, oq, mode, ali, sas, sbs, dir, ascore, amatch                      *)
(*                                      record of AssemblePESequences      *)
(*   perfect, frag       1/2: error-free reads of fragment frag, left /    *)
(*                       right geometry; 0: anything else                  *)
(* TLC re-evaluates PEAlign.tla on the logged arguments and judges the     *)
(* logged answers.  Stateless: one initial state per event, all workers    *)
(* validate in parallel; rejected events are reported with the clause.     *)
(***************************************************************************)
EXTENDS Integers, Sequences, FiniteSets, TLC, Json, CSV, IOUtils, SequencesExt, PEAlign

CONSTANTS DPCap,      \* exact-mode optimality is recomputed by the DP when la * lb <= DPCap
          VoteCap     \* the whole diagonal vote is recomputed when la * lb <= VoteCap

VARIABLES l, res

Trace == ndJsonDeserialize(IOEnv.VERIF_TRACE)

FirstBad(vs) == IF \A k \in 1..Len(vs) : vs[k] = "ok" THEN "ok"
                ELSE vs[CHOOSE k \in 1..Len(vs) : vs[k] # "ok" /\ \A m \in 1..(k - 1) : vs[m] = "ok"]
Chk(cond, why) == IF cond THEN "ok" ELSE why

(* the event describes its own reads consistently *)
EventOK(ev) ==
  /\ Len(ev.a) >= 1 /\ Len(ev.b) >= 1
  /\ Len(ev.qa) = Len(ev.a) /\ Len(ev.qb) = Len(ev.b)
  /\ Len(ev.ca) = Len(ev.a) /\ Len(ev.cb) = Len(ev.b)
  /\ \A i \in 1..Len(ev.a) : ev.a[i] = ev.csa[ev.ca[i]] /\ ev.qa[i] = ev.cqa[ev.ca[i]] /\ ev.a[i] \in PESym
  /\ \A j \in 1..Len(ev.b) : ev.b[j] = ev.csb[ev.cb[j]] /\ ev.qb[j] = ev.cqb[ev.cb[j]] /\ ev.b[j] \in PESym
  /\ Len(ev.tab) = Len(ev.csa) /\ \A x \in 1..Len(ev.tab) : Len(ev.tab[x]) = Len(ev.csb)

(* the diagonal elected by the vote, recovered from (isLeftAlign, over) *)
ShiftOf(ev) == IF ev.left = 1 THEN Len(ev.a) - ev.over ELSE ev.over - Len(ev.b)

Judge(ev) ==
  LET S    == [ca |-> ev.ca, cb |-> ev.cb, tab |-> ev.tab, gap |-> ev.gapp]
      la   == Len(ev.a)
      lb   == Len(ev.b)
      left == ev.left = 1
      p    == ev.path
      cols == Columns(p, ev.a, ev.qa, ev.b, ev.qb)
      aln  == IsAlignment(p, cols, ev.minov, ev.idn, ev.idd)
      dp   == ev.fast = 0 /\ la * lb <= DPCap
      \* ---- fast mode
      sh   == ShiftOf(ev)
      ka   == Kmers(ev.a)
      kb   == Kmers(ev.b)
      fullvote == ev.fast = 1 /\ (la * lb <= VoteCap \/ ev.perfect > 0)
      v    == Vote(ev.a, ev.b)
      \* ---- error-free reads of one fragment
      geo  == ev.perfect = 1
      L    == Len(ev.frag)
      tp   == TruePath(L, la, lb, geo)
      ts   == ScoreAlong(S, geo, tp)
      uniq == dp /\ DPOptCnt(S, geo) = <<ts, 1>> /\ DPOpt(S, ~geo) < ts
      strict == StrictBest(v, TrueShift(L, la, lb, geo), la, lb, ev.rel = 1)
      same == Steps(p) = Steps(tp) /\ ev.cs = ev.frag
  IN
  [why |-> FirstBad(<<
       Chk(ScoreAlong(S, left, p) = ev.score, "score.along_path"),
       Chk(dp => ev.score = Opt(S), "score.optimal"),
       Chk(ev.cs = ConsSeq(cols), "consensus.sequence"),
       Chk(Len(ev.cq) = Len(cols), "consensus.quality"),
       Chk(QualsOK(cols, ev.cq), "consensus.quality"),
       Chk(ev.match = MatchCount(cols) /\ ev.amatch = ev.match, "stats.match"),
       Chk(ev.mode = (IF aln THEN 1 ELSE 0), "stats.mode"),
       Chk(ev.ali = AliLength(p), "stats.ali_length"),
       Chk(ev.ascore = ev.score, "stats.score"),
       Chk(aln => /\ ev.sas = SeqASingle(p, left) /\ ev.sbs = SeqBSingle(p, left) /\ ev.dir = ev.left
                  /\ Len(ev.os) = ev.sas + ev.ali + ev.sbs, "stats.single"),
       Chk(aln => ev.os = ConsSeq(cols) /\ QualsOK(cols, ev.oq), "assemble.sequence"),
       Chk(~aln => ev.os = JoinSeq(ev.a, ev.b) /\ ev.oq = JoinQual(ev.qa, ev.qb), "join.sequence"),
       Chk(ev.fast = 1 => /\ (left => sh >= 0) /\ (~left => sh <= 0)
                          /\ ev.fc = DiagCount(ka, kb, sh), "fast.vote"),
       Chk(fullvote => sh \in BestShifts(v, la, lb, ev.rel = 1), "fast.vote"),
       Chk((ev.perfect > 0 /\ ev.fast = 0) => ev.score >= ts, "perfect.exact_score"),
       Chk((ev.perfect > 0 /\ ev.fast = 0 /\ uniq) => same, "perfect.exact_reconstruction"),
       Chk((ev.perfect > 0 /\ ev.fast = 1 /\ strict) => same, "perfect.fast_reconstruction")
     >>),
   tags |-> (IF dp THEN <<"dp">> ELSE <<>>)
            \o (IF aln THEN <<"aln">> ELSE <<"join">>)
            \o (IF fullvote THEN <<"vote">> ELSE <<>>)
            \o (IF ev.perfect > 0 /\ ev.fast = 0 /\ uniq THEN <<"perfect_unique">> ELSE <<>>)
            \o (IF ev.perfect > 0 /\ ev.fast = 0 /\ dp /\ ~uniq THEN <<"perfect_ambiguous">> ELSE <<>>)
            \o (IF ev.perfect > 0 /\ ev.fast = 1 /\ strict THEN <<"perfect_strict">> ELSE <<>>)
            \o (IF ev.perfect > 0 /\ ev.fast = 1 /\ ~strict THEN <<"perfect_notstrict">> ELSE <<>>)
            \o (IF ev.perfect > 0 /\ Steps(p) = Steps(tp) THEN <<"true_path">> ELSE <<>>)]

Verdict(ev) ==
  IF ev.panic = 1 THEN [why |-> "no_panic", tags |-> <<>>]
  ELSE IF ~EventOK(ev) THEN [why |-> "event.malformed", tags |-> <<>>]
  ELSE IF ~Consumes(ev.path, Len(ev.a), Len(ev.b)) THEN [why |-> "path.consumes", tags |-> <<>>]
  ELSE IF ev.panic # 0 THEN [why |-> "no_panic", tags |-> <<>>]     \* consensus builders on a valid path
  ELSE Judge(ev)

Todo == [why |-> "todo", tags |-> <<>>]
Init == l \in 1..Len(Trace) /\ res = Todo
Next == res = Todo /\ res' = Verdict(Trace[l]) /\ UNCHANGED l

Report ==
  (res # Todo) =>
     /\ CSVWrite("%1$s", <<ToJson([l |-> l, tags |-> res.tags])>>, IOEnv.VERIF_TAGS)
     /\ (res.why # "ok" => CSVWrite("%1$s", <<ToJson([l |-> l, why |-> res.why])>>, IOEnv.VERIF_REJECTS))
=============================================================================

----------------------------- MODULE CleanTrace -----------------------------
(* Trace validation for C13: an event is the graph the real obiclean code   *)
(* built for one random data set (mutation families over a,c,g,t, up to 22  *)
(* sequences, 1-16 workers).  TLC recomputes Clean!Graph on the logged data *)
(* set and compares edges, son counts, weights, statuses; every reported    *)
(* mutation must turn the father into the son.                              *)
EXTENDS Integers, Sequences, FiniteSets, TLC, Json, CSV, IOUtils
VARIABLES l, res
C == INSTANCE Clean WITH Pool <- {}, Counts <- {}, MaxSeqs <- 0, ds <- <<>>, ratio <- <<1, 1>>, res <- <<>>, phase <- ""
Trace == ndJsonDeserialize(IOEnv.VERIF_TRACE)

(* does (from, to, pos) describe how the father f becomes the son s ?  pos is 0-based *)
Explains(s, f, from, to, pos) ==
  IF from # "-" /\ to # "-" THEN
       /\ Len(s) = Len(f) /\ pos + 1 \in 1..Len(f)
       /\ f[pos + 1] = from /\ s[pos + 1] = to /\ from # to
       /\ \A i \in 1..Len(f) : i # pos + 1 => s[i] = f[i]
  ELSE IF to = "-" /\ from # "-" THEN      \* base of the father missing in the son
       /\ Len(f) = Len(s) + 1 /\ pos + 1 \in 1..Len(f)
       /\ f[pos + 1] = from /\ C!DropAt(f, pos + 1) = s
  ELSE IF from = "-" /\ to # "-" THEN      \* base added in the son
       /\ Len(s) = Len(f) + 1 /\ pos + 1 \in 1..Len(s)
       /\ s[pos + 1] = to /\ C!DropAt(s, pos + 1) = f
  ELSE FALSE

Verdict(e) ==
  LET d == [i \in 1..Len(e.seqs) |-> [seq |-> e.seqs[i], count |-> e.counts[i]]]
      G == C!Graph(d, e.ratio)
      IdxOf(str) == CHOOSE j \in 1..Len(d) : C!Str(d[j].seq) = str
      bad == {k \in 1..Len(d) :
                \/ e.nodes[k].weight # G[k].weight
                \/ e.nodes[k].soncount # G[k].soncount
                \/ e.nodes[k].status # G[k].status
                \/ {e.nodes[k].fathers[i] : i \in 1..Len(e.nodes[k].fathers)} # {C!Str(d[f].seq) : f \in G[k].fathers}}
      badmut == {k \in 1..Len(d) : \E i \in 1..Len(e.nodes[k].muts) :
                   LET m == e.nodes[k].muts[i] IN
                   ~Explains(d[k].seq, d[IdxOf(m.father)].seq, m.from, m.to, m.pos)}
  IN IF bad # {} THEN "graph" ELSE IF badmut # {} THEN "mutation" ELSE "ok"

(* an event of kind "cmd": what the obiclean COMMAND wrote for one sample of its input (status and weight *)
(* of every sequence of that sample), against the graph of that sample                                    *)
CmdVerdict(e) ==
  LET d == [i \in 1..Len(e.seqs) |-> [seq |-> e.seqs[i], count |-> e.counts[i]]]
      G == C!Graph(d, e.ratio)
  IN IF \E k \in 1..Len(d) : e.status[k] # G[k].status THEN "cmd-status"
     ELSE IF \E k \in 1..Len(d) : e.weight[k] # G[k].weight THEN "cmd-weight"
     ELSE "ok"

(* an event of kind "rec": the head flag and the counts written on ONE record against its own status map *)
RecVerdict(e) ==
  LET N(x) == Cardinality({i \in 1..Len(e.st) : e.st[i] = x}) IN
  IF e.hc # N("h") \/ e.ic # N("i") \/ e.sc # N("s") \/ e.n # Len(e.st) THEN "rec-counts"
  ELSE IF (e.head = 1) # (N("h") + N("s") > 0) THEN "rec-head"
  ELSE "ok"

AnyVerdict(e) == IF "kind" \in DOMAIN e /\ e.kind = "cmd" THEN CmdVerdict(e)
                 ELSE IF "kind" \in DOMAIN e /\ e.kind = "rec" THEN RecVerdict(e) ELSE Verdict(e)

Init == l \in 1..Len(Trace) /\ res = "todo"
Next == res = "todo" /\ res' = AnyVerdict(Trace[l]) /\ UNCHANGED l
Report == (res \notin {"todo", "ok"}) =>
   CSVWrite("%1$s", <<ToJson([l |-> l, why |-> res])>>, IOEnv.VERIF_REJECTS)
=============================================================================

CONSTANTS QLow = 2
INIT Init
NEXT Next
INVARIANT Report

-------------------------- MODULE WriterFaultTrace --------------------------
(* Trace validation for C18.  An event is one run of a real writer (or of a *)
(* real command) against a failing output, reduced to: bytes the healthy    *)
(* run produces (total), the sink budget k (-1 = no write fault), whether   *)
(* Close failed, bytes the sink accepted, and the outcome (fatal / exit     *)
(* status).  WriterFault.tla proves NoSilentLoss/FaultReported/NoFalseAlarm *)
(* for every history; the event is accepted iff it satisfies them.          *)
EXTENDS Integers, Sequences, TLC, Json, CSV, IOUtils
VARIABLES l, res
Trace == ndJsonDeserialize(IOEnv.VERIF_TRACE)

Faulted(e) == (e.k >= 0 /\ e.k < e.total) \/ e.failclose # 0

Verdict(e) ==
  IF e.op = "cmdslow" THEN       \* real binary whose output is taken late but entirely (no fault): a successful exit means complete output
       IF e.hung # 0 THEN "hung" ELSE IF e.rc = 0 /\ e.got # e.want THEN "exit-zero-with-missing-records" ELSE "ok"
  ELSE IF e.op = "cmd" THEN           \* real binary writing to a failing output: exit status must be non zero
       IF e.hung # 0 THEN "hung" ELSE IF e.rc = 0 THEN "exit-zero-after-write-failure" ELSE "ok"
  ELSE IF e.op = "transient" THEN     \* one Write refused once (EAGAIN), later ones accepted: no report => nothing lost
       IF e.fatal # 0 THEN "ok" ELSE IF e.hung # 0 THEN "hung"
       ELSE IF e.accepted # e.total THEN "silent-loss-after-transient-failure" ELSE "ok"
  ELSE IF e.hung # 0 THEN "hung"
  ELSE IF Faulted(e) /\ e.fatal = 0 THEN "silent-loss"
  ELSE IF ~Faulted(e) /\ e.fatal # 0 THEN "false-fatal"
  ELSE IF ~Faulted(e) /\ e.accepted # e.total THEN "short-output"
  ELSE IF e.accepted > e.total THEN "too-many-bytes"
  ELSE "ok"

Init == l \in 1..Len(Trace) /\ res = "todo"
Next == res = "todo" /\ res' = Verdict(Trace[l]) /\ UNCHANGED l
Report == (res \notin {"todo", "ok"}) =>
   CSVWrite("%1$s", <<ToJson([l |-> l, why |-> res])>>, IOEnv.VERIF_REJECTS)
=============================================================================

---------------------------- MODULE KmerSimTrace ----------------------------
(***************************************************************************)
(* Trace validation for X04 (b).  One event = one set of references, one   *)
(* option set and a list of queries with what was observed for each:       *)
(*  origin "lib"   NewKmerMap + Query on the real library: ans = the count *)
(*                 per reference (0: not in the answer), rans = the same   *)
(*                 for the reverse complement of the query, rank = order   *)
(*                 of the addresses of the reference objects; then the     *)
(*                 queries through MakeIWorker(MakeCountMatchWorker, w     *)
(*                 workers sharing the index): nm = obikmer_match_count,   *)
(*                 ksize, spk, seen = records that came out                *)
(*  origin "count" the real obikmersimcount binary: nm, ksize, spk, seen   *)
(*                 decoded from its output (ans = <<>>: not observable)    *)
(*  origin "match" the real obikmermatch binary: outs = the records        *)
(*                 written for the query (mid = index of the reference     *)
(*                 named by obikmer_match_id, rev = 1 with the suffix      *)
(*                 -rev, orient, mc = obikmer_match_count, ident1 = 1 when *)
(*                 obikmer_identity is 1, alen, seq)                       *)
(* TLC recomputes the canonical k-mers (Kmer.tla) and the counts           *)
(* (KmerSim.tla) and judges each query: explained by the specification     *)
(* ("spec"), by a combination of the listed deviations, or by nothing.     *)
(* Verdict of the event: "ok", "known+<deviations met>", or                *)
(* "bad:<clause>@<query number>".                                          *)
(***************************************************************************)
EXTENDS Integers, Sequences, FiniteSets, TLC, Json, CSV, IOUtils, SequencesExt, KmerSim

VARIABLES l, res

Trace == ndJsonDeserialize(IOEnv.VERIF_TRACE)

KtChars(str) == [i \in 1..Len(str) |-> SubSeq(str, i, i)]
KtIdx(n) == [i \in 1..n |-> i]

(* index (1..8) of the first variant whose value is the observation, 0 when none *)
KtExplain(obs, v(_)) ==
  LET hits == SelectSeq(KtIdx(Len(KsDvOrder)), LAMBDA j : v(KsDvOrder[j]) = obs)
  IN IF hits = <<>> THEN 0 ELSE hits[1]

(* number of references left by the threshold, under variant dv; the order of the addresses is the observed one, *)
(* or - when it cannot be observed (binaries) - both extremes for the query itself                               *)
KtLeft(qk, rbags, ev, self, rank, dv) ==
  Cardinality(KsMatchSet(KsFilter(KsAnswerV(qk, rbags, ev.mo, self, rank, dv), ev.minc)))

KtRanks(ev, self) ==
  IF Len(ev.rank) > 0 THEN {ev.rank}
  ELSE IF self = 0 THEN {KsRankAsc(Len(ev.refs))}
  ELSE {KsRankSelfHigh(Len(ev.refs), self), KsRankSelfLow(Len(ev.refs), self)}

(* verdict of one query: <<"bad:...", 0, "">> or <<"", j, internal>> with j the explaining variant and internal = an *)
(* exact INTERNAL occurrence was not reported as such (listed deviation of obikmermatch)                           *)
KtQuery(qo, ev, rbags, k, sparse) ==
  LET qs == KtChars(qo.s)
      qk == CanonKmers(qs, k, sparse)
      n  == Len(ev.refs)
  IN IF qo.pan = 1 THEN <<"bad:panic", 0, "">>
     ELSE IF ev.origin = "lib" THEN
       LET j == KtExplain(qo.ans, LAMBDA dv : KsAnswerV(qk, rbags, ev.mo, qo.self, ev.rank, dv))
       IN IF j = 0 THEN <<"bad:count", 0, "">>
          ELSE IF qo.rans # qo.ans THEN <<"bad:strand_invariance", 0, "">>
          ELSE IF qo.seen # 1 THEN <<"bad:pipeline_record", 0, "">>
          ELSE IF qo.nm # Cardinality(KsMatchSet(KsFilter(qo.ans, ev.minc))) THEN <<"bad:min_shared_filter", 0, "">>
          ELSE IF qo.ksize # k \/ qo.spk # ev.sp THEN <<"bad:annotations", 0, "">>
          ELSE <<"", j, "">>
     ELSE IF ev.origin = "count" THEN
       LET j == KtExplain(qo.nm, LAMBDA dv : CHOOSE x \in {KtLeft(qk, rbags, ev, qo.self, rk, dv) : rk \in KtRanks(ev, qo.self)} :
                                               (x = qo.nm \/ \A y \in {KtLeft(qk, rbags, ev, qo.self, rk, dv) : rk \in KtRanks(ev, qo.self)} : y # qo.nm))
       IN IF qo.seen # 1 THEN <<"bad:pipeline_record", 0, "">>
          ELSE IF j = 0 THEN <<"bad:match_count", 0, "">>
          ELSE IF qo.ksize # k \/ qo.spk # ev.sp THEN <<"bad:annotations", 0, "">>
          ELSE <<"", j, "">>
     ELSE \* "match": the records obikmermatch wrote for the query
       LET mcs == {qo.outs[h].mc : h \in 1..Len(qo.outs)}
           obsn == IF mcs = {} THEN -1 ELSE CHOOSE x \in mcs : TRUE
           j == IF obsn = -1 THEN 1
                ELSE KtExplain(obsn, LAMBDA dv : KtLeft(qk, rbags, ev, 0, KsRankAsc(n), dv))
           allowed == IF j = 0 THEN {} ELSE KsMatchSet(KsFilter(KsAnswerV(qk, rbags, ev.mo, 0, KsRankAsc(n), KsDvOrder[j]), ev.minc))
           specset == KsMatchSet(KsFilter(KsAnswer(qk, rbags, ev.mo, 0), ev.minc))
           (* exact overlaps with the matched references: must be reported over the whole overlap with identity 1 *)
           ex == [i \in 1..n |-> IF ev.mo = -1 /\ i \in specset /\ PlainSeq(qs) /\ PlainSeq(KtChars(ev.refs[i]))
                                  THEN KsExact(qs, KtChars(ev.refs[i])) ELSE [where |-> "none", rev |-> 0, len |-> 0, pos |-> 0]]
           has(i) == \E h \in 1..Len(qo.outs) :
                        LET ot == qo.outs[h] IN ot.mid = i /\ ot.rev = ex[i].rev /\ ot.ident1 = 1 /\ ot.alen = ex[i].len
           miss(w) == {i \in 1..n : ex[i].where = w /\ ex[i].len > k /\ ex[i].len >= KsMinOverlap /\ ~has(i)}
           missing(w) == miss(w) # {}
           (* an exact end overlap that is not reported, explained by the tie of the placement vote *)
           tied(i) == LET r == KtChars(ev.refs[i])
                          b == IF ex[i].rev = 1 THEN KmerRevCompSeq(r) ELSE r
                      IN KsTieBefore(qs, b, KsExactShift(qs, r, ex[i]))
       IN IF Cardinality(mcs) > 1 THEN <<"bad:match_count", 0, "">>
          ELSE IF j = 0 THEN <<"bad:match_count", 0, "">>
          ELSE IF \E h \in 1..Len(qo.outs) : qo.outs[h].mid \notin allowed THEN <<"bad:match_id", 0, "">>
          ELSE IF \E h1, h2 \in 1..Len(qo.outs) : h1 # h2 /\ qo.outs[h1].mid = qo.outs[h2].mid THEN <<"bad:match_twice", 0, "">>
          ELSE IF \E h \in 1..Len(qo.outs) : (qo.outs[h].rev = 1) # (qo.outs[h].orient = "reverse") THEN <<"bad:orientation", 0, "">>
          ELSE IF \E h \in 1..Len(qo.outs) : qo.outs[h].orient \notin {"forward", "reverse"} THEN <<"bad:orientation", 0, "">>
          ELSE IF \E i \in miss("end") : ~tied(i) THEN <<"bad:exact_overlap", 0, "">>
          ELSE <<"", j, (IF missing("internal") THEN "+internal_occurrence" ELSE "") \o (IF missing("end") THEN "+placement_vote_tie" ELSE "")>>

Verdict(ev) ==
  IF ev.kind # "ks" THEN "harness_unknown_event_kind"
  ELSE IF ev.pan = 1 THEN "bad:panic@0"
  ELSE
  LET sparse == ev.sp = 1
      k == KsEffK(ev.k, sparse)
      rks == [i \in 1..Len(ev.refs) |-> CanonKmers(KtChars(ev.refs[i]), k, sparse)]
      rbags == [i \in 1..Len(ev.refs) |-> KmerBag(rks[i])]
      vs == [h \in 1..Len(ev.queries) |-> KtQuery(ev.queries[h], ev, rbags, k, sparse)]
      bad == SelectSeq(KtIdx(Len(vs)), LAMBDA h : vs[h][1] # "")
      met == [plus |-> \E h \in 1..Len(vs) : KsDvOrder[vs[h][2]].plus,
              occ  |-> \E h \in 1..Len(vs) : KsDvOrder[vs[h][2]].occ,
              slf  |-> \E h \in 1..Len(vs) : KsDvOrder[vs[h][2]].slf]
      internal == \E h \in 1..Len(vs) : vs[h][3] \in {"+internal_occurrence", "+internal_occurrence+placement_vote_tie"}
      tie == \E h \in 1..Len(vs) : vs[h][3] \in {"+placement_vote_tie", "+internal_occurrence+placement_vote_tie"}
  IN IF bad # <<>> THEN vs[bad[1]][1] \o "@" \o ToString(bad[1])
     ELSE IF met = KsSpecDv /\ ~internal /\ ~tie THEN "ok"
     ELSE "known" \o (IF met = KsSpecDv THEN "" ELSE KsDvName(met)) \o (IF internal THEN "+internal_occurrence" ELSE "")
                  \o (IF tie THEN "+placement_vote_tie" ELSE "")

Init == l \in 1..Len(Trace) /\ res = "todo"
Next == res = "todo" /\ res' = Verdict(Trace[l]) /\ UNCHANGED l

Report == (res \notin {"todo", "ok"}) =>
   CSVWrite("%1$s", <<ToJson([l |-> l, why |-> res])>>, IOEnv.VERIF_REJECTS)
=============================================================================

--------------------------- MODULE ObiHeaderTrace ---------------------------
(* Trace validation for the extension check X03 (OBI title-line annotations).  Events recorded from the   *)
(* real code (obiverif record X03, and the real obiconvert binaries run by checks/x03.py); one verdict    *)
(* per event, all TLC workers in parallel.  Texts travel as strings, values as [k, t, v, m] with v the    *)
(* printed value (numbers as Go prints them: the specification computes the value itself, CanonNum).      *)
(*                                                                                                        *)
(*  op = "parse"  a random header text given to the real ParseOBIFeatures: accepted iff annotations and   *)
(*                definition are ObiHeader!ReadHeader of that text (value AND type).                      *)
(*  op = "rt"     a random record r written by the real FormatFastSeqOBIHeader (w1), read by the real     *)
(*                ParseFastSeqOBIHeader (r1), written again (w2), read again (r2); the same record through *)
(*                the real JSON writer and reader (j1); w1 behind the real FASTA reader and the guessing   *)
(*                header reader (g1).  Accepted iff both readings are ReadHeader of the real texts, and,   *)
(*                when r is representable (ObiHeader!Repr): ReadHeader(w1) is r (the writer is faithful),  *)
(*                ReadHeader(w2) = ReadHeader(w1), j1 equals r by value (JSON and OBI headers carry the    *)
(*                same record), g1 = r1 (the guess chose the OBI reader).                                  *)
(*  op = "cmd"    per record of a file: the annotations printed by `obiconvert` (JSON header), the title   *)
(*                text printed by `obiconvert --output-OBI-header`, the annotations printed by the second  *)
(*                stage `| obiconvert [--input-OBI-header]`: accepted iff the OBI text reads as the        *)
(*                record and the second stage returns it, by value.                                        *)
(* A disagreement that the loop AS WRITTEN (ObiHeader!ReadHeaderAsWritten) explains is reported under the  *)
(* name of the departure ("known+skip", "known+drop", ...): these are the listed findings.  Texts outside  *)
(* the decided domain are reported "undecided" (counted, never a violation).                               *)
EXTENDS ObiHeader, Json, CSV, IOUtils

VARIABLES l, res

Trace == ndJsonDeserialize(IOEnv.VERIF_TRACE)

Rng(f) == {f[x] : x \in DOMAIN f}
MemOf(y) == Member(Chars(y.k), y.t, IF y.t = "num" THEN CanonNum(Chars(y.v)) ELSE Chars(y.v))
(* an observed annotation, numbers by value *)
EntOf(x) == [k |-> Chars(x.k), t |-> x.t,
             v |-> IF x.t \in {"int", "float", "num"} THEN CanonNum(Chars(x.v)) ELSE Chars(x.v),
             m |-> {MemOf(y) : y \in Rng(x.m)}]
EntSet(xs) == {EntOf(x) : x \in Rng(xs)}
(* an annotation handed to the writer *)
MemIn(y) == Member(Chars(y.k), y.t, Chars(y.v))
RecOf(x) == [k |-> Chars(x.k), t |-> x.t, v |-> Chars(x.v), ms |-> [n \in 1..Len(x.m) |-> MemIn(x.m[n])]]

(* by value: int and float are numbers, the three kinds of maps are maps *)
ByValue(e) == [e EXCEPT !.t = IF e.t \in {"int", "float", "num"} THEN "num" ELSE IF e.t \in {"map", "mapint", "mapstr"} THEN "map" ELSE e.t]
ByValueSet(S) == {ByValue(e) : e \in S}

DepName(text) == "known" \o DepartureName(text)

(* the real reading (ents, def) of a real text against the specification *)
Conforms(text, ents, def) ==
  LET rd == ReadHeader(text) IN
  IF Undecided(text) THEN "undecided"
  ELSE IF Annots(rd.ents) = ents /\ rd.def = def THEN "ok"
  ELSE LET aw == ReadHeaderAsWritten(text) IN
       IF Annots(aw.ents) = ents /\ aw.def = def THEN DepName(text)
       ELSE IF Annots(rd.ents) # ents THEN "bad:annotations" ELSE "bad:definition"

IsBad(w) == Len(w) >= 4 /\ SubSeq(w, 1, 4) = "bad:"
IsKnown(w) == Len(w) >= 5 /\ SubSeq(w, 1, 5) = "known"
RECURSIVE FirstSuch(_, _, _)
FirstSuch(ws, n, kind) == IF n > Len(ws) THEN ""
                          ELSE IF (kind = "bad" /\ IsBad(ws[n])) \/ (kind = "known" /\ IsKnown(ws[n])) \/ (kind = "undecided" /\ ws[n] = "undecided")
                            THEN ws[n] ELSE FirstSuch(ws, n + 1, kind)
(* a real disagreement first, then a listed one, then "undecided", else ok *)
Combine(ws) == LET b == FirstSuch(ws, 1, "bad") k == FirstSuch(ws, 1, "known") u == FirstSuch(ws, 1, "undecided") IN
               IF b # "" THEN b ELSE IF k # "" THEN k ELSE IF u # "" THEN u ELSE "ok"

---------------------------------------------------------------------------
ParseVerdict(e) ==
  IF e.fatal # 0 THEN "bad:crash"
  ELSE Conforms(Chars(e.text), EntSet(e.ents), Chars(e.def))

---------------------------------------------------------------------------
DistinctKeys(rs) == \A a \in 1..Len(rs), b \in 1..Len(rs) : (a # b) => rs[a].k # rs[b].k

RtVerdict(e) ==
  IF e.fatal # 0 THEN "bad:crash"
  ELSE
  LET rs    == [n \in 1..Len(e.rec) |-> RecOf(e.rec[n])]
      def   == Chars(e.def)
      repr  == (\A n \in 1..Len(rs) : Repr(rs[n])) /\ (def = <<>> \/ ReprDef(def)) /\ DistinctKeys(rs)
      back  == {Back(rs[n]) : n \in 1..Len(rs)}
      w1    == Chars(e.w1)
      w2    == Chars(e.w2)
      rd1   == ReadHeader(w1)
      rd2   == ReadHeader(w2)
      c1    == Conforms(w1, EntSet(e.r1), Chars(e.d1))
      c2    == Conforms(w2, EntSet(e.r2), Chars(e.d2))
      loneBrace == rs = <<>> /\ def # <<>> /\ def[1] = "{"
      faithful == IF ~repr THEN "ok"
                  ELSE IF Annots(rd1.ents) = back /\ rd1.def = def /\ Len(rd1.ents) = Len(rs) THEN "ok" ELSE "bad:writer-not-faithful"
      stable   == IF ~repr \/ c1 # "ok" \/ c2 # "ok" THEN "ok"
                  ELSE IF Annots(rd2.ents) = Annots(rd1.ents) /\ rd2.def = rd1.def THEN "ok" ELSE "bad:second-pass-differs"
      json     == IF ~repr THEN "ok"
                  ELSE IF e.jfatal # 0 THEN "bad:json-crash"
                  ELSE IF ByValueSet(EntSet(e.j1)) = ByValueSet(back) /\ Chars(e.jd1) = def THEN "ok" ELSE "bad:json-and-obi-differ"
      guess    == IF ~repr THEN "ok"
                  ELSE IF e.gfatal # 0 THEN (IF loneBrace THEN "known+brace" ELSE "bad:guess-crash")
                  ELSE IF EntSet(e.g1) = EntSet(e.r1) /\ e.gd1 = e.d1 THEN "ok"
                  ELSE IF loneBrace THEN "known+brace" ELSE "bad:guess-differs"
  IN Combine(<<c1, faithful, json, guess, c2, stable>>)

---------------------------------------------------------------------------
(* one record of a file seen through the commands *)
CmdRecord(x) ==
  LET text   == Chars(x.obi)
      direct == ByValueSet(EntSet(x.direct))
      rd     == ReadHeader(text)
      aw     == ReadHeaderAsWritten(text)
      viaobi == ByValueSet(EntSet(x.via))
  IN  IF Undecided(text) THEN "undecided"
      ELSE IF ByValueSet(Annots(rd.ents)) # direct \/ rd.def # Chars(x.def) THEN "bad:obi-output-is-not-the-record"
      ELSE IF viaobi = direct /\ x.viadef = x.def THEN "ok"
      ELSE IF viaobi = ByValueSet(Annots(aw.ents)) /\ Chars(x.viadef) = aw.def THEN DepName(text)
      ELSE "bad:record-changed-through-obi-header"

CmdVerdict(e) ==
  IF e.hung # 0 THEN "bad:cmd-hung"
  ELSE IF e.rc # 0 THEN "bad:cmd-exit-status"
  ELSE IF e.nrec # Len(e.recs) THEN "bad:cmd-record-count"
  ELSE Combine([n \in 1..Len(e.recs) |-> CmdRecord(e.recs[n])])

Verdict(e) == CASE e.op = "parse" -> ParseVerdict(e) [] e.op = "rt" -> RtVerdict(e) [] e.op = "cmd" -> CmdVerdict(e)

Init == l \in 1..Len(Trace) /\ res = "todo"
Next == res = "todo" /\ res' = Verdict(Trace[l]) /\ UNCHANGED l

Report == (res \notin {"todo", "ok"}) =>
   CSVWrite("%1$s", <<ToJson([l |-> l, why |-> res])>>, IOEnv.VERIF_REJECTS)
=============================================================================

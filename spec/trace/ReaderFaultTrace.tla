-------------------------- MODULE ReaderFaultTrace --------------------------
(* Trace validation for C17.  An event = one run of a real command on one   *)
(* faulted (or intact) compressed file.  The fault is described by what the *)
(* codec itself reports on those bytes (instrument): kind, bytes delivered  *)
(* before the final status (cut) and decompressed size D.  ReaderFault.tla  *)
(* proves FaultIsFatal / NoSilentTruncation / HealthyIsNotFatal for every   *)
(* (D, kind, cut); the event is accepted iff the real exit status and record*)
(* count satisfy them.  The site where the fault surfaces in the reader     *)
(* stack (S = sniffer buffer, B = chunk buffer) is reported for coverage.   *)
EXTENDS Integers, Sequences, TLC, Json, CSV, IOUtils
VARIABLES l, res
RF == INSTANCE ReaderFault WITH S <- 0, B <- 0, MaxD <- 0, AsWritten <- FALSE,
        D <- 0, kind <- "", cut <- 0, pos <- 0, phase <- "", more <- FALSE, fatal <- FALSE, site <- "", parsed <- 0
Trace == ndJsonDeserialize(IOEnv.VERIF_TRACE)

Verdict(e) ==
  IF e.hung # 0 THEN "hung"
  ELSE IF e.kind = "none" THEN
       IF e.rc # 0 THEN "healthy-input-rejected"
       ELSE IF e.nrec_out # e.nrec THEN "records-missing-from-healthy-input"
       ELSE "ok"
  ELSE IF e.rc = 0 THEN "silent-accept"
  ELSE "ok"

Init == l \in 1..Len(Trace) /\ res = "todo"
Next == res = "todo" /\ res' = Verdict(Trace[l]) /\ UNCHANGED l
Report == (res \notin {"todo", "ok"}) =>
   CSVWrite("%1$s", <<ToJson([l |-> l, why |-> res])>>, IOEnv.VERIF_REJECTS)
Sites == (res # "todo") =>
   CSVWrite("%1$s", <<ToJson([l |-> l, site |-> RF!SiteOf(Trace[l].D, Trace[l].kind, Trace[l].d, Trace[l].S, Trace[l].B)])>>, IOEnv.VERIF_SITES)
=============================================================================

-------------------------- MODULE RoundTripTrace --------------------------
(* Trace validation for C02.  Events recorded from the real code (obiverif record C02, and the real   *)
(* obiconvert binaries run by checks/c02.py), one verdict per event, all TLC workers in parallel:     *)
(*                                                                                                    *)
(*  op = "rt"   a batch of random records r (arbitrary Unicode annotations, numbers, nested values;   *)
(*              values canonicalised to atoms, text as bytes) with                                    *)
(*              t0 = Write(r, si), r1 = Read(t0, si), t1 = Write(r1, so), r2 = Read(t1, so),          *)
(*              t2 = Write(r2, so) as produced by the real formatters / chunk parsers / header parser.*)
(*              Accepted iff t0 and t1 are exactly RoundTrip!WriteRec of the records (title line,     *)
(*              60-column folding, "+" line, clamp 93 and shift) around a header that is ONE JSON     *)
(*              object by JsonHeader!TrueObjectEnd, r1 = r2 = r (scores clamped), and t2 = t1.        *)
(*  op = "hdr"  a random title line (JSON object by the standard encoder + free text) given to the    *)
(*              real header parser: accepted iff it did not abort, kept every annotation by value and *)
(*              left as definition what follows JsonHeader!TrueObjectEnd, and the header formatted    *)
(*              from the result parses back to the same annotations and the same text.                *)
(*  op = "cmd"  obiconvert | obiconvert on a file written by the library: accepted iff both exit 0    *)
(*              and each output is RoundTrip!Convert of its input.                                    *)
EXTENDS Integers, Sequences, TLC, Json, CSV, IOUtils

VARIABLES l, res

RT == INSTANCE RoundTrip WITH Lens <- {}, Fmts <- {}, Shifts <- {}, ShapeSet <- {}, QPats <- {}, Defs <- {},
        fmt <- "", len <- 0, qp <- "", shape <- "", def <- "", si <- 0, so <- 0, pc <- "",
        rec <- <<>>, t0 <- <<>>, r1 <- <<>>, t1 <- <<>>, r2 <- <<>>, t2 <- <<>>
JH == INSTANCE JsonHeader WITH MaxV <- 0, Deep <- {}, Shapes <- {}, Tails <- {}, Fixed <- TRUE,
        shape <- "", v <- <<>>, tail <- <<>>, line <- <<>>, pc <- "", i <- 0, level <- 0,
        inquote <- FALSE, esc <- FALSE, start <- 0, stop <- 0

Trace == ndJsonDeserialize(IOEnv.VERIF_TRACE)
B == RT!Byt

(* bytes -> the scanner's character classes *)
Tok(b) == CASE b = 123 -> "{" [] b = 125 -> "}" [] b = 34 -> "\"" [] b = 92 -> "\\" [] b = 32 -> " " [] OTHER -> "x"
Toks(bs) == [k \in 1..Len(bs) |-> Tok(bs[k])]

RECURSIVE TrimL(_)
TrimL(s) == IF s # <<>> /\ Head(s) = 32 THEN TrimL(Tail(s)) ELSE s
RECURSIVE TrimR(_)
TrimR(s) == IF s # <<>> /\ s[Len(s)] = 32 THEN TrimR(SubSeq(s, 1, Len(s) - 1)) ELSE s
TrimB(s) == TrimR(TrimL(s))

---------------------------------------------------------------------------
(* op = "rt" *)

RECURSIVE Off(_, _, _)          \* number of text lines taken by records 1..k-1
Off(rs, f, k) == IF k <= 1 THEN 0 ELSE Off(rs, f, k - 1) + RT!NLines(f, Len(rs[k - 1].seq))
Group(t, rs, f, k) == SubSeq(t, Off(rs, f, k) + 1, Off(rs, f, k + 1))

(* the record a faithful round trip returns *)
Back(r, f) == [r EXCEPT !.qual = IF f = "fasta" THEN <<>>
                                 ELSE IF r.qual = <<>> THEN RT!DefaultQual(Len(r.seq))
                                 ELSE [k \in 1..Len(r.qual) |-> RT!Clamp(r.qual[k])]]

HdrOf(title, r) == SubSeq(title, Len(r.id) + 3, Len(title))
AsRec(r, hdr) == RT!Rec(r.id, hdr, r.seq, r.qual)

RtRecord(e, k) ==
  LET r   == e.r[k]
      g0  == Group(e.t0, e.r, e.fmt, k)
      g1  == Group(e.t1, e.r, e.fmt, k)
      hdr == HdrOf(g0[1], r)
      rd  == RT!ReadRec(B, g0, e.fmt, e.si)
      bk  == Back(r, e.fmt)
  IN  IF g0 # RT!WriteRec(B, AsRec(r, hdr), e.fmt, e.si) THEN "text0-structure"
      ELSE IF (r.ann = "{}") # (hdr = <<>>) THEN "header-presence"
      ELSE IF hdr # <<>> /\ JH!TrueObjectEnd(Toks(hdr)) # Len(hdr) THEN "header-not-one-json-object"
      ELSE IF ~rd.ok \/ rd.id # e.r1[k].id \/ rd.seq # e.r1[k].seq \/ rd.qual # e.r1[k].qual THEN "read-differs-from-spec-read"
      ELSE IF e.r1[k].id # bk.id THEN "read1-id"
      ELSE IF e.r1[k].seq # bk.seq THEN "read1-sequence"
      ELSE IF e.r1[k].qual # bk.qual THEN "read1-qualities"
      ELSE IF e.r1[k].ann # bk.ann THEN "read1-annotations"
      ELSE IF g1 # RT!WriteRec(B, AsRec(bk, hdr), e.fmt, e.so) THEN "text1-structure"
      ELSE IF e.r2[k] # bk THEN "read2-record"
      ELSE "ok"

RECURSIVE RtAll(_, _)
RtAll(e, k) == IF k > Len(e.r) THEN "ok"
               ELSE LET w == RtRecord(e, k) IN IF w # "ok" THEN w ELSE RtAll(e, k + 1)

RtVerdict(e) ==
  IF e.fatal # 0 THEN "fatal"
  ELSE IF Len(e.r1) # Len(e.r) \/ Len(e.r2) # Len(e.r) THEN "record-count"
  ELSE IF Len(e.t0) # Off(e.r, e.fmt, Len(e.r) + 1) \/ Len(e.t1) # Len(e.t0) THEN "line-count"
  ELSE LET w == RtAll(e, 1) IN
       IF w # "ok" THEN w
       ELSE IF e.t2 # e.t1 THEN "rewrite-not-fixed-point"
       ELSE IF e.si = e.so /\ e.t1 # e.t0 THEN "same-shift-different-text"
       ELSE "ok"

---------------------------------------------------------------------------
(* op = "hdr" *)
HdrVerdict(e) ==
  LET end == JH!TrueObjectEnd(Toks(e.line)) IN
  IF end = 0 THEN "generator-no-object"
  ELSE IF e.fatal # 0 THEN "hdr-fatal"
  ELSE IF e.def # TrimB(SubSeq(e.line, end + 1, Len(e.line))) THEN "hdr-definition"
  ELSE IF e.ann_out # e.ann_in THEN "hdr-annotations"
  \* the header formatted from what was parsed is itself one JSON object, parsed back to the same annotations and text
  ELSE IF e.text2 # <<>> /\ JH!TrueObjectEnd(Toks(e.text2)) # Len(e.text2) THEN "hdr-formatted-not-one-json-object"
  ELSE IF e.ann2 # e.ann_all THEN "hdr-reparse-annotations"
  ELSE IF e.text3 # e.text2 THEN "hdr-reparse-text"
  ELSE "ok"

---------------------------------------------------------------------------
(* op = "cmd" *)
CmdVerdict(e) ==
  IF e.hung # 0 THEN "cmd-hung"
  ELSE IF e.rc1 # 0 \/ e.rc2 # 0 THEN "cmd-exit-status"
  ELSE IF e.t1 # RT!Convert(B, e.t0, e.infmt, e.si, e.out1, 33) THEN "cmd-stage1"
  ELSE IF e.t2 # RT!Convert(B, e.t1, e.out1, 33, e.out2, 33) THEN "cmd-stage2"
  ELSE "ok"

Verdict(e) == CASE e.op = "rt" -> RtVerdict(e) [] e.op = "hdr" -> HdrVerdict(e) [] e.op = "cmd" -> CmdVerdict(e)

Init == l \in 1..Len(Trace) /\ res = "todo"
Next == res = "todo" /\ res' = Verdict(Trace[l]) /\ UNCHANGED l

Report == (res \notin {"todo", "ok"}) =>
   CSVWrite("%1$s", <<ToJson([l |-> l, why |-> res])>>, IOEnv.VERIF_REJECTS)
=============================================================================

----------------------------- MODULE PcrTrace -----------------------------
(***************************************************************************)
(* Trace validation for C11.  Every event is one template run through the  *)
(* real PCR code (obiapat.PCRSim, obiapat.PCRSlice as part of a batch, or  *)
(* the obipcr binary, possibly with --fragmented): template, primer texts, *)
(* options and the reported amplicons <segment, direction, forward match,  *)
(* forward errors, reverse match, reverse errors>.  The operators of       *)
(* Pcr.tla are evaluated on the logged arguments and the reported multiset *)
(* is accepted or rejected; a rejected event comes back with the name of   *)
(* the clause it breaks.  Events are independent: all TLC workers validate *)
(* in parallel.                                                            *)
(*                                                                         *)
(* Fragmented runs (frag = 1): the template is cut into overlapping        *)
(* fragments before the search; an amplicon lying inside the overlap of    *)
(* two fragments is found in both, so the comparison is between SETS       *)
(* (every reported amplicon is one of the specification, every amplicon of *)
(* the specification is reported).                                         *)
(***************************************************************************)
EXTENDS Pcr, TLC, Json, CSV, IOUtils

VARIABLES l, res

Trace == ndJsonDeserialize(IOEnv.VERIF_TRACE)

Verdict(ev) ==
  LET Pf == Parse(ev.f)
      Pv == Parse(ev.r)
      o  == [ef |-> ev.ef, er |-> ev.er, mn |-> ev.mn, mx |-> ev.mx, ext |-> ev.ext,
             full |-> ev.full = 1, circ |-> ev.circ = 1]
  IN
  IF ~Asserted(ev.t, Pf, Pv, o) THEN "ok"          \* not decided by the specification
  ELSE IF ev.fatal # 0 THEN "fatal"
  ELSE BagVerdict(ev.out, Amplicons(ev.t, Pf, Pv, o), ev.frag = 1)

Init == l \in 1..Len(Trace) /\ res = "todo"
Next == res = "todo" /\ res' = Verdict(Trace[l]) /\ UNCHANGED l

Report == (res \notin {"todo", "ok"}) =>
   CSVWrite("%1$s", <<ToJson([l |-> l, why |-> res])>>, IOEnv.VERIF_REJECTS)
=============================================================================

---------------------------- MODULE WriterTrace ----------------------------
(* Trace validation for C04: each event is one complete run of a real writer *)
(* (2-4 formatting workers racing, random push order) reduced to the token   *)
(* sequence found on the sink.  Writer.tla proves (invariant FinalOutput)    *)
(* that every arrival history ends with out = Expected(fmt, n, sz); the      *)
(* event is accepted iff the observed tokens are that value, the sink was    *)
(* closed exactly once, after the last write, and nothing hung.              *)
EXTENDS Integers, Sequences, TLC, Json, CSV, IOUtils

VARIABLES l, res
W == INSTANCE Writer WITH MaxN <- 0, Sizes <- {}, Fmts <- {},
        fmt <- "", n <- 0, sz <- <<>>, pending <- {}, received <- {}, nextToPrint <- 0,
        out <- <<>>, wrote <- FALSE, pc <- "", closed <- FALSE, arrival <- <<>>

Trace == ndJsonDeserialize(IOEnv.VERIF_TRACE)

Verdict(e) ==
  LET nn == Len(e.sizes)
      s  == [o \in 0..(nn - 1) |-> e.sizes[o + 1]]
  IN  IF e.hung # 0 THEN "hung"
      ELSE IF e.closes # 1 THEN "close-count"
      ELSE IF e.writeafterclose # 0 THEN "write-after-close"
      ELSE IF e.tokens # W!Expected(e.fmt, nn, s) THEN "tokens"
      ELSE "ok"

Init == l \in 1..Len(Trace) /\ res = "todo"
Next == res = "todo" /\ res' = Verdict(Trace[l]) /\ UNCHANGED l

Report == (res \notin {"todo", "ok"}) =>
   CSVWrite("%1$s", <<ToJson([l |-> l, why |-> res])>>, IOEnv.VERIF_REJECTS)
=============================================================================

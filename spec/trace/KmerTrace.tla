------------------------------ MODULE KmerTrace ------------------------------
(***************************************************************************)
(* Trace validation for C19.  Each event is one observation of the real    *)
(* code (package obikmer) on a seeded random input far beyond the bounded  *)
(* models (k up to 31 for the graph, up to 64 for the index on 64/128/256  *)
(* bit words, sequences of tens to hundreds of bases):                     *)
(*  kind "idx"   NewKmerMap[T](k, sparse) + NormalizedKmerSlice on s and   *)
(*               on its reverse complement r; keys/rkeys = the low k       *)
(*               base-4 digits of the returned words, stray = number of    *)
(*               non-zero digits above them, strs = KmerAsString of the    *)
(*               keys of index si (a c g t = 0..3, '#' = 4)                *)
(*  kind "four"  Count4Mer(s): the non-zero entries <<code, count>>        *)
(*  kind "graph" MakeDeBruijnGraph(k), Push of every (S[i], C[i]); Len,    *)
(*               Weight of probed k-mers P (weights PW), HasCycle,         *)
(*               HaviestPath (path, as k-mers), LongestConsensus (cons,    *)
(*               as digits; <<>> when it returned an error)                *)
(*  kind "cons"  obiconsensus.BuildConsensus(S, k0, min_cov = 0): cons as   *)
(*               digits, kused = the k-mer size it reports having used     *)
(* TLC re-evaluates the definitions of Kmer.tla / DeBruijn.tla on the      *)
(* logged arguments and judges the logged answers.  Stateless: one initial *)
(* state per event, all workers validate in parallel; a rejected event is  *)
(* reported with the reason (= the assertion that failed).                 *)
(* Reasons starting with "harness_" blame the recording, not the code.     *)
(***************************************************************************)
EXTENDS Integers, Sequences, FiniteSets, TLC, Json, CSV, IOUtils, SequencesExt, DeBruijn

VARIABLES l, res

Trace == ndJsonDeserialize(IOEnv.VERIF_TRACE)

RangeOf(q) == {q[i] : i \in 1..Len(q)}

(* KmerAsString with letters as digits and '#' as 4 *)
KeyStringDigits(key, sparse) ==
  LET q == KeyString(key, sparse) IN [i \in 1..Len(q) |-> IF q[i] = "#" THEN 4 ELSE CHOOSE d \in NucDigits : DigitLetter(d) = q[i]]

VerdictIdx(ev) ==
  LET sparse == ev.sp = 1
      want   == CanonKmers(ev.s, ev.k, sparse)
      rwant  == CanonKmers(ev.r, ev.k, sparse)
  IN IF ev.r # KmerRevCompSeq(ev.s) THEN "harness_bad_revcomp"
     ELSE IF ev.pan = 1 THEN "index_panic"
     ELSE IF KmerBag(ev.keys) # KmerBag(ev.rkeys) THEN "strand_invariance"
     ELSE IF Len(ev.keys) # Len(want) \/ Len(ev.rkeys) # Len(rwant) THEN "index_count"
     ELSE IF ev.stray # 0 THEN "canonical_key"                 \* non-zero digits above the k-mer
     ELSE IF \E j \in 1..Len(want) : ev.keys[j] # WPad(want[j], ev.k) THEN "canonical_key"
     ELSE IF \E j \in 1..Len(rwant) : ev.rkeys[j] # WPad(rwant[j], ev.k) THEN "canonical_key"
     ELSE IF \E i \in 1..Len(ev.si) : ev.strs[i] # KeyStringDigits(want[ev.si[i]], sparse) THEN "key_string"
     ELSE "ok"

VerdictFour(ev) ==
  IF ~PlainSeq(ev.s) THEN "harness_fourmer_alphabet"
  ELSE IF ev.pan = 1 THEN "fourmer_panic"
  ELSE IF {<<e[1], e[2]>> : e \in RangeOf(ev.tab)} # FourMerTable(ev.s) \/ Len(ev.tab) # Cardinality(FourMerTable(ev.s))
       THEN "fourmer_table"
  ELSE "ok"

VerdictGraph(ev) ==
  LET W  == WeightsFold(ev.S, ev.C, ev.k)
      N  == DOMAIN W
      ch == CycleAndHeaviest(N, W)
      jp == JudgePath(ev.path, N, W, ch)
      jc == JudgeConsensus(ev.cons, ev.k, N, W, ch)
  IN IF ~(N \subseteq RangeOf(ev.P)) \/ Len(ev.P) # Len(ev.PW) THEN "harness_probe_incomplete"
     ELSE IF \E i \in 1..Len(ev.P) : ev.PW[i] # (IF ev.P[i] \in N THEN W[ev.P[i]] ELSE 0) THEN "graph_weight"
     ELSE IF ev.len # Cardinality(N) THEN "graph_node_count"
     ELSE IF (ev.cyc = 1) # ch[1] THEN "graph_has_cycle"
     ELSE IF ev.pan = 1 THEN "graph_heaviest_panic"
     ELSE IF jp # "ok" THEN "graph_" \o jp
     ELSE IF jc # "ok" THEN "graph_" \o jc
     ELSE IF Len(ev.S) = 1 /\ DistinctKmers(ev.S[1], ev.k) /\ ~ch[1] /\ ev.cons # SeqDigits(ev.S[1]) THEN "graph_single_unchanged"
     ELSE IF "fmin" \in DOMAIN ev /\ ev.fmin > 0 THEN
          (* second stage of the graph's life: the k-mers lighter than fmin removed, the questions asked again *)
          LET N2 == {n \in N : W[n] >= ev.fmin}
              W2 == [n \in N2 |-> W[n]]
          IN IF ev.len2 # Cardinality(N2) THEN "graph_node_count_after_filter"
             ELSE IF (ev.cyc2 = 1) # CycleAndHeaviest(N2, W2)[1] THEN "graph_has_cycle_after_filter"
             ELSE "ok"
     ELSE "ok"

(* obiconsensus.BuildConsensus(S, k0, min_cov = 0) on two sequences or more: the graph of the k-mer size   *)
(* the answer is annotated with (kused: k0 increased until the graph had no cycle) must indeed have no      *)
(* cycle and the consensus must spell one of its heaviest walks.  Which k is reached is not judged.         *)
VerdictCons(ev) ==
  IF ev.pan = 1 THEN "consensus_build_panic"
  ELSE IF ev.err = 1 \/ ev.kused > 31 THEN "ok"                   \* nothing returned / beyond the k of the property
  ELSE IF ev.kused < ev.k0 THEN "consensus_build_kmer_size"
  ELSE LET W  == WeightsFold(ev.S, ev.C, ev.kused)
           N  == DOMAIN W
           ch == CycleAndHeaviest(N, W)
           jc == JudgeConsensus(ev.cons, ev.kused, N, W, ch)
           top == CHOOSE m \in {W[n] : n \in N} : \A n \in N : W[n] <= m
       IN IF jc # "ok" THEN "consensus_build_" \o jc
          ELSE IF "kmax" \in DOMAIN ev /\ ev.kmax >= 0 /\ N # {} /\ ev.kmax # top THEN "consensus_build_max_weight"
          ELSE "ok"

(* kind "qry": an index built from the references, Query of s and of its reverse complement r (hit[i] = 1 when *)
(* reference i is among the answers), the same queries asked by several goroutines at once (conc = number of   *)
(* answers that differed).  A reference is hit exactly when it shares a canonical k-mer with the query, so the *)
(* two strands hit the same references.                                                                          *)
VerdictQry(ev) ==
  LET sparse == ev.sp = 1
      Keys(t) == RangeOf(CanonKmers(t, ev.k, sparse))
      qk == Keys(ev.s)
      want == [i \in 1..Len(ev.refs) |-> IF Keys(ev.refs[i]) \cap qk # {} THEN 1 ELSE 0]
  IN IF ev.r # KmerRevCompSeq(ev.s) THEN "harness_bad_revcomp"
     ELSE IF ev.pan = 1 THEN "index_panic"
     ELSE IF ev.hit # ev.rhit THEN "query_strand_invariance"
     ELSE IF ev.hit # want THEN "query_matches"
     ELSE IF ev.conc # 0 THEN "query_concurrent"
     ELSE "ok"

Verdict(ev) ==
  CASE ev.kind = "idx"   -> VerdictIdx(ev)
    [] ev.kind = "qry"   -> VerdictQry(ev)
    [] ev.kind = "cons"  -> VerdictCons(ev)
    [] ev.kind = "four"  -> VerdictFour(ev)
    [] ev.kind = "graph" -> VerdictGraph(ev)
    [] OTHER -> "harness_unknown_event_kind"

Init == l \in 1..Len(Trace) /\ res = "todo"
Next == res = "todo" /\ res' = Verdict(Trace[l]) /\ UNCHANGED l

Report == (res \notin {"todo", "ok"}) =>
   CSVWrite("%1$s", <<ToJson([l |-> l, why |-> res])>>, IOEnv.VERIF_REJECTS)
=============================================================================

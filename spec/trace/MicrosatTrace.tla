---------------------------- MODULE MicrosatTrace ----------------------------
(***************************************************************************)
(* Trace validation for X04 (a).  Each event is one input record of        *)
(* obimicrosat and everything that was observed for it - from the library  *)
(* worker (origin "lib") or decoded from the output file of the real       *)
(* binary (origin "cmd"):                                                  *)
(*   s, q          the sequence (string) and its quality scores (<<>>:     *)
(*                 none)                                                   *)
(*   umin umax cnt minlen flank re   the options                           *)
(*   n             number of records written for it (0: dropped)           *)
(*   out           the eleven annotations, the sequence written and        *)
(*                 cmp = 1 when the identifier got the suffix _cmp         *)
(*   qout          the scores written;  extra: anything unexpected among   *)
(*                 the annotations;  pan = 1: the worker panicked          *)
(* TLC evaluates Microsat.tla (linear forms) on s and the options and      *)
(* judges: "ok", "known+<departure>" when the record is dropped exactly    *)
(* where the search as written drops it (listed finding), "bad:<clause>".  *)
(***************************************************************************)
EXTENDS Integers, Sequences, FiniteSets, TLC, Json, CSV, IOUtils, SequencesExt, Microsat

VARIABLES l, res

Trace == ndJsonDeserialize(IOEnv.VERIF_TRACE)

MtChars(str) == [i \in 1..Len(str) |-> SubSeq(str, i, i)]

MtObs(ev) ==
  [ul |-> ev.out.ul, uc |-> ev.out.uc, slen |-> ev.out.slen, from |-> ev.out.from, to |-> ev.out.to,
   ms |-> MtChars(ev.out.ms), unit |-> MtChars(ev.out.unit), norm |-> MtChars(ev.out.norm), orient |-> ev.out.orient,
   left |-> MtChars(ev.out.left), right |-> MtChars(ev.out.right), seq |-> MtChars(ev.out.seq), cmp |-> ev.out.cmp]

(* first clause on which the observed record differs from an acceptable one *)
MtDiff(ob, w) ==
  IF ob.from # w.from \/ ob.to # w.to \/ ob.ul # w.ul \/ ob.uc # w.uc THEN "location"
  ELSE IF ob.unit # w.unit THEN "unit"
  ELSE IF ob.norm # w.norm THEN "normalized_unit"
  ELSE IF ob.orient # w.orient THEN "orientation"
  ELSE IF ob.seq # w.seq \/ ob.cmp # w.cmp THEN "reorientation"
  ELSE IF ob.left # w.left \/ ob.right # w.right \/ ob.ms # w.ms THEN "flanks"
  ELSE IF ob.slen # w.slen THEN "seq_length"
  ELSE "none"

Verdict(ev) ==
  LET s == MtChars(ev.s)
      o == [m |-> ev.umin, M |-> ev.umax, N |-> ev.cnt, L |-> ev.minlen, f |-> ev.flank, re |-> ev.re = 1]
      found == MsFoundFast(s, o)
      outs == MsOutputsOf(s, found, o)
  IN IF ev.kind # "ms" THEN "harness_unknown_event_kind"
     ELSE IF ~(o.m >= 1 /\ o.m <= o.M /\ o.N >= 2) THEN "harness_options_outside_the_statement"
     ELSE IF ev.pan = 1 THEN "bad:panic"
     ELSE IF ev.n > 1 THEN "bad:presence"
     ELSE IF ev.n = 0
          THEN IF outs = {} THEN "ok"
               ELSE LET dep == MsDeparture(s, o, found, MsCodeFindFast(s, o))
                    IN IF dep \in {"masked_by_smaller_period", "masked_by_short_repeat"} THEN "known+" \o dep
                       ELSE "bad:presence"
     ELSE IF outs = {} THEN "bad:presence"
     ELSE IF Len(ev.extra) > 0 THEN "bad:annotations"
     ELSE LET ob == MtObs(ev)
              same == {w \in outs : w.orient = ob.orient}
              w == IF same # {} THEN CHOOSE x \in same : TRUE ELSE CHOOSE x \in outs : TRUE
          IN IF ob \notin outs THEN "bad:" \o MtDiff(ob, w)
             ELSE IF ev.qout # (IF ob.cmp = 1 THEN Reverse(ev.q) ELSE ev.q) THEN "bad:qualities"
             ELSE "ok"

Init == l \in 1..Len(Trace) /\ res = "todo"
Next == res = "todo" /\ res' = Verdict(Trace[l]) /\ UNCHANGED l

Report == (res \notin {"todo", "ok"}) =>
   CSVWrite("%1$s", <<ToJson([l |-> l, why |-> res])>>, IOEnv.VERIF_REJECTS)
=============================================================================

INIT Init
NEXT Next
INVARIANT Report

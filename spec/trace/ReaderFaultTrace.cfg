INIT Init
NEXT Next
INVARIANTS Report Sites

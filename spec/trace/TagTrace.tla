------------------------------- MODULE TagTrace -------------------------------
(***************************************************************************)
(* Trace validation for C15.  Each line of the trace is one call of the    *)
(* real code on a seeded random scenario far beyond the bounded model      *)
(* (hundreds of references of 30-120 bases, random taxonomies):            *)
(*   closest  [fn, alpha, q, refs, inb, maxe]  obitag/obitag2.FindClosests *)
(*            inb[i] = 1 iff reference i was returned, maxe = the distance *)
(*   index    [refs, taxa, parent, kk, idx]    obirefidx.IndexSequence for *)
(*            reference kk; idx = <<distance, taxid>> pairs                *)
(*   assign   [q, refs, taxa, parent, taxid]   obitag.Identify             *)
(*   kmer     [q, refs = <<b>>, common]        obikmer.Common4Mer          *)
(* TLC re-evaluates the reference definitions of Tag.tla on the logged     *)
(* arguments and judges the logged answers.  Stateless: one initial state  *)
(* per event - and, for a search, one per (event, reference): the answer   *)
(* is right iff every reference taken separately is rightly in or out, so  *)
(* each state costs one dynamic programme at most and all TLC workers      *)
(* validate in parallel.  Rejected states are reported with the reason.    *)
(*                                                                         *)
(* Two facts proved on the bounded model (TagModel!KernelFacts) save       *)
(* dynamic programmes: Dist(a, b) >= LenDiff(a, b) and Dist(a, a) = 0.     *)
(***************************************************************************)
EXTENDS Tag, TLC, Json, CSV, IOUtils

VARIABLES l, i, res

Trace == ndJsonDeserialize(IOEnv.VERIF_TRACE)

NStates(ev) == IF ev.k = "closest" THEN Len(ev.refs) ELSE 1

(* one reference of a search.  {a,c,g,t} queries: returned <=> at the minimal distance, which is maxe. *)
(* For the property over all references this reads: a returned reference is at distance maxe, a        *)
(* reference that was not returned is farther than maxe.  Queries with ambiguity codes: the prefilter  *)
(* is not defined for them (they count as 'a'); only the soundness of the distance is asked: a         *)
(* returned reference is within maxe.                                                                  *)
JudgeClosest(ev, j) ==
  LET r    == ev.refs[j]
      inb  == ev.inb[j] = 1
      e    == ev.maxe
  IN IF ev.err # "" THEN "closest.crash"
     ELSE IF e < 0 \/ \A x \in 1..Len(ev.inb) : ev.inb[x] = 0 THEN "closest.empty_answer"
     ELSE IF ev.alpha = "acgt"
     THEN IF ~inb /\ LenDiff(ev.q, r) > e THEN "ok"
          ELSE LET d == Dist(ev.q, r) IN
               IF inb THEN (IF d = e THEN "ok" ELSE "closest.distance")
               ELSE IF d > e THEN "ok"
               ELSE IF d = e THEN "closest.best_set" ELSE "closest.distance"
     ELSE IF inb /\ Dist(ev.q, r) > e THEN "closest.iupac_distance" ELSE "ok"

(* the identity returned with the answer: the best, over the returned references, of LCS length over  *)
(* the length of the shortest alignment achieving it; compared in millionths, one unit of rounding.   *)
JudgeIdentity(ev) ==
  IF ev.alpha # "acgt" \/ ev.err # "" THEN "ok"
  ELSE LET B   == {x \in 1..Len(ev.inb) : ev.inb[x] = 1}
           ppm(p) == (2 * p[1] * 1000000 + p[2]) \div (2 * p[2])
           ids == {ppm(LCSPair(ev.q, ev.refs[x])) : x \in B}
           top == CHOOSE v \in ids : \A w \in ids : w <= v
       IN IF B = {} THEN "ok"
          ELSE IF ev.idppm - top \in {-1, 0, 1} THEN "ok" ELSE "closest.identity"

(* distances of reference k to all references, exact below the bound B and only "at least B" above it *)
DistsFrom(refs, k, B) ==
  [j \in 1..Len(refs) |->
     IF j = k THEN 0
     ELSE IF LenDiff(refs[k], refs[j]) >= B THEN LenDiff(refs[k], refs[j])
     ELSE Dist(refs[k], refs[j])]

IdxFn(pairs) == [d \in {pairs[x][1] : x \in 1..Len(pairs)} |->
                   pairs[CHOOSE x \in 1..Len(pairs) : pairs[x][1] = d][2]]

JudgeIndex(ev) ==
  IF ev.err # "" THEN "index.crash"
  ELSE LET T   == [parent |-> ev.parent]
           idx == IdxFn(ev.idx)
           len == Len(ev.refs[ev.kk])
           B   == MaxI(len, IF DOMAIN idx = {} THEN 0 ELSE MostOf(DOMAIN idx) + 1)
           dv  == DistsFrom(ev.refs, ev.kk, B)
       IN IF ~EntriesOK(idx, T, ev.taxa, dv) THEN "index.entry"
          ELSE IF ~LookupOK(idx, T, ev.taxa, dv, len) THEN "index.lookup"
          ELSE "ok"

JudgeAssign(ev) ==
  IF ev.err # "" THEN "assign.crash"
  ELSE LET T  == [parent |-> ev.parent]
           n  == Len(ev.refs)
           pv == PairVec(ev.q, ev.refs)
           c  == ClosestOf(ErrVec(pv))
           dm == [b \in 1..n |-> IF b \in c.best THEN DistsFrom(ev.refs, b, Len(ev.refs[b])) ELSE <<>>]
           exp == Assigned(T, ev.refs, ev.taxa, pv, dm)
       IN IF ev.taxid = exp THEN "ok"
          ELSE IF ev.taxid \notin TX!Node(T) \/ ~CoversBest(T, ev.taxa, c.best, ev.taxid) THEN "assign.ancestor"
          ELSE "assign.taxon"

JudgeKmer(ev) ==
  IF ev.err # "" THEN "kmer.crash"
  ELSE IF ev.common = Common4(ev.q, ev.refs[1]) THEN "ok" ELSE "kmer.common4"

Verdict(ev, j) ==
  CASE ev.k = "closest" -> LET v == JudgeClosest(ev, j) IN IF v = "ok" /\ j = 1 THEN JudgeIdentity(ev) ELSE v
    [] ev.k = "index"   -> JudgeIndex(ev)
    [] ev.k = "assign"  -> JudgeAssign(ev)
    [] ev.k = "kmer"    -> JudgeKmer(ev)
    [] OTHER -> "unknown-event-kind"

Init == l \in 1..Len(Trace) /\ i \in 1..NStates(Trace[l]) /\ res = "todo"
Next == res = "todo" /\ res' = Verdict(Trace[l], i) /\ UNCHANGED <<l, i>>

Report == (res \notin {"todo", "ok"}) =>
   CSVWrite("%1$s", <<ToJson([l |-> l, i |-> i, why |-> res])>>, IOEnv.VERIF_REJECTS)
=============================================================================

---------------------------- MODULE TaxFindTrace ----------------------------
(***************************************************************************)
(* Trace validation for X06.  The harness writes a random taxonomy as an   *)
(* NCBI dump and logs                                                      *)
(*    {"e":"load", parent, rank, name, alt, alias}                         *)
(* followed by the runs of the real binaries on THAT dump:                 *)
(*    {"e":"find",  q, args, rc, out}      one obifind command line        *)
(*    {"e":"annot", opts, recs, rc, obs}   one obiannotate run             *)
(*    {"e":"lca", slot, E, recs, rc, obs}  obiannotate --add-lca-in        *)
(* Every run is judged by FindVerdict / AnnotVerdict of TaxFind.tla against*)
(* the taxonomy loaded last.  One behaviour per taxonomy.                  *)
(***************************************************************************)
EXTENDS TaxFind, Json, CSV, IOUtils

VARIABLES l, cur, res

Trace == ndJsonDeserialize(IOEnv.VERIF_TRACE)

TaxOf(i) == [parent |-> Trace[i].parent, rank |-> Trace[i].rank, name |-> Trace[i].name,
             alt |-> Trace[i].alt, alias |-> Trace[i].alias]

LoadVerdict(e) ==
  LET n == Len(e.parent) IN
  IF Len(e.alt) # n \/ Len(e.name) # n \/ Len(e.rank) # n THEN "bad-input"
  ELSE IF n <= 48 /\ ~IsTaxonomy([parent |-> e.parent, rank |-> e.rank, name |-> e.name, alias |-> e.alias]) THEN "bad-input"
  ELSE "ok"

Verdict(T, e) ==
  IF e.e = "find" THEN
     IF ~IsQuery(e.q) \/ e.args # [i \in 1..Len(e.q.pats) |-> Arg(e.q.pats[i])] THEN "bad-input"
     ELSE FindVerdict(T, e.q, e.rc, e.out)
  ELSE IF e.e = "annot" THEN
     IF e.rc = 0 /\ e.err # "" THEN "output not decoded"
     ELSE AnnotVerdict(T, e.opts, e.recs, e.rc, e.obs)
  ELSE IF e.e = "lca" THEN
     IF e.rc = 0 /\ e.err # "" THEN "output not decoded"
     ELSE LcaVerdict(T, e.slot, e.E, e.recs, e.rc, e.obs)
  ELSE "bad-input"

Init == /\ l \in { i \in 1..Len(Trace) : Trace[i].e = "load" }
        /\ cur = l
        /\ res = LoadVerdict(Trace[l])

Next == /\ l < Len(Trace) /\ Trace[l + 1].e # "load"
        /\ l' = l + 1 /\ cur' = cur
        /\ res' = Verdict(TaxOf(cur), Trace[l + 1])

Report == (res # "ok") => CSVWrite("%1$s", <<ToJson([l |-> l, why |-> res])>>, IOEnv.VERIF_REJECTS)
=============================================================================

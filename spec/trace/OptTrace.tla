------------------------------ MODULE OptTrace ------------------------------
(***************************************************************************)
(* Trace validation for C16.  Each event is one run, on a random command   *)
(* line and random records far outside the curated data set, either of the *)
(* real library entry points (level "lib": real option parser ->           *)
(* CLIFilterSequence / CLISequenceSelectionPredicate,                      *)
(* CLIAnnotationPipeline, CLIDistributeSequence; 4-15 records) or of the   *)
(* real binaries (level "bin": files of 60-400 records, output files       *)
(* decoded).  The event carries the command line as                        *)
(* option instances, the records read and what came out; it is accepted    *)
(* iff that is what Grep / Annotate / Route assign to the command line.    *)
(*                                                                         *)
(*  grep : opts v ids mode recs mates | out outm (records written, forward *)
(*         and mate, ordered by input rank) pred (ranks accepted by the    *)
(*         bare predicate, unpaired runs)                                  *)
(*  annot: opts recs | out (records written, in output order)              *)
(*  dist : D recs crc | files = <<[name, ranks, recs]>>                    *)
(***************************************************************************)
EXTENDS Grep, Annotate, Route, Json, CSV

VARIABLES l, res

Trace == ndJsonDeserialize(IOEnv.VERIF_TRACE)

SetOf(s) == {s[i] : i \in 1..Len(s)}
Pick(recs, ranks) == [i \in 1..Len(ranks) |-> recs[ranks[i]]]
(* qualities are only carried (and compared) when the records were built with qualities *)
Same(a, b, fq) == a.id = b.id /\ a.seq = b.seq /\ a.attrs = b.attrs /\ (fq = 1 => a.qual = b.qual)
SameSeq(x, y, fq) == Len(x) = Len(y) /\ \A i \in 1..Len(x) : Same(x[i], y[i], fq)

GrepVerdict(e) ==
  LET S   == SetOf(e.opts)
      OO  == [crit |-> S, v |-> (e.v = 1), ids |-> SetOf(e.ids)]
      two == e.mode # "none"
      K   == IF two THEN KeptPairRanks(e.recs, e.mates, OO, e.mode) ELSE KeptRanks(e.recs, OO)
      ranks == Asc(Len(e.recs), K, 1)
  IN  IF ~(\A x \in S : WellFormedCrit(x)) \/ ~Compatible(S) \/ (e.mode \notin Modes \cup {"none"})
         \/ (two /\ Len(e.mates) # Len(e.recs)) \/ (e.v = 1 /\ S = {}) THEN "bad-event"
      ELSE IF e.hung # 0 THEN "hung"
      ELSE IF e.fatal # 0 THEN "fatal"
      ELSE IF [i \in 1..Len(e.out) |-> e.out[i].id] # [i \in 1..Len(ranks) |-> e.recs[ranks[i]].id] THEN "kept"
      ELSE IF ~SameSeq(e.out, Pick(e.recs, ranks), e.fastq) THEN "record-changed"
      ELSE IF two /\ ~SameSeq(e.outm, Pick(e.mates, ranks), e.fastq) THEN "mates"
      ELSE IF ~two /\ e.level = "lib" /\ SetOf(e.pred) # K THEN "predicate"
      ELSE "ok"

AnnotVerdict(e) ==
  LET E   == SetOf(e.opts)
      exp == AnnotateOut(e.recs, E)
  IN  IF ~(\A x \in E : WellFormedEdit(x)) \/ ~Expressible(E) THEN "bad-event"
      ELSE IF e.hung # 0 THEN "hung"
      ELSE IF e.fatal # 0 THEN "fatal"
      ELSE IF [i \in 1..Len(e.out) |-> e.out[i].id] # [i \in 1..Len(exp) |-> exp[i].id] THEN "records"
      ELSE IF \E i \in 1..Len(exp) : e.out[i].seq # exp[i].seq \/ (e.fastq = 1 /\ e.out[i].qual # exp[i].qual) THEN "sequence"
      ELSE IF ~SameSeq(e.out, exp, e.fastq) THEN "attributes"
      ELSE "ok"

DistVerdict(e) ==
  LET exp == Distribute(e.recs, e.crc, e.D)
      got == SetOf(e.files)
  IN  IF Len(e.crc) # Len(e.recs) \/ (e.D.c = "" /\ e.D.n <= 0 /\ e.D.h <= 0) THEN "bad-event"
      ELSE IF e.hung # 0 THEN "hung"
      ELSE IF e.fatal # 0 THEN "fatal"
      ELSE IF {f.name : f \in got} # DOMAIN exp \/ Cardinality(got) # Len(e.files) THEN "file-set"
      ELSE IF \E f \in got : SetOf(f.ranks) # SetOf(exp[f.name]) \/ Len(f.ranks) # Len(exp[f.name]) THEN "file-content"
      ELSE IF \E f \in got : ~SameSeq(f.recs, Pick(e.recs, f.ranks), 0) THEN "record-changed"
      ELSE "ok"

Verdict(e) ==
  CASE e.tool = "grep"  -> GrepVerdict(e)
    [] e.tool = "annot" -> AnnotVerdict(e)
    [] e.tool = "dist"  -> DistVerdict(e)
    [] OTHER            -> "unknown-tool"

Init == l \in 1..Len(Trace) /\ res = "todo"
Next == res = "todo" /\ res' = Verdict(Trace[l]) /\ UNCHANGED l

Report == (res \notin {"todo", "ok"}) =>
   CSVWrite("%1$s", <<ToJson([l |-> l, why |-> res])>>, IOEnv.VERIF_REJECTS)
=============================================================================

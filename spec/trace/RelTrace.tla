------------------------------ MODULE RelTrace ------------------------------
(***************************************************************************)
(* Trace validation for the extension check X01 (obijoin, obidemerge,      *)
(* obisplit).  Each event is one run of the real code on seeded random     *)
(* data far outside the bounded models, through the library entry point    *)
(* ("lib") or the command binary ("cmd"):                                  *)
(*                                                                         *)
(*  sub = "join"    by flags main part | out   : a whole obijoin run; the  *)
(*        output stream must be, group after group in main order, a        *)
(*        permutation of RelJoin!Group (left outer equi-join).             *)
(*  sub = "demerge" key recs | out             : a whole obidemerge run;   *)
(*        the output stream must be RelDemerge!Groups, group after group.  *)
(*  sub = "split"   pats ranks e read qual id ann | out : one read through *)
(*        obisplit; the decoded fragment list must be one of               *)
(*        SplitCut!AllowedFrags, every fragment the read restricted to its *)
(*        location (identifier, nucleotides, qualities, other annotations).*)
(*        indel = 1 (--allows-indels): the occurrences are spans within an *)
(*        edit budget; only the clauses that do not depend on which spans  *)
(*        the matcher prefers are judged (tiling, genuine flanks, frame).  *)
(*                                                                         *)
(* status # "ok": the run failed before there was an output to judge       *)
(* (non-zero exit, hang, undecodable output): rejected as "failed".        *)
(***************************************************************************)
EXTENDS Integers, Sequences, FiniteSets, SequencesExt, TLC, Json, CSV, IOUtils

VARIABLES l, res

J  == INSTANCE RelJoin
D  == INSTANCE RelDemerge
SC == INSTANCE SplitCut

Trace == ndJsonDeserialize(IOEnv.VERIF_TRACE)

---------------------------------------------------------------------------
NormJ(rs) == [i \in DOMAIN rs |-> [id |-> rs[i].id, seq |-> rs[i].seq, qual |-> rs[i].qual, ann |-> rs[i].ann]]
JoinVerdict(e) ==
  LET opt == [by |-> [i \in DOMAIN e.by |-> <<e.by[i][1], e.by[i][2]>>],
              uid |-> e.flags[1] = 1, useq |-> e.flags[2] = 1, uqual |-> e.flags[3] = 1]
  IN  IF e.status # "ok" THEN "failed"
      ELSE IF \E i \in DOMAIN e.main : ~J!WellFormed(e.main[i]) THEN "bad-event"
      ELSE J!StreamVerdict(NormJ(e.out), NormJ(e.main), NormJ(e.part), opt)

---------------------------------------------------------------------------
NormD(rs) == [i \in DOMAIN rs |-> [id |-> rs[i].id, seq |-> rs[i].seq, qual |-> rs[i].qual, count |-> rs[i].count,
                                   ann |-> rs[i].ann, stats |-> rs[i].stats]]
DemergeVerdict(e) ==
  IF e.status # "ok" THEN "failed"
  ELSE IF \E i \in DOMAIN e.recs : ~D!InScope(e.recs[i], e.key) THEN "bad-event"
  ELSE D!StreamVerdict(NormD(e.out), NormD(e.recs), e.key)

---------------------------------------------------------------------------
Core(o) == [from |-> o.from, to |-> o.to, group |-> o.group, set |-> o.set, lerr |-> o.lerr, rerr |-> o.rerr,
            lpat |-> o.lpat, rpat |-> o.rpat, lmatch |-> o.lmatch, rmatch |-> o.rmatch, frg |-> o.frg, nfrg |-> o.nfrg]
Spans(F) == [i \in DOMAIN F |-> <<F[i].from, F[i].to>>]

(* every fragment is the read restricted to its location *)
FrameOK(e) ==
  \A i \in DOMAIN e.out :
     LET o == e.out[i] IN
     /\ 0 <= o.from /\ o.from < o.to /\ o.to <= Len(e.read)
     /\ o.seq = SubSeq(e.read, o.from + 1, o.to)
     /\ o.qual = (IF e.qual = "" THEN "" ELSE SubSeq(e.qual, o.from + 1, o.to))
     /\ o.id = e.id \o "_sub[" \o ToString(o.from + 1) \o ".." \o ToString(o.to) \o "]"
     /\ o.extra = e.ann

SplitVerdict(e) ==
  LET S   == SC!ToSyms(e.read)
      cfg == [i \in DOMAIN e.pats |-> [tag |-> e.pats[i][1], pool |-> e.pats[i][2], rank |-> e.ranks[i]]]
      got == [i \in DOMAIN e.out |-> Core(e.out[i])]
      A   == SC!AllowedFrags(cfg, S, e.e)
  IN  IF e.status # "ok" THEN "failed"
      ELSE IF \E i \in DOMAIN e.out : e.out[i].bad # "" THEN "annotation"
      ELSE IF SC!OrderCount(SC!Raw(cfg, S, e.e)) > 4096 THEN "skip-too-many-equal-starts"    \* not judged (counted by the check)
      ELSE IF got \notin A THEN (IF \E F \in A : Spans(F) = Spans(got) THEN "annotation" ELSE "sites")
      ELSE IF ~FrameOK(e) THEN "frame"
      ELSE "ok"

(* --allows-indels: a flank must be a span of the read whose edit distance to the named pattern (on the strand *)
(* that gives the reported text) is the reported error count, within the budget; fragments and flanks tile     *)
(* the stretch they delimit; numbering, frame.  Which spans are chosen is not judged.                          *)
IndelFlankOK(e, S, tag, match, err, from, to) ==      \* the flank occupies S[from, to)
  LET Pf == SC!Parse(SC!TagChars(tag))
      w  == SubSeq(S, from + 1, to)
  IN  /\ err <= e.e /\ 0 <= from /\ from <= to /\ to <= Len(S)
      /\ \/ (match = SC!ToText(w) /\ SC!EdSpan(Pf, S, from, to) = err)
         \/ (match = SC!ToText(SC!RC(w)) /\ SC!EdSpan(SC!Comp(Pf), S, from, to) = err)
SplitIndelVerdict(e) ==
  LET S == SC!ToSyms(e.read)
      n == Len(e.out)
      tags == {e.pats[i][1] : i \in DOMAIN e.pats}
  IN  IF e.status # "ok" THEN "failed"
      ELSE IF \E i \in DOMAIN e.out : e.out[i].bad # "" THEN "annotation"
      ELSE IF ~FrameOK(e) THEN "frame"
      ELSE IF \E i \in 1..n : e.out[i].frg # i \/ e.out[i].nfrg # n THEN "annotation"
      ELSE IF \E i \in 1..(n - 1) : e.out[i].to > e.out[i + 1].from THEN "sites"
      ELSE IF \E i \in 1..n : (e.out[i].lpat = "") # (e.out[i].from = 0) \/ (e.out[i].rpat = "") # (e.out[i].to = Len(S)) THEN "sites"
      ELSE IF \E i \in 1..n : LET o == e.out[i] IN
                 \/ (o.lpat # "" /\ (o.lpat \notin tags \/ ~IndelFlankOK(e, S, o.lpat, o.lmatch, o.lerr, o.from - Len(o.lmatch), o.from)))
                 \/ (o.rpat # "" /\ (o.rpat \notin tags \/ ~IndelFlankOK(e, S, o.rpat, o.rmatch, o.rerr, o.to, o.to + Len(o.rmatch))))
           THEN "flank"
      ELSE "ok"

---------------------------------------------------------------------------
Verdict(e) ==
  CASE e.sub = "join"    -> JoinVerdict(e)
    [] e.sub = "demerge" -> DemergeVerdict(e)
    [] e.sub = "split"   -> IF e.indel = 1 THEN SplitIndelVerdict(e) ELSE SplitVerdict(e)
    [] OTHER             -> "unknown-event"

Init == l \in 1..Len(Trace) /\ res = "todo"
Next == res = "todo" /\ res' = Verdict(Trace[l]) /\ UNCHANGED l

Report == (res \notin {"todo", "ok"}) =>
   CSVWrite("%1$s", <<ToJson([l |-> l, why |-> res])>>, IOEnv.VERIF_REJECTS)
=============================================================================

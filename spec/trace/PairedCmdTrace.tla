-------------------------- MODULE PairedCmdTrace --------------------------
(***************************************************************************)
(* Trace validation for X05.  Events recorded from the real BINARIES       *)
(* (obipairing, obitagpcr, obicomplement) run on seeded random files:      *)
(*   kind "run"   one command run: identifiers of the input files and of   *)
(*                every output file in file order, exit status;            *)
(*   kind "pair"  pair i of an obipairing run: the two reads as they are   *)
(*                in the files, the options, the answer K of the alignment *)
(*                kernel called by the harness on (forward, rc(reverse))   *)
(*                with the options of the command line, and record i of    *)
(*                the output;                                              *)
(*   kind "tag"   pair i of an obitagpcr run: the same plus the sample     *)
(*                sheet and the two output records with the file they were *)
(*                found in;                                                *)
(*   kind "comp"  record i of an obicomplement run, before and after.      *)
(* TLC evaluates PairedCmd.tla (PEAlign / Demux / SeqVal operators) on the *)
(* logged inputs and judges the logged outputs.  Stateless.                *)
(***************************************************************************)
EXTENDS PairedCmd, Json, CSV, IOUtils

VARIABLES l, res

Trace == ndJsonDeserialize(IOEnv.VERIF_TRACE)

FirstBad(vs) == IF \A k \in 1..Len(vs) : vs[k] = "ok" THEN "ok"
                ELSE vs[CHOOSE k \in 1..Len(vs) : vs[k] # "ok" /\ \A m \in 1..(k - 1) : vs[m] = "ok"]
Chk(cond, why) == IF cond THEN "ok" ELSE why

MarkerOfEv(em, es) ==
  [fP |-> DX!Parse(em.fwd), rP |-> DX!Parse(em.rev), ef |-> em.ef, er |-> em.er, indel |-> es.indel = 1, mode |-> es.mode,
   sf |-> em.sf, sr |-> em.sr, lf |-> em.lf, lr |-> em.lr,
   smp |-> [j \in DOMAIN em.samples |-> [ft |-> em.samples[j].ft, rt |-> em.samples[j].rt, name |-> em.samples[j].name]]]
SheetOfEv(sh) == [i \in DOMAIN sh.markers |-> MarkerOfEv(sh.markers[i], sh)]

OptsOf(ev) == [minov |-> ev.minov, idn |-> ev.idn, idd |-> ev.idd]

KernelOK(ev) ==
  /\ ev.kb = RevRead(ev.r) /\ ev.kqb = RevQual(ev.qr)
  /\ Len(ev.qf) = Len(ev.f) /\ Len(ev.qr) = Len(ev.r)

---------------------------------------------------------------------------
(* obipairing, one pair *)
JudgePair(ev) ==
  LET A   == Assemble(ev.f, ev.qf, ev.kb, ev.kqb, ev.k, OptsOf(ev))
      o   == ev.out
      st  == ev.stat = 1
      fa  == ev.fast = 1 /\ A.aln
  IN
  [why |-> FirstBad(<<
     Chk(o.present = 1, "pair.record_missing"),
     Chk(o.id = ev.fid, "pair.identifier"),
     Chk(o.mode = (IF A.aln THEN "alignment" ELSE "join"), "pair.mode"),
     Chk(o.seq = A.seq, IF A.aln THEN "pair.consensus" ELSE "pair.join_sequence"),
     Chk(IF A.aln THEN PE!QualsOK(A.cols, o.qual) ELSE o.qual = A.jqual,
         IF A.aln THEN "pair.consensus_quality" ELSE "pair.join_quality"),
     Chk(IF st THEN o.score = ev.k.score ELSE o.score = -1000000, "pair.score"),
     Chk(IF st THEN o.ali = A.ali ELSE o.ali = -1, "pair.ali_length"),
     Chk(IF st THEN o.match = A.match ELSE o.match = -1, "pair.seq_ab_match"),
     Chk(IF st THEN NormOK(o.norm, A.match, A.ali) ELSE o.norm = -1, "pair.score_norm"),
     Chk(IF st /\ A.aln THEN o.dir = A.dir /\ o.sas = A.sas /\ o.sbs = A.sbs
         ELSE o.dir = "" /\ o.sas = -1 /\ o.sbs = -1, "pair.single"),
     Chk(IF fa THEN o.fc = ev.k.fc /\ o.over = ev.k.over /\ o.fs = ev.k.fs
         ELSE o.fc = -1 /\ o.over = -1 /\ o.fs = -1, "pair.fast_stats"),
     Chk(AsSet(o.mm) = A.mm /\ Len(o.mm) = Cardinality(A.mm), "pair.pairing_mismatches"),
     \* the consensus is a new record (no annotation of the reads); a joined pair is the forward read, extended
     Chk(o.kann = (IF A.aln THEN -1 ELSE ev.fk), "pair.read_annotations"),
     Chk(o.extra = <<>>, "pair.unknown_annotation")
   >>),
   tags |-> <<IF A.aln THEN "pair/alignment" ELSE "pair/join">>
            \o (IF A.mm # {} THEN <<"pair/mismatches">> ELSE <<>>)
            \o (IF A.aln /\ ev.k.left = 0 THEN <<"pair/right">> ELSE <<>>)
            \o (IF ~st THEN <<"pair/without-stat">> ELSE <<>>)
            \o (IF ev.fast = 0 THEN <<"pair/exact">> ELSE <<>>)]

---------------------------------------------------------------------------
(* obitagpcr, one pair *)
AnnOK(a, T, readk) ==
  LET o == T.o IN
  IF T.kind = "assigned"
  THEN FirstBad(<<
         Chk(a.ek = "none", "tag.error_on_assigned"),
         Chk(a.smp = o.smp, "tag.sample"),
         Chk(a.exp = "e_" \o o.smp, "tag.experiment"),
         Chk(a.dir = o.dir, "tag.direction"),
         Chk(a.ft = o.ft /\ a.rt = o.rt, "tag.tags"),
         Chk(a.fm = o.fm /\ a.rm = o.rm, "tag.primer_match"),
         Chk(a.fe = o.fe /\ a.re = o.re, "tag.primer_mismatches"),
         Chk(a.kann = readk, "tag.read_annotations") >>)
  ELSE FirstBad(<<
         Chk(a.ek = T.kind, "tag.error_kind"),
         Chk(T.kind = "tagpair" => (a.epf = T.pf /\ a.epr = T.pr), "tag.error_tags"),
         Chk(a.smp = "", "tag.sample_on_error"),
         Chk(a.kann = readk, "tag.read_annotations") >>)

JudgeTag(ev) ==
  LET A     == Assemble(ev.f, ev.qf, ev.kb, ev.kqb, ev.k, OptsOf(ev))
      sheet == SheetOfEv(ev.sheet)
      T     == TagOutcome(sheet, Codes(A.seq))
      sw    == Swapped(T.kind, T.o.dir, ev.reorient = 1)
      wh    == WhereOf(T.kind, ev.keeperr = 1, ev.unid = 1)
      F     == [id |-> ev.fid, seq |-> ev.f, qual |-> ev.qf, k |-> ev.fk]
      R     == [id |-> ev.rid, seq |-> ev.r, qual |-> ev.qr, k |-> ev.rk]
      e1    == IF sw THEN R ELSE F
      e2    == IF sw THEN F ELSE R
      Same(o, e) == o.id = e.id /\ o.seq = e.seq /\ o.qual = e.qual
  IN
  IF ~A.aln /\ DotsTouched(sheet, Codes(A.seq), JoinDots(Len(ev.f))) THEN [why |-> "ok", tags |-> <<"tag/dots-under-a-primer">>]
  ELSE IF T.amb THEN [why |-> "ok", tags |-> <<"tag/ambiguous">>]
  ELSE
  [why |-> FirstBad(<<
     Chk(ev.where = wh, IF wh = "unid" /\ ev.where = "none" THEN "tag.unidentified_lost" ELSE "tag.file"),
     Chk(wh # "none" => Same(ev.o1, e1) /\ Same(ev.o2, e2), IF ev.reorient = 1 THEN "tag.reorientate" ELSE "tag.reads"),
     IF wh = "none" THEN "ok" ELSE AnnOK(ev.o1.ann, T, e1.k),
     IF wh = "none" THEN "ok" ELSE AnnOK(ev.o2.ann, T, e2.k)
   >>),
   tags |-> <<"tag/" \o T.kind, "tag/where-" \o wh>>
            \o (IF T.kind = "assigned" THEN <<"tag/dir-" \o T.o.dir>> ELSE <<>>)
            \o (IF sw THEN <<"tag/swapped">> ELSE <<>>)
            \o (IF A.aln THEN <<"tag/alignment">> ELSE <<"tag/join">>)]

---------------------------------------------------------------------------
(* obicomplement, one record *)
MMSet(ms) == AsSet(ms)
JudgeComp(ev) ==
  LET v == SV!VRC([seq |-> ev.cin.seq, qual |-> ev.cin.qual, mm |-> MMSet(ev.cin.mm)])
      o == ev.cout
  IN
  [why |-> FirstBad(<<
     Chk(o.present = 1, "comp.record_missing"),
     Chk(o.id = ev.cin.id, "comp.identifier"),
     Chk(o.seq = v.seq, "comp.sequence"),
     Chk(o.qual = v.qual, "comp.qualities"),
     Chk(MMSet(o.mm) = v.mm /\ Len(o.mm) = Cardinality(v.mm), "comp.pairing_mismatches"),
     Chk(o.kann = ev.cin.kann, "comp.annotations") >>),
   tags |-> <<"comp/record">> \o (IF ev.cin.mm # <<>> THEN <<"comp/mismatches">> ELSE <<>>)
            \o (IF ev.cin.qual = <<>> THEN <<"comp/fasta">> ELSE <<"comp/fastq">>)]

---------------------------------------------------------------------------
(* one command run: count and order *)
JudgeRun(ev) ==
  LET same == ev.nf = ev.nr IN
  [why |->
    IF ev.cmd = "obicomplement"
    THEN Chk(ev.rc = 0 /\ ev.r1 = ev.fids, "run.count_order")
    ELSE IF ~same THEN FirstBad(<< Chk(ev.rc # 0, "run.unequal_files_accepted"), Chk(ev.rc # -9, "run.unequal_files_hang") >>)
    ELSE IF ev.cmd = "obipairing" THEN Chk(ev.rc = 0 /\ ev.r1 = ev.fids, "run.count_order")
    ELSE FirstBad(<<
           Chk(ev.rc = 0, IF ev.wgpanic = 1 THEN "run.unidentified_writer_panic" ELSE "run.exit_status"),
           Chk(ev.r1 = ev.r2, "run.pair_files_differ"),
           Chk(ev.u1 = ev.u2, "run.unidentified_lost"),
           Chk(IsSubsequence(ev.r1, ev.fids) /\ IsSubsequence(ev.u1, ev.fids), "run.count_order"),
           Chk(AsSet(ev.r1) \cap AsSet(ev.u1) = {}, "run.pair_in_both_files"),
           Chk((ev.keeperr = 1 /\ ev.unid = 0) => Len(ev.r1) = ev.nf, "run.pair_lost"),
           Chk(ev.unid = 1 => Len(ev.r1) + Len(ev.u1) = ev.nf, "run.unidentified_lost") >>),
   tags |-> <<"run/" \o ev.cmd>> \o (IF same THEN <<>> ELSE <<"run/unequal">>)
            \o (IF ev.workers > 1 THEN <<"run/parallel">> ELSE <<>>)
            \o (IF ev.batch < ev.nf THEN <<"run/several-batches">> ELSE <<>>)]

Verdict(ev) ==
  IF ev.kind = "run" THEN JudgeRun(ev)
  ELSE IF ev.kind = "comp" THEN JudgeComp(ev)
  ELSE IF ~KernelOK(ev) THEN [why |-> "kernel.input", tags |-> <<>>]
  ELSE IF ~PE!Consumes(ev.k.path, Len(ev.f), Len(ev.kb)) THEN [why |-> "kernel.path", tags |-> <<>>]
  ELSE IF ev.kind = "pair" THEN JudgePair(ev)
  ELSE JudgeTag(ev)

Todo == [why |-> "todo", tags |-> <<>>]
Init == l \in 1..Len(Trace) /\ res = Todo
Next == res = Todo /\ res' = Verdict(Trace[l]) /\ UNCHANGED l

Report ==
  (res # Todo) =>
     /\ CSVWrite("%1$s", <<ToJson([l |-> l, tags |-> res.tags])>>, IOEnv.VERIF_TAGS)
     /\ (res.why # "ok" => CSVWrite("%1$s", <<ToJson([l |-> l, why |-> res.why])>>, IOEnv.VERIF_REJECTS))
=============================================================================

INIT TInit
NEXT TNext
INVARIANT TReport

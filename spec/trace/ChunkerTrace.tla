---------------------------- MODULE ChunkerTrace ----------------------------
(***************************************************************************)
(* Trace validation for C01 (production constants).  One event = one run   *)
(* of the real code on a file LARGER than the read buffer, built by the    *)
(* harness as a sequence e.recs of SHAPES of the TLA+ generators (the      *)
(* "Big" shape lists of TextFasta / TextFastq / TextFlat; record number k  *)
(* of the file carries the serial number k-1 in its identifier):           *)
(*   op = "chunks": ReadSeqFileChunk with a 1 MiB buffer, cut positions    *)
(*                  e.cuts = <<from, to, order, first, next>> and the      *)
(*                  records parsed from the chunks;                        *)
(*   op = "read"  : ReadSequencesFromFile (file / .gz, 1-8 parsing         *)
(*                  workers) or the kseq reader: batch numbers e.orders    *)
(*                  in arrival order, records sorted by batch number;      *)
(*   op = "cmd"   : the obiconvert binary (file argument, stdin, .gz),     *)
(*                  records decoded from its output.                       *)
(* e.got[k] is the number of the shape whose EXPECTED PARSE (exported by   *)
(* TLC from the same generators) the k-th delivered record equals, -1 if   *)
(* none; e.serials[k] its serial number.                                   *)
(*                                                                         *)
(* The event is accepted iff the delivered records are the records of the  *)
(* file in file order, and (chunks) the cuts satisfy the ABSTRACT contract *)
(* of Chunker.tla: chunk k is numbered k-1, starts where a record starts   *)
(* (record start offsets are recomputed here from the lengths of the       *)
(* rendered shapes), ends inside the end-of-line of the record before the  *)
(* next chunk, and the chunks cover the file.  Any cut at a record         *)
(* boundary is accepted: the positions chosen by the splitters are not     *)
(* prescribed.                                                             *)
(***************************************************************************)
EXTENDS Integers, Sequences, TLC, Json, CSV, IOUtils

VARIABLES l, res

AllFmts == {"fasta", "fastq", "genbank", "embl"}
C == INSTANCE Chunker WITH Fmts <- AllFmts, Sel <- [x \in AllFmts |-> {}], Big <- TRUE, MaxRecs <- 1,
        FinalEols <- {TRUE}, MinB <- 2, Mode <- "gen",
        f <- 0, file <- <<>>, starts <- <<>>, B <- 0, lo <- 0, hi <- 0, err <- "", end <- 0,
        chunks <- <<>>, i <- 0, pc <- "", steps <- 0

Trace == ndJsonDeserialize(IOEnv.VERIF_TRACE)

(* lengths of the rendered shapes, and of their final end-of-line: computed once *)
LenTable == TLCEval([fm \in AllFmts |->
              TLCEval([k \in 1..Len(C!ShapesOf(fm)) |-> Len(C!SegText(C!RecSegs(fm, C!ShapesOf(fm)[k])))])])
EolTable == TLCEval([fm \in AllFmts |->
              TLCEval([k \in 1..Len(C!ShapesOf(fm)) |-> IF C!ShapesOf(fm)[k].eol = "CRLF" THEN 2 ELSE 1])])

(* offset of record k of the file (k = N+1: size of the file): sum of the lengths of the shapes before it *)
RECURSIVE SumRange(_, _, _, _)         \* divide and conquer: recursion depth log N (files of 30 000 records)
SumRange(fm, recs, a, b) ==
  IF a > b THEN 0
  ELSE IF a = b THEN LenTable[fm][recs[a]]
  ELSE LET m == (a + b) \div 2 IN SumRange(fm, recs, a, m) + SumRange(fm, recs, m + 1, b)
StartOf(e, k) == SumRange(e.fmt, e.recs, 1, k - 1)

ShapesKnown(e) == \A k \in 1..Len(e.recs) : e.recs[k] \in 1..Len(LenTable[e.fmt])

CutsOK(e) ==
  LET N  == Len(e.recs)
      n  == Len(e.cuts)
  IN  /\ n >= 1
      /\ StartOf(e, N + 1) = e.size
      /\ \A k \in 1..n :
           LET c == e.cuts[k] IN        \* <<from, to, order, first, next>>
           /\ c[3] = k - 1
           /\ c[4] \in 1..N /\ StartOf(e, c[4]) = c[1]                 \* starts where record `first` starts
           /\ c[5] \in (c[4] + 1)..(N + 1)
           /\ LET nx == StartOf(e, c[5]) IN                            \* whole records: ends in the end-of-line
                c[2] <= nx /\ c[2] >= nx - EolTable[e.fmt][e.recs[c[5] - 1]]   \* of the last one
           /\ c[4] = IF k = 1 THEN 1 ELSE e.cuts[k - 1][5]              \* nothing skipped, nothing twice
           /\ (k = n) => c[5] = N + 1

IsPerm(o) == /\ \A k \in 1..Len(o) : o[k] \in 0..(Len(o) - 1)
             /\ \A j, k \in 1..Len(o) : j # k => o[j] # o[k]

Verdict(e) ==
  LET N == Len(e.recs) IN
  IF ~ShapesKnown(e) THEN "bad-event"
  ELSE IF e.status = 2 THEN "hung"
  ELSE IF e.status = 1 THEN "fatal"
  ELSE IF e.op = "features" THEN "ok"     \* feature tables of the entries read together = read alone (status 1 otherwise)
  ELSE IF Len(e.got) # N THEN "count"
  ELSE IF e.got # e.recs THEN "records"
  ELSE IF e.serials # [k \in 1..N |-> k - 1] THEN "order"
  ELSE IF e.op = "chunks" /\ ~CutsOK(e) THEN "cuts"
  ELSE IF e.op = "read" /\ ~IsPerm(e.orders) THEN "batch-numbers"
  ELSE "ok"

Init == l \in 1..Len(Trace) /\ res = "todo"
Next == res = "todo" /\ res' = Verdict(Trace[l]) /\ UNCHANGED l

Report == (res \notin {"todo", "ok"}) =>
   CSVWrite("%1$s", <<ToJson([l |-> l, why |-> res])>>, IOEnv.VERIF_REJECTS)
=============================================================================

---------------------------- MODULE CommandTrace ----------------------------
(* Trace validation for C05 (binary level).  An event = one command with one *)
(* input and one set of FUNCTIONAL options, run under many configurations    *)
(* (max-cpu, batch-size, GOMAXPROCS, repetitions); each run is reduced to    *)
(* its exit status and the digest of its output bytes.  Pipeline.tla proves  *)
(* Confluence (the delivered stream is a function of the input whatever the  *)
(* schedule); the event is accepted iff all runs succeeded and all digests   *)
(* are equal - the output is a function of (input, functional options).      *)
EXTENDS Integers, Sequences, TLC, Json, CSV, IOUtils
VARIABLES l, res
Trace == ndJsonDeserialize(IOEnv.VERIF_TRACE)

FirstBad(e) ==
  LET bad == {i \in 1..Len(e.runs) : e.runs[i].rc # 0 \/ e.runs[i].hung # 0 \/ e.runs[i].sha # e.runs[1].sha}
  IN IF bad = {} THEN 0 ELSE CHOOSE i \in bad : \A j \in bad : i <= j

Verdict(e) ==
  LET b == FirstBad(e) IN
  IF b = 0 THEN "ok"
  ELSE IF e.runs[b].hung # 0 THEN "hung"
  ELSE IF e.runs[b].rc # 0 THEN "exit-status"
  ELSE "output-differs"

Init == l \in 1..Len(Trace) /\ res = "todo"
Next == res = "todo" /\ res' = Verdict(Trace[l]) /\ UNCHANGED l
Report == (res \notin {"todo", "ok"}) =>
   CSVWrite("%1$s", <<ToJson([l |-> l, why |-> res, run |-> FirstBad(Trace[l])])>>, IOEnv.VERIF_REJECTS)
=============================================================================

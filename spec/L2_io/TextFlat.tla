------------------------------ MODULE TextFlat ------------------------------
(***************************************************************************)
(* GenBank and EMBL flat-file generators (property C01).  Descriptor       *)
(*   [id, deflines, sciname, taxid, seq, extra, eol]                       *)
(* deflines: 1 or 2 lines of the definition (the second one is a           *)
(*   continuation line); the parsed definition joins them with one blank;  *)
(* sciname : "" = the entry has no SOURCE / OS line;                       *)
(* taxid   : 0  = the source feature has no /db_xref="taxon:..." (the      *)
(*   readers then annotate the record with taxid 1, the root);             *)
(* extra   : the optional lines (ACCESSION, VERSION, KEYWORDS, ORGANISM,   *)
(*   other qualifiers starting with '/', XX, AC, OC, FH) are present.      *)
(* Tags: L first line  D definition  O organism  F feature table           *)
(*       X the taxon cross-reference  G ORIGIN/SQ line  s sequence line    *)
(*       t the terminator "//"  m other lines  e eol.                      *)
(***************************************************************************)
EXTENDS TextBase

FlRec(id, deflines, sciname, taxid, seq, extra, eol) ==
  [id |-> id, deflines |-> deflines, sciname |-> sciname, taxid |-> taxid, seq |-> seq,
   extra |-> extra, eol |-> eol]

FlatExpect(d) == Parsed(d.id, JoinWith(d.deflines, " "), Lower(d.seq), <<>>,
                        IF d.taxid = 0 THEN 1 ELSE d.taxid, d.sciname)

Opt(c, segs) == IF c THEN segs ELSE <<>>
SeqBlocks(line) == JoinWith(Blocks(line, 10), " ")

(* ------------------------------- GenBank ------------------------------- *)
GenbankSegs(d) ==
  LET n  == Len(d.seq)
      e  == d.eol
      L(t, s) == Line(<<Seg(t, s)>>, e)
      sl == Blocks(d.seq, 60)
  IN  L("L", "LOCUS       " \o PadRight(d.id, 12) \o PadLeft(Digits(n), 6) \o " bp    DNA     linear   UNK")
      \o L("D", "DEFINITION  " \o d.deflines[1])
      \o Opt(Len(d.deflines) > 1, L("D", "            " \o d.deflines[Len(d.deflines)]))
      \o Opt(d.extra, L("m", "ACCESSION   " \o d.id) \o L("m", "VERSION     " \o d.id \o ".1") \o L("m", "KEYWORDS    ."))
      \o Opt(d.sciname # "", L("O", "SOURCE      " \o d.sciname))
      \o Opt(d.sciname # "" /\ d.extra, L("m", "  ORGANISM  " \o d.sciname) \o L("m", "            Eukaryota; Metazoa."))
      \o L("F", "FEATURES             Location/Qualifiers")
      \o L("F", "     source          1.." \o Digits(n))
      \o Opt(d.extra, L("F", "                     /organism=\"" \o d.sciname \o "\"")
                      \o L("F", "                     /mol_type=\"genomic DNA\""))
      \o Opt(d.taxid # 0, L("X", "                     /db_xref=\"taxon:" \o Digits(d.taxid) \o "\""))
      \o Opt(d.extra, L("F", "                     /note=\"a // b\""))
      \o L("G", "ORIGIN")
      \o FlatSeq([j \in 1..Len(sl) |-> L("s", PadLeft(Digits((j - 1) * 60 + 1), 9) \o " " \o SeqBlocks(sl[j]))])
      \o L("t", "//")

(* -------------------------------- EMBL --------------------------------- *)
EmblSegs(d) ==
  LET n  == Len(d.seq)
      e  == d.eol
      L(t, s) == Line(<<Seg(t, s)>>, e)
      sl == Blocks(d.seq, 60)
      upto(j) == Min(j * 60, n)
  IN  L("L", "ID   " \o d.id \o "; SV 1; linear; genomic DNA; STD; UNC; " \o Digits(n) \o " BP.")
      \o Opt(d.extra, L("m", "XX") \o L("m", "AC   " \o d.id \o ";") \o L("m", "XX"))
      \o FlatSeq([k \in 1..Len(d.deflines) |-> L("D", "DE   " \o d.deflines[k])])
      \o Opt(d.extra, L("m", "XX"))
      \o Opt(d.sciname # "", L("O", "OS   " \o d.sciname))
      \o Opt(d.sciname # "" /\ d.extra, L("m", "OC   Eukaryota; Metazoa."))
      \o Opt(d.extra, L("m", "XX") \o L("F", "FH   Key             Location/Qualifiers") \o L("F", "FH"))
      \o L("F", "FT   source          1.." \o Digits(n))
      \o Opt(d.extra, L("F", "FT                   /organism=\"" \o d.sciname \o "\"")
                      \o L("F", "FT                   /mol_type=\"genomic DNA\""))
      \o Opt(d.taxid # 0, L("X", "FT                   /db_xref=\"taxon:" \o Digits(d.taxid) \o "\""))
      \o Opt(d.extra, L("F", "FT                   /note=\"a // b\"") \o L("m", "XX"))
      \o L("G", "SQ   Sequence " \o Digits(n) \o " BP;")
      \o FlatSeq([j \in 1..Len(sl) |-> L("s", "     " \o PadRight(SeqBlocks(sl[j]), 66) \o PadLeft(Digits(upto(j)), 9))])
      \o L("t", "//")

(* Entries with and without the taxon cross-reference, with and without organism line,  *)
(* with a continued definition, qualifiers starting with '/', "//" inside a line,       *)
(* sequences on 1-2 lines, CR LF.                                                       *)
FlatShapes == <<
  FlRec("A1",   <<"d.">>,                                "Hs",           9,    "acgt",          FALSE, "LF"),
  FlRec("B2",   <<"e.">>,                                "Mm",           0,    "tg",            FALSE, "CRLF"),
  FlRec("AB1",  <<"Homo sapiens gene.">>,                "Homo sapiens", 9606, "acgtacgtac",    FALSE, "LF"),
  FlRec("CD2",  <<"no taxon here.">>,                    "Mus musculus", 0,    "ttgacc",        FALSE, "LF"),
  FlRec("EF3",  <<"a definition on", "two lines.">>,     "Zea mays",     4577, "ggatccaagcttggatccaagctt", TRUE, "LF"),
  FlRec("GH4",  <<"no organism, no taxon.">>,            "",             0,    "cat",           FALSE, "LF"),
  FlRec("IJ5",  <<"crlf entry.">>,                       "Bos taurus",   9913, "acgtacgtacgtac", TRUE, "CRLF"),
  FlRec("KL6",  <<"sixty-five bases //", "on two lines.">>, "Danio rerio", 7955,
        Rep("acgtt", 13),                                                                        FALSE, "LF"),
  FlRec("MN7",  <<"crlf without taxon.">>,               "Sus scrofa",   0,    "gg",            FALSE, "CRLF"),
  FlRec("OP8",  <<"taxon without organism line.">>,      "",             3702, "tttt",          FALSE, "LF")
>>

FlatBigShapes == <<
  FlRec("F000000", <<"filler entry.">>,                  "Homo sapiens", 9606, Rep("acgtgcatgactagctagcatgcatgcaacgttgca", 100), TRUE, "LF"),
  FlRec("A000000", <<"Homo sapiens gene.">>,             "Homo sapiens", 9606, "acgtacgtac",    FALSE, "LF"),
  FlRec("C000000", <<"no taxon here.">>,                 "Mus musculus", 0,    "ttgacc",        FALSE, "LF"),
  FlRec("E000000", <<"a definition on", "two lines.">>,  "Zea mays",     4577, "ggatccaagcttggatccaagctt", TRUE, "LF"),
  FlRec("G000000", <<"no organism, no taxon.">>,         "",             0,    "cat",           FALSE, "LF"),
  FlRec("I000000", <<"crlf entry.">>,                    "Bos taurus",   9913, "acgtacgtacgtac", TRUE, "CRLF")
>>
=============================================================================

---------------------------- MODULE WriterFault ----------------------------
(***************************************************************************)
(* C18 - the writer of Writer.tla in front of a sink that fails.           *)
(*                                                                         *)
(* Layers (pkg/obiutils/gzipfile.go, pkg/obiformats/seqfile_chunk_write.go)*)
(*   writer goroutine --Write(chunk)--> bufio.Writer(CAP) --Write--> sink  *)
(*   Close() = Flush(); [compressor.Close();] sink.Close()                 *)
(* The sink accepts K bytes and then fails every Write; its Close may fail.*)
(* bufio semantics are the ones of Go's bufio.Writer: a write larger than  *)
(* the free space fills and flushes the buffer (or goes straight to the    *)
(* sink when the buffer is empty); the first error is STICKY: every later  *)
(* Write/Flush returns it without touching the sink.                       *)
(*                                                                         *)
(* REQUIRED behaviour (the property): every error returned to the writer   *)
(* goroutine by Write (direct or drained branch), by the Flush inside      *)
(* Close and by Close itself makes the command fail (fatal).  Then         *)
(*        exit = 0  =>  bytes accepted by the sink = bytes produced.       *)
(* `surfaced` records WHERE the first error came back; TLC's coverage of   *)
(* its four values shows that every check site is needed.                  *)
(***************************************************************************)
EXTENDS Integers, Sequences, FiniteSets, TLC, Json, CSV, IOUtils

CONSTANTS MaxN, Lens, CAP

VARIABLES n, len,                 \* number of chunks, byte length of each chunk
          K, failClose,           \* fault: sink budget in bytes (-1 = never fails), Close fails
          pending, received, nextToPrint, pc, arrival,     \* as in Writer.tla
          buffered,               \* bytes sitting in the bufio buffer
          accepted,               \* bytes the sink has taken
          sticky,                 \* bufio's sticky error
          fatal,                  \* the writer reported a failure (log.Fatalf -> exit status != 0)
          surfaced,               \* "none" | "write-direct" | "write-drained" | "flush" | "close"
          closed
vars == <<n, len, K, failClose, pending, received, nextToPrint, pc, arrival, buffered, accepted, sticky, fatal, surfaced, closed>>

RECURSIVE SumLen(_, _)
SumLen(l, k) == IF k = 0 THEN 0 ELSE l[k - 1] + SumLen(l, k - 1)   \* l indexed 0..n-1
Total == SumLen(len, n)

(* the sink takes `b` bytes: returns <<accepted', ok>> *)
SinkWrite(acc, b) == IF K < 0 \/ acc + b <= K THEN <<acc + b, TRUE>>
                     ELSE <<(IF K > acc THEN K ELSE acc), FALSE>>

(* bufio.Writer.Write(p) with |p| = b : returns <<buffered', accepted', sticky'>> *)
RECURSIVE BufWrite(_, _, _, _)
BufWrite(b, buf, acc, err) ==
  IF err THEN <<buf, acc, TRUE>>
  ELSE IF b <= CAP - buf THEN <<buf + b, acc, FALSE>>
  ELSE IF buf = 0 THEN LET r == SinkWrite(acc, b) IN <<0, r[1], ~r[2]>>          \* large write, empty buffer: direct
  ELSE LET fill == CAP - buf                                                       \* fill, flush, go on
           r == SinkWrite(acc, CAP)
       IN  IF r[2] THEN BufWrite(b - fill, 0, r[1], FALSE) ELSE <<CAP, r[1], TRUE>>

Flush(buf, acc, err) ==
  IF err THEN <<buf, acc, TRUE>>
  ELSE IF buf = 0 THEN <<0, acc, FALSE>>
  ELSE LET r == SinkWrite(acc, buf) IN IF r[2] THEN <<0, r[1], FALSE>> ELSE <<buf, r[1], TRUE>>

Init ==
  /\ n \in 1..MaxN
  /\ len \in [0..(n - 1) -> Lens]
  /\ K \in -1..(SumLen(len, n))
  /\ failClose \in BOOLEAN
  /\ pending = 0..(n - 1) /\ received = {} /\ nextToPrint = 0 /\ pc = "recv" /\ arrival = <<>>
  /\ buffered = 0 /\ accepted = 0 /\ sticky = FALSE /\ fatal = FALSE /\ surfaced = "none" /\ closed = FALSE

(* one chunk handed to the buffered writer; `site` names the branch of the writer goroutine *)
WriteChunk(o, site) ==
  LET r == BufWrite(len[o], buffered, accepted, sticky) IN
  /\ buffered' = r[1] /\ accepted' = r[2] /\ sticky' = r[3]
  /\ nextToPrint' = nextToPrint + 1
  /\ IF r[3] /\ ~fatal
       THEN fatal' = TRUE /\ surfaced' = site /\ pc' = "dead"      \* REQUIRED: the error is checked here
       ELSE UNCHANGED <<fatal, surfaced>> /\ pc' = "drain"

Arrive(o) ==
  /\ pc = "recv" /\ o \in pending
  /\ pending' = pending \ {o} /\ arrival' = Append(arrival, o)
  /\ IF o = nextToPrint
       THEN WriteChunk(o, "write-direct") /\ UNCHANGED received
       ELSE received' = received \cup {o} /\ UNCHANGED <<nextToPrint, pc, buffered, accepted, sticky, fatal, surfaced>>
  /\ UNCHANGED <<n, len, K, failClose, closed>>

Drain ==
  /\ pc = "drain"
  /\ IF nextToPrint \in received
       THEN WriteChunk(nextToPrint, "write-drained") /\ received' = received \ {nextToPrint}
       ELSE pc' = "recv" /\ UNCHANGED <<received, nextToPrint, buffered, accepted, sticky, fatal, surfaced>>
  /\ UNCHANGED <<n, len, K, failClose, pending, arrival, closed>>

ChanClosed == /\ pc = "recv" /\ pending = {} /\ pc' = "closing"
              /\ UNCHANGED <<n, len, K, failClose, pending, received, nextToPrint, arrival, buffered, accepted, sticky, fatal, surfaced, closed>>

Close ==
  /\ pc = "closing"
  /\ LET r == Flush(buffered, accepted, sticky) IN
       /\ buffered' = r[1] /\ accepted' = r[2] /\ sticky' = r[3]
       /\ closed' = TRUE
       /\ IF r[3] THEN fatal' = TRUE /\ surfaced' = "flush"
          ELSE IF failClose THEN fatal' = TRUE /\ surfaced' = "close"
          ELSE UNCHANGED <<fatal, surfaced>>
  /\ pc' = "done"
  /\ UNCHANGED <<n, len, K, failClose, pending, received, nextToPrint, arrival>>

Next == (\E o \in 0..(MaxN - 1) : Arrive(o)) \/ Drain \/ ChanClosed \/ Close
Spec == Init /\ [][Next]_vars /\ WF_vars(Next)

---------------------------------------------------------------------------
Finished == pc \in {"done", "dead"}
ExitZero == pc = "done" /\ ~fatal
(* the property *)
NoSilentLoss == ExitZero => (accepted = Total /\ buffered = 0)
FaultReported == (Finished /\ ((K >= 0 /\ K < Total) \/ failClose)) => fatal
NoFalseAlarm == (Finished /\ ~((K >= 0 /\ K < Total) \/ failClose)) => ~fatal
Terminates == <>Finished

Export == Finished =>
  CSVWrite("%1$s", <<ToJson([lens |-> [i \in 1..n |-> len[i - 1]], arrival |-> arrival, k |-> K, total |-> Total,
                            failclose |-> IF failClose THEN 1 ELSE 0, fatal |-> IF fatal THEN 1 ELSE 0,
                            surfaced |-> surfaced])>>, IOEnv.VERIF_CASES)
=============================================================================

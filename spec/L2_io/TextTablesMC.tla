----------------------------- MODULE TextTablesMC -----------------------------
(* Bounded model of TextTables (extension check X03, part c): a hand-written table of CSV quotings, records x    *)
(* column options through the CSV writer and back, ecoPCR files of one to four lines (both versions, duplicated  *)
(* names, ### placeholders); every case is exported with the values the specification assigns.                   *)
EXTENDS TextTables

CONSTANTS TTFamilies,     \* subset of {"csv", "ecopcr", "quote"}
          TTDeep          \* TRUE: every option set, FALSE: a rotation

---------------------------------------------------------------------------
(* the bounded model *)

(* quote table: a field and its written form, by hand *)
QT(f, w) == [f |-> Chars(f), w |-> Chars(w)]
QuoteTable == <<QT("abc", "abc"), QT("", ""), QT("a,b", "\"a,b\""), QT("say \"hi\"", "\"say \"\"hi\"\"\""), QT(" lead", "\" lead\""),
                QT("trail ", "trail "), QT("#x", "#x"), QT("\\.", "\"\\.\""), QT("\"", "\"\"\"\""), QT("a b", "a b"), QT("\tx", "\"\tx\""),
                QT("a;b", "a;b"), QT("it's", "it's")>>

KV(k, t, v) == [k |-> Chars(k), t |-> t, v |-> Chars(v)]
CsvValues == <<KV("k", "int", "3"), KV("k", "float", "0.5"), KV("k", "bool", "true"), KV("k", "str", "hello"), KV("k", "str", "a,b"),
               KV("k", "str", "say \"hi\""), KV("k", "str", " lead"), KV("k", "str", "42"), KV("k", "str", "true"), KV("k", "str", "null"),
               KV("k", "str", "\"q\""), KV("k", "str", ""), KV("k", "str", "#x"), KV("k", "str", "1e3"), KV("k", "int", "-7"),
               KV("k", "str", "NA"), KV("k", "str", "{a}"), KV("k", "bool", "false"), KV("k", "str", "x y"), KV("k", "float", "1e-05")>>
CsvReprTable == <<TRUE, TRUE, TRUE, TRUE, TRUE, TRUE, TRUE, FALSE, FALSE, FALSE, FALSE, TRUE, TRUE, FALSE, TRUE, TRUE, FALSE, TRUE, TRUE, TRUE>>
CsvIds == <<"s1", "#s2", "seq,3">>
CsvQuals == << <<>>, <<40, 40, 40, 40>>, <<11, 1, 2, 30>> >>
CsvExtras == << <<>>, <<KV("count", "int", "3"), KV("taxid", "int", "9606"), KV("scientific_name", "str", "Homo sapiens")>>,
                <<KV("taxid", "int", "1")>>, <<KV("taxid", "int", "9606")>> >>
CsvDefs == <<"", "a, \"b\" c">>
Bit(n, b) == (n \div b) % 2 = 1
OptsOf(n) == [id |-> TRUE, count |-> Bit(n, 1), taxon |-> Bit(n, 2), definition |-> Bit(n, 4), sequence |-> ~Bit(n, 8), quality |-> Bit(n, 16),
              keys |-> <<Chars("k"), Chars("zz")>>, na |-> NA]

EcoRowsPool == <<
  \* v2: 22 fields
  << Chars("AB000001   "), Chars("  120 "), Chars("  9606 "), Chars("species              "), Chars("  9606 "), Chars("Homo sapiens                  "),
     Chars("  9605 "), Chars("Homo                          "), Chars("  9604 "), Chars("Hominidae                     "), Chars("  2759 "),
     Chars("Eukaryota                     "), Chars("D"), Chars("GGGCAATCCTGAGCCAA               "), Chars(" 0 "), Chars(" 54.3 "),
     Chars("CCATTGAGTCTCTGCACCTATC          "), Chars(" 2 "), Chars(" 48.05 "), Chars("   12 "), Chars("ATCCTGTTTTCC"), Chars("Homo sapiens chloroplast, partial") >>,
  << Chars("AB000001   "), Chars("  98 "), Chars("  4530 "), Chars("no rank"), Chars("  ### "), Chars("###"),
     Chars("  4527 "), Chars("Oryza"), Chars("  ### "), Chars("###"), Chars("  2759 "),
     Chars("Eukaryota"), Chars("R"), Chars("GGGCAATCCTGAGCCAG"), Chars(" 1 "), Chars(" 50 "),
     Chars("CCATTGAGTCTCTGCACCTATC"), Chars(" 0 "), Chars(" 60.12 "), Chars("   8 "), Chars("ATCCGTTC"), Chars("") >>,
  << Chars("X1"), Chars("7"), Chars("1"), Chars("r"), Chars("2"), Chars("a b"), Chars("3"), Chars("g"), Chars("4"), Chars("f"), Chars("5"),
     Chars("m"), Chars("D"), Chars("AC"), Chars("0"), Chars("1.5e1"), Chars("GT"), Chars("3"), Chars("0.0"), Chars("4"), Chars("acgt"), Chars("def; x=1") >>,
  << Chars("AB000001"), Chars("-1"), Chars("x12"), Chars("r"), Chars("2"), Chars("s"), Chars("3"), Chars("g"), Chars("4"), Chars("f"), Chars("5"),
     Chars("m"), Chars("D"), Chars("AC"), Chars("0"), Chars("12"), Chars("GT"), Chars("3"), Chars("7.25"), Chars("4"), Chars("ACGT"), Chars("third of its name") >> >>
(* the v1 line of a v2 line: the two melting temperatures removed *)
V1Of(row) == SubSeq(row, 1, 15) \o SubSeq(row, 17, 18) \o SubSeq(row, 20, 22)
EcoOrders == << <<1>>, <<1, 2>>, <<1, 2, 3, 4>>, <<3>>, <<4, 1, 2>>, <<2, 2, 2>> >>

VARIABLES tfam, a, b, c, e, g, tpc

Init2 ==
  /\ tpc = "new"
  /\ \/ "quote" \in TTFamilies /\ tfam = "quote" /\ a \in 1..Len(QuoteTable) /\ b = 0 /\ c = 0 /\ e = 0 /\ g = 0
     \/ "csv" \in TTFamilies /\ tfam = "csv" /\ a \in 1..Len(CsvValues) /\ b \in 1..Len(CsvIds) /\ c \in 1..Len(CsvQuals)
        /\ e \in 1..Len(CsvExtras) /\ g \in (IF TTDeep THEN 0..31 ELSE {(a + 3 * b + 5 * c + 7 * e) % 32, (11 * a + b + c + e + 16) % 32})
     \/ "ecopcr" \in TTFamilies /\ tfam = "ecopcr" /\ a \in 1..Len(EcoOrders) /\ b \in {1, 2} /\ c \in {1, 2} /\ e = 0 /\ g = 0
Next2 == tpc = "new" /\ tpc' = "done" /\ UNCHANGED <<tfam, a, b, c, e, g>>

---------------------------------------------------------------------------
(* theorems *)
QuoteAgrees == (tfam = "quote" /\ tpc = "done") =>
   /\ CsvField(QuoteTable[a].f) = QuoteTable[a].w
   /\ CsvUnfield(QuoteTable[a].w) = QuoteTable[a].f

CsvRec == [id |-> Chars(CsvIds[b]), seq |-> Chars("acgt"), qual |-> CsvQuals[c], ents |-> <<CsvValues[a]>> \o CsvExtras[e],
           def |-> Chars(CsvDefs[(g % 2) + 1])]
CsvOpts == OptsOf(g)
CsvRow == RowFields(CsvRec, CsvOpts, 33, Ascii)
(* the quoting is invertible field by field *)
QuotingInvertible == (tfam = "csv" /\ tpc = "done") => \A n \in 1..Len(CsvRow) : CsvUnfield(CsvField(CsvRow[n])) = CsvRow[n]
HeaderMatchesRow == (tfam = "csv" /\ tpc = "done") => Len(HeaderFields(CsvOpts)) = Len(CsvRow)
ReprTable == (tfam = "csv" /\ tpc = "done") => (CsvRepr(CsvValues[a]) <=> CsvReprTable[a])
(* a representable value of a kept key comes back as it was; the identifier and the nucleotides always do *)
CsvRoundTrip == (tfam = "csv" /\ tpc = "done") =>
   LET bk == CsvBack(CsvRec, CsvOpts, 33, Ascii, CsvNoDev) IN
   /\ ~bk.lost /\ bk.id = CsvRec.id
   /\ (CsvOpts.sequence => bk.seq = CsvRec.seq)
   /\ (CsvOpts.quality /\ CsvRec.qual # <<>> => bk.qual = QualChars(CsvRec.qual, 33, Ascii))
   /\ (CsvRepr(CsvValues[a]) => [k |-> <<"k">>, t |-> IF CsvValues[a].t \in {"int", "float"} THEN NumType(NumOf(CsvValues[a].v)) ELSE CsvValues[a].t,
                                 v |-> IF CsvValues[a].t \in {"int", "float"} THEN CanonNum(CsvValues[a].v) ELSE CsvValues[a].v] \in bk.ents)
   /\ [k |-> Chars("zz"), t |-> "str", v |-> NA] \in bk.ents

EcoRows == LET o == EcoOrders[a] IN [n \in 1..Len(o) |-> IF b = 2 THEN EcoRowsPool[o[n]] ELSE V1Of(EcoRowsPool[o[n]])]
EcoMode == IF c = 1 THEN Chars("superkingdom") ELSE Chars("order")
EcoFwd == Chars("GGGCAATCCTGAGCCAA")   EcoRev == Chars("CCATTGAGTCTCTGCACCTATC")
(* names are made unique; every record has the full set of annotations *)
EcoShape == (tfam = "ecopcr" /\ tpc = "done") =>
   LET rs == [n \in 1..Len(EcoRows) |-> EcoRecord(EcoRows, n, b, EcoMode, EcoFwd, EcoRev, FALSE)] IN
   /\ \A n \in 1..Len(rs), m \in 1..Len(rs) : (n # m) => rs[n].id # rs[m].id
   /\ \A n \in 1..Len(rs) : Cardinality(rs[n].ents) = (IF b = 2 THEN 22 ELSE 20)

---------------------------------------------------------------------------
EntJ2(S) == LET RECURSIVE ToSeq(_)
                ToSeq(T) == IF T = {} THEN <<>> ELSE LET x == CHOOSE y \in T : TRUE IN <<[k |-> Str(x.k), t |-> x.t, v |-> Str(x.v)]>> \o ToSeq(T \ {x})
            IN ToSeq(S)
BackJ2(bk) == [lost |-> bk.lost, id |-> Str(bk.id), seq |-> Str(bk.seq), qual |-> Str(bk.qual), ents |-> EntJ2(bk.ents)]
ExportCsv ==
  LET o == CsvOpts r == CsvRec
      text == CsvLine(HeaderFields(o)) \o <<"\n">> \o CsvLine(CsvRow) \o <<"\n">>
      bk == CsvBack(r, o, 33, Ascii, CsvNoDev)
      aw == CsvBack(r, o, 33, Ascii, CsvAsWritten)
  IN [op |-> "csv", cls |-> "csv/" \o CsvValues[a].t \o (IF CsvRepr(CsvValues[a]) THEN "/representable" ELSE "/changes")
                              \o (IF o.quality THEN (IF r.qual = <<>> THEN "/noscores" ELSE "/scores") ELSE "/noqualcol")
                              \o (IF SubSeq(CsvIds[b], 1, 1) = "#" THEN "/hash-id" ELSE ""),
      opts |-> [id |-> o.id, count |-> o.count, taxon |-> o.taxon, definition |-> o.definition, sequence |-> o.sequence, quality |-> o.quality,
                keys |-> [n \in 1..Len(o.keys) |-> Str(o.keys[n])]],
      rec |-> [id |-> Str(r.id), seq |-> Str(r.seq), qual |-> r.qual, def |-> Str(r.def),
               ents |-> [n \in 1..Len(r.ents) |-> [k |-> Str(r.ents[n].k), t |-> r.ents[n].t, v |-> Str(r.ents[n].v)]]],
      text |-> Str(text), back |-> BackJ2(bk), aw |-> BackJ2(aw),
      departs |-> IF aw = bk THEN "" ELSE (IF aw.lost THEN "+hash" ELSE "") \o (IF [aw EXCEPT !.lost = FALSE] # bk THEN "+qualcol" ELSE "")]

ExportEco ==
  LET rs(tm) == [n \in 1..Len(EcoRows) |-> LET x == EcoRecord(EcoRows, n, b, EcoMode, EcoFwd, EcoRev, tm) IN
                   [id |-> Str(x.id), seq |-> Str(x.seq), def |-> Str(x.def), ents |-> EntJ2(x.ents)]]
  IN [op |-> "ecopcr", cls |-> "ecopcr/v" \o ToString(b) \o "/" \o Str(EcoMode) \o "/rows" \o ToString(Len(EcoRows)),
      text |-> Str(EcoText(EcoRows, b, EcoMode, EcoFwd, EcoRev)), recs |-> rs(FALSE), aw |-> rs(TRUE),
      departs |-> IF b = 2 THEN "+tm" ELSE ""]

Put2(x) == CSVWrite("%1$s", <<ToJson(x)>>, IOEnv.VERIF_CASES)
Export2 == tpc = "done" => CASE tfam = "csv" -> Put2(ExportCsv) [] tfam = "ecopcr" -> Put2(ExportEco) [] OTHER -> TRUE
=============================================================================

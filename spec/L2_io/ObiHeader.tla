------------------------------ MODULE ObiHeader ------------------------------
(***************************************************************************)
(* The legacy OBITools title-line annotations (extension check X03).       *)
(*                                                                         *)
(*   >id key=value; key=value; ... free text (the definition)              *)
(*                                                                         *)
(* pkg/obiformats/fastseq_obi_header.go: ParseOBIFeatures /                *)
(* ParseFastSeqOBIHeader read such a line, FormatFastSeqOBIHeader writes   *)
(* it (option --output-OBI-header of every writing command), and           *)
(* fastseq_header.go ParseGuessedFastSeqHeader chooses between this reader *)
(* and the JSON one from the first character of the text.                  *)
(*                                                                         *)
(* This module is the grammar and its meaning, as constant operators:      *)
(*                                                                         *)
(*   header  ::= { blank* key blank* '=' value ';' } definition            *)
(*   key     ::= letter { letter | digit | '_' | '-' | '.' }               *)
(*   value   ::= number | quoted | dict | generic      (tried in that order)*)
(*   number  ::= blank* [+-] ( '.' d+ | d+ [ '.' d* ] [ (e|E) [+-] d+ ] ) blank*   *)
(*   quoted  ::= ''' { any but ''' } ''' blank*        (starts right after '=')     *)
(*   dict    ::= blank* '{' ... balanced, quotes protect braces ... '}' blank*      *)
(*   generic ::= { any but ';' }                                           *)
(*                                                                         *)
(* and what each form must be READ AS (value and TYPE):                    *)
(*   number, integral value        -> int     (|v| < 2^63, else float)     *)
(*   number, any other             -> float   (its decimal value)          *)
(*   quoted                        -> string between the quotes, verbatim  *)
(*   dict, decodable               -> map, typed by the KEY:               *)
(*                                    merged_* / *_count   -> map[string]int    *)
(*                                    *_status / *_mutation -> map[string]string *)
(*                                    any other key        -> generic map        *)
(*   dict, not decodable that way  -> the text of the dict, as a string    *)
(*   generic t T true True TRUE    -> bool true  (f F false False FALSE: false) *)
(*   generic, anything else        -> the text, blanks trimmed, as string  *)
(* The first text that is not `key = value ;` ends the annotations; it is  *)
(* the definition (blanks trimmed).  Nothing is lost between two entries    *)
(* (ReadHeader).  ReadHeaderAsWritten is the loop as written in the code   *)
(* (three departures, see ReadFrom), kept as the implementation-shaped     *)
(* variant: negative test of the model, and name of the known findings.    *)
(*                                                                         *)
(* A character is a one-character string, a text a tuple of characters.    *)
(* A value is [t, v, m]: type, canonical text (numbers: NumText), members  *)
(* (maps: set of [k, t, v]).  An entry is [k, t, v, m].                    *)
(***************************************************************************)
EXTENDS Integers, Sequences, FiniteSets, TLC

Chars(s) == [i \in 1..Len(s) |-> SubSeq(s, i, i)]        \* TLC string -> text
SetOf(s) == {SubSeq(s, i, i) : i \in 1..Len(s)}
RECURSIVE Str(_)                                          \* text -> TLC string (exports)
Str(cs) == IF cs = <<>> THEN "" ELSE cs[1] \o Str(Tail(cs))

Lower  == SetOf("abcdefghijklmnopqrstuvwxyz")
Upper  == SetOf("ABCDEFGHIJKLMNOPQRSTUVWXYZ")
Letter == Lower \cup Upper
Digit  == SetOf("0123456789")
KeyChar == Letter \cup Digit \cup {"_", "-", "."}
Blank  == {" ", "\t"}
SQ == "'"   DQ == "\""   SEMI == ";"   BSL == "\\"

---------------------------------------------------------------------------
(* scanning helpers: indices are 1-based; "none" is 0 (Find) or Len+1 (SkipB) *)

RECURSIVE SkipB(_, _)       \* first index >= i that does not hold a blank
SkipB(s, i) == IF i <= Len(s) /\ s[i] \in Blank THEN SkipB(s, i + 1) ELSE i
RECURSIVE BackB(_, _)       \* last index <= i that does not hold a blank
BackB(s, i) == IF i >= 1 /\ s[i] \in Blank THEN BackB(s, i - 1) ELSE i
Trim(s) == SubSeq(s, SkipB(s, 1), BackB(s, Len(s)))

RECURSIVE Find(_, _, _)     \* first index >= i holding c, 0 if none
Find(s, c, i) == IF i > Len(s) THEN 0 ELSE IF s[i] = c THEN i ELSE Find(s, c, i + 1)
RECURSIVE FindIn(_, _, _)   \* first index >= i holding a member of C, 0 if none
FindIn(s, C, i) == IF i > Len(s) THEN 0 ELSE IF s[i] \in C THEN i ELSE FindIn(s, C, i + 1)
RECURSIVE RunEnd(_, _, _)   \* last index of the run of members of C that starts at i (i - 1 if s[i] is none)
RunEnd(s, i, C) == IF i <= Len(s) /\ s[i] \in C THEN RunEnd(s, i + 1, C) ELSE i - 1

AllIn(s, C) == \A i \in 1..Len(s) : s[i] \in C
IsDigits(s) == s # <<>> /\ AllIn(s, Digit)
HasPrefix(s, p) == Len(s) >= Len(p) /\ SubSeq(s, 1, Len(p)) = p
HasSuffix(s, p) == Len(s) >= Len(p) /\ SubSeq(s, Len(s) - Len(p) + 1, Len(s)) = p

---------------------------------------------------------------------------
(* numbers: the literal language and the decimal value *)

Unsign(s) == IF s # <<>> /\ s[1] \in {"+", "-"} THEN Tail(s) ELSE s

(* d+ [ '.' d* ] [ (e|E) [+-] d+ ]   or   '.' d+   , after an optional sign *)
IsNum(s) ==
  LET u == Unsign(s) IN
  \/ (Len(u) >= 2 /\ u[1] = "." /\ IsDigits(Tail(u)))
  \/ LET n == RunEnd(u, 1, Digit) IN                            \* integer part u[1..n]
     /\ n >= 1
     /\ LET f == IF n < Len(u) /\ u[n + 1] = "." THEN RunEnd(u, n + 2, Digit) ELSE n   \* fraction ends at f
            x == SubSeq(u, f + 1, Len(u))                                             \* exponent part
        IN x = <<>> \/ (x[1] \in {"e", "E"} /\ IsDigits(Unsign(Tail(x))))

DigitVal == [c \in Digit |-> CHOOSE n \in 0..9 : Chars("0123456789")[n + 1] = c]
RECURSIVE NatOf(_)                                   \* small decimal numerals only (exponents)
NatOf(ds) == IF ds = <<>> THEN 0 ELSE 10 * NatOf(SubSeq(ds, 1, Len(ds) - 1)) + DigitVal[ds[Len(ds)]]
RECURSIVE NatText(_)
NatText(n) == IF n < 10 THEN <<Chars("0123456789")[n + 1]>> ELSE NatText(n \div 10) \o <<Chars("0123456789")[(n % 10) + 1]>>
IntText(n) == IF n < 0 THEN <<"-">> \o NatText(0 - n) ELSE NatText(n)

RECURSIVE StripLead(_)
StripLead(ds) == IF ds # <<>> /\ ds[1] = "0" THEN StripLead(Tail(ds)) ELSE ds
RECURSIVE StripTrail(_)
StripTrail(ds) == IF ds # <<>> /\ ds[Len(ds)] = "0" THEN StripTrail(SubSeq(ds, 1, Len(ds) - 1)) ELSE ds

MaxExp == 9999                       \* exponents with more digits are outside the decided domain
(* the value of a literal: (-1)^neg * m * 10^e with m a numeral without leading or trailing zero (zero: m empty) *)
NumOf(s) ==
  LET u    == Unsign(s)
      ep   == FindIn(u, {"e", "E"}, 1)
      mant == IF ep = 0 THEN u ELSE SubSeq(u, 1, ep - 1)
      ex   == IF ep = 0 THEN <<>> ELSE SubSeq(u, ep + 1, Len(u))
      dot  == Find(mant, ".", 1)
      ip   == IF dot = 0 THEN mant ELSE SubSeq(mant, 1, dot - 1)
      fp   == IF dot = 0 THEN <<>> ELSE SubSeq(mant, dot + 1, Len(mant))
      exd  == StripLead(Unsign(ex))
      exn  == IF Len(exd) > 4 THEN MaxExp + 1 ELSE NatOf(exd)
      exv  == IF ex # <<>> /\ ex[1] = "-" THEN 0 - exn ELSE exn
      d1   == StripLead(ip \o fp)
      m    == StripTrail(d1)
  IN  IF m = <<>> THEN [neg |-> FALSE, m |-> <<>>, e |-> 0, wild |-> FALSE]
      ELSE [neg |-> s[1] = "-", m |-> m, e |-> exv - Len(fp) + (Len(d1) - Len(m)), wild |-> exn > MaxExp]

Zeros(n) == [i \in 1..n |-> "0"]
Integral(x) == x.m = <<>> \/ x.e >= 0
IntDigits(x) == IF x.m = <<>> THEN <<"0">> ELSE x.m \o Zeros(x.e)           \* of an integral value

RECURSIVE LexLeq(_, _)               \* numerals of equal length
LexLeq(a, b) == IF a = <<>> THEN TRUE
                ELSE IF DigitVal[a[1]] < DigitVal[b[1]] THEN TRUE
                ELSE IF DigitVal[a[1]] > DigitVal[b[1]] THEN FALSE
                ELSE LexLeq(Tail(a), Tail(b))
NumeralLeq(a, b) == Len(a) < Len(b) \/ (Len(a) = Len(b) /\ LexLeq(a, b))
MaxInt64 == Chars("9223372036854775807")
Exact53  == Chars("9007199254740992")         \* integers up to 2^53 travel through a float64 unharmed
MinInt64Abs == Chars("9223372036854775808")
FitsInt(x) == Integral(x) /\ (x.m = <<>> \/ (Len(x.m) + x.e <= 19 /\ NumeralLeq(IntDigits(x), IF x.neg THEN MinInt64Abs ELSE MaxInt64)))
ExactInt(x) == Integral(x) /\ (x.m = <<>> \/ (Len(x.m) + x.e <= 16 /\ NumeralLeq(IntDigits(x), Exact53)))

(* canonical text of a value: integers as plain numerals, the others as <m>e<exponent> *)
NumText(x) == (IF x.neg THEN <<"-">> ELSE <<>>) \o
              (IF FitsInt(x) THEN IntDigits(x) ELSE x.m \o <<"e">> \o IntText(x.e))
NumType(x) == IF FitsInt(x) THEN "int" ELSE "float"
(* the decided domain of number VALUES: integers up to 2^53, other numbers with at most 15 significant digits   *)
(* (a float64 holds them) and a decimal exponent a float64 can carry                                              *)
NumDecided(x) == /\ ~x.wild /\ (x.m = <<>> \/ (Len(x.m) <= 16 /\ x.e + Len(x.m) \in -290..300))
                 /\ (ExactInt(x) \/ Len(x.m) <= 15)
                 /\ (FitsInt(x) => ExactInt(x))        \* integers between 2^53 and 2^63: not decided
CanonNum(s) == NumText(NumOf(s))            \* s: any literal of the language (also what Go prints for a number)

---------------------------------------------------------------------------
(* values *)

NoVal == [ok |-> FALSE, t |-> "", v |-> <<>>, m |-> {}, used |-> 0]
Val(t, v, m, used) == [ok |-> TRUE, t |-> t, v |-> v, m |-> m, used |-> used]
Member(k, t, v) == [k |-> k, t |-> t, v |-> v]

TrueForms  == {Chars("t"), Chars("T"), Chars("true"), Chars("True"), Chars("TRUE")}
FalseForms == {Chars("f"), Chars("F"), Chars("false"), Chars("False"), Chars("FALSE")}
BoolForms  == TrueForms \cup FalseForms
TRUEtxt == Chars("true")   FALSEtxt == Chars("false")

(* which decoding the KEY asks for *)
KeyClass(key) ==
  IF HasPrefix(key, Chars("merged_")) \/ HasSuffix(key, Chars("_count")) THEN "int"
  ELSE IF HasSuffix(key, Chars("_status")) \/ HasSuffix(key, Chars("_mutation")) THEN "str"
  ELSE "any"

(* --- quoted: '...' right after the '=' ; the first quote that follows closes it --- *)
QuotedMatch(p) ==
  IF p = <<>> \/ p[1] # SQ THEN [ok |-> FALSE, close |-> 0, semi |-> 0, odd |-> FALSE]
  ELSE LET c == Find(p, SQ, 2)
           j == IF c = 0 THEN 0 ELSE SkipB(p, c + 1)
           a == SkipB(p, 2)
       IN  [ok |-> c > 0 /\ j <= Len(p) /\ p[j] = SEMI, close |-> c, semi |-> j,
            \* the second branch of the code's pattern ('  "..." ;  without closing apostrophe) is not given a meaning
            odd |-> a <= Len(p) /\ p[a] = DQ]

(* --- dict: braces balanced outside quoted strings (both kinds of quotes), then blanks and ';' --- *)
RECURSIVE DScan(_, _, _, _)      \* index of the brace that closes the dict opened before i; 0 if none
DScan(p, i, level, q) ==
  IF i > Len(p) THEN 0
  ELSE LET c == p[i] IN
    IF c = "{" /\ q = "" THEN DScan(p, i + 1, level + 1, q)
    ELSE IF c \in {SQ, DQ} THEN DScan(p, i + 1, level, IF q = "" THEN c ELSE IF q = c THEN "" ELSE q)
    ELSE IF c = "}" /\ q = "" THEN (IF level = 1 THEN i ELSE DScan(p, i + 1, level - 1, q))
    ELSE DScan(p, i + 1, level, q)

DictMatch(p) ==
  LET s == SkipB(p, 1) IN
  IF s > Len(p) \/ p[s] # "{" THEN [ok |-> FALSE, from |-> 0, to |-> 0, semi |-> 0]
  ELSE LET e == DScan(p, s + 1, 1, "")
           j == IF e = 0 THEN 0 ELSE SkipB(p, e + 1)
       IN  [ok |-> e > 0 /\ j <= Len(p) /\ p[j] = SEMI, from |-> s, to |-> e, semi |-> j]

(* the dict is decoded as JSON once every apostrophe has been turned into a double quote *)
Requote(b) == [i \in 1..Len(b) |-> IF b[i] = SQ THEN DQ ELSE b[i]]

(* JSON number:  [-] ( 0 | nonzero digit, digits ) [ . digits ] [ (e|E) [+-] digits ]  *)
IsJsonNum(s) ==
  LET u == IF s # <<>> /\ s[1] = "-" THEN Tail(s) ELSE s
      n == RunEnd(u, 1, Digit)
  IN  /\ n >= 1 /\ (u[1] = "0" => n = 1)
      /\ LET f == IF n < Len(u) /\ u[n + 1] = "." THEN RunEnd(u, n + 2, Digit) ELSE n
             x == SubSeq(u, f + 1, Len(u))
         IN  /\ (n < Len(u) /\ u[n + 1] = "." => f >= n + 2)
             /\ (x = <<>> \/ (x[1] \in {"e", "E"} /\ IsDigits(Unsign(Tail(x)))))
IsJsonInt(s) == IsJsonNum(s) /\ FindIn(s, {".", "e", "E"}, 1) = 0

RECURSIVE BalEnd(_, _, _, _)     \* end of a nested {...} / [...] value (strings in double quotes); 0 if none
BalEnd(j, i, level, inq) ==
  IF i > Len(j) THEN 0
  ELSE LET c == j[i] IN
    IF inq THEN BalEnd(j, i + 1, level, c # DQ)
    ELSE IF c = DQ THEN BalEnd(j, i + 1, level, TRUE)
    ELSE IF c \in {"{", "["} THEN BalEnd(j, i + 1, level + 1, FALSE)
    ELSE IF c \in {"}", "]"} THEN (IF level = 1 THEN i ELSE BalEnd(j, i + 1, level - 1, FALSE))
    ELSE BalEnd(j, i + 1, level, FALSE)

NumChars == Digit \cup {"-", "+", ".", "e", "E"}
BadVal == [ok |-> FALSE, t |-> "", v |-> <<>>, next |-> 0]
Lit(j, i, w) == Len(j) >= i + Len(w) - 1 /\ SubSeq(j, i, i + Len(w) - 1) = w

(* one JSON value starting at j[i]; strings carry no escape in the decided domain (Decided below) *)
JsonVal(j, i) ==
  LET c == j[i] IN
  IF c = DQ THEN LET e == Find(j, DQ, i + 1) IN
       IF e = 0 THEN BadVal ELSE [ok |-> TRUE, t |-> "str", v |-> SubSeq(j, i + 1, e - 1), next |-> e + 1]
  ELSE IF c \in {"{", "["} THEN LET e == BalEnd(j, i + 1, 1, FALSE) IN
       IF e = 0 THEN BadVal ELSE [ok |-> TRUE, t |-> "other", v |-> <<>>, next |-> e + 1]
  ELSE IF Lit(j, i, TRUEtxt) THEN [ok |-> TRUE, t |-> "bool", v |-> TRUEtxt, next |-> i + 4]
  ELSE IF Lit(j, i, FALSEtxt) THEN [ok |-> TRUE, t |-> "bool", v |-> FALSEtxt, next |-> i + 5]
  ELSE IF Lit(j, i, Chars("null")) THEN [ok |-> TRUE, t |-> "null", v |-> <<>>, next |-> i + 4]
  ELSE LET e == RunEnd(j, i, NumChars)
           w == SubSeq(j, i, e)
       IN  IF e >= i /\ IsJsonNum(w) THEN [ok |-> TRUE, t |-> IF IsJsonInt(w) THEN "intlit" ELSE "numlit", v |-> w, next |-> e + 1]
           ELSE BadVal

BadObj == [ok |-> FALSE, ents |-> <<>>]
RECURSIVE Members(_, _, _)       \* "key" : value { , "key" : value } '}' END
Members(j, i, acc) ==
  LET a == SkipB(j, i) IN
  IF a > Len(j) \/ j[a] # DQ THEN BadObj
  ELSE LET ke == Find(j, DQ, a + 1) IN IF ke = 0 THEN BadObj
  ELSE LET c == SkipB(j, ke + 1) IN IF c > Len(j) \/ j[c] # ":" THEN BadObj
  ELSE LET vs == SkipB(j, c + 1) IN IF vs > Len(j) THEN BadObj
  ELSE LET pv == JsonVal(j, vs) IN IF ~pv.ok THEN BadObj
  ELSE LET n    == SkipB(j, pv.next)
           acc2 == Append(acc, Member(SubSeq(j, a + 1, ke - 1), pv.t, pv.v))
       IN  IF n > Len(j) THEN BadObj
           ELSE IF j[n] = "," THEN Members(j, n + 1, acc2)
           ELSE IF j[n] = "}" /\ n = Len(j) THEN [ok |-> TRUE, ents |-> acc2]
           ELSE BadObj

(* j = '{' ... '}' : the members of the object, or not an object *)
JsonObj(j) ==
  LET a == SkipB(j, 2) IN
  IF a = Len(j) /\ j[a] = "}" THEN [ok |-> TRUE, ents |-> <<>>] ELSE Members(j, 2, <<>>)

(* a later member replaces an earlier one with the same key *)
LastOnes(es) == {es[i] : i \in {n \in 1..Len(es) : \A n2 \in (n + 1)..Len(es) : es[n2].k # es[n].k}}

(* members as delivered: numbers by value *)
AnyMember(e) == IF e.t \in {"intlit", "numlit"} THEN Member(e.k, "num", CanonNum(e.v)) ELSE e

DictValue(key, b, used) ==
  LET o   == JsonObj(Requote(b))
      cls == KeyClass(key)
      asString == Val("str", b, {}, used)
  IN  IF ~o.ok THEN asString
      ELSE IF cls = "int" THEN
             (IF \A i \in 1..Len(o.ents) : o.ents[i].t = "intlit"
                THEN Val("mapint", <<>>, LastOnes([i \in 1..Len(o.ents) |-> Member(o.ents[i].k, "num", CanonNum(o.ents[i].v))]), used)
                ELSE asString)
      ELSE IF cls = "str" THEN
             (IF \A i \in 1..Len(o.ents) : o.ents[i].t = "str"
                THEN Val("mapstr", <<>>, LastOnes(o.ents), used)
                ELSE asString)
      ELSE Val("map", <<>>, LastOnes([i \in 1..Len(o.ents) |-> AnyMember(o.ents[i])]), used)

NumValue(head, used) == LET x == NumOf(head) IN Val(NumType(x), NumText(x), {}, used)

(* p: the text that follows '='.  used = index in p of the ';' that ends the value *)
ReadValue(key, p) ==
  LET semi == Find(p, SEMI, 1)
      head == IF semi = 0 THEN <<>> ELSE Trim(SubSeq(p, 1, semi - 1))
      qm   == QuotedMatch(p)
      dm   == DictMatch(p)
  IN  IF semi > 0 /\ IsNum(head) THEN NumValue(head, semi)
      ELSE IF qm.ok THEN Val("str", SubSeq(p, 2, qm.close - 1), {}, qm.semi)
      ELSE IF dm.ok THEN DictValue(key, SubSeq(p, dm.from, dm.to), dm.semi)
      ELSE IF semi = 0 THEN NoVal
      ELSE IF head \in TrueForms THEN Val("bool", TRUEtxt, {}, semi)
      ELSE IF head \in FalseForms THEN Val("bool", FALSEtxt, {}, semi)
      ELSE Val("str", head, {}, semi)

---------------------------------------------------------------------------
(* keys and the header loop *)

NoKey == [ok |-> FALSE, key |-> <<>>, next |-> 0]
(* blank* letter keychar* blank* '='  at the very start of d *)
KeyAt(d) ==
  LET j == SkipB(d, 1) IN
  IF j > Len(d) \/ d[j] \notin Letter THEN NoKey
  ELSE LET k == RunEnd(d, j, KeyChar)
           m == SkipB(d, k + 1)
       IN  IF m <= Len(d) /\ d[m] = "=" THEN [ok |-> TRUE, key |-> SubSeq(d, j, k), next |-> m + 1] ELSE NoKey

Entry(k, val) == [k |-> k, t |-> val.t, v |-> val.v, m |-> val.m]

(* The loop.  dev = the three places where the code as written departs from the reading above (the        *)
(* implementation-shaped variant; all FALSE = the reading a user relies on):                              *)
(*   skip  `stop = m[1] + 1`: the character that follows the ';' of a value is dropped unseen             *)
(*   drop  a number that is not integral is parsed and then not stored (the annotation is lost)           *)
(*   wrap  an integral number of 2^63 or more is converted to int all the same (it wraps to -2^63)        *)
NoDev == [skip |-> FALSE, drop |-> FALSE, wrap |-> FALSE]
AsWritten == [skip |-> TRUE, drop |-> TRUE, wrap |-> TRUE]
MinInt64 == Chars("-9223372036854775808")

RECURSIVE ReadFrom(_, _, _)
ReadFrom(d, acc, dev) ==
  LET km == KeyAt(d) IN
  IF ~km.ok THEN [ents |-> acc, def |-> Trim(d)]
  ELSE LET p  == SubSeq(d, km.next, Len(d))
           rv == ReadValue(km.key, p)
       IN  IF ~rv.ok THEN [ents |-> acc, def |-> Trim(d)]
           ELSE LET e0   == Entry(km.key, rv)
                    big  == rv.t = "float" /\ FindIn(rv.v, {"e"}, 1) > 0 /\ Integral(NumOf(rv.v))
                    e1   == IF dev.wrap /\ big THEN [e0 EXCEPT !.t = "int", !.v = MinInt64] ELSE e0
                    acc1 == IF dev.drop /\ rv.t = "float" /\ ~big THEN acc ELSE Append(acc, e1)
                IN  ReadFrom(SubSeq(p, rv.used + 1 + (IF dev.skip THEN 1 ELSE 0), Len(p)), acc1, dev)

(* THE READING OF A HEADER: the entries in text order and the definition *)
ReadHeader(text) == ReadFrom(text, <<>>, NoDev)
ReadHeaderAsWritten(text) == ReadFrom(text, <<>>, AsWritten)
(* which of the three departures change the reading of this text (names the known findings) *)
Departures(text) ==
  LET r0 == ReadHeader(text) IN
  [skip |-> ReadFrom(text, <<>>, [NoDev EXCEPT !.skip = TRUE]) # r0,
   drop |-> ReadFrom(text, <<>>, [NoDev EXCEPT !.drop = TRUE]) # r0,
   wrap |-> ReadFrom(text, <<>>, [NoDev EXCEPT !.wrap = TRUE]) # r0]
DepartureName(text) ==
  LET dp == Departures(text)
      nm == (IF dp.skip THEN "+skip" ELSE "") \o (IF dp.drop THEN "+drop" ELSE "") \o (IF dp.wrap THEN "+wrap" ELSE "")
  IN  IF nm = "" THEN "+joint" ELSE nm

(* the annotations a record ends with: a later entry replaces an earlier one with the same key *)
Annots(es) == {es[i] : i \in {n \in 1..Len(es) : \A n2 \in (n + 1)..Len(es) : es[n2].k # es[n].k}}

(* texts on which this module does not decide what must be read (see extra/X03.md):                     *)
(*  - a value starting with an apostrophe, blanks and a double quote (second branch of the code's pattern) *)
(*  - a backslash or an escape inside a dict (JSON escapes are not modelled)                              *)
(*  - numbers beyond the decided domain of values                                                          *)
(*  - a member of a merged_* / *_count dict written with a fraction or an exponent, null members of typed dicts *)
(*  - the key `definition` (the reader merges it with the free text)                                        *)
RECURSIVE UndecidedFrom(_)
UndecidedFrom(d) ==
  LET km == KeyAt(d) IN
  IF ~km.ok THEN FALSE
  ELSE LET p  == SubSeq(d, km.next, Len(d))
           rv == ReadValue(km.key, p)
           qm == QuotedMatch(p)
           dm == DictMatch(p)
           semi == Find(p, SEMI, 1)
           head == IF semi = 0 THEN <<>> ELSE Trim(SubSeq(p, 1, semi - 1))
           isnum == semi > 0 /\ IsNum(head)
           o  == IF dm.ok THEN JsonObj(Requote(SubSeq(p, dm.from, dm.to))) ELSE BadObj
       IN  \/ km.key = Chars("definition")
           \/ (~isnum /\ ~qm.ok /\ qm.odd)
           \/ (isnum /\ ~NumDecided(NumOf(head)))
           \/ (~isnum /\ ~qm.ok /\ dm.ok /\
                 (\/ Find(SubSeq(p, dm.from, dm.to), BSL, 1) > 0
                  \/ (o.ok /\ \E i \in 1..Len(o.ents) :
                        \/ (KeyClass(km.key) = "int" /\ o.ents[i].t \in {"numlit", "null"})
                        \/ (KeyClass(km.key) = "str" /\ o.ents[i].t = "null")
                        \/ (o.ents[i].t \in {"intlit", "numlit"} /\ ~NumDecided(NumOf(o.ents[i].v))))))
           \/ (rv.ok /\ UndecidedFrom(SubSeq(p, rv.used + 1, Len(p))))
Undecided(text) == UndecidedFrom(text)

---------------------------------------------------------------------------
(* the choice of the reader when none is imposed (ParseGuessedFastSeqHeader): the text that follows the     *)
(* identifier (leading blanks removed by the FASTA/FASTQ readers) is taken for a JSON header iff it starts  *)
(* with an opening brace, for an OBI header otherwise; a text without any annotation is its own definition  *)
Guess(text) == IF text # <<>> /\ text[1] = "{" THEN "json" ELSE "obi"

---------------------------------------------------------------------------
(* WRITING.  FormatFastSeqOBIHeader: every annotation but the definition as `key=form; ` (order: any), then *)
(* a blank and the definition.  Forms: string = its text; int = numeral; bool = true / false; maps = JSON    *)
(* with apostrophes for double quotes; float = any literal with that value (the specification does not fix   *)
(* the number of digits printed).                                                                             *)
MemberForm(mb) ==
  <<SQ>> \o mb.k \o <<SQ, ":">> \o (IF mb.t = "str" THEN <<SQ>> \o mb.v \o <<SQ>> ELSE mb.v)
RECURSIVE JoinMembers(_)
JoinMembers(ms) == IF ms = <<>> THEN <<>>
                   ELSE MemberForm(ms[1]) \o (IF Len(ms) > 1 THEN <<",">> ELSE <<>>) \o JoinMembers(Tail(ms))
(* e: an entry whose members are given as a SEQUENCE ms (the order in which they are printed) *)
Form(t, v, ms) == IF t \in {"map", "mapint", "mapstr"} THEN <<"{">> \o JoinMembers(ms) \o <<"}">> ELSE v
EntryText(k, t, v, ms) == k \o <<"=">> \o Form(t, v, ms) \o <<SEMI, " ">>
DefText(def) == IF def = <<>> THEN <<>> ELSE <<" ">> \o def

---------------------------------------------------------------------------
(* WHAT SURVIVES write -> read.  Stated on values, for a user:                                                *)
(*  key      a key of the grammar other than `definition`                                                     *)
(*  string   no ';', no blank at either end, not a number literal, not one of the ten boolean words, does not *)
(*           start with an apostrophe or an opening brace (exact condition: ReprStr)                          *)
(*  int      any (|v| <= 2^53 decided)      bool  any                                                         *)
(*  float    comes back by value; an integral float comes back as int (type changes, value does not)          *)
(*  maps     keys and string members without apostrophe, double quote, backslash; a map[string]int under any  *)
(*           key but *_status / *_mutation, a map[string]string under any key but merged_* / *_count; under   *)
(*           an ordinary key both come back as generic maps (numbers by value)                                *)
(*  lists and any other kind of value come back as strings (their printed form): not representable            *)
(*  definition  no blank at either end, does not itself read as `key = value ;`                               *)
ReprKey(k) == k # <<>> /\ k[1] \in Letter /\ AllIn(k, KeyChar) /\ k # Chars("definition")
ReprStr(v) ==
  /\ Trim(v) = v /\ ~IsNum(v) /\ v \notin BoolForms
  \* Simple sufficient rule for users: no ';' and does not start with ' or {.  Exactly:
  /\ IF v # <<>> /\ v[1] = "{"
       \* the braces must close inside v; closed at the very end they protect any ';' but must not hold a JSON object
       THEN LET e == DScan(v, 2, 1, "") IN
            e > 0 /\ (IF e = Len(v) THEN ~JsonObj(Requote(v)).ok ELSE Find(v, SEMI, 1) = 0)
     ELSE IF v # <<>> /\ v[1] = SQ
       \* the next apostrophe must be followed by more text (else it is the quoted form)
       THEN LET c == Find(v, SQ, 2) IN Find(v, SEMI, 1) = 0 /\ c > 0 /\ SkipB(v, c + 1) <= Len(v)
     ELSE Find(v, SEMI, 1) = 0
PlainText(v) == FindIn(v, {SQ, DQ, BSL}, 1) = 0
ReprDef(d) == Trim(d) = d /\ ReadHeader(d) = [ents |-> <<>>, def |-> d]
(* An annotation in memory is [k, t, v, ms]: key, type, printed value (numbers: any literal with that value),
   members in printing order (maps).  What it comes back as (type changes that keep the value): *)
BackType(r) ==
  IF r.t \in {"int", "float"} THEN NumType(NumOf(r.v))
  ELSE IF r.t \in {"mapint", "mapstr"} /\ KeyClass(r.k) = "any" THEN "map"
  ELSE r.t
Back(r) == [k |-> r.k, t |-> BackType(r),
            v |-> IF r.t \in {"int", "float"} THEN CanonNum(r.v) ELSE r.v,
            m |-> {IF mb.t = "num" THEN Member(mb.k, "num", CanonNum(mb.v)) ELSE mb : mb \in {r.ms[i] : i \in 1..Len(r.ms)}}]

(* the syntactic statement of representability of one annotation *)
ReprMembers(r) == \A i \in 1..Len(r.ms) : PlainText(r.ms[i].k) /\ (r.ms[i].t = "str" => PlainText(r.ms[i].v))
Repr(r) ==
  /\ ReprKey(r.k)
  /\ CASE r.t = "str"    -> ReprStr(r.v)
       [] r.t = "int"    -> TRUE
       [] r.t = "float"  -> TRUE
       [] r.t = "bool"   -> TRUE
       [] r.t = "mapint" -> ReprMembers(r) /\ KeyClass(r.k) # "str"
       [] r.t = "mapstr" -> ReprMembers(r) /\ KeyClass(r.k) # "int"
       [] r.t = "map"    -> ReprMembers(r)
       [] OTHER          -> FALSE

=============================================================================

------------------------------ MODULE JsonHeader ------------------------------
(***************************************************************************)
(* The title-line scanner of the FASTA/FASTQ readers (property C02).       *)
(*                                                                         *)
(*   >id {"key":value,...} free text                                       *)
(*                                                                         *)
(* pkg/obiformats/fastseq_json_header.go, _parse_json_header_: a           *)
(* hand-written loop finds the JSON object inside the title line by        *)
(* counting braces and toggling on quotes, hands header[start:stop+1] to   *)
(* the JSON decoder and keeps TrimSpace(header[stop+1:]) as definition.    *)
(*                                                                         *)
(* Three descriptions of "where the object ends" are related here:         *)
(*   G  the GRAMMAR: title lines are produced by the JSON productions      *)
(*      (string = '"' Enc(v) '"', Enc escapes '"' and '\'), so the         *)
(*      generator knows the end by construction (ObjLen);                  *)
(*   R  the REFERENCE reading of the JSON string grammar: inside a string  *)
(*      a quote closes it iff it is preceded by an even number of          *)
(*      backslashes (TrueObjectEnd);                                       *)
(*   S  the SCANNER automaton over level/inquote/start/stop (one Step per  *)
(*      character, same order of tests as the Go loop), with the           *)
(*      constant Fixed selecting the loop as written before the repair     *)
(*      (quotes always toggle) or the repaired loop (escape tracking).     *)
(* Theorems (invariants): G = R on every generated line, S = R on every    *)
(* generated line (fails for Fixed = FALSE: JsonHeader_aswritten.cfg is    *)
(* the negative test), Dec(Enc(v)) = v.                                    *)
(*                                                                         *)
(* A character is a one-character string; the scanner only sees its class  *)
(* LB { RB } QT " BS \ SP blank OT other.  Longer atoms ("definition")     *)
(* stand for runs of OT characters.  Text = Join(tokens).                  *)
(***************************************************************************)
EXTENDS Integers, Sequences, FiniteSets, TLC, Json, CSV, IOUtils

CONSTANTS MaxV,     \* longest decoded string value enumerated (shapes in Deep), MaxV - 1 for the others
          Deep,     \* shapes explored to the full depth
          Shapes,   \* object shapes, subset of {"val","key","nested","two","defn"}
          Tails,    \* token strings that follow the object on the title line
          Fixed     \* FALSE: scanner as written (every quote toggles); TRUE: repaired scanner

LB == "{"   RB == "}"   QT == "\""   BS == "\\"   SP == " "   OT == "x"
Alphabet == {LB, RB, QT, BS, SP, OT}         \* what string contents range over
Class(c) == IF c \in {LB, RB, QT, BS, SP} THEN c ELSE "OT"

(* cfg values (TLC configuration files cannot write tuples): nothing, a blank, plain text between  *)
(* blanks, text glued to the brace, and text made of the scanner's own special characters          *)
NoTail   == { <<>> }
StdTails == { <<>>, <<SP>>, <<SP, OT, SP, OT, SP>>, <<OT>>, <<SP, LB, QT, RB, BS>> }

---------------------------------------------------------------------------
(* G: the JSON productions used by the generator *)

EncTok(c) == IF c = QT THEN <<BS, QT>> ELSE IF c = BS THEN <<BS, BS>> ELSE <<c>>
RECURSIVE Enc(_)
Enc(v) == IF v = <<>> THEN <<>> ELSE EncTok(Head(v)) \o Enc(Tail(v))
Str(v) == <<QT>> \o Enc(v) \o <<QT>>

K  == <<OT>>             \* a plain key
K2 == <<OT, OT>>

Object(shape, v) ==
  CASE shape = "val"    -> <<LB>> \o Str(K) \o <<":">> \o Str(v) \o <<RB>>
    [] shape = "key"    -> <<LB>> \o Str(v) \o <<":", "1">> \o <<RB>>
    [] shape = "nested" -> <<LB>> \o Str(K) \o <<":", LB>> \o Str(K) \o <<":">> \o Str(v) \o <<RB, RB>>
    [] shape = "two"    -> <<LB>> \o Str(K) \o <<":">> \o Str(v) \o <<",">> \o Str(K2) \o <<":">> \o Str(v) \o <<RB>>
    [] shape = "defn"   -> <<LB>> \o Str(<<"definition">>) \o <<":">> \o Str(v) \o <<RB>>

(* the annotations a JSON decoder must deliver for that object: entries [k, t, v, m] *)
Entry(k, t, v, m) == [k |-> k, t |-> t, v |-> v, m |-> m]
Annots(shape, v) ==
  CASE shape = "val"    -> << Entry(K, "str", v, <<>>) >>
    [] shape = "key"    -> << Entry(v, "num", <<"1">>, <<>>) >>
    [] shape = "nested" -> << Entry(K, "map", <<>>, << Entry(K, "str", v, <<>>) >>) >>
    [] shape = "two"    -> << Entry(K, "str", v, <<>>), Entry(K2, "str", v, <<>>) >>
    [] shape = "defn"   -> <<>>       \* the definition is compared through def, below

ObjLen(shape, v) == Len(Object(shape, v))
Line(shape, v, tail) == Object(shape, v) \o tail

---------------------------------------------------------------------------
(* R: reference = the JSON string grammar *)

RECURSIVE BSRun(_, _)     \* number of consecutive backslashes just before position i
BSRun(s, i) == IF i <= 1 THEN 0 ELSE IF s[i - 1] = BS THEN 1 + BSRun(s, i - 1) ELSE 0

ClosesString(s, i) == s[i] = QT /\ BSRun(s, i) % 2 = 0

RECURSIVE RefScan(_, _, _, _)
RefScan(s, i, instr, depth) ==
  IF i > Len(s) THEN 0                       \* no complete object on the line
  ELSE LET c == s[i] IN
    IF instr THEN RefScan(s, i + 1, ~ClosesString(s, i), depth)
    ELSE IF c = QT THEN RefScan(s, i + 1, TRUE, depth)
    ELSE IF c = LB THEN RefScan(s, i + 1, FALSE, depth + 1)
    ELSE IF c = RB THEN (IF depth = 1 THEN i ELSE RefScan(s, i + 1, FALSE, depth - 1))
    ELSE RefScan(s, i + 1, FALSE, depth)

(* position (1-based) of the brace that closes the first object of the line; 0 if none *)
TrueObjectEnd(s) == RefScan(s, 1, FALSE, 0)

RECURSIVE Dec(_)          \* inverse of Enc on a string body
Dec(b) == IF b = <<>> THEN <<>>
          ELSE IF Head(b) = BS /\ Len(b) >= 2 THEN <<b[2]>> \o Dec(Tail(Tail(b)))
          ELSE <<Head(b)>> \o Dec(Tail(b))

RECURSIVE TrimL(_)
TrimL(s) == IF s # <<>> /\ Head(s) = SP THEN TrimL(Tail(s)) ELSE s
RECURSIVE TrimR(_)
TrimR(s) == IF s # <<>> /\ s[Len(s)] = SP THEN TrimR(SubSeq(s, 1, Len(s) - 1)) ELSE s
Trim(s) == TrimR(TrimL(s))

(* what remains as definition once the object has been taken out *)
Rest(s) == LET e == TrueObjectEnd(s) IN IF e = 0 THEN s ELSE Trim(SubSeq(s, e + 1, Len(s)))

---------------------------------------------------------------------------
(* S: the scanner automaton, one Step per loop iteration of _parse_json_header_ *)

VARIABLES shape, v, tail,     \* the case being generated
          line,               \* the title line (after the identifier), fixed when scanning starts
          pc,                 \* "gen" | "scan" | "done"
          i,                  \* loop index (0-based, as in the code)
          level, inquote, esc, start, stop

vars == <<shape, v, tail, line, pc, i, level, inquote, esc, start, stop>>

Init ==
  /\ shape \in Shapes /\ tail \in Tails
  /\ v = <<>> /\ line = <<>> /\ pc = "gen"
  /\ i = 0 /\ level = 0 /\ inquote = FALSE /\ esc = FALSE /\ start = -1 /\ stop = -1

Gen(c) ==
  /\ pc = "gen" /\ Len(v) < (IF shape \in Deep THEN MaxV ELSE MaxV - 1)
  /\ v' = Append(v, c)
  /\ UNCHANGED <<shape, tail, line, pc, i, level, inquote, esc, start, stop>>

Begin ==
  /\ pc = "gen"
  /\ line' = Line(shape, v, tail)
  /\ pc' = "scan"
  /\ UNCHANGED <<shape, v, tail, i, level, inquote, esc, start, stop>>

Step ==
  /\ pc = "scan" /\ i < Len(line) /\ stop < 0
  /\ LET c      == Class(line[i + 1])
         start1 == IF level = 0 /\ c = LB /\ ~inquote THEN i ELSE start
         toggle == start1 > -1 /\ c = QT /\ (Fixed => ~esc)
         inq1   == IF toggle THEN ~inquote ELSE inquote
         lev1   == IF c = LB /\ ~inq1 THEN level + 1 ELSE level
         lev2   == IF c = RB /\ ~inq1 THEN lev1 - 1 ELSE lev1
     IN  /\ start' = start1
         /\ inquote' = inq1
         /\ esc' = (Fixed /\ inq1 /\ c = BS /\ ~esc)
         /\ level' = lev2
         /\ stop' = IF start1 >= 0 /\ lev2 = 0 THEN i ELSE stop
  /\ i' = i + 1
  /\ UNCHANGED <<shape, v, tail, line, pc>>

Finish ==
  /\ pc = "scan" /\ ~(i < Len(line) /\ stop < 0)
  /\ pc' = "done"
  /\ UNCHANGED <<shape, v, tail, line, i, level, inquote, esc, start, stop>>

Next == (\E c \in Alphabet : Gen(c)) \/ Begin \/ Step \/ Finish

---------------------------------------------------------------------------
(* theorems *)

TypeOK == /\ pc \in {"gen", "scan", "done"} /\ i \in 0..Len(line)
          /\ start \in -1..Len(line) /\ stop \in -1..Len(line)
          /\ (~Fixed => ~esc)

(* G = R: the even-backslash reading finds the end the productions put there *)
GrammarAgrees == (pc = "scan" /\ i = 0) =>
   /\ TrueObjectEnd(line) = ObjLen(shape, v)
   /\ Rest(line) = Trim(tail)

(* S = R: the scanner stops on the closing brace of the object *)
ScannerStop == pc = "done" => (start = 0 /\ stop + 1 = TrueObjectEnd(line))

(* inside the object the escape flag is exactly "odd run of backslashes" (repaired scanner) *)
EscIsOddRun == (pc = "scan" /\ Fixed /\ stop < 0 /\ i > 0 /\ inquote) => (esc <=> BSRun(line, i + 1) % 2 = 1)

DecEnc == (pc = "scan" /\ i = 0) => Dec(Enc(v)) = v

---------------------------------------------------------------------------
(* case export: one line per generated title line *)
HasSpecial == \E k \in 1..Len(v) : v[k] \in {QT, BS}
QuoteThenBrace == \E k \in 1..(Len(v) - 1) : v[k] = QT /\ v[k + 1] \in {LB, RB}
OddQuotes == Cardinality({k \in 1..Len(v) : v[k] = QT}) % 2 = 1

Export ==
  pc = "done" =>
    CSVWrite("%1$s", <<ToJson([op    |-> "hdr",
                              shape |-> shape,
                              v     |-> v,
                              line  |-> line,
                              ann   |-> Annots(shape, v),
                              merge |-> (shape = "defn" /\ Trim(tail) # <<>>),
                              def   |-> IF shape = "defn" THEN v ELSE Rest(line),
                              cls   |-> shape \o (IF QuoteThenBrace THEN "/quote-brace"
                                                  ELSE IF OddQuotes THEN "/odd-quotes"
                                                  ELSE IF HasSpecial THEN "/escapes" ELSE "/plain")
                                              \o (IF Trim(tail) = <<>> THEN "/notail" ELSE "/tail")])>>,
             IOEnv.VERIF_CASES)
=============================================================================

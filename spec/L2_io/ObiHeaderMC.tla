----------------------------- MODULE ObiHeaderMC -----------------------------
(***************************************************************************)
(* Bounded model of the OBI title-line annotations (extension check X03):  *)
(* TLC checks the theorems of ObiHeader on four families of cases and      *)
(* exports every case with the value the specification assigns.            *)
(*                                                                         *)
(*  lines    header lines built from a TABLE of text forms (Forms below:   *)
(*           the text of one `key=value` and what it must be read as,      *)
(*           written by hand: this table is the statement), one or two     *)
(*           entries, every separator after the ';', blanks around key and *)
(*           value, every tail (definition).                               *)
(*           Theorem GrammarAgrees: ReadHeader(line) = the table's entries *)
(*           and the trimmed tail.  Theorem AsWrittenDeparts (negative     *)
(*           test, ObiHeaderMC_aswritten.cfg): the loop as written in the  *)
(*           code reads the same thing - TLC must refute it.               *)
(*  strings  every string s over Alphabet up to MaxS characters as the     *)
(*           value of `k=s; ` followed by each context.  Theorems: ReprStr *)
(*           (the syntactic statement of "this string survives") is sound  *)
(*           (s is read back as that very string whatever follows) and     *)
(*           complete (otherwise some context or s itself reads as         *)
(*           something else).                                              *)
(*  records  annotation sets (typed values) written by the specification's *)
(*           writer in both orders and read back.  Theorems: representable *)
(*           records come back equal (RoundTrip), whatever the order       *)
(*           (OrderFree), a second write/read changes nothing (Stable);    *)
(*           every value of the pool declared not representable does       *)
(*           change (NotRepresentable); the guess takes the written text   *)
(*           for an OBI header except a lone definition starting with '{'. *)
(*  guess    title texts of the three kinds (OBI, JSON, none) and the      *)
(*           reader ParseGuessedFastSeqHeader must choose.                 *)
(***************************************************************************)
EXTENDS ObiHeader, Json, CSV, IOUtils

CONSTANTS Families,   \* subset of {"lines", "strings", "records", "guess"}
          Steps,      \* lines: the second entry is Forms[i + d] for d in Steps (0: no second entry)
          AllTails,   \* lines: TRUE = every tail after every line, FALSE = no tail and one tail chosen by rotation
          MaxS,       \* strings: longest s
          Alphabet    \* strings: characters of s

AlphaQuick == {"a", "t", "1", ".", "e", " ", ";", "'", "{", "}", "\""}
AlphaDeep  == {"a", "T", "1", ".", "e", "+", " ", ";", "'", "{", "}", "=", "\"", ":", "\t"}
AlphaLong  == {"t", "1", ".", "e", " ", ";", "'", "{", "}", "\"", "a"}

---------------------------------------------------------------------------
(* the table: one `key=value` text and its reading.  pad: blanks may surround the value without changing it *)
F(k, txt, t, v, pad) == [k |-> Chars(k), txt |-> Chars(txt), t |-> t, v |-> Chars(v), m |-> {}, pad |-> pad]
D(k, txt, t, ms) == [k |-> Chars(k), txt |-> Chars(txt), t |-> t, v |-> <<>>,
                     m |-> {Member(Chars(x[1]), x[2], Chars(x[3])) : x \in ms}, pad |-> TRUE]

Forms == <<
  \* numbers with an integral value are read as int
  F("count", "3", "int", "3", TRUE),                 F("n1", "-3", "int", "-3", TRUE),
  F("n2", "+4", "int", "4", TRUE),                   F("n3", "007", "int", "7", TRUE),
  F("n4", "2.0", "int", "2", TRUE),                  F("n5", "5.", "int", "5", TRUE),
  F("n6", "1e3", "int", "1000", TRUE),               F("n7", "-0", "int", "0", TRUE),
  F("n8", "0.0", "int", "0", TRUE),                  F("n9", "12.5e1", "int", "125", TRUE),
  F("taxid", "9606", "int", "9606", TRUE),           F("n10", "9007199254740992", "int", "9007199254740992", TRUE),
  F("n11", "250E-1", "int", "25", TRUE),
  \* any other number is read as float, by value
  F("x1", "1.5", "float", "15e-1", TRUE),            F("x2", ".5", "float", "5e-1", TRUE),
  F("x3", "-2.50", "float", "-25e-1", TRUE),         F("x4", "1E-2", "float", "1e-2", TRUE),
  F("x5", "+0.125", "float", "125e-3", TRUE),        F("score", "0.95", "float", "95e-2", TRUE),
  F("x6", "12e-1", "float", "12e-1", TRUE),
  \* integral but beyond int64: still a number
  F("h1", "1e30", "float", "1e30", TRUE),            F("h2", "-25e20", "float", "-25e20", TRUE),
  \* the ten boolean words
  F("b1", "true", "bool", "true", TRUE),             F("b2", "True", "bool", "true", TRUE),
  F("b3", "TRUE", "bool", "true", TRUE),             F("b4", "t", "bool", "true", TRUE),
  F("b5", "T", "bool", "true", TRUE),                F("b6", "false", "bool", "false", TRUE),
  F("b7", "False", "bool", "false", TRUE),           F("b8", "FALSE", "bool", "false", TRUE),
  F("b9", "f", "bool", "false", TRUE),               F("b10", "F", "bool", "false", TRUE),
  \* everything else up to the ';' is a string, blanks trimmed
  F("s1", "tRUE", "str", "tRUE", TRUE),              F("s2", "yes", "str", "yes", TRUE),
  F("s3", "hello world", "str", "hello world", TRUE), F("s4", "", "str", "", TRUE),
  F("s5", "a=b", "str", "a=b", TRUE),                F("s6", "1 2", "str", "1 2", TRUE),
  F("s7", "1e", "str", "1e", TRUE),                  F("s8", "--1", "str", "--1", TRUE),
  F("s9", "1.2.3", "str", "1.2.3", TRUE),            F("s10", ".5e3", "str", ".5e3", TRUE),
  F("s11", "0x10", "str", "0x10", TRUE),             F("s12", "[1,2,3]", "str", "[1,2,3]", TRUE),
  F("s13", "\"abc\"", "str", "\"abc\"", TRUE),       F("s14", "it's", "str", "it's", TRUE),
  F("s15", "{a", "str", "{a", TRUE),                 F("s16", "a}b", "str", "a}b", TRUE),
  F("forward_tag", "acgtac", "str", "acgtac", TRUE), F("Key-1.b_c", "v", "str", "v", TRUE),
  F("s17", "NaN", "str", "NaN", TRUE),               F("s18", "1_000", "str", "1_000", TRUE),
  \* quoted: verbatim, may hold a ';'
  F("q1", "'abc'", "str", "abc", FALSE),             F("q2", "'a;b'", "str", "a;b", FALSE),
  F("q3", "' ab '", "str", " ab ", FALSE),           F("q4", "''", "str", "", FALSE),
  F("q5", "'12'", "str", "12", FALSE),               F("q6", "'true'  ", "str", "true", FALSE),
  F("q7", " 'abc'", "str", "'abc'", FALSE),          \* a blank before the apostrophe: not the quoted form
  F("q8", "'a{b'", "str", "a{b", FALSE),
  \* dicts, typed by the key
  D("m1", "{'a':1,'b':2}", "map", {<<"a", "num", "1">>, <<"b", "num", "2">>}),
  D("merged_sample", "{'s1':2,'s2':1}", "mapint", {<<"s1", "num", "2">>, <<"s2", "num", "1">>}),
  D("reads_count", "{'x':10}", "mapint", {<<"x", "num", "10">>}),
  D("obiclean_status", "{'s1':'h','s2':'i'}", "mapstr", {<<"s1", "str", "h">>, <<"s2", "str", "i">>}),
  D("x_mutation", "{'a':'c->t'}", "mapstr", {<<"a", "str", "c->t">>}),
  D("m2", "{'a':'x;y','b':'{'}", "map", {<<"a", "str", "x;y">>, <<"b", "str", "{">>}),
  D("m3", " {'x': 1 , 'y' : 'z' } ", "map", {<<"x", "num", "1">>, <<"y", "str", "z">>}),
  D("m4", "{\"x\":1}", "map", {<<"x", "num", "1">>}),
  D("m5", "{}", "map", {}),
  D("m6", "{'k':true,'l':null,'m':1.5,'n':[1,'a'],'o':{'p':1}}", "map",
       {<<"k", "bool", "true">>, <<"l", "null", "">>, <<"m", "num", "15e-1">>, <<"n", "other", "">>, <<"o", "other", "">>}),
  D("m7", "{'a':1,'a':2}", "map", {<<"a", "num", "2">>}),
  D("merged_x", "{}", "mapint", {}),
  D("m8", "{\"a\":\"}{\",\"b\":1}", "map", {<<"a", "str", "}{">>, <<"b", "num", "1">>}),
  F("m9", "{'a':'\"}'}", "str", "{'a':'\"}'}", TRUE),          \* apostrophes become double quotes: not JSON any more
  \* a dict that cannot be decoded as the key asks is kept as the string it is
  F("merged_y", "{'s1':'x'}", "str", "{'s1':'x'}", TRUE),  F("y_status", "{'a':1}", "str", "{'a':1}", TRUE),
  F("d1", "{a}", "str", "{a}", TRUE),                F("d2", "{{'x':1}}", "str", "{{'x':1}}", TRUE),
  F("d3", "{'x':1}x", "str", "{'x':1}x", TRUE),      F("d4", "{'a':}", "str", "{'a':}", TRUE),
  F("d5", "{'a':1,}", "str", "{'a':1,}", TRUE),      F("d6", "{'a' 1}", "str", "{'a' 1}", TRUE),
  F("d7", "{'a':'it's'}", "str", "{'a':'it's'}", TRUE)
>>
NF == Len(Forms)

Seps   == <<"", " ", "  ", "\t">>             \* what follows the ';' of an entry
Styles == {"plain", "keypad", "valpad"}
Tails  == <<"", "Homo sapiens", "Homo sapiens x=1; rest", "a b=1;", "x=1", "1a=3;", "=2;", "  spaced  ",
           "_a=1;", "word", "x = 'unterminated", ";", "a,b=1;">>

EntryLine(f, style, sep) ==
  (IF style = "keypad" THEN Chars("  ") \o f.k \o Chars(" \t=") ELSE f.k \o <<"=">>)
  \o (IF style = "valpad" /\ f.pad THEN Chars(" \t") \o f.txt \o Chars("  ") ELSE f.txt)
  \o <<SEMI>> \o Chars(sep)

Expected(f) == [k |-> f.k, t |-> f.t, v |-> f.v, m |-> f.m]

---------------------------------------------------------------------------
(* records: typed values, their printed form, whether they are representable *)
R(k, t, v, ok) == [k |-> Chars(k), t |-> t, v |-> Chars(v), ms |-> <<>>, ok |-> ok]
RM(k, t, ms, ok) == [k |-> Chars(k), t |-> t, v |-> <<>>, ms |-> [i \in 1..Len(ms) |-> Member(Chars(ms[i][1]), ms[i][2], Chars(ms[i][3]))], ok |-> ok]

Values == <<
  R("count", "int", "42", TRUE),                 R("n", "int", "-7", TRUE),          R("z", "int", "0", TRUE),
  R("score", "float", "0.5", TRUE),              R("w", "float", "2", TRUE),         R("e", "float", "1e-05", TRUE),
  R("flag", "bool", "true", TRUE),               R("off", "bool", "false", TRUE),
  R("s", "str", "hello world", TRUE),            R("empty", "str", "", TRUE),        R("eq", "str", "a=b c", TRUE),
  R("tag", "str", "acgt", TRUE),                 R("br", "str", "a{b}'c", TRUE),     R("Key-1.b_c", "str", "x", TRUE),
  RM("merged_sample", "mapint", << <<"s1", "num", "2">>, <<"s2", "num", "1">> >>, TRUE),
  RM("obiclean_status", "mapstr", << <<"a", "str", "h">>, <<"b", "str", "x;y">> >>, TRUE),
  RM("m", "map", << <<"a", "num", "1">>, <<"b", "str", "t">>, <<"c", "bool", "true">> >>, TRUE),
  RM("counts", "mapint", << <<"a", "num", "3">> >>, TRUE),           \* ordinary key: comes back as a generic map
  RM("names", "mapstr", << <<"a", "str", "1">> >>, TRUE),            \* ordinary key: comes back as a generic map
  RM("none", "map", <<>>, TRUE),
  \* not representable
  R("semi", "str", "a;b", FALSE),                R("pad", "str", " x", FALSE),       R("num", "str", "42", FALSE),
  R("fl", "str", "1.5", FALSE),                  R("bo", "str", "T", FALSE),         R("bo2", "str", "false", FALSE),
  R("qu", "str", "'abc'", FALSE),                R("di", "str", "{'a':1}", FALSE),   R("br2", "str", "{x", FALSE),
  R("ap", "str", "'x", FALSE),
  RM("x_status", "mapint", << <<"a", "num", "1">> >>, FALSE),
  RM("merged_z", "mapstr", << <<"a", "str", "x">> >>, FALSE),
  RM("quote", "mapstr", << <<"a", "str", "it's">> >>, FALSE),
  R("list", "list", "[1 2 3]", FALSE),
  R("1a", "int", "1", FALSE),                    R("_a", "int", "1", FALSE),         R("a b", "int", "1", FALSE)
>>
NV == Len(Values)
Defs == <<"", "Homo sapiens", "{x} y", "x=1", "a b=1;">>
BadDefs == <<"x=1;", " padded", "x = 'a'; rest">>

RECURSIVE WriteEntriesR(_)
WriteEntriesR(rs) == IF rs = <<>> THEN <<>> ELSE EntryText(rs[1].k, rs[1].t, rs[1].v, rs[1].ms) \o WriteEntriesR(Tail(rs))
WriteRec(rs, def) == WriteEntriesR(rs) \o DefText(def)
Reverse(s) == [i \in 1..Len(s) |-> s[Len(s) + 1 - i]]

(* the text the FASTA / FASTQ readers hand to the header reader: blanks after the identifier are skipped *)
AfterId(t) == SubSeq(t, SkipB(t, 1), Len(t))

---------------------------------------------------------------------------
(* guess: title texts and the reader that must be chosen *)
G(txt, kind, ents, def) == [txt |-> Chars(txt), kind |-> kind, ents |-> ents, def |-> Chars(def)]
E1(k, t, v) == [k |-> Chars(k), t |-> t, v |-> Chars(v), m |-> {}]
Guesses == <<
  G("count=3; taxid=9606; Homo sapiens", "obi", {E1("count", "int", "3"), E1("taxid", "int", "9606")}, "Homo sapiens"),
  G("{\"count\":3,\"k\":\"v\"} some text", "json", {E1("count", "int", "3"), E1("k", "str", "v")}, "some text"),
  G("{\"a\":1}", "json", {E1("a", "int", "1")}, ""),
  G("Homo sapiens mitochondrion", "obi", {}, "Homo sapiens mitochondrion"),
  G("", "obi", {}, ""),
  G("k={'a':1}; d", "obi", {[k |-> Chars("k"), t |-> "map", v |-> <<>>, m |-> {Member(Chars("a"), "num", Chars("1"))}]}, "d"),
  G("text {\"a\":1}", "obi", {}, "text {\"a\":1}"),
  G("{x} y", "json", {}, "{x} y"),                  \* a plain definition that starts with a brace: taken for JSON
  G("{unclosed", "json", {}, "{unclosed")
>>

---------------------------------------------------------------------------
VARIABLES fam, i, d, sep, style, tail, s, pc,
          out        \* what the specification computes for the case (filled by Done: heavy evaluation stays in Next)

vars == <<fam, i, d, sep, style, tail, s, pc, out>>

Init ==
  /\ pc = "new" /\ s = <<>> /\ out = <<>>
  /\ \/ "lines" \in Families /\ fam = "lines" /\ i \in 1..NF /\ d \in Steps /\ sep \in 1..Len(Seps) /\ style \in Styles
        /\ tail \in (IF AllTails THEN 1..Len(Tails) ELSE {1, ((i + sep + d) % Len(Tails)) + 1})
        \* the small tier keeps blanks around keys and values for single entries followed by one blank only
        /\ (AllTails \/ style = "plain" \/ (sep = 2 /\ d = 0 /\ tail # 1))
     \/ "strings" \in Families /\ fam = "strings" /\ i = 0 /\ d = 0 /\ sep = 0 /\ style = "" /\ tail = 0
     \/ "records" \in Families /\ fam = "records" /\ i \in 0..NV /\ d \in 0..2 /\ sep = 0 /\ style = "" /\ (i = 0 => d = 0)   \* i = 0: no annotation but the definition
        /\ tail \in (IF d = 0 THEN 1..(Len(Defs) + Len(BadDefs)) ELSE {d, 3})
     \/ "guess" \in Families /\ fam = "guess" /\ i \in 1..Len(Guesses) /\ d = 0 /\ sep = 0 /\ style = "" /\ tail = 0

Gen(c) == /\ fam = "strings" /\ pc = "new" /\ Len(s) < MaxS
          /\ s' = Append(s, c) /\ UNCHANGED <<fam, i, d, sep, style, tail, pc, out>>

---------------------------------------------------------------------------
(* lines *)
Second == IF d = 0 THEN 0 ELSE ((i + d - 1) % NF) + 1
Line == EntryLine(Forms[i], style, Seps[sep])
        \o (IF Second = 0 THEN <<>> ELSE EntryLine(Forms[Second], style, Seps[sep]))
        \o Chars(Tails[tail])
LineExpected == [ents |-> <<Expected(Forms[i])>> \o (IF Second = 0 THEN <<>> ELSE <<Expected(Forms[Second])>>),
                 def  |-> Trim(Chars(Tails[tail]))]

(* everything the specification says about one text, computed once *)
NoDeparture == [skip |-> FALSE, drop |-> FALSE, wrap |-> FALSE]
Reading(text) ==
  LET rd == ReadHeader(text)
      aw == ReadHeaderAsWritten(text)
  IN  [text |-> text, rd |-> rd, aw |-> aw, dp |-> IF aw = rd THEN NoDeparture ELSE Departures(text),
       undecided |-> Undecided(text)]
OutLine == Reading(Line)

GrammarAgrees == (fam = "lines" /\ pc = "done") => out.rd = LineExpected
TailsAreDefinitions == (fam = "lines" /\ pc = "done") => ReprDef(Trim(Chars(Tails[tail])))
(* negative test: the loop as written reads every line of the family as the grammar says - refuted by TLC *)
AsWrittenAgrees == (fam = "lines" /\ pc = "done") => out.aw = out.rd
(* where the loop as written departs, one of the three named departures (or their combination) explains it *)
DeparturesNamed == (fam = "lines" /\ pc = "done") => ((out.aw # out.rd) => (out.dp.skip \/ out.dp.drop \/ out.dp.wrap))
(* the skip departs only when a character other than a blank follows the ';' of an entry *)
SkipOnlyOnGluedText == (fam = "lines" /\ pc = "done" /\ Seps[sep] # "") => ~out.dp.skip

---------------------------------------------------------------------------
(* strings *)
(* the text that closes what s leaves open: the quote, then the braces *)
RECURSIVE OpenState(_, _, _, _)
OpenState(t, n, level, q) ==
  IF n > Len(t) THEN [level |-> level, q |-> q]
  ELSE LET c == t[n] IN
    IF c = "{" /\ q = "" THEN OpenState(t, n + 1, level + 1, q)
    ELSE IF c \in {SQ, DQ} THEN OpenState(t, n + 1, level, IF q = "" THEN c ELSE IF q = c THEN "" ELSE q)
    ELSE IF c = "}" /\ q = "" /\ level > 0 THEN OpenState(t, n + 1, level - 1, q)
    ELSE OpenState(t, n + 1, level, q)
Closer == LET st == OpenState(s \o Chars("; "), 1, 0, "") IN
          (IF st.q = "" THEN <<>> ELSE <<st.q>>) \o [n \in 1..st.level |-> "}"] \o Chars("; ")
CtxTexts == <<Chars(""), Chars("z=1; "), Chars("'; "), Chars("y='b'; "), Closer>>
Ctxs == [c \in 1..Len(CtxTexts) |-> Str(CtxTexts[c])]
SLine(c) == Chars("k=") \o s \o Chars("; ") \o CtxTexts[c]
ReadAsItself(c) ==
  LET r  == ReadHeader(SLine(c))
      r2 == ReadHeader(CtxTexts[c])
  IN  /\ r.ents = <<[k |-> <<"k">>, t |-> "str", v |-> s, m |-> {}]>> \o r2.ents
      /\ r.def = r2.def
OutString == [itself |-> [c \in 1..Len(Ctxs) |-> ReadAsItself(c)], repr |-> ReprStr(s), r1 |-> Reading(SLine(1)), r2 |-> Reading(SLine(2))]
ReprSound == (fam = "strings" /\ pc = "done" /\ out.repr) => \A c \in 1..Len(Ctxs) : out.itself[c]
ReprComplete == (fam = "strings" /\ pc = "done" /\ ~out.repr) => \E c \in 1..Len(Ctxs) : ~out.itself[c]
(* the number language seen from the other side: a string is a number literal iff it has a value, and the    *)
(* canonical text of that value is a fixed point *)
NumCanonFixed == (fam = "strings" /\ pc = "done" /\ IsNum(Trim(s))) =>
   LET x == NumOf(Trim(s)) IN /\ IsNum(NumText(x)) /\ NumOf(NumText(x)) = x
                              /\ (NumType(x) = "int" <=> (Integral(x) /\ FitsInt(x)))

---------------------------------------------------------------------------
(* records *)
DefOf == IF tail <= Len(Defs) THEN Chars(Defs[tail]) ELSE Chars(BadDefs[tail - Len(Defs)])
DefOk == tail <= Len(Defs)
Others == IF d = 0 THEN <<>> ELSE IF d = 1 THEN <<Values[1], Values[9]>> ELSE <<Values[15], Values[4], Values[17]>>
RecEntries == IF i = 0 THEN <<>>
              ELSE IF d > 0 /\ \E j \in 1..Len(Others) : Others[j].k = Values[i].k THEN Others ELSE <<Values[i]>> \o Others
RecRepr == (\A j \in 1..Len(RecEntries) : Repr(RecEntries[j])) /\ DefOk
Text1 == WriteRec(RecEntries, DefOf)
Text2 == WriteRec(Reverse(RecEntries), DefOf)
BackSet == {Back(RecEntries[j]) : j \in 1..Len(RecEntries)}

(* write with the entries read back (members in any order: here as CHOOSE picks them) *)
RECURSIVE SetToSeq(_)
SetToSeq(S) == IF S = {} THEN <<>> ELSE LET x == CHOOSE y \in S : TRUE IN <<x>> \o SetToSeq(S \ {x})
Rewrite(rd) == WriteRec([j \in 1..Len(rd.ents) |-> [k |-> rd.ents[j].k, t |-> rd.ents[j].t, v |-> rd.ents[j].v,
                                                    ms |-> SetToSeq(rd.ents[j].m)]], rd.def)

OutRecord == LET r == Reading(Text1) IN [r |-> r, rd |-> r.rd, rd2 |-> ReadHeader(Text2)]
(* a value that is not representable is read back as something else, alone or in front of some other entry *)
Witnesses == <<"", "zz=}; ", "zz='; ">>
ComesBack(w) == LET rd == ReadHeader(WriteEntriesR(RecEntries) \o Chars(Witnesses[w]) \o DefText(DefOf))
                    rw == ReadHeader(Chars(Witnesses[w]))
                IN  Annots(rd.ents) = BackSet \cup Annots(rw.ents) /\ rd.def = DefOf

ReprMatchesPool == (fam = "records" /\ pc = "done" /\ i > 0) => (Repr(Values[i]) <=> Values[i].ok)
RoundTrip == (fam = "records" /\ pc = "done" /\ RecRepr) =>
   Annots(out.rd.ents) = BackSet /\ out.rd.def = DefOf /\ Len(out.rd.ents) = Len(RecEntries)
OrderFree == (fam = "records" /\ pc = "done" /\ RecRepr) =>
   Annots(out.rd.ents) = Annots(out.rd2.ents) /\ out.rd.def = out.rd2.def
Stable == (fam = "records" /\ pc = "done" /\ RecRepr) =>
   ReadHeader(Rewrite(out.rd)) = [ents |-> out.rd.ents, def |-> out.rd.def]
RepresentableAnywhere == (fam = "records" /\ pc = "done" /\ RecRepr /\ d = 0) => \A w \in 2..Len(Witnesses) : ComesBack(w)
NotRepresentable == (fam = "records" /\ pc = "done" /\ d = 0 /\ i > 0 /\ ~Values[i].ok /\ DefOk) =>
   \E w \in 1..Len(Witnesses) : ~ComesBack(w)
BadDefinitions == (fam = "records" /\ pc = "done" /\ i = 1 /\ d = 0 /\ ~DefOk) =>
   ~(Annots(out.rd.ents) = BackSet /\ out.rd.def = DefOf)
DefsAreDefinitions == (fam = "records" /\ pc = "done") => (ReprDef(DefOf) <=> DefOk)
(* the guess on what the writer produced *)
LoneBrace == RecEntries = <<>> /\ DefOf # <<>> /\ DefOf[1] = "{"
GuessOnWritten == (fam = "records" /\ pc = "done" /\ RecRepr) => (Guess(AfterId(Text1)) = "obi" <=> ~LoneBrace)
GuessLoneDefinition == (fam = "records" /\ pc = "done" /\ DefOk) =>
   (Guess(AfterId(WriteRec(<<>>, DefOf))) = "json" <=> (DefOf # <<>> /\ DefOf[1] = "{"))

---------------------------------------------------------------------------
(* guess *)
GuessTable == (fam = "guess" /\ pc = "done") =>
   LET g == Guesses[i] IN
   /\ Guess(g.txt) = g.kind
   /\ (g.kind = "obi" => (LET rd == ReadHeader(g.txt) IN Annots(rd.ents) = g.ents /\ rd.def = g.def))

---------------------------------------------------------------------------
Done == /\ pc = "new" /\ pc' = "done"
        /\ out' = CASE fam = "lines" -> OutLine [] fam = "strings" -> OutString [] fam = "records" -> OutRecord [] OTHER -> <<>>
        /\ UNCHANGED <<fam, i, d, sep, style, tail, s>>
Next == (\E c \in Alphabet : Gen(c)) \/ Done

---------------------------------------------------------------------------
(* export *)
MemJ(ms) == [j \in 1..Len(ms) |-> [k |-> Str(ms[j].k), t |-> ms[j].t, v |-> Str(ms[j].v)]]
EntJ(e) == [k |-> Str(e.k), t |-> e.t, v |-> Str(e.v), m |-> MemJ(SetToSeq(e.m))]
EntsJ(es) == [j \in 1..Len(es) |-> EntJ(es[j])]
ReadJ(r) ==
  [text |-> Str(r.text), ents |-> EntsJ(SetToSeq(Annots(r.rd.ents))), def |-> Str(r.rd.def),
   undecided |-> r.undecided,
   aw_ents |-> EntsJ(SetToSeq(Annots(r.aw.ents))), aw_def |-> Str(r.aw.def),
   departs |-> IF r.aw = r.rd THEN ""
               ELSE LET nm == (IF r.dp.skip THEN "+skip" ELSE "") \o (IF r.dp.drop THEN "+drop" ELSE "") \o (IF r.dp.wrap THEN "+wrap" ELSE "")
                    IN IF nm = "" THEN "+joint" ELSE nm,
   guess |-> Guess(AfterId(r.text))]

ValueClass(f) == IF f.t \in {"map", "mapint", "mapstr"} THEN "dict"
                 ELSE IF f.txt # <<>> /\ f.txt[1] = SQ THEN "quoted"
                 ELSE IF f.txt # <<>> /\ f.txt[SkipB(f.txt, 1)] = "{" THEN "dict-as-string"
                 ELSE f.t
SepName == CASE sep = 1 -> "none" [] sep = 2 -> "blank" [] sep = 3 -> "blanks" [] sep = 4 -> "tab" [] OTHER -> ""

ExportLine == [op |-> "parse", cls |-> "lines/" \o ValueClass(Forms[i]) \o "/sep=" \o SepName \o "/" \o style
                                     \o (IF Second = 0 THEN "/one" ELSE "/two") \o (IF Tails[tail] = "" THEN "/notail" ELSE "/tail"),
               r |-> ReadJ(out)]
ExportString(c) == [op |-> "parse", cls |-> "strings/" \o (IF ReprStr(s) THEN "representable" ELSE "not-representable") \o "/ctx" \o ToString(c),
                    r |-> ReadJ(IF c = 1 THEN out.r1 ELSE out.r2)]
ExportRecord == [op |-> "rt", cls |-> "records/" \o (IF i = 0 THEN "none" ELSE Values[i].t) \o (IF RecRepr THEN "/representable" ELSE "/not-representable")
                                      \o "/with" \o ToString(Len(RecEntries) - 1) \o (IF DefOf = <<>> THEN "/nodef" ELSE "/def"),
                 rec |-> [j \in 1..Len(RecEntries) |-> [k |-> Str(RecEntries[j].k), t |-> RecEntries[j].t, v |-> Str(RecEntries[j].v),
                                                        m |-> MemJ(RecEntries[j].ms)]],
                 def |-> Str(DefOf), repr |-> RecRepr, single |-> Len(RecEntries) = 1,
                 text |-> Str(Text1), r |-> ReadJ(out.r),
                 back |-> EntsJ(SetToSeq(BackSet)),
                 guess_ok |-> (RecEntries # <<>> \/ DefOf = <<>> \/ DefOf[1] # "{")]
ExportGuess == LET g == Guesses[i] IN
               [op |-> "guess", cls |-> "guess/" \o g.kind \o "/" \o ToString(i), text |-> Str(g.txt), kind |-> g.kind,
                ents |-> EntsJ(SetToSeq(g.ents)), def |-> Str(g.def),
                isjson |-> (g.kind = "json" /\ g.ents # {})]

Put(x) == CSVWrite("%1$s", <<ToJson(x)>>, IOEnv.VERIF_CASES)
Export ==
  pc = "done" =>
    CASE fam = "lines"   -> Put(ExportLine)
      [] fam = "strings" -> \A c \in {1, 2} : Put(ExportString(c))
      [] fam = "records" -> Put(ExportRecord)
      [] fam = "guess"   -> Put(ExportGuess)
=============================================================================

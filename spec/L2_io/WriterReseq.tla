---------------------------- MODULE WriterReseq ----------------------------
(***************************************************************************)
(* Binding of the unbounded TLAPS result (spec/ind/ReseqProof.tla: the     *)
(* re-sequencing buffer is correct for EVERY number of batches and every   *)
(* arrival history) to the model of the file writers: every step of        *)
(* Writer.tla is a step of ReseqProof (or leaves its variables unchanged)  *)
(* under the mapping below, checked by TLC as a refinement on the same     *)
(* bounded instances from which the replayed cases are exported.  The      *)
(* formatting, the JSON separators and the closing of the sink are         *)
(* stuttering steps of the abstract buffer.                                *)
(***************************************************************************)
EXTENDS Writer

RP == INSTANCE ReseqProof WITH
        n <- n, pendingIn <- pending, received <- received,
        nextToSend <- nextToPrint, emitted <- nextToPrint,
        pc <- IF pc \in {"closing", "done"} THEN "recv" ELSE pc

RefinesReseq == RP!Spec
ProvedInvariant == RP!IndInv          \* the invariant proved inductive, evaluated on the writer's states
ProvedAtEnd == RP!NothingLostAtEnd
=============================================================================

---------------------------- MODULE ReaderFault ----------------------------
(***************************************************************************)
(* C17 - a faulty (truncated / corrupt) compressed input in front of the   *)
(* reader stack of pkg/obiformats:                                         *)
(*                                                                         *)
(*   file -> decompressor -> bufio -> MIME sniffer: io.ReadFull(S bytes)   *)
(*        -> chunk reader: io.ReadFull(B bytes), then further reads        *)
(*        -> parsers -> command exit status                                *)
(*                                                                         *)
(* The decompressor delivers `limit` bytes and then its final status:      *)
(*   kind = "none"    : limit = D (all the data), then a clean EOF         *)
(*   kind = "trunc"   : limit = cut <= D, then io.ErrUnexpectedEOF         *)
(*   kind = "corrupt" : limit = cut <= D, then a checksum/format error     *)
(*   kind = "header"  : the decompressor cannot even be constructed        *)
(* io.ReadFull(want) returns (n, nil) when it got everything it wanted,    *)
(* (0, EOF) on a clean end, and turns "some bytes then clean EOF" into     *)
(* io.ErrUnexpectedEOF ITSELF - the very value a truncated stream returns. *)
(* The model therefore keeps the ORIGIN of an unexpected-EOF ("clean" =    *)
(* synthesised by ReadFull on a short but healthy stream, "stream" = came  *)
(* from the decompressor).                                                 *)
(*                                                                         *)
(* REQUIRED (the property): any status other than a clean end of file,     *)
(* wherever it surfaces, is fatal;  exit = 0 => all D bytes were parsed.   *)
(* With AsWritten = TRUE the model behaves like the code before repair:    *)
(* every ErrUnexpectedEOF is taken for a clean short read (kept as the     *)
(* documented negative test of the specification).                         *)
(***************************************************************************)
EXTENDS Integers, Sequences, TLC, Json, CSV, IOUtils

CONSTANTS S, B, MaxD, AsWritten

VARIABLES D, kind, cut,      \* the case
          pos,               \* bytes handed to the reader stack so far
          phase,             \* "open" | "sniff" | "first" | "later" | "done"
          more,              \* the sniffer got a full buffer: the stream is read further
          fatal, site, parsed
vars == <<D, kind, cut, pos, phase, more, fatal, site, parsed>>

Min(a, b) == IF a < b THEN a ELSE b
Limit(dd, k, c) == IF k = "none" THEN dd ELSE c

(* io.ReadFull(want) at position p: <<n, status, origin>> *)
ReadFull(dd, k, c, p, want) ==
  LET lim == Limit(dd, k, c)
      n == Min(want, lim - p)
  IN IF n = want THEN <<n, "nil", "-">>
     ELSE IF k = "none" THEN (IF n = 0 THEN <<0, "EOF", "-">> ELSE <<n, "UEOF", "clean">>)
     ELSE IF k = "trunc" THEN <<n, "UEOF", "stream">>
     ELSE <<n, "OTHER", "stream">>

(* must this read result stop the command ? *)
MustDie(r) == r[2] = "OTHER" \/ (r[2] = "UEOF" /\ r[3] = "stream")
Dies(r) == IF AsWritten THEN r[2] = "OTHER" ELSE MustDie(r)

Init ==
  /\ D \in 1..MaxD
  /\ kind \in {"none", "trunc", "corrupt", "header"}
  /\ cut \in (IF kind \in {"none", "header"} THEN {0} ELSE 0..D)
  /\ pos = 0 /\ phase = "open" /\ more = FALSE /\ fatal = FALSE /\ site = "none" /\ parsed = 0

Open ==
  /\ phase = "open"
  /\ IF kind = "header" THEN fatal' = TRUE /\ site' = "open" /\ phase' = "done"
     ELSE phase' = "sniff" /\ UNCHANGED <<fatal, site>>
  /\ UNCHANGED <<D, kind, cut, pos, more, parsed>>

Sniff ==
  /\ phase = "sniff"
  /\ LET r == ReadFull(D, kind, cut, pos, S) IN
       /\ pos' = pos + r[1]
       /\ IF Dies(r) THEN fatal' = TRUE /\ site' = "sniff" /\ phase' = "done" /\ UNCHANGED more
          ELSE /\ more' = (r[2] = "nil")
               /\ phase' = "first" /\ UNCHANGED <<fatal, site>>
  /\ UNCHANGED <<D, kind, cut, parsed>>

(* the chunk reader consumes the sniffed bytes, then - only if the sniffer buffer was full - the stream *)
ChunkRead(which) ==
  /\ phase = which
  /\ IF ~more
       THEN parsed' = pos /\ phase' = "done" /\ UNCHANGED <<pos, fatal, site>>
       ELSE LET r == ReadFull(D, kind, cut, pos, B) IN
            /\ pos' = pos + r[1]
            /\ IF Dies(r) THEN fatal' = TRUE /\ site' = which /\ phase' = "done" /\ UNCHANGED parsed
               ELSE IF r[2] = "nil" THEN phase' = "later" /\ UNCHANGED <<fatal, site, parsed>>
               ELSE parsed' = pos + r[1] /\ phase' = "done" /\ UNCHANGED <<fatal, site>>
  /\ UNCHANGED <<D, kind, cut, more>>

Next == Open \/ Sniff \/ ChunkRead("first") \/ ChunkRead("later")
Spec == Init /\ [][Next]_vars /\ WF_vars(Next)

---------------------------------------------------------------------------
Faulty == kind # "none"
ExitZero == phase = "done" /\ ~fatal
(* the property *)
FaultIsFatal == (phase = "done" /\ Faulty) => fatal
NoSilentTruncation == ExitZero => parsed = D
HealthyIsNotFatal == (phase = "done" /\ ~Faulty) => ~fatal
Terminates == <>(phase = "done")

(* closed form used by the trace specification: where does the fault surface for real sizes ? *)
SiteOf(dd, k, c, s, b) ==
  IF k = "none" THEN "none"
  ELSE IF k = "header" THEN "open"
  ELSE IF c < s THEN "sniff"
  ELSE IF c < s + b THEN "first"
  ELSE "later"
SiteAgrees == (phase = "done" /\ fatal) => site = SiteOf(D, kind, cut, S, B)

Export == phase = "done" =>
  CSVWrite("%1$s", <<ToJson([D |-> D, kind |-> kind, cut |-> cut, S |-> S, B |-> B,
                            fatal |-> IF fatal THEN 1 ELSE 0, site |-> site, parsed |-> parsed])>>, IOEnv.VERIF_CASES)
=============================================================================

------------------------------- MODULE Chunker -------------------------------
(***************************************************************************)
(* Property C01: the records delivered by a reader do not depend on where  *)
(* the read buffer ends.                                                   *)
(*                                                                         *)
(* This module is an IMPLEMENTATION-SHAPED model of                        *)
(*   pkg/obiformats/seqfile_chunk_read.go  ReadSeqFileChunk                *)
(* and of the three backward-scanning record splitters                     *)
(*   EndOfLastFastaEntry    (fastaseq_read.go)                             *)
(*   EndOfLastFastqEntry    (fastqseq_read.go)                             *)
(*   EndOfLastFlatFileEntry (embl_read.go, used for GenBank and EMBL)      *)
(* checked against the ABSTRACT contract of a chunk reader:                *)
(*   - every chunk is a whole number of records (it starts where a record  *)
(*     starts, and what separates it from the next chunk is end-of-line    *)
(*     characters only);                                                   *)
(*   - the chunks are numbered 0,1,2,... in file order;                    *)
(*   - put end to end they are the file.                                   *)
(* The files come from the generators TextFasta / TextFastq / TextFlat: a  *)
(* file is a tuple of record descriptors, so the record starts and the     *)
(* expected parse of every record are known by construction.               *)
(*                                                                         *)
(*   go func() {                                                           *)
(*     l, err = io.ReadFull(reader, buff)              -- ReadFirst        *)
(*     if err == ErrUnexpectedEOF { err = nil }                            *)
(*     for err == nil {                                                    *)
(*       for end = splitter(buff); err == nil && end < 0;    -- Split      *)
(*                                      end = splitter(buff) {             *)
(*          grow buff by B-1 bytes read from reader }        -- Extend     *)
(*       if len(buff) > 0 {                                  -- Emit       *)
(*          if end < 0 { end = len(buff) }                                 *)
(*          chunk = buff[:end] without trailing CR/LF                      *)
(*          if len(chunk) > 0 { send {clone(chunk), i}; i++ }              *)
(*          buff = buff[end:] moved to the head of the buffer } }          *)
(*     if len(buff) > 0 { send {clone(buff), i} }            -- FinalFlush *)
(*     close }                                                             *)
(*                                                                         *)
(* The buffer always holds a window file[lo..hi) of the byte stream: the   *)
(* carry-over of the unfinished tail is the move of `lo`.  io.ReadFull     *)
(* hides how the bytes arrive (short reads), so the model is deterministic *)
(* once the file and the buffer size B are chosen.  B = 1 makes the real   *)
(* function spin (the extension slice has length 0): MinB = 2 everywhere   *)
(* except in the negative test Chunker_b1.cfg.                             *)
(***************************************************************************)
EXTENDS TextFasta, TextFastq, TextFlat, FiniteSets, Json, CSV, IOUtils

CONSTANTS Fmts,        \* subset of {"fasta","fastq","genbank","embl"}
          Sel,         \* [format -> set of shape numbers used]
          Big,         \* TRUE: the shapes of the > 1 MiB files
          MaxRecs,     \* a file has 1..MaxRecs records
          FinalEols,   \* subset of BOOLEAN: the last line ends with an end-of-line or not
          MinB,        \* smallest buffer (2)
          Mode         \* "chunk": explore the chunker;  "gen": only render and export the files

VARIABLES f,           \* the file descriptor [fmt, idx, fin]
          file,        \* its text, as a tuple of characters
          starts,      \* starts[k] = offset of record k (0-based), starts[n+1] = length of the file
          B,           \* buffer size
          lo, hi,      \* the buffer holds file[lo..hi)    (offsets, 0-based, hi = bytes read so far)
          err,         \* "nil" | "EOF" | "UEOF"
          end,         \* last value returned by the splitter
          chunks,      \* emitted chunks  [from, to, order]   (text = file[from..to))
          i,           \* next chunk number
          pc, steps

vars == <<f, file, starts, B, lo, hi, err, end, chunks, i, pc, steps>>

---------------------------------------------------------------------------
(* the generators, by format *)
ShapesOf(fmt) ==
  CASE fmt = "fasta" -> IF Big THEN FastaBigShapes ELSE FastaShapes
    [] fmt = "fastq" -> IF Big THEN FastqBigShapes ELSE FastqShapes
    [] OTHER         -> IF Big THEN FlatBigShapes  ELSE FlatShapes
RecSegs(fmt, d) ==
  CASE fmt = "fasta" -> FastaSegs(d) [] fmt = "fastq" -> FastqSegs(d)
    [] fmt = "genbank" -> GenbankSegs(d) [] fmt = "embl" -> EmblSegs(d)
RecExpect(fmt, d, withQual) ==
  CASE fmt = "fasta" -> FastaExpect(d) [] fmt = "fastq" -> FastqExpect(d, withQual)
    [] OTHER -> FlatExpect(d)

Files == UNION { { [fmt |-> fm, idx |-> ix, fin |-> fe] : ix \in [1..n -> Sel[fm]], fe \in FinalEols } :
                    fm \in Fmts, n \in 1..MaxRecs }

Desc(x, k) == ShapesOf(x.fmt)[x.idx[k]]
(* segments of record k of file x: the final end-of-line of the file is dropped when ~fin *)
FileRecSegs(x, k) ==
  LET s == RecSegs(x.fmt, Desc(x, k))
  IN  IF k = Len(x.idx) /\ ~x.fin THEN SubSeq(s, 1, Len(s) - 1) ELSE s
FileText(x) == CatAll([k \in 1..Len(x.idx) |-> SegText(FileRecSegs(x, k))])
FileTags(x) == CatAll([k \in 1..Len(x.idx) |-> SegTags(FileRecSegs(x, k))])
RECURSIVE PrefixSums(_, _, _)
PrefixSums(lens, k, acc) == IF k > Len(lens) THEN acc
                            ELSE PrefixSums(lens, k + 1, Append(acc, acc[Len(acc)] + lens[k]))
FileStarts(x) == PrefixSums([k \in 1..Len(x.idx) |-> Len(SegText(FileRecSegs(x, k)))], 1, <<0>>)
FileRecs(x, withQual) == [k \in 1..Len(x.idx) |-> RecExpect(x.fmt, Desc(x, k), withQual)]

---------------------------------------------------------------------------
(* The three splitters, transcribed.  buf is a tuple of characters; the    *)
(* code indexes from 0: buffer[j] is buf[j + 1].                             *)
IsSpaceChar(c) == c = " " \/ c = "\t"
SeqCharSet == {"a","b","c","d","e","f","g","h","i","j","k","l","m","n","o","p","q","r","s","t",
                       "u","v","w","x","y","z","A","B","C","D","E","F","G","H","I","J","K","L","M","N",
                       "O","P","Q","R","S","T","U","V","W","X","Y","Z","-",".","[","]"}
IsSeqChar(c) == c \in SeqCharSet

(* EndOfLastFastaEntry: last '>' that follows an end-of-line character.                   *)
(*   for i = imax-1; i >= 0 && state < 2; i-- { ... }   if i == 0 || state != 2 { return -1 } *)
(* XxScan returns <<i, state, result>> as they are when the loop exits.                      *)
RECURSIVE FaScan(_, _, _, _)
FaScan(buf, j, state, last) ==
  IF j < 0 \/ state >= 2 THEN <<j, state, last>>
  ELSE IF state = 0 THEN (IF buf[j + 1] = ">" THEN FaScan(buf, j - 1, 1, j) ELSE FaScan(buf, j - 1, 0, last))
  ELSE (IF IsEolChar(buf[j + 1]) THEN FaScan(buf, j - 1, 2, last) ELSE FaScan(buf, j - 1, 0, last))
EndOfLastFastaEntry(buf) ==
  LET r == FaScan(buf, Len(buf) - 1, 0, 0)
  IN  IF r[1] = 0 \/ r[2] # 2 THEN -1 ELSE r[3]

(* EndOfLastFastqEntry: 8 states; from the last '+' line that follows a sequence line back   *)
(* to the '@' that starts the title line above it.  On a mismatch the scan restarts just     *)
(* before the '+' that opened the attempt (i = restart, then i--).                           *)
RECURSIVE FqScan(_, _, _, _, _)
FqScan(buf, j, state, restart, cut) ==
  IF j < 0 \/ state >= 7 THEN <<j, state, cut>>
  ELSE LET C == buf[j + 1] IN
    CASE state = 0 -> IF C = "+" THEN FqScan(buf, j - 1, 1, j, cut) ELSE FqScan(buf, j - 1, 0, restart, cut)
      [] state = 1 -> IF IsEolChar(C) THEN FqScan(buf, j - 1, 2, restart, cut)
                      ELSE FqScan(buf, restart - 1, 0, restart, cut)
      [] state = 2 -> IF IsEolChar(C) \/ IsSpaceChar(C) THEN FqScan(buf, j - 1, 2, restart, cut)
                      ELSE IF IsSeqChar(C) THEN FqScan(buf, j - 1, 3, restart, cut)
                      ELSE FqScan(buf, restart - 1, 0, restart, cut)
      [] state = 3 -> IF IsEolChar(C) THEN FqScan(buf, j - 1, 4, restart, cut)
                      ELSE IF IsSeqChar(C) THEN FqScan(buf, j - 1, 3, restart, cut)
                      ELSE FqScan(buf, restart - 1, 0, restart, cut)
      [] state = 4 -> IF IsEolChar(C) THEN FqScan(buf, j - 1, 4, restart, cut)
                      ELSE FqScan(buf, j - 1, 5, restart, cut)
      [] state = 5 -> IF IsEolChar(C) THEN FqScan(buf, restart - 1, 0, restart, cut)
                      ELSE IF C = "@" THEN FqScan(buf, j - 1, 6, restart, j)
                      ELSE FqScan(buf, j - 1, 5, restart, cut)
      [] state = 6 -> IF IsEolChar(C) THEN FqScan(buf, j - 1, 7, restart, cut)
                      ELSE FqScan(buf, j - 1, 5, restart, cut)
EndOfLastFastqEntry(buf) ==
  LET r == FqScan(buf, Len(buf) - 1, 0, Len(buf) - 1, Len(buf))
  IN  IF r[1] = 0 \/ r[2] # 7 THEN -1 ELSE r[3]

(* EndOfLastFlatFileEntry:  <CR>?<LF>//<CR>?<LF>  scanned backwards (states 1..5 = how much  *)
(* of the pattern is matched); `start` = offset that follows the <LF> matched in state 1.    *)
(*   for i = len-1; i >= 0 && state < 5; i-- { ... }    if i > 0 { return start }; return -1 *)
RECURSIVE FlScan(_, _, _, _)
FlScan(buf, j, state, start) ==
  IF j < 0 \/ state >= 5 THEN <<j, state, start>>
  ELSE IF state = 0 THEN FlScan(buf, j - 1, IF buf[j + 1] = "\n" THEN 1 ELSE 0, start)
  ELSE LET C == buf[j + 1] IN
    CASE state = 1 -> FlScan(buf, j - 1, CASE C = "\r" -> 2 [] C = "/" -> 3 [] C = "\n" -> 1 [] OTHER -> 0, j + 2)
      [] state = 2 -> FlScan(buf, j - 1, CASE C = "/" -> 3 [] C = "\n" -> 1 [] OTHER -> 0, start)
      [] state = 3 -> FlScan(buf, j - 1, CASE C = "/" -> 4 [] C = "\n" -> 1 [] OTHER -> 0, start)
      [] state = 4 -> FlScan(buf, j - 1, IF C = "\n" THEN 5 ELSE 0, start)
EndOfLastFlatFileEntry(buf) ==
  LET r == FlScan(buf, Len(buf) - 1, 0, 0)
  IN  IF r[1] > 0 THEN r[3] ELSE -1

Splitter(fmt, buf) ==
  CASE fmt = "fasta" -> EndOfLastFastaEntry(buf)
    [] fmt = "fastq" -> EndOfLastFastqEntry(buf)
    [] OTHER         -> EndOfLastFlatFileEntry(buf)

---------------------------------------------------------------------------
(* helpers on offsets of `file` (character at offset o is file[o+1]) *)
RECURSIVE StripEol(_, _, _)       \* largest t in from..to with t = from or file[t-1] not an eol character
StripEol(txt, from, to) == IF to > from /\ IsEolChar(txt[to]) THEN StripEol(txt, from, to - 1) ELSE to
OnlyEol(txt, from, to) == \A o \in from..(to - 1) : IsEolChar(txt[o + 1])
StartSet == {starts[k] : k \in 1..Len(starts)}       \* record starts and the end of the file

---------------------------------------------------------------------------
Init ==
  /\ f \in Files
  /\ file = <<>> /\ starts = <<>> /\ B = 0 /\ lo = 0 /\ hi = 0 /\ err = "nil" /\ end = 0
  /\ chunks = <<>> /\ i = 0 /\ pc = "render" /\ steps = 0

(* heavy evaluation sits here, not in Init *)
Render ==
  /\ pc = "render"
  /\ file' = Chars(FileText(f))
  /\ starts' = FileStarts(f)
  /\ IF Mode = "gen" THEN B' = MinB /\ pc' = "done"
     ELSE B' \in MinB..(Len(file') + 1) /\ pc' = "read"
  /\ UNCHANGED <<f, lo, hi, err, end, chunks, i, steps>>

ReadFirst ==
  /\ pc = "read"
  /\ LET n == Min(B, Len(file)) IN
     /\ hi' = n
     /\ err' = IF n = 0 THEN "EOF" ELSE "nil"          \* a short first read (ErrUnexpectedEOF) is not an error
     /\ pc' = IF n = 0 THEN "final" ELSE "split"
  /\ steps' = steps + 1
  /\ UNCHANGED <<f, file, starts, B, lo, end, chunks, i>>

Split ==
  /\ pc = "split"
  /\ end' = Splitter(f.fmt, SubSeq(file, lo + 1, hi))
  /\ pc' = IF end' < 0 /\ err = "nil" THEN "extend" ELSE "emit"
  /\ steps' = steps + 1
  /\ UNCHANGED <<f, file, starts, B, lo, hi, err, chunks, i>>

Extend ==
  /\ pc = "extend"
  /\ LET size == Min(B - 1, Len(file) - hi) IN
     /\ hi' = hi + size
     /\ err' = IF size = B - 1 THEN "nil" ELSE IF size = 0 THEN "EOF" ELSE "UEOF"
  /\ pc' = "split"
  /\ steps' = steps + 1
  /\ UNCHANGED <<f, file, starts, B, lo, end, chunks, i>>

Emit ==
  /\ pc = "emit"
  /\ IF hi > lo
       THEN LET e  == IF end < 0 THEN hi - lo ELSE end
                to == StripEol(file, lo, lo + e)
            IN  /\ IF to > lo
                     THEN chunks' = Append(chunks, [from |-> lo, to |-> to, order |-> i]) /\ i' = i + 1
                     ELSE UNCHANGED <<chunks, i>>
                /\ lo' = lo + e                         \* carry-over: the tail moves to the head of the buffer
       ELSE UNCHANGED <<chunks, i, lo>>
  /\ pc' = IF err = "nil" THEN "split" ELSE "final"
  /\ steps' = steps + 1
  /\ UNCHANGED <<f, file, starts, B, hi, err, end>>

FinalFlush ==
  /\ pc = "final"
  /\ IF hi > lo THEN chunks' = Append(chunks, [from |-> lo, to |-> hi, order |-> i]) /\ lo' = hi
                ELSE UNCHANGED <<chunks, lo>>
  /\ pc' = "done"
  /\ steps' = steps + 1
  /\ UNCHANGED <<f, file, starts, B, hi, err, end, i>>

Done == pc = "done" /\ UNCHANGED vars      \* the channel is closed

NextNoDone == Render \/ ReadFirst \/ Split \/ Extend \/ Emit \/ FinalFlush
Next == NextNoDone \/ Done

---------------------------------------------------------------------------
(* the abstract contract, as invariants *)
Running == pc \notin {"render"}
NChunks == Len(chunks)

TypeOK ==
  /\ pc \in {"render", "read", "split", "extend", "emit", "final", "done"}
  /\ err \in {"nil", "EOF", "UEOF"}
  /\ Running => (0 <= lo /\ lo <= hi /\ hi <= Len(file))

(* chunk numbers are 0,1,2,... in emission order *)
OrdersOK == \A k \in 1..NChunks : chunks[k].order = k - 1
CounterOK == pc # "done" => i = NChunks

(* the unread part of the window always begins where a record begins *)
WindowStartsAtRecord == (Running /\ Mode = "chunk") => lo \in StartSet

(* every chunk is a whole number of records; consecutive chunks are separated by eol characters only *)
WholeRecords ==
  \A k \in 1..NChunks :
    /\ chunks[k].from \in StartSet /\ chunks[k].from < chunks[k].to
    /\ k > 1 => (chunks[k - 1].to <= chunks[k].from /\ OnlyEol(file, chunks[k - 1].to, chunks[k].from))
    /\ \E s \in StartSet : chunks[k].to <= s /\ OnlyEol(file, chunks[k].to, s)
FirstChunkAtZero == NChunks > 0 => chunks[1].from = 0

(* at the end: the chunks put end to end are the file, and record k is in exactly one chunk *)
RecordsIn(c) == {k \in 1..(Len(starts) - 1) : c.from <= starts[k] /\ starts[k] < c.to}
Complete ==
  (pc = "done" /\ Mode = "chunk") =>
     /\ NChunks > 0 /\ OnlyEol(file, chunks[NChunks].to, Len(file))
     /\ UNION {RecordsIn(chunks[k]) : k \in 1..NChunks} = 1..(Len(starts) - 1)
     /\ \A k \in 1..NChunks : RecordsIn(chunks[k]) # {}
     /\ \A k1, k2 \in 1..NChunks : k1 < k2 =>
           \A r1 \in RecordsIn(chunks[k1]), r2 \in RecordsIn(chunks[k2]) : r1 < r2

(* termination: the number of steps is bounded (with B >= 2) and only "done" has no other successor *)
StepBound == steps <= 4 * Len(file) + 8          \* (deadlock checking is on: only "done" may stutter)

---------------------------------------------------------------------------
(* case export: one line per FILE (when its first state appears); the harness replays every *)
(* buffer size MinB..Len+1 on it                                                             *)
ExportNow == IF Mode = "gen" THEN pc = "done" ELSE (pc = "read" /\ B = MinB)
Export ==
  ExportNow =>
    CSVWrite("%1$s", <<ToJson([fmt    |-> f.fmt,
                              idx    |-> f.idx,
                              fin    |-> IF f.fin THEN 1 ELSE 0,
                              text   |-> FileText(f),
                              tags   |-> FileTags(f),
                              starts |-> starts,
                              recs   |-> FileRecs(f, TRUE),
                              recsnoq |-> IF f.fmt = "fastq" THEN FileRecs(f, FALSE) ELSE <<>>])>>,
             IOEnv.VERIF_CASES)

---------------------------------------------------------------------------
(* shape selections of the configurations *)
SelQuick    == [fasta |-> {2, 3, 4, 5, 6}, fastq |-> {2, 3, 4, 5, 6}, genbank |-> {1, 2}, embl |-> {2}]
SelThree    == [fasta |-> {2, 3, 4, 5}, fastq |-> {2, 4, 5, 6}, genbank |-> {}, embl |-> {}]
SelFlatThorough == [fasta |-> {}, fastq |-> {}, genbank |-> {1, 2, 4, 6, 9}, embl |-> {1, 2, 4, 6, 9}]
SelSim      == [fasta |-> {2, 3, 5}, fastq |-> {2, 4, 6}, genbank |-> {1, 2}, embl |-> {1, 2}]
SelGen3     == [fasta |-> {1, 2, 3, 4, 5, 6}, fastq |-> {1, 2, 3, 4, 5, 6}, genbank |-> {1, 2, 4}, embl |-> {1, 2, 4}]
SelOne      == [fasta |-> {1}, fastq |-> {1}, genbank |-> {1}, embl |-> {1}]
SelAll      == [fasta |-> 1..Len(FastaShapes), fastq |-> 1..Len(FastqShapes),
                genbank |-> 1..Len(FlatShapes), embl |-> 1..Len(FlatShapes)]
SelBig      == [fasta |-> 1..Len(FastaBigShapes), fastq |-> 1..Len(FastqBigShapes),
                genbank |-> 1..Len(FlatBigShapes), embl |-> 1..Len(FlatBigShapes)]
=============================================================================

------------------------------ MODULE TextBase ------------------------------
(***************************************************************************)
(* Text as TLA+ strings, for the generators of property C01.               *)
(*                                                                         *)
(* A sequence file is produced FROM abstract record descriptors: the       *)
(* descriptor is therefore the expected parse of the text, by construction *)
(* and independently of the neighbours of the record and of where a read   *)
(* buffer ends.  A record is rendered as a sequence of SEGMENTS            *)
(* [t |-> tag, s |-> string]; the text is the concatenation of the strings *)
(* and the tag map (one tag letter per byte) says which field of the       *)
(* record each byte belongs to: it names the scenario classes ("the buffer *)
(* ends inside a quality line that starts with '@'") without any parsing.  *)
(*                                                                         *)
(* TLC evaluates \o, Len, SubSeq and Tail on strings; a string is turned   *)
(* into a tuple of one-character strings (Chars) where it must be indexed. *)
(***************************************************************************)
EXTENDS Integers, Sequences, TLC

Ch(s, i)      == SubSeq(s, i, i)
Chars(s)      == [i \in 1..Len(s) |-> SubSeq(s, i, i)]
IsEolChar(c)  == c = "\n" \/ c = "\r"
EolOf(e)      == IF e = "CRLF" THEN "\r\n" ELSE "\n"
Min(a, b)     == IF a <= b THEN a ELSE b

RECURSIVE Rep(_, _)                 \* c repeated n times (doubling: depth log n)
Rep(c, n) == IF n <= 0 THEN "" ELSE IF n = 1 THEN c
             ELSE LET h == Rep(c, n \div 2) IN IF n % 2 = 0 THEN h \o h ELSE h \o h \o c

RECURSIVE CatAll(_)                 \* tuple of strings -> string (divide and conquer)
CatAll(ss) == IF Len(ss) = 0 THEN "" ELSE IF Len(ss) = 1 THEN ss[1]
              ELSE LET m == Len(ss) \div 2 IN CatAll(SubSeq(ss, 1, m)) \o CatAll(SubSeq(ss, m + 1, Len(ss)))

RECURSIVE FlatSeq(_)                \* tuple of tuples -> tuple
FlatSeq(ss) == IF Len(ss) = 0 THEN <<>> ELSE IF Len(ss) = 1 THEN ss[1]
               ELSE LET m == Len(ss) \div 2 IN FlatSeq(SubSeq(ss, 1, m)) \o FlatSeq(SubSeq(ss, m + 1, Len(ss)))

MapChars(F(_), s) == CatAll([i \in 1..Len(s) |-> F(Ch(s, i))])

LowerChar(c) == CASE c = "A" -> "a" [] c = "C" -> "c" [] c = "G" -> "g" [] c = "T" -> "t"
                  [] c = "N" -> "n" [] c = "Y" -> "y" [] c = "R" -> "r" [] OTHER -> c
Lower(s) == MapChars(LowerChar, s)

Digit(n) == Ch("0123456789", n + 1)
RECURSIVE Digits(_)
Digits(n) == IF n < 10 THEN Digit(n) ELSE Digits(n \div 10) \o Digit(n % 10)
PadLeft(s, w)  == Rep(" ", w - Len(s)) \o s
PadRight(s, w) == s \o Rep(" ", w - Len(s))

(* s cut into blocks of w characters (last one shorter) *)
Blocks(s, w) == [j \in 1..((Len(s) + w - 1) \div w) |-> SubSeq(s, (j - 1) * w + 1, Min(j * w, Len(s)))]
(* s cut into k nearly equal non-empty parts (k <= Len(s)) *)
Parts(s, k)  == [j \in 1..k |-> SubSeq(s, ((j - 1) * Len(s)) \div k + 1, (j * Len(s)) \div k)]

RECURSIVE JoinWith(_, _)
JoinWith(ss, sep) == IF Len(ss) = 0 THEN "" ELSE IF Len(ss) = 1 THEN ss[1]
                     ELSE ss[1] \o sep \o JoinWith(Tail(ss), sep)

(* segments *)
Seg(t, s)     == [t |-> t, s |-> s]
SegText(segs) == CatAll([k \in 1..Len(segs) |-> segs[k].s])
SegTags(segs) == CatAll([k \in 1..Len(segs) |-> Rep(segs[k].t, Len(segs[k].s))])
(* one text line = its segments followed by the end-of-line segment (tag "e") *)
Line(segs, e) == segs \o <<Seg("e", EolOf(e))>>

(* the expected parse of a record; the same fields for the four formats *)
(*   qual  : tuple of integers (phred scores), <<>> when the format has none                *)
(*   taxid : 0 = the record carries no taxid annotation (FASTA/FASTQ)                       *)
Parsed(id, def, seq, qual, taxid, sciname) ==
   [id |-> id, def |-> def, seq |-> seq, qual |-> qual, taxid |-> taxid, sciname |-> sciname]
=============================================================================

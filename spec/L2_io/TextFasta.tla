------------------------------ MODULE TextFasta ------------------------------
(***************************************************************************)
(* FASTA generator (property C01).  Descriptor                             *)
(*   [id, def, seq, fold, eol]                                             *)
(* id: non-empty, no blank; def: "" or text not starting with a blank;     *)
(* seq: letters, written on `fold` lines (1..3, fold <= Len(seq));         *)
(* eol: "LF" | "CRLF" (all the lines of the record).                       *)
(*                                                                         *)
(*   >id[ def]<eol>  seqline<eol> ...                                      *)
(*                                                                         *)
(* Tags: g '>'  i identifier  b blank  d definition  s sequence  e eol.    *)
(* The expected parse is the descriptor (nucleotides in lower case).       *)
(***************************************************************************)
EXTENDS TextBase

FaRec(id, def, seq, fold, eol) == [id |-> id, def |-> def, seq |-> seq, fold |-> fold, eol |-> eol]

FastaSegs(d) ==
  LET head  == <<Seg("g", ">"), Seg("i", d.id)>>
                 \o (IF d.def = "" THEN <<>> ELSE <<Seg("b", " "), Seg("d", d.def)>>)
      lines == Parts(d.seq, d.fold)
  IN  Line(head, d.eol) \o FlatSeq([j \in 1..d.fold |-> Line(<<Seg("s", lines[j])>>, d.eol)])

FastaExpect(d) == Parsed(d.id, d.def, Lower(d.seq), <<>>, 0, "")

(* Adversarial shapes: '>' '@' '+' inside identifiers and definitions, a definition  *)
(* ending with '>', folding on 1-3 lines, CR LF, upper case, one-base sequences.     *)
FastaShapes == <<
  FaRec("a1",      "",            "acgtac",       1, "LF"),
  FaRec("b>2",     "x>y >z>",     "ttgacc",       2, "LF"),
  FaRec("c3",      "two words",   "ACGTNacgt",    3, "CRLF"),
  FaRec("d@4+",    "@q +r",       "g",            1, "LF"),
  FaRec("e5",      ">",           "cattag",       2, "CRLF"),
  FaRec("f6",      "",            "ac",           2, "LF"),
  FaRec("g7",      "d +",         "ggatccaagctt", 3, "LF"),
  FaRec("h8",      "",            "t",            1, "CRLF"),
  FaRec("i+9",     "k>",          "acgtacgtacgtac", 1, "LF"),
  FaRec("j10@",    "last >one",   "ca",           1, "LF")
>>

(* Shapes of the > 1 MiB files: "000000" is the serial number field that the harness *)
(* overwrites with the rank of the record in the file.  Shape 1 is the filler.       *)
FastaBigShapes == <<
  FaRec("f000000",   "filler",   Rep("acgtgcatgactagctagcatgcatgcaacgttgca", 56), 34, "LF"),
  FaRec("a000000",   "",         "acgtac",       1, "LF"),
  FaRec("b>000000",  "x>y >z>",  "ttgaccgga",    2, "LF"),
  FaRec("c000000",   "two words","ACGTNacgt",    3, "CRLF"),
  FaRec("d@000000+", "@q +r",    "g",            1, "LF"),
  FaRec("e000000",   ">",        "cattag",       2, "CRLF"),
  FaRec("g000000",   "d +",      "ggatccaagcttggatccaagctt", 3, "LF"),
  (* a long record (5 040 bases) written on a single line *)
  FaRec("l000000",   "long",     Rep("acgtgcatgactagctagcatgcatgcaacgttgca", 140), 1, "LF")
>>
=============================================================================

------------------------------ MODULE TextTables ------------------------------
(***************************************************************************)
(* The two tabular text formats of obitools4 (extension check X03, part c) *)
(*                                                                         *)
(* CSV   pkg/obiformats/csv_writer.go (CSVHeader / CSVRecord /             *)
(*       FormatCVSBatch, command obicsv) and csv_read.go (_ParseCsvFile,   *)
(*       reached by every command through the guess of the file format).   *)
(*       A record and the column options give a row of FIELD TEXTS:        *)
(*         id, count, taxid + scientific_name, definition, one column per  *)
(*         kept key, sequence, quality     (in that order, when asked)     *)
(*       count = the count annotation or 1; taxid = the taxid annotation   *)
(*       or 1; scientific_name = the annotation, else "root" for taxid 1,  *)
(*       else the NA text; a key that the record does not carry = the NA   *)
(*       text; values are printed (string: itself, int: numeral, bool:     *)
(*       true / false, float: a literal with that value); quality = one    *)
(*       character per score (score + shift) or the NA text.               *)
(*       A row is the fields joined by commas, a field being quoted (and   *)
(*       its double quotes doubled) iff it holds a comma, a double quote,  *)
(*       a line break, starts with a blank, or is `\.`.                    *)
(*       READ BACK (header line + rows): column "id" is the identifier,    *)
(*       "sequence" the nucleotides, the quality column the scores; every  *)
(*       other column is an annotation named by the header whose value is  *)
(*       FieldRead of the field text: a JSON scalar if the text is one     *)
(*       (number: int when integral else float; true / false; null; a JSON *)
(*       string), the text itself otherwise.  So ints, floats, booleans    *)
(*       and every string that is not the text of a JSON value come back   *)
(*       equal; a string such as "42" or "true" changes type; maps and     *)
(*       lists are printed in Go's notation and come back as strings.      *)
(*       AS WRITTEN (departures named for the listed findings):            *)
(*         qualcol  the writer names the column `quality`, the reader      *)
(*                  looks for `qualities`: scores come back as an          *)
(*                  annotation `quality` holding the characters            *)
(*         hash     a row whose first field starts with '#' is taken for a *)
(*                  comment: the record is lost                            *)
(*                                                                         *)
(* ecoPCR  pkg/obiformats/ecopcr_read.go: a header (`#@ecopcr-v2` for      *)
(*       version 2, the two primers, the rank of `# output in R mode`)     *)
(*       and one line per amplicon, 20 (v1) or 22 (v2) fields separated by *)
(*       '|' and padded with blanks.  EcoRecord gives the record each line *)
(*       must be read as (identifier made unique with _1, _2 ..., sequence,*)
(*       definition, and the typed annotations: numerals as int - anything *)
(*       else, such as ecoPCR's ### for a missing rank, as 0 - names and   *)
(*       matches as trimmed strings, the two melting temperatures of v2    *)
(*       as float).                                                        *)
(*       AS WRITTEN: tm  a melting temperature that parses is stored as    *)
(*                  the int -1 (the test on the error is inverted)         *)
(***************************************************************************)
EXTENDS ObiHeader, Json, CSV, IOUtils

(* the printable ASCII characters by code *)
Ascii == [n \in 33..126 |-> Chars("!\"#$%&'()*+,-./0123456789:;<=>?@ABCDEFGHIJKLMNOPQRSTUVWXYZ[\\]^_`abcdefghijklmnopqrstuvwxyz{|}~")[n - 32]]

---------------------------------------------------------------------------
(* CSV: the text layer *)
NeedsQuotes(f) ==
  /\ f # <<>>
  /\ \/ f = <<BSL, ".">>
     \/ \E n \in 1..Len(f) : f[n] \in {",", DQ, "\n", "\r"}
     \/ f[1] \in {" ", "\t"}
RECURSIVE Doubled(_)
Doubled(f) == IF f = <<>> THEN <<>> ELSE (IF f[1] = DQ THEN <<DQ, DQ>> ELSE <<f[1]>>) \o Doubled(Tail(f))
CsvField(f) == IF NeedsQuotes(f) THEN <<DQ>> \o Doubled(f) \o <<DQ>> ELSE f
RECURSIVE CsvLine(_)
CsvLine(fs) == IF fs = <<>> THEN <<>> ELSE CsvField(fs[1]) \o (IF Len(fs) > 1 THEN <<",">> ELSE <<>>) \o CsvLine(Tail(fs))

(* the inverse on one written field *)
RECURSIVE Undoubled(_)
Undoubled(q) == IF q = <<>> THEN <<>>
                ELSE IF q[1] = DQ /\ Len(q) >= 2 /\ q[2] = DQ THEN <<DQ>> \o Undoubled(Tail(Tail(q)))
                ELSE <<q[1]>> \o Undoubled(Tail(q))
CsvUnfield(w) == IF w # <<>> /\ w[1] = DQ THEN Undoubled(SubSeq(w, 2, Len(w) - 1)) ELSE w

---------------------------------------------------------------------------
(* CSV: record -> field texts.  A record is [id, seq, qual (scores, <<>>: none), ents (sequence of [k, t, v]), def] *)
NA == Chars("NA")
Lookup(ents, key) == LET S == {n \in 1..Len(ents) : ents[n].k = key} IN IF S = {} THEN 0 ELSE CHOOSE n \in S : TRUE
ValueOr(ents, key, dflt) == LET n == Lookup(ents, key) IN IF n = 0 THEN dflt ELSE ents[n].v
QualChars(q, shift, ascii) == [n \in 1..Len(q) |-> ascii[q[n] + shift]]

(* opts = [id, count, taxon, definition, keys (sequence of keys), sequence, quality : BOOLEAN..., na] *)
HeaderFields(o) ==
  (IF o.id THEN <<Chars("id")>> ELSE <<>>) \o (IF o.count THEN <<Chars("count")>> ELSE <<>>)
  \o (IF o.taxon THEN <<Chars("taxid"), Chars("scientific_name")>> ELSE <<>>)
  \o (IF o.definition THEN <<Chars("definition")>> ELSE <<>>) \o o.keys
  \o (IF o.sequence THEN <<Chars("sequence")>> ELSE <<>>) \o (IF o.quality THEN <<Chars("quality")>> ELSE <<>>)

RowFields(r, o, shift, ascii) ==
  LET taxid == ValueOr(r.ents, Chars("taxid"), <<"1">>)
      sn    == ValueOr(r.ents, Chars("scientific_name"), IF taxid = <<"1">> THEN Chars("root") ELSE o.na)
  IN  (IF o.id THEN <<r.id>> ELSE <<>>)
      \o (IF o.count THEN <<ValueOr(r.ents, Chars("count"), <<"1">>)>> ELSE <<>>)
      \o (IF o.taxon THEN <<taxid, sn>> ELSE <<>>)
      \o (IF o.definition THEN <<r.def>> ELSE <<>>)
      \o [n \in 1..Len(o.keys) |-> ValueOr(r.ents, o.keys[n], o.na)]
      \o (IF o.sequence THEN <<r.seq>> ELSE <<>>)
      \o (IF o.quality THEN <<IF r.qual = <<>> THEN o.na ELSE QualChars(r.qual, shift, ascii)>> ELSE <<>>)

---------------------------------------------------------------------------
(* CSV: field text -> annotation value *)
JsonBlank == {" ", "\t", "\n", "\r"}
RECURSIVE SkipJ(_, _)
SkipJ(s, n) == IF n <= Len(s) /\ s[n] \in JsonBlank THEN SkipJ(s, n + 1) ELSE n
RECURSIVE BackJ(_, _)
BackJ(s, n) == IF n >= 1 /\ s[n] \in JsonBlank THEN BackJ(s, n - 1) ELSE n
TrimJ(s) == SubSeq(s, SkipJ(s, 1), BackJ(s, Len(s)))

TV(t, v) == [t |-> t, v |-> v]
FieldRead(f) ==
  LET t == TrimJ(f) IN
  IF IsJsonNum(t) THEN LET x == NumOf(t) IN TV(NumType(x), NumText(x))
  ELSE IF t = TRUEtxt THEN TV("bool", TRUEtxt)
  ELSE IF t = FALSEtxt THEN TV("bool", FALSEtxt)
  ELSE IF t = Chars("null") THEN TV("null", <<>>)
  ELSE IF t # <<>> /\ t[1] = DQ THEN
       (IF Len(t) < 2 \/ t[Len(t)] # DQ THEN TV("str", f)                    \* no closing quote at the end: not a JSON string
        ELSE IF FindIn(SubSeq(t, 2, Len(t) - 1), {DQ, BSL, "\t", "\n", "\r"}, 1) = 0 THEN TV("str", SubSeq(t, 2, Len(t) - 1))
        ELSE TV("undecided", <<>>))           \* escapes, or an inner quote
  ELSE IF t # <<>> /\ t[1] \in {"{", "["} THEN TV("undecided", <<>>)
  ELSE TV("str", f)
(* the values that come back as they were *)
CsvRepr(e) == CASE e.t = "str" -> FieldRead(e.v) = TV("str", e.v)
                [] e.t \in {"int", "float", "bool"} -> TRUE
                [] OTHER -> FALSE

(* the record read back from the writer's text.  dev = the departures of the code as written *)
CsvNoDev == [qualcol |-> FALSE, hash |-> FALSE]
CsvAsWritten == [qualcol |-> TRUE, hash |-> TRUE]
CsvBackF(hs, fs, na, dev) ==
  LET special == {Chars("id"), Chars("sequence")} \cup (IF dev.qualcol THEN {Chars("qualities")} ELSE {Chars("quality")})
      col(name) == LET S == {n \in 1..Len(hs) : hs[n] = name} IN IF S = {} THEN 0 ELSE CHOOSE n \in S : \A m \in S : m <= n
      attrs == {n \in 1..Len(hs) : hs[n] \notin special}
      qc == col(Chars("quality"))
  IN  [lost |-> (dev.hash /\ fs # <<>> /\ fs[1] # <<>> /\ fs[1][1] = "#") \/ CsvLine(fs) = <<>>,      \* a row of empty fields is a blank line
       id   |-> IF col(Chars("id")) = 0 THEN <<>> ELSE fs[col(Chars("id"))],
       seq  |-> IF col(Chars("sequence")) = 0 THEN <<>> ELSE fs[col(Chars("sequence"))],
       qual |-> IF qc = 0 \/ dev.qualcol \/ fs[qc] = na THEN <<>> ELSE fs[qc],   \* the characters; the reader takes the shift off
       ents |-> {[k |-> hs[n], t |-> FieldRead(fs[n]).t, v |-> FieldRead(fs[n]).v] :
                    n \in {m \in attrs : \A m2 \in attrs : (hs[m2] = hs[m]) => m2 <= m}}]
CsvBack(r, o, shift, ascii, dev) == CsvBackF(HeaderFields(o), RowFields(r, o, shift, ascii), o.na, dev)

(* the type of the value printed in each field (floats are printed with any literal of that value) *)
TypeOr(ents, key, dflt) == LET n == Lookup(ents, key) IN IF n = 0 THEN dflt ELSE ents[n].t
RowTypes(r, o) ==
  (IF o.id THEN <<"str">> ELSE <<>>) \o (IF o.count THEN <<TypeOr(r.ents, Chars("count"), "int")>> ELSE <<>>)
  \o (IF o.taxon THEN <<TypeOr(r.ents, Chars("taxid"), "int"), TypeOr(r.ents, Chars("scientific_name"), "str")>> ELSE <<>>)
  \o (IF o.definition THEN <<"str">> ELSE <<>>)
  \o [n \in 1..Len(o.keys) |-> TypeOr(r.ents, o.keys[n], "str")]
  \o (IF o.sequence THEN <<"str">> ELSE <<>>) \o (IF o.quality THEN <<"str">> ELSE <<>>)

---------------------------------------------------------------------------
(* ecoPCR *)
EcoV1 == <<"ac", "seq_length", "taxid", "rank", "species_taxid", "species_name", "genus_taxid", "genus_name", "family_taxid",
           "family_name", "MODE_taxid", "MODE_name", "strand", "forward_match", "forward_mismatch", "reverse_match",
           "reverse_mismatch", "amplicon_length", "sequence", "definition">>
EcoV2 == <<"ac", "seq_length", "taxid", "rank", "species_taxid", "species_name", "genus_taxid", "genus_name", "family_taxid",
           "family_name", "MODE_taxid", "MODE_name", "strand", "forward_match", "forward_mismatch", "forward_tm", "reverse_match",
           "reverse_mismatch", "reverse_tm", "amplicon_length", "sequence", "definition">>
EcoInts == {"seq_length", "taxid", "species_taxid", "genus_taxid", "family_taxid", "MODE_taxid", "forward_mismatch",
            "reverse_mismatch", "amplicon_length"}
EcoTms == {"forward_tm", "reverse_tm"}
EcoCols(version) == IF version = 2 THEN EcoV2 ELSE EcoV1
TrimAll(s) == TrimJ(s)
UpperSeq == Chars("ABCDEFGHIJKLMNOPQRSTUVWXYZ")
LowerSeq == Chars("abcdefghijklmnopqrstuvwxyz")
LowerChar(ch) == IF ch \in Upper THEN LowerSeq[CHOOSE n \in 1..26 : UpperSeq[n] = ch] ELSE ch
ToLower(s) == [n \in 1..Len(s) |-> LowerChar(s[n])]

(* strconv.Atoi: an optional sign and digits (within the decided domain of integers), anything else is 0 *)
AtoiText(s) == LET u == Unsign(s) IN
               IF IsDigits(u) /\ ExactInt(NumOf(s)) THEN NumText(NumOf(s)) ELSE <<"0">>
(* strconv.ParseFloat on the usual decimal forms *)
FloatOk(s) == IsNum(s) /\ NumDecided(NumOf(s))

ColName(c, mode) == IF c = "MODE_taxid" THEN mode \o Chars("_taxid") ELSE IF c = "MODE_name" THEN mode \o Chars("_name") ELSE Chars(c)

(* how many earlier lines carry the same (trimmed) name *)
Earlier(rows, n) == Cardinality({m \in 1..(n - 1) : TrimAll(rows[m][1]) = TrimAll(rows[n][1])})

(* rows: sequence of lines, a line = sequence of field texts; tmAsWritten: the departure *)
EcoRecord(rows, n, version, mode, fwd, rev, tmAsWritten) ==
  LET cols == EcoCols(version)
      f(c) == rows[n][CHOOSE m \in 1..Len(cols) : cols[m] = c]
      dup  == Earlier(rows, n)
      name == IF dup = 0 THEN TrimAll(f("ac")) ELSE TrimAll(f("ac")) \o <<"_">> \o IntText(dup)
      val(c) == IF c = "ac" THEN TV("str", name)
                ELSE IF c \in EcoInts THEN TV("int", AtoiText(TrimAll(f(c))))
                ELSE IF c \in EcoTms THEN
                     (IF tmAsWritten THEN (IF FloatOk(TrimAll(f(c))) THEN TV("int", Chars("-1")) ELSE TV("float", <<"0">>))
                      ELSE IF FloatOk(TrimAll(f(c))) THEN TV("float", NumText(NumOf(TrimAll(f(c))))) ELSE TV("undecided", <<>>))
                ELSE TV("str", TrimAll(f(c)))
      annot == {c2 \in {cols[m] : m \in 1..Len(cols)} : c2 \notin {"sequence", "definition"}}
  IN  [id |-> name, seq |-> ToLower(TrimAll(f("sequence"))), def |-> TrimAll(f("definition")),
       ents |-> {[k |-> ColName(c, mode), t |-> val(c).t, v |-> val(c).v] : c \in annot}
                \cup {[k |-> Chars("forward_primer"), t |-> "str", v |-> fwd], [k |-> Chars("reverse_primer"), t |-> "str", v |-> rev]}]

RECURSIVE JoinWith(_, _)
JoinWith(fs, sepr) == IF fs = <<>> THEN <<>> ELSE fs[1] \o (IF Len(fs) > 1 THEN sepr ELSE <<>>) \o JoinWith(Tail(fs), sepr)
EcoHeader(version, mode, fwd, rev) ==
  (IF version = 2 THEN Chars("#@ecopcr-v2\n") ELSE Chars("#\n"))
  \o Chars("#\n# ecoPCR version 0.8.0\n# direct  strand oligo1 : ") \o fwd \o Chars("               ; oligo2c :               CCATTG\n")
  \o Chars("# reverse strand oligo2 : ") \o rev \o Chars("               ; oligo1c :          TTGGCT\n")
  \o Chars("# max error count by oligonucleotide : 3\n# optimal Tm for primers 1 : 52.39\n# database : db\n# amplifiat length between [10,220] bp\n")
  \o Chars("# output in ") \o mode \o Chars(" mode\n# DB sequences are considered as linear\n#\n")
RECURSIVE EcoLines(_)
EcoLines(rows) == IF rows = <<>> THEN <<>> ELSE JoinWith(rows[1], Chars(" | ")) \o <<"\n">> \o EcoLines(Tail(rows))
EcoText(rows, version, mode, fwd, rev) == EcoHeader(version, mode, fwd, rev) \o EcoLines(rows)
=============================================================================

------------------------------ MODULE TextFastq ------------------------------
(***************************************************************************)
(* FASTQ generator (property C01).  Descriptor                             *)
(*   [id, def, seq, qual, plusid, eol]                                     *)
(* qual: tuple of phred scores 0..41, Len(qual) = Len(seq); the text holds *)
(* the characters of code 33 + score; plusid: the '+' line repeats the id. *)
(*                                                                         *)
(*   @id[ def]<eol> seq<eol> +[id]<eol> quality<eol>                       *)
(*                                                                         *)
(* Tags: a '@'  i identifier  b blank  d definition  s sequence  p the '+' *)
(* line  q quality ('Q' = a first quality character '@', 'P' = a first     *)
(* quality character '+': the two characters that also start a title or a  *)
(* separator line)  e eol.                                                 *)
(***************************************************************************)
EXTENDS TextBase

FqRec(id, def, seq, qual, plusid, eol) ==
   [id |-> id, def |-> def, seq |-> seq, qual |-> qual, plusid |-> plusid, eol |-> eol]

QTable == "!\"#$%&'()*+,-./0123456789:;<=>?@ABCDEFGHIJ"      \* phred 0..41, offset 33
QChar(q) == Ch(QTable, q + 1)
QualText(qual) == CatAll([k \in 1..Len(qual) |-> QChar(qual[k])])
QPLUS == 10    \* '+'
QAT   == 31    \* '@'
QGT   == 29    \* '>'

FastqSegs(d) ==
  LET head == <<Seg("a", "@"), Seg("i", d.id)>>
                \o (IF d.def = "" THEN <<>> ELSE <<Seg("b", " "), Seg("d", d.def)>>)
      qt   == QualText(d.qual)
      q1   == IF d.qual[1] = QAT THEN "Q" ELSE IF d.qual[1] = QPLUS THEN "P" ELSE "q"
  IN  Line(head, d.eol)
      \o Line(<<Seg("s", d.seq)>>, d.eol)
      \o Line(<<Seg("p", "+" \o (IF d.plusid THEN d.id ELSE ""))>>, d.eol)
      \o Line(<<Seg(q1, Ch(qt, 1)), Seg("q", SubSeq(qt, 2, Len(qt)))>>, d.eol)

(* withQual = FALSE is the reader option that skips the quality scores *)
FastqExpect(d, withQual) == Parsed(d.id, d.def, Lower(d.seq), IF withQual THEN d.qual ELSE <<>>, 0, "")

Q(n, v) == [k \in 1..n |-> v]
(* Adversarial shapes: quality lines starting with '@' or '+' or made of them, quality  *)
(* made of nucleotide letters, '@' '+' '>' in identifiers and definitions, a '+' line   *)
(* repeating the identifier (made of nucleotide letters), CR LF, one-base reads.        *)
FastqShapes == <<
  FqRec("r1",     "",          "acgtac", <<40,40,40,40,40,40>>,                  FALSE, "LF"),
  FqRec("r2",     "",          "ttga",   <<QAT,40,40,40>>,                       FALSE, "LF"),
  FqRec("r3",     "d e",       "ggcc",   <<QPLUS,40,40,2>>,                      FALSE, "LF"),
  FqRec("r@4+",   "@x +y >z",  "acg",    <<QAT,QAT,QAT>>,                        TRUE,  "LF"),
  FqRec("acgt",   "",          "ACGTN",  <<QPLUS,32,34,38,32>>,                  TRUE,  "LF"),
  FqRec("r6",     "w",         "tacg",   <<QAT,30,QPLUS,5>>,                     FALSE, "CRLF"),
  FqRec("r7",     "",          "a",      <<QPLUS>>,                              FALSE, "LF"),
  FqRec("r8",     "",          "c",      <<QAT>>,                                TRUE,  "CRLF"),
  FqRec("r9>",    "+",         "gattaca",<<32,34,38,51 - 10,QGT,QPLUS,QAT>>,      FALSE, "LF"),
  FqRec("r+10",   "@",         "tt",     <<QPLUS,QPLUS>>,                        FALSE, "LF")
>>

FastqBigShapes == <<
  FqRec("f000000",  "filler", Rep("acgtgcatgactagctagcatgcatgcaacgttgca", 28),
                              [k \in 1..1008 |-> IF k % 7 = 0 THEN QAT ELSE IF k % 11 = 0 THEN QPLUS ELSE 20 + (k % 20)], FALSE, "LF"),
  FqRec("a000000",  "",       "acgtac", <<40,40,40,40,40,40>>,       FALSE, "LF"),
  FqRec("b000000",  "",       "ttga",   <<QAT,40,40,40>>,            FALSE, "LF"),
  FqRec("c000000",  "d e",    "ggcc",   <<QPLUS,40,40,2>>,           FALSE, "LF"),
  FqRec("d@000000+","@x +y >z","acg",   <<QAT,QAT,QAT>>,             TRUE,  "LF"),
  FqRec("acgt000000","",      "ACGTN",  <<QPLUS,32,34,38,32>>,       TRUE,  "LF"),
  FqRec("e000000",  "w",      "tacg",   <<QAT,30,QPLUS,5>>,          FALSE, "CRLF"),
  FqRec("g000000",  "",       "a",      <<QPLUS>>,                   FALSE, "LF"),
  FqRec("h000000",  "",       "c",      <<QAT>>,                     TRUE,  "CRLF"),
  (* a long read (5 040 bases on one line): alone it is longer than what a format sniffer may look at *)
  FqRec("l000000",  "long",   Rep("acgtgcatgactagctagcatgcatgcaacgttgca", 140),
                              [k \in 1..5040 |-> IF k % 13 = 0 THEN QAT ELSE IF k % 17 = 0 THEN QPLUS ELSE 10 + (k % 30)], FALSE, "LF")
>>
=============================================================================

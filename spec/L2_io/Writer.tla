------------------------------- MODULE Writer -------------------------------
(***************************************************************************)
(* The output side of every obitools4 command (property C04, base of C18). *)
(*                                                                         *)
(* Shape of the code (pkg/obiformats/seqfile_chunk_write.go, and the two   *)
(* inline copies in json_writer.go / csv_writer.go):                       *)
(*                                                                         *)
(*   F formatting workers:  Next -> format -> chunkchan <- {text, order}   *)
(*   1 writer goroutine  :  for chunk := range chunkchan {                 *)
(*                             if chunk.order == nextToPrint {             *)
(*                                 write; nextToPrint++                    *)
(*                                 for buffered[nextToPrint] exists {      *)
(*                                     write; delete; nextToPrint++ } }    *)
(*                             else buffered[chunk.order] = chunk }        *)
(*                          trailer; Close()                               *)
(*                                                                         *)
(* The environment delivers the chunk numbers 0..n-1 in ANY order (the     *)
(* formatting workers race, and the upstream stream need not be sorted).   *)
(* A chunk is abstracted to its batch number and its number of records;    *)
(* the output is a sequence of tokens: record tokens "r<o>_<k>" and the    *)
(* framing tokens "open" "sep" "close" (JSON) and "header" (CSV).          *)
(*                                                                         *)
(* The framing rules written here are the REQUIRED ones (what a single     *)
(* valid JSON array / a CSV table needs), expressed on the same two        *)
(* branches ("expected chunk" / "drained chunk") as the code.              *)
(***************************************************************************)
EXTENDS Integers, Sequences, FiniteSets, TLC, Json, CSV, IOUtils

CONSTANTS MaxN,      \* largest number of batches explored
          Sizes,     \* possible numbers of records in a batch, e.g. {0,1,2}
          Fmts       \* subset of {"fasta","fastq","json","csv"}

VARIABLES fmt, n, sz,          \* the case: format, number of batches, size of each batch
          pending,             \* chunk numbers not yet delivered to the writer goroutine
          received,            \* chunk numbers stored because they came early  (toBePrinted)
          nextToPrint,         \* next chunk number allowed on the output
          out,                 \* tokens written so far
          wrote,               \* TRUE once a record token has been written (JSON separator rule)
          pc,                  \* "recv" | "drain" | "closing" | "done"
          closed,              \* the sink has been closed
          arrival              \* history: order in which chunks reached the writer goroutine

vars == <<fmt, n, sz, pending, received, nextToPrint, out, wrote, pc, closed, arrival>>

---------------------------------------------------------------------------
(* token algebra *)

RecTok(o, k) == "r" \o ToString(o) \o "_" \o ToString(k)
RecTokens(s, o) == [k \in 1..s[o] |-> RecTok(o, k)]

RECURSIVE JoinSep(_)
JoinSep(s) == IF Len(s) <= 1 THEN s ELSE <<s[1], "sep">> \o JoinSep(Tail(s))

RECURSIVE AllRecs(_, _, _)
AllRecs(s, from, to) == IF from >= to THEN <<>> ELSE RecTokens(s, from) \o AllRecs(s, from + 1, to)

IsRec(t) == t \notin {"open", "sep", "close", "header"}
RecsOf(o) == SelectSeq(o, IsRec)

(* The whole output a correct writer produces for a stream of nn batches of sizes s. *)
Expected(f, nn, s) ==
  LET recs == AllRecs(s, 0, nn) IN
  CASE f = "json" -> <<"open">> \o JoinSep(recs) \o <<"close">>
    [] f = "csv"  -> (IF nn > 0 THEN <<"header">> ELSE <<>>) \o recs
    [] OTHER      -> recs

(* tokens written for chunk o, given whether a record is already on the output *)
ChunkTokens(f, s, o, w) ==
  CASE f = "json" -> IF s[o] = 0 THEN <<>>
                     ELSE (IF w THEN <<"sep">> ELSE <<>>) \o JoinSep(RecTokens(s, o))
    [] f = "csv"  -> (IF o = 0 THEN <<"header">> ELSE <<>>) \o RecTokens(s, o)
    [] OTHER      -> RecTokens(s, o)

---------------------------------------------------------------------------
Init ==
  /\ fmt \in Fmts
  /\ n \in 0..MaxN
  /\ sz \in [0..(n - 1) -> Sizes]
  /\ pending = 0..(n - 1)
  /\ received = {}
  /\ nextToPrint = 0
  /\ out = IF fmt = "json" THEN <<"open">> ELSE <<>>
  /\ wrote = FALSE
  /\ pc = "recv"
  /\ closed = FALSE
  /\ arrival = <<>>

Emit(o) ==
  /\ out' = out \o ChunkTokens(fmt, sz, o, wrote)
  /\ wrote' = (wrote \/ sz[o] > 0)
  /\ nextToPrint' = nextToPrint + 1

(* chunk o comes out of chunkchan *)
Arrive(o) ==
  /\ pc = "recv" /\ o \in pending
  /\ pending' = pending \ {o}
  /\ arrival' = Append(arrival, o)
  /\ IF o = nextToPrint
       THEN Emit(o) /\ pc' = "drain" /\ UNCHANGED received
       ELSE received' = received \cup {o} /\ UNCHANGED <<out, wrote, nextToPrint, pc>>
  /\ UNCHANGED <<fmt, n, sz, closed>>

(* one iteration of the inner loop over the buffered chunks *)
Drain ==
  /\ pc = "drain"
  /\ IF nextToPrint \in received
       THEN Emit(nextToPrint) /\ received' = received \ {nextToPrint} /\ UNCHANGED pc
       ELSE pc' = "recv" /\ UNCHANGED <<out, wrote, nextToPrint, received>>
  /\ UNCHANGED <<fmt, n, sz, pending, closed, arrival>>

(* all formatting workers are done: chunkchan is closed, the range loop ends *)
ChanClosed ==
  /\ pc = "recv" /\ pending = {}
  /\ pc' = "closing"
  /\ UNCHANGED <<fmt, n, sz, pending, received, nextToPrint, out, wrote, closed, arrival>>

Close ==
  /\ pc = "closing"
  /\ out' = IF fmt = "json" THEN Append(out, "close") ELSE out
  /\ closed' = TRUE
  /\ pc' = "done"
  /\ UNCHANGED <<fmt, n, sz, pending, received, nextToPrint, wrote, arrival>>

Next == (\E o \in 0..(MaxN - 1) : Arrive(o)) \/ Drain \/ ChanClosed \/ Close

Spec == Init /\ [][Next]_vars /\ WF_vars(Next)

---------------------------------------------------------------------------
TypeOK ==
  /\ pending \subseteq 0..(n - 1) /\ received \subseteq 0..(n - 1)
  /\ pending \cap received = {}
  /\ nextToPrint \in 0..n
  /\ pc \in {"recv", "drain", "closing", "done"}

(* every batch below nextToPrint is on the output exactly once, in order; nothing else is *)
EmitsInOrderExactlyOnce == RecsOf(out) = AllRecs(sz, 0, nextToPrint)

(* what is buffered is exactly what arrived early and is still needed *)
BufferExact == \A o \in 0..(n - 1) :
   o \in received <=> (o \notin pending /\ o >= nextToPrint)

ClosedOnlyAfterLastChunk == closed => (nextToPrint = n /\ received = {} /\ pending = {})

FinalOutput == pc = "done" => out = Expected(fmt, n, sz)

RECURSIVE JsonBody(_)
JsonBody(s) ==  \* s is a possibly empty  Rec (sep Rec)*
  \/ s = <<>>
  \/ Len(s) = 1 /\ IsRec(s[1])
  \/ Len(s) >= 3 /\ IsRec(s[1]) /\ s[2] = "sep" /\ Len(Tail(Tail(s))) > 0 /\ JsonBody(Tail(Tail(s)))
JsonWellFormed == (pc = "done" /\ fmt = "json") =>
   /\ Len(out) >= 2 /\ out[1] = "open" /\ out[Len(out)] = "close"
   /\ JsonBody(SubSeq(out, 2, Len(out) - 1))
CsvWellFormed == (pc = "done" /\ fmt = "csv" /\ n > 0) =>
   /\ out[1] = "header" /\ \A i \in 2..Len(out) : IsRec(out[i])

NoWriteAfterClose == [][closed => out' = out]_vars
Terminates == <>(pc = "done")

---------------------------------------------------------------------------
(* case export: one line per terminal state = one arrival history *)
Export ==
  pc = "done" =>
    CSVWrite("%1$s", <<ToJson([fmt |-> fmt,
                              sizes |-> [i \in 1..n |-> sz[i - 1]],
                              arrival |-> arrival,
                              out |-> out])>>, IOEnv.VERIF_CASES)
=============================================================================

------------------------------ MODULE RoundTrip ------------------------------
(***************************************************************************)
(* Write then read of FASTA/FASTQ records (property C02).                  *)
(*                                                                         *)
(*   record --Write(fmt, out shift)--> text --Read(fmt, in shift)--> record *)
(*                                                                         *)
(* A record is [id, hdr, seq, qual, ok]: identifier, the annotation part   *)
(* of the title line (the JSON object written by FormatFastSeqJsonHeader,  *)
(* keys sorted, the definition being the annotation "definition"), the     *)
(* nucleotides and the quality scores (<<>>: none).  A text is a sequence  *)
(* of lines, a line a sequence of characters.                              *)
(*                                                                         *)
(* Write  (FormatFasta / _formatFastq / BioSequence.QualitiesString):      *)
(*   title line  = mark id ' ' hdr            mark: '>' FASTA, '@' FASTQ   *)
(*   FASTA body  = the nucleotides folded every 60 columns                 *)
(*   FASTQ body  = nucleotides on one line, a line "+", one character per  *)
(*                 score: min(q, 93) + output shift (no scores: 40)        *)
(* Read   (Fasta/FastqChunkParser / _storeSequenceQuality):                *)
(*   id = up to the first blank, hdr = the rest; FASTA lines are joined;   *)
(*   FASTQ scores = character - input shift, as many as nucleotides.       *)
(*                                                                         *)
(* The operators take the alphabet as a parameter so that the model (where *)
(* characters are one-character strings and the identifier / header        *)
(* entries are atoms) and the trace specification (where lines are byte    *)
(* sequences recorded from the real code) evaluate the very same text.     *)
(*                                                                         *)
(* State machine: a record is built, written with the shift of the file it *)
(* came from (t0), read (r1), written with the output shift (t1), read     *)
(* again (r2), written again (t2).  Theorems: r1 = r2 = the record with    *)
(* scores clamped to 93; t2 = t1 (write-after-read is a fixed point);      *)
(* t1 = t0 when the two shifts agree; folding and score arithmetic.        *)
(***************************************************************************)
EXTENDS Integers, Sequences, FiniteSets, TLC, Json, CSV, IOUtils

CONSTANTS Lens,       \* sequence lengths, e.g. {1, 59, 60, 61, 120, 121}
          Fmts,       \* subset of {"fasta", "fastq"}
          Shifts,     \* quality offsets, {33, 64}
          ShapeSet,   \* annotation shape classes (domain of ShapeTab)
          QPats,      \* quality patterns (see QualOf)
          Defs        \* definitions: "" (none) or a text atom

Sym == [gt |-> ">", at |-> "@", sp |-> " ", plus |-> "+"]   \* model: characters are strings
Byt == [gt |-> 62,  at |-> 64,  sp |-> 32,  plus |-> 43]    \* traces: characters are bytes

Min(a, b) == IF a < b THEN a ELSE b
MaxQ == 93
Clamp(q) == Min(q, MaxQ)
Width == 60
DefaultQ == 40

Mark(A, fmt) == IF fmt = "fasta" THEN A.gt ELSE A.at

---------------------------------------------------------------------------
(* text of one record *)

RECURSIVE Fold(_, _)
Fold(s, w) == IF Len(s) <= w THEN <<s>> ELSE <<SubSeq(s, 1, w)>> \o Fold(SubSeq(s, w + 1, Len(s)), w)

RECURSIVE Flatten(_)
Flatten(ls) == IF ls = <<>> THEN <<>> ELSE Head(ls) \o Flatten(Tail(ls))

EncQual(q, shift) == [i \in 1..Len(q) |-> Clamp(q[i]) + shift]
DecQual(l, shift) == [i \in 1..Len(l) |-> l[i] - shift]
DefaultQual(n) == [i \in 1..n |-> DefaultQ]

TitleLine(A, fmt, id, hdr) == <<Mark(A, fmt)>> \o id \o <<A.sp>> \o hdr

WriteRec(A, r, fmt, shift) ==
  IF fmt = "fasta"
    THEN <<TitleLine(A, fmt, r.id, r.hdr)>> \o Fold(r.seq, Width)
    ELSE <<TitleLine(A, fmt, r.id, r.hdr), r.seq, <<A.plus>>,
           EncQual(IF r.qual = <<>> THEN DefaultQual(Len(r.seq)) ELSE r.qual, shift)>>

NLines(fmt, L) == IF fmt = "fasta" THEN 1 + ((L + Width - 1) \div Width) ELSE 4

Rec(id, hdr, seq, qual) == [id |-> id, hdr |-> hdr, seq |-> seq, qual |-> qual, ok |-> TRUE]
Bad == [id |-> <<>>, hdr |-> <<>>, seq |-> <<>>, qual |-> <<>>, ok |-> FALSE]

RECURSIVE FirstSp(_, _, _)
FirstSp(A, l, i) == IF i > Len(l) THEN 0 ELSE IF l[i] = A.sp THEN i ELSE FirstSp(A, l, i + 1)

(* ls = the lines of ONE record *)
ReadRec(A, ls, fmt, shift) ==
  IF ls = <<>> \/ Len(ls[1]) < 2 \/ ls[1][1] # Mark(A, fmt) THEN Bad
  ELSE LET t   == ls[1]
           p   == FirstSp(A, t, 2)
           id  == IF p = 0 THEN SubSeq(t, 2, Len(t)) ELSE SubSeq(t, 2, p - 1)
           hdr == IF p = 0 THEN <<>> ELSE SubSeq(t, p + 1, Len(t))
       IN IF id = <<>> THEN Bad
          ELSE IF fmt = "fasta"
            THEN (IF Len(ls) < 2 THEN Bad ELSE Rec(id, hdr, Flatten(Tail(ls)), <<>>))
          ELSE IF Len(ls) # 4 \/ ls[2] = <<>> \/ ls[3] = <<>> \/ ls[3][1] # A.plus \/ Len(ls[4]) # Len(ls[2]) THEN Bad
          ELSE Rec(id, hdr, ls[2], DecQual(ls[4], shift))

(* what a faithful round trip delivers: the record, scores above 93 clamped *)
Norm(r) == [r EXCEPT !.qual = [i \in 1..Len(r.qual) |-> Clamp(r.qual[i])]]

---------------------------------------------------------------------------
(* texts of several records (used on recorded files) *)

RECURSIVE SplitFastaAcc(_, _, _, _)
SplitFastaAcc(A, ls, cur, acc) ==      \* cur: lines of the record being collected
  IF ls = <<>> THEN (IF cur = <<>> THEN acc ELSE Append(acc, cur))
  ELSE LET l == Head(ls) IN
    IF l # <<>> /\ l[1] = A.gt /\ cur # <<>>
      THEN SplitFastaAcc(A, Tail(ls), <<l>>, Append(acc, cur))
      ELSE SplitFastaAcc(A, Tail(ls), Append(cur, l), acc)

Groups(A, ls, fmt) ==
  IF fmt = "fasta" THEN SplitFastaAcc(A, ls, <<>>, <<>>)
  ELSE [k \in 1..((Len(ls) + 3) \div 4) |-> SubSeq(ls, 4 * k - 3, Min(4 * k, Len(ls)))]

ReadText(A, ls, fmt, shift) == LET g == Groups(A, ls, fmt) IN [k \in 1..Len(g) |-> ReadRec(A, g[k], fmt, shift)]
WriteText(A, rs, fmt, shift) == Flatten([k \in 1..Len(rs) |-> WriteRec(A, rs[k], fmt, shift)])

(* obiconvert: read one format, write another (FASTA output carries no scores) *)
ToFmt(r, outf) == IF outf = "fasta" THEN [r EXCEPT !.qual = <<>>] ELSE r
Convert(A, ls, inf, inshift, outf, outshift) ==
  LET rs == ReadText(A, ls, inf, inshift) IN
  IF \E k \in 1..Len(rs) : ~rs[k].ok THEN << <<>> >>          \* not a text of that format
  ELSE WriteText(A, [k \in 1..Len(rs) |-> ToFmt(rs[k], outf)], outf, outshift)

---------------------------------------------------------------------------
(* the bounded model *)

Nuc == <<"a", "c", "g", "t", "r", "y", "n", "k">>
SeqOf(L) == [i \in 1..L |-> Nuc[(i % 8) + 1]]

QV == <<0, 1, 92, 93>>
QualOf(L, p) ==
  CASE p = "cycle" -> [i \in 1..L |-> QV[(i % 4) + 1]]
    [] p = "q0"    -> [i \in 1..L |-> 0]
    [] p = "q1"    -> [i \in 1..L |-> 1]
    [] p = "q92"   -> [i \in 1..L |-> 92]
    [] p = "q93"   -> [i \in 1..L |-> 93]
    [] p = "over"  -> [i \in 1..L |-> IF i % 2 = 0 THEN 94 ELSE 255]   \* in memory only: clamped on output
    [] p = "none"  -> <<>>                                              \* record without scores

(* annotation shape classes: the key and the JSON text of one representative value *)
ShapeTab == [
  none    |-> [key |-> "",              json |-> ""],
  string  |-> [key |-> "k",             json |-> "\"a b;c=d >@\""],
  special |-> [key |-> "k",             json |-> "\"q\\\"}{\\\\\""],
  int     |-> [key |-> "count",         json |-> "42"],
  bigint  |-> [key |-> "k",             json |-> "-9007199254740992"],
  float   |-> [key |-> "k",             json |-> "0.5"],
  bool    |-> [key |-> "b",             json |-> "true"],
  mapint  |-> [key |-> "merged_sample", json |-> "{\"s1\":2,\"s2\":1}"],
  mapstr  |-> [key |-> "m",             json |-> "{\"a\":\"x\",\"b\":\"y z\"}"],
  slice   |-> [key |-> "coord",         json |-> "[1,2,3]"],
  nested  |-> [key |-> "n",             json |-> "{\"l\":[1,\"a\",{\"z\":1.5}]}"] ]

(* lexicographic rank of the keys above, "definition" included: the writer sorts keys *)
KeyRank == [b |-> 1, coord |-> 2, count |-> 3, definition |-> 4, k |-> 5, m |-> 6, merged_sample |-> 7, n |-> 8]

EntryTok(key, json) == "\"" \o key \o "\":" \o json
HdrToks(shape, def) ==
  LET e1 == IF shape = "none" THEN <<>> ELSE <<[key |-> ShapeTab[shape].key, tok |-> EntryTok(ShapeTab[shape].key, ShapeTab[shape].json)]>>
      e2 == IF def = "" THEN <<>> ELSE <<[key |-> "definition", tok |-> EntryTok("definition", "\"" \o def \o "\"")]>>
      es == e1 \o e2
      sorted == IF Len(es) = 2 /\ KeyRank[es[1].key] > KeyRank[es[2].key] THEN <<es[2], es[1]>> ELSE es
  IN  IF es = <<>> THEN <<>>
      ELSE <<"{">> \o <<sorted[1].tok>> \o (IF Len(sorted) = 2 THEN <<",", sorted[2].tok>> ELSE <<>>) \o <<"}">>

VARIABLES fmt, len, qp, shape, def, si, so,     \* the case
          pc, rec, t0, r1, t1, r2, t2

vars == <<fmt, len, qp, shape, def, si, so, pc, rec, t0, r1, t1, r2, t2>>
case == <<fmt, len, qp, shape, def, si, so>>

Init ==
  /\ fmt \in Fmts /\ len \in Lens /\ shape \in ShapeSet /\ def \in Defs
  /\ qp \in (IF fmt = "fasta" THEN {"none"} ELSE QPats)
  /\ si \in (IF fmt = "fasta" THEN {33} ELSE Shifts)
  /\ so \in (IF fmt = "fasta" THEN {33} ELSE Shifts)
  /\ pc = "new" /\ rec = Bad /\ t0 = <<>> /\ r1 = Bad /\ t1 = <<>> /\ r2 = Bad /\ t2 = <<>>

Build  == pc = "new" /\ rec' = Rec(<<"s1">>, HdrToks(shape, def), SeqOf(len), QualOf(len, qp)) /\ pc' = "rec"
          /\ UNCHANGED <<case, t0, r1, t1, r2, t2>>
Write0 == pc = "rec" /\ t0' = WriteRec(Sym, rec, fmt, si) /\ pc' = "t0" /\ UNCHANGED <<case, rec, r1, t1, r2, t2>>
Read0  == pc = "t0"  /\ r1' = ReadRec(Sym, t0, fmt, si)   /\ pc' = "r1" /\ UNCHANGED <<case, rec, t0, t1, r2, t2>>
Write1 == pc = "r1"  /\ t1' = WriteRec(Sym, r1, fmt, so)  /\ pc' = "t1" /\ UNCHANGED <<case, rec, t0, r1, r2, t2>>
Read1  == pc = "t1"  /\ r2' = ReadRec(Sym, t1, fmt, so)   /\ pc' = "r2" /\ UNCHANGED <<case, rec, t0, r1, t1, t2>>
Write2 == pc = "r2"  /\ t2' = WriteRec(Sym, r2, fmt, so)  /\ pc' = "done" /\ UNCHANGED <<case, rec, t0, r1, t1, r2>>

Next == Build \/ Write0 \/ Read0 \/ Write1 \/ Read1 \/ Write2

---------------------------------------------------------------------------
(* theorems *)

After(p) == LET ord == [new |-> 0, rec |-> 1, t0 |-> 2, r1 |-> 3, t1 |-> 4, r2 |-> 5, done |-> 6] IN ord[pc] >= ord[p]

(* FASTA text carries no scores; a FASTQ text written from a record without scores carries the default *)
Expected == IF fmt = "fasta" THEN [rec EXCEPT !.qual = <<>>]
            ELSE IF rec.qual = <<>> THEN [rec EXCEPT !.qual = DefaultQual(len)] ELSE Norm(rec)

ReadWriteIdentity == /\ After("r1") => r1 = Expected
                     /\ After("r2") => r2 = Expected
WriteIsFixedPoint == pc = "done" => t2 = t1
SameShiftSameText == (After("t1") /\ si = so) => t1 = t0
OnlyScoresDependOnShift ==
   (After("t1") /\ fmt = "fastq") => /\ SubSeq(t1, 1, 3) = SubSeq(t0, 1, 3)
                                    /\ \A i \in 1..len : t1[4][i] - so = t0[4][i] - si

Folding == (After("t0") /\ fmt = "fasta") =>
   /\ Len(t0) = NLines(fmt, len)
   /\ \A k \in 2..(Len(t0) - 1) : Len(t0[k]) = Width
   /\ Len(t0[Len(t0)]) \in 1..Width
   /\ Flatten(Tail(t0)) = rec.seq
FastqShape == (After("t0") /\ fmt = "fastq") =>
   /\ Len(t0) = 4 /\ t0[2] = rec.seq /\ t0[3] = <<"+">> /\ Len(t0[4]) = len
   /\ \A i \in 1..len : t0[4][i] \in si..(si + MaxQ)
LengthCheckRejects ==     \* the reader's length test: one score dropped or added is not a record
   (pc = "t0" /\ fmt = "fastq" /\ len > 1) =>
      /\ ~ReadRec(Sym, [t0 EXCEPT ![4] = Tail(t0[4])], fmt, si).ok
      /\ ~ReadRec(Sym, [t0 EXCEPT ![4] = Append(t0[4], si)], fmt, si).ok

(* distinct annotation classes give distinct headers: comparing headers compares annotations *)
HdrInjective == pc = "new" =>
   \A s2 \in ShapeSet, d2 \in Defs : (HdrToks(s2, d2) = HdrToks(shape, def)) => (s2 = shape /\ d2 = def)

(* obiconvert on its own output (same format) is the identity; FASTQ -> FASTA folds and drops the scores *)
ConvertLaws == pc = "done" =>
   /\ Convert(Sym, t1, fmt, so, fmt, so) = t1
   /\ (fmt = "fastq" => Convert(Sym, t1, "fastq", so, "fasta", 33) =
                        WriteRec(Sym, [r2 EXCEPT !.qual = <<>>], "fasta", 33))

---------------------------------------------------------------------------
Export ==
  pc = "done" =>
    CSVWrite("%1$s", <<ToJson([op |-> "rt", fmt |-> fmt, len |-> len, qp |-> qp, shape |-> shape, def |-> def,
                              si |-> si, so |-> so,
                              seq |-> rec.seq, qual |-> rec.qual, rqual |-> Expected.qual,
                              t0 |-> t0, t1 |-> t1,
                              \* quality lines that make t0 malformed (one score missing / one too many): Read must reject
                              badq |-> IF fmt = "fastq" /\ len > 1 THEN <<Tail(t0[4]), Append(t0[4], si)>> ELSE <<>>,
                              cls |-> fmt \o "/" \o shape \o (IF def = "" THEN "" ELSE "+def")])>>,
             IOEnv.VERIF_CASES)
=============================================================================

----------------------------- MODULE ReseqProofs -----------------------------
(***************************************************************************)
(* TLAPS proofs about ReseqProof (run: tlapm ReseqProofs.tla): IndInv is   *)
(* inductive for every natural number of batches, hence the buffer never   *)
(* loses, repeats or reorders a batch whatever the arrival history.        *)
(***************************************************************************)
EXTENDS ReseqProof, TLAPS

LEMMA InitInv == Init => IndInv
  BY DEF Init, IndInv, Ord

LEMMA ArriveInv == IndInv /\ Arrive => IndInv'
  BY DEF IndInv, Arrive, Ord

LEMMA DrainInv == IndInv /\ Drain => IndInv'
  BY DEF IndInv, Drain, Ord

LEMMA StutterInv == IndInv /\ UNCHANGED vars => IndInv'
  BY DEF IndInv, vars, Ord

THEOREM Inductive == Spec => []IndInv
<1>1. Init => IndInv  BY InitInv
<1>2. IndInv /\ [Next]_vars => IndInv'
  BY ArriveInv, DrainInv, StutterInv DEF Next
<1>3. QED  BY <1>1, <1>2, PTL DEF Spec

THEOREM AtEnd == IndInv => NothingLostAtEnd
  BY DEF IndInv, NothingLostAtEnd, Ord

THEOREM Safety == Spec => []NothingLostAtEnd
  BY Inductive, AtEnd, PTL
=============================================================================

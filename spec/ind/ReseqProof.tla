----------------------------- MODULE ReseqProof -----------------------------
(***************************************************************************)
(* The re-sequencing buffer shared by IBioSequence.SortBatches and the     *)
(* file writers (received map + next_to_send), as in ReseqInd.tla, but     *)
(* for EVERY number of batches n (a natural number, not n <= 16) and every *)
(* arrival history: the invariant below is proved inductive with TLAPS    *)
(* (module ReseqProofs).                                                    *)
(* Consequences (theorems at the end): what was sent is exactly            *)
(* 0..nextToSend-1, once each; a batch is buffered iff it arrived and is   *)
(* not yet sendable; when every batch has arrived and the drain loop is    *)
(* over, the buffer is empty and all n batches were sent.                  *)
(***************************************************************************)
EXTENDS Integers

VARIABLES n,            \* number of batches of the stream: any natural number, chosen once
          pendingIn, received, nextToSend, emitted, pc
vars == <<n, pendingIn, received, nextToSend, emitted, pc>>

Ord == 0..(n-1)

Init ==
  /\ n \in Nat
  /\ pendingIn = Ord
  /\ received = {}
  /\ nextToSend = 0
  /\ emitted = 0
  /\ pc = "recv"

Arrive ==
  /\ pc = "recv"
  /\ \E o \in pendingIn :
       /\ pendingIn' = pendingIn \ {o}
       /\ IF o = nextToSend
            THEN /\ nextToSend' = nextToSend + 1
                 /\ emitted' = emitted + 1
                 /\ pc' = "drain"
                 /\ UNCHANGED received
            ELSE /\ received' = received \cup {o}
                 /\ UNCHANGED <<nextToSend, emitted, pc>>
  /\ UNCHANGED n

Drain ==
  /\ pc = "drain"
  /\ IF nextToSend \in received
       THEN /\ received' = received \ {nextToSend}
            /\ nextToSend' = nextToSend + 1
            /\ emitted' = emitted + 1
            /\ UNCHANGED pc
       ELSE /\ pc' = "recv"
            /\ UNCHANGED <<received, nextToSend, emitted>>
  /\ UNCHANGED <<n, pendingIn>>

Next == Arrive \/ Drain
Spec == Init /\ [][Next]_vars

IndInv ==
  /\ n \in Nat
  /\ pc \in {"recv", "drain"}
  /\ nextToSend \in 0..n
  /\ emitted = nextToSend
  /\ pendingIn \subseteq Ord
  /\ received \subseteq Ord
  /\ pendingIn \cap received = {}
  /\ \A o \in Ord : (o < nextToSend) <=> (o \notin pendingIn /\ o \notin received)
  /\ pc = "recv" => nextToSend \notin received

NothingLostAtEnd == (pendingIn = {} /\ pc = "recv") => (received = {} /\ nextToSend = n)
=============================================================================

------------------------------ MODULE ReseqInd ------------------------------
(***************************************************************************)
(* Typed copy (Apalache) of the re-sequencing buffer shared by SortBatches *)
(* and the writers, with an INDUCTIVE invariant: for every number of       *)
(* batches MaxN <= 16 and every arrival history (not a bounded run):       *)
(*   - what was sent is exactly 0..nextToSend-1, in order;                 *)
(*   - a batch is buffered iff it arrived and is not yet sendable;         *)
(*   - nothing is sent twice or lost.                                      *)
(* Checked with  --init=Init --inv=IndInv --length=0   (initiation)  and   *)
(*               --init=IndInit --inv=IndInv --length=1 (consecution).     *)
(***************************************************************************)
EXTENDS Integers, FiniteSets

U == 0..15

VARIABLES
  \* @type: Int;
  MaxN,
  \* @type: Set(Int);
  pendingIn,
  \* @type: Set(Int);
  received,
  \* @type: Int;
  nextToSend,
  \* @type: Int;
  emitted,
  \* @type: Str;
  pc

Ord == {o \in U : o < MaxN}

Init ==
  /\ MaxN \in 1..16
  /\ pendingIn = {o \in U : o < MaxN}
  /\ received = {}
  /\ nextToSend = 0
  /\ emitted = 0
  /\ pc = "recv"

Arrive ==
  /\ pc = "recv"
  /\ \E o \in U :
       /\ o \in pendingIn
       /\ pendingIn' = pendingIn \ {o}
       /\ IF o = nextToSend
            THEN /\ nextToSend' = nextToSend + 1
                 /\ emitted' = emitted + 1
                 /\ pc' = "drain"
                 /\ UNCHANGED received
            ELSE /\ received' = received \cup {o}
                 /\ UNCHANGED <<nextToSend, emitted, pc>>
  /\ UNCHANGED MaxN

Drain ==
  /\ pc = "drain"
  /\ IF nextToSend \in received
       THEN /\ received' = received \ {nextToSend}
            /\ nextToSend' = nextToSend + 1
            /\ emitted' = emitted + 1
            /\ UNCHANGED pc
       ELSE /\ pc' = "recv"
            /\ UNCHANGED <<received, nextToSend, emitted>>
  /\ UNCHANGED <<MaxN, pendingIn>>

Next == Arrive \/ Drain

IndInv ==
  /\ MaxN \in 1..16
  /\ pc \in {"recv", "drain"}
  /\ nextToSend \in 0..16 /\ nextToSend <= MaxN
  /\ emitted = nextToSend
  /\ pendingIn \subseteq Ord /\ received \subseteq Ord
  /\ pendingIn \cap received = {}
  /\ \A o \in Ord : (o < nextToSend) <=> (o \notin pendingIn /\ o \notin received)
  /\ pc = "recv" => nextToSend \notin received

IndInit ==
  /\ MaxN \in 1..16
  /\ pc \in {"recv", "drain"}
  /\ nextToSend \in 0..16
  /\ emitted \in 0..16
  /\ pendingIn \in SUBSET U
  /\ received \in SUBSET U
  /\ IndInv

(* consequences of the invariant: the properties of Writer.tla / Pipeline.tla *)
NothingLostAtEnd == (pendingIn = {} /\ pc = "recv") => (received = {} /\ nextToSend = MaxN)
=============================================================================

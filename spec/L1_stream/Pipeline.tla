------------------------------ MODULE Pipeline ------------------------------
(***************************************************************************)
(* The pipeline shape every record-wise command builds (C03, C05):         *)
(*                                                                         *)
(*   source -> W workers (MakeISliceWorker / FilterOn bodies) -> SortBatches*)
(*          -> Rebatch(size) -> consumer                                    *)
(*                                                                         *)
(* over unbuffered channels (a send is a rendez-vous with a receiver that  *)
(* is at its receive statement) with the WaitGroup/close termination       *)
(* protocol of pkg/obiiter/batchiterator.go.  One action per goroutine     *)
(* step that touches shared state:                                         *)
(*   Take(w)    worker w receives the next batch from the source channel   *)
(*   Emit(w)    worker w finished working and hands its batch (same number,*)
(*              possibly emptied) to the re-sequencer  [rendez-vous]       *)
(*   SeeClosed(w), CloseMid   workers see the closed source; the last Done *)
(*              lets WaitAndClose close the middle channel                 *)
(*   Drain      inner loop of SortBatches over its buffer                  *)
(*   ReseqEnd   SortBatches sees the closed channel; Rebatch flushes       *)
(* The per-record work is abstract: keep[r] says whether record r survives.*)
(* What the scheduler decides is the order of the Emit steps: the history  *)
(* variable `emits` is exported and forced on the real code with gates.    *)
(***************************************************************************)
EXTENDS StreamOps, TLC, Json, CSV, IOUtils

CONSTANTS MaxN, Sizes, MaxW, BSizes, KeepAll

VARIABLES sizes, keep, W, size,      \* the case
          nextIn,                    \* next batch number the source will send
          holding,                   \* holding[w] = batch number worker w works on, -1 idle, -2 done
          midClosed,                 \* channel workers -> re-sequencer closed
          received, nextToSend, pc,  \* SortBatches
          buffer, order, out,        \* Rebatch: growing batch, next number, batches delivered
          closed,                    \* final channel closed
          emits                      \* history: order in which batches left the worker pool
vars == <<sizes, keep, W, size, nextIn, holding, midClosed, received, nextToSend, pc, buffer, order, out, closed, emits>>

RECURSIVE SumTo(_, _)
SumTo(s, k) == IF k = 0 THEN 0 ELSE s[k] + SumTo(s, k - 1)
MkInp(s) == [k \in 1..Len(s) |-> [j \in 1..s[k] |-> SumTo(s, k - 1) + j]]
N == Len(sizes)
Inp == MkInp(sizes)
Worked(b) == SelectSeq(Inp[b + 1], LAMBDA r : r \in keep)

Init ==
  /\ sizes \in UNION {[1..n -> Sizes] : n \in 0..MaxN}
  /\ keep \in (IF KeepAll THEN {1..SumTo(sizes, Len(sizes))} ELSE SUBSET (1..SumTo(sizes, Len(sizes))))
  /\ W \in 1..MaxW
  /\ size \in BSizes
  /\ nextIn = 0
  /\ holding = [w \in 1..W |-> -1]
  /\ midClosed = FALSE
  /\ received = {} /\ nextToSend = 0 /\ pc = "recv"
  /\ buffer = <<>> /\ order = 0 /\ out = <<>>
  /\ closed = FALSE
  /\ emits = <<>>

Take(w) ==
  /\ holding[w] = -1 /\ nextIn < N
  /\ holding' = [holding EXCEPT ![w] = nextIn]
  /\ nextIn' = nextIn + 1
  /\ UNCHANGED <<sizes, keep, W, size, midClosed, received, nextToSend, pc, buffer, order, out, closed, emits>>

SeeClosed(w) ==
  /\ holding[w] = -1 /\ nextIn = N
  /\ holding' = [holding EXCEPT ![w] = -2]
  /\ UNCHANGED <<sizes, keep, W, size, nextIn, midClosed, received, nextToSend, pc, buffer, order, out, closed, emits>>

CloseMid ==
  /\ ~midClosed /\ \A w \in 1..W : holding[w] = -2
  /\ midClosed' = TRUE
  /\ UNCHANGED <<sizes, keep, W, size, nextIn, holding, received, nextToSend, pc, buffer, order, out, closed, emits>>

(* Rebatch consuming one batch delivered in order by SortBatches: inner `for remains > 0` loop *)
RECURSIVE Fill(_, _, _, _, _)
Fill(items, buf, ord, acc, sz) ==   \* returns <<buffer, order, out>>
  IF items = <<>> THEN <<buf, ord, acc>>
  ELSE LET nb == Append(buf, Head(items)) IN
       IF Len(nb) = sz THEN Fill(Tail(items), <<>>, ord + 1, Append(acc, [o |-> ord, items |-> nb]), sz)
       ELSE Fill(Tail(items), nb, ord, acc, sz)

Deliver(b) ==
  LET f == Fill(Worked(b), buffer, order, out, size) IN
  /\ buffer' = f[1] /\ order' = f[2] /\ out' = f[3]
  /\ nextToSend' = nextToSend + 1

Emit(w) ==
  /\ holding[w] >= 0 /\ pc = "recv" /\ ~midClosed
  /\ LET b == holding[w] IN
       /\ emits' = Append(emits, b)
       /\ holding' = [holding EXCEPT ![w] = -1]
       /\ IF b = nextToSend
            THEN Deliver(b) /\ pc' = "drain" /\ UNCHANGED received
            ELSE received' = received \cup {b} /\ UNCHANGED <<nextToSend, pc, buffer, order, out>>
  /\ UNCHANGED <<sizes, keep, W, size, nextIn, midClosed, closed>>

Drain ==
  /\ pc = "drain"
  /\ IF nextToSend \in received
       THEN Deliver(nextToSend) /\ received' = received \ {nextToSend} /\ UNCHANGED pc
       ELSE pc' = "recv" /\ UNCHANGED <<received, nextToSend, buffer, order, out>>
  /\ UNCHANGED <<sizes, keep, W, size, nextIn, holding, midClosed, closed, emits>>

(* SortBatches sees the closed channel and closes its output; Rebatch flushes its last partial batch *)
ReseqEnd ==
  /\ pc = "recv" /\ midClosed /\ ~closed
  /\ out' = IF buffer # <<>> THEN Append(out, [o |-> order, items |-> buffer]) ELSE out
  /\ buffer' = <<>>
  /\ closed' = TRUE
  /\ pc' = "done"
  /\ UNCHANGED <<sizes, keep, W, size, nextIn, holding, midClosed, received, nextToSend, order, emits>>

Done == closed /\ UNCHANGED vars     \* terminal stuttering (so that deadlock checking stays on)

Next == (\E w \in 1..MaxW : w <= W /\ (Take(w) \/ SeeClosed(w) \/ Emit(w))) \/ CloseMid \/ Drain \/ ReseqEnd \/ Done
Spec == Init /\ [][Next]_vars /\ WF_vars(Next)

---------------------------------------------------------------------------
TypeOK == /\ nextIn \in 0..N /\ nextToSend \in 0..N
          /\ received \subseteq 0..(N - 1)
          /\ \A w \in 1..W : holding[w] \in -2..(N - 1)
(* at most W batches in flight, each batch held by at most one worker *)
InFlight == {holding[w] : w \in {v \in 1..W : holding[v] >= 0}}
SingleOwner == \A v, w \in 1..W : (holding[v] >= 0 /\ holding[v] = holding[w]) => v = w
(* a batch is in exactly one place *)
Conservation == \A b \in 0..(N - 1) :
   Cardinality({x \in {"src", "worker", "buffer", "sent"} :
        \/ x = "src" /\ b >= nextIn
        \/ x = "worker" /\ b \in InFlight
        \/ x = "buffer" /\ b \in received
        \/ x = "sent" /\ b < nextToSend}) = 1
(* confluence: whatever the schedule, the delivered stream is the function of the input *)
Confluence == closed => out = FilterOut(Inp, keep, size)
PrefixOK == OrderContract(out)
NothingStuck == closed => (received = {} /\ nextToSend = N /\ buffer = <<>>)
Terminates == <>closed
ViewNoHist == <<sizes, keep, W, size, nextIn, holding, midClosed, received, nextToSend, pc, buffer, order, out, closed>>

Export == closed =>
  CSVWrite("%1$s", <<ToJson([sizes |-> sizes, w |-> W, size |-> size, emits |-> emits,
                            keep |-> [r \in 1..SumTo(sizes, Len(sizes)) |-> IF r \in keep THEN 1 ELSE 0],
                            out |-> out])>>, IOEnv.VERIF_CASES)
=============================================================================

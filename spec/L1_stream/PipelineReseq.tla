--------------------------- MODULE PipelineReseq ---------------------------
(***************************************************************************)
(* Binding of the unbounded TLAPS result (spec/ind/ReseqProof.tla) to      *)
(* IBioSequence.SortBatches as modelled in Pipeline.tla: a batch is        *)
(* "pending" while the source has not sent it or a worker still holds it;  *)
(* every step of the pipeline is a step of the abstract re-sequencing      *)
(* buffer or leaves its variables unchanged (Take, SeeClosed, CloseMid,    *)
(* ReseqEnd and the Rebatch part of Deliver are stuttering steps).         *)
(***************************************************************************)
EXTENDS Pipeline

PendingNow == {b \in 0..(N - 1) : b >= nextIn} \cup {holding[w] : w \in {v \in 1..W : holding[v] >= 0}}

RP == INSTANCE ReseqProof WITH
        n <- N, pendingIn <- PendingNow, received <- received,
        nextToSend <- nextToSend, emitted <- nextToSend,
        pc <- IF pc = "done" THEN "recv" ELSE pc

RefinesReseq == RP!Spec
ProvedInvariant == RP!IndInv
ProvedAtEnd == RP!NothingLostAtEnd
=============================================================================

------------------------------ MODULE UniqPipe ------------------------------
(***************************************************************************)
(* The goroutine structure of obichunk.IUniqueSequence (property C06,      *)
(* pipeline part).  Values are the business of Uniq.tla; here a record is  *)
(* an identifier with a sequence class, NCat category values and the hash  *)
(* chunk of its sequence, and the question is whether every record reaches *)
(* the merger exactly once, inside the complete class of its key, and      *)
(* whether the pipeline terminates.                                        *)
(*                                                                         *)
(*  stage A  iterator.Distribute(HashClassifier): one flux per chunk       *)
(*     in memory (ISequenceChunk): a collector per flux appends to the     *)
(*        chunk; a WaitGroup makes the chunk stage wait for all of them;   *)
(*     on disk (ISequenceChunkOnDisk): WriterDispatcher starts, per flux,  *)
(*        a formatter that hands the text to a writer goroutine            *)
(*        (WriteSeqFileChunk: bufio + file) and returns an iterator;       *)
(*        WriterDispatcher returns when all those iterators are drained,   *)
(*        then the chunk files are listed and read back.                   *)
(*        AS WRITTEN the iterator is closed when the formatters are done,  *)
(*        and only THEN is the writer goroutine told to flush and close    *)
(*        (newIter.WaitAndClose(); close(chunkchan)): nothing orders the   *)
(*        close of a chunk file before its reading (SyncClose = FALSE).    *)
(*        SyncClose = TRUE is the repaired order: the iterator closes      *)
(*        after the file has been closed.                                  *)
(*  stage B  W workers share the chunk batches.                            *)
(*  stage C  ff(w, l): splits a batch in classes (l = 0: same sequence,    *)
(*        l > 0: same value of category NCat-l+1); a class of one record,  *)
(*        or any class at the last level, goes to the output iUnique; the  *)
(*        others go to ff(w, l+1), a goroutine that ff(w, l) started       *)
(*        itself after iUnique.Add(1): the WaitGroup grows while the       *)
(*        closer goroutine is already waiting on it.                       *)
(***************************************************************************)
EXTENDS Integers, Sequences, FiniteSets, TLC

CONSTANTS N,          \* records 1..N
          SeqIds,     \* sequence classes   (1..k)
          CatIds,     \* category values    (1..k)
          NCat,       \* requested categories
          NChunks,    \* hash chunks 0..NChunks-1
          W,          \* top level workers
          OnDisk,     \* chunk files instead of chunks in memory
          SyncClose   \* the writer closes the chunk file before the formatter's iterator is closed

Recs == 1..N
Chunks == 0..(NChunks - 1)
Levels == 0..NCat
None == {}            \* an empty slot of a rendez-vous

VARIABLES seq, cat, hash,                    \* the data set
          nextIn, pend, file, created, iterDone, closed, phase, toRead, early, chunkq,   \* stages A, B
          ff, outq, link, linkClosed, wg, uniqClosed, delivered, lateWrite              \* stage C

vars == <<seq, cat, hash, nextIn, pend, file, created, iterDone, closed, phase, toRead, early, chunkq,
          ff, outq, link, linkClosed, wg, uniqClosed, delivered, lateWrite>>
data == <<seq, cat, hash>>
stageA == <<nextIn, pend, file, created, iterDone, closed, phase, toRead, early>>
stageC == <<ff, outq, link, linkClosed, wg, uniqClosed, delivered, lateWrite>>

Key(r) == <<seq[r], cat[r]>>
ClassOf(r) == {x \in Recs : Key(x) = Key(r)}
SetOf(s) == {s[i] : i \in DOMAIN s}

(* the classes a batch b is split into at level l *)
Split(b, l) == IF l = 0 THEN {{x \in b : seq[x] = seq[r]} : r \in b}
               ELSE {{x \in b : cat[x][NCat - l + 1] = cat[r][NCat - l + 1]} : r \in b}

Init ==
  /\ seq \in [Recs -> SeqIds] /\ cat \in [Recs -> [1..NCat -> CatIds]] /\ hash \in [SeqIds -> Chunks]
  /\ seq[1] = 1 /\ hash[1] = 0 /\ \A i \in 1..NCat : cat[1][i] = 1      \* symmetry: the first record is (1, <<1..1>>) in chunk 0
  /\ nextIn = 1 /\ pend = [h \in Chunks |-> <<>>] /\ file = [h \in Chunks |-> <<>>] /\ created = {}
  /\ iterDone = [h \in Chunks |-> FALSE] /\ closed = [h \in Chunks |-> FALSE]
  /\ phase = "split" /\ toRead = {} /\ early = {} /\ chunkq = <<>>
  /\ ff = [w \in 1..W |-> [l \in Levels |-> IF l = 0 THEN "run" ELSE "unborn"]]
  /\ outq = [w \in 1..W |-> [l \in Levels |-> {}]]
  /\ link = [w \in 1..W |-> [l \in Levels |-> None]]
  /\ linkClosed = [w \in 1..W |-> [l \in Levels |-> FALSE]]
  /\ wg = W /\ uniqClosed = FALSE /\ delivered = <<>> /\ lateWrite = FALSE

---------------------------------------------------------------------------
(* stage A *)
Distribute ==
  /\ phase = "split" /\ nextIn <= N
  /\ LET h == hash[seq[nextIn]] IN
       /\ created' = created \cup {h}
       /\ IF OnDisk THEN pend' = [pend EXCEPT ![h] = Append(@, nextIn)] /\ UNCHANGED file
                    ELSE file' = [file EXCEPT ![h] = Append(@, nextIn)] /\ UNCHANGED pend
  /\ nextIn' = nextIn + 1
  /\ UNCHANGED <<data, iterDone, closed, phase, toRead, early, chunkq, stageC>>

(* the writer goroutine writes what it was handed, whenever it is scheduled *)
Flush(h) ==
  /\ OnDisk /\ pend[h] # <<>> /\ ~closed[h]
  /\ file' = [file EXCEPT ![h] = Append(@, Head(pend[h]))]
  /\ pend' = [pend EXCEPT ![h] = Tail(@)]
  /\ UNCHANGED <<data, nextIn, created, iterDone, closed, phase, toRead, early, chunkq, stageC>>

(* the iterator returned by the formatter of chunk h is closed (its consumer, out.Recycle(), returns) *)
IterClose(h) ==
  /\ OnDisk /\ h \in created /\ nextIn > N /\ ~iterDone[h]
  /\ SyncClose => closed[h]
  /\ iterDone' = [iterDone EXCEPT ![h] = TRUE]
  /\ UNCHANGED <<data, nextIn, pend, file, created, closed, phase, toRead, early, chunkq, stageC>>

(* the writer goroutine sees its channel closed: flush, close the file *)
CloseFile(h) ==
  /\ OnDisk /\ h \in created /\ nextIn > N /\ ~closed[h]
  /\ ~SyncClose => iterDone[h]
  /\ file' = [file EXCEPT ![h] = @ \o pend[h]]
  /\ pend' = [pend EXCEPT ![h] = <<>>]
  /\ closed' = [closed EXCEPT ![h] = TRUE]
  /\ UNCHANGED <<data, nextIn, created, iterDone, phase, toRead, early, chunkq, stageC>>

(* WriterDispatcher returns / the collectors are all done: the chunks are listed *)
Return ==
  /\ phase = "split" /\ nextIn > N
  /\ OnDisk => \A h \in created : iterDone[h]
  /\ phase' = "read" /\ toRead' = created
  /\ UNCHANGED <<data, nextIn, pend, file, created, iterDone, closed, early, chunkq, stageC>>

(* a chunk is read back (what is in the file now) and pushed to the workers *)
Read(h) ==
  /\ phase = "read" /\ h \in toRead
  /\ toRead' = toRead \ {h}
  /\ chunkq' = Append(chunkq, SetOf(file[h]))
  /\ early' = IF OnDisk /\ ~closed[h] THEN early \cup {h} ELSE early
  /\ UNCHANGED <<data, nextIn, pend, file, created, iterDone, closed, phase, stageC>>

ChunksDone == phase = "read" /\ toRead = {}

---------------------------------------------------------------------------
(* stage C *)
Spawned(w, l) == IF l = NCat THEN TRUE ELSE ff[w][l + 1] # "unborn"

Spawn(w, l) ==
  /\ ff[w][l] = "run" /\ l < NCat /\ ff[w][l + 1] = "unborn"
  /\ wg' = wg + 1
  /\ ff' = [ff EXCEPT ![w][l + 1] = "run"]
  /\ UNCHANGED <<data, stageA, chunkq, outq, link, linkClosed, uniqClosed, delivered, lateWrite>>

Take(w, l) ==
  /\ ff[w][l] = "run" /\ Spawned(w, l) /\ outq[w][l] = {}
  /\ IF l = 0
       THEN /\ chunkq # <<>>
            /\ outq' = [outq EXCEPT ![w][l] = Split(Head(chunkq), 0) \ {{}}]
            /\ chunkq' = Tail(chunkq)
            /\ UNCHANGED link
       ELSE /\ link[w][l] # None
            /\ outq' = [outq EXCEPT ![w][l] = Split(link[w][l], l)]
            /\ link' = [link EXCEPT ![w][l] = None]
            /\ UNCHANGED chunkq
  /\ UNCHANGED <<data, stageA, ff, linkClosed, wg, uniqClosed, delivered, lateWrite>>

Push(w, l, c) ==
  /\ ff[w][l] = "run" /\ c \in outq[w][l]
  /\ IF l = NCat \/ Cardinality(c) = 1
       THEN /\ delivered' = Append(delivered, c)
            /\ lateWrite' = (lateWrite \/ uniqClosed)
            /\ UNCHANGED link
       ELSE /\ link[w][l + 1] = None
            /\ link' = [link EXCEPT ![w][l + 1] = c]
            /\ UNCHANGED <<delivered, lateWrite>>
  /\ outq' = [outq EXCEPT ![w][l] = @ \ {c}]
  /\ UNCHANGED <<data, stageA, chunkq, ff, linkClosed, wg, uniqClosed>>

Finish(w, l) ==
  /\ ff[w][l] = "run" /\ Spawned(w, l) /\ outq[w][l] = {}
  /\ IF l = 0 THEN ChunksDone /\ chunkq = <<>> ELSE linkClosed[w][l] /\ link[w][l] = None
  /\ ff' = [ff EXCEPT ![w][l] = "done"]
  /\ linkClosed' = IF l < NCat THEN [linkClosed EXCEPT ![w][l + 1] = TRUE] ELSE linkClosed
  /\ wg' = wg - 1
  /\ UNCHANGED <<data, stageA, chunkq, outq, link, uniqClosed, delivered, lateWrite>>

(* go func() { iUnique.Wait(); iUnique.Close() }() *)
Closer ==
  /\ wg = 0 /\ ~uniqClosed
  /\ uniqClosed' = TRUE
  /\ UNCHANGED <<data, stageA, chunkq, ff, outq, link, linkClosed, wg, delivered, lateWrite>>

Terminated == uniqClosed /\ \A w \in 1..W : \A l \in Levels : ff[w][l] = "done"
              /\ (OnDisk => \A h \in created : closed[h])

Next ==
  \/ Distribute \/ Return
  \/ \E h \in Chunks : Flush(h) \/ IterClose(h) \/ CloseFile(h) \/ Read(h)
  \/ \E w \in 1..W : \E l \in Levels : Spawn(w, l) \/ Take(w, l) \/ Finish(w, l) \/ \E c \in outq[w][l] : Push(w, l, c)
  \/ Closer
  \/ (Terminated /\ UNCHANGED vars)

Spec == Init /\ [][Next]_vars /\ WF_vars(Next)

---------------------------------------------------------------------------
TypeOK == /\ wg \in 0..(W * (NCat + 1)) /\ nextIn \in 1..(N + 1)
          /\ phase \in {"split", "read"}

(* a chunk file is opened for reading only after its writer closed it (DESIGN 9 item 14) *)
ReadAfterClose == early = {}

(* the output is never written to after it was closed (would be a panic: send on closed channel) *)
NoPushAfterClose == ~lateWrite

DeliveredRecs == UNION SetOf(delivered)
(* nothing is delivered twice, and what is delivered together has the same key *)
AtMostOnce == /\ \A i, j \in DOMAIN delivered : i # j => delivered[i] \cap delivered[j] = {}
              /\ \A i \in DOMAIN delivered : \A x, y \in delivered[i] : Key(x) = Key(y)
(* when the output closes, every record has been delivered, inside the complete class of its key *)
ExactlyOnceWhenClosed ==
  uniqClosed => /\ DeliveredRecs = Recs
                /\ \A i \in DOMAIN delivered : \A x \in delivered[i] : delivered[i] = ClassOf(x)
(* the closer never sees the counter at 0 while a sub-classifier is still to be born or running *)
WaitGroupCovers == wg = Cardinality({<<w, l>> \in (1..W) \X Levels : ff[w][l] = "run"})

Terminates == <>Terminated
=============================================================================

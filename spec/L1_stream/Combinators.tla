---------------------------- MODULE Combinators ----------------------------
(***************************************************************************)
(* Implementation-shaped state machines of the single-goroutine re-cutting *)
(* combinators of pkg/obiiter (Rebatch, FilterEmpty, DivideOn, Distribute),*)
(* one action per statement that touches the growing batches, the batch    *)
(* counters or an output channel, checked by TLC against the closed forms  *)
(* of StreamOps (refinement): after EVERY step what has been emitted on    *)
(* each output is a prefix of the required stream, and at termination it   *)
(* is the required stream.                                                 *)
(*                                                                         *)
(*   for batch in SortBatches(input):          -- batches arrive in order  *)
(*     for record in batch:                    -- Take                     *)
(*        k := key(record); slices[k] += record                            *)
(*        if len(slices[k]) = size:            -- Emit(k)                  *)
(*             outputs[k] <- batch(orders[k], slices[k]); orders[k]++      *)
(*   for k in keys (ANY order - Go map iteration):  -- Flush(k)            *)
(*        if len(slices[k]) > 0: outputs[k] <- batch(orders[k], slices[k]) *)
(*   close every output                          -- Close                  *)
(* Rebatch has one key; DivideOn two (predicate true/false); Distribute    *)
(* one per class value, its outputs being created on first use ("news").   *)
(* FilterEmpty forwards whole non-empty batches, renumbered.               *)
(***************************************************************************)
EXTENDS StreamOps, SequencesExt, TLC

CONSTANTS MaxN, Sizes, BSizes, Ops

VARIABLES op, sizes, size, keep,   \* the case
          bi, ri,                  \* position in the (sorted) input: batch, record
          slices, orders, outs,    \* per key: growing batch, next number, batches emitted so far
          known,                   \* Distribute: keys whose output exists (announced on `news`)
          phase                    \* "run" | "flush" | "done"
vars == <<op, sizes, size, keep, bi, ri, slices, orders, outs, known, phase>>

RECURSIVE SumTo(_, _)
SumTo(s, k) == IF k = 0 THEN 0 ELSE s[k] + SumTo(s, k - 1)
MkInp(s) == [k \in 1..Len(s) |-> [j \in 1..s[k] |-> SumTo(s, k - 1) + j]]
Inp == MkInp(sizes)
Keys == CASE op = "rebatch" -> {0} [] op = "filterempty" -> {0} [] OTHER -> {0, 1}
KeyOf(r) == IF op \in {"rebatch", "filterempty"} THEN 0 ELSE IF r \in keep THEN 1 ELSE 0

Init ==
  /\ op \in Ops
  /\ sizes \in UNION {[1..n -> Sizes] : n \in 0..MaxN}
  /\ size \in (IF op = "filterempty" THEN {0} ELSE BSizes)
  /\ keep \in (IF op \in {"divide", "distribute"} THEN SUBSET (1..SumTo(sizes, Len(sizes))) ELSE {{}})
  /\ bi = 1 /\ ri = 1
  /\ slices = [k \in {0, 1} |-> <<>>] /\ orders = [k \in {0, 1} |-> 0] /\ outs = [k \in {0, 1} |-> <<>>]
  /\ known = {} /\ phase = "run"

EmitIfFull(k, sl) ==
  IF Len(sl) = size
    THEN /\ outs' = [outs EXCEPT ![k] = Append(@, [o |-> orders[k], items |-> sl])]
         /\ orders' = [orders EXCEPT ![k] = @ + 1]
         /\ slices' = [slices EXCEPT ![k] = <<>>]
    ELSE /\ slices' = [slices EXCEPT ![k] = sl] /\ UNCHANGED <<outs, orders>>

(* one record appended to the growing batch of its key; the batch is pushed when full *)
Take ==
  /\ phase = "run" /\ op # "filterempty" /\ bi <= Len(Inp) /\ ri <= Len(Inp[bi])
  /\ LET r == Inp[bi][ri]  k == KeyOf(r) IN
       /\ known' = known \cup {k}
       /\ EmitIfFull(k, Append(slices[k], r))
  /\ ri' = ri + 1
  /\ UNCHANGED <<op, sizes, size, keep, bi, phase>>

(* FilterEmpty: a whole batch is forwarded (renumbered) or dropped *)
Forward ==
  /\ phase = "run" /\ op = "filterempty" /\ bi <= Len(Inp)
  /\ IF Inp[bi] # <<>>
       THEN /\ outs' = [outs EXCEPT ![0] = Append(@, [o |-> orders[0], items |-> Inp[bi]])]
            /\ orders' = [orders EXCEPT ![0] = @ + 1]
       ELSE UNCHANGED <<outs, orders>>
  /\ bi' = bi + 1
  /\ UNCHANGED <<op, sizes, size, keep, ri, slices, known, phase>>

EndBatch ==
  /\ phase = "run" /\ op # "filterempty" /\ bi <= Len(Inp) /\ ri > Len(Inp[bi])
  /\ bi' = bi + 1 /\ ri' = 1
  /\ UNCHANGED <<op, sizes, size, keep, slices, orders, outs, known, phase>>

EndInput ==
  /\ phase = "run" /\ bi > Len(Inp)
  /\ phase' = "flush"
  /\ UNCHANGED <<op, sizes, size, keep, bi, ri, slices, orders, outs, known>>

(* the last, partial batch of a key - keys are visited in any order *)
Flush(k) ==
  /\ phase = "flush" /\ slices[k] # <<>>
  /\ outs' = [outs EXCEPT ![k] = Append(@, [o |-> orders[k], items |-> slices[k]])]
  /\ slices' = [slices EXCEPT ![k] = <<>>]
  /\ UNCHANGED <<op, sizes, size, keep, bi, ri, orders, known, phase>>

Close ==
  /\ phase = "flush" /\ \A k \in {0, 1} : slices[k] = <<>>
  /\ phase' = "done"
  /\ UNCHANGED <<op, sizes, size, keep, bi, ri, slices, orders, outs, known>>

Done == phase = "done" /\ UNCHANGED vars
Next == Take \/ Forward \/ EndBatch \/ EndInput \/ (\E k \in {0, 1} : Flush(k)) \/ Close \/ Done
Spec == Init /\ [][Next]_vars /\ WF_vars(Next)

---------------------------------------------------------------------------
Required(k) ==
  CASE op = "rebatch"     -> IF k = 0 THEN RebatchOut(Inp, size) ELSE <<>>
    [] op = "filterempty" -> IF k = 0 THEN FilterEmptyOut(Inp) ELSE <<>>
    [] op = "divide"      -> IF k = 1 THEN DivideOut(Inp, keep, size)[1] ELSE DivideOut(Inp, keep, size)[2]
    [] op = "distribute"  -> LET class == [r \in 1..SumTo(sizes, Len(sizes)) |-> IF r \in keep THEN 1 ELSE 0]
                                 d == DistributeOut(Inp, class, size)
                             IN IF k \in DOMAIN d THEN d[k] ELSE <<>>

(* refinement: at every step each output holds a prefix of its required stream; at the end, all of it *)
PrefixOfRequired == \A k \in {0, 1} : IsPrefix(outs[k], Required(k))
CompleteAtEnd == phase = "done" => \A k \in {0, 1} : outs[k] = Required(k)
(* Distribute announces an output exactly for the classes that occur *)
NewsExact == (phase = "done" /\ op = "distribute") =>
    known = {KeyOf(Flat(Inp)[i]) : i \in 1..Len(Flat(Inp))}
NothingBufferedAtEnd == phase = "done" => \A k \in {0, 1} : slices[k] = <<>>
Terminates == <>(phase = "done")
=============================================================================

------------------------------ MODULE SeqLaws ------------------------------
(***************************************************************************)
(* C07, algebraic part.  For EVERY sequence of length 1..MaxLen over the    *)
(* sub-alphabet LawAlpha (with and without qualities / mismatch             *)
(* annotations on every position) TLC checks the laws of the property on    *)
(* the value functions of SeqVal.tla:                                       *)
(*    RC o RC = id                                                          *)
(*    RC(Sub(v,i,j)) = Sub(RC(v), mirror(i,j))       linear and circular    *)
(*    circular Sub = window of s \o s = the two stitched linear pieces      *)
(*    Sub o Sub = Sub          (composition of linear windows)              *)
(* and exports, for the replay on the real code, one case per               *)
(* (sequence, operation, window) with the value the specification assigns.  *)
(* Three more kinds of cases compare the complement tables symbol by symbol *)
(* ("comp"), the pattern complement of obiapat ("apat") and the canonical   *)
(* k-mer code of obikmer ("kmer").                                          *)
(*                                                                          *)
(* One initial state per case, all evaluation in Next (worker threads).     *)
(***************************************************************************)
EXTENDS SeqVal, TLC, Json, CSV, IOUtils

CONSTANTS MaxLen,        \* longest sequence (with qualities and annotations)
          PlainMaxLen,   \* longest sequence without qualities / annotations
          LawAlpha,      \* sub-alphabet of Bio!Alphabet
          KmerK          \* k of the k-mer cases (even: obikmer demands it in non sparse mode)

ASSUME LawAlpha \subseteq Alphabet
ASSUME CompIsInvolution /\ CompIsBijection /\ CompIsWatsonCrick /\ CompKeepsCardinality

VARIABLES cs, res
vars == <<cs, res>>

MMX == <<"a", "c", "g", "t", "r", "y", "k", "n">>
MMY == <<"c", "t", "a", "g", "m", "w", "b", "s">>

(* the value built from a case: annotated = qualities + one mismatch on every position *)
CaseVal(s, ann) ==
  IF ann = 1
    THEN Val(s, [i \in 1..Len(s) |-> 10 + i],
             {[p |-> i, x |-> MMX[i], qx |-> 20 + i, y |-> MMY[i], qy |-> 30 + i] : i \in 1..Len(s)})
    ELSE Val(s, <<>>, {})

ApatPatterns ==
  {<<x>> : x \in IUPAC} \cup
  { <<"a", "c", "g", "t", "r", "y", "m", "k", "s", "w", "b", "d", "h", "v", "n">>,
    <<"[", "a", "c", "]", "g">>, <<"t", "[", "c", "g", "t", "]">>,
    <<"a", "[", "a", "g", "]", "[", "c", "t", "]", "n">> }

Cases ==
  {[k |-> "seq", s |-> s, ann |-> 1] : s \in UNION {[1..n -> LawAlpha] : n \in 1..MaxLen}}
  \cup {[k |-> "seq", s |-> s, ann |-> 0] : s \in UNION {[1..n -> LawAlpha] : n \in 1..PlainMaxLen}}
  \cup {[k |-> "table", s |-> <<>>, ann |-> 0]}
  \cup {[k |-> "kmer", s |-> s, ann |-> 0] : s \in [1..KmerK -> Nucleotides]}
  \cup {[k |-> "apat", s |-> s, ann |-> 0] : s \in ApatPatterns}

---------------------------------------------------------------------------
Windows(n) ==
  {<<f, t, 0>> : <<f, t>> \in {ft \in (0..n) \X (0..n) : SubValid(n, ft[1], ft[2], FALSE)}}
  \cup
  {<<f, t, 1>> : <<f, t>> \in {ft \in (0..(2 * n)) \X (0..(2 * n)) : SubValid(n, ft[1], ft[2], TRUE)}}

(* the window of the reverse complement that covers the same bases *)
Mirror(n, from, to) ==
  IF from < to THEN (IF to <= n THEN <<n - to, n - from>> ELSE <<2 * n - to, 2 * n - from>>)
               ELSE <<(n - to) % n, n - from>>

RcRc(v) == VRC(VRC(v)) = v /\ WellFormed(VRC(v)) /\ Cardinality(VRC(v).mm) = Cardinality(v.mm)

MirrorLaw(v, w) ==
  LET n == Len(v.seq)
      u == VSub(v, w[1], w[2])
      m == Mirror(n, w[1], w[2])
  IN /\ WellFormed(u)
     /\ Len(u.seq) = SubLen(n, w[1], w[2])
     /\ SubValid(n, m[1], m[2], w[3] = 1)
     /\ VRC(u) = VSub(VRC(v), m[1], m[2])
     /\ Cardinality(u.mm) = (IF v.mm = {} THEN 0 ELSE Len(u.seq))    \* one annotation per position kept

WindowLaw(v, w) ==
  LET u == VSub(v, w[1], w[2]) IN
  IF w[3] = 0
    THEN u.seq = Win(v.seq, w[1], w[2]) /\ (HasQual(v) => u.qual = Win(v.qual, w[1], w[2]))
    ELSE /\ u.seq = WindowOfDouble(v.seq, w[1], w[2])
         /\ u.seq = Stitched(v.seq, w[1], w[2])
         /\ HasQual(v) => (u.qual = WindowOfDouble(v.qual, w[1], w[2]) /\ u.qual = Stitched(v.qual, w[1], w[2]))

ComposeLaw(v) ==
  LET n == Len(v.seq) IN
  \A a \in 0..n, b \in 0..n : SubValid(n, a, b, FALSE) =>
     \A x \in 0..(b - a), y \in 0..(b - a) : SubValid(b - a, x, y, FALSE) =>
        VSub(VSub(v, a, b), x, y) = VSub(v, a + x, a + y)

LawsOf(v) ==
  IF ~WellFormed(v) THEN "case-not-wellformed"
  ELSE IF ~RcRc(v) THEN "rcrc"
  ELSE IF \E w \in Windows(Len(v.seq)) : ~MirrorLaw(v, w) THEN "mirror"
  ELSE IF \E w \in Windows(Len(v.seq)) : ~WindowLaw(v, w) THEN "window"
  ELSE IF ~ComposeLaw(v) THEN "compose"
  ELSE "ok"

---------------------------------------------------------------------------
(* canonical 2-bit code of a k-mer over {a,c,g,t}: the smaller of the codes of the two strands *)
NucCode == [a |-> 0, c |-> 1, g |-> 2, t |-> 3]
RECURSIVE Code(_)
Code(s) == IF s = <<>> THEN 0 ELSE 4 * Code(SubSeq(s, 1, Len(s) - 1)) + NucCode[s[Len(s)]]
Canonical(s) == IF Code(s) <= Code(RC(s)) THEN Code(s) ELSE Code(RC(s))

---------------------------------------------------------------------------
Out(x) == CSVWrite("%1$s", <<ToJson(x)>>, IOEnv.VERIF_CASES)

(* one line for the reverse complement, one line per window start with all windows starting there *)
ExportSeq(v) ==
  LET n == Len(v.seq)
      W == Windows(n)
      Item(w) == LET u == VSub(v, w[1], w[2])
                     m == Mirror(n, w[1], w[2])
                 IN [from |-> w[1], to |-> w[2], circ |-> w[3], e |-> u, mf |-> m[1], mt |-> m[2], erc |-> VRC(u)]
  IN /\ Out([k |-> "rc", v |-> v, e |-> VRC(v)])
     /\ \A f \in {w[1] : w \in W} : Out([k |-> "subs", v |-> v, ws |-> {Item(w) : w \in {x \in W : x[1] = f}}])

Export(cc) ==
  CASE cc.k = "seq"   -> ExportSeq(CaseVal(cc.s, cc.ann))
    [] cc.k = "table" -> \A x \in Alphabet : Out([k |-> "comp", x |-> x, e |-> Comp(x)])
    [] cc.k = "kmer"  -> Out([k |-> "kmer", s |-> cc.s, e |-> Canonical(cc.s)])
    [] cc.k = "apat"  -> Out([k |-> "apat", s |-> cc.s, e |-> RC(cc.s)])

Init == cs \in Cases /\ res = "todo"

Next ==
  /\ res = "todo"
  /\ res' = (IF cs.k = "seq" THEN LawsOf(CaseVal(cs.s, cs.ann)) ELSE "ok")
  /\ Export(cs)
  /\ UNCHANGED cs

LawsHold == res \in {"todo", "ok"}
=============================================================================

----------------------------- MODULE CleanRace -----------------------------
(***************************************************************************)
(* C13, concurrency part: the worker pool of buildSamplePairs.             *)
(* Rows (sons) are handed out through a channel; the worker that owns row  *)
(* i appends to son.Edges (private to the row) and increments the SHARED   *)
(* counter SonCount of each father.  With Atomic = TRUE the increment is   *)
(* one action (what the property needs); with Atomic = FALSE it is the     *)
(* load / store pair a plain `father.SonCount++` compiles to, and TLC      *)
(* produces the lost update (negative test of the specification).          *)
(***************************************************************************)
EXTENDS Integers, FiniteSets, TLC
CONSTANTS NSons, NWorkers, Atomic
VARIABLES todo,      \* rows not yet handed out (each row = one son of the single father)
          pc,        \* pc[w] : "idle" | "load" | "store" | "done"
          tmp,       \* value loaded by worker w
          sonCount   \* the shared counter of the father
vars == <<todo, pc, tmp, sonCount>>
Workers == 1..NWorkers
Init == todo = NSons /\ pc = [w \in Workers |-> "idle"] /\ tmp = [w \in Workers |-> 0] /\ sonCount = 0
Take(w) == /\ pc[w] = "idle" /\ todo > 0 /\ todo' = todo - 1
           /\ pc' = [pc EXCEPT ![w] = "load"] /\ UNCHANGED <<tmp, sonCount>>
Finish(w) == /\ pc[w] = "idle" /\ todo = 0 /\ pc' = [pc EXCEPT ![w] = "done"] /\ UNCHANGED <<todo, tmp, sonCount>>
Load(w) == /\ pc[w] = "load"
           /\ IF Atomic THEN sonCount' = sonCount + 1 /\ pc' = [pc EXCEPT ![w] = "idle"] /\ UNCHANGED tmp
              ELSE tmp' = [tmp EXCEPT ![w] = sonCount] /\ pc' = [pc EXCEPT ![w] = "store"] /\ UNCHANGED sonCount
           /\ UNCHANGED todo
Store(w) == /\ pc[w] = "store" /\ sonCount' = tmp[w] + 1 /\ pc' = [pc EXCEPT ![w] = "idle"] /\ UNCHANGED <<todo, tmp>>
Next == \E w \in Workers : Take(w) \/ Finish(w) \/ Load(w) \/ Store(w)
Spec == Init /\ [][Next]_vars /\ WF_vars(Next)
AllDone == \A w \in Workers : pc[w] = "done"
NoLostUpdate == AllDone => sonCount = NSons
Terminates == <>AllDone
=============================================================================

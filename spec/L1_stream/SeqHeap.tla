------------------------------ MODULE SeqHeap ------------------------------
(***************************************************************************)
(* C07, ownership part: sequence objects that own byte slices taken from    *)
(* and returned to a recycle pool (pkg/obiseq: biosequence.go, pool.go,     *)
(* revcomp.go, subseq.go, join.go).                                         *)
(*                                                                          *)
(* Two descriptions run side by side on every history of operations         *)
(*    New Copy Sub RC(in place or not) SetSeq SetQual Mutate Recycle Join : *)
(*                                                                          *)
(*  val  : THE SPECIFICATION.  handle -> value; each operation is the       *)
(*         function of SeqVal.tla applied to the operand's value, every     *)
(*         other object keeps its value (value semantics).                  *)
(*  heap : the implementation shape.  Objects hold slice identifiers,       *)
(*         `mem` holds slice contents, `pool` is the LIFO stack of recycled *)
(*         slices (poisoned when they enter it: hook H1).  Derived objects  *)
(*         copy into slices obtained from the pool; the in-place reverse    *)
(*         complement is the swap-and-complement loop of the code; circular *)
(*         windows are stitched from two linear pieces; mismatch positions  *)
(*         are shifted as _subseqMutation does.                             *)
(*                                                                          *)
(* Theorems checked by TLC on every reachable state:                        *)
(*   Ownership      no slice is owned by two live objects or by a live      *)
(*                  object and the pool                                     *)
(*   ValueSemantics dereferencing the heap gives exactly `val`              *)
(* i.e. the ownership discipline (copy on derive, give back only what you   *)
(* own, never keep a link to another object) implements value semantics,    *)
(* pool reuse and poisoning included.  There is deliberately no cached      *)
(* reverse-complement link in this model: a link to another mutable object  *)
(* cannot satisfy ValueSemantics (DESIGN 9 item 16).                        *)
(*                                                                          *)
(* Every reachable state is one history; it is exported with the value of   *)
(* all live objects and replayed on real *obiseq.BioSequence objects.       *)
(***************************************************************************)
EXTENDS SeqVal, TLC, Json, CSV, IOUtils

CONSTANTS MaxObj,      \* number of handles (live objects at any time)
          Depth,       \* operations after the initial New's
          Starts,      \* set of initial populations: sequences of values
          NewVals,     \* values New may create later (pool reuse after Recycle)
          OpKinds,     \* enabled operation kinds
          WinKinds     \* which windows Sub uses in histories

VARIABLES hist, k, live, val, heap
vars == <<hist, k, live, val, heap>>

Poison == "!"
Nil == Val(<<>>, <<>>, {})

(* populations used by the configurations *)
V1 == Val(<<"a", "r", "[">>, <<10, 20, 30>>,
          {[p |-> 1, x |-> "a", qx |-> 30, y |-> "c", qy |-> 20], [p |-> 3, x |-> "g", qx |-> 12, y |-> "t", qy |-> 25]})
V2 == Val(<<"c", "n">>, <<>>, {})
V3 == Val(<<"t", "-", "y", "]">>, <<1, 2, 3, 4>>, {[p |-> 2, x |-> "t", qx |-> 40, y |-> "k", qy |-> 40]})
V4 == Val(<<"g">>, <<5>>, {})
StartsQuick    == {<<V1>>, <<V2>>, <<V1, V2>>}
StartsThorough == {<<V1>>, <<V2>>, <<V3>>, <<V4>>, <<V1, V2>>, <<V3, V2>>, <<V1, V1>>}
StartsDeep     == {<<V1>>}
(* the empty sequence as receiver, argument and source (Join with nothing to append, copies of nothing) *)
StartsEmpty    == {<<V2, Nil>>, <<Nil>>, <<Nil, V4>>}
NewValsEmpty   == {Nil}
NewValsQuick == {V2}
NewValsThorough == {V2, V4}

---------------------------------------------------------------------------
(* implementation-shaped heap *)

Deref(H, h) ==
  LET ob == H.obj[h] IN
  Val(IF ob.s = 0 THEN <<>> ELSE H.mem[ob.s], IF ob.q = 0 THEN <<>> ELSE H.mem[ob.q], ob.mm)

(* GetSlice/CopySlice: reuse the most recently recycled slice, else a fresh one *)
HAlloc(H, content) ==
  IF H.pool # <<>>
    THEN LET id == Head(H.pool) IN
         [id |-> id, H |-> [H EXCEPT !.pool = Tail(@), !.mem[id] = content]]
    ELSE [id |-> Len(H.mem) + 1, H |-> [H EXCEPT !.mem = Append(@, content)]]

(* RecycleSlice with hook H1: the bytes are overwritten before the slice enters the pool *)
HFree(H, id) ==
  IF id = 0 THEN H
  ELSE [H EXCEPT !.pool = <<id>> \o @, !.mem[id] = [i \in 1..Len(@) |-> Poison]]

INew(H, r, v) ==
  LET a == HAlloc(H, v.seq)
      b == IF v.qual # <<>> THEN HAlloc(a.H, v.qual) ELSE [id |-> 0, H |-> a.H]
  IN [b.H EXCEPT !.obj[r] = [s |-> a.id, q |-> b.id, mm |-> v.mm]]

ICopy(H, o, r) == INew(H, r, Deref(H, o))

(* Subsequence: normalise, one piece or two stitched pieces, shift the annotations *)
ISub(H, o, r, from, to) ==
  LET src == Deref(H, o)
      n == Len(src.seq)
      f == from % n
      t == IF to = 0 THEN 0 ELSE ((to - 1) % n) + 1
      piece(x) == IF f < t THEN Win(x, f, t) ELSE Win(x, f, n) \o Win(x, 0, t)
      w == IF f < t THEN t - f ELSE n - f + t
      shift(p) == IF p - f <= 0 THEN p - f + n ELSE p - f
  IN INew(H, r, Val(piece(src.seq),
                    IF HasQual(src) THEN piece(src.qual) ELSE <<>>,
                    {[m EXCEPT !.p = shift(m.p)] : m \in {mm \in src.mm : shift(mm.p) \in 1..w}}))

(* for i, j := n-1, 0; i >= j; i-- { s[j], s[i] = comp(s[i]), comp(s[j]); j++ }   (1-based here) *)
RECURSIVE SwapComp(_, _, _)
SwapComp(s, i, j) ==
  IF i < j THEN s
  ELSE SwapComp([s EXCEPT ![j] = CompFn[s[i]], ![i] = CompFn[s[j]]], i - 1, j + 1)
RECURSIVE SwapRev(_, _, _)
SwapRev(s, i, j) ==
  IF i < j THEN s ELSE SwapRev([s EXCEPT ![j] = s[i], ![i] = s[j]], i - 1, j + 1)

IRCInPlace(H, t) ==
  LET ob == H.obj[t]
      n  == Len(H.mem[ob.s])
      H1 == [H EXCEPT !.mem[ob.s] = SwapComp(@, n, 1)]
      H2 == IF ob.q = 0 THEN H1 ELSE [H1 EXCEPT !.mem[ob.q] = SwapRev(@, n, 1)]
  IN [H2 EXCEPT !.obj[t].mm = {MMRC(m, n) : m \in @}]

IRC(H, o, r, inplace) == IF inplace THEN IRCInPlace(H, o) ELSE IRCInPlace(ICopy(H, o, r), r)

(* SetSequence copies into a slice from the pool; the old slice is left to the garbage collector *)
ISetSeq(H, o, s) == LET a == HAlloc(H, s) IN [a.H EXCEPT !.obj[o].s = a.id]
(* SetQualities gives the old slice back first *)
ISetQual(H, o, q) == LET a == HAlloc(HFree(H, H.obj[o].q), q) IN [a.H EXCEPT !.obj[o].q = a.id]
(* a write through Sequence()[i] / Qualities()[i] *)
IMutate(H, o, i, x, qx) ==
  LET ob == H.obj[o]
      H1 == [H EXCEPT !.mem[ob.s][i] = x]
  IN IF ob.q = 0 THEN H1 ELSE [H1 EXCEPT !.mem[ob.q][i] = qx]
IRecycle(H, o) ==
  LET ob == H.obj[o] IN
  [HFree(HFree(H, ob.s), ob.q) EXCEPT !.obj[o] = [s |-> 0, q |-> 0, mm |-> {}]]
IJoin(H, o, p, r, inplace) ==
  LET tail == H.mem[H.obj[p].s]
      H1 == IF inplace THEN H ELSE ICopy(H, o, r)
      t  == IF inplace THEN o ELSE r
  IN [H1 EXCEPT !.mem[H1.obj[t].s] = @ \o tail]

ApplyI(H, op) ==
  CASE op.op = "new"     -> INew(H, op.r, op.v)
    [] op.op = "copy"    -> ICopy(H, op.o, op.r)
    [] op.op = "sub"     -> ISub(H, op.o, op.r, op.from, op.to)
    [] op.op = "rc"      -> IRC(H, op.o, op.r, op.inplace = 1)
    [] op.op = "setseq"  -> ISetSeq(H, op.o, op.s)
    [] op.op = "setqual" -> ISetQual(H, op.o, op.q)
    [] op.op = "mutate"  -> IMutate(H, op.o, op.i, op.x, op.qx)
    [] op.op = "recycle" -> IRecycle(H, op.o)
    [] op.op = "join"    -> IJoin(H, op.o, op.p, op.r, op.inplace = 1)

---------------------------------------------------------------------------
(* the specification: value semantics *)

Target(op) == IF op.op \in {"new", "copy", "sub"} THEN op.r
              ELSE IF op.op \in {"rc", "join"} THEN (IF op.inplace = 1 THEN op.o ELSE op.r)
              ELSE op.o

ResultV(vv, op) ==
  CASE op.op = "new"     -> op.v
    [] op.op = "copy"    -> VCopy(vv[op.o])
    [] op.op = "sub"     -> VSub(vv[op.o], op.from, op.to)
    [] op.op = "rc"      -> VRC(vv[op.o])
    [] op.op = "setseq"  -> VSetSeq(vv[op.o], op.s)
    [] op.op = "setqual" -> VSetQual(vv[op.o], op.q)
    [] op.op = "mutate"  -> VMutate(vv[op.o], op.i, op.x, op.qx)
    [] op.op = "recycle" -> Nil
    [] op.op = "join"    -> VJoin(vv[op.o], vv[op.p])

ApplyV(vv, op) == [vv EXCEPT ![Target(op)] = ResultV(vv, op)]     \* nothing else changes

LiveAfter(lv, op) == IF op.op = "recycle" THEN lv \ {op.o} ELSE lv \cup {Target(op)}

---------------------------------------------------------------------------
(* operations offered in a state *)

Min(S) == CHOOSE x \in S : \A y \in S : x <= y
SetSeqVal(n)  == [i \in 1..n |-> IF i = 1 THEN "y" ELSE "g"]
SetQualVal(n) == [i \in 1..n |-> 40 + i]

HistWindows(n) ==
  {w \in {<<1, n, 0, "tail">>, <<n - 1, 1, 1, "wrap">>, <<0, n - 1, 0, "head">>, <<n, n + 1, 1, "over">>, <<1, 1, 1, "turn">>} :
      w[4] \in WinKinds /\ n >= 1 /\ w[1] >= 0 /\ SubValid(n, w[1], w[2], w[3] = 1)}

Ops(lv, vv) ==
  LET free == (1..MaxObj) \ lv
      r == IF free = {} THEN 0 ELSE Min(free)
      has(kind) == kind \in OpKinds
      len(o) == Len(vv[o].seq)
  IN
  (IF has("new") /\ r # 0 THEN {[op |-> "new", r |-> r, v |-> v] : v \in NewVals} ELSE {})
  \cup (IF has("copy") /\ r # 0 THEN {[op |-> "copy", o |-> o, r |-> r] : o \in lv} ELSE {})
  \cup (IF has("sub") /\ r # 0
          THEN UNION {{[op |-> "sub", o |-> o, r |-> r, from |-> w[1], to |-> w[2], circ |-> w[3]] :
                          w \in HistWindows(len(o))} : o \in lv}
          ELSE {})
  \cup (IF has("rc") THEN {[op |-> "rc", o |-> o, r |-> 0, inplace |-> 1] : o \in lv} ELSE {})
  \cup (IF has("rc") /\ r # 0 THEN {[op |-> "rc", o |-> o, r |-> r, inplace |-> 0] : o \in lv} ELSE {})
  \cup (IF has("setseq") THEN {[op |-> "setseq", o |-> o, s |-> SetSeqVal(len(o))] : o \in lv} ELSE {})
  \cup (IF has("setqual") THEN {[op |-> "setqual", o |-> o, q |-> SetQualVal(len(o))] : o \in lv} ELSE {})
  \cup (IF has("mutate") THEN {[op |-> "mutate", o |-> o, i |-> 1, x |-> "b", qx |-> 7] : o \in {x \in lv : len(x) >= 1}} ELSE {})
  \cup (IF has("recycle") THEN {[op |-> "recycle", o |-> o] : o \in lv} ELSE {})
  \cup (IF has("join")
          THEN {[op |-> "join", o |-> x[1], p |-> x[2], r |-> 0, inplace |-> 1] :
                   x \in {y \in lv \X lv : JoinValid(vv[y[1]], vv[y[2]])}}
          ELSE {})
  \cup (IF has("join") /\ r # 0
          THEN {[op |-> "join", o |-> x[1], p |-> x[2], r |-> r, inplace |-> 0] :
                   x \in {y \in lv \X lv : JoinValid(vv[y[1]], vv[y[2]])}}
          ELSE {})

---------------------------------------------------------------------------
EmptyHeap == [obj |-> [h \in 1..MaxObj |-> [s |-> 0, q |-> 0, mm |-> {}]], mem |-> <<>>, pool |-> <<>>]

RECURSIVE Populate(_, _, _)
Populate(H, st, i) == IF i > Len(st) THEN H ELSE Populate(INew(H, i, st[i]), st, i + 1)

Init ==
  \E st \in Starts :
    /\ hist = [i \in 1..Len(st) |-> [op |-> "new", r |-> i, v |-> st[i]]]
    /\ k = 0
    /\ live = 1..Len(st)
    /\ val = [h \in 1..MaxObj |-> IF h <= Len(st) THEN st[h] ELSE Nil]
    /\ heap = Populate(EmptyHeap, st, 1)

Next ==
  /\ k < Depth
  /\ \E op \in Ops(live, val) :
       /\ hist' = Append(hist, op)
       /\ k' = k + 1
       /\ val' = ApplyV(val, op)
       /\ live' = LiveAfter(live, op)
       /\ heap' = ApplyI(heap, op)

---------------------------------------------------------------------------
(* theorems *)

Slices(h) == {heap.obj[h].s, heap.obj[h].q} \ {0}
PoolSet == {heap.pool[i] : i \in 1..Len(heap.pool)}

Ownership ==
  /\ \A h \in live : heap.obj[h].s # 0 /\ heap.obj[h].s # heap.obj[h].q
  /\ \A h1 \in live, h2 \in live : h1 # h2 => Slices(h1) \cap Slices(h2) = {}
  /\ \A h \in live : Slices(h) \cap PoolSet = {}
  /\ Cardinality(PoolSet) = Len(heap.pool)
  /\ \A h \in (1..MaxObj) \ live : Slices(h) = {}

ValueSemantics == \A h \in live : Deref(heap, h) = val[h]

WellFormedAll == /\ \A h \in live : WellFormed(val[h])
                 /\ \A h \in (1..MaxObj) \ live : val[h] = Nil

PoolPoisoned == \A id \in PoolSet : \A i \in 1..Len(heap.mem[id]) : heap.mem[id][i] = Poison

(* case export: the history and the value of every live object after its last operation *)
Export ==
  CSVWrite("%1$s",
           <<ToJson([h |-> hist,
                     x |-> [i \in 1..MaxObj |-> IF i \in live THEN [l |-> 1, v |-> val[i]] ELSE [l |-> 0, v |-> Nil]]])>>,
           IOEnv.VERIF_CASES)
=============================================================================

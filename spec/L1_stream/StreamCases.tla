---------------------------- MODULE StreamCases ----------------------------
(***************************************************************************)
(* Enumerates input histories of the deterministic stream combinators      *)
(* (partition of the input into batches, empty batches included, x arrival *)
(* permutation x parameters), computes the output StreamOps requires,      *)
(* checks the stream contracts on it, and exports one replay case each.    *)
(***************************************************************************)
EXTENDS StreamOps, TLC, Json, CSV, IOUtils

CONSTANTS MaxN,    \* max number of input batches
          Sizes,   \* batch sizes
          BSizes,  \* batch-size parameters of the combinators
          Ops

VARIABLES c, out, phase
vars == <<c, out, phase>>

RECURSIVE SumTo(_, _)
SumTo(s, k) == IF k = 0 THEN 0 ELSE s[k] + SumTo(s, k - 1)
Tot(s) == SumTo(s, Len(s))
MkInp(s) == [k \in 1..Len(s) |-> [j \in 1..s[k] |-> SumTo(s, k - 1) + j]]
(* a second stream holding records 101, 102, ... *)
MkInpFrom(s, base) == [k \in 1..Len(s) |-> [j \in 1..s[k] |-> base + SumTo(s, k - 1) + j]]

SizeVecs == UNION {[1..n -> Sizes] : n \in 0..MaxN}
Perms(n) == {f \in [1..n -> 0..(n - 1)] : \A i, j \in 1..n : f[i] = f[j] => i = j}
Ident(n) == [i \in 1..n |-> i - 1]

NeedsKeep == {"divide", "filter", "distribute", "expand"}
NeedsSize == {"rebatch", "divide", "filter", "distribute", "batchover", "pair", "fragments", "merge"}
AnyArrival == {"concat", "expand", "limitmemory", "copytee", "fragments", "merge", "sort", "rebatch", "filterempty", "divide", "filter", "distribute", "pair", "workers", "complete"}
TwoStreams == {"concat", "pair"}

Init ==
  /\ phase = "case"
  /\ out = <<>>
  /\ \E op \in Ops, s \in SizeVecs :
       /\ (op = "merge" => \A k \in 1..Len(s) : s[k] > 0)
       /\ \E arr \in (IF op \in AnyArrival THEN Perms(Len(s)) ELSE {Ident(Len(s))}),
          sz \in (IF op \in NeedsSize THEN BSizes ELSE {0}),
          keep \in (IF op \in NeedsKeep THEN SUBSET (1..Tot(s)) ELSE {{}}),
          s2 \in (IF op = "concat" THEN SizeVecs
                  ELSE IF op = "pair" THEN {t \in SizeVecs : Tot(t) = Tot(s)} ELSE {<<>>}),
          s3 \in (IF op = "concat" THEN {<<>>, <<0>>, <<1, 0>>} ELSE {<<>>}) :
         c = [op |-> op, sizes |-> s, arrival |-> arr, size |-> sz, keep |-> keep,
              sizes2 |-> s2, sizes3 |-> s3]

(* record r has 3 + 2r bases: lengths 5, 7, 9, ... straddle minsize = 6 and one / several windows of 5 *)
FragLens == [r \in 1..64 |-> 3 + 2 * r]

Compute ==
  LET inp == MkInp(c.sizes) IN
  CASE c.op = "sort"        -> SortOut(inp)
    [] c.op = "workers"     -> SortOut(inp)       \* identity worker, then SortBatches
    [] c.op = "expand"      -> ExpandOut(inp, c.keep)    \* 1 -> 2 worker on the records of `keep`, then SortBatches
    [] c.op = "limitmemory" -> SortOut(inp)       \* pass-through (same batches, same numbers, any emission order)
    [] c.op = "copytee"     -> SortOut(inp)       \* each of the TWO outputs carries every batch once
    [] c.op = "rebatch"     -> RebatchOut(inp, c.size)
    [] c.op = "filterempty" -> FilterEmptyOut(inp)
    [] c.op = "filter"      -> FilterOut(inp, c.keep, c.size)
    [] c.op = "batchover"   -> BatchOverOut(Flat(inp), c.size)
    [] c.op = "fragments"   -> FragmentsOut(inp, FragLens, 6, 5, 2, c.size)
    [] c.op = "merge"       -> MergeOut(inp, c.arrival, c.size)
    [] c.op = "complete"    -> CompleteOut(inp)
    [] c.op = "concat"      -> ConcatOut(<<inp, MkInpFrom(c.sizes2, 100), MkInpFrom(c.sizes3, 200)>>)
    [] c.op = "pair"        -> PairOut(inp, MkInpFrom(c.sizes2, 100), c.size)
    [] c.op = "divide"      -> DivideOut(inp, c.keep, c.size)
    [] c.op = "distribute"  ->
         LET class == [r \in 1..Tot(c.sizes) |-> IF r \in c.keep THEN 1 ELSE 0]
             d == DistributeOut(inp, class, c.size)
         IN  [k \in 1..2 |-> IF (k - 1) \in DOMAIN d THEN d[k - 1] ELSE <<>>]

Step == /\ phase = "case"
        /\ out' = Compute
        /\ phase' = "done"
        /\ UNCHANGED c
Next == Step

---------------------------------------------------------------------------
(* theorems about the required outputs *)
Streams == IF c.op \in {"divide", "distribute"} THEN {out[1], out[2]} ELSE {out}
WellCut(bs, size) == \A i \in 1..Len(bs) :
     /\ Len(bs[i].items) >= 1 /\ Len(bs[i].items) <= size
     /\ i < Len(bs) => Len(bs[i].items) = size

ContractHolds == phase = "done" => \A s \in Streams : OrderContract(s)
NothingLostOrAdded == phase = "done" =>
  LET inp == MkInp(c.sizes) IN
  CASE c.op \in {"sort", "workers", "limitmemory", "copytee", "rebatch", "filterempty", "batchover", "complete"} -> Records(out) = Flat(inp)
    [] c.op = "expand" -> SelectSeq(Records(out), LAMBDA r : r < 1000) = Flat(inp)
    [] c.op = "fragments" -> \A r \in {Flat(inp)[i] : i \in 1..Len(Flat(inp))} :
                                 FragsCover(SelectSeq(Records(out), LAMBDA f : f[1] = r), FragLens[r])
    [] c.op = "merge" -> LET RECURSIVE Sum(_) Sum(q) == IF q = <<>> THEN 0 ELSE Head(q) + Sum(Tail(q))
                         IN Sum(Records(out)) = Len(Flat(inp))
    [] c.op = "filter" -> Records(out) = SelectSeq(Flat(inp), LAMBDA r : r \in c.keep)
    [] c.op \in {"divide", "distribute"} ->
           /\ SameBag(Records(out[1]) \o Records(out[2]), Flat(inp))
           /\ \A k \in 1..2 : \A i, j \in 1..Len(Records(out[k])) : i < j => Records(out[k])[i] < Records(out[k])[j]
    [] c.op = "concat" -> Records(out) = Flat(inp) \o Flat(MkInpFrom(c.sizes2, 100)) \o Flat(MkInpFrom(c.sizes3, 200))
    [] c.op = "pair" -> /\ Records(out) = Flat(inp)
                        /\ \A i \in 1..Len(out) : Len(out[i].mates) = Len(out[i].items)
                             /\ \A j \in 1..Len(out[i].items) : out[i].mates[j] = out[i].items[j] + 100
Cuts == phase = "done" =>
  CASE c.op \in {"rebatch", "filter", "batchover", "pair", "fragments", "merge"} -> WellCut(out, c.size)
    [] c.op \in {"divide", "distribute"} -> WellCut(out[1], c.size) /\ WellCut(out[2], c.size)
    [] OTHER -> TRUE

Export == phase = "done" =>
  CSVWrite("%1$s", <<ToJson([op |-> c.op, sizes |-> c.sizes, arrival |-> c.arrival, size |-> c.size,
                            keep |-> [r \in 1..Tot(c.sizes) |-> IF r \in c.keep THEN 1 ELSE 0],
                            sizes2 |-> c.sizes2, sizes3 |-> c.sizes3, out |-> out])>>, IOEnv.VERIF_CASES)
=============================================================================

----------------------------- MODULE StreamOps -----------------------------
(***************************************************************************)
(* L1 - what every stream combinator of pkg/obiiter must deliver (C03).    *)
(*                                                                         *)
(* A stream is a finite set of batches; a batch is [o |-> number,          *)
(* items |-> sequence of records].  The ORDER CONTRACT of a stream: the    *)
(* batch numbers are exactly 0..n-1, each once.  Records are integers.     *)
(* A stream is written here as the sequence of its batches' items indexed  *)
(* by batch number + 1 ("inp"), so the contract holds by construction for  *)
(* inputs and is a proof obligation for every output.                      *)
(*                                                                         *)
(* Each operator below is the REQUIRED output of one combinator, as the    *)
(* sequence of batches in the order a single producer goroutine emits.     *)
(***************************************************************************)
EXTENDS Integers, Sequences, FiniteSets

RECURSIVE Flat(_)
Flat(inp) == IF inp = <<>> THEN <<>> ELSE Head(inp) \o Flat(Tail(inp))

(* records of batches taken in a given order of batch numbers (arrival order) *)
RECURSIVE FlatBy(_, _)
FlatBy(inp, ord) == IF ord = <<>> THEN <<>> ELSE inp[Head(ord) + 1] \o FlatBy(inp, Tail(ord))

Min(a, b) == IF a < b THEN a ELSE b

(* cut a sequence into consecutive pieces of `size` (last one shorter, never empty) *)
RECURSIVE Chop(_, _)
Chop(s, size) == IF s = <<>> THEN <<>>
                 ELSE <<SubSeq(s, 1, Min(size, Len(s)))>> \o Chop(SubSeq(s, Min(size, Len(s)) + 1, Len(s)), size)

Number(chunks) == [k \in 1..Len(chunks) |-> [o |-> k - 1, items |-> chunks[k]]]

(* SortBatches: the same batches, in increasing number *)
SortOut(inp) == [k \in 1..Len(inp) |-> [o |-> k - 1, items |-> inp[k]]]

(* Rebatch(size) *)
RebatchOut(inp, size) == Number(Chop(Flat(inp), size))

(* FilterEmpty: non empty batches renumbered from 0 *)
FilterEmptyOut(inp) == Number(SelectSeq(inp, LAMBDA b : b # <<>>))

(* DivideOn(P, size): two streams, each the matching records in input order, re-cut *)
DivideOut(inp, keep, size) ==
  <<Number(Chop(SelectSeq(Flat(inp), LAMBDA r : r \in keep), size)),
    Number(Chop(SelectSeq(Flat(inp), LAMBDA r : r \notin keep), size))>>

(* FilterOn(P, size) = workers that empty batches in place, then Rebatch *)
FilterOut(inp, keep, size) == Number(Chop(SelectSeq(Flat(inp), LAMBDA r : r \in keep), size))

(* Distribute(class, size): one stream per class value *)
DistributeOut(inp, class, size) ==
  LET keys == {class[r] : r \in {Flat(inp)[i] : i \in 1..Len(Flat(inp))}}
  IN  [k \in keys |-> Number(Chop(SelectSeq(Flat(inp), LAMBDA r : class[r] = k), size))]

(* IBatchOver(data, size) *)
BatchOverOut(data, size) == Number(Chop(data, size))

(* CompleteFileIterator: everything in ONE batch numbered 0 (nothing if the stream is empty) *)
CompleteOut(inp) == IF Flat(inp) = <<>> THEN <<>> ELSE <<[o |-> 0, items |-> Flat(inp)]>>

(* Concat(s1, s2, ...): batches of the streams one after the other; numbers 0..m-1 *)
RECURSIVE ConcatAll(_)
ConcatAll(streams) == IF streams = <<>> THEN <<>> ELSE Head(streams) \o ConcatAll(Tail(streams))
ConcatOut(streams) == SortOut(ConcatAll(streams))

(* PairTo: both streams re-cut to `size`, zipped: batch k carries its mates *)
PairOut(a, b, size) ==
  LET ca == Chop(Flat(a), size)  cb == Chop(Flat(b), size)
  IN  [k \in 1..Len(ca) |-> [o |-> k - 1, items |-> ca[k], mates |-> cb[k]]]

(* MakeIWorker with a worker that returns SEVERAL records for one input record (demultiplexing of a chimeric  *)
(* read, fragmenting, scripted workers): record r gives <<r, r + 1000>> when r \in dup, <<r>> otherwise; the     *)
(* batch keeps its number.                                                                                      *)
RECURSIVE ExpandSeq(_, _)
ExpandSeq(s, dup) == IF s = <<>> THEN <<>>
                     ELSE (IF Head(s) \in dup THEN <<Head(s), Head(s) + 1000>> ELSE <<Head(s)>>) \o ExpandSeq(Tail(s), dup)
ExpandOut(inp, dup) == [k \in 1..Len(inp) |-> [o |-> k - 1, items |-> ExpandSeq(inp[k], dup)]]

(* IFragments(minsize, length, overlap): a record longer than minsize is cut into windows of `length`    *)
(* starting every step = length - overlap bases; the window that leaves fewer than `step` bases behind  *)
(* is extended to the end.  A fragment is <<record, from, to>> (0-based from, exclusive to).            *)
RECURSIVE FragsFrom(_, _, _, _, _)
FragsFrom(r, L, i, length, step) ==
  IF i >= L THEN <<>>
  ELSE LET e0 == Min(i + length, L)
           fusion == (L - e0) < step
           e == IF fusion THEN L ELSE e0
       IN <<<<r, i, e>>>> \o (IF fusion THEN <<>> ELSE FragsFrom(r, L, i + step, length, step))
FragsOf(r, L, minsize, length, overlap) ==
  IF L <= minsize THEN <<<<r, 0, L>>>> ELSE FragsFrom(r, L, 0, length, length - overlap)
RECURSIVE AllFrags(_, _, _, _, _)
AllFrags(recs, lens, minsize, length, overlap) ==
  IF recs = <<>> THEN <<>>
  ELSE FragsOf(Head(recs), lens[Head(recs)], minsize, length, overlap) \o AllFrags(Tail(recs), lens, minsize, length, overlap)
FragmentsOut(inp, lens, minsize, length, overlap, size) ==
  Number(Chop(AllFrags(Flat(inp), lens, minsize, length, overlap), size))
(* every base of every record is covered, fragments of a record are in order and overlap by `overlap` *)
FragsCover(fr, L) == /\ fr[1][2] = 0 /\ fr[Len(fr)][3] = L
                     /\ \A k \in 1..(Len(fr) - 1) : fr[k + 1][2] < fr[k][3] \/ fr[k + 1][2] = fr[k][3]

(* IMergeSequenceBatch(batchsize): every (non empty) input batch becomes ONE record whose count is the  *)
(* number of records merged; merged records are grouped by `batchsize` in arrival order                 *)
MergeOut(inp, arrival, batchsize) ==
  Number(Chop([k \in 1..Len(arrival) |-> Len(inp[arrival[k] + 1])], batchsize))

---------------------------------------------------------------------------
(* contracts every output stream must satisfy (checked by TLC on the closed forms, and by *)
(* the trace specification on streams observed from the real nondeterministic combinators) *)

OrdersOf(bs) == {bs[i].o : i \in 1..Len(bs)}
OrderContract(bs) == /\ OrdersOf(bs) = 0..(Len(bs) - 1)
                     /\ \A i, j \in 1..Len(bs) : bs[i].o = bs[j].o => i = j

(* batches (any emission order) -> records in batch-number order *)
RECURSIVE FlatSorted(_, _)
FlatSorted(bs, k) ==
  IF k >= Len(bs) THEN <<>>
  ELSE LET i == CHOOSE i \in 1..Len(bs) : bs[i].o = k IN bs[i].items \o FlatSorted(bs, k + 1)
Records(bs) == FlatSorted(bs, 0)

Emitted(bs) == [i \in 1..Len(bs) |-> bs[i].items]

(* multiset equality of two sequences of records (records are distinct in our inputs) *)
SameBag(s, t) == Len(s) = Len(t) /\ \A r \in {s[i] : i \in 1..Len(s)} :
     Cardinality({i \in 1..Len(s) : s[i] = r}) = Cardinality({i \in 1..Len(t) : t[i] = r})
=============================================================================

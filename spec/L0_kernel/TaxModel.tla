------------------------------ MODULE TaxModel ------------------------------
(***************************************************************************)
(* Bounded model for property C14: TLC enumerates ALL taxonomies with at   *)
(* most MaxN nodes (every parent function with a root self-loop, i.e. every*)
(* labelled rooted tree, chains and stars included; the root is any label) *)
(* with rank assignments and merged-id aliases, evaluates every query of   *)
(* Tax.tla on it, checks the laws the property states plus the agreement   *)
(* of the walking definitions (shape of the code) with the reference       *)
(* definitions, and exports one case per taxonomy with the expected value  *)
(* of every query for the replay on the real pkg/obitax.                   *)
(***************************************************************************)
EXTENDS Tax, TLC, Json, CSV, IOUtils

CONSTANTS MaxN,     \* largest number of nodes
          FullN,    \* up to FullN nodes every rank assignment over Ranks is explored
          RankVariants,   \* above FullN: which derived rank assignments (0..2 = depth cycle phases, 3 = by label)
          AliasVariants   \* which parity of nodes gets a merged id (subset of {0, 1})

Ranks  == <<"species", "genus", "family">>      \* rank labels given to nodes
QRanks == Ranks \o <<"order">>                  \* rank labels asked for ("order": borne by no node)

VARIABLES tax,      \* the taxonomy of this behaviour
          tab,      \* every query evaluated on it (reference definitions)
          done

vars == <<tax, tab, done>>

-----------------------------------------------------------------------------
(* the space of taxonomies *)

DepthP(p, x) == Cardinality({ Up(p, x, k) : k \in 0..(Len(p) - 1) }) - 1
NR == Len(Ranks)

(* rank assignments: all of them on small trees; on larger ones the ranks cycle with the depth     *)
(* (three phases: the same rank comes back every NR levels, so "nearest" matters) or follow the    *)
(* label (ranks repeated and missing along a path)                                                 *)
RankChoices(p) ==
  LET n == Len(p) IN
  IF n <= FullN THEN [1..n -> { Ranks[i] : i \in 1..NR }]
  ELSE { [x \in 1..n |-> Ranks[((DepthP(p, x) + v) % NR) + 1]] : v \in RankVariants \cap 0..(NR - 1) }
       \cup (IF NR \in RankVariants THEN { [x \in 1..n |-> Ranks[(x % NR) + 1]] } ELSE {})

(* merged ids: old id n+i stands for node i, for the nodes i of one parity *)
AliasSeq(n, w) == SelectSeq([i \in 1..n |-> <<n + i, i>>], LAMBDA pr : (pr[2] + w) % 2 = 0)

MkTax(p, rk, w) ==
  [parent |-> p, rank |-> rk, name |-> [i \in 1..Len(p) |-> "tx" \o ToString(i)], alias |-> AliasSeq(Len(p), w)]

-----------------------------------------------------------------------------
(* every query, by the reference definitions *)

N(T)   == Node(T)
Ids(T) == 0..(2 * Len(T.parent) + 1)          \* nodes, merged ids (some unused), 0 and 2n+1 unknown
B(x)   == IF x THEN 1 ELSE 0
MaskSet(m, n) == { i \in 1..n : (m \div (2 ^ (i - 1))) % 2 = 1 }
NQ == Len(QRanks)

(* option sets for obigrep and taxid bags for obiannotate, picked differently from tree to tree *)
RIds(T)    == SelectSeq([k \in 1..(2 * Len(T.parent) + 2) |-> k - 1], LAMBDA id : Resolve(T, id) # 0)
Hash(T)    == LET n == Len(T.parent) IN
              (IF n = 1 THEN 0 ELSE T.parent[1] + 3 * T.parent[n] + 5 * T.parent[(n \div 2) + 1]) + Len(T.alias)
Pick(T, k) == RIds(T)[((Hash(T) + k) % Len(RIds(T))) + 1]
PickRank(T, k) == T.rank[((Hash(T) + k) % Len(T.parent)) + 1]

Combos(T) ==
  << [r |-> {Pick(T, 0)},             i |-> {},                       k |-> {}],
     [r |-> {},                       i |-> {Pick(T, 1)},             k |-> {}],
     [r |-> {Pick(T, 2), Pick(T, 3)}, i |-> {Pick(T, 4)},             k |-> {}],
     [r |-> {},                       i |-> {Pick(T, 5), Pick(T, 6)}, k |-> {}],
     [r |-> {},                       i |-> {},                       k |-> {PickRank(T, 0)}],
     [r |-> {Pick(T, 7)},             i |-> {},                       k |-> {PickRank(T, 1), PickRank(T, 2)}] >>

Bags(T) == << {Pick(T, 0), Pick(T, 1)}, {Pick(T, 2), Pick(T, 3), Pick(T, 4)}, {Pick(T, 5)} >>

Tables(T) ==
  LET n == Len(T.parent) IN
  [ res     |-> [k \in 1..(2 * n + 2) |-> Resolve(T, k - 1)],
    lca     |-> [a \in 1..n |-> [b \in 1..n |-> LCAref(T, a, b)]],
    path    |-> [a \in 1..n |-> PathRef(T, a)],
    sub     |-> [a \in 1..n |-> [b \in 1..n |-> B(IsSubClade(T, a, b))]],
    clade   |-> [b \in 1..n |-> Clade(T, b)],
    atrank  |-> [q \in 1..NQ |-> [x \in 1..n |-> AtRankRef(T, x, QRanks[q])]],
    hasrank |-> [q \in 1..NQ |-> [x \in 1..n |-> B(HasRank(T, x, QRanks[q]))]],
    setlca  |-> [m \in 1..(2 ^ n - 1) |-> SetLCAref(T, MaskSet(m, n))],
    incl    |-> [k \in 1..(2 * n + 2) |-> { s \in Ids(T) : InCladeId(T, s, k - 1) }],
    seqrank |-> [q \in 1..NQ |-> [k \in 1..(2 * n + 2) |-> SeqAtRank(T, k - 1, QRanks[q])]],
    grep    |-> [c \in 1..Len(Combos(T)) |->
                   LET o == Combos(T)[c] IN
                   [r |-> o.r, i |-> o.i, k |-> o.k, sel |-> { s \in Ids(T) : GrepKeeps(T, o.r, o.i, o.k, s) }]],
    bags    |-> [c \in 1..Len(Bags(T)) |-> [m |-> Bags(T)[c], x |-> SeqLCA(T, Bags(T)[c])]] ]

-----------------------------------------------------------------------------
Init ==
  /\ \E n \in 1..MaxN : \E p \in [1..n -> 1..n] :
        /\ IsRootedTree(p)
        /\ \E rk \in RankChoices(p), w \in AliasVariants : tax = MkTax(p, rk, w)
  /\ tab = <<>> /\ done = FALSE
Compute == ~done /\ tab' = Tables(tax) /\ done' = TRUE /\ UNCHANGED tax
Next == Compute
Spec == Init /\ [][Next]_vars

-----------------------------------------------------------------------------
(* Theorems (invariants of the model) *)

WellFormed == IsTaxonomy(tax)

(* the LCA is a common ancestor, every common ancestor is one of its ancestors (deepest and unique) *)
LcaIsDeepestCommonAncestor == done =>
  \A a \in N(tax), b \in N(tax) :
     /\ tab.lca[a][b] \in Anc(tax, a) \cap Anc(tax, b)
     /\ Anc(tax, a) \cap Anc(tax, b) = Anc(tax, tab.lca[a][b])

LcaAlgebra == done =>
  /\ \A a \in N(tax) : tab.lca[a][a] = a /\ tab.lca[a][Root(tax)] = Root(tax)
  /\ \A a \in N(tax), b \in N(tax) : tab.lca[a][b] = tab.lca[b][a]
  /\ \A a \in N(tax), b \in N(tax), c \in N(tax) : tab.lca[tab.lca[a][b]][c] = tab.lca[a][tab.lca[b][c]]

PathLaws == done =>
  \A a \in N(tax) :
     LET p == tab.path[a] IN
     /\ p[1] = a /\ p[Len(p)] = Root(tax)
     /\ \A i \in 1..(Len(p) - 1) : p[i + 1] = tax.parent[p[i]] /\ p[i] # Root(tax)
     /\ { p[i] : i \in 1..Len(p) } = Anc(tax, a) /\ Len(p) = Cardinality(Anc(tax, a))

CladeLaws == done =>
  /\ tab.clade[Root(tax)] = N(tax)
  /\ \A a \in N(tax), b \in N(tax) :
        /\ (tab.sub[a][b] = 1) <=> (tab.lca[a][b] = b)
        /\ (tab.sub[a][b] = 1) <=> (a \in tab.clade[b])
        /\ (tab.sub[a][b] = 1 /\ tab.sub[b][a] = 1) => a = b
        /\ \/ tab.clade[a] \cap tab.clade[b] = {}                  \* clades are nested or disjoint
           \/ tab.clade[a] \subseteq tab.clade[b]
           \/ tab.clade[b] \subseteq tab.clade[a]

RankLaws == done =>
  \A q \in 1..NQ, a \in N(tax) :
     LET x == tab.atrank[q][a] IN
     /\ (x = 0) <=> (tab.hasrank[q][a] = 0)
     /\ x # 0 => /\ x \in Anc(tax, a) /\ tax.rank[x] = QRanks[q]
                 /\ \A y \in Anc(tax, a) : tax.rank[y] = QRanks[q] => y \in Anc(tax, x)

ResolveLaws == done =>
  /\ \A id \in Ids(tax) : tab.res[id + 1] \in N(tax) \cup {0}
  /\ \A x \in N(tax) : tab.res[x + 1] = x
  /\ \A i \in 1..Len(tax.alias) : tab.res[tax.alias[i][1] + 1] = tax.alias[i][2]
  /\ \A id \in Ids(tax) : (id \notin N(tax) /\ \A i \in 1..Len(tax.alias) : tax.alias[i][1] # id) => tab.res[id + 1] = 0

(* the walking definitions (shape of the code) agree with the reference ones *)
WalksAgree == done =>
  /\ \A a \in N(tax), b \in N(tax) :
        /\ LCA(tax, a, b) = tab.lca[a][b]
        /\ SubCladeWalk(tax, a, b) = (tab.sub[a][b] = 1)
  /\ \A a \in N(tax) : Path(tax, a) = tab.path[a] /\ CladeWalk(tax, a) = tab.clade[a]
  /\ \A q \in 1..NQ, a \in N(tax) : AtRank(tax, a, QRanks[q]) = tab.atrank[q][a]
  /\ \A m \in 1..(2 ^ Len(tax.parent) - 1) :
        LET S == MaskSet(m, Len(tax.parent))
            s == SelectSeq([i \in 1..Len(tax.parent) |-> i], LAMBDA i : i \in S)
        IN /\ SetLCA(tax, S) = tab.setlca[m]
           /\ FoldLCA(tax, Tail(s), Head(s)) = tab.setlca[m]             \* fold in increasing order
           /\ FoldLCA(tax, Tail(Reverse(s)), Head(Reverse(s))) = tab.setlca[m]   \* and in decreasing order

(* filters on sequence records *)
SeqLaws == done =>
  /\ \A s \in Ids(tax) : GrepKeeps(tax, {}, {}, {}, s)
  /\ \A s \in Ids(tax), r \in Ids(tax) :
        LET x == tab.res[s + 1]  y == tab.res[r + 1] IN
        /\ (s \in tab.incl[r + 1]) <=> (x # 0 /\ y # 0 /\ x \in tab.clade[y])
        /\ GrepKeeps(tax, {r}, {}, {}, s) <=> (s \in tab.incl[r + 1])
        /\ GrepKeeps(tax, {}, {r}, {}, s) <=> (s \notin tab.incl[r + 1])
  /\ \A c \in 1..Len(tab.bags) :
        tab.bags[c].x = SetLCAref(tax, { tab.res[m + 1] : m \in tab.bags[c].m })

-----------------------------------------------------------------------------
Export ==
  done =>
    CSVWrite("%1$s", <<ToJson([parent |-> tax.parent, rank |-> tax.rank, name |-> tax.name, alias |-> tax.alias,
                              qranks |-> QRanks,
                              res |-> tab.res, lca |-> tab.lca, path |-> tab.path, sub |-> tab.sub,
                              clade |-> tab.clade, atrank |-> tab.atrank, hasrank |-> tab.hasrank,
                              setlca |-> tab.setlca, incl |-> tab.incl, seqrank |-> tab.seqrank,
                              grep |-> tab.grep, bags |-> tab.bags])>>, IOEnv.VERIF_CASES)
=============================================================================

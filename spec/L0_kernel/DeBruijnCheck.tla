---------------------------- MODULE DeBruijnCheck ----------------------------
(***************************************************************************)
(* Property C19, De Bruijn graph part - bounded model.  One state per      *)
(* (tuple of sequences S, counts C, k-mer size k).  The step Compute       *)
(* evaluates the definitions of DeBruijn.tla; TLC checks the               *)
(* specification's own theorems on every state:                            *)
(*   FoldAgrees       the window-by-window accumulation of the weights     *)
(*                    equals "sum over sequences of count * occurrences"   *)
(*   WeightsSane      nodes are exactly the k-mers of weight > 0; nothing  *)
(*                    depends on the order of the sequences; the graph is  *)
(*                    empty iff every sequence is shorter than k           *)
(*   SettleAgrees     the linear evaluation of cycle / heaviest weight     *)
(*                    equals the declarative one (all walks enumerated)    *)
(*   JudgeSound       JudgePath accepts exactly the heaviest source walks  *)
(*   SingleRepeatFree a single sequence in which no (k-1)-mer is repeated  *)
(*                    gives an acyclic graph whose only heaviest walk      *)
(*                    spells the sequence itself                           *)
(*   SingleDistinct   a single sequence in which no k-mer is repeated      *)
(*                    gives a cycle or that same unique walk               *)
(* Export writes the graph, the set-valued description of the acceptable   *)
(* answers (any source walk of weight `best`) for the replay harness.      *)
(***************************************************************************)
EXTENDS Integers, Sequences, FiniteSets, TLC, Json, CSV, IOUtils, SequencesExt, DeBruijn

CONSTANTS GConfigs   \* set of records [alpha, ns (max length of each sequence, decreasing), cs (count tuples), ks]

VARIABLES S, C, k, done, res
vars == <<S, C, k, done, res>>

GQuickConfigs ==
  {[alpha |-> {"a", "c", "g", "t"}, ns |-> <<5>>,    cs |-> {<<3>>},    ks |-> {2}],
   [alpha |-> {"a", "c", "g", "t"}, ns |-> <<6>>,    cs |-> {<<3>>},    ks |-> {3}],
   [alpha |-> {"a", "c", "g"},      ns |-> <<3, 3>>, cs |-> {<<1, 2>>}, ks |-> {2}],
   [alpha |-> {"a", "c", "g"},      ns |-> <<4, 3>>, cs |-> {<<1, 2>>}, ks |-> {3}],
   [alpha |-> {"a", "c", "n"},      ns |-> <<4>>,    cs |-> {<<2>>},    ks |-> {2, 3}],
   [alpha |-> {"a", "g", "r"},      ns |-> <<3, 2>>, cs |-> {<<2, 1>>}, ks |-> {2}]}
GThoroughConfigs ==
  {[alpha |-> {"a", "c", "g", "t"}, ns |-> <<6>>,    cs |-> {<<1>>, <<3>>}, ks |-> {2}],
   [alpha |-> {"a", "c", "g", "t"}, ns |-> <<7>>,    cs |-> {<<3>>},        ks |-> {3, 4}],
   [alpha |-> {"a", "c", "g"},      ns |-> <<4, 4>>, cs |-> {<<1, 2>>, <<1, 1>>}, ks |-> {2, 3}],
   [alpha |-> {"a", "c", "g"},      ns |-> <<5, 4>>, cs |-> {<<1, 2>>},     ks |-> {4}],
   [alpha |-> {"a", "c", "g"},      ns |-> <<5, 5>>, cs |-> {<<1, 2>>},     ks |-> {3}],
   [alpha |-> {"a", "c", "g", "n"}, ns |-> <<5>>,    cs |-> {<<2>>},        ks |-> {2, 3}],
   [alpha |-> {"a", "g", "r", "b"}, ns |-> <<3, 3>>, cs |-> {<<2, 1>>},     ks |-> {2, 3}],
   [alpha |-> {"a", "c"},           ns |-> <<5, 4, 3>>, cs |-> {<<1, 2, 4>>}, ks |-> {2, 3}]}

GSeqsUpTo(A, n) == UNION {[1..j -> A] : j \in 0..n}

RECURSIVE GStr(_)
GStr(q) == IF q = <<>> THEN "" ELSE q[1] \o GStr(Tail(q))

Nothing == [W |-> <<>>, ch |-> <<FALSE, 0>>]

Init == /\ \E c \in GConfigs : /\ k \in c.ks
                               /\ C \in c.cs
                               /\ S \in [1..Len(c.ns) -> GSeqsUpTo(c.alpha, c.ns[1])]
                               /\ \A i \in 1..Len(c.ns) : Len(S[i]) <= c.ns[i]
        /\ done = FALSE
        /\ res = Nothing

Compute ==
  /\ ~done
  /\ done' = TRUE
  /\ LET W == WeightsDecl(S, C, k) IN res' = [W |-> W, ch |-> CycleAndHeaviest(DOMAIN W, W)]
  /\ UNCHANGED <<S, C, k>>

Next == Compute

N == DOMAIN res.W
Cyclic == res.ch[1]
Best == res.ch[2]

---------------------------------------------------------------------------
FoldAgrees == done => WeightsFold(S, C, k) = res.W

WeightsSane ==
  done => /\ \A x \in [1..k -> NucDigits] : (x \in N) <=> (WeightOf(x, S, C) > 0)
          /\ WeightsDecl(Reverse(S), Reverse(C), k) = res.W
          /\ (N = {}) <=> (\A i \in 1..Len(S) : Len(S[i]) < k)
          /\ DBSum([j \in 1..Cardinality(N) |-> res.W[SetToSeq(N)[j]]]) =
               DBSum([i \in 1..Len(S) |-> C[i] * DBSum([p \in 1..(Len(S[i]) - k + 1) |-> Cardinality(WindowKmers(S[i], p, k))])])

SettleAgrees ==
  done => /\ Cyclic = HasCycleDecl(N)
          /\ (~Cyclic => Best = HeaviestDecl(N, res.W))
          /\ (~Cyclic /\ N # {} => Sources(N) # {} /\ Best > 0)

JudgeSound ==
  (done /\ ~Cyclic) =>
     /\ \A p \in SourceWalks(N) : (JudgePath(p, N, res.W, res.ch) = "ok") <=> (p \in HeaviestWalksDecl(N, res.W))
     /\ \A p \in SourceWalks(N) : JudgeConsensus(WalkDigits(p), k, N, res.W, res.ch) = "ok" <=> (p \in HeaviestWalksDecl(N, res.W))
     /\ (N # {} => JudgePath(<<>>, N, res.W, res.ch) # "ok")
     /\ \A x \in N \ Sources(N) : JudgePath(<<x>>, N, res.W, res.ch) = "walk_valid"

SingleWalk == WalkOfDigits(SeqDigits(S[1]), k)

SingleRepeatFree ==
  (done /\ Len(S) = 1 /\ RepeatFree(S[1], k)) =>
     /\ ~Cyclic
     /\ HeaviestWalksDecl(N, res.W) = {SingleWalk}
     /\ WalkDigits(SingleWalk) = SeqDigits(S[1])
     /\ \A x \in N : Cardinality(Succs(x, N)) <= 1 /\ Cardinality(Preds(x, N)) <= 1

SingleDistinct ==
  (done /\ Len(S) = 1 /\ DistinctKmers(S[1], k)) =>
     \/ Cyclic
     \/ HeaviestWalksDecl(N, res.W) = {SingleWalk}

---------------------------------------------------------------------------
KmerInt(x) == FoldLeft(LAMBDA a, d : 4 * a + d, 0, x)      \* k <= 15
Branching == \E x \in N : Cardinality(Succs(x, N)) >= 2
Ambiguous == \E i \in 1..Len(S) : ~PlainSeq(S[i])

Export ==
  done =>
    CSVWrite("%1$s",
      <<ToJson([kind  |-> "graph",
                S     |-> [i \in 1..Len(S) |-> GStr(S[i])],
                C     |-> C,
                k     |-> k,
                nodes |-> LET q == SetToSeq(N) IN [j \in 1..Len(q) |-> <<KmerInt(q[j]), res.W[q[j]]>>],
                edges |-> LET q == SetToSeq(EdgesOf(N)) IN [j \in 1..Len(q) |-> <<KmerInt(q[j][1]), KmerInt(q[j][2])>>],
                src   |-> LET q == SetToSeq(Sources(N)) IN [j \in 1..Len(q) |-> KmerInt(q[j])],
                cyc   |-> IF Cyclic THEN 1 ELSE 0,
                best  |-> Best,
                single |-> IF Len(S) = 1 /\ DistinctKmers(S[1], k) /\ ~Cyclic THEN GStr(WalkLetters(SingleWalk)) ELSE "",
                br    |-> IF Branching THEN 1 ELSE 0,
                amb   |-> IF Ambiguous THEN 1 ELSE 0,
                ties  |-> IF Cyclic THEN 0 ELSE Cardinality(HeaviestWalksDecl(N, res.W))])>>,
      IOEnv.VERIF_CASES)
=============================================================================

-------------------------------- MODULE PcrMC --------------------------------
(***************************************************************************)
(* Bounded model of property C11 over the operators of Pcr.tla.            *)
(*                                                                         *)
(* One behaviour = one case: a template, a primer pair (table PairTab), an *)
(* option set (table CfgTab).  Templates come from one of two families:    *)
(*   "all"     every template over Alpha of length MinN..MaxN (closed      *)
(*             under reverse complement and rotation; with a two-letter    *)
(*             alphabet and budgets 0..1 every layout of overlapping,      *)
(*             touching, nested primer sites and sites at the very ends    *)
(*             occurs);                                                    *)
(*   "planted" 0..MaxSites priming sites of the pair (exact, 1 or 2        *)
(*             mismatches, both orientations) separated by gaps of         *)
(*             GapLens bases, sites at either end when the outer gaps are  *)
(*             empty.                                                      *)
(* The single step "done" has the heavy evaluation done by TLC's worker    *)
(* threads.  On every completed case TLC checks the theorems of the        *)
(* specification (the property's relational clauses among them) and        *)
(* exports the case with the amplicons the real code has to report.        *)
(***************************************************************************)
EXTENDS Pcr, TLC, Json, CSV, IOUtils

CONSTANTS Family,            \* "all" | "planted"
          Alpha, MinN, MaxN, \* family "all"
          SiteKinds, GapLens, MaxSites, MaxLen,   \* family "planted"
          PairIds,           \* indices of PairTab
          CfgIds,            \* indices of CfgTab
          Stride             \* 1: every (template, pair, options); k: a fixed 1/k of them

VARIABLES t, pp, cf, done, res
vars == <<t, pp, cf, done, res>>

---------------------------------------------------------------------------
(* primer pairs: lengths 2..4, different lengths in a pair, at most one IUPAC code / class *)
(* per primer, one pair with an obligatory position and a negated symbol                  *)
Pr2(f, r) == [f |-> f, r |-> r]
PairTab == <<
  Pr2(<<"a", "a", "t">>,      <<"t", "t", "a">>),        \*  1  over {a,t}
  Pr2(<<"a", "W", "t", "a">>, <<"t", "a", "t">>),        \*  2  over {a,t}, 4/3
  Pr2(<<"t", "a", "t">>,      <<"a", "N", "a", "t">>),   \*  3  over {a,t}, 3/4
  Pr2(<<"a", "t">>,           <<"t", "a", "a">>),        \*  4  over {a,t}, 2/3
  Pr2(<<"a", "c", "g">>,      <<"a", "c", "g">>),        \*  5  sites can overlap (acgt)
  Pr2(<<"a", "c", "R">>,      <<"t", "g", "c", "a">>),   \*  6  3/4, palindromic reverse primer
  Pr2(<<"g", "Y", "c", "a">>, <<"t", "c", "c">>),        \*  7  4/3
  Pr2(<<"c", "a", "g">>,      <<"c", "K", "t", "g">>),   \*  8  3/4
  Pr2(<<"a", "c", "#", "g">>, <<"c", "[", "A", "G", "]", "!", "t">>), \* 9  '#', class, negation
  Pr2(<<"a", "c">>,           <<"c", "t", "g">>)         \* 10  2/3 over {a,c,g,t}
>>

O(ef, er, mn, mx, ext, full, circ) ==
  [ef |-> ef, er |-> er, mn |-> mn, mx |-> mx, ext |-> ext, full |-> full, circ |-> circ]
CfgTab == <<
  O(0, 0, 0, 0, -1, FALSE, FALSE),    \*  1
  O(1, 1, 0, 0, -1, FALSE, FALSE),    \*  2
  O(1, 0, 1, 3, -1, FALSE, FALSE),    \*  3  different budgets, both bounds
  O(0, 1, 2, 0,  0, FALSE, FALSE),    \*  4  primers included, lower bound
  O(1, 1, 0, 4,  1, FALSE, FALSE),    \*  5  flanks clipped
  O(0, 0, 0, 0,  2, TRUE,  FALSE),    \*  6  only full flanks
  O(1, 1, 0, 2,  2, TRUE,  FALSE),    \*  7
  O(0, 0, 0, 0, -1, FALSE, TRUE),     \*  8  circular
  O(1, 1, 1, 3, -1, FALSE, TRUE),     \*  9
  O(0, 1, 0, 0,  0, FALSE, TRUE),     \* 10  circular, primers included
  O(1, 0, 0, 3,  1, FALSE, TRUE),     \* 11  circular, flanks
  O(0, 0, 0, 0,  2, TRUE,  TRUE),     \* 12
  O(1, 1, 0, 0,  1, TRUE,  FALSE),    \* 13
  O(0, 0, 3, 3, -1, FALSE, FALSE),    \* 14  exact length
  O(0, 0, 0, 5, -1, FALSE, TRUE),     \* 15  circular, upper bound
  O(1, 1, 2, 0, -1, FALSE, TRUE),     \* 16  circular, lower bound
  O(0, 0, 2, 2, -1, FALSE, TRUE),     \* 17  circular, exact length
  O(1, 1, 0, 0,  2, FALSE, FALSE)     \* 18  long flanks clipped
>>

Pf == Parse(PairTab[pp].f)
Pv == Parse(PairTab[pp].r)
o  == CfgTab[cf]
n  == Len(t)

---------------------------------------------------------------------------
(* planted sites *)
Matching(sym) == IF sym.neg THEN Nuc \ sym.set ELSE sym.set
Inst(P) == [j \in 1..Len(P) |-> SetMin(Matching(P[j]))]
Mut(P, s, j) == IF Nuc \ Matching(P[j]) = {} THEN s
                ELSE [s EXCEPT ![j] = SetMin(Nuc \ Matching(P[j]))]
SiteOf(kind, F, V) ==      \* F forward primer, V reverse primer (parsed)
  CASE kind = "F0"  -> Inst(F)
    [] kind = "F1"  -> Mut(F, Inst(F), 1)
    [] kind = "F1e" -> Mut(F, Inst(F), Len(F))
    [] kind = "F2"  -> Mut(F, Mut(F, Inst(F), 1), Len(F))
    [] kind = "R0"  -> Inst(Comp(V))
    [] kind = "R1"  -> Mut(Comp(V), Inst(Comp(V)), 1)
    [] kind = "R1e" -> Mut(Comp(V), Inst(Comp(V)), Len(V))
    [] kind = "R2"  -> Mut(Comp(V), Mut(Comp(V), Inst(Comp(V)), 1), Len(V))
    [] kind = "f0"  -> Inst(Comp(F))           \* forward primer site on the other strand
    [] kind = "f1"  -> Mut(Comp(F), Inst(Comp(F)), 2)
    [] kind = "r0"  -> Inst(V)                 \* reverse primer site on the other strand
    [] kind = "r1"  -> Mut(V, Inst(V), 2)
GapSeq(len) == SubSeq(<<2, 1, 2, 1, 2>>, 1, len)

RECURSIVE Build(_, _, _, _, _)
Build(sites, gaps, F, V, i) ==
  IF i > Len(sites) THEN <<>>
  ELSE SiteOf(sites[i], F, V) \o GapSeq(gaps[i + 1]) \o Build(sites, gaps, F, V, i + 1)

Planted(p) ==
  LET F == Parse(PairTab[p].f)  V == Parse(PairTab[p].r) IN
  {x \in UNION {{GapSeq(g[1]) \o Build(s, g, F, V, 1) : s \in [1..k -> SiteKinds], g \in [1..(k + 1) -> GapLens]}
                : k \in 0..MaxSites} : Len(x) <= MaxLen /\ Len(x) >= 1}

---------------------------------------------------------------------------
Weight(x) == FoldLeft(LAMBDA acc, i : (acc * 7 + x[i] + 1) % 1009, Len(x), [i \in 1..Len(x) |-> i])

Init ==
  /\ pp \in PairIds
  /\ cf \in CfgIds
  /\ IF Family = "all" THEN t \in UNION {[1..k -> Alpha] : k \in MinN..MaxN}
                       ELSE t \in Planted(pp)
  /\ (Stride > 1 => (Weight(t) + 11 * pp + 13 * cf) % Stride = 0)
  /\ done = FALSE
  /\ res = <<>>

RecList(A) == LET q == SetToSeq(A) IN [i \in 1..Len(q) |-> q[i].rec]

Next == /\ ~done /\ done' = TRUE /\ UNCHANGED <<t, pp, cf>>
        /\ res' = RecList(AmpFwd(t, Pf, Pv, o)) \o RecList(AmpRev(t, Pf, Pv, o))

Spec == Init /\ [][Next]_vars

---------------------------------------------------------------------------
(* theorems of the specification, checked on every case *)

B0 == Amplicons(t, Pf, Pv, o)

(* both orientations read on the template = the property's definition through the         *)
(* reverse-complemented template                                                          *)
DirectThm == done => B0 = AmpliconsViaRC(t, Pf, Pv, o)

(* reverse-complementing the template gives the same multiset, direction flipped *)
RCThm == done => Amplicons(RC(t), Pf, Pv, o) = FlipBag(B0)

(* rotating a circular template does not change the amplicons *)
(* (family "all" is closed under rotation: one step there is every rotation, by induction) *)
RotThm == (done /\ o.circ /\ n >= 2) =>
  \A k \in (IF Family = "all" THEN {1} ELSE 1..(n - 1)) : Amplicons(Rot(t, k), Pf, Pv, o) = B0

(* the exported list is that multiset *)
ResThm == done => BagOfSeq(res) = B0

(* soundness, in the words of the property: the reported match strings are matched by the *)
(* primers with the reported error counts, within the budgets; without flanks the segment *)
(* length is within the bounds; with complete flanks the segment starts with ext bases    *)
(* followed by the forward match and ends with the reverse complement of the reverse      *)
(* match followed by ext bases                                                            *)
SoundRec(c) ==
  /\ Len(c.fm) = Len(Pf) /\ Len(c.rm) = Len(Pv)
  /\ ObligOK(Pf, c.fm, 0) /\ MismFull(Pf, c.fm, 0) = c.fe /\ c.fe <= o.ef
  /\ ObligOK(Pv, c.rm, 0) /\ MismFull(Pv, c.rm, 0) = c.re /\ c.re <= o.er
  /\ o.ext < 0 => /\ Len(c.seq) >= 1
                  /\ (o.mn = 0 \/ Len(c.seq) >= o.mn) /\ (o.mx = 0 \/ Len(c.seq) <= o.mx)
  /\ (o.ext >= 0 /\ (o.full \/ o.circ)) =>
        LET L == Len(c.seq)  x == o.ext IN
        /\ L >= 2 * x + Len(Pf) + Len(Pv) + 1
        /\ SubSeq(c.seq, x + 1, x + Len(Pf)) = c.fm
        /\ RC(SubSeq(c.seq, L - x - Len(Pv) + 1, L - x)) = c.rm
SoundThm == done => \A i \in DOMAIN res : SoundRec(res[i])

(* the length bounds and the budgets only select *)
KeepIn(B, keep(_)) == [c \in {x \in DOMAIN B : keep(x)} |-> B[c]]
BoundsThm == (done /\ o.ext < 0) =>
  B0 = KeepIn(Amplicons(t, Pf, Pv, [o EXCEPT !.mn = 0, !.mx = 0]),
                LAMBDA c : (o.mn = 0 \/ Len(c.seq) >= o.mn) /\ (o.mx = 0 \/ Len(c.seq) <= o.mx))
BudgetThm == done =>
  Amplicons(t, Pf, Pv, [o EXCEPT !.ef = 0, !.er = 0]) = KeepIn(B0, LAMBDA c : c.fe = 0 /\ c.re = 0)

(* flanks only add bases around the same pairs: the barcode of the flank-less run is the  *)
(* middle of the run with complete flanks                                                 *)
FlankThm == (done /\ o.ext >= 0 /\ (o.full \/ o.circ) /\ Asserted(t, Pf, Pv, o)) =>
  LET strip(c) == [c EXCEPT !.seq = SubSeq(c.seq, o.ext + Len(Pf) + 1, Len(c.seq) - o.ext - Len(Pv))]
      bare == Amplicons(t, Pf, Pv, [o EXCEPT !.ext = -1])
  IN  \A c \in DOMAIN B0 : strip(c) \in DOMAIN bare

(* every amplicon of the linear template is an amplicon of the circular one *)
CircThm == (done /\ ~o.circ /\ o.ext < 0 /\ n >= Len(Pf) /\ n >= Len(Pv)) =>
  LET cb == Amplicons(t, Pf, Pv, [o EXCEPT !.circ = TRUE])
  IN  \A c \in DOMAIN B0 : c \in DOMAIN cb /\ cb[c] >= B0[c]

(* the acceptance predicate accepts the specification's answer and rejects a lost, an     *)
(* invented, a mis-annotated and a duplicated amplicon                                    *)
VerdictThm == done =>
  /\ BagVerdict(res, B0, FALSE) = "ok"
  /\ BagVerdict(res, B0, TRUE) = "ok"
  /\ res # <<>> =>
       /\ BagVerdict(Tail(res), B0, FALSE) \in {"missing", "count"}
       /\ BagVerdict(<<[res[1] EXCEPT !.seq = <<4>> \o @]>> \o Tail(res), B0, FALSE) = "spurious"
       /\ BagVerdict(<<[res[1] EXCEPT !.fe = @ + 1]>> \o Tail(res), B0, FALSE) = "annot"
       /\ BagVerdict(<<res[1]>> \o res, B0, FALSE) = "count"
       /\ BagVerdict(<<res[1]>> \o res, B0, TRUE) = "ok"

---------------------------------------------------------------------------
(* export: one line per case *)
B2I(b) == IF b THEN 1 ELSE 0
Case == [t |-> t, pp |-> pp, cf |-> cf, f |-> PairTab[pp].f, r |-> PairTab[pp].r,
         ef |-> o.ef, er |-> o.er, mn |-> o.mn, mx |-> o.mx, ext |-> o.ext,
         full |-> B2I(o.full), circ |-> B2I(o.circ),
         asserted |-> B2I(Asserted(t, Pf, Pv, o)), amp |-> res]

Export == done => CSVWrite("%1$s", <<ToJson(Case)>>, IOEnv.VERIF_CASES)
=============================================================================

----------------------------- MODULE BitVecLaws -----------------------------
(***************************************************************************)
(* The specification's own theorems for property C20 (step M).             *)
(*                                                                         *)
(* (1) BitVec against TLC's native integers (configurations with L = 0):   *)
(*     at width W = K EVERY operand pair (a, b) in 0..2^W-1 is taken,      *)
(*     every operation of BitVec is evaluated on the two bit sequences     *)
(*     and compared with native arithmetic on a and b; shifts for every    *)
(*     n in 0..W+SH.                                                       *)
(* (2) LimbModel against BitVec (configurations with L > 0): numbers of    *)
(*     K limbs of L bits; every operator of LimbModel (chained add / sub   *)
(*     with carry, schoolbook multiplication with overflow, restoring      *)
(*     division and the division checker, comparisons, limb-wise bitwise   *)
(*     operations, shifts by whole limbs + carry between limbs in both the *)
(*     closed form and the code's LeftShift64 chain, shifts with carry-in, *)
(*     casts) is compared with the bit-level definition on the same        *)
(*     value: for all pairs (pairs = "all"), for all a and every boundary  *)
(*     value b (pairs = "wide"), or for every step-th value of a (and the  *)
(*     boundary values) with b = 0 plus all pairs of boundary values       *)
(*     (pairs = "edge").                                                   *)
(* A wrong full-adder cell, a carry that is not propagated, a shift that   *)
(* keeps a bit it should drop ... makes `verdict` leave {"todo","ok"}.     *)
(***************************************************************************)
EXTENDS LimbModel, TLC

CONSTANTS Configs,  \* set of records [L, K, pairs, step]
          SH        \* shifts are validated for n in 0..W+SH

VARIABLES cf, a, b, verdict

QuickConfigs ==
  { [L |-> 0, K |-> 6, pairs |-> "all",  step |-> 1],     \* BitVec = native, 6 bits: 4 096 pairs
    [L |-> 3, K |-> 2, pairs |-> "wide", step |-> 1],     \* two limbs  (Uint128 shape)
    [L |-> 2, K |-> 3, pairs |-> "wide", step |-> 1],
    [L |-> 6, K |-> 1, pairs |-> "wide", step |-> 1],     \* one limb wider than a table nibble
    [L |-> 2, K |-> 4, pairs |-> "edge", step |-> 1],     \* four limbs (Uint256 shape)
    [L |-> 8, K |-> 1, pairs |-> "edge", step |-> 1] }    \* one byte
ThoroughConfigs ==
  { [L |-> 0, K |-> 8, pairs |-> "all",  step |-> 1],     \* BitVec = native, 8 bits: 65 536 pairs
    [L |-> 4, K |-> 2, pairs |-> "all",  step |-> 1],     \* two limbs, all pairs
    [L |-> 2, K |-> 4, pairs |-> "wide", step |-> 1],
    [L |-> 8, K |-> 1, pairs |-> "all",  step |-> 1],     \* the transport limb: one byte, all pairs
    [L |-> 4, K |-> 4, pairs |-> "edge", step |-> 5],     \* 16 bits: every 5th value x all shifts, boundary pairs
    [L |-> 8, K |-> 2, pairs |-> "edge", step |-> 5] }

Width(c) == IF c.L = 0 THEN c.K ELSE c.L * c.K
Edge(w) == LET m == P2(w) IN
  ({0, 1, 2, 3, m - 1, m - 2, m - 3} \cup UNION { {P2(k) - 1, P2(k), P2(k) + 1} : k \in 1..(w - 1) }) \cap 0..(m - 1)

NatCmp(x, y) == IF x < y THEN -1 ELSE IF x > y THEN 1 ELSE 0
NatBit(x, i) == (x \div P2(i - 1)) % 2

---------------------------------------------------------------------------
(* (1) BitVec = native arithmetic *)
NatUnary(x, W) ==
  LET A == FromNat(x, W)  M == P2(W) IN
  IF ToNat(A) # x \/ Len(A) # W THEN "encoding"
  ELSE IF ToNat(Force(Not(A))) # M - 1 - x THEN "not"
  ELSE IF IsZero(A) # (x = 0) THEN "iszero"
  ELSE IF Msb(A) # (IF x = 0 THEN 0 ELSE CHOOSE k \in 1..W : P2(k - 1) <= x /\ x < P2(k)) THEN "msb"
  ELSE IF \E n \in 0..(W + SH) : ToNat(Force(Shl(A, n))) # (IF n >= W THEN 0 ELSE (x * P2(n)) % M) THEN "shl"
  ELSE IF \E n \in 0..(W + SH) : ToNat(Force(Shr(A, n))) # (IF n >= W THEN 0 ELSE x \div P2(n)) THEN "shr"
  ELSE IF \E n \in 0..W : ToNat(Force(ShlOut(A, n))) # (x * P2(n)) \div M THEN "shl-out"
  ELSE IF \E n \in 0..W : ToNat(Force(ShrOut(A, n))) # ((x * M) \div P2(n)) % M THEN "shr-out"
  ELSE IF \E w \in 0..W : Fits(A, w) # (x < P2(w)) THEN "fits"
  ELSE IF \E w \in 1..W : ToNat(Trunc(A, w)) # x % P2(w) THEN "trunc"
  ELSE IF \E w \in 1..W : Force(Cast(A, w)) # Trunc(A, w) THEN "cast-narrow"
  ELSE IF ToNat(Force(ZExt(A, 2 * W))) # x \/ Len(Force(ZExt(A, 2 * W))) # 2 * W THEN "zext"
  ELSE IF Force(Cast(A, 2 * W)) # Force(ZExt(A, 2 * W)) THEN "cast-widen"
  ELSE IF W % 8 = 0 /\ Force(FromBytes(Force(ToBytes(A)))) # A THEN "bytes"
  ELSE "ok"

NatCheck(x, y, W) ==
  LET A == FromNat(x, W)  B == FromNat(y, W)  M == P2(W)
      add == Add(A, B)   sub == Sub(A, B)   mul == Mul(A, B)
      ad1 == AddC(A, B, 1)  sb1 == SubC(A, B, 1)
  IN
  IF y = 0 /\ NatUnary(x, W) # "ok" THEN NatUnary(x, W)
  ELSE IF ToNat(add.v) + M * add.c # x + y THEN "add"
  ELSE IF (add.c = 1) # (x + y >= M) THEN "add-overflow-signal"
  ELSE IF ToNat(ad1.v) + M * ad1.c # x + y + 1 THEN "add-carry-in"
  ELSE IF ToNat(sub.v) - M * sub.c # x - y THEN "sub"
  ELSE IF (sub.c = 1) # (x < y) THEN "sub-underflow-signal"
  ELSE IF ToNat(sb1.v) - M * sb1.c # x - y - 1 THEN "sub-borrow-in"
  ELSE IF ToNat(mul.v) + M * ToNat(mul.h) # x * y THEN "mul"
  ELSE IF mul.ovf # (x * y >= M) THEN "mul-overflow-signal"
  ELSE IF y # 0 /\ (LET d == DivMod(A, B) IN ToNat(d.q) # x \div y \/ ToNat(d.r) # x % y) THEN "divmod"
  ELSE IF Cmp(A, B) # NatCmp(x, y) THEN "cmp"
  ELSE IF \E i \in 1..W : And(A, B)[i] # (IF NatBit(x, i) = 1 /\ NatBit(y, i) = 1 THEN 1 ELSE 0) THEN "and"
  ELSE IF ToNat(Force(And(A, B))) + ToNat(Force(Or(A, B))) # x + y THEN "and+or"        \* x&y + x|y = x+y
  ELSE IF ToNat(Force(Xor(A, B))) + 2 * ToNat(Force(And(A, B))) # x + y THEN "xor"      \* x^y + 2(x&y) = x+y
  ELSE IF \E n \in 0..W : ToNat(Force(ShlIn(A, n, B))) # ((x * P2(n)) % M) + (y % P2(n)) THEN "shl-in"
  ELSE IF \E n \in 0..W : ToNat(Force(ShrIn(A, n, B))) # (x \div P2(n)) + (y - (y % P2(W - n))) THEN "shr-in"
  ELSE "ok"

---------------------------------------------------------------------------
(* (2) LimbModel = BitVec *)
LimbUnary(x, L, K) ==
  LET W == L * K
      X == Force(NatLimbs(x, L, K))
      A == FromNat(x, W)
      bits(l) == Force(LimbBits(l, L))
  IN
  IF bits(X) # A \/ Force(BitLimbs(A, L)) # X THEN "limb-encoding"
  ELSE IF \E n \in 0..(W + SH) : bits(LShl(X, n, L)) # Force(Shl(A, n)) THEN "limb-shl"
  ELSE IF \E n \in 0..(W + SH) : bits(LShr(X, n, L)) # Force(Shr(A, n)) THEN "limb-shr"
  ELSE IF \E n \in 0..(W + SH) : bits(CodeShl(X, n, L)) # Force(Shl(A, n)) THEN "code-shl"
  ELSE IF \E n \in 0..(W + SH) : bits(CodeShr(X, n, L)) # Force(Shr(A, n)) THEN "code-shr"
  ELSE IF bits(LNot(X, L)) # Force(Not(A)) THEN "limb-not"
  ELSE IF LIsZero(X) # IsZero(A) THEN "limb-iszero"
  ELSE IF LMsb(X, L) # Msb(A) THEN "limb-msb"
  ELSE IF \E k \in 0..K : LFits(X, k) # Fits(A, L * k) THEN "limb-fits"
  ELSE IF \E k \in 1..K : bits(LCast(X, k)) # Force(Cast(A, L * k)) THEN "limb-cast-narrow"
  ELSE IF \E k \in K..(2 * K) : bits(LCast(X, k)) # Force(Cast(A, L * k)) THEN "limb-cast-widen"
  ELSE "ok"

LimbCarryShifts(x, y, L, K) ==
  LET W == L * K
      X == Force(NatLimbs(x, L, K))  Y == Force(NatLimbs(y, L, K))
      A == FromNat(x, W)             B == FromNat(y, W)
      bits(l) == Force(LimbBits(l, L))
  IN
  IF \E n \in 0..W : LET s == LShlIn(X, n, Y, L) IN
         bits(s.v) # Force(ShlIn(A, n, B)) \/ bits(s.c) # Force(ShlOut(A, n)) THEN "limb-shl-in"
  ELSE IF \E n \in 0..W : LET s == LShrIn(X, n, Y, L) IN
         bits(s.v) # Force(ShrIn(A, n, B)) \/ bits(s.c) # Force(ShrOut(A, n)) THEN "limb-shr-in"
  ELSE IF K = 1 /\ \E n \in 0..L : LET s == LShlIn(X, n, Y, L) IN LS64(x, n, y, L) # <<s.v[1], s.c[1]>> THEN "code-ls64"
  ELSE IF K = 1 /\ \E n \in 0..L : LET s == LShrIn(X, n, Y, L) IN RS64(x, n, y, L) # <<s.v[1], s.c[1]>> THEN "code-rs64"
  ELSE "ok"

LimbCheck(x, y, L, K, allshifts) ==
  LET W == L * K
      X == Force(NatLimbs(x, L, K))  Y == Force(NatLimbs(y, L, K))
      A == FromNat(x, W)             B == FromNat(y, W)
      bits(l) == Force(LimbBits(l, L))
      add == LAdd(X, Y, L)      ad1 == LAddC(X, Y, 1, L)
      sub == LSub(X, Y, L)      sb1 == LSubC(X, Y, 1, L)
      mul == LMul(X, Y, L)      bmul == Mul(A, B)
  IN
  IF y = 0 /\ LimbUnary(x, L, K) # "ok" THEN LimbUnary(x, L, K)
  ELSE IF (allshifts \/ y \in Edge(W)) /\ LimbCarryShifts(x, y, L, K) # "ok" THEN LimbCarryShifts(x, y, L, K)
  ELSE IF bits(add.v) # Add(A, B).v \/ add.c # Add(A, B).c THEN "limb-add"
  ELSE IF bits(ad1.v) # AddC(A, B, 1).v \/ ad1.c # AddC(A, B, 1).c THEN "limb-add-carry-in"
  ELSE IF bits(sub.v) # Sub(A, B).v \/ sub.c # Sub(A, B).c THEN "limb-sub"
  ELSE IF bits(sb1.v) # SubC(A, B, 1).v \/ sb1.c # SubC(A, B, 1).c THEN "limb-sub-borrow-in"
  ELSE IF bits(mul.v) # bmul.v \/ bits(mul.h) # bmul.h \/ mul.ovf # bmul.ovf THEN "limb-mul"
  ELSE IF y # 0 /\ (LET d == LDivMod(X, Y, L)  e == DivMod(A, B) IN bits(d.q) # e.q \/ bits(d.r) # e.r) THEN "limb-divmod"
  ELSE IF y # 0 /\ \E t \in { <<x \div y, x % y>>, <<(x \div y) + 1, x % y>>, <<x \div y, (x % y) + 1>>,
                             <<(x \div y) - 1, (x % y) + y>>, <<y, x>>, <<0, x>> } :
            /\ t[1] >= 0 /\ t[1] < P2(W) /\ t[2] < P2(W)
            /\ LIsDivMod(X, Y, Force(NatLimbs(t[1], L, K)), Force(NatLimbs(t[2], L, K)), L)
                 # (t[1] = x \div y /\ t[2] = x % y) THEN "limb-divmod-checker"
  ELSE IF LCmp(X, Y) # Cmp(A, B) THEN "limb-cmp"
  ELSE IF bits(LAnd(X, Y, L)) # Force(And(A, B)) THEN "limb-and"
  ELSE IF bits(LOr(X, Y, L)) # Force(Or(A, B)) THEN "limb-or"
  ELSE IF bits(LXor(X, Y, L)) # Force(Xor(A, B)) THEN "limb-xor"
  ELSE "ok"

---------------------------------------------------------------------------
Check(c, x, y) == IF c.L = 0 THEN NatCheck(x, y, c.K) ELSE LimbCheck(x, y, c.L, c.K, c.pairs = "all")

Init ==
  /\ cf \in Configs
  /\ LET m == P2(Width(cf)) IN
       \/ cf.pairs = "all"  /\ a \in 0..(m - 1) /\ b \in 0..(m - 1)
       \/ cf.pairs = "wide" /\ a \in 0..(m - 1) /\ b \in Edge(Width(cf))
       \/ cf.pairs = "edge" /\ a \in { v \in 0..(m - 1) : v % cf.step = 0 \/ v \in Edge(Width(cf)) } /\ b = 0
       \/ cf.pairs = "edge" /\ a \in Edge(Width(cf)) /\ b \in Edge(Width(cf)) \ {0}
  /\ verdict = "todo"
Next == verdict = "todo" /\ verdict' = Check(cf, a, b) /\ UNCHANGED <<cf, a, b>>

Valid == verdict \in {"todo", "ok"}
=============================================================================

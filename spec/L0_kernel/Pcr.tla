--------------------------------- MODULE Pcr ---------------------------------
(***************************************************************************)
(* In-silico PCR of obitools4 (property C11): pkg/obiapat/pcr.go,          *)
(* obipcr.  Constant-level operator library on top of Apat.tla (pattern    *)
(* syntax, "P matches at p with k mismatches", reverse-complemented        *)
(* pattern).                                                               *)
(*                                                                         *)
(* Encoding (as in Apat.tla): a template T is a tuple of small integers    *)
(* a=0 c=1 g=2 t=3, 4 = any other letter (matches no plain primer symbol,  *)
(* is its own complement).  Positions are 0-based, spans half open.  A     *)
(* primer is a parsed pattern (Apat!Parse of its text).  A hit is <<p, k>>:*)
(* start position and number of mismatches.                                *)
(*                                                                         *)
(* An amplicon is defined for an ORDERED pair of primers (PA, PB): a hit a *)
(* of PA read directly on the template and a hit b of the reverse          *)
(* complement of PB downstream of it.  With (PA, PB) = (forward, reverse)  *)
(* this is the "forward" orientation.  The "reverse" orientation is what   *)
(* the forward orientation finds on the reverse-complemented template,     *)
(* (definition AmpliconsViaRC); the direct formulation on the template     *)
(* itself (Amplicons, pair (reverse, forward), everything reverse-         *)
(* complemented) is a theorem checked by TLC on the bounded model.         *)
(*                                                                         *)
(* What is NOT decided here (Asserted = FALSE):                            *)
(*   - a circular template shorter than one of the primers (a primer site  *)
(*     would overlap itself);                                              *)
(*   - a circular template on which a requested flank makes the extended   *)
(*     segment longer than one turn.                                       *)
(* Primer sites lie inside the template (linear) / start inside it         *)
(* (circular); a pair whose sites touch or overlap yields no amplicon (the *)
(* segment between them would be empty).                                   *)
(***************************************************************************)
EXTENDS Apat

(* circular-aware window: len symbols starting at position from (may be negative) *)
Seg(T, from, len) ==
  LET n == Len(T) IN [j \in 1..len |-> T[((from + j - 1 + 4 * n) % n) + 1]]

(* rotation of a circular template: position 0 of Rot(T, k) is position k of T *)
Rot(T, k) == Seg(T, k, Len(T))

(* primer hits: linear = sites inside the template; circular = sites starting inside it,  *)
(* read on the template followed by its own beginning                                     *)
PHits(P, T, e, circ) ==
  IF ~circ THEN SubHits(P, T, e, 0, Len(T))
  ELSE LET m == Len(P)
           X == T \o SubSeq(T, 1, m - 1)
       IN  IF m > Len(T) THEN {}            \* not decided, see Asserted
           ELSE {h \in SubHits(P, X, e, 0, Len(X)) : h[1] < Len(T)}

(* number of template positions strictly between the end of site a (length la) and the   *)
(* start of site b, walking downstream                                                    *)
Gap(a, b, la, n, circ) ==
  IF circ THEN (b[1] - a[1] - la + 4 * n) % n ELSE b[1] - a[1] - la

(* a pair of sites defines an amplicon: b downstream of a, at least one base in between, *)
(* on a circle the product (site a, segment, site b) does not overlap itself, barcode     *)
(* length (primers excluded) within the bounds; a bound of 0 means no bound               *)
PairOK(a, b, la, lb, n, mn, mx, circ) ==
  LET d == Gap(a, b, la, n, circ) IN
  /\ d >= 1
  /\ circ => la + d + lb <= n
  /\ (mn = 0 \/ d >= mn)
  /\ (mx = 0 \/ d <= mx)

(* the reported window <<from, len>> (from may be negative on a circle), <<>> = nothing:  *)
(*   ext < 0  : the barcode only, primers excluded;                                       *)
(*   ext >= 0 : both primer sites and ext flanking bases on each side; on a linear        *)
(*              template the flanks are clipped at the ends, or - full - the amplicon is  *)
(*              dropped when a flank is incomplete.                                       *)
Window(a, b, la, lb, n, ext, full, circ) ==
  LET d == Gap(a, b, la, n, circ) IN
  IF ext < 0 THEN <<a[1] + la, d>>
  ELSE IF circ THEN <<a[1] - ext, la + d + lb + 2 * ext>>
  ELSE LET from == a[1] - ext
           to   == b[1] + lb + ext
       IN  IF full THEN (IF from >= 0 /\ to <= n THEN <<from, to - from>> ELSE <<>>)
           ELSE <<Max2(from, 0), Min2(to, n) - Max2(from, 0)>>

(* o = [ef, er, mn, mx, ext, full, circ]: error budgets of the two primers, length bounds, *)
(* flank length (-1: primers excluded), only full flanks, circular template                *)

(* pairs of one orientation: PA read directly with budget ea, PB as its complement with eb *)
Pairs2(T, PA, PB, ea, eb, o) ==
  LET n  == Len(T)
      la == Len(PA)
      lb == Len(PB)
      HA == PHits(PA, T, ea, o.circ)
      HB == PHits(Comp(PB), T, eb, o.circ)
  IN  {ab \in HA \X HB :
         /\ PairOK(ab[1], ab[2], la, lb, n, o.mn, o.mx, o.circ)
         /\ Window(ab[1], ab[2], la, lb, n, o.ext, o.full, o.circ) # <<>>}

(* the forward orientation on a template: one record per pair, tagged with the pair        *)
(* (different pairs can carry identical contents: the result is a multiset)                *)
FwdRec(T, Pf, Pr, ab, o) ==
  LET a == ab[1]  b == ab[2]
      w == Window(a, b, Len(Pf), Len(Pr), Len(T), o.ext, o.full, o.circ)
  IN  [seq |-> Seg(T, w[1], w[2]), dir |-> "forward",
       fm |-> Seg(T, a[1], Len(Pf)), fe |-> a[2],
       rm |-> RC(Seg(T, b[1], Len(Pr))), re |-> b[2]]

AmpFwd(T, Pf, Pr, o) ==
  {[at |-> ab, rec |-> FwdRec(T, Pf, Pr, ab, o)] : ab \in Pairs2(T, Pf, Pr, o.ef, o.er, o)}

(* the reverse orientation read directly on the template: the reverse primer matches      *)
(* directly (site a), the complemented forward primer downstream (site b); segment and    *)
(* forward match are reverse-complemented so that the amplicon reads forward -> reverse   *)
RevRec(T, Pf, Pr, ab, o) ==
  LET a == ab[1]  b == ab[2]
      w == Window(a, b, Len(Pr), Len(Pf), Len(T), o.ext, o.full, o.circ)
  IN  [seq |-> RC(Seg(T, w[1], w[2])), dir |-> "reverse",
       fm |-> RC(Seg(T, b[1], Len(Pf))), fe |-> b[2],
       rm |-> Seg(T, a[1], Len(Pr)), re |-> a[2]]

AmpRev(T, Pf, Pr, o) ==
  {[at |-> ab, rec |-> RevRec(T, Pf, Pr, ab, o)] : ab \in Pairs2(T, Pr, Pf, o.er, o.ef, o)}

(* multisets of contents *)
BagOf(A) ==
  LET C == {x.rec : x \in A} IN [c \in C |-> Cardinality({x \in A : x.rec = c})]
BagPlus(f, g) ==
  [c \in (DOMAIN f) \cup (DOMAIN g) |->
     (IF c \in DOMAIN f THEN f[c] ELSE 0) + (IF c \in DOMAIN g THEN g[c] ELSE 0)]
BagOfSeq(q) ==
  LET C == Range(q) IN [c \in C |-> Cardinality({i \in DOMAIN q : q[i] = c})]
FlipDir(d) == IF d = "forward" THEN "reverse" ELSE "forward"
FlipBag(f) ==
  LET fl(c) == [c EXCEPT !.dir = FlipDir(c.dir)]
  IN  [c \in {fl(x) : x \in DOMAIN f} |-> f[fl(c)]]

(* THE DEFINITION (the property's words): amplicons of the forward orientation, plus the  *)
(* amplicons the forward orientation finds on the reverse-complemented template with the  *)
(* direction flipped                                                                      *)
AmpliconsViaRC(T, Pf, Pr, o) ==
  BagPlus(BagOf(AmpFwd(T, Pf, Pr, o)), FlipBag(BagOf(AmpFwd(RC(T), Pf, Pr, o))))

(* the same, both orientations read on the template itself (theorem DirectThm of PcrMC)   *)
Amplicons(T, Pf, Pr, o) ==
  BagPlus(BagOf(AmpFwd(T, Pf, Pr, o)), BagOf(AmpRev(T, Pf, Pr, o)))

(* is the case decided by this specification ? *)
Asserted(T, Pf, Pr, o) ==
  o.circ =>
    /\ Len(T) >= Len(Pf) /\ Len(T) >= Len(Pr)
    /\ o.ext >= 0 =>
         /\ \A ab \in Pairs2(T, Pf, Pr, o.ef, o.er, o) :
               Window(ab[1], ab[2], Len(Pf), Len(Pr), Len(T), o.ext, o.full, TRUE)[2] <= Len(T)
         /\ \A ab \in Pairs2(T, Pr, Pf, o.er, o.ef, o) :
               Window(ab[1], ab[2], Len(Pr), Len(Pf), Len(T), o.ext, o.full, TRUE)[2] <= Len(T)

---------------------------------------------------------------------------
(* acceptance of a reported list R of records [seq, dir, fm, fe, rm, re] against the bag  *)
(* B the specification assigns; returns "ok" or the name of the broken clause.            *)
(*   spurious : a record whose (segment, direction) the specification does not have       *)
(*   annot    : segment and direction are right, the match strings / error counts are not *)
(*   missing  : an amplicon of the specification is not reported at all                   *)
(*   count    : reported, but not as many times as there are pairs of sites               *)
(* asSet = TRUE (fragmented templates: an amplicon lying in the overlap of two fragments  *)
(* is found in both): every record is one of B, every record of B is reported.            *)
Key(c) == <<c.seq, c.dir>>
BagVerdict(R, B, asSet) ==
  LET G == BagOfSeq(R) IN
  IF \E c \in DOMAIN G : Key(c) \notin {Key(x) : x \in DOMAIN B} THEN "spurious"
  ELSE IF \E c \in DOMAIN G : c \notin DOMAIN B THEN "annot"
  ELSE IF \E c \in DOMAIN B : c \notin DOMAIN G THEN "missing"
  ELSE IF ~asSet /\ \E c \in DOMAIN B : G[c] # B[c] THEN "count"
  ELSE "ok"
=============================================================================

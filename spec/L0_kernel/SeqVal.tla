------------------------------- MODULE SeqVal -------------------------------
(***************************************************************************)
(* Value semantics of obiseq.BioSequence for property C07.                  *)
(*                                                                          *)
(* The observable value of a sequence object is                             *)
(*    seq  : sequence of symbols                       (String())           *)
(*    qual : sequence of quality scores, <<>> = none   (Qualities())        *)
(*    mm   : set of position-bearing annotations       (pairing_mismatches) *)
(* A mismatch annotation [p, x, qx, y, qy] says: at 1-based position p the  *)
(* two reads disagreed, one read x with score qx, the other y with score qy *)
(* (the key "(X:qx)->(Y:qy)" -> p written by obialign.BuildQualityConsensus).*)
(*                                                                          *)
(* Every operation of the library is specified here as a FUNCTION on        *)
(* values.  "Copies, subsequences and reverse complements share no mutable  *)
(* state" then simply means: the value of every object is the one these     *)
(* functions give, whatever is later done to other objects (SeqHeap.tla).   *)
(***************************************************************************)
EXTENDS Bio

Val(s, q, mm) == [seq |-> s, qual |-> q, mm |-> mm]
HasQual(v) == v.qual # <<>>

WellFormed(v) ==
  /\ IsSeq(v.seq)
  /\ (v.qual = <<>> \/ Len(v.qual) = Len(v.seq))
  /\ \A m \in v.mm : m.p \in 1..Len(v.seq)
  /\ \A m1, m2 \in v.mm : (m1.x = m2.x /\ m1.qx = m2.qx /\ m1.y = m2.y /\ m1.qy = m2.qy) => m1 = m2  \* map keys

---------------------------------------------------------------------------
(* Copy *)
VCopy(v) == v

(* Reverse complement.  Symbols are complemented and reversed, qualities reversed, and a      *)
(* mismatch seen at p is seen at n+1-p on the other strand, where the complemented symbols    *)
(* (and their scores) appear in the opposite order.                                           *)
MMRC(m, n) == [p |-> n + 1 - m.p, x |-> CompFn[m.y], qx |-> m.qy, y |-> CompFn[m.x], qy |-> m.qx]
VRC(v) == [seq  |-> RC(v.seq),
           qual |-> Rev(v.qual),
           mm   |-> {MMRC(m, Len(v.seq)) : m \in v.mm}]

(* Subsequence(from, to, circular): 0-based, half open.                                       *)
(*   linear  : 0 <= from < to <= n                                                            *)
(*   circular: the window of s \o s that starts at from and stops at to  (at most one turn);   *)
(*             by convention to <= from < n denotes the window running through the origin,     *)
(*             i.e. the window from..n+to of s \o s (from = to: one full turn).                *)
SubValid(n, from, to, circ) ==
  IF circ THEN n >= 1 /\ ( (0 <= from /\ from < to /\ to <= 2 * n /\ to - from <= n)
                          \/ (0 <= to /\ to <= from /\ from < n) )
          ELSE 0 <= from /\ from < to /\ to <= n

SubLen(n, from, to) == IF from < to THEN to - from ELSE n + to - from

(* the j-th symbol of the window is the symbol at circular index from+j *)
SubIdx(n, from, j) == ((from + j - 1) % n) + 1

VSub(v, from, to) ==
  LET n == Len(v.seq)
      w == SubLen(n, from, to)
  IN [seq  |-> [j \in 1..w |-> v.seq[SubIdx(n, from, j)]],
      qual |-> IF HasQual(v) THEN [j \in 1..w |-> v.qual[SubIdx(n, from, j)]] ELSE <<>>,
      mm   |-> {[m EXCEPT !.p = j] : <<m, j>> \in {mj \in v.mm \X (1..w) : SubIdx(n, from, mj[2]) = mj[1].p}}]

(* SetSequence / SetQualities / a write through Sequence()[i] *)
VSetSeq(v, s)  == [v EXCEPT !.seq = s]
VSetQual(v, q) == [v EXCEPT !.qual = q]
VMutate(v, i, x, qx) == [v EXCEPT !.seq[i] = x, !.qual = IF HasQual(v) THEN [@ EXCEPT ![i] = qx] ELSE @]

(* Join: the receiver followed by the argument.  obiseq.Join ignores qualities, the property  *)
(* says nothing about them: Join is specified on receivers without qualities only.            *)
JoinValid(a, b) == ~HasQual(a)
VJoin(a, b) == [seq |-> a.seq \o b.seq, qual |-> <<>>, mm |-> a.mm]

---------------------------------------------------------------------------
(* Equivalent characterisations used as theorems (checked by TLC in SeqLaws.tla) *)

Win(s, from, to) == SubSeq(s, from + 1, to)                      \* s[from:to]
(* "the matching window of the sequence concatenated with itself" *)
WindowOfDouble(s, from, to) ==
  IF from < to THEN Win(s \o s, from, to) ELSE Win(s \o s, from, Len(s) + to)
(* what the implementation does: normalise, then one piece or two stitched pieces *)
Stitched(s, from, to) ==
  LET n == Len(s)
      f == from % n
      t == IF to = 0 THEN 0 ELSE ((to - 1) % n) + 1
  IN IF f < t THEN Win(s, f, t) ELSE Win(s, f, n) \o Win(s, 0, t)

(* mirrored window on the other strand *)
MirrorFrom(n, from, to) == n - to
MirrorTo(n, from, to)   == n - from
=============================================================================

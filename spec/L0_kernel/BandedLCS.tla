------------------------------- MODULE BandedLCS -------------------------------
(***************************************************************************)
(* Implementation-shaped model of obialign.FastLCSEGFScoreByte             *)
(* (pkg/obialign/fastlcsegf.go, fastlcs.go), property C09.                 *)
(*                                                                         *)
(* The code fills a banded Needleman-Wunsch matrix two anti-diagonals at a *)
(* time.  Cell (i, j), i along the shorter sequence B, j along the longer  *)
(* sequence A, lives at index x of a row of `width` words:                 *)
(*    x in 0..even-1        : i + j = 2y,     j - i = 2 (x - extra)         *)
(*    x in even..width-1    : i + j = 2y + 1, j - i = 2 (x - even - extra)+1*)
(* `previous` holds the anti-diagonals 2(y-1), 2(y-1)+1, `current` receives *)
(* 2y, 2y+1; the two slices of one scratch buffer are swapped after each y. *)
(* A cell is one unsigned word packing <in-band flag, score, inverted path  *)
(* length>, so that the integer maximum selects: in band before out of      *)
(* band, then the highest score, then the shortest path.  The first and the *)
(* last even cell of a row are flagged out of band; a final cell flagged    *)
(* out of band is answered "not found" (-1, -1).                            *)
(*                                                                         *)
(* TLC integers have 32 bits: the model packs with fields of WS = 14 bits   *)
(* (the code: 16) and a "not available" path length of 10000 (the code:     *)
(* 30000); the arithmetic (decrement = one more column, + 2^WS = one more   *)
(* match, clearing bit 2 WS = out of band) is the code's.                   *)
(*                                                                         *)
(* Nothing here is an oracle: LCSCheck checks that this model REFINES the   *)
(* contract of LCS.tla for every pair and bound of the bounded model, and   *)
(* that its answer does not depend on what the scratch buffer held before.  *)
(***************************************************************************)
EXTENDS Integers, Sequences, SequencesExt, LCS

WS == 14
P1 == 2 ^ WS                  \* one match
P2 == 2 ^ (2 * WS)            \* in-band flag
BigLen == 10000

Enc(score, len, out) == score * P1 + ((P1 - 2 - len) % P1) + (IF out THEN 0 ELSE P2)
IncPath(v)  == v - 1
IncScore(v) == v + P1
SetOut(v)   == IF v >= P2 THEN v - P2 ELSE v
Dec(v)      == <<(v \div P1) % P1, (P1 - 1) - ((v + 1) % P1), v < P2>>     \* <<score, length, out>>

Empty    == Enc(0, 0, FALSE)
OutCell  == Enc(0, BigLen, TRUE)
NotAvail == Enc(0, BigLen, FALSE)

Max3(a, b, c) == IF a >= b /\ a >= c THEN a ELSE IF b >= c THEN b ELSE c
MaxOf(S) == CHOOSE x \in S : \A y \in S : x >= y
MinOf(S) == CHOOSE x \in S : \A y \in S : x <= y

(* c: the quantities fixed for one call *)
(* one cell; odd = second half of the row; prev = previous row, cur = row being filled *)
Cell(c, y, x, odd, prev, cur) ==
  LET xx == IF odd THEN x - c.even ELSE x
      i  == y - xx + c.extra
      j  == y + xx - c.extra + (IF odd THEN 1 ELSE 0)
      stepLeft(v) == IF (i > 0 /\ i < c.lB) \/ ~c.egf THEN IncPath(v) ELSE v
      v  == IF i = 0 THEN                       \* first row: only "left" is available
              IF c.egf THEN Enc(0, 0, FALSE) ELSE Enc(0, j, FALSE)
            ELSE IF j = 0 THEN Enc(0, i, FALSE)  \* first column: only "up"
            ELSE LET d0    == IncPath(prev[x])
                     sdiag == IF Compat(c.A[j], c.B[i]) THEN IncScore(d0) ELSE d0
                     sup   == IF odd THEN IncPath(cur[x - c.even + 1])
                              ELSE IF x < c.even - 1 THEN IncPath(prev[x + c.even]) ELSE OutCell
                     sleft == IF odd THEN stepLeft(cur[x - c.even])
                              ELSE IF x > 0 THEN stepLeft(prev[x + c.even - 1]) ELSE OutCell
                 IN Max3(sdiag, sup, sleft)
  IN IF ~odd /\ (x = 0 \/ x = c.even - 1) THEN SetOut(v) ELSE v

(* for x := xs; x < xf; x++ { current[x] = ... }   (FoldLeft of SequencesExt: a native loop) *)
Fill(c, y, xs, xf, odd, prev, cur) ==
  FoldLeft(LAMBDA cu, x : [cu EXCEPT ![x] = Cell(c, y, x, odd, prev, cu)],
           cur, [k \in 1..(xf - xs) |-> xs + k - 1])

(* for y := 1; y <= N; y++ { even half; odd half; previous, current = current, previous } *)
(* the state of the loop is <<previous, current>>                                         *)
Sweep(c, N, prev0, cur0) ==
  FoldLeft(LAMBDA pc, y :
             LET prev == pc[1]
                 cur  == pc[2]
                 xs1  == MaxOf({y - c.lB + c.extra, c.extra - y, 0})
                 xf1  == MinOf({y + c.extra, c.lA + c.extra - y, c.even - 1}) + 1
                 cur1 == Fill(c, y, xs1, xf1, FALSE, prev, cur)
                 xs2  == MaxOf({y - c.lB + c.extra + c.even, c.extra - y + c.even - 1, c.even})
                 xf2  == MinOf({y + c.extra + c.even, c.lA + c.extra - y + c.even - 1, c.width - 1}) + 1
                 cur2 == Fill(c, y, xs2, xf2, TRUE, prev, cur1)
             IN <<cur2, prev>>,
           <<prev0, cur0>>, [k \in 1..N |-> k])[1]

(* a, b: the arguments in call order; e: maxError; egf: end-gap-free mode;              *)
(* stale: what every word of the scratch buffer holds when the call starts              *)
Banded(a, b, e, egf, stale) ==
  LET A     == IF Len(a) < Len(b) THEN b ELSE a         \* A is the longest
      B     == IF Len(a) < Len(b) THEN a ELSE b
      lA    == Len(A)
      lB    == Len(B)
      delta == lA - lB
      me0   == IF e = -1 THEN lA * 2 ELSE e
      me    == IF egf THEN me0 + delta ELSE me0
  IN IF delta > me THEN NotFound
     ELSE LET extra == (me - delta) + 1
              even  == 1 + delta + 2 * extra
              width == 2 * even - 1
              c     == [A |-> A, B |-> B, lA |-> lA, lB |-> lB, egf |-> egf,
                        extra |-> extra, even |-> even, width |-> width]
              prev0 == [x \in 0..(width - 1) |->
                          IF x = extra THEN Empty
                          ELSE IF x = extra + even THEN (IF egf THEN Enc(0, 0, FALSE) ELSE Enc(0, 1, FALSE))
                          ELSE IF x = extra + even - 1 THEN Enc(0, 1, FALSE)
                          ELSE stale]
              cur0  == [x \in 0..(width - 1) |-> stale]
              last  == Sweep(c, lB + (delta \div 2), prev0, cur0)
              r     == Dec(last[(delta % 2) * even + extra + (delta \div 2)])
          IN IF r[3] THEN NotFound ELSE <<r[1], r[2]>>
=============================================================================

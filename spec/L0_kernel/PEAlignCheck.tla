---------------------------- MODULE PEAlignCheck ----------------------------
(***************************************************************************)
(* Property C08 - bounded model.  One state per case, the step Compute     *)
(* evaluates the definitions of PEAlign.tla; TLC checks the specification's*)
(* own theorems on every case and Export writes what the real code is      *)
(* allowed to answer.  Three kinds of cases:                               *)
(*                                                                         *)
(*  "opt"   an arbitrary scoring (every small integer matrix, or two reads *)
(*          over two classes with a 2x2 table), both modes:                *)
(*            PathAlgebra   ToPath/Steps are inverse, every step sequence  *)
(*                          encodes to a path that consumes both reads,    *)
(*                          ScoreAlong(path) = StepScore(steps)            *)
(*            DeclAgrees    the row-fold DP = max over all step sequences  *)
(*            CountAgrees   the counting DP = number of optimal sequences  *)
(*            Mirror        swapping the reads swaps left and right        *)
(*            ZeroPath      the optimum is never below the no-overlap path *)
(*  "pair"  two tiny reads with qualities, scored with the IMPLEMENTATION'S*)
(*          own integer tables (dumped through hook H2, read from          *)
(*          VERIF_TABLE): the set of optimal (mode, path) answers with     *)
(*          their consensus and statistics is exported for replay          *)
(*            PairSane      laws of consensus and statistics               *)
(*  "fast"  two error-free reads of one fragment, 4-mer diagonal vote      *)
(*            FastLemma     if the true offset is the strict maximiser of  *)
(*                          the vote, every 4-mer of the overlap is on it  *)
(*                          (count + 3 = overlap), the vote elects it and  *)
(*                          the true path rebuilds the fragment            *)
(***************************************************************************)
EXTENDS Integers, Sequences, FiniteSets, TLC, Json, CSV, IOUtils, SequencesExt, PEAlign

CONSTANTS FreeCells,   \* "opt": every matrix over Vals for la * lb <= FreeCells
          Vals, Gaps,
          SeqMax,      \* "opt": reads over two classes up to this length, tables Tabs2
          PairMax,     \* "pair": reads up to this length over the dumped classes
          PairCells,   \* "pair": la * lb <= PairCells
          FastAlpha, FastMin, FastMax,   \* "fast": fragments over FastAlpha, FastMin..FastMax bases
          MaxAllowed   \* "pair": the allowed set is exported when it has at most this many answers

VARIABLES c, res, done
vars == <<c, res, done>>

QuickVals == {-3, 0, 2}
QuickGaps == {-1, -4}
AC  == {"a", "c"}
ACG == {"a", "c", "g"}

Tabs2 == { << <<2, -3>>, <<-3, 2>> >>, << <<2, 0>>, <<-3, 1>> >>, << <<0, 0>>, <<0, 0>> >> }

(* the implementation's tables: one line per (gap, scale) configuration *)
PT == ndJsonDeserialize(IOEnv.VERIF_TABLE)
NClasses == Len(PT[1].syms)
Thresholds == << <<1, 0, 1>>, <<2, 9, 10>> >>     \* <<min overlap, min identity numerator, denominator>>

SeqsFromTo(S, lo, hi) == UNION {[1..k -> S] : k \in lo..hi}

RECURSIVE Str(_)
Str(s) == IF s = <<>> THEN "" ELSE s[1] \o Str(Tail(s))

Init ==
  /\ res = <<>>
  /\ done = FALSE
  /\ \/ \E la \in 1..FreeCells, lb \in 1..FreeCells :
          /\ la * lb <= FreeCells
          /\ \E m \in [1..la -> [1..lb -> Vals]], g \in Gaps :
               c = [kind |-> "opt", S |-> [ca |-> PEUpto(la), cb |-> PEUpto(lb), tab |-> m, gap |-> g]]
     \/ \E a \in SeqsFromTo({1, 2}, 1, SeqMax), b \in SeqsFromTo({1, 2}, 1, SeqMax), t \in Tabs2, g \in Gaps :
          c = [kind |-> "opt", S |-> [ca |-> a, cb |-> b, tab |-> t, gap |-> g]]
     \/ \E a \in SeqsFromTo(1..NClasses, 1, PairMax), b \in SeqsFromTo(1..NClasses, 1, PairMax), k \in 1..Len(PT) :
          /\ Len(a) * Len(b) <= PairCells
          /\ c = [kind |-> "pair", ca |-> a, cb |-> b, cfg |-> k]
     \/ \E F \in SeqsFromTo(FastAlpha, FastMin, FastMax), left \in BOOLEAN, rel \in BOOLEAN :
          \E la \in 1..Len(F), lb \in 1..Len(F) :
             /\ la + lb > Len(F)
             /\ c = [kind |-> "fast", F |-> F, la |-> la, lb |-> lb, left |-> left, rel |-> rel]

---------------------------------------------------------------------------
(* "pair": reads and scoring of a case *)
PairS(x)  == [ca |-> x.ca, cb |-> x.cb, tab |-> PT[x.cfg].tab, gap |-> PT[x.cfg].gapp]
PairA(x)  == [i \in 1..Len(x.ca) |-> PT[1].syms[x.ca[i]]]
PairQA(x) == [i \in 1..Len(x.ca) |-> PT[1].quals[x.ca[i]]]
PairB(x)  == [i \in 1..Len(x.cb) |-> PT[1].syms[x.cb[i]]]
PairQB(x) == [i \in 1..Len(x.cb) |-> PT[1].quals[x.cb[i]]]

Answer(x, left, p) ==
  LET cols == Columns(p, PairA(x), PairQA(x), PairB(x), PairQB(x)) IN
  [left  |-> IF left THEN 1 ELSE 0,
   path  |-> p,
   seq   |-> Str(ConsSeq(cols)),
   qual  |-> [k \in 1..Len(cols) |-> IF ColIsGap(cols[k]) \/ cols[k][1] = cols[k][3]
                                      THEN PEMin(cols[k][2] + cols[k][4], QCap) ELSE -1],
   match |-> MatchCount(cols),
   ali   |-> AliLength(p),
   sas   |-> SeqASingle(p, left),
   sbs   |-> SeqBSingle(p, left),
   aln   |-> [t \in 1..Len(Thresholds) |->
                IF IsAlignment(p, cols, Thresholds[t][1], Thresholds[t][2], Thresholds[t][3]) THEN 1 ELSE 0]]

PairRes(x) ==
  LET S   == PairS(x)
      scL == DPOpt(S, TRUE)
      scR == DPOpt(S, FALSE)
      opt == PEMax(scL, scR)
      al  == (IF scL = opt THEN {Answer(x, TRUE, ToPath(s)) : s \in OptimalSteps(S, TRUE)} ELSE {})
             \cup (IF scR = opt THEN {Answer(x, FALSE, ToPath(s)) : s \in OptimalSteps(S, FALSE)} ELSE {})
  IN [scL |-> scL, scR |-> scR, opt |-> opt, allowed |-> al]

(* "fast": the two reads of a fragment *)
FastA(x) == IF x.left THEN Prefix(x.F, x.la) ELSE Suffix(x.F, x.la)
FastB(x) == IF x.left THEN Suffix(x.F, x.lb) ELSE Prefix(x.F, x.lb)

FastRes(x) ==
  LET v  == Vote(FastA(x), FastB(x))
      ds == TrueShift(Len(x.F), x.la, x.lb, x.left)
  IN [vote |-> v, dstar |-> ds,
      best |-> BestShifts(v, x.la, x.lb, x.rel),
      strict |-> StrictBest(v, ds, x.la, x.lb, x.rel)]

Compute ==
  /\ ~done
  /\ done' = TRUE
  /\ res' = CASE c.kind = "opt"  -> [l |-> DPOpt(c.S, TRUE), r |-> DPOpt(c.S, FALSE)]
              [] c.kind = "pair" -> PairRes(c)
              [] c.kind = "fast" -> FastRes(c)
  /\ UNCHANGED c

Next == Compute

---------------------------------------------------------------------------
(* theorems on "opt" cases *)
IsOpt == done /\ c.kind = "opt"
AllSteps == StepSeqs(SLenA(c.S), SLenB(c.S))

PathAlgebra ==
  IsOpt => \A s \in AllSteps :
             LET p == ToPath(s) IN
             /\ Consumes(p, SLenA(c.S), SLenB(c.S))
             /\ Steps(p) = s
             /\ PathCols(p) = Len(s)
             /\ \A left \in BOOLEAN : ScoreAlong(c.S, left, p) = StepScore(c.S, left, s)

DeclAgrees ==
  IsOpt => /\ res.l = DeclOpt(c.S, TRUE)
           /\ res.r = DeclOpt(c.S, FALSE)

CountAgrees ==
  IsOpt => \A left \in BOOLEAN :
             DPOptCnt(c.S, left) = <<IF left THEN res.l ELSE res.r,
                                     PEMin(2, Cardinality(OptimalSteps(c.S, left)))>>

(* the reads swapped: classes and table transposed *)
Swapped(S) == [ca |-> S.cb, cb |-> S.ca, gap |-> S.gap,
               tab |-> [y \in 1..Len(S.tab[1]) |-> [x \in 1..Len(S.tab) |-> S.tab[x][y]]]]
Mirror ==
  IsOpt => /\ DPOpt(Swapped(c.S), FALSE) = res.l
           /\ DPOpt(Swapped(c.S), TRUE) = res.r

(* all of A then all of B (left), all of B then all of A (right): no overlap, score 0 *)
ZeroPath ==
  IsOpt => LET la == SLenA(c.S)  lb == SLenB(c.S) IN
           /\ ScoreAlong(c.S, TRUE, <<-la, 0, lb, 0>>) = 0
           /\ ScoreAlong(c.S, FALSE, <<lb, 0, -la, 0>>) = 0
           /\ res.l >= 0 /\ res.r >= 0

---------------------------------------------------------------------------
(* theorems on "pair" cases *)
PairSane ==
  (done /\ c.kind = "pair") =>
     /\ res.allowed # {}
     /\ res.opt = Opt(PairS(c))
     /\ \A a \in res.allowed :
          LET left == (a.left = 1)
              cols == Columns(a.path, PairA(c), PairQA(c), PairB(c), PairQB(c))
          IN /\ Consumes(a.path, Len(c.ca), Len(c.cb))
             /\ ScoreAlong(PairS(c), left, a.path) = res.opt
             /\ Len(cols) = PathCols(a.path)
             /\ Len(cols) = a.sas + a.ali + a.sbs               \* consistent with the returned sequence
             /\ a.ali >= 0 /\ a.match <= a.ali
             /\ QualsOK(cols, [k \in 1..Len(cols) |-> IF a.qual[k] >= 0 THEN a.qual[k] ELSE 0])
             /\ \A k \in 1..Len(cols) :                          \* the higher quality wins
                  LET col == cols[k]  x == ConsBase(col) IN
                  /\ (col[2] > col[4] => x = col[1])
                  /\ (col[4] > col[2] => x = col[3])
                  /\ (col[2] = col[4] => Nuc(x) = Nuc(col[1]) \cup Nuc(col[3]))
                  /\ x \in PESym

---------------------------------------------------------------------------
(* theorems on "fast" cases *)
FastLemma ==
  (done /\ c.kind = "fast") =>
     LET L  == Len(c.F)
         o  == c.la + c.lb - L
         A  == FastA(c)   B == FastB(c)
         p  == TruePath(L, c.la, c.lb, c.left)
         q  == [k \in 1..300 |-> 30]
     IN /\ Consumes(p, c.la, c.lb)
        /\ ConsSeq(Columns(p, A, q, B, q)) = c.F                  \* the true path rebuilds the fragment
        /\ AliLength(p) = o
        /\ res.strict =>
             /\ res.best = {res.dstar}
             /\ o >= 4
             /\ OverOf(res.dstar, c.la, c.lb) = o
             /\ VoteCount(res.vote, res.dstar) = o - 3            \* every 4-mer of the overlap, no other

---------------------------------------------------------------------------
Export ==
  done =>
    CASE c.kind = "pair" ->
           LET many == Cardinality(res.allowed) > MaxAllowed IN
           CSVWrite("%1$s",
             <<ToJson([kind |-> "pair",
                       a |-> Str(PairA(c)), qa |-> PairQA(c), b |-> Str(PairB(c)), qb |-> PairQB(c),
                       gap10 |-> PT[c.cfg].gap10, scale10 |-> PT[c.cfg].scale10,
                       scL |-> res.scL, scR |-> res.scR, opt |-> res.opt,
                       many |-> IF many THEN 1 ELSE 0,
                       thr |-> Thresholds,
                       allowed |-> IF many THEN <<>> ELSE SetToSeq(res.allowed)])>>,
             IOEnv.VERIF_CASES)
      [] c.kind = "fast" ->
           CSVWrite("%1$s",
             <<ToJson([kind |-> "fast",
                       frag |-> Str(c.F), a |-> Str(FastA(c)), b |-> Str(FastB(c)),
                       left |-> IF c.left THEN 1 ELSE 0, rel |-> IF c.rel THEN 1 ELSE 0,
                       dstar |-> res.dstar, strict |-> IF res.strict THEN 1 ELSE 0,
                       best |-> SetToSeq({<<d, VoteCount(res.vote, d)>> : d \in res.best})])>>,
             IOEnv.VERIF_CASES)
      [] OTHER -> CSVWrite("%1$s", <<ToJson([kind |-> "opt"])>>, IOEnv.VERIF_CASES)   \* counted only
=============================================================================

--------------------------------- MODULE LCS ---------------------------------
(***************************************************************************)
(* L0 kernel library (property C09; reused by C13/C15): what "longest      *)
(* common subsequence score and shortest alignment achieving it" MEANS,    *)
(* for obialign.FastLCSScore / FastLCSEGFScore, and the contract of these  *)
(* kernels under an error bound.                                           *)
(*                                                                         *)
(* A sequence is a tuple of one-character strings over the IUPAC           *)
(* nucleotide alphabet (lower case: BioSequence.SetSequence lower-cases).  *)
(* Two symbols MATCH iff the sets of bases they stand for intersect.       *)
(*                                                                         *)
(* An ALIGNMENT of a and b is an order-preserving partial matching of      *)
(* their positions: k pairs (I[1],J[1]) < ... < (I[k],J[k]).  It has       *)
(*   Len(a) + Len(b) - k columns (k pair columns, the rest gap columns),   *)
(*   score = number of pairs whose symbols match.                          *)
(* The kernel answers  Best = lexicographic max of <<score, -columns>>.    *)
(*                                                                         *)
(* Two definitions are given and TLC checks that they agree (LCSCheck):    *)
(*   BestDecl / EgfDecl : literally "max over all alignments" (tiny input) *)
(*   LCSPair  / EGFPair : dynamic programming written as row folds         *)
(***************************************************************************)
EXTENDS Integers, Sequences, FiniteSets, SequencesExt

Bases == {"a", "c", "g", "t"}
Sym   == {"a", "c", "g", "t", "u", "r", "y", "s", "w", "k", "m", "b", "d", "h", "v", "n"}

(* IUPAC-IUB nucleotide codes (Cornish-Bowden 1985) *)
Iupac(x) ==
  CASE x = "a" -> {"a"}            [] x = "c" -> {"c"}
    [] x = "g" -> {"g"}            [] x = "t" -> {"t"}           [] x = "u" -> {"t"}
    [] x = "r" -> {"a", "g"}       [] x = "y" -> {"c", "t"}
    [] x = "s" -> {"c", "g"}       [] x = "w" -> {"a", "t"}
    [] x = "k" -> {"g", "t"}       [] x = "m" -> {"a", "c"}
    [] x = "b" -> {"c", "g", "t"}  [] x = "d" -> {"a", "g", "t"}
    [] x = "h" -> {"a", "c", "t"}  [] x = "v" -> {"a", "c", "g"}
    [] x = "n" -> {"a", "c", "g", "t"}

MatchTab == [x \in Sym |-> {y \in Sym : Iupac(x) \cap Iupac(y) # {}}]   \* evaluated once
Compat(x, y) == y \in MatchTab[x]

---------------------------------------------------------------------------
(* order on answers: higher score first, then fewer columns *)
Better(x, y) == IF x[1] > y[1] THEN x ELSE IF x[1] < y[1] THEN y ELSE IF x[2] <= y[2] THEN x ELSE y
Geq(x, y)    == x[1] > y[1] \/ (x[1] = y[1] /\ x[2] <= y[2])

---------------------------------------------------------------------------
(* declarative definitions (exponential: tiny inputs only) *)

RECURSIVE Sorted(_)
Sorted(S) == IF S = {} THEN <<>>
             ELSE LET m == CHOOSE x \in S : \A y \in S : x <= y IN <<m>> \o Sorted(S \ {m})

(* all alignments: equally many positions chosen in a and in b, paired in order *)
Matchings(la, lb) == {M \in (SUBSET (1..la)) \X (SUBSET (1..lb)) : Cardinality(M[1]) = Cardinality(M[2])}

MScore(a, b, I, J) == Cardinality({m \in 1..Len(I) : Compat(a[I[m]], b[J[m]])})

BestOf(V) == CHOOSE v \in V : \A w \in V : Geq(v, w)

BestDecl(a, b) ==
  BestOf({ LET I == Sorted(M[1])  J == Sorted(M[2])
           IN  <<MScore(a, b, I, J), Len(a) + Len(b) - Len(I)>> : M \in Matchings(Len(a), Len(b)) })

(* End-gap-free variant: L is the longer sequence, S the shorter one; the columns of L that *)
(* precede everything of S and those that follow everything of S (the overhang of L) are    *)
(* not counted.  Gap columns between two pair columns may be written in any order, so with  *)
(* the most favourable order an alignment with pairs I (in L), J (in S), k = |I| >= 1 has   *)
(*   (|L|+|S|-k) - (I[1]-1) - (|L|-I[k])  =  |S| + (I[k]-I[1]+1) - k   counted columns,     *)
(* and the empty alignment has |S| of them.                                                 *)
EgfDecl(L, S) ==
  BestOf({ LET I == Sorted(M[1])  J == Sorted(M[2])  k == Len(I)
           IN  <<MScore(L, S, I, J),
                 IF k = 0 THEN Len(S) ELSE Len(S) + (I[k] - I[1] + 1) - k>> : M \in Matchings(Len(L), Len(S)) })

---------------------------------------------------------------------------
(* dynamic programming as row folds.  FoldLeft(op, base, seq) = op(...op(op(base, seq[1]), seq[2])..., *)
(* seq[n]) (CommunityModules SequencesExt, evaluated natively by TLC: recursive operators cost ten  *)
(* times more and TLC does not memoise recursive functions).  A row is a tuple indexed             *)
(* 1..Len(b)+1, element j+1 = cell (i, j) = <<best score, fewest columns>> for a[1..i], b[1..j].   *)

Upto(n) == [k \in 1..n |-> k]

(* row i from row i-1 (prev); m = the symbols matching a[i] *)
NextRow(m, b, prev, i) ==
  FoldLeft(LAMBDA acc, j :
             LET diag == <<prev[j][1] + (IF b[j] \in m THEN 1 ELSE 0), prev[j][2] + 1>>
                 up   == <<prev[j + 1][1], prev[j + 1][2] + 1>>
                 left == <<acc[j][1], acc[j][2] + 1>>
             IN Append(acc, Better(diag, Better(up, left))),
           << <<0, i>> >>, Upto(Len(b)))

(* <<LCS length, number of columns of the shortest alignment with that many matches>> *)
LCSPair(a, b) ==
  FoldLeft(LAMBDA prev, i : NextRow(MatchTab[a[i]], b, prev, i),
           [j \in 1..(Len(b) + 1) |-> <<0, j - 1>>], Upto(Len(a)))[Len(b) + 1]

(* end-gap-free: rows run over S (short), columns over L (long); the first row costs nothing   *)
(* (leading overhang of L), moving along the last row costs nothing (trailing overhang of L)   *)
EgfNextRow(m, L, prev, i, inner) ==          \* inner: i < Len(S)
  FoldLeft(LAMBDA acc, j :
             LET diag == <<prev[j][1] + (IF L[j] \in m THEN 1 ELSE 0), prev[j][2] + 1>>
                 up   == <<prev[j + 1][1], prev[j + 1][2] + 1>>
                 left == <<acc[j][1], acc[j][2] + (IF inner THEN 1 ELSE 0)>>
             IN Append(acc, Better(diag, Better(up, left))),
           << <<0, i>> >>, Upto(Len(L)))

EGFPair(L, S) ==
  FoldLeft(LAMBDA prev, i : EgfNextRow(MatchTab[S[i]], L, prev, i, i < Len(S)),
           [j \in 1..(Len(L) + 1) |-> <<0, 0>>], Upto(Len(S)))[Len(L) + 1]

(* The real kernel lets its FIRST argument play the longer part when the lengths are equal. *)
(* Which one does is not part of the property: both orientations are acceptable then.       *)
EgfOriented(a, b) == IF Len(a) >= Len(b) THEN EGFPair(a, b) ELSE EGFPair(b, a)
EgfAllowed(a, b)  == IF Len(a) = Len(b) THEN {EGFPair(a, b), EGFPair(b, a)} ELSE {EgfOriented(a, b)}

---------------------------------------------------------------------------
(* contract of the kernel for an error bound e (-1: no bound) *)

NotFound == <<-1, -1>>
Err(p) == p[2] - p[1]                          \* number of differences implied by an answer
Within(best, e) == e = -1 \/ Err(best) <= e

(* res: the pair returned by the kernel; best: the exact answer *)
Conforms(res, best, e) ==
  IF Within(best, e) THEN res = best
  ELSE res = NotFound \/ (res[1] >= 0 /\ Err(res) > e)      \* never a spurious within-bound pair

(* the same as an explicit description for the replay harness:                   *)
(* <<s, l, m>>: the answer must be <<s, l>>, or (when m >= 0) any pair with      *)
(* s' >= 0 and l' - s' >= m                                                      *)
Expect(best, e) == IF Within(best, e) THEN <<best[1], best[2], -1>> ELSE <<-1, -1, e + 1>>

(* why an answer is rejected ("ok" otherwise) *)
Judge(res, best, e) ==
  IF Conforms(res, best, e) THEN "ok"
  ELSE IF Within(best, e) THEN "exact_within_bound" ELSE "spurious_beyond_bound"
=============================================================================

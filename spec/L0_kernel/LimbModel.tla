------------------------------ MODULE LimbModel ------------------------------
(***************************************************************************)
(* Limb-shaped arithmetic (property C20): the way pkg/obifp computes.      *)
(*                                                                         *)
(* A number is a sequence of K limbs, least significant limb first; a limb *)
(* is a NATIVE integer in 0..B-1 with B = 2^L.  Operations are chained     *)
(* over the limbs with carry / borrow / high-product words exactly like    *)
(* Uint64.Add64/Sub64/Mul64/LeftShift64/RightShift64 chained by Uint128    *)
(* and Uint256 (there L = 64).  Everything is parametric in L.             *)
(*                                                                         *)
(* BitVecLaws.tla has TLC check, for small limbs (L*K <= 8 for all operand *)
(* pairs, L*K = 16 for all operands of the shifts and boundary pairs),     *)
(* that every operator below equals the bit-level definition of BitVec on  *)
(* the same value -- in particular for every shift amount 0..W+L, the      *)
(* place where "shift by one limb or more" mistakes show.                  *)
(* With L = 8 the limbs are the bytes in which operands travel between the *)
(* harness and TLC; ObiFp.tla evaluates 64/128/256-bit operations with     *)
(* these operators (TLC cannot hold such numbers natively, and the         *)
(* bit-level ripple adder costs 256 interpreted steps per addition).       *)
(***************************************************************************)
EXTENDS BitVec

RECURSIVE P2(_)
P2(n) == IF n = 0 THEN 1 ELSE 2 * P2(n - 1)                 \* n <= 30

(* limbs <-> bits (the meaning of a limb sequence) *)
LimbBits(x, L) == [i \in 1..(L * Len(x)) |-> (x[(i - 1) \div L + 1] \div P2((i - 1) % L)) % 2]
BitLimbs(a, L) == [j \in 1..(Len(a) \div L) |-> ToNat(SubSeq(a, L * (j - 1) + 1, L * j))]
NatLimbs(v, L, K) == [j \in 1..K |-> (v \div P2(L * (j - 1))) % P2(L)]    \* v native, L*K <= 30

LZero(K) == [j \in 1..K |-> 0]
LIsZero(x) == \A j \in 1..Len(x) : x[j] = 0

---------------------------------------------------------------------------
(* Add64 / Sub64 chained through the limbs *)
RECURSIVE LAddR(_, _, _, _, _)
LAddR(x, y, c, B, acc) ==
  LET j == Len(acc) + 1 IN
  IF j > Len(x) THEN [v |-> acc, c |-> c]
  ELSE LET s == x[j] + y[j] + c IN LAddR(x, y, s \div B, B, Append(acc, s % B))
LAddC(x, y, cin, L) == LAddR(x, y, cin, P2(L), <<>>)      \* v = low limbs, c = carry out (overflow)
LAdd(x, y, L) == LAddC(x, y, 0, L)

RECURSIVE LSubR(_, _, _, _, _)
LSubR(x, y, c, B, acc) ==
  LET j == Len(acc) + 1 IN
  IF j > Len(x) THEN [v |-> acc, c |-> c]
  ELSE LET d == x[j] - y[j] - c IN
       LSubR(x, y, IF d < 0 THEN 1 ELSE 0, B, Append(acc, IF d < 0 THEN d + B ELSE d))
LSubC(x, y, bin, L) == LSubR(x, y, bin, P2(L), <<>>)      \* c = borrow out (underflow)
LSub(x, y, L) == LSubC(x, y, 0, L)

---------------------------------------------------------------------------
(* schoolbook multiplication: one row per limb of y; a row is a chain of    *)
(* Mul64 (hi, lo) + Add64.  hi = running upper K limbs, lo = finished limbs *)
RECURSIVE LRow(_, _, _, _, _, _)
LRow(x, d, hi, c, B, acc) ==             \* acc = low limbs of hi + x*d so far, c = carry limb
  LET j == Len(acc) + 1 IN
  IF j > Len(x) THEN Append(acc, c)      \* K+1 limbs
  ELSE LET t == x[j] * d + hi[j] + c IN LRow(x, d, hi, t \div B, B, Append(acc, t % B))

RECURSIVE LMulR(_, _, _, _, _, _)
LMulR(x, y, i, hi, lo, B) ==
  IF i > Len(y) THEN [v |-> lo, h |-> hi, ovf |-> ~LIsZero(hi)]
  ELSE LET t == IF y[i] = 0 THEN Append(hi, 0) ELSE LRow(x, y[i], hi, 0, B, <<>>)
       IN LMulR(x, y, i + 1, Tail(t), Append(lo, t[1]), B)
(* x*y = v + B^K * h ;  ovf <=> the exact product does not fit K limbs *)
LMul(x, y, L) == LMulR(Force(x), y, 1, Force(LZero(Len(x))), <<>>, P2(L))

---------------------------------------------------------------------------
(* comparison from the most significant limb *)
RECURSIVE LCmpFrom(_, _, _)
LCmpFrom(x, y, j) ==
  IF j = 0 THEN 0 ELSE IF x[j] > y[j] THEN 1 ELSE IF x[j] < y[j] THEN -1 ELSE LCmpFrom(x, y, j - 1)
LCmp(x, y) == LCmpFrom(x, y, Len(x))

---------------------------------------------------------------------------
(* shifts by any n >= 0: move n \div L whole limbs, then shift by n % L with *)
(* the bits leaving one limb carried into the next                           *)
LShl(x, n, L) ==
  LET q == n \div L  s == n % L  B == P2(L) IN
  [j \in 1..Len(x) |->
     IF j - q < 1 THEN 0
     ELSE ((x[j - q] * P2(s)) % B) + (IF j - q - 1 >= 1 THEN x[j - q - 1] \div P2(L - s) ELSE 0)]
LShr(x, n, L) ==
  LET q == n \div L  s == n % L  B == P2(L) IN
  [j \in 1..Len(x) |->
     IF j + q > Len(x) THEN 0
     ELSE (x[j + q] \div P2(s)) + (IF j + q + 1 <= Len(x) THEN (x[j + q + 1] * P2(L - s)) % B ELSE 0)]

(* the code's own shape: LeftShift64 / RightShift64 of ONE limb with carry-in *)
(* and carry-out words, five branches as in uint64.go, chained by the wider   *)
(* types.  The chain is right for shift amounts below one limb; the 2-limb    *)
(* type also relies on the n = L and L < n < 2L branches; the 4-limb type     *)
(* moves whole limbs first.                                                   *)
LS64(u, n, cin, L) ==                                      \* <<value, carry>>
  LET B == P2(L) IN
  IF n = 0 THEN <<u, 0>>
  ELSE IF n < L THEN <<((u * P2(n)) % B) + (cin % P2(n)), u \div P2(L - n)>>
  ELSE IF n = L THEN <<cin, u>>
  ELSE IF n < 2 * L THEN <<cin, (u * P2(n - L)) % B>>
  ELSE <<0, 0>>
RS64(u, n, cin, L) ==
  LET B == P2(L) IN
  IF n = 0 THEN <<u, 0>>
  ELSE IF n < L THEN <<(u \div P2(n)) + (cin - (cin % P2(L - n))), (u * P2(L - n)) % B>>
  ELSE IF n = L THEN <<cin, u>>
  ELSE IF n < 2 * L THEN <<cin, u \div P2(n - L)>>
  ELSE <<0, 0>>

RECURSIVE ChainUp(_, _, _, _, _)         \* from limb 1 upwards (left shift)
ChainUp(x, n, c, L, acc) ==
  LET j == Len(acc) + 1 IN
  IF j > Len(x) THEN acc
  ELSE LET r == LS64(x[j], n, c, L) IN ChainUp(x, n, r[2], L, Append(acc, r[1]))
RECURSIVE ChainDown(_, _, _, _, _)       \* from the top limb downwards (right shift)
ChainDown(x, n, c, L, acc) ==
  LET j == Len(x) - Len(acc) IN
  IF j < 1 THEN acc
  ELSE LET r == RS64(x[j], n, c, L) IN ChainDown(x, n, r[2], L, <<r[1]>> \o acc)

MoveUp(x, q)   == [j \in 1..Len(x) |-> IF j - q >= 1 THEN x[j - q] ELSE 0]
MoveDown(x, q) == [j \in 1..Len(x) |-> IF j + q <= Len(x) THEN x[j + q] ELSE 0]

CodeShl(x, n, L) ==
  IF Len(x) <= 2 THEN ChainUp(x, n, 0, L, <<>>)
  ELSE IF n >= L * Len(x) THEN LZero(Len(x))
  ELSE ChainUp(Force(MoveUp(x, n \div L)), n % L, 0, L, <<>>)
CodeShr(x, n, L) ==
  IF Len(x) <= 2 THEN ChainDown(x, n, 0, L, <<>>)
  ELSE IF n >= L * Len(x) THEN LZero(Len(x))
  ELSE ChainDown(Force(MoveDown(x, n \div L)), n % L, 0, L, <<>>)

---------------------------------------------------------------------------
(* bitwise operations limb by limb, through 4-bit tables derived from BitVec *)
Nib == 0..15
AndTab == [p \in Nib |-> [q \in Nib |-> ToNat(Force(And(FromNat(p, 4), FromNat(q, 4))))]]
OrTab  == [p \in Nib |-> [q \in Nib |-> ToNat(Force(Or(FromNat(p, 4), FromNat(q, 4))))]]
XorTab == [p \in Nib |-> [q \in Nib |-> ToNat(Force(Xor(FromNat(p, 4), FromNat(q, 4))))]]
RECURSIVE LimbOp(_, _, _, _)
LimbOp(T, p, q, L) == IF L <= 4 THEN T[p][q]
                      ELSE T[p % 16][q % 16] + 16 * LimbOp(T, p \div 16, q \div 16, L - 4)
LAnd(x, y, L) == [j \in 1..Len(x) |-> LimbOp(AndTab, x[j], y[j], L)]
LOr(x, y, L)  == [j \in 1..Len(x) |-> LimbOp(OrTab, x[j], y[j], L)]
LXor(x, y, L) == [j \in 1..Len(x) |-> LimbOp(XorTab, x[j], y[j], L)]
LNot(x, L)    == [j \in 1..Len(x) |-> P2(L) - 1 - x[j]]

---------------------------------------------------------------------------
(* restoring division, one bit of x at a time (y # 0):  x = q*y + r, r < y *)
LBit(x, i, L) == (x[(i - 1) \div L + 1] \div P2((i - 1) % L)) % 2          \* bit i (from 1) of x
RECURSIVE TopLimb(_, _)
TopLimb(x, j) == IF j = 0 THEN 0 ELSE IF x[j] # 0 THEN j ELSE TopLimb(x, j - 1)
RECURSIVE TopBit(_, _)
TopBit(v, k) == IF v = 0 THEN k ELSE TopBit(v \div 2, k + 1)                \* bit length of v
LMsb(x, L) == LET j == TopLimb(x, Len(x)) IN IF j = 0 THEN 0 ELSE L * (j - 1) + TopBit(x[j], 0)

RECURSIVE LDivR(_, _, _, _, _, _)
LDivR(x, yx, i, r, q, L) ==              \* yx = y with one more (zero) limb, r has Len(x)+1 limbs
  IF i = 0 THEN [q |-> q, r |-> SubSeq(r, 1, Len(x))]
  ELSE LET B  == P2(L)
           r2 == [j \in 1..Len(r) |-> ((2 * r[j]) % B) + (IF j = 1 THEN LBit(x, i, L) ELSE r[j - 1] \div (B \div 2))]
           d  == LSub(r2, yx, L)
       IN IF d.c = 0
            THEN LDivR(x, yx, i - 1, d.v, [q EXCEPT ![(i - 1) \div L + 1] = @ + P2((i - 1) % L)], L)
            ELSE LDivR(x, yx, i - 1, Force(r2), q, L)
LDivMod(x, y, L) ==
  LDivR(x, Append(Force(y), 0), LMsb(x, L), Force(LZero(Len(x) + 1)), Force(LZero(Len(x))), L)

(* the defining property of Euclidean division, used to VERIFY a (q, r) pair  *)
(* cheaply (one multiplication) instead of computing it:  x = q*y + r, r < y  *)
LIsDivMod(x, y, q, r, L) ==
  LET p == LMul(q, y, L)
      s == LAdd(p.v, r, L)
  IN ~p.ovf /\ s.c = 0 /\ s.v = Force(x) /\ LCmp(r, y) < 0

---------------------------------------------------------------------------
(* casts at whole-limb granularity *)
LTrunc(x, K) == SubSeq(x, 1, K)
LZExt(x, K)  == [j \in 1..K |-> IF j <= Len(x) THEN x[j] ELSE 0]
LFits(x, K)  == \A j \in (K + 1)..Len(x) : x[j] = 0
LCast(x, K)  == IF K <= Len(x) THEN LTrunc(x, K) ELSE LZExt(x, K)

(* single-word shift with carry-in / carry-out as documented for              *)
(* Uint64.LeftShift64 / RightShift64, 0 <= n <= width:                        *)
(*   left : value = x << n with the n vacated low bits taken from cin,        *)
(*          carry = the n bits moved out, right-aligned                       *)
(*   right: value = x >> n with the n vacated high bits taken from cin,       *)
(*          carry = the n bits moved out, left-aligned                        *)
LShlIn(x, n, cin, L) ==
  LET w == L * Len(x) IN
  [v |-> LOr(LShl(x, n, L), LShr(LShl(cin, w - n, L), w - n, L), L), c |-> LShr(x, w - n, L)]
LShrIn(x, n, cin, L) ==
  LET w == L * Len(x) IN
  [v |-> LOr(LShr(x, n, L), LShl(LShr(cin, w - n, L), w - n, L), L), c |-> LShl(x, w - n, L)]
=============================================================================

------------------------------ MODULE LimbModel ------------------------------
(***************************************************************************)
(* Limb-shaped arithmetic (property C20): the way pkg/obifp computes.      *)
(*                                                                         *)
(* A number is a sequence of K limbs, least significant limb first; a limb *)
(* is a NATIVE integer in 0..B-1 with B = 2^L.  Operations are chained     *)
(* over the limbs with carry / borrow / high-product words exactly like    *)
(* Uint64.Add64/Sub64/Mul64/LeftShift64/RightShift64 chained by Uint128    *)
(* and Uint256 (there L = 64).  Everything is parametric in L.             *)
(*                                                                         *)
(* BitVecLaws.tla has TLC check, for small limbs (L*K <= 8 for all operand *)
(* pairs, L*K = 16 for all operands of the shifts and boundary pairs),     *)
(* that every operator below equals the bit-level definition of BitVec on  *)
(* the same value -- in particular for every shift amount 0..W+L, the      *)
(* place where "shift by one limb or more" mistakes show.                  *)
(* With L = 8 the limbs are the bytes in which operands travel between the *)
(* harness and TLC; ObiFp.tla evaluates 64/128/256-bit operations with     *)
(* these operators (TLC cannot hold such numbers natively, and the         *)
(* bit-level ripple adder costs 256 interpreted steps per addition).       *)
(***************************************************************************)
EXTENDS BitVec, SequencesExt

RECURSIVE P2(_)
P2(n) == IF n = 0 THEN 1 ELSE 2 * P2(n - 1)                 \* n <= 30

(* limbs <-> bits (the meaning of a limb sequence) *)
LimbBits(x, L) == [i \in 1..(L * Len(x)) |-> (x[(i - 1) \div L + 1] \div P2((i - 1) % L)) % 2]
BitLimbs(a, L) == [j \in 1..(Len(a) \div L) |-> ToNat(SubSeq(a, L * (j - 1) + 1, L * j))]
NatLimbs(v, L, K) == [j \in 1..K |-> (v \div P2(L * (j - 1))) % P2(L)]    \* v native, L*K <= 30

LZero(K) == [j \in 1..K |-> 0]
LIsZero(x) == \A j \in 1..Len(x) : x[j] = 0

---------------------------------------------------------------------------
(* The chains below are folds over the limb positions (FoldLeft of the       *)
(* CommunityModules: a loop, so that TLC's evaluation stack stays shallow).   *)
Idx(n) == [j \in 1..n |-> j]

(* Add64 / Sub64 chained through the limbs: state <<carry, limbs so far>> *)
LAddC(x, y, cin, L) ==
  LET B == P2(L)
      step(st, j) == LET s == x[j] + y[j] + st[1] IN <<s \div B, Append(st[2], s % B)>>
      r == FoldLeft(step, <<cin, <<>>>>, Idx(Len(x)))
  IN [v |-> r[2], c |-> r[1]]                              \* v = low limbs, c = carry out (overflow)
LAdd(x, y, L) == LAddC(x, y, 0, L)

LSubC(x, y, bin, L) ==
  LET B == P2(L)
      step(st, j) == LET d == x[j] - y[j] - st[1] IN
                     IF d < 0 THEN <<1, Append(st[2], d + B)>> ELSE <<0, Append(st[2], d)>>
      r == FoldLeft(step, <<bin, <<>>>>, Idx(Len(x)))
  IN [v |-> r[2], c |-> r[1]]                              \* c = borrow out (underflow)
LSub(x, y, L) == LSubC(x, y, 0, L)

---------------------------------------------------------------------------
(* schoolbook multiplication: one row per limb of y; a row is a chain of    *)
(* Mul64 (hi, lo) + Add64.  hi = running upper K limbs, lo = finished limbs *)
LRow(x, d, hi, B) ==                     \* hi + x*d on K+1 limbs
  LET step(st, j) == LET t == x[j] * d + hi[j] + st[1] IN <<t \div B, Append(st[2], t % B)>>
      r == FoldLeft(step, <<0, <<>>>>, Idx(Len(x)))
  IN Append(r[2], r[1])

(* x*y = v + B^K * h ;  ovf <=> the exact product does not fit K limbs *)
LMul(x, y, L) ==
  LET B == P2(L)
      X == Force(x)
      step(st, i) ==                     \* st = <<hi, lo>>
        LET t == IF y[i] = 0 THEN Append(st[1], 0) ELSE LRow(X, y[i], st[1], B)
        IN <<Tail(t), Append(st[2], t[1])>>
      r == FoldLeft(step, <<Force(LZero(Len(x))), <<>>>>, Idx(Len(y)))
  IN [v |-> r[2], h |-> r[1], ovf |-> ~LIsZero(r[1])]

---------------------------------------------------------------------------
(* comparison from the most significant limb *)
RECURSIVE LCmpFrom(_, _, _)
LCmpFrom(x, y, j) ==
  IF j = 0 THEN 0 ELSE IF x[j] > y[j] THEN 1 ELSE IF x[j] < y[j] THEN -1 ELSE LCmpFrom(x, y, j - 1)
LCmp(x, y) == LCmpFrom(x, y, Len(x))

---------------------------------------------------------------------------
(* shifts by any n >= 0: move n \div L whole limbs, then shift by n % L with *)
(* the bits leaving one limb carried into the next                           *)
LShl(x, n, L) ==
  LET q == n \div L  s == n % L  B == P2(L) IN
  [j \in 1..Len(x) |->
     IF j - q < 1 THEN 0
     ELSE ((x[j - q] * P2(s)) % B) + (IF j - q - 1 >= 1 THEN x[j - q - 1] \div P2(L - s) ELSE 0)]
LShr(x, n, L) ==
  LET q == n \div L  s == n % L  B == P2(L) IN
  [j \in 1..Len(x) |->
     IF j + q > Len(x) THEN 0
     ELSE (x[j + q] \div P2(s)) + (IF j + q + 1 <= Len(x) THEN (x[j + q + 1] * P2(L - s)) % B ELSE 0)]

(* the code's own shape: LeftShift64 / RightShift64 of ONE limb with carry-in *)
(* and carry-out words, five branches as in uint64.go, chained by the wider   *)
(* types.  The chain is right for shift amounts below one limb; the 2-limb    *)
(* type also relies on the n = L and L < n < 2L branches; the 4-limb type     *)
(* moves whole limbs first.                                                   *)
LS64(u, n, cin, L) ==                                      \* <<value, carry>>
  LET B == P2(L) IN
  IF n = 0 THEN <<u, 0>>
  ELSE IF n < L THEN <<((u * P2(n)) % B) + (cin % P2(n)), u \div P2(L - n)>>
  ELSE IF n = L THEN <<cin, u>>
  ELSE IF n < 2 * L THEN <<cin, (u * P2(n - L)) % B>>
  ELSE <<0, 0>>
RS64(u, n, cin, L) ==
  LET B == P2(L) IN
  IF n = 0 THEN <<u, 0>>
  ELSE IF n < L THEN <<(u \div P2(n)) + (cin - (cin % P2(L - n))), (u * P2(L - n)) % B>>
  ELSE IF n = L THEN <<cin, u>>
  ELSE IF n < 2 * L THEN <<cin, u \div P2(n - L)>>
  ELSE <<0, 0>>

RECURSIVE ChainUp(_, _, _, _, _)         \* from limb 1 upwards (left shift)
ChainUp(x, n, c, L, acc) ==
  LET j == Len(acc) + 1 IN
  IF j > Len(x) THEN acc
  ELSE LET r == LS64(x[j], n, c, L) IN ChainUp(x, n, r[2], L, Append(acc, r[1]))
RECURSIVE ChainDown(_, _, _, _, _)       \* from the top limb downwards (right shift)
ChainDown(x, n, c, L, acc) ==
  LET j == Len(x) - Len(acc) IN
  IF j < 1 THEN acc
  ELSE LET r == RS64(x[j], n, c, L) IN ChainDown(x, n, r[2], L, <<r[1]>> \o acc)

MoveUp(x, q)   == [j \in 1..Len(x) |-> IF j - q >= 1 THEN x[j - q] ELSE 0]
MoveDown(x, q) == [j \in 1..Len(x) |-> IF j + q <= Len(x) THEN x[j + q] ELSE 0]

CodeShl(x, n, L) ==
  IF Len(x) <= 2 THEN ChainUp(x, n, 0, L, <<>>)
  ELSE IF n >= L * Len(x) THEN LZero(Len(x))
  ELSE ChainUp(Force(MoveUp(x, n \div L)), n % L, 0, L, <<>>)
CodeShr(x, n, L) ==
  IF Len(x) <= 2 THEN ChainDown(x, n, 0, L, <<>>)
  ELSE IF n >= L * Len(x) THEN LZero(Len(x))
  ELSE ChainDown(Force(MoveDown(x, n \div L)), n % L, 0, L, <<>>)

---------------------------------------------------------------------------
(* bitwise operations limb by limb, through 4-bit tables derived from BitVec *)
Nib == 0..15
AndTab == [p \in Nib |-> [q \in Nib |-> ToNat(Force(And(FromNat(p, 4), FromNat(q, 4))))]]
OrTab  == [p \in Nib |-> [q \in Nib |-> ToNat(Force(Or(FromNat(p, 4), FromNat(q, 4))))]]
XorTab == [p \in Nib |-> [q \in Nib |-> ToNat(Force(Xor(FromNat(p, 4), FromNat(q, 4))))]]
RECURSIVE LimbOp(_, _, _, _)
LimbOp(T, p, q, L) == IF L <= 4 THEN T[p][q]
                      ELSE T[p % 16][q % 16] + 16 * LimbOp(T, p \div 16, q \div 16, L - 4)
LAnd(x, y, L) == [j \in 1..Len(x) |-> LimbOp(AndTab, x[j], y[j], L)]
LOr(x, y, L)  == [j \in 1..Len(x) |-> LimbOp(OrTab, x[j], y[j], L)]
LXor(x, y, L) == [j \in 1..Len(x) |-> LimbOp(XorTab, x[j], y[j], L)]
LNot(x, L)    == [j \in 1..Len(x) |-> P2(L) - 1 - x[j]]

---------------------------------------------------------------------------
(* restoring division, one bit of x at a time (y # 0):  x = q*y + r, r < y *)
LBit(x, i, L) == (x[(i - 1) \div L + 1] \div P2((i - 1) % L)) % 2          \* bit i (from 1) of x
RECURSIVE TopLimb(_, _)
TopLimb(x, j) == IF j = 0 THEN 0 ELSE IF x[j] # 0 THEN j ELSE TopLimb(x, j - 1)
RECURSIVE TopBit(_, _)
TopBit(v, k) == IF v = 0 THEN k ELSE TopBit(v \div 2, k + 1)                \* bit length of v
LMsb(x, L) == LET j == TopLimb(x, Len(x)) IN IF j = 0 THEN 0 ELSE L * (j - 1) + TopBit(x[j], 0)

LDivMod(x, y, L) ==
  LET B  == P2(L)
      h  == B \div 2
      X  == Force(x)
      yx == Append(Force(y), 0)          \* y with one more (zero) limb; r has Len(x)+1 limbs
      m  == LMsb(X, L)
      step(st, i) ==                     \* st = <<r, q>>, bit i of x is brought down
        LET r   == st[1]
            bit == LBit(X, i, L)
            r2  == Force([j \in 1..Len(r) |-> ((2 * r[j]) % B) + (IF j = 1 THEN bit ELSE r[j - 1] \div h)])
            d   == LSub(r2, yx, L)
        IN IF d.c = 0 THEN <<d.v, [st[2] EXCEPT ![(i - 1) \div L + 1] = @ + P2((i - 1) % L)]>>
                      ELSE <<r2, st[2]>>
      res == FoldLeft(step, <<Force(LZero(Len(x) + 1)), Force(LZero(Len(x)))>>, [t \in 1..m |-> m - t + 1])
  IN [q |-> res[2], r |-> SubSeq(res[1], 1, Len(x))]

(* the defining property of Euclidean division, used to VERIFY a (q, r) pair  *)
(* cheaply (one multiplication) instead of computing it:  x = q*y + r, r < y  *)
LIsDivMod(x, y, q, r, L) ==
  LET p == LMul(q, y, L)
      s == LAdd(p.v, r, L)
  IN ~p.ovf /\ s.c = 0 /\ s.v = Force(x) /\ LCmp(r, y) < 0

---------------------------------------------------------------------------
(* casts at whole-limb granularity *)
LTrunc(x, K) == SubSeq(x, 1, K)
LZExt(x, K)  == [j \in 1..K |-> IF j <= Len(x) THEN x[j] ELSE 0]
LFits(x, K)  == \A j \in (K + 1)..Len(x) : x[j] = 0
LCast(x, K)  == IF K <= Len(x) THEN LTrunc(x, K) ELSE LZExt(x, K)

(* single-word shift with carry-in / carry-out as documented for              *)
(* Uint64.LeftShift64 / RightShift64, 0 <= n <= width:                        *)
(*   left : value = x << n with the n vacated low bits taken from cin,        *)
(*          carry = the n bits moved out, right-aligned                       *)
(*   right: value = x >> n with the n vacated high bits taken from cin,       *)
(*          carry = the n bits moved out, left-aligned                        *)
LShlIn(x, n, cin, L) ==
  LET w == L * Len(x) IN
  [v |-> LOr(LShl(x, n, L), LShr(LShl(cin, w - n, L), w - n, L), L), c |-> LShr(x, w - n, L)]
LShrIn(x, n, cin, L) ==
  LET w == L * Len(x) IN
  [v |-> LOr(LShr(x, n, L), LShl(LShr(cin, w - n, L), w - n, L), L), c |-> LShl(x, w - n, L)]
=============================================================================

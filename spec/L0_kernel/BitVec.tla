------------------------------- MODULE BitVec -------------------------------
(***************************************************************************)
(* Exact arithmetic on fixed-width unsigned integers (property C20).       *)
(*                                                                         *)
(* TLC's integers are 32-bit Java ints, so a 64/128/256-bit value is never *)
(* held as a number.  A W-bit unsigned integer is a sequence of W bits,    *)
(* least significant bit first:  value(a) = SUM a[i] * 2^(i-1).            *)
(* Every operation is DEFINED on such sequences; the width is Len(a).      *)
(* The only native arithmetic used is on numbers <= 3 (one full adder /    *)
(* full subtractor cell) and on bit positions.                             *)
(*                                                                         *)
(* The definitions are validated by BitVecLaws.tla: at W = 8 every operand *)
(* pair is compared with TLC's native integer arithmetic.                  *)
(***************************************************************************)
EXTENDS Integers, Sequences

Bit == {0, 1}
Zero(w)    == [i \in 1..w |-> 0]
AllOnes(w) == [i \in 1..w |-> 1]
One(w)     == [i \in 1..w |-> IF i = 1 THEN 1 ELSE 0]
IsZero(a)  == \A i \in 1..Len(a) : a[i] = 0

(* materialise a lazily defined function as a plain tuple (TLC evaluates    *)
(* [i \in S |-> e] lazily; chains of lazy values would be re-evaluated)     *)
Force(a) == SubSeq(a, 1, Len(a))

---------------------------------------------------------------------------
(* bitwise operations *)
And(a, b) == [i \in 1..Len(a) |-> IF a[i] = 1 /\ b[i] = 1 THEN 1 ELSE 0]
Or(a, b)  == [i \in 1..Len(a) |-> IF a[i] = 1 \/ b[i] = 1 THEN 1 ELSE 0]
Xor(a, b) == [i \in 1..Len(a) |-> IF a[i] # b[i] THEN 1 ELSE 0]
Not(a)    == [i \in 1..Len(a) |-> 1 - a[i]]

(* shifts: bit i of the result is bit i-n (left) / i+n (right) of the      *)
(* operand when that bit exists, 0 otherwise: exactly the bits moved out   *)
(* of the word are discarded, for ANY n >= 0                               *)
Shl(a, n) == [i \in 1..Len(a) |-> IF i - n >= 1 THEN a[i - n] ELSE 0]
Shr(a, n) == [i \in 1..Len(a) |-> IF i + n <= Len(a) THEN a[i + n] ELSE 0]

(* the bits a left (right) shift by n <= Len(a) moves out of the word, as   *)
(* the limb-wise code hands them to the next limb: right- (left-) aligned   *)
ShlOut(a, n) == [i \in 1..Len(a) |-> IF i <= n THEN a[Len(a) - n + i] ELSE 0]
ShrOut(a, n) == [i \in 1..Len(a) |-> IF i > Len(a) - n THEN a[i - (Len(a) - n)] ELSE 0]
(* shift with the vacated positions filled from a carry-in word (n <= Len(a)) *)
ShlIn(a, n, cin) == [i \in 1..Len(a) |-> IF i - n >= 1 THEN a[i - n] ELSE cin[i]]
ShrIn(a, n, cin) == [i \in 1..Len(a) |-> IF i + n <= Len(a) THEN a[i + n] ELSE cin[i]]

---------------------------------------------------------------------------
(* comparison: the most significant differing bit decides *)
RECURSIVE CmpFrom(_, _, _)
CmpFrom(a, b, i) ==
  IF i = 0 THEN 0
  ELSE IF a[i] > b[i] THEN 1
  ELSE IF a[i] < b[i] THEN -1
  ELSE CmpFrom(a, b, i - 1)
Cmp(a, b) == CmpFrom(a, b, Len(a))

---------------------------------------------------------------------------
(* ripple-carry addition: one full adder per position.  Result:            *)
(*   v = low Len(a) bits of a + b + cin,  c = carry out of the top bit     *)
(*   (c = 1 <=> the exact sum does not fit: the overflow signal)           *)
RECURSIVE AddRipple(_, _, _, _)
AddRipple(a, b, c, acc) ==
  LET i == Len(acc) + 1 IN
  IF i > Len(a) THEN [v |-> acc, c |-> c]
  ELSE LET s == a[i] + b[i] + c IN AddRipple(a, b, s \div 2, Append(acc, s % 2))
AddC(a, b, cin) == AddRipple(a, b, cin, <<>>)
Add(a, b) == AddC(a, b, 0)

(* ripple-borrow subtraction: v = low bits of a - b - bin, c = borrow out  *)
(*   (c = 1 <=> a < b + bin: the underflow signal)                         *)
RECURSIVE SubRipple(_, _, _, _)
SubRipple(a, b, c, acc) ==
  LET i == Len(acc) + 1 IN
  IF i > Len(a) THEN [v |-> acc, c |-> c]
  ELSE LET d == a[i] - b[i] - c IN
       SubRipple(a, b, IF d < 0 THEN 1 ELSE 0, Append(acc, IF d < 0 THEN d + 2 ELSE d))
SubC(a, b, bin) == SubRipple(a, b, bin, <<>>)
Sub(a, b) == SubC(a, b, 0)

---------------------------------------------------------------------------
(* shift-and-add multiplication.  hi holds the running upper W bits, lo    *)
(* collects the finished low bits: after W steps  a*b = lo + 2^W * hi.     *)
(*   v = low W bits of the exact product, h = high W bits,                 *)
(*   ovf <=> h # 0 <=> the exact product does not fit in W bits            *)
RECURSIVE MulStep(_, _, _, _, _)
MulStep(a, b, i, hi, lo) ==
  IF i > Len(b) THEN [v |-> lo, h |-> hi, ovf |-> ~IsZero(hi)]
  ELSE LET s == IF b[i] = 1 THEN Add(hi, a) ELSE [v |-> hi, c |-> 0]
       IN MulStep(a, b, i + 1, Append(Tail(s.v), s.c), Append(lo, s.v[1]))
Mul(a, b) == MulStep(a, b, 1, Force(Zero(Len(a))), <<>>)

---------------------------------------------------------------------------
(* restoring long division (b # 0): bring down one bit of a at a time,     *)
(* subtract b when it fits.  r is kept on W+1 bits (2r+1 < 2^(W+1)).       *)
(*   a = q*b + r  /\  r < b                                                *)
RECURSIVE MsbFrom(_, _)
MsbFrom(a, i) == IF i = 0 THEN 0 ELSE IF a[i] = 1 THEN i ELSE MsbFrom(a, i - 1)
Msb(a) == MsbFrom(a, Len(a))            \* position of the highest 1 bit, 0 for zero

RECURSIVE DivStep(_, _, _, _, _)
DivStep(a, bx, i, r, q) ==             \* bx = b zero-extended to W+1 bits; q[j] known for j > i
  IF i = 0 THEN [q |-> q, r |-> SubSeq(r, 1, Len(a))]
  ELSE LET r2 == <<a[i]>> \o SubSeq(r, 1, Len(r) - 1)        \* 2r + a[i]  (top bit of r is 0)
           d  == Sub(r2, bx)
       IN IF d.c = 0 THEN DivStep(a, bx, i - 1, d.v, [q EXCEPT ![i] = 1])
                     ELSE DivStep(a, bx, i - 1, r2, q)
DivMod(a, b) == DivStep(a, Append(Force(b), 0), Msb(a), Force(Zero(Len(a) + 1)), Force(Zero(Len(a))))

---------------------------------------------------------------------------
(* casts *)
Trunc(a, w) == SubSeq(a, 1, w)                                   \* narrowing: low w bits
ZExt(a, w)  == [i \in 1..w |-> IF i <= Len(a) THEN a[i] ELSE 0]  \* widening
Fits(a, w)  == \A i \in (w + 1)..Len(a) : a[i] = 0               \* value(a) < 2^w
Cast(a, w)  == IF w <= Len(a) THEN Trunc(a, w) ELSE ZExt(a, w)

---------------------------------------------------------------------------
(* transport encodings (small native numbers only) *)
RECURSIVE NatOf(_, _)
NatOf(a, i) == IF i > Len(a) THEN 0 ELSE a[i] + 2 * NatOf(a, i + 1)
ToNat(a) == NatOf(a, 1)                    \* only for Len(a) <= 30
RECURSIVE BitsOf(_, _)
BitsOf(x, w) == IF w = 0 THEN <<>> ELSE <<x % 2>> \o BitsOf(x \div 2, w - 1)
FromNat(x, w) == BitsOf(x, w)              \* low w bits of a native number

(* little-endian byte arrays <-> bit sequences (Len multiple of 8) *)
ToBytes(a) == [j \in 1..(Len(a) \div 8) |-> ToNat(SubSeq(a, 8 * j - 7, 8 * j))]
Pow2(k) == CASE k = 0 -> 1 [] k = 1 -> 2 [] k = 2 -> 4 [] k = 3 -> 8 [] k = 4 -> 16
             [] k = 5 -> 32 [] k = 6 -> 64 [] k = 7 -> 128
FromBytes(bs) == [i \in 1..(8 * Len(bs)) |-> (bs[(i - 1) \div 8 + 1] \div Pow2((i - 1) % 8)) % 2]
=============================================================================

------------------------------- MODULE PEAlign -------------------------------
(***************************************************************************)
(* L0 kernel library (property C08): what the paired-end assembly of       *)
(* obialign.PEAlign / BuildQualityConsensus / obipairing.AssemblePE-       *)
(* Sequences MEANS.                                                        *)
(*                                                                         *)
(* Reads.  A read is a tuple of one-character strings (lower-case IUPAC    *)
(* nucleotide symbols) with a tuple of qualities (0..93) of the same       *)
(* length.  A is the forward read, B the reverse-complemented reverse read.*)
(*                                                                         *)
(* Scores are a PARAMETER.  The specification never recomputes the log-    *)
(* odds tables of dnamatrix.go: a scoring S is a record                    *)
(*    [ca, cb, tab, gap]                                                   *)
(* where ca[i] (cb[j]) is the class of position i of A (j of B), tab[x][y] *)
(* the integer score of a class-x base of A facing a class-y base of B and *)
(* gap (<= 0 in practice) the score of one non-free gap position.          *)
(*                                                                         *)
(* Paths.  An alignment path is what PEAlign returns: a flat tuple of      *)
(* (indel, diag) pairs.  indel < 0: -indel bases of A face gaps; indel > 0:*)
(* indel bases of B face gaps; diag >= 0: diag bases of A face diag bases  *)
(* of B.  A path is the run-length encoding of a sequence of unit STEPS    *)
(* "a" (one base of A alone), "b" (one base of B alone), "d" (a pair).     *)
(*                                                                         *)
(* End-gap-free scoring, two modes (the two fills of pairedendalign.go):   *)
(*   left : B may start inside A.   A:  AAAAAAAAAA-----                    *)
(*                                  B:  -----BBBBBBBBBB                    *)
(*          a base of A alone is free while no base of B is consumed;      *)
(*          a base of B alone is free once all of A is consumed.           *)
(*   right: A may start inside B.   A:  -----AAAAAAAAAA                    *)
(*                                  B:  BBBBBBBBBB-----                    *)
(*          a base of B alone is free while no base of A is consumed;      *)
(*          a base of A alone is free once all of B is consumed.           *)
(* Every other lone base costs S.gap.                                      *)
(*                                                                         *)
(* The optimum is written twice - "max over all step sequences" (tiny      *)
(* reads) and a dynamic program written as row folds (any size) - and TLC  *)
(* checks that the two agree (PEAlignCheck).                               *)
(***************************************************************************)
EXTENDS Integers, Sequences, FiniteSets, SequencesExt

PEUpto(n) == [k \in 1..n |-> k]
PEAbs(x)  == IF x < 0 THEN -x ELSE x
PENeg(x)  == IF x < 0 THEN -x ELSE 0          \* bases of A consumed by an indel field
PEPos(x)  == IF x > 0 THEN x ELSE 0           \* bases of B consumed by an indel field
PEMin(x, y) == IF x <= y THEN x ELSE y
PEMax(x, y) == IF x >= y THEN x ELSE y
PERep(x, n) == [k \in 1..n |-> x]

---------------------------------------------------------------------------
(* paths *)

NPairs(p)    == Len(p) \div 2
PIndel(p, k) == p[2 * k - 1]
PDiag(p, k)  == p[2 * k]

WellFormedPath(p) == /\ Len(p) >= 2 /\ Len(p) % 2 = 0
                     /\ \A k \in 1..NPairs(p) : PDiag(p, k) >= 0

ConsumedA(p) == FoldLeft(LAMBDA s, k : s + PENeg(PIndel(p, k)) + PDiag(p, k), 0, PEUpto(NPairs(p)))
ConsumedB(p) == FoldLeft(LAMBDA s, k : s + PEPos(PIndel(p, k)) + PDiag(p, k), 0, PEUpto(NPairs(p)))
PathCols(p)  == FoldLeft(LAMBDA s, k : s + PEAbs(PIndel(p, k)) + PDiag(p, k), 0, PEUpto(NPairs(p)))

(* the path consumes both reads exactly *)
Consumes(p, la, lb) == WellFormedPath(p) /\ ConsumedA(p) = la /\ ConsumedB(p) = lb

(* unit steps of a path, and the canonical run-length encoding of a step sequence *)
Steps(p) ==
  FoldLeft(LAMBDA acc, k : acc \o PERep("a", PENeg(PIndel(p, k))) \o PERep("b", PEPos(PIndel(p, k)))
                               \o PERep("d", PDiag(p, k)),
           <<>>, PEUpto(NPairs(p)))

PushStep(st, m) ==                            \* st = <<pairs already closed, current indel, current diag>>
  LET p == st[1]  x == st[2]  d == st[3] IN
  CASE m = "d" -> <<p, x, d + 1>>
    [] m = "a" -> IF d = 0 /\ x <= 0 THEN <<p, x - 1, 0>> ELSE <<p \o <<x, d>>, -1, 0>>
    [] m = "b" -> IF d = 0 /\ x >= 0 THEN <<p, x + 1, 0>> ELSE <<p \o <<x, d>>, 1, 0>>

ToPath(steps) == LET st == FoldLeft(PushStep, << <<>>, 0, 0 >>, steps) IN st[1] \o <<st[2], st[3]>>

(* all step sequences that consume la bases of A and lb bases of B (Delannoy paths) *)
RECURSIVE StepSeqs(_, _)
StepSeqs(la, lb) ==
  IF la = 0 /\ lb = 0 THEN {<<>>}
  ELSE (IF la > 0 THEN {<<"a">> \o s : s \in StepSeqs(la - 1, lb)} ELSE {})
       \cup (IF lb > 0 THEN {<<"b">> \o s : s \in StepSeqs(la, lb - 1)} ELSE {})
       \cup (IF la > 0 /\ lb > 0 THEN {<<"d">> \o s : s \in StepSeqs(la - 1, lb - 1)} ELSE {})

---------------------------------------------------------------------------
(* scoring *)

SLenA(S) == Len(S.ca)
SLenB(S) == Len(S.cb)
SubAt(S, i, j) == S.tab[S.ca[i]][S.cb[j]]

(* one base of A alone when j bases of B are consumed / one base of B alone when i bases of A are *)
GapA(S, left, j) == IF (IF left THEN j = 0 ELSE j = SLenB(S)) THEN 0 ELSE S.gap
GapB(S, left, i) == IF (IF left THEN i = SLenA(S) ELSE i = 0) THEN 0 ELSE S.gap

(* score of a step sequence: the definition *)
StepScore(S, left, steps) ==
  FoldLeft(LAMBDA st, m :
             CASE m = "a" -> <<st[1] + 1, st[2], st[3] + GapA(S, left, st[2])>>
               [] m = "b" -> <<st[1], st[2] + 1, st[3] + GapB(S, left, st[1])>>
               [] m = "d" -> <<st[1] + 1, st[2] + 1, st[3] + SubAt(S, st[1] + 1, st[2] + 1)>>,
           <<0, 0, 0>>, steps)[3]

(* score recomputed along a returned path, run by run (only meaningful when Consumes holds) *)
DiagRun(S, i, j, n) == FoldLeft(LAMBDA s, k : s + SubAt(S, i + k, j + k), 0, PEUpto(n))

ScoreAlong(S, left, p) ==
  FoldLeft(LAMBDA st, k :
             LET x  == PIndel(p, k)
                 d  == PDiag(p, k)
                 i1 == st[1] + PENeg(x)
                 j1 == st[2] + PEPos(x)
                 s1 == st[3] + PENeg(x) * GapA(S, left, st[2]) + PEPos(x) * GapB(S, left, st[1])
             IN <<i1 + d, j1 + d, s1 + DiagRun(S, i1, j1, d)>>,
           <<0, 0, 0>>, PEUpto(NPairs(p)))[3]

(* declarative optimum (exponential: tiny reads only) *)
SetMax(V) == CHOOSE v \in V : \A w \in V : v >= w
DeclOpt(S, left) == SetMax({StepScore(S, left, s) : s \in StepSeqs(SLenA(S), SLenB(S))})
OptimalSteps(S, left) == LET ss == StepSeqs(SLenA(S), SLenB(S))
                             m  == SetMax({StepScore(S, left, s) : s \in ss})
                         IN {s \in ss : StepScore(S, left, s) = m}

(* dynamic program as row folds (FoldLeft is evaluated natively; TLC does not memoise recursive   *)
(* functions).  A row is a tuple indexed 1..lb+1, element j+1 = best score of A[1..i] with B[1..j]. *)
Max3(x, y, z) == IF x >= y THEN (IF x >= z THEN x ELSE z) ELSE (IF y >= z THEN y ELSE z)

DPRow(S, left, prev, i) ==
  LET trow == S.tab[S.ca[i]]
      gb   == GapB(S, left, i)
  IN FoldLeft(LAMBDA acc, j :
                Append(acc, Max3(prev[j] + trow[S.cb[j]],
                                 prev[j + 1] + GapA(S, left, j),
                                 acc[j] + gb)),
              << prev[1] + GapA(S, left, 0) >>, PEUpto(SLenB(S)))

DPOpt(S, left) ==
  LET lb == SLenB(S)
      g0 == GapB(S, left, 0)
  IN FoldLeft(LAMBDA prev, i : DPRow(S, left, prev, i),
              [j \in 1..(lb + 1) |-> (j - 1) * g0], PEUpto(SLenA(S)))[lb + 1]

(* the same program carrying the number of optimal step sequences, capped at 2 *)
Comb(x, y) == IF x[1] > y[1] THEN x ELSE IF y[1] > x[1] THEN y ELSE <<x[1], PEMin(2, x[2] + y[2])>>
Plus(c, v) == <<c[1] + v, c[2]>>

DPRowCnt(S, left, prev, i) ==
  LET trow == S.tab[S.ca[i]]
      gb   == GapB(S, left, i)
  IN FoldLeft(LAMBDA acc, j :
                Append(acc, Comb(Plus(prev[j], trow[S.cb[j]]),
                                 Comb(Plus(prev[j + 1], GapA(S, left, j)), Plus(acc[j], gb)))),
              << Plus(prev[1], GapA(S, left, 0)) >>, PEUpto(SLenB(S)))

DPOptCnt(S, left) ==
  LET lb == SLenB(S)
      g0 == GapB(S, left, 0)
  IN FoldLeft(LAMBDA prev, i : DPRowCnt(S, left, prev, i),
              [j \in 1..(lb + 1) |-> <<(j - 1) * g0, 1>>], PEUpto(SLenA(S)))[lb + 1]

(* exact mode answers the better of the two modes *)
Opt(S) == PEMax(DPOpt(S, TRUE), DPOpt(S, FALSE))

---------------------------------------------------------------------------
(* consensus *)

QCap == 90                      \* BuildQualityConsensus caps consensus qualities at 90
GapSym == "-"
PESym == {"a", "c", "g", "t", "r", "y", "s", "w", "k", "m", "b", "d", "h", "v", "n"}

Nuc(x) ==
  CASE x = "a" -> {"a"}            [] x = "c" -> {"c"}
    [] x = "g" -> {"g"}            [] x = "t" -> {"t"}
    [] x = "r" -> {"a", "g"}       [] x = "y" -> {"c", "t"}
    [] x = "s" -> {"c", "g"}       [] x = "w" -> {"a", "t"}
    [] x = "k" -> {"g", "t"}       [] x = "m" -> {"a", "c"}
    [] x = "b" -> {"c", "g", "t"}  [] x = "d" -> {"a", "g", "t"}
    [] x = "h" -> {"a", "c", "t"}  [] x = "v" -> {"a", "c", "g"}
    [] x = "n" -> {"a", "c", "g", "t"}
    [] x = GapSym -> {}

SymOf(N) == CHOOSE x \in PESym : Nuc(x) = N
UnionTab == [x \in PESym \cup {GapSym} |->
               [y \in PESym \cup {GapSym} |-> IF x = GapSym /\ y = GapSym THEN GapSym
                                              ELSE SymOf(Nuc(x) \cup Nuc(y))]]   \* evaluated once

(* alignment columns <<symbol of A, quality, symbol of B, quality>>; a gap is <<"-", 0>> *)
Columns(p, A, qa, B, qb) ==
  FoldLeft(LAMBDA st, m :
             CASE m = "a" -> <<st[1] + 1, st[2], Append(st[3], <<A[st[1] + 1], qa[st[1] + 1], GapSym, 0>>)>>
               [] m = "b" -> <<st[1], st[2] + 1, Append(st[3], <<GapSym, 0, B[st[2] + 1], qb[st[2] + 1]>>)>>
               [] m = "d" -> <<st[1] + 1, st[2] + 1,
                               Append(st[3], <<A[st[1] + 1], qa[st[1] + 1], B[st[2] + 1], qb[st[2] + 1]>>)>>,
           <<0, 0, <<>> >>, Steps(p))[3]

ColIsGap(c) == c[1] = GapSym \/ c[3] = GapSym

(* the higher quality wins; equal qualities and different symbols: the IUPAC code of the union; *)
(* a gap carries no base and quality 0, so a gap column copies the base that is present         *)
ConsBase(c) == IF c[2] > c[4] THEN c[1]
               ELSE IF c[4] > c[2] THEN c[3]
               ELSE IF c[1] = c[3] THEN c[1]
               ELSE UnionTab[c[1]][c[3]]

ConsSeq(cols) == [k \in 1..Len(cols) |-> ConsBase(cols[k])]

(* agreeing columns and gap columns carry min(qA + qB, 90); the quality of a column where the two *)
(* reads disagree is a floating-point formula of the implementation: only its range is specified  *)
QualOK(c, q) == IF ColIsGap(c) \/ c[1] = c[3] THEN q = PEMin(c[2] + c[4], QCap) ELSE q \in 0..QCap
QualsOK(cols, qs) == Len(qs) = Len(cols) /\ \A k \in 1..Len(cols) : QualOK(cols[k], qs[k])
FirstBadQual(cols, qs) == CHOOSE k \in 1..Len(cols) : ~QualOK(cols[k], qs[k])

(* a column counts as a match when both reads carry the same symbol with a non-zero quality *)
(* (a base of quality 0 is an error with probability 1: it is no evidence)                   *)
ColIsMatch(c) == ~ColIsGap(c) /\ c[1] = c[3] /\ c[2] > 0 /\ c[4] > 0
MatchCount(cols) == Cardinality({k \in 1..Len(cols) : ColIsMatch(cols[k])})

---------------------------------------------------------------------------
(* statistics of AssemblePESequences as functions of the path *)

HeadGap(p) == p[1]                                              \* unpaired bases before the overlap
TailGap(p) == IF p[Len(p)] = 0 THEN p[Len(p) - 1] ELSE 0        \* unpaired bases after the overlap
AliLength(p) == PathCols(p) - PEAbs(HeadGap(p)) - PEAbs(TailGap(p))
SeqASingle(p, left) == IF left THEN PEAbs(HeadGap(p)) ELSE PEAbs(TailGap(p))
SeqBSingle(p, left) == IF left THEN PEAbs(TailGap(p)) ELSE PEAbs(HeadGap(p))

(* identity >= idn/idd, with identity = matches / ali_length (0 when ali_length = 0) *)
IdentityOK(match, ali, idn, idd) == IF ali = 0 THEN idn <= 0 ELSE match * idd >= idn * ali
IsAlignment(p, cols, minov, idn, idd) ==
  AliLength(p) >= minov /\ IdentityOK(MatchCount(cols), AliLength(p), idn, idd)

Dots == PERep(".", 10)
JoinSeq(A, B)    == A \o Dots \o B
JoinQual(qa, qb) == qa \o PERep(0, 10) \o qb

---------------------------------------------------------------------------
(* fast mode: the 4-mer diagonal vote of obikmer.Index4mer / FastShiftFourMer *)

Base2(x) == CASE x = "c" -> 1 [] x = "g" -> 2 [] x = "t" -> 3 [] OTHER -> 0   \* anything else counts as "a"
Kmers(s) == IF Len(s) < 4 THEN <<>>
            ELSE [p \in 1..(Len(s) - 3) |-> 64 * Base2(s[p]) + 16 * Base2(s[p + 1]) + 4 * Base2(s[p + 2]) + Base2(s[p + 3])]

(* number of 4-mers of B found in A on diagonal d = (position in A) - (position in B) *)
DiagCount(ka, kb, d) == Cardinality({p \in 1..Len(kb) : p + d \in 1..Len(ka) /\ ka[p + d] = kb[p]})
DiagRange(ka, kb) == (1 - Len(kb))..(Len(ka) - 1)

(* the overlap length the vote attributes to diagonal d *)
OverOf(d, la, lb) == IF d > 0 THEN la - d ELSE IF d < 0 THEN lb + d ELSE PEMin(la, lb)

(* diagonal score: the count, or (relative) the count divided by the number of 4-mers of the overlap *)
VoteGeq(c1, o1, c2, o2, rel) == IF rel THEN c1 * (o2 - 3) >= c2 * (o1 - 3) ELSE c1 >= c2
VoteGt(c1, o1, c2, o2, rel)  == IF rel THEN c1 * (o2 - 3) > c2 * (o1 - 3) ELSE c1 > c2

Vote(A, B) == LET ka == Kmers(A)  kb == Kmers(B)
              IN [d \in DiagRange(ka, kb) |-> DiagCount(ka, kb, d)]

(* the diagonals the vote may elect (none voted for: diagonal 0 with count 0) *)
BestShifts(v, la, lb, rel) ==
  LET V == {d \in DOMAIN v : v[d] > 0}
      best == {d \in V : \A e \in V : VoteGeq(v[d], OverOf(d, la, lb), v[e], OverOf(e, la, lb), rel)}
  IN IF V = {} THEN {0} ELSE best

VoteCount(v, d) == IF d \in DOMAIN v THEN v[d] ELSE 0

(* d is the strict maximiser of the diagonal score *)
StrictBest(v, d, la, lb, rel) ==
  /\ VoteCount(v, d) > 0
  /\ \A e \in DOMAIN v : (e # d /\ v[e] > 0) => VoteGt(v[d], OverOf(d, la, lb), v[e], OverOf(e, la, lb), rel)

---------------------------------------------------------------------------
(* two error-free reads of one fragment F: A = the first la bases, B = the last lb bases        *)
(* (left geometry), or B = the first lb bases and A = the last la bases (right geometry).       *)
(* The true path pairs the overlap base by base.                                                *)
Prefix(F, n) == SubSeq(F, 1, n)
Suffix(F, n) == SubSeq(F, Len(F) - n + 1, Len(F))

TruePath(L, la, lb, left) ==
  LET o == la + lb - L IN
  IF left THEN ToPath(PERep("a", la - o) \o PERep("d", o) \o PERep("b", lb - o))
  ELSE ToPath(PERep("b", lb - o) \o PERep("d", o) \o PERep("a", la - o))

TrueShift(L, la, lb, left) == IF left THEN L - lb ELSE la - L
=============================================================================

-------------------------------- MODULE Bio --------------------------------
(***************************************************************************)
(* The nucleotide alphabet of obitools4 and its complement (L0 kernel,      *)
(* shared by C07 C10 C11 C12 ...).                                          *)
(*                                                                          *)
(* A sequence is a TLA+ sequence of one-character strings (TLC strings are  *)
(* atoms).  Symbols are lower case, as obiseq stores them.                  *)
(*                                                                          *)
(* The complement is NOT typed in as a table: it is DEFINED from the        *)
(* meaning of the IUPAC codes (set of bases each code stands for, NC-IUB    *)
(* 1984) and the Watson-Crick pairing of the four bases.  The tables of the *)
(* implementation (obiseq._revcmpDNA, obikmer.revcompnuc, the C table       *)
(* LX_BIO_CDNA_ALPHA) are compared with Comp symbol by symbol.              *)
(***************************************************************************)
EXTENDS Integers, Sequences, FiniteSets

Nucleotides == {"a", "c", "g", "t"}

(* meaning of the IUPAC nucleotide codes *)
Bases ==
  [ a |-> {"a"}, c |-> {"c"}, g |-> {"g"}, t |-> {"t"},
    r |-> {"a", "g"}, y |-> {"c", "t"}, m |-> {"a", "c"}, k |-> {"g", "t"},
    s |-> {"c", "g"}, w |-> {"a", "t"},
    b |-> {"c", "g", "t"}, d |-> {"a", "g", "t"}, h |-> {"a", "c", "t"}, v |-> {"a", "c", "g"},
    n |-> {"a", "c", "g", "t"} ]

IUPAC == DOMAIN Bases          \* the 15 codes

(* '.' and '-' are gap symbols; '[' and ']' delimit a set of alternatives in a pattern or a   *)
(* variable region in a sequence: reverse complementing must exchange them.                    *)
Gaps     == {".", "-"}
Brackets == {"[", "]"}
Alphabet == IUPAC \cup Gaps \cup Brackets       \* 19 symbols: the alphabet of property C07

WatsonCrick == [a |-> "t", c |-> "g", g |-> "c", t |-> "a"]

(* complement of one symbol *)
Comp(x) ==
  CASE x \in IUPAC -> CHOOSE y \in IUPAC : Bases[y] = {WatsonCrick[z] : z \in Bases[x]}
    [] x \in Gaps  -> x
    [] x = "["     -> "]"
    [] x = "]"     -> "["

CompFn == [x \in Alphabet |-> Comp(x)]          \* evaluated once by TLC (constant definition)

IsSeq(s) == \A i \in 1..Len(s) : s[i] \in Alphabet

Rev(s) == [i \in 1..Len(s) |-> s[Len(s) + 1 - i]]
Complement(s) == [i \in 1..Len(s) |-> CompFn[s[i]]]
RC(s) == [i \in 1..Len(s) |-> CompFn[s[Len(s) + 1 - i]]]

(* two symbols are compatible when they can stand for the same base *)
Compatible(x, y) == x \in IUPAC /\ y \in IUPAC /\ Bases[x] \cap Bases[y] # {}
(* x (pattern side) accepts y (sequence side) when every reading of y is a reading of x *)
Accepts(x, y) == x \in IUPAC /\ y \in IUPAC /\ Bases[y] \subseteq Bases[x]

(* theorems about the alphabet, checked by TLC as ASSUMEs of the models that extend Bio *)
CompIsInvolution == \A x \in Alphabet : Comp(x) \in Alphabet /\ Comp(Comp(x)) = x
CompIsBijection  == \A x, y \in Alphabet : Comp(x) = Comp(y) => x = y
CompIsWatsonCrick == \A x \in IUPAC : Bases[Comp(x)] = {WatsonCrick[z] : z \in Bases[x]}
CompKeepsCardinality == \A x \in IUPAC : Cardinality(Bases[Comp(x)]) = Cardinality(Bases[x])
=============================================================================

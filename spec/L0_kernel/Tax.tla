-------------------------------- MODULE Tax --------------------------------
(***************************************************************************)
(* Taxonomies and the queries obitools4 answers on them (property C14).    *)
(*                                                                         *)
(* A taxonomy T is a record                                                *)
(*    parent : sequence over 1..n, parent[x] is the parent TAXID of x;     *)
(*             exactly one x has parent[x] = x (the root), every node      *)
(*             reaches it by following parent links                        *)
(*    rank   : sequence of n rank labels (strings)                         *)
(*    name   : sequence of n scientific names (strings)                    *)
(*    alias  : sequence of pairs <<old, new>>: merged taxid old now means  *)
(*             node new (old ids are distinct and are not nodes)           *)
(* The taxids of the nodes are 1..n (the root is ANY of them).             *)
(* 0 stands for "no taxon" in every answer.                                *)
(*                                                                         *)
(* Two layers of definitions:                                              *)
(*  - reference definitions, written as the property is worded            *)
(*    ("the deepest taxon that is an ancestor-or-self of both");          *)
(*  - walking definitions shaped as pkg/obitax computes them (paths        *)
(*    compared from the root end, walk up until the rank matches, walk     *)
(*    down from the root while all members agree); linear in the depth, so *)
(*    usable on trees of thousands of nodes in trace validation.           *)
(* TaxModel.tla lets TLC check on all small trees that the two layers      *)
(* agree and that the algebraic laws of the property hold.                 *)
(***************************************************************************)
EXTENDS Integers, Sequences, FiniteSets

Node(T)    == 1..Len(T.parent)
IsRoot(T, x) == T.parent[x] = x

RECURSIVE Up(_, _, _)
Up(p, x, k) == IF k = 0 THEN x ELSE Up(p, p[x], k - 1)         \* k-th ancestor (stays at the root)

(* p is the parent vector of a rooted tree *)
IsRootedTree(p) ==
  LET n == Len(p) IN
  /\ n >= 1
  /\ \A x \in 1..n : p[x] \in 1..n
  /\ \E r \in 1..n : p[r] = r /\ \A x \in 1..n : Up(p, x, n - 1) = r

IsTaxonomy(T) ==
  /\ IsRootedTree(T.parent)
  /\ Len(T.rank) = Len(T.parent) /\ Len(T.name) = Len(T.parent)
  /\ \A i \in 1..Len(T.alias) :
        /\ T.alias[i][1] \notin Node(T) /\ T.alias[i][2] \in Node(T)
        /\ \A j \in 1..Len(T.alias) : T.alias[i][1] = T.alias[j][1] => i = j

Root(T) == CHOOSE r \in Node(T) : IsRoot(T, r)

-----------------------------------------------------------------------------
(* Reference definitions *)

(* ancestor-or-self set *)
Anc(T, x)   == { Up(T.parent, x, k) : k \in 0..(Len(T.parent) - 1) }
Depth(T, x) == Cardinality(Anc(T, x)) - 1                       \* number of proper ancestors

(* a taxon's path: itself first, then parent after parent, the root last *)
PathRef(T, x) == [k \in 1..(Depth(T, x) + 1) |-> Up(T.parent, x, k - 1)]

Deepest(T, S) == CHOOSE c \in S : \A d \in S : Depth(T, d) <= Depth(T, c)

(* the deepest taxon that is an ancestor-or-self of both *)
LCAref(T, a, b) == Deepest(T, Anc(T, a) \cap Anc(T, b))

(* the deepest taxon that is an ancestor-or-self of every member of S (S non-empty) *)
CommonAnc(T, S)  == { c \in Node(T) : \A x \in S : c \in Anc(T, x) }
SetLCAref(T, S)  == Deepest(T, CommonAnc(T, S))

IsSubClade(T, a, b) == b \in Anc(T, a)                           \* a belongs to the clade of b
Clade(T, b)         == { a \in Node(T) : IsSubClade(T, a, b) }

(* the nearest ancestor-or-self of x bearing rank q, 0 if there is none *)
AtRankRef(T, x, q) ==
  LET C == { y \in Anc(T, x) : T.rank[y] = q } IN IF C = {} THEN 0 ELSE Deepest(T, C)
HasRank(T, x, q) == \E y \in Anc(T, x) : T.rank[y] = q

(* alias resolution: node ids stand for themselves, merged ids for their new node, anything else is unknown *)
Resolve(T, id) ==
  IF id \in Node(T) THEN id
  ELSE IF \E i \in 1..Len(T.alias) : T.alias[i][1] = id
       THEN T.alias[CHOOSE i \in 1..Len(T.alias) : T.alias[i][1] = id][2]
       ELSE 0

-----------------------------------------------------------------------------
(* Walking definitions (shape of pkg/obitax).  They are written as LET-recursive FUNCTIONS: TLC     *)
(* evaluates function arguments eagerly, so a walk of depth d costs d steps (recursive operators     *)
(* pass their arguments lazily and degrade quadratically on chains of thousands of nodes).           *)

(* TaxNode.Path: the taxon itself first, the root last *)
Path(T, x) ==
  LET walk[y \in Node(T)] == IF IsRoot(T, y) THEN <<y>> ELSE <<y>> \o walk[T.parent[y]] IN walk[x]

(* TaxNode.LCA: compare the two paths from the root end until they diverge; i1 and i2 = i1 - shift *)
(* are the cursors in the two paths, the answer is the last node on which they agreed              *)
LCA(T, a, b) ==
  LET p1 == Path(T, a)
      p2 == Path(T, b)
      shift == Len(p1) - Len(p2)
      scan[i1 \in 0..Len(p1)] ==
         IF i1 >= 1 /\ i1 - shift >= 1 /\ p1[i1] = p2[i1 - shift] THEN scan[i1 - 1] ELSE p1[i1 + 1]
  IN scan[Len(p1)]

(* TaxNode.IsSubCladeOf: walk up from a until b or the root is met *)
SubCladeWalk(T, a, b) ==
  LET walk[y \in Node(T)] == IF y = b THEN TRUE ELSE IF IsRoot(T, y) THEN FALSE ELSE walk[T.parent[y]] IN walk[a]

CladeWalk(T, b) == { a \in Node(T) : SubCladeWalk(T, a, b) }      \* Taxonomy.IFilterOnSubcladeOf

(* TaxNode.TaxonAtRank: walk up until the rank matches *)
AtRank(T, x, q) ==
  LET walk[y \in Node(T)] == IF T.rank[y] = q THEN y ELSE IF IsRoot(T, y) THEN 0 ELSE walk[T.parent[y]] IN walk[x]

(* Taxonomy.LCA(sequence, threshold = 1): walk down from the root, level by level, while every   *)
(* member still has a node at that level and all these nodes are the same; the answer is the     *)
(* node of the last level on which all agreed.  ps = the root-first paths of the members.        *)
Reverse(s) == [i \in 1..Len(s) |-> s[Len(s) + 1 - i]]
SetLCA(T, S) ==
  LET ps    == { Reverse(Path(T, x)) : x \in S }
      first == CHOOSE p \in ps : TRUE
      down[i \in 1..(Len(first) + 1)] ==
         IF /\ \A p \in ps : Len(p) >= i
            /\ \A p \in ps : p[i] = first[i]
         THEN down[i + 1]
         ELSE IF i = 1 THEN 0 ELSE first[i - 1]
  IN down[1]

(* left fold of the binary LCA over a sequence of nodes *)
RECURSIVE FoldLCA(_, _, _)
FoldLCA(T, s, acc) == IF s = <<>> THEN acc ELSE FoldLCA(T, Tail(s), LCA(T, acc, Head(s)))

-----------------------------------------------------------------------------
(* Sequence records: a record carries a taxid (any integer) or a bag of taxids; the filters and    *)
(* annotations of obigrep / obiannotate are defined on the resolved taxon.                         *)

(* the taxon of id s lies in the clade of the taxon of id r (FALSE when either is unknown) *)
InCladeId(T, s, r) ==
  LET x == Resolve(T, s)  y == Resolve(T, r) IN x # 0 /\ y # 0 /\ SubCladeWalk(T, x, y)

HasRankId(T, s, q) == LET x == Resolve(T, s) IN x # 0 /\ AtRank(T, x, q) # 0

(* obigrep -r R.. -i I.. --require-rank K.. keeps the record of taxid s iff ... *)
GrepKeeps(T, R, I, K, s) ==
  /\ (R = {} \/ \E r \in R : InCladeId(T, s, r))          \* restricted to the union of the clades of R
  /\ ~ \E i \in I : InCladeId(T, s, i)                     \* outside every ignored clade
  /\ \A q \in K : HasRankId(T, s, q)                       \* every required rank is defined

(* obiannotate --with-taxon-at-rank q: taxon at rank q of the record's taxon, 0 when there is none or the taxid is unknown *)
SeqAtRank(T, s, q) == LET x == Resolve(T, s) IN IF x = 0 THEN 0 ELSE AtRank(T, x, q)

(* obiannotate --add-lca-in with zero tolerance: LCA of the taxa of the ids in M (all known, M non-empty) *)
SeqLCA(T, M) == SetLCA(T, { Resolve(T, m) : m \in M })

NameOf(T, x) == IF x = 0 THEN "" ELSE T.name[x]
=============================================================================

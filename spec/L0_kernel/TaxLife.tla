------------------------------ MODULE TaxLife ------------------------------
(***************************************************************************)
(* The life of a Taxonomy object (pkg/obitax/taxonomy.go), property C14:   *)
(* "parent pointers rebuilt from parent ids after loading".                *)
(*                                                                         *)
(* A Taxonomy is mutable: AddNewTaxa declares a taxon (taxid, parent       *)
(* taxid, rank) by storing a NEW node object under the taxid (replacing    *)
(* the one that was there when replace = true); ReindexParent then gives   *)
(* every node object a pointer to the node object of its parent.  Queries  *)
(* (Path, LCA, IsSubCladeOf, TaxonAtRank) follow the POINTERS.  The        *)
(* property speaks of the tree made by the DECLARATIONS.  The two agree    *)
(* when every pointer of a current object leads to the CURRENT object of   *)
(* its declared parent; a node object that was replaced lives on in the    *)
(* pointers of its former children until they are re-linked.               *)
(*                                                                         *)
(* State: objects are numbered in creation order.                          *)
(*   cur  : taxid -> object number (0 = not declared)                      *)
(*   obj  : sequence of objects [taxid, par, rank, link]; link = object    *)
(*          number of the parent object (0 = not linked yet)               *)
(*   clean: TRUE when ReindexParent succeeded and nothing was declared     *)
(*          since                                                          *)
(*   ops  : history of the calls (what is replayed on the real code)       *)
(* Actions = the calls of the API, one per call:                           *)
(*   Declare(t, p, r) AddNewTaxa(t, p, r, replace = t is declared, _)      *)
(*   Reindex          ReindexParent(), every parent declared               *)
(*   ReindexFails     ReindexParent() meets a taxon whose parent is not    *)
(*                    declared: it returns an error after having linked    *)
(*                    the taxa it had reached (map order: any subset)      *)
(* Incremental = TRUE describes the tempting shortcut "a linked object is  *)
(* left alone" (it breaks Agreement: TLC shows the history).               *)
(***************************************************************************)
EXTENDS Integers, Sequences, FiniteSets, TLC, Json, CSV, IOUtils

CONSTANTS MaxId,        \* taxids 1..MaxId; taxid 1 is the root (its own parent)
          Ranks,        \* sequence of rank labels
          MaxOps,       \* length of the histories explored
          Incremental   \* FALSE: the code as it is

VARIABLES cur, obj, clean, ops
vars == <<cur, obj, clean, ops>>

Ids == 1..MaxId
Declared == { t \in Ids : cur[t] # 0 }
O(t) == obj[cur[t]]

(* following declared parent ids from p never meets t (keeps the declarations a forest; Path in the real  *)
(* code walks until a node is its own parent and would not come back from a cycle)                       *)
RECURSIVE Meets(_, _, _)
Meets(p, t, fuel) ==
  IF p = t THEN TRUE
  ELSE IF fuel = 0 \/ cur[p] = 0 \/ O(p).par = p THEN FALSE
  ELSE Meets(O(p).par, t, fuel - 1)

Init ==
  /\ cur = [t \in Ids |-> IF t = 1 THEN 1 ELSE 0]
  /\ obj = << [taxid |-> 1, par |-> 1, rank |-> Ranks[1], link |-> 0] >>
  /\ clean = FALSE
  /\ ops = << >>

Declare(t, p, r) ==
  /\ Len(ops) < MaxOps
  /\ IF t = 1 THEN p = 1 ELSE (p # t /\ ~Meets(p, t, MaxId))
  /\ obj' = Append(obj, [taxid |-> t, par |-> p, rank |-> r, link |-> 0])
  /\ cur' = [cur EXCEPT ![t] = Len(obj) + 1]
  /\ clean' = FALSE
  /\ ops' = Append(ops, [op |-> "declare", t |-> t, p |-> p, r |-> r])

Complete == \A t \in Declared : cur[O(t).par] # 0

Relink(S) ==
  [k \in 1..Len(obj) |->
     IF \E t \in S : cur[t] = k /\ (~Incremental \/ obj[k].link = 0)
     THEN [obj[k] EXCEPT !.link = cur[obj[k].par]]
     ELSE obj[k]]

Reindex ==
  /\ Len(ops) < MaxOps
  /\ ~clean /\ Complete
  /\ obj' = Relink(Declared)
  /\ clean' = TRUE
  /\ ops' = Append(ops, [op |-> "reindex", t |-> 0, p |-> 0, r |-> ""])
  /\ UNCHANGED cur

ReindexFails ==
  /\ Len(ops) < MaxOps
  /\ ~Complete
  /\ \E S \in SUBSET { t \in Declared : cur[O(t).par] # 0 } : obj' = Relink(S)
  /\ ops' = Append(ops, [op |-> "reindex", t |-> 0, p |-> 0, r |-> ""])
  /\ UNCHANGED <<cur, clean>>

Next ==
  \/ \E t \in Ids, p \in Ids, k \in 1..Len(Ranks) : Declare(t, p, Ranks[k])
  \/ Reindex
  \/ ReindexFails

Spec == Init /\ [][Next]_vars

-----------------------------------------------------------------------------
(* What the declarations say *)
RECURSIVE DeclPath(_, _)
DeclPath(t, fuel) ==
  IF O(t).par = t \/ fuel = 0 THEN <<t>> ELSE <<t>> \o DeclPath(O(t).par, fuel - 1)

(* What the pointers say: the taxids met from the current object of t *)
RECURSIVE LinkPath(_, _)
LinkPath(k, fuel) ==
  IF k = 0 THEN <<0>>                                         \* a nil pointer: the real code panics here
  ELSE IF obj[k].link = k \/ fuel = 0 THEN <<obj[k].taxid>>
  ELSE <<obj[k].taxid>> \o LinkPath(obj[k].link, fuel - 1)

(* the ranks met along the pointers are those of the objects, possibly replaced ones *)
RECURSIVE LinkRanks(_, _)
LinkRanks(k, fuel) ==
  IF k = 0 THEN <<"nil">>
  ELSE IF obj[k].link = k \/ fuel = 0 THEN <<obj[k].rank>>
  ELSE <<obj[k].rank>> \o LinkRanks(obj[k].link, fuel - 1)

DeclRanks(t) == LET P == DeclPath(t, MaxId) IN [i \in 1..Len(P) |-> O(P[i]).rank]

TypeOK ==
  /\ cur \in [Ids -> 0..Len(obj)]
  /\ \A t \in Declared : O(t).taxid = t
  /\ cur[1] # 0 /\ O(1).par = 1

(* THE theorem: after a successful indexing, walking the pointers is walking the declared tree *)
Agreement ==
  clean => \A t \in Declared :
             /\ LinkPath(cur[t], MaxId + 1) = DeclPath(t, MaxId + 1)
             /\ LinkRanks(cur[t], MaxId + 1) = DeclRanks(t)

(* stronger, inductive form: every current object points at the current object of its declared parent *)
Linked == clean => \A t \in Declared : O(t).link = cur[O(t).par]

(* a replaced object is never reachable from a current one once the taxonomy is clean *)
NoGhost == clean => \A t \in Declared : LET k == O(t).link IN cur[obj[k].taxid] = k

-----------------------------------------------------------------------------
(* Cases for the replay on pkg/obitax: one per history that ends clean, with what the declarations say *)
Lca(a, b) ==
  LET A == DeclPath(a, MaxId + 1)  B == DeclPath(b, MaxId + 1)
      common == { i \in 1..Len(A) : \E j \in 1..Len(B) : A[i] = B[j] }
  IN A[CHOOSE i \in common : \A j \in common : i <= j]

DeclSeq == SelectSeq([t \in 1..MaxId |-> t], LAMBDA t : cur[t] # 0)

Export ==
  (clean /\ ops # << >> /\ ops[Len(ops)].op = "reindex") =>
    CSVWrite("%1$s",
      <<ToJson([ops   |-> ops,
                taxa  |-> DeclSeq,
                paths |-> [i \in 1..Len(DeclSeq) |-> DeclPath(DeclSeq[i], MaxId + 1)],
                ranks |-> [i \in 1..Len(DeclSeq) |-> DeclRanks(DeclSeq[i])],
                lca   |-> [i \in 1..Len(DeclSeq) |-> [j \in 1..Len(DeclSeq) |-> Lca(DeclSeq[i], DeclSeq[j])]]])>>,
      IOEnv.VERIF_CASES)
=============================================================================

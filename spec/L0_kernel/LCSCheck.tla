------------------------------- MODULE LCSCheck -------------------------------
(***************************************************************************)
(* Property C09 - bounded model.  One state per ordered pair (a, b) of     *)
(* sequences of the configured alphabets/lengths; the step Compute         *)
(* evaluates the reference definitions (LCS.tla, D1.tla).  TLC checks the  *)
(* specification's own theorems on every pair:                             *)
(*   DeclAgrees       row-fold DP = "max over all alignments" (tiny pairs) *)
(*   Sane, Symmetric  elementary laws of the reference                     *)
(*   D1IsEditDistance D1Ref = 0/1/-1  <=>  Levenshtein distance 0/1/>=2    *)
(*   D1ScanRefines    the prefix/suffix scan model answers D1Ref and a     *)
(*                    valid edit                                           *)
(*   D1VsLCS          on {a,c,g,t}: d = 0/1 <=> the LCS answer implies 0/1 *)
(*                    differences                                          *)
(*   BandedRefines    the banded two-anti-diagonal model of the code       *)
(*                    satisfies the contract for every bound, whatever the *)
(*                    scratch buffer held; BandedSymmetric                 *)
(* and Export writes, per pair, what the real code is allowed to answer.   *)
(***************************************************************************)
EXTENDS Integers, Sequences, FiniteSets, TLC, Json, CSV, IOUtils, SequencesExt, LCS, D1, BandedLCS

CONSTANTS Configs,    \* set of records [alpha |-> set of symbols, n |-> maximal length]
          Bounds,     \* tuple of the error bounds explored, e.g. <<-1, 0, 1, 2, 3, 4>>
          DeclMax,    \* DeclAgrees is evaluated when both lengths are <= DeclMax
          BandMax     \* Banded* are evaluated (and exported) when both lengths are <= BandMax

VARIABLES a, b, done, res
vars == <<a, b, done, res>>

IupacAll == Sym
QuickBounds    == <<-1, 0, 1, 2, 3, 4>>
ThoroughBounds == <<-1, 0, 1, 2, 3, 4, 5, 7>>
QuickConfigs    == {[alpha |-> {"a", "c"}, n |-> 6], [alpha |-> Bases, n |-> 3], [alpha |-> Sym, n |-> 1]}
ThoroughConfigs == {[alpha |-> {"a", "c"}, n |-> 8], [alpha |-> Bases, n |-> 4], [alpha |-> Sym, n |-> 2]}
BandedQuickConfigs    == {[alpha |-> {"a", "c"}, n |-> 5], [alpha |-> {"a", "g", "r"}, n |-> 3]}
BandedThoroughConfigs == {[alpha |-> {"a", "c"}, n |-> 6], [alpha |-> {"a", "c", "g", "r"}, n |-> 3]}

SeqsUpTo(S, n) == UNION {[1..k -> S] : k \in 0..n}

RECURSIVE Str(_)
Str(s) == IF s = <<>> THEN "" ELSE s[1] \o Str(Tail(s))

NB == Len(Bounds)
Stales == {0, 2 * P2 - 1, NotAvail + 7 * P1}       \* zeroed, all ones, a plausible stale in-band word

Nothing == [lcs |-> <<0, 0>>, egf |-> <<0, 0>>, egf2 |-> <<0, 0>>, d1 |-> 0, impl |-> <<>>, implegf |-> <<>>]

Init == /\ \E c \in Configs : a \in SeqsUpTo(c.alpha, c.n) /\ b \in SeqsUpTo(c.alpha, c.n)
        /\ done = FALSE
        /\ res = Nothing

InBand == Len(a) <= BandMax /\ Len(b) <= BandMax

Compute ==
  /\ ~done
  /\ done' = TRUE
  /\ res' = [lcs  |-> LCSPair(a, b),
             egf  |-> EgfOriented(a, b),      \* first argument plays the longer part on equal lengths
             egf2 |-> EgfOriented(b, a),
             d1   |-> D1Ref(a, b),
             impl    |-> IF InBand THEN [k \in 1..NB |-> Banded(a, b, Bounds[k], FALSE, 0)] ELSE <<>>,
             implegf |-> IF InBand THEN [k \in 1..NB |-> Banded(a, b, Bounds[k], TRUE, 0)] ELSE <<>>]
  /\ UNCHANGED <<a, b>>

Next == Compute

---------------------------------------------------------------------------
MinI(x, y) == IF x <= y THEN x ELSE y
MaxI(x, y) == IF x >= y THEN x ELSE y
Plain == \A i \in 1..Len(a) : a[i] \in Bases /\ \A j \in 1..Len(b) : b[j] \in Bases

DeclAgrees ==
  (done /\ Len(a) <= DeclMax /\ Len(b) <= DeclMax) =>
     /\ res.lcs = BestDecl(a, b)
     /\ res.egf = IF Len(a) >= Len(b) THEN EgfDecl(a, b) ELSE EgfDecl(b, a)

Sane ==
  done => /\ res.lcs[1] \in 0..MinI(Len(a), Len(b))
          /\ res.lcs[2] \in MaxI(Len(a), Len(b))..(Len(a) + Len(b))
          /\ res.lcs[2] + res.lcs[1] <= Len(a) + Len(b)        \* every match saves a column
          /\ res.egf[1] = res.lcs[1] /\ res.egf2[1] = res.lcs[1]  \* gaps are free: same score
          /\ res.egf[2] \in MinI(Len(a), Len(b))..res.lcs[2]
          /\ res.egf2[2] \in MinI(Len(a), Len(b))..res.lcs[2]
          /\ (Len(a) # Len(b) => res.egf = res.egf2)
          /\ {res.egf, res.egf2} = EgfAllowed(a, b)
          /\ (a = b => res.lcs = <<Len(a), Len(a)>> /\ res.egf = res.lcs /\ res.d1 = 0)

Symmetric ==
  done => /\ res.lcs = LCSPair(b, a)
          /\ res.d1 = D1Ref(b, a)
          /\ EgfAllowed(a, b) = EgfAllowed(b, a)
          /\ (res.d1 = 1 => Edits(b, a) = {<<e[1], e[3], e[2]>> : e \in Edits(a, b)})

D1IsEditDistance ==
  done => LET l == Lev(a, b) IN /\ (res.d1 = 0 <=> l = 0)
                                 /\ (res.d1 = 1 <=> l = 1)
                                 /\ (res.d1 = -1 <=> l >= 2)

D1ScanRefines ==
  done => LET s == ScanD1(a, b) IN
          /\ s[1] = res.d1
          /\ (s[1] = 1 => <<s[2], s[3], s[4]>> \in Edits(a, b))
          /\ (res.d1 = 1 <=> Edits(a, b) # {})

D1VsLCS ==
  (done /\ Plain) => /\ (res.d1 = 0 <=> Err(res.lcs) = 0)
                     /\ (res.d1 = 1 <=> Err(res.lcs) = 1)

BandedRefines ==          \* res.impl / res.implegf: the banded model started on a zeroed buffer
  (done /\ InBand) =>
     \A k \in 1..NB : /\ Conforms(res.impl[k], res.lcs, Bounds[k])
                      /\ Conforms(res.implegf[k], res.egf, Bounds[k])

BandedBufferIndependent ==
  (done /\ InBand) =>
     \A k \in 1..NB : \A st \in Stales \ {0} :
        /\ Banded(a, b, Bounds[k], FALSE, st) = res.impl[k]
        /\ Banded(a, b, Bounds[k], TRUE, st) = res.implegf[k]

BandedSymmetric ==
  (done /\ InBand) => \A k \in 1..NB : Banded(b, a, Bounds[k], FALSE, 0) = res.impl[k]

---------------------------------------------------------------------------
(* one line per pair: the set of answers the real kernels may give, bound by bound *)
Export ==
  done =>
    CSVWrite("%1$s",
      <<ToJson([a      |-> Str(a),
                b      |-> Str(b),
                bounds |-> Bounds,
                lcs    |-> [k \in 1..NB |-> Expect(res.lcs, Bounds[k])],
                egf    |-> [k \in 1..NB |-> Expect(res.egf, Bounds[k])],
                egf2   |-> [k \in 1..NB |-> Expect(res.egf2, Bounds[k])],
                d1     |-> res.d1,
                edits  |-> SetToSeq(Edits(a, b)),
                impl   |-> res.impl,
                implegf |-> res.implegf])>>,
      IOEnv.VERIF_CASES)
=============================================================================

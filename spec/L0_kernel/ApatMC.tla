------------------------------- MODULE ApatMC -------------------------------
(***************************************************************************)
(* Bounded model of property C10 over the operators of Apat.tla.           *)
(*                                                                         *)
(* One behaviour = one case: a pattern assembled from textual pieces, a    *)
(* sequence, an error budget, a mode (mismatch only / indels).  The single *)
(* step "done" exists only to have the heavy evaluation done by TLC's      *)
(* worker threads.  On every completed case TLC checks the theorems of the *)
(* specification itself (reference definitions agree with the scanning     *)
(* formulations, reverse-complement theorem, window lemmas ...) and        *)
(* exports, for each search window, the hits the real matcher has to       *)
(* report (Export, one JSON line per window).                              *)
(***************************************************************************)
EXTENDS Apat, TLC, Json, CSV, IOUtils

CONSTANTS Pieces,      \* names of the pattern pieces used, e.g. {"A", "N", "A#", "[AG]"}
          MinP, MaxP,  \* number of pieces in a pattern
          Alpha,       \* sequence symbols, subset of 0..4
          MinS, MaxS,  \* sequence length
          Budgets,     \* error budgets
          Modes,       \* subset of {0, 1}: 0 mismatch only, 1 indels allowed
          WinSet,      \* "basic" | "many": which search windows are exported
          Slack,       \* MAX_PAT_LEN of the real matcher (64)
          RefMax       \* |P| + |S| up to which the exponential reference EdRec is evaluated

VARIABLES pcs, s, e, indel, done,
          res        \* per exported window: the hit lists of the pattern and of its reverse complement
vars == <<pcs, s, e, indel, done, res>>

---------------------------------------------------------------------------
(* the pieces: text and, independently of the parser, what they denote *)

Sym(set, neg, ob) == [set |-> set, neg |-> neg, ob |-> ob]
Pc(chars, set, neg, ob) == [c |-> chars, d |-> Sym(set, neg, ob)]

PieceTab ==
     "A" :> Pc(<<"A">>, {0}, FALSE, FALSE)  @@ "C" :> Pc(<<"C">>, {1}, FALSE, FALSE)
  @@ "G" :> Pc(<<"G">>, {2}, FALSE, FALSE)  @@ "T" :> Pc(<<"T">>, {3}, FALSE, FALSE)
  @@ "U" :> Pc(<<"U">>, {3}, FALSE, FALSE)
  @@ "R" :> Pc(<<"R">>, {0, 2}, FALSE, FALSE) @@ "Y" :> Pc(<<"Y">>, {1, 3}, FALSE, FALSE)
  @@ "S" :> Pc(<<"S">>, {1, 2}, FALSE, FALSE) @@ "W" :> Pc(<<"W">>, {0, 3}, FALSE, FALSE)
  @@ "K" :> Pc(<<"K">>, {2, 3}, FALSE, FALSE) @@ "M" :> Pc(<<"M">>, {0, 1}, FALSE, FALSE)
  @@ "B" :> Pc(<<"B">>, {1, 2, 3}, FALSE, FALSE) @@ "D" :> Pc(<<"D">>, {0, 2, 3}, FALSE, FALSE)
  @@ "H" :> Pc(<<"H">>, {0, 1, 3}, FALSE, FALSE) @@ "V" :> Pc(<<"V">>, {0, 1, 2}, FALSE, FALSE)
  @@ "N" :> Pc(<<"N">>, {0, 1, 2, 3}, FALSE, FALSE)
  @@ "a" :> Pc(<<"a">>, {0}, FALSE, FALSE)  @@ "y" :> Pc(<<"y">>, {1, 3}, FALSE, FALSE)
  @@ "[AC]"   :> Pc(<<"[", "A", "C", "]">>, {0, 1}, FALSE, FALSE)
  @@ "[CGT]"  :> Pc(<<"[", "C", "G", "T", "]">>, {1, 2, 3}, FALSE, FALSE)
  @@ "[RT]"   :> Pc(<<"[", "R", "T", "]">>, {0, 2, 3}, FALSE, FALSE)
  @@ "[G]"    :> Pc(<<"[", "G", "]">>, {2}, FALSE, FALSE)
  @@ "!A"     :> Pc(<<"!", "A">>, {0}, TRUE, FALSE)
  @@ "!C"     :> Pc(<<"!", "C">>, {1}, TRUE, FALSE)
  @@ "!T"     :> Pc(<<"!", "T">>, {3}, TRUE, FALSE)
  @@ "!Y"     :> Pc(<<"!", "Y">>, {1, 3}, TRUE, FALSE)
  @@ "![AC]"  :> Pc(<<"!", "[", "A", "C", "]">>, {0, 1}, TRUE, FALSE)
  @@ "A#"     :> Pc(<<"A", "#">>, {0}, FALSE, TRUE)
  @@ "C#"     :> Pc(<<"C", "#">>, {1}, FALSE, TRUE)
  @@ "T#"     :> Pc(<<"T", "#">>, {3}, FALSE, TRUE)
  @@ "N#"     :> Pc(<<"N", "#">>, {0, 1, 2, 3}, FALSE, TRUE)
  @@ "W#"     :> Pc(<<"W", "#">>, {0, 3}, FALSE, TRUE)
  @@ "[AG]#"  :> Pc(<<"[", "A", "G", "]", "#">>, {0, 2}, FALSE, TRUE)
  @@ "!A#"    :> Pc(<<"!", "A", "#">>, {0}, TRUE, TRUE)
  @@ "![CT]#" :> Pc(<<"!", "[", "C", "T", "]", "#">>, {1, 3}, TRUE, TRUE)

RECURSIVE Flatten(_)
Flatten(q) == IF q = <<>> THEN <<>> ELSE PieceTab[Head(q)].c \o Flatten(Tail(q))
RECURSIVE Str(_)
Str(chars) == IF chars = <<>> THEN "" ELSE Head(chars) \o Str(Tail(chars))
LetterOf == <<"a", "c", "g", "t", "n">>
SeqStr(S) == Str([i \in 1..Len(S) |-> LetterOf[S[i] + 1]])

Text == Flatten(pcs)
P    == Parse(Text)
n    == Len(s)
m    == Len(pcs)
ind  == indel = 1
HasOb == \E i \in 1..Len(pcs) : PieceTab[pcs[i]].d.ob

WinSeq ==
  IF WinSet = "many"
  THEN <<  <<0, -1>>, <<-1, n>>, <<1, -1>>, <<2, -1>>, <<0, 2>>, <<1, 1>>, <<2, 3>>, <<n, -1>>, <<0, 0>>  >>
  ELSE <<  <<0, -1>>, <<1, -1>>, <<1, 2>>  >>
Windows == Range(WinSeq)

---------------------------------------------------------------------------
Init ==
  /\ pcs \in UNION {[1..k -> Pieces] : k \in MinP..MaxP}
  /\ s \in UNION {[1..k -> Alpha] : k \in MinS..MaxS}
  /\ e \in Budgets
  /\ indel \in Modes
  /\ (indel = 1 => ~HasOb)      \* '#' together with indels: not specified (see Apat.tla / check limits)
  /\ done = FALSE
  /\ res = <<>>

RECURSIVE Sorted(_)
Sorted(H) == IF H = {} THEN <<>>
             ELSE LET h == CHOOSE x \in H : \A y \in H : x[1] <= y[1] IN <<h>> \o Sorted(H \ {h})

(* hits as <<p, k, r>> in increasing order, r = 1 when the hit must be reported *)
HitList(PP, w) ==
  LET A == Allowed(PP, s, e, ind, w[1], w[2], Slack)
      Q == RequiredOf(A, m, n, ind, w[1], w[2])
      q == Sorted(A)
  IN  [i \in 1..Len(q) |-> <<q[i][1], q[i][2], IF q[i] \in Q THEN 1 ELSE 0>>]

Next == /\ ~done /\ done' = TRUE /\ UNCHANGED <<pcs, s, e, indel>>
        /\ res' = [i \in 1..Len(WinSeq) |->
                     [b |-> WinSeq[i][1], l |-> WinSeq[i][2],
                      h |-> HitList(P, WinSeq[i]), ch |-> HitList(Comp(P), WinSeq[i])]]

AOf(hl) == {<<hl[i][1], hl[i][2]>> : i \in DOMAIN hl}
QOf(hl) == {<<hl[i][1], hl[i][2]>> : i \in {j \in DOMAIN hl : hl[j][3] = 1}}

---------------------------------------------------------------------------
(* theorems of the specification, checked on every case *)

(* the parser agrees with the independent denotation table of the pieces *)
ParseThm == done => P = [i \in 1..m |-> PieceTab[pcs[i]].d]

CompInvolutive == done => Comp(Comp(P)) = P

(* the cut-off scan used on long sequences is the definition *)
SubRefThm == (done /\ ~ind) =>
  /\ \A lo \in 0..n : SubHits(P, s, e, lo, n) = SubHitsRef(P, s, e, lo, n)
  /\ \A hi \in 0..n : SubHits(P, s, e, 0, hi) = SubHitsRef(P, s, e, 0, hi)

(* matching the reverse-complemented pattern = matching the pattern on the reverse-       *)
(* complemented sequence, coordinates mirrored                                            *)
CompThmSub == (done /\ ~ind) =>
  SubHits(Comp(P), s, e, 0, n) = Mirror(SubHits(P, RC(s), e, 0, n), n, m)

(* the Sellers scan reports at each end position the best distance over all substrings    *)
(* ending there (inside the window)                                                        *)
SellersThm == (done /\ ind) =>
  \A lo \in 0..n : IndelHits(P, s, e, lo, n) = IndelHitsRef(P, s, e, lo, n)

(* the column fold is the textbook edit distance *)
EdRefThm == (done /\ ind /\ m + n <= RefMax) =>
  \A from \in 0..n : \A to \in from..n : EdSpan(P, s, from, to) = EdRec(P, s, from, m, to - from)

CompThmIndel == (done /\ ind) =>
  /\ \A from \in 0..n : \A to \in from..n :
        EdSpan(Comp(P), s, from, to) = EdSpan(P, RC(s), n - to, n - from)
  /\ (IndelHits(Comp(P), s, e, 0, n) = {}) = (IndelHits(P, RC(s), e, 0, n) = {})
  /\ IndelHits(Comp(P), s, e, 0, n) # {} =>
        MinErr(IndelHits(Comp(P), s, e, 0, n)) = MinErr(IndelHits(P, RC(s), e, 0, n))

(* a smaller budget selects exactly the hits within it, with the same counts *)
MonotoneThm == (done /\ e >= 1) =>
  Hits(P, s, e - 1, ind, 0, n) = {h \in Hits(P, s, e, ind, 0, n) : h[2] <= e - 1}

(* with budget 0 the two modes coincide; an indel hit is never worse than the mismatch hit *)
ModesThm == (done /\ ind) =>
  /\ IndelHits(P, s, 0, 0, n) = SubHits(P, s, 0, 0, n)
  /\ \A h \in SubHits(P, s, e, 0, n) : \E g \in IndelHits(P, s, e, 0, n) : g[1] = h[1] /\ g[2] <= h[2]

(* windows: what must be reported may be reported; in mismatch mode hits do not depend on  *)
(* where the scan starts and two adjacent windows tile the sequence; in indel mode          *)
(* restarting the scan can only lose substrings                                            *)
WindowThm == done =>
  /\ \A i \in DOMAIN res :
        /\ QOf(res[i].h) \subseteq AOf(res[i].h)
        /\ \A h \in AOf(res[i].h) :
              \E g \in Hits(P, s, e, ind, 0, n) : g[1] = h[1] /\ g[2] <= h[2] /\ (~ind => g = h)
  /\ ~ind => \A c \in 0..n :
        Required(P, s, e, FALSE, 0, c, m) \cup Required(P, s, e, FALSE, c, -1, m) = SubHits(P, s, e, 0, n)
  /\ Required(P, s, e, ind, 0, -1, Slack) = Hits(P, s, e, ind, 0, n)

(* the acceptance predicates accept the specification's own answers and reject a lost,     *)
(* an invented and a miscounted hit                                                        *)
AsFind(H) == LET q == Sorted(H) IN [i \in 1..Len(q) |-> <<q[i][1], q[i][1] + m, q[i][2]>>]

VerdictThm == done =>
  \A i \in DOMAIN res :
     LET A == AOf(res[i].h)
         Q == QOf(res[i].h)
     IN  /\ FindVerdict(AsFind(A), A, Q, m) = "ok"
         /\ FindVerdict(AsFind(Q), A, Q, m) = "ok"
         /\ Q # {} => FindVerdict(Tail(AsFind(Q)), A, Q, m) = "missing"
         /\ FindVerdict(AsFind(A) \o << <<n, n + m, 0>> >>, A, Q, m) = "spurious"
         /\ A # {} => FindVerdict(<< <<AsFind(A)[1][1], AsFind(A)[1][2], AsFind(A)[1][3] + 1>> >> \o Tail(AsFind(A)),
                                  A, Q, m) \in {"errcount"}
         /\ IsMatchVerdict(IF A = {} THEN 0 ELSE 1, A, Q) = "ok"

---------------------------------------------------------------------------
(* export: one line per case; per window the hits as <<p, k, r>> *)

Case == [pt |-> Str(Text), s |-> SeqStr(s), e |-> e, indel |-> indel,
         pure |-> IF PureText(Text) THEN 1 ELSE 0, w |-> res]

Export == done => CSVWrite("%1$s", <<ToJson(Case)>>, IOEnv.VERIF_CASES)
=============================================================================

------------------------------ MODULE KmerCheck ------------------------------
(***************************************************************************)
(* Property C19, k-mer index part - bounded model.  One state per          *)
(* (sequence s, k-mer size k); odd k = sparse mode, even k = plain mode,   *)
(* as obikmer.NewKmerMap requires.  The step Compute evaluates the         *)
(* definitions of Kmer.tla; TLC checks the specification's own theorems:   *)
(*   TablesSane       complement table = digit complement of the codes     *)
(*   CanonIsMin       the key is the smaller of the k-mer and its reverse  *)
(*                    complement (central digit ignored in sparse mode)    *)
(*                    and is the same for both strands                     *)
(*   StrandInvariant  s and revcomp(s) yield the same multiset of keys     *)
(*                    (indeed the reversed list)                           *)
(*   CountsWindows    one key per window without ambiguity code            *)
(*   RollRefines      the rolling model (shift, mask, or on words of WL    *)
(*                    digits) returns exactly the padded keys              *)
(*   MissingMask      without the mask the rolling model is still right    *)
(*                    when the mask cannot matter (k = WL, sparse mode     *)
(*                    whose side masks hide the stray digits, no run of    *)
(*                    plain symbols longer than k) - and the exported flag *)
(*                    um says where it is wrong                            *)
(*   FourMerRefines   byte-rolling 4-mer codes = the definition; the table *)
(*                    sums to the number of windows                        *)
(* Export writes what the real code must answer.                           *)
(***************************************************************************)
EXTENDS Integers, Sequences, FiniteSets, TLC, Json, CSV, IOUtils, SequencesExt, Kmer

CONSTANTS KConfigs,   \* set of records [alpha |-> symbols, n |-> max length, ks |-> set of k]
          WL          \* word length (digits) of the rolling model

VARIABLES s, k, done, res
vars == <<s, k, done, res>>

KQuickConfigs ==
  {[alpha |-> {"a", "c", "g", "t"}, n |-> 6, ks |-> {2, 4}],
   [alpha |-> {"a", "c", "g", "t"}, n |-> 5, ks |-> {3, 5}],
   [alpha |-> {"a", "t", "n"},      n |-> 6, ks |-> {2, 3}],
   [alpha |-> {"c", "u", "r"},      n |-> 5, ks |-> {2, 3, 4}]}
KThoroughConfigs ==
  {[alpha |-> {"a", "c", "g", "t"}, n |-> 8, ks |-> {2, 3}],
   [alpha |-> {"a", "c", "g", "t"}, n |-> 7, ks |-> {4, 5, 6}],
   [alpha |-> {"a", "t", "n"},      n |-> 8, ks |-> {2, 3, 4}],
   [alpha |-> {"a", "c", "g", "u", "y"}, n |-> 5, ks |-> {2, 3, 4, 5}]}

KSeqsUpTo(S, n) == UNION {[1..m -> S] : m \in 0..n}

RECURSIVE KStr(_)
KStr(q) == IF q = <<>> THEN "" ELSE q[1] \o KStr(Tail(q))

Sparse == k % 2 = 1

Nothing == [keys |-> <<>>, rkeys |-> <<>>, roll |-> <<>>, rollu |-> <<>>]

Init == /\ \E c \in KConfigs : s \in KSeqsUpTo(c.alpha, c.n) /\ k \in c.ks
        /\ done = FALSE
        /\ res = Nothing

Compute ==
  /\ ~done
  /\ done' = TRUE
  /\ res' = [keys  |-> CanonKmers(s, k, Sparse),
             rkeys |-> CanonKmers(KmerRevCompSeq(s), k, Sparse),
             roll  |-> IF k <= WL THEN RollKmers(s, k, Sparse, WL, TRUE) ELSE <<>>,
             rollu |-> IF k <= WL THEN RollKmers(s, k, Sparse, WL, FALSE) ELSE <<>>]
  /\ UNCHANGED <<s, k>>

Next == Compute

---------------------------------------------------------------------------
TablesSane == NucTablesSane

CanonIsMin ==
  done => \A w \in {KmersOf(s, k)[j] : j \in 1..Len(KmersOf(s, k))} :
            LET r == KmerRC(w)  key == CanonKey(w, Sparse)
                a == IF Sparse THEN DropCentre(w) ELSE w
                b == IF Sparse THEN DropCentre(r) ELSE r
            IN /\ key \in {a, b}
               /\ ~KmerLess(a, key) /\ ~KmerLess(b, key)
               /\ CanonKey(r, Sparse) = key
               /\ KmerRC(r) = w
               /\ (Sparse => b = KmerRC(a))

StrandInvariant ==
  done => /\ KmerBag(res.keys) = KmerBag(res.rkeys)
          /\ res.rkeys = Reverse(res.keys)

(* maximal runs of unambiguous symbols *)
LongestRun ==
  FoldLeft(LAMBDA st, x : IF UnambTab[x] THEN <<st[1] + 1, IF st[1] + 1 > st[2] THEN st[1] + 1 ELSE st[2]>>
                          ELSE <<0, st[2]>>,
           <<0, 0>>, s)[2]

CountsWindows ==
  done => /\ Len(res.keys) = Cardinality({p \in 1..(Len(s) - k + 1) : ClearWindow(s, p, k)})
          /\ (PlainSeq(s) /\ Len(s) >= k => Len(res.keys) = Len(s) - k + 1)
          /\ (LongestRun < k => res.keys = <<>>)
          /\ \A j \in 1..Len(res.keys) : Len(res.keys[j]) = (IF Sparse THEN k - 1 ELSE k)

RollRefines ==
  (done /\ k <= WL) => res.roll = [j \in 1..Len(res.keys) |-> WPad(res.keys[j], WL)]

UnmaskedWrong == done /\ k <= WL /\ res.rollu # res.roll

MissingMask ==
  UnmaskedWrong => (~Sparse /\ k < WL /\ LongestRun > k)

FourMerRefines ==
  (done /\ PlainSeq(s) /\ k = 2) =>
     /\ Roll4Codes(s) = FourMerCodes(s)
     /\ \A e \in FourMerTable(s) : e[2] = FourMerCount(s, e[1]) /\ e[2] > 0
     /\ \A c \in 0..255 : (FourMerCount(s, c) > 0) <=> (\E e \in FourMerTable(s) : e[1] = c)
     /\ FoldLeft(LAMBDA a, e : a + e[2], 0, SetToSeq(FourMerTable(s))) = (IF Len(s) >= 4 THEN Len(s) - 3 ELSE 0)
     /\ FourMerCommon(s, s) = (IF Len(s) >= 4 THEN Len(s) - 3 ELSE 0)
     /\ FourMerCommon(s, KmerRevCompSeq(s)) <= FourMerCommon(s, s)

---------------------------------------------------------------------------
(* one line per (s, k): keys as letter strings (k-1 letters in sparse mode), their KmerAsString *)
(* rendering, the keys of the reverse complement, and - once per sequence - the 4-mer table.     *)
Export ==
  done =>
    CSVWrite("%1$s",
      <<ToJson([kind |-> "idx",
                s    |-> KStr(s),
                r    |-> KStr(KmerRevCompSeq(s)),
                k    |-> k,
                sp   |-> IF Sparse THEN 1 ELSE 0,
                keys |-> [j \in 1..Len(res.keys) |-> KStr(KeyLetters(res.keys[j]))],
                strs |-> [j \in 1..Len(res.keys) |-> KStr(KeyString(res.keys[j], Sparse))],
                rkeys |-> [j \in 1..Len(res.rkeys) |-> KStr(KeyLetters(res.rkeys[j]))],
                um   |-> IF UnmaskedWrong THEN 1 ELSE 0,
                four |-> IF PlainSeq(s) /\ k = 2 THEN SetToSeq(FourMerTable(s)) ELSE <<>>,
                fourdef |-> IF PlainSeq(s) /\ k = 2 THEN 1 ELSE 0])>>,
      IOEnv.VERIF_CASES)
=============================================================================

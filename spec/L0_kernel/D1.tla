---------------------------------- MODULE D1 ----------------------------------
(***************************************************************************)
(* L0 kernel library (property C09; used by C13): the one-difference test  *)
(* obialign.D1Or0(seq1, seq2) -> (d, pos, x, y).                           *)
(*                                                                         *)
(*   d = 0  iff the sequences are identical (symbol by symbol, no IUPAC),  *)
(*   d = 1  iff one substitution, insertion or deletion turns seq1 into    *)
(*          seq2 (edit distance exactly one),                              *)
(*   d = -1 otherwise.                                                     *)
(* With d = 1 the kernel reports an edit (pos, x, y), pos counted from 0:  *)
(*   x, y letters : seq1[pos] = x is replaced by y                         *)
(*   y = "-"      : seq1[pos] = x is deleted                               *)
(*   x = "-"      : y is inserted so that it becomes seq2[pos]             *)
(* The position is not unique (aaa -> aa): every edit that reproduces seq2 *)
(* from seq1 is acceptable (Edits is the whole set).                       *)
(***************************************************************************)
EXTENDS Integers, Sequences, FiniteSets, SequencesExt

DropAt(s, p) == SubSeq(s, 1, p - 1) \o SubSeq(s, p + 1, Len(s))      \* p in 1..Len(s)

IsSub(a, b) == Len(a) = Len(b) /\ Cardinality({i \in 1..Len(a) : a[i] # b[i]}) = 1
IsDel(a, b) == Len(a) = Len(b) + 1 /\ \E p \in 1..Len(a) : DropAt(a, p) = b

D1Ref(a, b) == IF a = b THEN 0
               ELSE IF IsSub(a, b) \/ IsDel(a, b) \/ IsDel(b, a) THEN 1 ELSE -1

(* does the reported edit turn a into b?  pos is 0-based, x and y are one-character strings *)
EditOK(a, b, pos, x, y) ==
  LET p == pos + 1 IN
  CASE x # "-" /\ y # "-" -> /\ Len(a) = Len(b) /\ p \in 1..Len(a)
                             /\ a[p] = x /\ b[p] = y /\ x # y
                             /\ \A i \in 1..Len(a) : i # p => a[i] = b[i]
    [] x # "-" /\ y = "-" -> p \in 1..Len(a) /\ a[p] = x /\ DropAt(a, p) = b
    [] x = "-" /\ y # "-" -> p \in 1..Len(b) /\ b[p] = y /\ DropAt(b, p) = a
    [] OTHER              -> FALSE

(* every acceptable report for d = 1 *)
Edits(a, b) ==
  LET n == IF Len(a) >= Len(b) THEN Len(a) ELSE Len(b)
      X == {a[i] : i \in 1..Len(a)} \cup {"-"}
      Y == {b[i] : i \in 1..Len(b)} \cup {"-"}
  IN {e \in (0..(n - 1)) \X X \X Y : EditOK(a, b, e[1], e[2], e[3])}

(* verdict on a full answer of the kernel: "ok" or the reason of the rejection *)
JudgeD1(a, b, d, pos, x, y) ==
  IF d # D1Ref(a, b) THEN "verdict"
  ELSE IF d = 1 /\ ~EditOK(a, b, pos, x, y) THEN "edit"
  ELSE "ok"

---------------------------------------------------------------------------
(* Levenshtein distance by row folds (FoldLeft of SequencesExt): the independent definition of "edit distance" that *)
(* D1Ref is checked against (LCSCheck!D1IsEditDistance)                                  *)
Min2(x, y) == IF x <= y THEN x ELSE y

LevRow(ai, b, prev, i) ==
  FoldLeft(LAMBDA acc, j :
             Append(acc, Min2(prev[j] + (IF ai = b[j] THEN 0 ELSE 1), Min2(prev[j + 1] + 1, acc[j] + 1))),
           <<i>>, [k \in 1..Len(b) |-> k])

Lev(a, b) == FoldLeft(LAMBDA prev, i : LevRow(a[i], b, prev, i),
                      [j \in 1..(Len(b) + 1) |-> j - 1], [k \in 1..Len(a) |-> k])[Len(b) + 1]

---------------------------------------------------------------------------
(* Implementation-shaped model of D1Or0 (pkg/obialign/is_d0_or_d1.go): common prefix scan, *)
(* common suffix scan that stops at the prefix, at most one position may be left.  Indices  *)
(* are the 0-based ones of the code; s[k + 1] is the code's s[k].                           *)

RECURSIVE ScanPrefix(_, _, _)
ScanPrefix(s1, s2, k) == IF k < Len(s1) /\ k < Len(s2) /\ s1[k + 1] = s2[k + 1] THEN ScanPrefix(s1, s2, k + 1) ELSE k

RECURSIVE ScanSuffix(_, _, _, _, _)
ScanSuffix(s1, s2, b, e1, e2) ==             \* returns <<e1, e2>> after the backward scan
  IF (e1 > b \/ e2 > b) /\ s1[e1 + 1] = s2[e2 + 1] THEN ScanSuffix(s1, s2, b, e1 - 1, e2 - 1) ELSE <<e1, e2>>

ScanD1(s1, s2) ==
  LET l1 == Len(s1)  l2 == Len(s2) IN
  IF l1 - l2 > 1 \/ l2 - l1 > 1 THEN <<-1, -1, "", "">>
  ELSE LET b == ScanPrefix(s1, s2, 0) IN
       IF b = l1 /\ b = l2 THEN <<0, -1, "", "">>
       ELSE LET e  == ScanSuffix(s1, s2, b, l1 - 1, l2 - 1)
                e1 == e[1]
                e2 == e[2]
            IN IF \/ (l1 = l2 /\ (e1 > b \/ e2 > b))
                  \/ (l1 > l2 /\ e1 > b)
                  \/ (l1 < l2 /\ e2 > b)
               THEN <<-1, -1, "", "">>
               ELSE <<1,
                      IF b >= e1 THEN (IF e1 > e2 THEN e1 ELSE e2) ELSE -1,
                      IF e2 <= e1 THEN s1[e1 + 1] ELSE "-",
                      IF e2 >= e1 THEN s2[e2 + 1] ELSE "-">>
=============================================================================

--------------------------------- MODULE Kmer ---------------------------------
(***************************************************************************)
(* L0 kernel library (property C19; reused by C08 and C15): what the       *)
(* k-mers of a nucleotide sequence ARE, what the CANONICAL k-mer of the    *)
(* k-mer index (obikmer.KmerMap) is, and what a 4-mer table                *)
(* (obikmer.Count4Mer) holds.                                              *)
(*                                                                         *)
(* A sequence is a tuple of one-character strings (lower-case IUPAC        *)
(* nucleotide symbols).  A k-mer is a tuple of k base-4 DIGITS             *)
(* (a=0 c=1 g=2 t=u=3): TLC integers have 32 bits, so a 64-bit (or 128,    *)
(* 256-bit) machine word is never held as a number; numeric order of       *)
(* words of equal length is the lexicographic order of their digits.       *)
(*                                                                         *)
(* Part 1  alphabet, complement, reverse complement                        *)
(* Part 2  k-mers, Canon(w) = lexicographic min of w and its reverse       *)
(*         complement, sparse mode (central digit ignored), canonical      *)
(*         k-mers of a sequence, bags                                      *)
(* Part 3  4-mer table                                                     *)
(* Part 4  implementation-shaped rolling model on words of WL digits       *)
(*         (shift, MASK, or), with and without the mask; KmerCheck.tla     *)
(*         lets TLC compare it with Part 2.                                *)
(* All names carry a Kmer/Nuc/W prefix or are specific enough not to clash *)
(* with LCS.tla / BitVec.tla when a module extends several libraries.      *)
(***************************************************************************)
EXTENDS Integers, Sequences, FiniteSets, SequencesExt

---------------------------------------------------------------------------
(* Part 1 - alphabet *)

NucDigits == 0..3
PlainNucs == {"a", "c", "g", "t"}
Nucs == {"a", "c", "g", "t", "u", "r", "y", "s", "w", "k", "m", "b", "d", "h", "v", "n"}

(* the bases a symbol stands for, as digits (IUPAC-IUB; same table as obikmer.iupac) *)
NucCode(x) ==
  CASE x = "a" -> {0}        [] x = "c" -> {1}        [] x = "g" -> {2}
    [] x = "t" -> {3}        [] x = "u" -> {3}
    [] x = "r" -> {0, 2}     [] x = "y" -> {1, 3}     [] x = "s" -> {1, 2}
    [] x = "w" -> {0, 3}     [] x = "k" -> {2, 3}     [] x = "m" -> {0, 1}
    [] x = "b" -> {1, 2, 3}  [] x = "d" -> {0, 2, 3}  [] x = "h" -> {0, 1, 3}
    [] x = "v" -> {0, 1, 2}  [] x = "n" -> {0, 1, 2, 3}
NucCodeTab == [x \in Nucs |-> NucCode(x)]            \* evaluated once

(* complement of a symbol: the symbol standing for the complemented bases (digit d -> 3-d) *)
NucComp(x) ==
  CASE x = "a" -> "t"  [] x = "c" -> "g"  [] x = "g" -> "c"  [] x = "t" -> "a"  [] x = "u" -> "a"
    [] x = "r" -> "y"  [] x = "y" -> "r"  [] x = "s" -> "s"  [] x = "w" -> "w"
    [] x = "k" -> "m"  [] x = "m" -> "k"  [] x = "b" -> "v"  [] x = "d" -> "h"
    [] x = "h" -> "d"  [] x = "v" -> "b"  [] x = "n" -> "n"
NucCompTab == [x \in Nucs |-> NucComp(x)]

(* sanity of the two tables (checked by KmerCheck as an ASSUME-like invariant) *)
NucTablesSane == \A x \in Nucs : NucCodeTab[NucCompTab[x]] = {3 - d : d \in NucCodeTab[x]}

Unambiguous(x) == Cardinality(NucCodeTab[x]) = 1
UnambTab == [x \in Nucs |-> Unambiguous(x)]
DigitOf(x) == CHOOSE d \in NucCodeTab[x] : TRUE       \* meaningful for unambiguous symbols
DigitTab == [x \in Nucs |-> DigitOf(x)]
DigitLetter(d) == <<"a", "c", "g", "t">>[d + 1]

PlainSeq(s) == \A i \in 1..Len(s) : UnambTab[s[i]]

KmerRevCompSeq(s) == [i \in 1..Len(s) |-> NucCompTab[s[Len(s) + 1 - i]]]

KUpto(n) == [i \in 1..n |-> i]

---------------------------------------------------------------------------
(* Part 2 - k-mers and canonical k-mers *)

KmerRC(w) == [i \in 1..Len(w) |-> 3 - w[Len(w) + 1 - i]]

(* strict lexicographic order on digit tuples of equal length = numeric order of the words *)
KmerLess(u, v) ==
  \E i \in 1..Len(u) : u[i] < v[i] /\ \A j \in 1..(i - 1) : u[j] = v[j]
KmerMin(u, v) == IF KmerLess(v, u) THEN v ELSE u

Canon(w) == KmerMin(w, KmerRC(w))

(* sparse mode (k odd): the central digit does not count *)
DropCentre(w) ==
  LET k == Len(w)  c == (k + 1) \div 2
  IN [i \in 1..(k - 1) |-> IF i < c THEN w[i] ELSE w[i + 1]]

(* the key of the k-mer index: k digits, or k-1 digits in sparse mode *)
CanonKey(w, sparse) ==
  IF sparse THEN KmerMin(DropCentre(w), DropCentre(KmerRC(w))) ELSE Canon(w)

(* windows of a sequence; a window holding an ambiguity code has no k-mer *)
ClearWindow(s, p, k) == \A i \in p..(p + k - 1) : UnambTab[s[i]]
WindowDigits(s, p, k) == [i \in 1..k |-> DigitTab[s[p + i - 1]]]
KmerStarts(s, k) == SelectSeq(KUpto(Len(s) - k + 1), LAMBDA p : ClearWindow(s, p, k))   \* <<>> when Len(s) < k

(* the k-mers of s, in order of position *)
KmersOf(s, k) == LET st == KmerStarts(s, k) IN [j \in 1..Len(st) |-> WindowDigits(s, st[j], k)]

(* the canonical k-mers of s, in order of position: what KmerMap.NormalizedKmerSlice must return *)
CanonKmers(s, k, sparse) ==
  LET st == KmerStarts(s, k) IN [j \in 1..Len(st) |-> CanonKey(WindowDigits(s, st[j], k), sparse)]

(* multiset of the elements of a sequence *)
KmerBag(q) == [x \in {q[i] : i \in 1..Len(q)} |-> Cardinality({i \in 1..Len(q) : q[i] = x})]

(* rendering of a key as KmerMap.KmerAsString does: letters, '#' at the ignored central position *)
KeyLetters(key) == [i \in 1..Len(key) |-> DigitLetter(key[i])]
KeyString(key, sparse) ==
  IF ~sparse THEN KeyLetters(key)
  ELSE LET h == Len(key) \div 2                      \* key has k-1 digits, h on each side
       IN [i \in 1..(Len(key) + 1) |-> IF i <= h THEN DigitLetter(key[i])
                                        ELSE IF i = h + 1 THEN "#" ELSE DigitLetter(key[i - 1])]

---------------------------------------------------------------------------
(* Part 3 - 4-mer table: number of occurrences of every 4-mer (sequences over a c g t u) *)

FourMerCode(w) == 64 * w[1] + 16 * w[2] + 4 * w[3] + w[4]
FourMerCodes(s) == [p \in 1..(Len(s) - 3) |-> FourMerCode(WindowDigits(s, p, 4))]     \* <<>> when Len(s) < 4
FourMerCount(s, c) == Cardinality({p \in 1..(Len(s) - 3) : FourMerCode(WindowDigits(s, p, 4)) = c})
(* the non-zero entries of the table, as a set of <<code, count>> *)
FourMerTable(s) == LET q == FourMerCodes(s) IN {<<c, Cardinality({p \in 1..Len(q) : q[p] = c})>> : c \in {q[p] : p \in 1..Len(q)}}

(* number of 4-mer occurrences shared by two sequences (obikmer.Common4Mer on two tables): sum over the   *)
(* codes of the smaller of the two counts                                                                 *)
FourMerCommon(a, b) ==
  LET ta == FourMerTable(a)  tb == FourMerTable(b)
      both == {<<e, f>> \in ta \X tb : e[1] = f[1]}
  IN FoldLeft(LAMBDA acc, p : acc + (IF p[1][2] <= p[2][2] THEN p[1][2] ELSE p[2][2]), 0, SetToSeq(both))

---------------------------------------------------------------------------
(* Part 4 - rolling model.  A machine word is a tuple of WL digits, most significant first.  *)

OrD(a, b)  == (IF a \div 2 = 1 \/ b \div 2 = 1 THEN 2 ELSE 0) + (IF a % 2 = 1 \/ b % 2 = 1 THEN 1 ELSE 0)
AndD(a, b) == (IF a \div 2 = 1 /\ b \div 2 = 1 THEN 2 ELSE 0) + (IF a % 2 = 1 /\ b % 2 = 1 THEN 1 ELSE 0)
WOr(u, v)  == [i \in 1..Len(u) |-> OrD(u[i], v[i])]
WAnd(u, v) == [i \in 1..Len(u) |-> AndD(u[i], v[i])]
WShl(u) == Tail(u) \o <<0>>                            \* << 2 : the top digit is lost
WShr(u) == <<0>> \o SubSeq(u, 1, Len(u) - 1)           \* >> 2
WZero(WL) == [i \in 1..WL |-> 0]
(* digit d shifted left by r digits *)
WDigit(d, r, WL) == [i \in 1..WL |-> IF i = WL - r THEN d ELSE 0]
(* digits of right-index lo..hi set to 3 (right-index 0 = least significant) *)
WMask(lo, hi, WL) == [i \in 1..WL |-> IF WL - i >= lo /\ WL - i <= hi THEN 3 ELSE 0]
WLess(u, v) == KmerLess(u, v)
WPad(key, WL) == [i \in 1..WL |-> IF i <= WL - Len(key) THEN 0 ELSE key[i - (WL - Len(key))]]

(* NewKmerMap: kmermask, leftMask, rightMask (sparseAt = k \div 2 counted from the left, 0-based) *)
RollKmerMask(k, WL)  == WMask(0, k - 1, WL)
RollLeftMask(k, WL)  == LET at == k \div 2  pos == k - 1 - at IN WMask(pos + 1, pos + at, WL)
RollRightMask(k, WL) == LET at == k \div 2  pos == k - 1 - at IN WMask(0, pos - 1, WL)
RollMakeSparse(x, k, WL) == WOr(WShr(WAnd(x, RollLeftMask(k, WL))), WAnd(x, RollRightMask(k, WL)))

RollNormalized(fw, rv, k, sparse, WL) ==
  LET f == IF sparse THEN RollMakeSparse(fw, k, WL) ELSE fw
      r == IF sparse THEN RollMakeSparse(rv, k, WL) ELSE rv
  IN IF WLess(f, r) THEN f ELSE r

(* NormalizedKmerSlice: forward and reverse-complement words rolled together.  masked = FALSE is  *)
(* the loop without "& kmermask" on the forward word.                                             *)
RollStep(st, x, k, sparse, WL, masked) ==
  LET sh  == WShl(st.cur)
      cur == IF masked THEN WAnd(sh, RollKmerMask(k, WL)) ELSE sh
      cc  == WShr(st.ccur)
  IN IF ~UnambTab[x]
     THEN [cur |-> WZero(WL), ccur |-> WZero(WL), size |-> 0, out |-> st.out]
     ELSE LET d    == DigitTab[x]
              cur2 == WOr(cur, WDigit(d, 0, WL))
              cc2  == WOr(cc, WDigit(3 - d, k - 1, WL))
          IN IF st.size + 1 = k
             THEN [cur |-> cur2, ccur |-> cc2, size |-> k - 1,
                   out |-> Append(st.out, RollNormalized(cur2, cc2, k, sparse, WL))]
             ELSE [cur |-> cur2, ccur |-> cc2, size |-> st.size + 1, out |-> st.out]

RollKmers(s, k, sparse, WL, masked) ==
  IF Len(s) < k THEN <<>>
  ELSE FoldLeft(LAMBDA st, x : RollStep(st, x, k, sparse, WL, masked),
                [cur |-> WZero(WL), ccur |-> WZero(WL), size |-> 0, out |-> <<>>], s).out

(* Encode4mer: one byte = 4 digits, "code <<= 2; code |= digit" *)
Roll4Codes(s) ==
  IF Len(s) < 4 THEN <<>>
  ELSE FoldLeft(LAMBDA st, i :
                  LET w == WOr(WShl(st.w), WDigit(DigitTab[s[i]], 0, 4))
                  IN [w |-> w, out |-> IF i >= 4 THEN Append(st.out, FourMerCode(w)) ELSE st.out],
                [w |-> WZero(4), out |-> <<>>], KUpto(Len(s))).out
=============================================================================

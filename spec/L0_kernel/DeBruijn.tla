------------------------------- MODULE DeBruijn -------------------------------
(***************************************************************************)
(* L0 kernel library (property C19): the De Bruijn graph of a set of       *)
(* counted sequences (obikmer.DeBruijnGraph) and its heaviest path.        *)
(*                                                                         *)
(* Input: S = tuple of sequences (tuples of IUPAC symbols, Kmer.tla),      *)
(*        C = tuple of their counts, k = k-mer size.                       *)
(* A node is a k-mer (tuple of k digits).  A k-mer x OCCURS at position p  *)
(* of s when every digit x[i] is one of the bases the symbol s[p+i-1]      *)
(* stands for (an ambiguity code stands for each of its bases).            *)
(*   Weight(x) = sum over the sequences of count * number of occurrences   *)
(*   nodes     = the k-mers of weight > 0                                  *)
(*   x -> y    iff the last k-1 digits of x are the first k-1 digits of y  *)
(*   a WALK is a non-empty sequence of nodes following the edges; its      *)
(*   weight is the sum of the weights of its nodes (with repetition);      *)
(*   a SOURCE is a node without predecessor.                               *)
(*   Heaviest  = max weight of a walk starting at a source - defined when  *)
(*               the graph has no cycle (with a cycle walks are unbounded: *)
(*               no path is returned).                                     *)
(* Two definitions of cycle/heaviest are given and TLC checks that they    *)
(* agree (DeBruijnCheck): the declarative one (all walks enumerated) and a *)
(* linear one (sources first, a node is settled when all its predecessors  *)
(* are) that the trace specification can afford on graphs of 10^3 nodes.   *)
(***************************************************************************)
EXTENDS Integers, Sequences, FiniteSets, SequencesExt, TLC, Kmer

---------------------------------------------------------------------------
(* weights *)

(* x occurs at position p of s *)
OccursAt(x, s, p) == \A i \in 1..Len(x) : x[i] \in NucCodeTab[s[p + i - 1]]
Occ(x, s) == Cardinality({p \in 1..(Len(s) - Len(x) + 1) : OccursAt(x, s, p)})

DBSum(q) == FoldLeft(LAMBDA a, b : a + b, 0, q)

WeightOf(x, S, C) == DBSum([i \in 1..Len(S) |-> C[i] * Occ(x, S[i])])

(* the k-mers occurring at position p of s: one per choice of a base for every symbol *)
WindowKmers(s, p, k) ==
  FoldLeft(LAMBDA acc, i : {Append(w, d) : w \in acc, d \in NucCodeTab[s[p + i - 1]]}, {<<>>}, KUpto(k))

NodesOf(S, k) == UNION {UNION {WindowKmers(S[i], p, k) : p \in 1..(Len(S[i]) - k + 1)} : i \in 1..Len(S)}

(* declarative weight table *)
WeightsDecl(S, C, k) == [x \in NodesOf(S, k) |-> WeightOf(x, S, C)]

(* the same table accumulated window by window (what the trace specification evaluates) *)
AddWeight(f, x, c) == IF x \in DOMAIN f THEN [f EXCEPT ![x] = @ + c] ELSE f @@ (x :> c)
AddWindow(f, s, p, k, c) ==
  IF ClearWindow(s, p, k) THEN AddWeight(f, WindowDigits(s, p, k), c)
  ELSE FoldLeft(LAMBDA g, x : AddWeight(g, x, c), f, SetToSeq(WindowKmers(s, p, k)))
AddSequence(f, s, k, c) == FoldLeft(LAMBDA g, p : AddWindow(g, s, p, k, c), f, KUpto(Len(s) - k + 1))
WeightsFold(S, C, k) == FoldLeft(LAMBDA f, i : AddSequence(f, S[i], k, C[i]), <<>>, KUpto(Len(S)))

---------------------------------------------------------------------------
(* graph on a node set N (set of k-mers), weights W (function on N) *)

Succs(x, N) == {y \in {Append(Tail(x), d) : d \in NucDigits} : y \in N}
Preds(x, N) == {y \in {<<d>> \o SubSeq(x, 1, Len(x) - 1) : d \in NucDigits} : y \in N}
Sources(N) == {x \in N : Preds(x, N) = {}}
EdgesOf(N) == {<<x, y>> \in N \X N : y \in Succs(x, N)}

IsWalk(p, N) == /\ Len(p) >= 1
                /\ \A i \in 1..Len(p) : p[i] \in N
                /\ \A i \in 1..(Len(p) - 1) : p[i + 1] \in Succs(p[i], N)
IsSourceWalk(p, N) == IsWalk(p, N) /\ p[1] \in Sources(N)
WalkWeight(p, W) == DBSum([i \in 1..Len(p) |-> W[p[i]]])

(* the sequence spelled by a walk: the first k-mer, then the last digit of every further node *)
WalkDigits(p) == IF p = <<>> THEN <<>> ELSE p[1] \o [i \in 1..(Len(p) - 1) |-> p[i + 1][Len(p[i + 1])]]
WalkLetters(p) == KeyLetters(WalkDigits(p))
(* the walk spelled by a plain sequence (inverse of WalkDigits) *)
WalkOfDigits(q, k) == [p \in 1..(Len(q) - k + 1) |-> SubSeq(q, p, p + k - 1)]

---------------------------------------------------------------------------
(* declarative cycle / heaviest (small graphs) *)

RECURSIVE ReachClosure(_, _)
ReachClosure(F, N) == LET G == F \cup UNION {Succs(y, N) : y \in F} IN IF G = F THEN F ELSE ReachClosure(G, N)
HasCycleDecl(N) == \E x \in N : x \in ReachClosure(Succs(x, N), N)

RECURSIVE ExtendWalks(_, _)
ExtendWalks(p, N) == {p} \cup UNION {ExtendWalks(Append(p, y), N) : y \in Succs(p[Len(p)], N)}
SourceWalks(N) == UNION {ExtendWalks(<<x>>, N) : x \in Sources(N)}          \* finite iff no cycle

MaxOf(V) == IF V = {} THEN 0 ELSE CHOOSE v \in V : \A w \in V : v >= w
HeaviestDecl(N, W) == MaxOf({WalkWeight(p, W) : p \in SourceWalks(N)})
HeaviestWalksDecl(N, W) == {p \in SourceWalks(N) : WalkWeight(p, W) = HeaviestDecl(N, W)}

---------------------------------------------------------------------------
(* linear evaluation: settle the sources, then every node whose predecessors are all settled.  *)
(* st.dist[x] = heaviest walk from a source ending at x (final once x is settled).             *)

SettleStep(st, N, W) ==
  IF st.queue = <<>> THEN st
  ELSE LET x  == Head(st.queue)
           sx == SetToSeq(Succs(x, N))
           d  == FoldLeft(LAMBDA f, y : IF f[y] < st.dist[x] + W[y] THEN [f EXCEPT ![y] = st.dist[x] + W[y]] ELSE f,
                          st.dist, sx)
           g  == FoldLeft(LAMBDA f, y : [f EXCEPT ![y] = @ - 1], st.indeg, sx)
           rd == SelectSeq(sx, LAMBDA y : g[y] = 0)
       IN [queue |-> Tail(st.queue) \o rd, dist |-> d, indeg |-> g, settled |-> st.settled + 1,
           best |-> IF st.dist[x] > st.best THEN st.dist[x] ELSE st.best]

Settle(N, W) ==
  LET src == Sources(N)
      st0 == [queue |-> SetToSeq(src),
              dist  |-> [x \in N |-> IF x \in src THEN W[x] ELSE 0],
              indeg |-> [x \in N |-> Cardinality(Preds(x, N))],
              settled |-> 0, best |-> 0]
  IN FoldLeft(LAMBDA st, i : SettleStep(st, N, W), st0, KUpto(Cardinality(N)))

(* <<has a cycle, heaviest weight (0 with a cycle or on the empty graph)>> *)
CycleAndHeaviest(N, W) ==
  LET st == Settle(N, W) IN IF st.settled < Cardinality(N) THEN <<TRUE, 0>> ELSE <<FALSE, st.best>>

---------------------------------------------------------------------------
(* "a single sequence without repeat is returned unchanged" *)

DistinctWindows(s, m) == \A p, q \in 1..(Len(s) - m + 1) : p # q => WindowDigits(s, p, m) # WindowDigits(s, q, m)
(* no (k-1)-mer occurs twice: the graph is the simple path of the k-mers of s *)
RepeatFree(s, k) == PlainSeq(s) /\ Len(s) >= k /\ DistinctWindows(s, k - 1)
(* weaker: no k-mer occurs twice (edges may still close a cycle or shortcut the path) *)
DistinctKmers(s, k) == PlainSeq(s) /\ Len(s) >= k /\ DistinctWindows(s, k)
SeqDigits(s) == [i \in 1..Len(s) |-> DigitTab[s[i]]]

---------------------------------------------------------------------------
(* judgement of an answer of the real code, given N, W and ch = CycleAndHeaviest(N, W).       *)
(* path: the nodes returned by HaviestPath (<<>> when none).  Ties are allowed: ANY walk from  *)
(* a source with the maximal weight is accepted.                                              *)
JudgePath(path, N, W, ch) ==
  IF ch[1] THEN (IF path = <<>> THEN "ok" ELSE "path_iff_acyclic")
  ELSE IF N = {} THEN (IF path = <<>> THEN "ok" ELSE "walk_valid")
  ELSE IF path = <<>> THEN "path_iff_acyclic"
  ELSE IF ~IsSourceWalk(path, N) THEN "walk_valid"
  ELSE IF WalkWeight(path, W) # ch[2] THEN "heaviest_weight"
  ELSE "ok"

(* cons: the digits of the consensus sequence (<<>> when LongestConsensus returned an error) *)
JudgeConsensus(cons, k, N, W, ch) ==
  IF ch[1] \/ N = {} THEN (IF cons = <<>> THEN "ok" ELSE "consensus_iff_acyclic")
  ELSE IF Len(cons) < k THEN "consensus_iff_acyclic"
  ELSE LET j == JudgePath(WalkOfDigits(cons, k), N, W, ch) IN IF j = "ok" THEN "ok" ELSE "consensus_" \o j
=============================================================================

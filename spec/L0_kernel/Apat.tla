-------------------------------- MODULE Apat --------------------------------
(***************************************************************************)
(* Primer / pattern matching of obitools4 (property C10).                  *)
(*                                                                         *)
(* Constant-level operator library: the mathematical meaning of            *)
(*   - the textual pattern syntax of pkg/obiapat (IUPAC letters, bracket   *)
(*     classes "[AC]", negation "!", obligatory positions "#"),            *)
(*   - "the pattern matches at position p with k mismatches",              *)
(*   - the reverse-complemented pattern,                                   *)
(*   - "some substring lies within the edit budget" (Sellers) and the edit *)
(*     distance between the pattern and a span of the sequence,            *)
(*   - search windows (begin, length),                                     *)
(*   - the acceptance predicates for every observable of the Go API        *)
(*     (FindAllIndex, IsMatching, FilterBestMatch, AllMatches, BestMatch,  *)
(*     obialign.LocatePattern): where the property leaves a choice (ties,  *)
(*     which optimal span, window end) the predicate accepts the set.      *)
(*                                                                         *)
(* Encoding.  Sequence symbols are small integers: a=0 c=1 g=2 t=3 and 4   *)
(* for any other letter (n, r, ...: the matcher's text alphabet is acgt,   *)
(* an ambiguity code in the SEQUENCE matches no plain pattern symbol, see  *)
(* sDnaCode in apat_parse.c).  Pattern text is a sequence of one-character *)
(* strings.  Positions are 0-based, spans half-open [from, to), as in Go.  *)
(* A sequence S is a 1-based TLA+ tuple: the symbol at position p is       *)
(* S[p+1].                                                                 *)
(***************************************************************************)
EXTENDS Integers, Sequences, FiniteSets, SequencesExt

Min2(a, b) == IF a <= b THEN a ELSE b
Max2(a, b) == IF a >= b THEN a ELSE b
Min3(a, b, c) == Min2(a, Min2(b, c))
SetMin(s) == CHOOSE x \in s : \A y \in s : x <= y

---------------------------------------------------------------------------
(* alphabet *)

Nuc == 0..3
Other == 4
CompNuc(x) == IF x \in Nuc THEN 3 - x ELSE x
CompSet(s) == {3 - x : x \in s}
RC(S) == [i \in 1..Len(S) |-> CompNuc(S[Len(S) + 1 - i])]

(* IUPAC nucleotide codes usable in a pattern *)
Iupac == [A |-> {0}, C |-> {1}, G |-> {2}, T |-> {3}, U |-> {3},
          R |-> {0, 2}, Y |-> {1, 3}, S |-> {1, 2}, W |-> {0, 3}, K |-> {2, 3}, M |-> {0, 1},
          B |-> {1, 2, 3}, D |-> {0, 2, 3}, H |-> {0, 1, 3}, V |-> {0, 1, 2}, N |-> {0, 1, 2, 3}]
Letters == DOMAIN Iupac

Upper == [a |-> "A", c |-> "C", g |-> "G", t |-> "T", u |-> "U", r |-> "R", y |-> "Y", s |-> "S",
          w |-> "W", k |-> "K", m |-> "M", b |-> "B", d |-> "D", h |-> "H", v |-> "V", n |-> "N"]
Up(ch) == IF ch \in DOMAIN Upper THEN Upper[ch] ELSE ch

---------------------------------------------------------------------------
(* pattern syntax:   pattern ::= symbol+                                     *)
(*                   symbol  ::= ["!"] ( LETTER | "[" LETTER+ "]" ) ["#"]    *)
(* A parsed symbol is [set |-> subset of Nuc, neg |-> BOOLEAN, ob |-> BOOLEAN]. *)

RECURSIVE ParseFrom(_, _)
ParseFrom(t, i) ==
  IF i > Len(t) THEN <<>>
  ELSE LET neg   == t[i] = "!"
           k     == IF neg THEN i + 1 ELSE i
           br    == t[k] = "["
           close == IF br THEN CHOOSE q \in (k + 1)..Len(t) :
                                 t[q] = "]" /\ \A r \in (k + 1)..(q - 1) : t[r] # "]"
                    ELSE k
           set   == IF br THEN UNION {Iupac[Up(t[r])] : r \in (k + 1)..(close - 1)}
                    ELSE Iupac[Up(t[k])]
           ob    == close < Len(t) /\ t[close + 1] = "#"
           nxt   == close + 1 + (IF ob THEN 1 ELSE 0)
       IN  <<[set |-> set, neg |-> neg, ob |-> ob]>> \o ParseFrom(t, nxt)

Parse(t) == ParseFrom(t, 1)

(* "pure" patterns: IUPAC letters only.  AllMatches/BestMatch re-align indel hits with the    *)
(* pattern TEXT (obialign.LocatePattern), which is documented to work for such patterns only. *)
PureText(t) == \A i \in 1..Len(t) : Up(t[i]) \in Letters
ObFree(P)   == \A j \in 1..Len(P) : ~P[j].ob

(* a sequence symbol x is matched by a pattern symbol *)
SymMatch(sym, x) == IF sym.neg THEN x \notin sym.set ELSE x \in sym.set

(* reverse complement of a pattern: symbols in reverse order, each set complemented, the   *)
(* modifiers stay attached to their symbol                                                  *)
Comp(P) == [i \in 1..Len(P) |->
              LET q == P[Len(P) + 1 - i] IN [set |-> CompSet(q.set), neg |-> q.neg, ob |-> q.ob]]

---------------------------------------------------------------------------
(* mismatch-only matching *)

(* definition (the property's words): number of mismatching positions of P laid on S at p *)
MismFull(P, S, p) == Cardinality({j \in 1..Len(P) : ~SymMatch(P[j], S[p + j])})
ObligOK(P, S, p)  == \A j \in 1..Len(P) : P[j].ob => SymMatch(P[j], S[p + j])

(* hits <<p, k>> with the window of P entirely inside S[lo, hi) *)
SubHitsRef(P, S, e, lo, hi) ==
  {<<p, MismFull(P, S, p)>> : p \in {q \in lo..(hi - Len(P)) : ObligOK(P, S, q) /\ MismFull(P, S, q) <= e}}

(* the same with an early cut-off (used on long recorded sequences; equality with the *)
(* definition is a theorem checked by TLC on the bounded model)                       *)
RECURSIVE MismFrom(_, _, _, _, _, _)
MismFrom(P, S, p, j, acc, cap) ==
  IF j > Len(P) THEN acc
  ELSE IF SymMatch(P[j], S[p + j]) THEN MismFrom(P, S, p, j + 1, acc, cap)
  ELSE IF P[j].ob \/ acc >= cap THEN cap + 1
  ELSE MismFrom(P, S, p, j + 1, acc + 1, cap)
Mism(P, S, p, cap) == MismFrom(P, S, p, 1, 0, cap)

SubHits(P, S, e, lo, hi) ==
  LET m == [q \in lo..(hi - Len(P)) |-> Mism(P, S, q, e)]
  IN  {<<q, m[q]>> : q \in {r \in DOMAIN m : m[r] <= e}}

Mirror(H, n, m) == {<<n - m - h[1], h[2]>> : h \in H}

---------------------------------------------------------------------------
(* matching with insertions and deletions *)

(* One column of the edit-distance table (pattern prefixes 0..m) after reading the text  *)
(* symbol x.  free = TRUE: a match may start anywhere (Sellers); FALSE: global distance.  *)
ColInit(m) == [k \in 1..(m + 1) |-> k - 1]

(* (folds are written with SequencesExt!FoldLeft: TLC evaluates it iteratively, a recursive   *)
(* operator would make every name lookup linear in the recursion depth)                      *)
ColStep(P, x, old, free) ==
  FoldLeft(LAMBDA acc, k : Append(acc, Min3(old[k - 1] + (IF SymMatch(P[k - 1], x) THEN 0 ELSE 1),  \* (mis)match
                                            old[k] + 1,                                              \* x inserted
                                            acc[k - 1] + 1)),                                        \* P[k-1] deleted
           <<IF free THEN 0 ELSE old[1] + 1>>,
           [k \in 1..Len(P) |-> k + 1])

(* edit distance between the whole pattern and the span S[from, to) *)
EdSpan(P, S, from, to) ==
  IF to <= from THEN Len(P) ELSE
  FoldLeft(LAMBDA col, i : ColStep(P, S[i], col, FALSE), ColInit(Len(P)),
           [i \in 1..(to - from) |-> from + i])[Len(P) + 1]

(* textbook recursive definition of the edit distance between the first i pattern symbols  *)
(* and the first j symbols of S[from ..): the reference EdSpan is checked against (tiny     *)
(* arguments only, the recursion is exponential)                                            *)
RECURSIVE EdRec(_, _, _, _, _)
EdRec(P, S, from, i, j) ==
  IF i = 0 THEN j ELSE IF j = 0 THEN i
  ELSE Min3(EdRec(P, S, from, i - 1, j - 1) + (IF SymMatch(P[i], S[from + j]) THEN 0 ELSE 1),
            EdRec(P, S, from, i - 1, j) + 1,
            EdRec(P, S, from, i, j - 1) + 1)

(* Sellers scan of S[lo, hi): sequence of <<pos - |P| + 1, d>> for every end position pos  *)
(* at which the best substring of S[lo, pos] has distance d <= e.  The first component is   *)
(* the NOMINAL start the bit-parallel matcher reports (ManberIndel: "may return shifted     *)
(* pos"), the true start is recovered by re-alignment.                                      *)
Scan(P, S, lo, hi, e) ==
  IF hi <= lo THEN <<>> ELSE
  FoldLeft(LAMBDA st, pos :
              LET c2 == ColStep(P, S[pos + 1], st[1], TRUE)
                  d  == c2[Len(P) + 1]
              IN  <<c2, IF d <= e THEN Append(st[2], <<pos - Len(P) + 1, d>>) ELSE st[2]>>,
           <<ColInit(Len(P)), <<>> >>,
           [i \in 1..(hi - lo) |-> lo + i - 1])[2]
IndelHitSeq(P, S, e, lo, hi) == Scan(P, S, lo, hi, e)
IndelHits(P, S, e, lo, hi)   == Range(IndelHitSeq(P, S, e, lo, hi))

(* definition: at end position pos the reported error is the smallest distance between P  *)
(* and a (possibly empty) substring S[s, pos+1) with s >= lo                                *)
IndelHitsRef(P, S, e, lo, hi) ==
  LET d(pos) == SetMin({EdSpan(P, S, s, pos + 1) : s \in lo..(pos + 1)})
  IN  {<<pos - Len(P) + 1, d(pos)>> : pos \in {q \in lo..(hi - 1) : d(q) <= e}}

---------------------------------------------------------------------------
(* search windows.  FindAllIndex(seq, begin, length): begin < 0 means 0, length < 0 means *)
(* the sequence length.  The automaton is started at begin; the scan is allowed to run    *)
(* slack = MAX_PAT_LEN symbols past begin+length so that a match STARTING inside the      *)
(* window can complete.  What must be reported: matches starting in [begin, begin+length) *)
(* (indel mode: substrings ending there) that lie inside the sequence.  What may be       *)
(* reported: anything found before begin+length+slack.  Nothing else.                     *)

WinLo(b)        == Max2(b, 0)
WinLen(l, n)    == IF l < 0 THEN n ELSE l
WinHiAlw(b, l, n, slack) == Min2(WinLo(b) + WinLen(l, n) + slack, n)
WinHiReq(b, l, n)        == Min2(WinLo(b) + WinLen(l, n), n)

(* hits of either mode: set of <<p, k>> *)
Hits(P, S, e, indel, lo, hi) ==
  IF indel THEN IndelHits(P, S, e, lo, hi) ELSE SubHits(P, S, e, lo, hi)

Allowed(P, S, e, indel, b, l, slack) ==
  Hits(P, S, e, indel, WinLo(b), WinHiAlw(b, l, Len(S), slack))

(* mismatch mode: the match starts inside the window; indel mode: the substring ends inside it *)
RequiredOf(A, m, n, indel, b, l) ==
  LET hr == WinHiReq(b, l, n) IN {h \in A : IF indel THEN h[1] + m <= hr ELSE h[1] < hr}
Required(P, S, e, indel, b, l, slack) ==
  RequiredOf(Allowed(P, S, e, indel, b, l, slack), Len(P), Len(S), indel, b, l)

---------------------------------------------------------------------------
(* acceptance predicates for the observables; each returns "ok" or a reason *)

Pairs(R)  == {<<R[i][1], R[i][3]>> : i \in DOMAIN R}
MinErr(H) == SetMin({h[2] : h \in H})

(* FindAllIndex: list R of <<start, end, err>> *)
FindVerdict(R, A, Q, m) ==
  IF \E i \in DOMAIN R : R[i][2] # R[i][1] + m THEN "end"
  ELSE IF Cardinality(Pairs(R)) # Len(R) THEN "duplicate"
  ELSE IF \E h \in Pairs(R) : h \notin A /\ (\E g \in A : g[1] = h[1]) THEN "errcount"
  ELSE IF ~(Pairs(R) \subseteq A) THEN "spurious"
  ELSE IF ~(Q \subseteq Pairs(R)) THEN "missing"
  ELSE "ok"

IsMatchVerdict(ism, A, Q) ==
  IF ism = 1 /\ A = {} THEN "spurious" ELSE IF ism = 0 /\ Q # {} THEN "missing" ELSE "ok"

(* FilterBestMatch, and AllMatches when no re-alignment takes place: the best of each run of *)
(* overlapping hits: genuine hits, in increasing order, pairwise non-overlapping even when   *)
(* each is widened by its error count, something reported iff there is a hit, and the best   *)
(* reported error is the best error of all hits.                                             *)
FilterVerdict(R, A, Q, m) ==
  IF \E i \in DOMAIN R : R[i][2] # R[i][1] + m THEN "end"
  ELSE IF ~(Pairs(R) \subseteq A) THEN "nothit"
  ELSE IF Q # {} /\ Len(R) = 0 THEN "missing"
  ELSE IF \E i \in 1..(Len(R) - 1) : R[i + 1][1] - R[i + 1][3] < R[i][2] + R[i][3] THEN "overlap"
  ELSE IF Q # {} /\ MinErr(Pairs(R)) > MinErr(Q) THEN "notbest"
  ELSE "ok"

(* a re-aligned span <<from, to, err>>: inside the sequence, within the budget, and err is *)
(* the edit distance between the pattern and the span                                      *)
SpanVerdict(P, S, e, r) ==
  IF ~(0 <= r[1] /\ r[1] <= r[2] /\ r[2] <= Len(S)) THEN "outside"
  ELSE IF r[3] > e \/ r[3] < 0 THEN "budget"
  ELSE IF EdSpan(P, S, r[1], r[2]) # r[3] THEN "errcount"
  ELSE "ok"

RECURSIVE FirstBad(_, _, _, _, _)
FirstBad(P, S, e, R, i) ==
  IF i > Len(R) THEN "ok"
  ELSE LET v == SpanVerdict(P, S, e, R[i]) IN IF v # "ok" THEN v ELSE FirstBad(P, S, e, R, i + 1)

(* AllMatches in indel mode (pure pattern): every span is right, something is reported iff *)
(* some substring lies within the budget                                                   *)
AllIndelVerdict(P, S, e, R, A, Q) ==
  IF Q # {} /\ Len(R) = 0 THEN "missing"
  ELSE IF A = {} /\ Len(R) # 0 THEN "spurious"
  ELSE FirstBad(P, S, e, R, 1)

(* BestMatch: r = <<start, end, err, matched>>.  Unmatched is accepted when nothing has to  *)
(* be found, or (indel mode) when a best hit has its nominal window partly before the       *)
(* sequence start (not asserted either way).  A reported match is a genuine one with the    *)
(* smallest error count (ties: any).                                                        *)
BestVerdict(P, S, e, indel, r, A, Q) ==
  IF r[4] = 0 THEN
     IF Q = {} THEN "ok"
     ELSE IF indel /\ \E h \in A : h[1] < 0 /\ h[2] = MinErr(A) THEN "ok"
     ELSE "missing"
  ELSE IF A = {} THEN "spurious"
  ELSE IF ~indel THEN
          IF r[2] # r[1] + Len(P) THEN "end"
          ELSE IF <<r[1], r[3]>> \notin A THEN "nothit"
          ELSE IF Q # {} /\ r[3] > MinErr(Q) THEN "notbest"
          ELSE "ok"
  ELSE LET v == SpanVerdict(P, S, e, <<r[1], r[2], r[3]>>) IN
       IF v # "ok" THEN v
       ELSE IF Q # {} /\ r[3] > MinErr(Q) THEN "notbest"
       ELSE "ok"

(* obialign.LocatePattern(pattern, sequence) = <<from, to, err>>: err is the smallest edit  *)
(* distance between the pattern and a substring, [from, to) is a substring achieving it     *)
LocateVerdict(P, S, r) ==
  LET best == MinErr(IndelHits(P, S, Len(P), 0, Len(S))) IN
  IF ~(0 <= r[1] /\ r[1] <= r[2] /\ r[2] <= Len(S)) THEN "outside"
  ELSE IF r[3] # best THEN "notbest"
  ELSE IF EdSpan(P, S, r[1], r[2]) # r[3] THEN "errcount"
  ELSE "ok"
=============================================================================

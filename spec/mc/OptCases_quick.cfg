CONSTANTS NSeedGrep = 150  NSeedPair = 40  NSeedAnnot = 150  PairAll = FALSE
  Tools = {"data", "grep", "annot", "dist", "mux"}
INIT Init
NEXT Next
INVARIANTS WellFormedCase GrepPartition GrepConjunction GrepMonotonePaired GrepInvert GrepPairTable AnnotFrame AnnotEveryOccurrence DistPartition Export

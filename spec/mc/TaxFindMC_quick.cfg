CONSTANTS MaxN = 4  RankVariants = {3}  NameVariants = {0, 1}  AltVariants = {0, 1}  AliasVariants = {1}
INIT Init
NEXT Next
INVARIANTS WellFormed RestrictionLaws NameLaws AsWrittenLaws PathLaws LineLaws AnnotLaws LcaLaws LcaCaseLaws VerdictLaws Export

CONSTANTS Fixed = TRUE  Suites <- ThoroughSuites
INIT Init
NEXT Next
INVARIANTS TypeOK Lemma4Holds KernelFacts ScanLossless ScanPruneSound IndexLossless IndexClauses AssignedCovers Export

CONSTANTS MaxN = 5  RankVariants = {0, 3}  NameVariants = {1}  AltVariants = {0, 2}  AliasVariants = {1}
INIT Init
NEXT Next
INVARIANTS WellFormed RestrictionLaws NameLaws AsWrittenLaws PathLaws LineLaws AnnotLaws LcaLaws LcaCaseLaws VerdictLaws Export

CONSTANTS MaxObj = 3  Depth = 4
  Starts <- StartsThorough  NewVals <- NewValsThorough
  OpKinds = {"new", "copy", "sub", "rc", "setseq", "setqual", "mutate", "recycle", "join"}
  WinKinds = {"tail", "wrap", "over"}
INIT Init
NEXT Next
INVARIANTS Ownership WellFormedAll PoolPoisoned ValueSemantics Export

CONSTANTS MaxN = 3  Lens = {0,1,3}  CAP = 2
SPECIFICATION Spec
INVARIANTS NoSilentLoss FaultReported NoFalseAlarm Export
PROPERTIES Terminates

CONSTANTS
  Pieces = {"A", "!T", "[AG]#", "![CT]#", "[RT]", "T#", "!A#"}
  MinP = 1  MaxP = 3
  Alpha = {0, 3, 4}
  MinS = 1  MaxS = 4
  Budgets = {0, 1, 2}
  Modes = {0, 1}
  WinSet = "basic"
  Slack = 64
  RefMax = 8
INIT Init
NEXT Next
INVARIANTS ParseThm CompInvolutive SubRefThm CompThmSub SellersThm EdRefThm CompThmIndel MonotoneThm ModesThm WindowThm VerdictThm Export

CONSTANTS MaxN = 5  Sizes = {0,1}  MaxW = 4  BSizes = {2}  KeepAll = TRUE
SPECIFICATION Spec
VIEW ViewNoHist
INVARIANTS TypeOK ProvedInvariant ProvedAtEnd
PROPERTIES RefinesReseq

CONSTANTS GConfigs <- GQuickConfigs
INIT Init
NEXT Next
INVARIANTS FoldAgrees WeightsSane SettleAgrees JudgeSound SingleRepeatFree SingleDistinct Export

\* in memory, 2 workers, 2 category levels, 4 records
CONSTANTS N = 4  SeqIds = {1, 2}  CatIds = {1, 2}  NCat = 2  NChunks = 2  W = 2  OnDisk = FALSE  SyncClose = TRUE
INIT Init
NEXT Next
INVARIANTS TypeOK ReadAfterClose NoPushAfterClose AtMostOnce ExactlyOnceWhenClosed WaitGroupCovers

CONSTANTS
  Family = "planted"
  Alpha = {}
  MinN = 0  MaxN = 0
  SiteKinds = {"F0", "F1", "R0", "R1e", "f0", "r0"}
  GapLens = {0, 1}
  MaxSites = 3
  MaxLen = 16
  PairIds = {6, 8}
  CfgIds = {1, 2, 3, 4, 5, 6, 7, 8, 9, 10, 11, 12, 13, 14, 15, 16, 17, 18}
  Stride = 8
INIT Init
NEXT Next
INVARIANTS DirectThm RCThm RotThm ResThm SoundThm BoundsThm BudgetThm FlankThm CircThm VerdictThm Export

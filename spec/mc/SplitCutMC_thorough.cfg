CONSTANTS MaxL = 8
  Cfgs = {"one", "two", "err", "pal", "rcpair", "pool", "palerr", "iupac"}
INIT Init
NEXT Next
INVARIANTS Sites Tiling Flanks FewChoices Strand Export

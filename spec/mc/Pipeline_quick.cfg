CONSTANTS MaxN = 3  Sizes = {0,1,2}  MaxW = 3  BSizes = {1,2}  KeepAll = FALSE
SPECIFICATION Spec
VIEW ViewNoHist
INVARIANTS TypeOK SingleOwner Conservation Confluence PrefixOK NothingStuck
PROPERTIES Terminates

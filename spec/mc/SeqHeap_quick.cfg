CONSTANTS MaxObj = 3  Depth = 3
  Starts <- StartsQuick  NewVals <- NewValsQuick
  OpKinds = {"new", "copy", "sub", "rc", "setseq", "setqual", "mutate", "recycle", "join"}
  WinKinds = {"tail", "wrap"}
INIT Init
NEXT Next
INVARIANTS Ownership WellFormedAll PoolPoisoned ValueSemantics Export

CONSTANTS
  Families = {"lines", "strings", "records", "guess"}
  Steps = {0, 1, 2, 5, 17, 41}
  AllTails = TRUE
  MaxS = 4
  Alphabet <- AlphaDeep
INIT Init
NEXT Next
INVARIANTS GrammarAgrees TailsAreDefinitions DeparturesNamed SkipOnlyOnGluedText
           ReprSound ReprComplete NumCanonFixed
           ReprMatchesPool RoundTrip OrderFree Stable RepresentableAnywhere NotRepresentable BadDefinitions DefsAreDefinitions GuessOnWritten GuessLoneDefinition
           GuessTable Export

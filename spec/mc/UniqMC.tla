------------------------------- MODULE UniqMC -------------------------------
(* constant values of the Uniq models that a .cfg file cannot spell (tuples) *)
EXTENDS Uniq

KeySeq3 == <<"NA", "x", "y">>
(* not yet merged records: <<count, shape of attribute k, its value>> *)
PlainQ  == {<<1, "none", "">>, <<1, "val", "x">>, <<1, "val", "y">>, <<2, "val", "x">>}
PlainQ2 == {<<1, "none", "">>, <<1, "val", "x">>, <<2, "val", "x">>}
PlainT  == {<<1, "none", "">>, <<2, "none", "">>, <<1, "val", "x">>, <<2, "val", "x">>, <<1, "val", "y">>, <<2, "val", "y">>}
PlainD  == {<<1, "none", "">>, <<2, "none", "">>, <<1, "val", "x">>, <<2, "val", "x">>}
PlainL  == {<<1, "none", "">>, <<1, "val", "x">>, <<2, "val", "y">>}
(* already merged maps (weights of NA, x, y); the count of such a record is the total of its map *)
ShapesA == {<<1, 1, 0>>}
ShapesB == {<<0, 1, 0>>, <<1, 1, 0>>, <<0, 2, 1>>}
ShapesC == {<<0, 1, 1>>}
ShapesD == {<<0, 1, 0>>, <<1, 1, 0>>}
(* <<requested categories, -m k, --no-singleton>> *)
OptsCat1 == {<<0, TRUE, FALSE>>, <<1, TRUE, FALSE>>, <<1, TRUE, TRUE>>, <<1, FALSE, FALSE>>, <<0, FALSE, TRUE>>}
OptsFour == {<<0, TRUE, FALSE>>, <<1, TRUE, FALSE>>, <<1, TRUE, TRUE>>}
OptsCat2 == {<<2, TRUE, FALSE>>, <<2, TRUE, TRUE>>, <<1, TRUE, FALSE>>, <<2, FALSE, FALSE>>}
=============================================================================

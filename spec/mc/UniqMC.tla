------------------------------- MODULE UniqMC -------------------------------
(* constant values of the Uniq models that a .cfg file cannot spell (tuples) *)
EXTENDS Uniq

KeySeq3 == <<"NA", "x", "y">>
(* not yet merged records: <<count, shape of attribute k, its value>> *)
PlainQ  == {<<1, "none", "">>, <<1, "val", "x">>, <<1, "val", "y">>, <<2, "val", "x">>}
PlainQ2 == {<<1, "none", "">>, <<1, "val", "x">>, <<2, "val", "x">>}
PlainT  == {<<1, "none", "">>, <<2, "none", "">>, <<1, "val", "x">>, <<2, "val", "x">>, <<1, "val", "y">>, <<2, "val", "y">>}
PlainD  == {<<1, "none", "">>, <<2, "none", "">>, <<1, "val", "x">>, <<2, "val", "x">>}
PlainL  == {<<1, "none", "">>, <<1, "val", "x">>, <<2, "val", "y">>}
(* already merged maps (weights of NA, x, y); the count of such a record is the total of its map *)
ShapesA == {<<1, 1, 0>>}
ShapesB == {<<0, 1, 0>>, <<1, 1, 0>>, <<0, 2, 1>>}
ShapesC == {<<0, 1, 1>>}
ShapesD == {<<0, 1, 0>>, <<1, 1, 0>>}
(* <<requested categories, -m k, --no-singleton>> *)
OptsCat1 == {<<0, TRUE, FALSE>>, <<1, TRUE, FALSE>>, <<1, TRUE, TRUE>>, <<1, FALSE, FALSE>>, <<0, FALSE, TRUE>>}
OptsFour == {<<0, TRUE, FALSE>>, <<1, TRUE, FALSE>>, <<1, TRUE, TRUE>>}
OptsCat2 == {<<2, TRUE, FALSE>>, <<2, TRUE, TRUE>>, <<1, TRUE, FALSE>>, <<2, FALSE, FALSE>>}

(* ---- weighted descriptor -m k:w ----------------------------------------------------------------------- *)
(* complete shapes <<count, mt, mv, merged_k, w, wt, merged_k:w>> (maps = weights of NA, x, y; w = -1: no w) *)
Z3 == <<0, 0, 0>>
EmptySet == {}
(* records that no pass has merged yet: k absent / x / y, w absent / 0 / 2 / 3, count 1 / 2 *)
WRaw == {<<1, "none", "", Z3, -1, "none", Z3>>,  <<1, "none", "", Z3, 2, "none", Z3>>,
         <<1, "val", "x", Z3, -1, "none", Z3>>,  <<1, "val", "x", Z3, 2, "none", Z3>>,
         <<1, "val", "x", Z3, 3, "none", Z3>>,   <<2, "val", "y", Z3, 3, "none", Z3>>,
         <<1, "val", "y", Z3, 0, "none", Z3>>,   <<2, "val", "x", Z3, 2, "none", Z3>>}
(* records written by an earlier pass: *)
WMerged == {<<1, "val", "x", Z3, 2, "map", <<0, 2, 0>>>>,             \* -m k:w, a class of one record: k and w are still there
            <<2, "none", "", Z3, -1, "map", <<0, 2, 3>>>>,            \* -m k:w, a class of two: k and w differed and are gone
            <<3, "none", "", Z3, 2, "map", <<1, 4, 0>>>>,             \* -m k:w, a class of three with the same w
            <<2, "map", "", <<0, 1, 1>>, -1, "none", Z3>>,            \* -m k only
            <<2, "map", "", <<0, 1, 1>>, -1, "map", <<0, 2, 3>>>>,    \* -m k -m k:w
            <<1, "both", "x", <<0, 1, 0>>, 2, "map", <<0, 2, 0>>>>,   \* -m k -m k:w, a class of one record
            <<1, "both", "y", <<0, 0, 1>>, 3, "none", Z3>>}           \* -m k only, a class of one record that has a w
WFull == WRaw \cup WMerged
WSmall == {<<1, "val", "x", Z3, 2, "none", Z3>>, <<2, "val", "y", Z3, 3, "none", Z3>>, <<1, "none", "", Z3, -1, "none", Z3>>,
           <<2, "none", "", Z3, -1, "map", <<0, 2, 3>>>>, <<1, "both", "x", <<0, 1, 0>>, 2, "map", <<0, 2, 0>>>>,
           <<2, "map", "", <<0, 1, 1>>, -1, "none", Z3>>}
(* <<requested categories, -m k, --no-singleton, -m k:w>> *)
OptsW0 == {<<0, FALSE, FALSE, TRUE>>, <<0, TRUE, FALSE, TRUE>>, <<0, TRUE, TRUE, TRUE>>}
OptsW1 == {<<1, FALSE, FALSE, TRUE>>, <<1, TRUE, FALSE, TRUE>>, <<1, FALSE, TRUE, TRUE>>, <<0, TRUE, FALSE, TRUE>>}
OptsWT == {<<1, FALSE, FALSE, TRUE>>, <<1, TRUE, FALSE, TRUE>>, <<1, TRUE, TRUE, TRUE>>, <<0, FALSE, TRUE, TRUE>>, <<0, TRUE, FALSE, TRUE>>}
=============================================================================

CONSTANTS
  Family = "planted"
  Alpha = {}
  MinN = 0  MaxN = 0
  SiteKinds = {"F0", "F1", "F1e", "F2", "R0", "R1", "R1e", "R2", "f0", "f1", "r0", "r1"}
  GapLens = {0, 1, 2, 3}
  MaxSites = 2
  MaxLen = 14
  PairIds = {6, 7, 8, 9}
  CfgIds = {1, 2, 3, 4, 5, 6, 7, 8, 9, 10, 11, 12, 13, 14, 15, 16, 17, 18}
  Stride = 14
INIT Init
NEXT Next
INVARIANTS DirectThm RCThm RotThm ResThm SoundThm BoundsThm BudgetThm FlankThm CircThm VerdictThm Export

CONSTANTS MaxLen = 4  PlainMaxLen = 3  LawAlpha = {"a", "r", "n", "-", "[", "]"}  KmerK = 4
INIT Init
NEXT Next
INVARIANT LawsHold

CONSTANTS
  Ks = {1, 2, 4}
  PAll = {0, 1, 2, 3, 4, 5, 6, 7, 8, 9, 10, 11, 12, 13}
  PFill = {0, 9}
  PCombo = {0, 1, 9}
  PShift = {1, 6, 7, 9, 12}
  PPartner = {1, 9}
  PMul = {1, 3, 9, 11, 13}
  PMulFill = {0, 9}
  PDivA = {6, 9, 12}
  PDivB = {1, 3, 6, 9}
  PDivFill = {0, 9}
  PX = {0, 1, 7, 9, 12}
INIT Init
NEXT Next
INVARIANTS WellFormed Export

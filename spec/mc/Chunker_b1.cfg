\* NEGATIVE test of the specification: with a 1-byte buffer the extension reads 0 bytes without error
\* and the loop never ends (the real function spins): StepBound must be VIOLATED here.
CONSTANTS
  Fmts = {"fasta"}
  Sel <- SelOne
  Big = FALSE
  MaxRecs = 1
  FinalEols = {TRUE}
  MinB = 1
  Mode = "chunk"
INIT Init
NEXT Next
INVARIANTS TypeOK StepBound

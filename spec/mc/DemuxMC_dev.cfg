CONSTANTS
  SheetIdx = {0}
  Thin = FALSE
  NSeed = 0
  ScanMod = 1
INIT Init
NEXT Next
INVARIANTS PlantedThm InterleavedThm SymmetryThm ScanThm ShortcutThm SafetyThm ModeThm Export

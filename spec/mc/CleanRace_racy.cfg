CONSTANTS NSons = 2  NWorkers = 2  Atomic = FALSE
SPECIFICATION Spec
INVARIANT NoLostUpdate

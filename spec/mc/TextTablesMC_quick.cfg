CONSTANTS
  TTFamilies = {"quote", "csv", "ecopcr"}
  TTDeep = FALSE
INIT Init2
NEXT Next2
INVARIANTS QuoteAgrees QuotingInvertible HeaderMatchesRow ReprTable CsvRoundTrip EcoShape Export2

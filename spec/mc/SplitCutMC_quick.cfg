CONSTANTS MaxL = 5
  Cfgs = {"one", "two", "err", "pal", "rcpair", "pool", "palerr", "iupac"}
INIT Init
NEXT Next
INVARIANTS Sites Tiling Flanks FewChoices Strand Export

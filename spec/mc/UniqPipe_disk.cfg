\* on disk (one worker, as IUniqueSequence forces), the writer closes the file before the iterator is closed
CONSTANTS N = 3  SeqIds = {1, 2}  CatIds = {1, 2}  NCat = 1  NChunks = 2  W = 1  OnDisk = TRUE  SyncClose = TRUE
INIT Init
NEXT Next
INVARIANTS TypeOK ReadAfterClose NoPushAfterClose AtMostOnce ExactlyOnceWhenClosed WaitGroupCovers

CONSTANT Lens <- LensQuick
INIT Init
NEXT Next
INVARIANTS JoinThm SwapThm ReorientThm Export

CONSTANTS Configs <- BandedQuickConfigs  Bounds <- QuickBounds  DeclMax = 0  BandMax = 5
INIT Init
NEXT Next
INVARIANTS BandedRefines BandedBufferIndependent BandedSymmetric Export

CONSTANTS MaxN = 7  Sizes = {0,1}  Fmts = {"fasta","fastq","json","csv"}
INIT Init
NEXT Next
INVARIANTS TypeOK EmitsInOrderExactlyOnce BufferExact ClosedOnlyAfterLastChunk FinalOutput JsonWellFormed CsvWellFormed Export
PROPERTIES NoWriteAfterClose

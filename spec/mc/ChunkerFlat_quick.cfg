\* GenBank and EMBL: files of 1-2 small entries (LF with taxon, CRLF without), every buffer size
CONSTANTS
  Fmts = {"genbank", "embl"}
  Sel <- SelQuick
  Big = FALSE
  MaxRecs = 2
  FinalEols = {TRUE}
  MinB = 2
  Mode = "chunk"
INIT Init
NEXT Next
INVARIANTS TypeOK OrdersOK CounterOK WindowStartsAtRecord WholeRecords FirstChunkAtZero Complete StepBound Export

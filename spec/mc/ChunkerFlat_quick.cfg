\* GenBank (2 small shapes: LF with taxon, CR LF without) and EMBL (1 shape): files of 1-2 entries, every buffer size
CONSTANTS
  Fmts = {"genbank", "embl"}
  Sel <- SelQuick
  Big = FALSE
  MaxRecs = 2
  FinalEols = {TRUE}
  MinB = 2
  Mode = "chunk"
INIT Init
NEXT Next
INVARIANTS TypeOK OrdersOK CounterOK WindowStartsAtRecord WholeRecords FirstChunkAtZero Complete StepBound Export

CONSTANTS FreeCells = 6  Vals <- QuickVals  Gaps <- QuickGaps  SeqMax = 3  PairMax = 3  PairCells = 6
  FastAlpha <- AC  FastMin = 5  FastMax = 7  MaxAllowed = 6
INIT Init
NEXT Next
INVARIANTS PathAlgebra DeclAgrees CountAgrees Mirror ZeroPath PairSane FastLemma Export

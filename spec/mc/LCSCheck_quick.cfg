CONSTANTS Configs <- QuickConfigs  Bounds <- QuickBounds  DeclMax = 3  BandMax = 0
INIT Init
NEXT Next
INVARIANTS DeclAgrees Sane Symmetric D1IsEditDistance D1ScanRefines D1VsLCS Export

CONSTANTS MaxV = 6  Deep = {"val", "key"}  Fixed = TRUE
  Shapes = {"val", "key", "nested", "two", "defn"}
  Tails <- StdTails
INIT Init
NEXT Next
INVARIANTS TypeOK GrammarAgrees ScannerStop EscIsOddRun DecEnc Export

CONSTANTS MaxV = 5  Deep = {"val", "key", "nested", "two", "defn"}  Fixed = TRUE
  Shapes = {"val", "key", "nested", "two", "defn"}
  Tails <- StdTails
INIT Init
NEXT Next
INVARIANTS TypeOK GrammarAgrees ScannerStop EscIsOddRun DecEnc Export

\* the algebraic laws on bags of 4: all 24 arrival orders x chunk counts {1,2,3} of the implementation-shaped pipeline, all splits
CONSTANTS
  Seqs = {"s1", "s2"}
  NCat = 1
  CatVals = {"p"}
  PlainShapes <- PlainL
  MrgKeySeq <- KeySeq3
  MapShapes <- ShapesA
  OptSet <- OptsFour
  MaxN = 4
  LawsMaxN = 4
  ChunkCounts = {1, 2, 3}
  NA = "NA"
  Missing = "-"
INIT Init
NEXT Next
INVARIANTS Accounting Laws Export

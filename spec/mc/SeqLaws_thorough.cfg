CONSTANTS MaxLen = 5  PlainMaxLen = 4  LawAlpha = {"a", "c", "r", "y", "n", "-", "[", "]"}  KmerK = 4
INIT Init
NEXT Next
INVARIANT LawsHold

CONSTANTS MaxLen = 5  LawAlpha = {"a", "r", "n", "-", "[", "]"}  KmerK = 4
INIT Init
NEXT Next
INVARIANT LawsHold

CONSTANTS MaxLen = 5  PlainMaxLen = 4  LawAlpha = {"a", "r", "n", "-", "[", "]"}  KmerK = 4
INIT Init
NEXT Next
INVARIANT LawsHold

CONSTANTS KConfigs <- KQuickConfigs  WL = 5
INIT Init
NEXT Next
INVARIANTS TablesSane CanonIsMin StrandInvariant CountsWindows RollRefines MissingMask FourMerRefines Export

CONSTANTS
  SheetIdx = {0, 153, 42, 275, 288, 13, 166, 416, 31, 188}
  Thin = TRUE
  NSeed = 1
  ScanMod = 96
INIT Init
NEXT Next
INVARIANTS PlantedThm InterleavedThm SymmetryThm ScanThm ShortcutThm SafetyThm ModeThm Export

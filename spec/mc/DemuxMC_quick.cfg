CONSTANTS
  SheetIdx = {0, 134, 37, 241, 252, 12, 146, 364}
  NSeed = 1
  ScanMod = 4
INIT Init
NEXT Next
INVARIANTS PlantedThm SymmetryThm ScanThm SafetyThm ModeThm Export

CONSTANTS
  Family = "all"
  Alpha = {0, 1, 2, 3}
  MinN = 5  MaxN = 7
  SiteKinds = {}
  GapLens = {}
  MaxSites = 0
  MaxLen = 0
  PairIds = {5, 10}
  CfgIds = {1, 2, 4, 8, 9, 10, 15}
  Stride = 6
INIT Init
NEXT Next
INVARIANTS DirectThm RCThm RotThm ResThm SoundThm BoundsThm BudgetThm FlankThm CircThm VerdictThm Export

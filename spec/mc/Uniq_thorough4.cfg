\* DESIGN C06: all bags of <= 4 records over 2 sequences x 2 category values (+ missing) x counts {1,2} x
\* merge attribute {absent, value, merged map}: 36 records
CONSTANTS
  Seqs = {"s1", "s2"}
  NCat = 1
  CatVals = {"p", "NA"}
  PlainShapes <- PlainD
  MrgKeySeq <- KeySeq3
  MapShapes <- ShapesD
  OptSet <- OptsFour
  MaxN = 4
  LawsMaxN = 2
  ChunkCounts = {1, 2}
  NA = "NA"
  Missing = "-"
INIT Init
NEXT Next
INVARIANTS Accounting Laws Export

\* 2 sequences x category c1 in {p, NA, missing} x (count {1,2} x k {absent, x, y} + 3 merged maps): 54 records, all bags of <= 3
CONSTANTS
  Seqs = {"s1", "s2"}
  NCat = 1
  CatVals = {"p", "NA"}
  PlainShapes <- PlainT
  MrgKeySeq <- KeySeq3
  MapShapes <- ShapesB
  OptSet <- OptsCat1
  MaxN = 3
  LawsMaxN = 3
  ChunkCounts = {1, 2}
  NA = "NA"
  Missing = "-"
INIT Init
NEXT Next
INVARIANTS Accounting Laws Export

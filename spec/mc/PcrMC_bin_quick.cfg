CONSTANTS
  Family = "all"
  Alpha = {0, 3}
  MinN = 6  MaxN = 9
  SiteKinds = {}
  GapLens = {}
  MaxSites = 0
  MaxLen = 0
  PairIds = {2, 4}
  CfgIds = {2, 3, 5, 7, 9, 11, 15, 16}
  Stride = 10
INIT Init
NEXT Next
INVARIANTS DirectThm RCThm RotThm ResThm SoundThm BoundsThm BudgetThm FlankThm CircThm VerdictThm Export

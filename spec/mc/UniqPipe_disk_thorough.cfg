CONSTANTS N = 4  SeqIds = {1, 2}  CatIds = {1, 2}  NCat = 2  NChunks = 2  W = 1  OnDisk = TRUE  SyncClose = TRUE
INIT Init
NEXT Next
INVARIANTS TypeOK ReadAfterClose NoPushAfterClose AtMostOnce ExactlyOnceWhenClosed WaitGroupCovers

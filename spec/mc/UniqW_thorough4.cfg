\* weighted descriptor, bags of <= 4: 2 sequences x 15 shapes of (count, k, merged_k, w, merged_k:w), no category: 30 records, 3 option sets
CONSTANTS
  Seqs = {"s1", "s2"}
  NCat = 0
  CatVals = {}
  PlainShapes <- EmptySet
  MrgKeySeq <- KeySeq3
  MapShapes <- EmptySet
  FullShapes <- WFull
  OptSet <- OptsW0
  MaxN = 4
  LawsMaxN = 2
  ChunkCounts = {1, 2}
  NA = "NA"
  Missing = "-"
INIT Init
NEXT Next
INVARIANTS Accounting Laws Export

CONSTANTS MaxN = 5  Sizes = {0,1}  Fmts = {"fasta","json"}
INIT Init
NEXT Next
INVARIANTS TypeOK ProvedInvariant ProvedAtEnd
PROPERTIES RefinesReseq

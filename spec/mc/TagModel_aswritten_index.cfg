CONSTANTS Fixed = FALSE  Suites <- IndexSuites
INIT Init
NEXT Next
INVARIANTS TypeOK IndexLossless

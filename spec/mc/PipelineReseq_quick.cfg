CONSTANTS MaxN = 4  Sizes = {0,1}  MaxW = 3  BSizes = {2}  KeepAll = TRUE
SPECIFICATION Spec
VIEW ViewNoHist
INVARIANTS TypeOK ProvedInvariant ProvedAtEnd
PROPERTIES RefinesReseq

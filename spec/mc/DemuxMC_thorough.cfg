CONSTANTS
  SheetIdx = {0, 13, 26, 31, 39, 42, 52, 65, 78, 91, 104, 117, 130, 143, 153, 156, 166, 169, 182, 188, 195, 208, 221, 234, 247, 260, 273, 275, 286, 288, 299, 312, 316, 325, 338, 351, 364, 377, 390, 403, 416, 429, 442, 455, 468, 481, 482, 494, 507, 520, 533, 546, 559, 572, 585, 598, 611, 624, 637, 650, 663, 676, 689, 702, 715, 728, 741, 754, 767}
  NSeed = 4
  ScanMod = 3
INIT Init
NEXT Next
INVARIANTS PlantedThm InterleavedThm SymmetryThm ScanThm ShortcutThm SafetyThm ModeThm Export

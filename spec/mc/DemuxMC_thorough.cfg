CONSTANTS
  SheetIdx = {0, 13, 17, 31, 34, 42, 51, 68, 85, 102, 119, 136, 153, 166, 170, 187, 188, 204, 221, 238, 255, 272, 275, 288, 289, 306, 316, 323, 340, 357, 374, 391, 408, 416, 425, 442, 459, 476, 482, 493, 510, 527, 544, 561, 578, 595, 612, 629, 646, 663, 680, 697, 714, 731, 748, 765}
  Thin = FALSE
  NSeed = 4
  ScanMod = 6
INIT Init
NEXT Next
INVARIANTS PlantedThm InterleavedThm SymmetryThm ScanThm ShortcutThm SafetyThm ModeThm Export

CONSTANTS MaxP = 3
  Bys = {"dflt", "a", "b", "ab", "a_b", "id_a", "z"}
  Flags = {"000", "100", "010", "001", "110", "101", "011", "111"}
INIT Init
NEXT Next
INVARIANTS IndexAgrees LeftOuter Frame Idempotent KeyKept Additive SelfAccept StreamAgrees Export

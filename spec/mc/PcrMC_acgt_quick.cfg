CONSTANTS
  Family = "all"
  Alpha = {0, 1, 2, 3}
  MinN = 5  MaxN = 6
  SiteKinds = {}
  GapLens = {}
  MaxSites = 0
  MaxLen = 0
  PairIds = {10}
  CfgIds = {2, 4, 9, 10}
  Stride = 10
INIT Init
NEXT Next
INVARIANTS DirectThm RCThm RotThm ResThm SoundThm BoundsThm BudgetThm FlankThm CircThm VerdictThm Export

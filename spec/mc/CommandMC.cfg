CONSTANTS MaxRec = 5  MaxFiles = 3
INIT Init
NEXT Next
INVARIANTS CompositionThm TotalsAdditive

CONSTANTS MaxN = 3  Sizes = {0,1,2}  BSizes = {1,2,3}
  Ops = {"sort","workers","rebatch","filterempty","filter","batchover","complete","concat","pair","divide","distribute","fragments","merge","limitmemory","copytee","expand"}
INIT Init
NEXT Next
INVARIANTS ContractHolds NothingLostOrAdded Cuts Export

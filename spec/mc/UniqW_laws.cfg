\* the laws on weighted bags of 4: all 24 arrival orders x chunk counts {1,2,3}, all splits; 2 sequences x 6 shapes
CONSTANTS
  Seqs = {"s1", "s2"}
  NCat = 0
  CatVals = {}
  PlainShapes <- EmptySet
  MrgKeySeq <- KeySeq3
  MapShapes <- EmptySet
  FullShapes <- WSmall
  OptSet <- OptsW0
  MaxN = 4
  LawsMaxN = 4
  ChunkCounts = {1, 2, 3}
  NA = "NA"
  Missing = "-"
INIT Init
NEXT Next
INVARIANTS Accounting Laws Export

CONSTANTS MsConfigs <- MsThoroughConfigs
INIT Init
NEXT Next
INVARIANTS FastAgrees OneCountPerUnit LongerUnitLonger LeftMaximal StrandExistence UnitLaws RecordLaws CodeSound CodeDeparts CodeFastAgrees Export

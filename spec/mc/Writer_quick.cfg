CONSTANTS MaxN = 4  Sizes = {0,1,2}  Fmts = {"fasta","fastq","json","csv"}
INIT Init
NEXT Next
INVARIANTS TypeOK EmitsInOrderExactlyOnce BufferExact ClosedOnlyAfterLastChunk FinalOutput JsonWellFormed CsvWellFormed Export
PROPERTIES NoWriteAfterClose

CONSTANT Lens <- LensThorough
INIT Init
NEXT Next
INVARIANTS JoinThm SwapThm ReorientThm Export

\* two category attributes (present / missing), 2 sequences, 4 shapes of (count, k): 32 records, all bags of <= 3, 4 option sets
CONSTANTS
  Seqs = {"s1", "s2"}
  NCat = 2
  CatVals = {"p"}
  PlainShapes <- PlainQ2
  MrgKeySeq <- KeySeq3
  MapShapes <- ShapesC
  OptSet <- OptsCat2
  MaxN = 3
  LawsMaxN = 2
  ChunkCounts = {1, 2}
  NA = "NA"
  Missing = "-"
INIT Init
NEXT Next
INVARIANTS Accounting Laws Export

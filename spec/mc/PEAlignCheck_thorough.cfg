CONSTANTS FreeCells = 9  Vals <- QuickVals  Gaps <- QuickGaps  SeqMax = 4  PairMax = 3  PairCells = 9
  FastAlpha <- AC  FastMin = 5  FastMax = 10  MaxAllowed = 6
INIT Init
NEXT Next
INVARIANTS PathAlgebra DeclAgrees CountAgrees Mirror ZeroPath PairSane FastLemma Export

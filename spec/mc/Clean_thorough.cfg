CONSTANTS
  Pool <- PoolThorough
  Counts = {1, 2, 3, 7}
  MaxSeqs = 5
INIT Init
NEXT Next
INVARIANTS Acyclic StatusConsistent WeightAtLeastCount D1Symmetric Export

CONSTANTS MaxR = 2
  Keys = {"k", "r", "zz", ""}
INIT Init
NEXT Next
INVARIANTS RefinesUniq ReUniq Conservation OnePerValue Untouched Frame Idempotent SelfAccept Export

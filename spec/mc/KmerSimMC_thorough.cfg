CONSTANTS KsConfigs <- KsThoroughConfigs
INIT Init
NEXT Next
INVARIANTS SharedAgrees Symmetric StrandInvariant HitIffShares SelfCount MaxKmersLaws FilterLaws CodeIsAllSwitches SwitchesOffIsSpec ExactLaws Export

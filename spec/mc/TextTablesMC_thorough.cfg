CONSTANTS
  TTFamilies = {"quote", "csv", "ecopcr"}
  TTDeep = TRUE
INIT Init2
NEXT Next2
INVARIANTS QuoteAgrees QuotingInvertible HeaderMatchesRow ReprTable CsvRoundTrip EcoShape Export2

CONSTANTS
  Ks = {1, 2, 4}
  PAll = {0, 1, 2, 3, 4, 5, 6, 7, 8, 9, 10, 11, 12, 13}
  PFill = {0, 9, 12}
  PCombo = {0, 1, 6, 9}
  PShift = {0, 1, 2, 3, 4, 5, 6, 7, 8, 9, 10, 11, 12, 13}
  PPartner = {1, 6, 9, 12}
  PMul = {1, 3, 4, 9, 11, 12, 13}
  PMulFill = {0, 9}
  PDivA = {1, 5, 6, 9, 12}
  PDivB = {1, 2, 3, 6, 9, 12, 13}
  PDivFill = {0, 9}
  PX = {0, 1, 2, 3, 4, 5, 6, 7, 8, 9, 10, 11, 12, 13}
INIT Init
NEXT Next
INVARIANTS WellFormed Export

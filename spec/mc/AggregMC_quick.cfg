CONSTANTS MaxLen = 3
INIT Init
NEXT Next
INVARIANTS Homomorphism MergeLaws RecordFold OrderFree SampleSanity CountIsTotals MatrixLaws Export

CONSTANTS Fixed = FALSE  Suites <- ScanSuites
INIT Init
NEXT Next
INVARIANTS TypeOK ScanLossless

CONSTANTS
  Pieces = {"A", "C", "G", "T", "U", "R", "Y", "S", "W", "K", "M", "B", "D", "H", "V", "N", "a", "y", "[AC]", "[CGT]", "[RT]", "[G]", "!A", "!C", "!T", "!Y", "![AC]", "A#", "C#", "T#", "N#", "W#", "[AG]#", "!A#", "![CT]#"}
  MinP = 1  MaxP = 2
  Alpha = {0, 1, 2, 3, 4}
  MinS = 1  MaxS = 2
  Budgets = {0, 1}
  Modes = {0, 1}
  WinSet = "basic"
  Slack = 64
  RefMax = 8
INIT Init
NEXT Next
INVARIANTS ParseThm CompInvolutive SubRefThm CompThmSub SellersThm EdRefThm CompThmIndel MonotoneThm ModesThm WindowThm VerdictThm Export

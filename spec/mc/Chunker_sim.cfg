\* simulation (tlc -simulate): files of up to 6 records, random buffer size; a behaviour ends where the channel is closed
CONSTANTS
  Fmts = {"fasta", "fastq", "genbank", "embl"}
  Sel <- SelSim
  Big = FALSE
  MaxRecs = 6
  FinalEols = {TRUE, FALSE}
  MinB = 2
  Mode = "chunk"
INIT Init
NEXT NextNoDone
INVARIANTS TypeOK OrdersOK CounterOK WindowStartsAtRecord WholeRecords FirstChunkAtZero Complete StepBound

CONSTANTS SH = 4
CONSTANT Configs <- QuickConfigs
INIT Init
NEXT Next
INVARIANT Valid

\* generator only: files of 3 records (thorough replay)
CONSTANTS
  Fmts = {"fasta", "fastq", "genbank", "embl"}
  Sel <- SelGen3
  Big = FALSE
  MaxRecs = 3
  FinalEols = {TRUE, FALSE}
  MinB = 2
  Mode = "gen"
INIT Init
NEXT Next
INVARIANTS TypeOK Export

\* FASTA and FASTQ: files of 1-2 records over all the shapes, every buffer size
CONSTANTS
  Fmts = {"fasta", "fastq"}
  Sel <- SelAll
  Big = FALSE
  MaxRecs = 2
  FinalEols = {TRUE, FALSE}
  MinB = 2
  Mode = "chunk"
INIT Init
NEXT Next
INVARIANTS TypeOK OrdersOK CounterOK WindowStartsAtRecord WholeRecords FirstChunkAtZero Complete StepBound Export

\* the shapes of the > 1 MiB files (one record per file), exported for the trace step
CONSTANTS
  Fmts = {"fasta", "fastq", "genbank", "embl"}
  Sel <- SelBig
  Big = TRUE
  MaxRecs = 1
  FinalEols = {TRUE}
  MinB = 2
  Mode = "gen"
INIT Init
NEXT Next
INVARIANTS TypeOK Export

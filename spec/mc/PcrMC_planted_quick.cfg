CONSTANTS
  Family = "planted"
  Alpha = {}
  MinN = 0  MaxN = 0
  SiteKinds = {"F0", "F1", "F2", "R0", "R1e", "f0", "r0"}
  GapLens = {0, 1, 2}
  MaxSites = 2
  MaxLen = 12
  PairIds = {6, 9}
  CfgIds = {1, 2, 4, 6, 8, 10, 12, 13, 14, 18}
  Stride = 6
INIT Init
NEXT Next
INVARIANTS DirectThm RCThm RotThm ResThm SoundThm BoundsThm BudgetThm FlankThm CircThm VerdictThm Export

\* GenBank and EMBL: files of 1-2 entries over 5 shapes (with/without taxon, with/without organism, CR LF), every buffer size
CONSTANTS
  Fmts = {"genbank", "embl"}
  Sel <- SelFlatThorough
  Big = FALSE
  MaxRecs = 2
  FinalEols = {TRUE, FALSE}
  MinB = 2
  Mode = "chunk"
INIT Init
NEXT Next
INVARIANTS TypeOK OrdersOK CounterOK WindowStartsAtRecord WholeRecords FirstChunkAtZero Complete StepBound Export

CONSTANTS
  Family = "all"
  Alpha = {0, 3}
  MinN = 5  MaxN = 10
  SiteKinds = {}
  GapLens = {}
  MaxSites = 0
  MaxLen = 0
  PairIds = {1, 2, 3, 4}
  CfgIds = {1, 2, 3, 4, 5, 6, 7, 8, 9, 10, 11, 12, 13, 14, 15, 16, 17, 18}
  Stride = 5
INIT Init
NEXT Next
INVARIANTS DirectThm RCThm RotThm ResThm SoundThm BoundsThm BudgetThm FlankThm CircThm VerdictThm Export

CONSTANTS MaxN = 4  Sizes = {2}  MaxW = 3  BSizes = {3}  KeepAll = TRUE
SPECIFICATION Spec
INVARIANTS TypeOK SingleOwner Conservation Confluence PrefixOK NothingStuck Export
PROPERTIES Terminates

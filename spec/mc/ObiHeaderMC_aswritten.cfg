CONSTANTS
  Families = {"lines"}
  Steps = {1}
  AllTails = FALSE
  MaxS = 0
  Alphabet <- AlphaQuick
INIT Init
NEXT Next
INVARIANTS AsWrittenAgrees

CONSTANTS NSons = 3  NWorkers = 3  Atomic = TRUE
SPECIFICATION Spec
INVARIANT NoLostUpdate
PROPERTY Terminates

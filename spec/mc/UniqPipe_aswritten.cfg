\* negative test of the specification: the order of the unrepaired code (iterator closed, then the writer told to close)
CONSTANTS N = 2  SeqIds = {1, 2}  CatIds = {1}  NCat = 0  NChunks = 2  W = 1  OnDisk = TRUE  SyncClose = FALSE
INIT Init
NEXT Next
INVARIANTS ReadAfterClose

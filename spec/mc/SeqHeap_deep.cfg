CONSTANTS MaxObj = 3  Depth = 5
  Starts <- StartsDeep  NewVals <- NewValsQuick
  OpKinds = {"copy", "rc", "setqual", "mutate", "recycle", "sub"}
  WinKinds = {"wrap"}
INIT Init
NEXT Next
INVARIANTS Ownership WellFormedAll PoolPoisoned ValueSemantics Export

CONSTANTS MaxLen = 4
INIT Init
NEXT Next
INVARIANTS Homomorphism MergeLaws RecordFold OrderFree SampleSanity CountIsTotals MatrixLaws Export

\* weighted descriptor with a category attribute (present / missing): 1 sequence x 2 x 15 shapes: 30 records, all bags of <= 3, 4 option sets
CONSTANTS
  Seqs = {"s1"}
  NCat = 1
  CatVals = {"p"}
  PlainShapes <- EmptySet
  MrgKeySeq <- KeySeq3
  MapShapes <- EmptySet
  FullShapes <- WFull
  OptSet <- OptsW1
  MaxN = 3
  LawsMaxN = 2
  ChunkCounts = {1, 2}
  NA = "NA"
  Missing = "-"
INIT Init
NEXT Next
INVARIANTS Accounting Laws Export

CONSTANTS
  Pieces = {"A", "!T", "[AG]#", "![CT]#", "[RT]"}
  MinP = 1  MaxP = 3
  Alpha = {0, 3, 4}
  MinS = 3  MaxS = 3
  Budgets = {0, 1}
  Modes = {0, 1}
  WinSet = "basic"
  Slack = 64
  RefMax = 8
INIT Init
NEXT Next
INVARIANTS ParseThm CompInvolutive SubRefThm CompThmSub SellersThm EdRefThm CompThmIndel MonotoneThm ModesThm WindowThm VerdictThm Export

CONSTANTS
  Families = {"lines", "strings", "records", "guess"}
  Steps = {0, 1}
  AllTails = FALSE
  MaxS = 3
  Alphabet <- AlphaQuick
INIT Init
NEXT Next
INVARIANTS GrammarAgrees TailsAreDefinitions DeparturesNamed SkipOnlyOnGluedText
           ReprSound ReprComplete NumCanonFixed
           ReprMatchesPool RoundTrip OrderFree Stable RepresentableAnywhere NotRepresentable BadDefinitions DefsAreDefinitions GuessOnWritten GuessLoneDefinition
           GuessTable Export

\* weighted descriptor: 2 sequences x category (present / missing) x 15 shapes: 60 records, all bags of <= 3, 5 option sets
CONSTANTS
  Seqs = {"s1", "s2"}
  NCat = 1
  CatVals = {"p"}
  PlainShapes <- EmptySet
  MrgKeySeq <- KeySeq3
  MapShapes <- EmptySet
  FullShapes <- WFull
  OptSet <- OptsWT
  MaxN = 3
  LawsMaxN = 3
  ChunkCounts = {1, 2}
  NA = "NA"
  Missing = "-"
INIT Init
NEXT Next
INVARIANTS Accounting Laws Export

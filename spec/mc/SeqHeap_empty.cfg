CONSTANTS MaxObj = 3  Depth = 3
  Starts <- StartsEmpty  NewVals <- NewValsEmpty
  OpKinds = {"new", "copy", "rc", "setseq", "mutate", "recycle", "join"}
  WinKinds = {"tail"}
INIT Init
NEXT Next
INVARIANTS Ownership WellFormedAll PoolPoisoned ValueSemantics Export

CONSTANTS KConfigs <- KThoroughConfigs  WL = 6
INIT Init
NEXT Next
INVARIANTS TablesSane CanonIsMin StrandInvariant CountsWindows RollRefines MissingMask FourMerRefines Export

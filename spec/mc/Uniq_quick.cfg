\* 2 sequences x category c1 in {p, NA, missing} x 5 shapes of (count, k): 30 records, all bags of <= 3, 5 option sets
CONSTANTS
  Seqs = {"s1", "s2"}
  NCat = 1
  CatVals = {"p", "NA"}
  PlainShapes <- PlainQ
  MrgKeySeq <- KeySeq3
  MapShapes <- ShapesA
  OptSet <- OptsCat1
  MaxN = 3
  LawsMaxN = 2
  ChunkCounts = {1, 2}
  NA = "NA"
  Missing = "-"
INIT Init
NEXT Next
INVARIANTS Accounting Laws Export

CONSTANTS Configs <- ThoroughConfigs  Bounds <- ThoroughBounds  DeclMax = 4  BandMax = 0
INIT Init
NEXT Next
INVARIANTS DeclAgrees Sane Symmetric D1IsEditDistance D1ScanRefines D1VsLCS Export

CONSTANTS MaxN = 4  Sizes = {0,1,2}  BSizes = {1,2,3}  Ops = {"rebatch","filterempty","divide","distribute"}
SPECIFICATION Spec
INVARIANTS PrefixOfRequired CompleteAtEnd NewsExact NothingBufferedAtEnd
PROPERTIES Terminates

CONSTANTS Configs <- BandedThoroughConfigs  Bounds <- ThoroughBounds  DeclMax = 0  BandMax = 6
INIT Init
NEXT Next
INVARIANTS BandedRefines BandedBufferIndependent BandedSymmetric Export

CONSTANTS
  Lens = {1, 2, 59, 60, 61, 119, 120, 121, 180, 181, 240}
  Fmts = {"fasta", "fastq"}
  Shifts = {33, 64}
  ShapeSet = {"none", "string", "special", "int", "bigint", "float", "bool", "mapint", "mapstr", "slice", "nested"}
  QPats = {"cycle", "q0", "q1", "q92", "q93", "over", "none"}
  Defs = {"", "a {definition} here"}
INIT Init
NEXT Next
INVARIANTS ReadWriteIdentity WriteIsFixedPoint SameShiftSameText OnlyScoresDependOnShift Folding FastqShape LengthCheckRejects HdrInjective ConvertLaws Export

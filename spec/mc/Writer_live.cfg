CONSTANTS MaxN = 4  Sizes = {0,1}  Fmts = {"json","csv"}
SPECIFICATION Spec
INVARIANTS TypeOK
PROPERTIES Terminates NoWriteAfterClose

CONSTANTS NSeedGrep = 2500  NSeedPair = 400  NSeedAnnot = 2500  PairAll = TRUE
  Tools = {"data", "grep", "annot", "dist", "mux"}
INIT Init
NEXT Next
INVARIANTS WellFormedCase GrepPartition GrepConjunction GrepMonotonePaired GrepInvert GrepPairTable AnnotFrame AnnotEveryOccurrence DistPartition Export

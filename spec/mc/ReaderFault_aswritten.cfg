CONSTANTS S = 2  B = 2  MaxD = 8  AsWritten = TRUE
SPECIFICATION Spec
INVARIANTS FaultIsFatal

CONSTANTS MaxV = 7  Deep = {"val"}  Fixed = TRUE
  Shapes = {"val"}
  Tails <- NoTail
INIT Init
NEXT Next
INVARIANTS TypeOK GrammarAgrees ScannerStop EscIsOddRun DecEnc Export

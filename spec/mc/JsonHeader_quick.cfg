CONSTANTS MaxV = 4  Deep = {"val"}  Fixed = TRUE
  Shapes = {"val", "key", "nested", "two", "defn"}
  Tails <- StdTails
INIT Init
NEXT Next
INVARIANTS TypeOK GrammarAgrees ScannerStop EscIsOddRun DecEnc Export

CONSTANTS MaxId = 3  MaxOps = 6  Incremental = TRUE
CONSTANT Ranks <- RanksMC
INIT Init
NEXT Next
INVARIANTS TypeOK Agreement
CHECK_DEADLOCK FALSE

CONSTANTS MaxV = 2  Deep = {"val"}  Fixed = FALSE
  Shapes = {"val"}
  Tails <- NoTail
INIT Init
NEXT Next
INVARIANTS TypeOK GrammarAgrees ScannerStop

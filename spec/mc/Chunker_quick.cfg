\* FASTA and FASTQ: files of 1-2 records over 5 adversarial shapes, every buffer size 2..Len+1
CONSTANTS
  Fmts = {"fasta", "fastq"}
  Sel <- SelQuick
  Big = FALSE
  MaxRecs = 2
  FinalEols = {TRUE, FALSE}
  MinB = 2
  Mode = "chunk"
INIT Init
NEXT Next
INVARIANTS TypeOK OrdersOK CounterOK WindowStartsAtRecord WholeRecords FirstChunkAtZero Complete StepBound Export

CONSTANTS MaxId = 3  MaxOps = 6  Incremental = FALSE
CONSTANT Ranks <- RanksMC
INIT Init
NEXT Next
INVARIANTS TypeOK Agreement Linked NoGhost Export
CHECK_DEADLOCK FALSE

CONSTANTS S = 2  B = 2  MaxD = 8  AsWritten = FALSE
SPECIFICATION Spec
INVARIANTS FaultIsFatal NoSilentTruncation HealthyIsNotFatal SiteAgrees Export
PROPERTIES Terminates

CONSTANTS MaxN = 6  FullN = 4  RankVariants = {0, 1, 2, 3}  AliasVariants = {0, 1}
INIT Init
NEXT Next
INVARIANTS WellFormed LcaIsDeepestCommonAncestor LcaAlgebra PathLaws CladeLaws RankLaws ResolveLaws WalksAgree SeqLaws Export

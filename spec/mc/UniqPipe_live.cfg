\* termination under weak fairness (small instance: liveness checking is expensive)
CONSTANTS N = 2  SeqIds = {1, 2}  CatIds = {1, 2}  NCat = 1  NChunks = 2  W = 2  OnDisk = TRUE  SyncClose = TRUE
SPECIFICATION Spec
PROPERTIES Terminates

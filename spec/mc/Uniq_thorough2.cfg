\* two category attributes in {p, q, missing}, 2 sequences, 4 shapes of (count, k): 72 records, all bags of <= 3
CONSTANTS
  Seqs = {"s1", "s2"}
  NCat = 2
  CatVals = {"p", "q"}
  PlainShapes <- PlainQ2
  MrgKeySeq <- KeySeq3
  MapShapes <- ShapesC
  OptSet <- OptsCat2
  MaxN = 3
  LawsMaxN = 2
  ChunkCounts = {1, 2}
  NA = "NA"
  Missing = "-"
INIT Init
NEXT Next
INVARIANTS Accounting Laws Export

CONSTANTS
  Pool <- PoolQuick
  Counts = {1, 2, 5}
  MaxSeqs = 4
INIT Init
NEXT Next
INVARIANTS Acyclic StatusConsistent WeightAtLeastCount D1Symmetric Export

\* generator only: every file of 1-2 records over ALL the shapes of the four formats, with the expected parse
CONSTANTS
  Fmts = {"fasta", "fastq", "genbank", "embl"}
  Sel <- SelAll
  Big = FALSE
  MaxRecs = 2
  FinalEols = {TRUE, FALSE}
  MinB = 2
  Mode = "gen"
INIT Init
NEXT Next
INVARIANTS TypeOK Export

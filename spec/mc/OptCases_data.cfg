CONSTANTS NSeedGrep = 0  NSeedPair = 0  NSeedAnnot = 0  PairAll = FALSE
  Tools = {"data"}
INIT Init
NEXT Next
INVARIANTS Export

CONSTANTS SH = 9
CONSTANT Configs <- ThoroughConfigs
INIT Init
NEXT Next
INVARIANT Valid

CONSTANTS
  Families = {"strings"}
  Steps = {0}
  AllTails = FALSE
  MaxS = 6
  Alphabet <- AlphaLong
INIT Init
NEXT Next
INVARIANTS ReprSound ReprComplete NumCanonFixed Export

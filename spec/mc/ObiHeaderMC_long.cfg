CONSTANTS
  Families = {"strings"}
  Steps = {0}
  AllTails = FALSE
  MaxS = 5
  Alphabet <- AlphaLong
INIT Init
NEXT Next
INVARIANTS ReprSound ReprComplete NumCanonFixed Export

\* FASTA and FASTQ: files of 1-3 records over 4 shapes, every buffer size
CONSTANTS
  Fmts = {"fasta", "fastq"}
  Sel <- SelThree
  Big = FALSE
  MaxRecs = 3
  FinalEols = {TRUE, FALSE}
  MinB = 2
  Mode = "chunk"
INIT Init
NEXT Next
INVARIANTS TypeOK OrdersOK CounterOK WindowStartsAtRecord WholeRecords FirstChunkAtZero Complete StepBound Export

CONSTANTS MaxN = 5  FullN = 3  RankVariants = {0, 3}  AliasVariants = {0, 1}
INIT Init
NEXT Next
INVARIANTS WellFormed LcaIsDeepestCommonAncestor LcaAlgebra PathLaws CladeLaws RankLaws ResolveLaws WalksAgree SeqLaws Export

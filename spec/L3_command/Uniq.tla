-------------------------------- MODULE Uniq --------------------------------
(***************************************************************************)
(* Dereplication (obiuniq) and its inverse on one attribute (obidemerge):  *)
(* property C06.                                                           *)
(*                                                                         *)
(* A record is                                                             *)
(*   seq   : the nucleotide string (abstracted to an identifier)           *)
(*   cat   : the values of the NCat category attributes c1..cNCat, the     *)
(*           marker Missing when the record does not carry the attribute   *)
(*   count : its count (>= 1; a record without "count" counts for 1)      *)
(*   the merge attribute k in one of three shapes                          *)
(*       mt = "none" : no attribute k                                      *)
(*       mt = "val"  : k = mv                                              *)
(*       mt = "map"  : the record is already merged: merged_k = mm         *)
(*                                                                         *)
(* A merged_k map is a weight VECTOR aligned on the constant sequence      *)
(* MrgKeySeq of all possible values of k (NA included): 0 = key absent.    *)
(* With this representation "the summed weight per value" is the pointwise *)
(* sum of vectors.                                                         *)
(*                                                                         *)
(* WEIGHTED STATISTICS.  obiuniq -m accepts two kinds of descriptor on the   *)
(* attribute k:                                                            *)
(*   "k"   (Plain)    : the weight of a record is its count, the map is    *)
(*                      stored under merged_k                              *)
(*   "k:w" (Weighted) : the weight of a record is its integer attribute w  *)
(*                      (0 when the record has no w), the map is stored    *)
(*                      under merged_k:w                                   *)
(* A record therefore also carries                                         *)
(*   w  : its attribute w (an integer >= 0), NoW when absent               *)
(*   wt = "map" : it already has a merged_k:w map (a previous pass), wm    *)
(*   mt = "both": it has the attribute k = mv AND a merged_k map mm (a     *)
(*                singleton class of a previous pass keeps its attributes) *)
(* Every requested descriptor d gives one map per output record: the       *)
(* pointwise sum of Contribution(r, d) over the records r of the class,    *)
(* where a record that already has the map of d brings that map and any    *)
(* other record brings its weight under its value of k (NA when absent).   *)
(* The two descriptors are independent of each other.  In a weighted map a *)
(* value of total weight 0 and an absent value are the same thing (the     *)
(* property speaks of the summed weight per value).                        *)
(*                                                                         *)
(* The data set is a finite multiset of records, written as a SEQUENCE rs  *)
(* (a sequence up to permutation); every definition below is symmetric in  *)
(* the order of rs (theorem OrderIndependent), which is the order / chunk  *)
(* / mode / worker independence the property asks for: the specification   *)
(* assigns ONE output set to a bag and an option set, whatever the         *)
(* configuration.                                                          *)
(***************************************************************************)
EXTENDS Integers, Sequences, FiniteSets, SequencesExt, TLC, Json, CSV, IOUtils

CONSTANTS Seqs,        \* sequence identifiers
          NCat,        \* number of category attributes the records carry
          CatVals,     \* explicit category values (may contain NA itself)
          PlainShapes, \* not yet merged records: <<count, "none", "">> or <<count, "val", value of k>>
          MrgKeySeq,   \* all values of attribute k, NA included, in byte order: the universe of merged_k keys
          MapShapes,   \* already merged maps (weight vectors over MrgKeySeq, not all zero)
          OptSet,      \* option sets explored: <<number of requested categories, merge k ?, no-singleton ?>>
          MaxN,        \* largest bag
          ChunkCounts, \* chunk counts of the implementation-shaped pipeline (theorem ImplAgrees)
          LawsMaxN,    \* the algebraic laws (all permutations, all splits) are checked on bags up to this size
          NA, Missing

---------------------------------------------------------------------------
(* vectors *)
K == Len(MrgKeySeq)
ZeroVec == [i \in 1..K |-> 0]
Unit(v, w) == [i \in 1..K |-> IF MrgKeySeq[i] = v THEN w ELSE 0]
VecAdd(a, b) == [i \in 1..K |-> a[i] + b[i]]
RECURSIVE VecSumTo(_, _)
VecSumTo(a, i) == IF i = 0 THEN 0 ELSE a[i] + VecSumTo(a, i - 1)
VecSum(a) == VecSumTo(a, Len(a))

RECURSIVE Sum(_, _)           \* sum of f[x] for x in the finite set S
Sum(f, S) == IF S = {} THEN 0 ELSE LET x == CHOOSE y \in S : TRUE IN f[x] + Sum(f, S \ {x})
RECURSIVE SumV(_, _)          \* same for vector valued f
SumV(f, S) == IF S = {} THEN ZeroVec ELSE LET x == CHOOSE y \in S : TRUE IN VecAdd(f[x], SumV(f, S \ {x}))

---------------------------------------------------------------------------
(* the record space of the bounded model *)
NoW == -1                     \* r.w of a record that has no attribute w
CatTuples == [1..NCat -> CatVals \cup {Missing}]
(* complete shapes <<count, mt, mv, mm, w, wt, wm>> of the weighted configurations: a definition, not a    *)
(* constant (other modules instantiate Uniq); the weighted .cfg files replace it (FullShapes <- ...)       *)
FullShapes == {}
Recs ==
  {[seq |-> s, cat |-> c, count |-> p[1], mt |-> p[2], mv |-> p[3], mm |-> ZeroVec, w |-> NoW, wt |-> "none", wm |-> ZeroVec] :
          s \in Seqs, c \in CatTuples, p \in PlainShapes}
  \cup {[seq |-> s, cat |-> c, count |-> VecSum(m), mt |-> "map", mv |-> "", mm |-> m, w |-> NoW, wt |-> "none", wm |-> ZeroVec] :
          s \in Seqs, c \in CatTuples, m \in MapShapes}
  \cup {[seq |-> s, cat |-> c, count |-> p[1], mt |-> p[2], mv |-> p[3], mm |-> p[4], w |-> p[5], wt |-> p[6], wm |-> p[7]] :
          s \in Seqs, c \in CatTuples, p \in FullShapes}
RecSeq == SetToSeq(Recs)      \* an arbitrary but fixed enumeration (bags = non decreasing index sequences)
NRecs == Len(RecSeq)

---------------------------------------------------------------------------
(* THE DEFINITION.  opt = [ncat, merge, wmerge, ns]: number of requested categories, -m k ?, -m k:w ?,   *)
(* --no-singleton ?   (an OptSet tuple is <<ncat, merge, ns>> or <<ncat, merge, ns, wmerge>>)             *)
MkOpt(t) == [ncat |-> t[1], merge |-> t[2], ns |-> t[3], wmerge |-> IF Len(t) >= 4 THEN t[4] ELSE FALSE]

Val(r, i) == IF r.cat[i] = Missing THEN NA ELSE r.cat[i]
Key(r, nc) == <<r.seq, [i \in 1..nc |-> Val(r, i)]>>

(* the two descriptors on attribute k *)
Plain    == "k"
Weighted == "k:w"
Descs    == {Plain, Weighted}
Requested(o) == {d \in Descs : IF d = Plain THEN o.merge ELSE o.wmerge}
(* value of k the record is counted under when it has no map of the descriptor yet *)
KVal(r) == IF r.mt \in {"val", "both"} THEN r.mv ELSE NA
(* weight of a not yet merged record: its count (Plain), its attribute w or 0 (Weighted) *)
RawWeight(r, d) == IF d = Plain THEN r.count ELSE IF r.w = NoW THEN 0 ELSE r.w
HasMap(r, d) == IF d = Plain THEN r.mt \in {"map", "both"} ELSE r.wt = "map"
MapOf(r, d)  == IF d = Plain THEN r.mm ELSE r.wm
(* what record r brings to the map of descriptor d *)
Contribution(r, d) == IF HasMap(r, d) THEN MapOf(r, d) ELSE Unit(KVal(r), RawWeight(r, d))
(* what record r brings to merged_k: Contribution(r, Plain), written on the fields every user of this   *)
(* module gives to its records (RelDemerge instantiates Uniq with records that have no w / wt / wm)     *)
Weight(r) == CASE r.mt \in {"map", "both"} -> r.mm
               [] r.mt = "val" -> Unit(r.mv, r.count)
               [] OTHER        -> Unit(NA, r.count)

Keys(rs, nc) == {Key(rs[i], nc) : i \in DOMAIN rs}
Class(rs, nc, k) == {i \in DOMAIN rs : Key(rs[i], nc) = k}
RECURSIVE CountTo(_, _)
CountTo(rs, i) == IF i = 0 THEN 0 ELSE rs[i].count + CountTo(rs, i - 1)
TotalCount(rs) == CountTo(rs, Len(rs))
WithNs(full, ns) == IF ns THEN {o \in full : o.count # 1} ELSE full

(* the map of descriptor d of the class I: summed weight per value of k *)
Stat(rs, I, d) == SumV([i \in I |-> Contribution(rs[i], d)], I)

MergedD(rs, I, k, o) ==
  [seq |-> k[1], cat |-> k[2],
   count   |-> Sum([i \in I |-> rs[i].count], I),
   merged  |-> IF o.merge  THEN Stat(rs, I, Plain)    ELSE ZeroVec,
   wmerged |-> IF o.wmerge THEN Stat(rs, I, Weighted) ELSE ZeroVec]

UniqAllD(rs, o) == {MergedD(rs, Class(rs, o.ncat, k), k, o) : k \in Keys(rs, o.ncat)}
UniqD(rs, o) == WithNs(UniqAllD(rs, o), o.ns)

(* The plain projection, as first written (options [ncat, merge, ns], output records without wmerged):   *)
(* kept for the modules that instantiate Uniq; theorem PlainProjection: it is UniqD without `wmerged`.   *)
Merged(rs, I, k, merge) ==
  [seq |-> k[1], cat |-> k[2],
   count  |-> Sum([i \in I |-> rs[i].count], I),
   merged |-> IF merge THEN SumV([i \in I |-> Weight(rs[i])], I) ELSE ZeroVec]

UniqAll(rs, nc, merge) == {Merged(rs, Class(rs, nc, k), k, merge) : k \in Keys(rs, nc)}
Uniq(rs, o) == LET all == UniqAll(rs, o.ncat, o.merge)
               IN  IF o.ns THEN {x \in all : x.count # 1} ELSE all

(* The same set computed in one pass over the records (an accumulator per key): the form used to   *)
(* validate traces of 10^3 records; theorem FoldAgrees states that it is the definition above.      *)
RECURSIVE Accumulate(_, _, _, _, _)
Accumulate(rs, i, n, o, acc) ==          \* acc[sequence][category values] = [count, vec, wvec]
  IF i > n THEN acc
  ELSE LET r     == rs[i]
           s     == r.seq
           c     == [j \in 1..o.ncat |-> Val(r, j)]
           inner == IF s \in DOMAIN acc THEN acc[s] ELSE <<>>
           old   == IF c \in DOMAIN inner THEN inner[c] ELSE [count |-> 0, vec |-> ZeroVec, wvec |-> ZeroVec]
           new   == [count |-> old.count + r.count,
                     vec   |-> IF o.merge  THEN VecAdd(old.vec,  Contribution(r, Plain))    ELSE ZeroVec,
                     wvec  |-> IF o.wmerge THEN VecAdd(old.wvec, Contribution(r, Weighted)) ELSE ZeroVec]
           upd   == IF c \in DOMAIN inner THEN [inner EXCEPT ![c] = new] ELSE (c :> new) @@ inner
       IN  Accumulate(rs, i + 1, n, o, IF s \in DOMAIN acc THEN [acc EXCEPT ![s] = upd] ELSE (s :> upd) @@ acc)
UniqFold(rs, o) ==
  LET acc == Accumulate(rs, 1, Len(rs), o, <<>>)
      all == UNION {{[seq |-> s, cat |-> c, count |-> acc[s][c].count,
                      merged |-> acc[s][c].vec, wmerged |-> acc[s][c].wvec] : c \in DOMAIN acc[s]} : s \in DOMAIN acc}
  IN  WithNs(all, o.ns)

(* obidemerge -d k on a set of merged records: one record per value of the map, with that weight as count *)
DemergeOne(o) == {[seq |-> o.seq, cat |-> o.cat, count |-> o.merged[j], mt |-> "val", mv |-> MrgKeySeq[j], mm |-> ZeroVec] :
                     j \in {j \in 1..K : o.merged[j] > 0}}
Demerge(O) == UNION {DemergeOne(o) : o \in O}
(* a demerged record as an input record of a pass of obiuniq -m k *)
DemAsInput(d) == [seq |-> d.seq, cat |-> d.cat, count |-> d.count, mt |-> d.mt, mv |-> d.mv, mm |-> d.mm,
                  w |-> NoW, wt |-> "none", wm |-> ZeroVec]
(* an output record of a pass made with options o, fed again to obiuniq: it is an already merged record *)
(* for every descriptor that pass was asked for                                                        *)
AsInput(x, o) == [seq |-> x.seq, cat |-> x.cat, count |-> x.count,
                  mt |-> IF o.merge THEN "map" ELSE "none", mv |-> "", mm |-> x.merged,
                  w |-> NoW, wt |-> IF o.wmerge THEN "map" ELSE "none", wm |-> x.wmerged]

---------------------------------------------------------------------------
(* IMPLEMENTATION-SHAPED MODEL of IUniqueSequence (value part): records are distributed on B chunks by *)
(* a hash of the sequence, each chunk is split in classes of identical sequence, every class of more  *)
(* than one record is split again on the last requested category, and so on; a class is folded into  *)
(* its first record with BioSequence.Merge, whose slot merged_<descriptor> is created lazily, one     *)
(* slot per requested descriptor.                                                                    *)
SeqsSeq == SetToSeq(Seqs)
Hash(s) == CHOOSE i \in 1..Len(SeqsSeq) : SeqsSeq[i] = s

Groups(rs, F(_)) == {SelectSeq(rs, LAMBDA r : F(r) = v) : v \in {F(rs[i]) : i \in DOMAIN rs}}

(* acc = [count, has, vec]; has[d] = the slot of descriptor d exists, vec[d] its content.  A new slot    *)
(* starts with what the absorbing record itself weighs at that moment: its running count (Plain), its   *)
(* own attribute w (Weighted), under its own value of k.                                                *)
InitStats(first, acc, d) ==
  IF acc.has[d] THEN acc
  ELSE [acc EXCEPT !.has[d] = TRUE,
                   !.vec[d] = Unit(KVal(first), IF d = Plain THEN acc.count ELSE RawWeight(first, Weighted))]
RECURSIVE InitAll(_, _, _)
InitAll(first, acc, D) == IF D = {} THEN acc
                          ELSE LET d == CHOOSE x \in D : TRUE IN InitAll(first, InitStats(first, acc, d), D \ {d})
Start(first) == [count |-> first.count, has |-> [d \in Descs |-> HasMap(first, d)], vec |-> [d \in Descs |-> MapOf(first, d)]]
Step(first, acc, r, o) ==
  LET a == InitAll(first, acc, Requested(o))
  IN  [count |-> a.count + r.count, has |-> a.has,
       vec |-> [d \in Descs |-> IF d \in Requested(o) THEN VecAdd(a.vec[d], Contribution(r, d)) ELSE a.vec[d]]]
RECURSIVE Fold(_, _, _, _)
Fold(cls, i, acc, o) == IF i > Len(cls) THEN acc ELSE Fold(cls, i + 1, Step(cls[1], acc, cls[i], o), o)
FoldMerge(cls, o) ==
  LET a0 == Fold(cls, 2, Start(cls[1]), o)
      a  == InitAll(cls[1], a0, Requested(o))                    \* len 1: seq.StatsOn(desc, na) for every descriptor
  IN  [seq |-> cls[1].seq, cat |-> [i \in 1..o.ncat |-> Val(cls[1], i)], count |-> a.count,
       merged  |-> IF o.merge  THEN a.vec[Plain]    ELSE ZeroVec,
       wmerged |-> IF o.wmerge THEN a.vec[Weighted] ELSE ZeroVec]

RECURSIVE Refine(_, _, _)
Refine(cls, icat, o) ==
  IF icat = 0 \/ Len(cls) = 1
    THEN IF o.ns /\ Len(cls) = 1 /\ cls[1].count = 1 THEN {} ELSE {FoldMerge(cls, o)}
    ELSE UNION {Refine(g, icat - 1, o) : g \in Groups(cls, LAMBDA r : Val(r, icat))}

ImplUniq(rs, o, B) ==
  UNION {UNION {Refine(g, o.ncat, o) : g \in Groups(chunk, LAMBDA r : r.seq)} :
            chunk \in {SelectSeq(rs, LAMBDA r : Hash(r.seq) % B = h) : h \in 0..(B - 1)}}

---------------------------------------------------------------------------
(* the bounded model: one state per (option set, bag) *)
VARIABLES opt, idx
vars == <<opt, idx>>
rs == [i \in DOMAIN idx |-> RecSeq[idx[i]]]

Init == opt \in {MkOpt(t) : t \in OptSet} /\ idx = <<>>
Next == /\ Len(idx) < MaxN
        /\ \E j \in (IF idx = <<>> THEN 1 ELSE idx[Len(idx)])..NRecs : idx' = Append(idx, j)
        /\ UNCHANGED opt

OutCount(O) == Sum([o \in O |-> o.count], O)
ClassOf(r, o) == Class(r, opt.ncat, <<o.seq, o.cat>>)

(* ---- theorems of the specification, checked on every (option set, bag).  They are written over ---- *)
(* ---- r (the bag), full (its dereplication with singletons) and out (what the options ask for)  ---- *)
OnePerKeyT(r, full, out) ==
  /\ \A o1, o2 \in full : (o1.seq = o2.seq /\ o1.cat = o2.cat) => o1 = o2
  /\ {<<o.seq, o.cat>> : o \in full} = Keys(r, opt.ncat)
ConservationT(r, full, out) == OutCount(full) = TotalCount(r)
(* a class of total count 1 is a class made of one record of count 1 (what the code tests) *)
SingletonExactT(r, full, out) ==
  LET single == {k \in Keys(r, opt.ncat) : \E i \in DOMAIN r : Class(r, opt.ncat, k) = {i} /\ r[i].count = 1}
      kept   == WithNs(full, TRUE)
  IN  /\ {<<o.seq, o.cat>> : o \in full \ kept} = single
      /\ OutCount(kept) = TotalCount(r) - Cardinality(single)
(* records of the model are consistent (count = total of their map), so are the outputs *)
MapTotalIsCountT(r, full, out) == opt.merge => \A o \in out : VecSum(o.merged) = o.count
(* the total of a weighted map is the sum of w over the class (of the totals of the maps of the records *)
(* that are already merged): no weight is lost, none is invented, whatever the values of k             *)
WTotal(x) == IF x.wt = "map" THEN VecSum(x.wm) ELSE RawWeight(x, Weighted)
WMapTotalT(r, full, out) ==
  opt.wmerge => \A o \in full : LET I == ClassOf(r, o) IN VecSum(o.wmerged) = Sum([i \in I |-> WTotal(r[i])], I)
(* per value: a class of not yet merged records gives, under v, the sum of w (of the counts) of its    *)
(* records whose k is v                                                                                 *)
PerValueT(r, full, out) ==
  \A o \in full : LET I == ClassOf(r, o) IN
    \A d \in Requested(opt) :
       (\A i \in I : ~HasMap(r[i], d)) =>
          \A j \in 1..K : LET J == {i \in I : KVal(r[i]) = MrgKeySeq[j]}
                          IN  (IF d = Plain THEN o.merged ELSE o.wmerged)[j] = Sum([i \in J |-> RawWeight(r[i], d)], J)
(* additivity: over any split of a class in two parts the map is the sum of the maps of the parts *)
AdditiveT(r, full, out) ==
  \A o \in full : LET I == ClassOf(r, o) IN
    \A d \in Descs : \A S \in SUBSET I : Stat(r, I, d) = VecAdd(Stat(r, S, d), Stat(r, I \ S, d))
(* the descriptors are independent: asking for one more map changes nothing else *)
Mask(o, o2) == [o EXCEPT !.merged = IF o2.merge THEN @ ELSE ZeroVec, !.wmerged = IF o2.wmerge THEN @ ELSE ZeroVec]
IndependentT(r, full, out) ==
  \A m \in {opt.merge, FALSE} : \A wm \in {opt.wmerge, FALSE} :
     LET o2 == [opt EXCEPT !.merge = m, !.wmerge = wm] IN {Mask(o, o2) : o \in out} = UniqD(r, o2)
(* -m k:w with w = count is -m k (records that are not merged yet) *)
WeightedIsPlainT(r, full, out) ==
  (\A i \in DOMAIN r : ~HasMap(r[i], Plain) /\ ~HasMap(r[i], Weighted) /\ r[i].w = r[i].count) =>
     \A o \in UniqAllD(r, [opt EXCEPT !.merge = TRUE, !.wmerge = TRUE]) : o.wmerged = o.merged
(* the plain part is the definition as first written *)
PlainProjectionT(r, full, out) ==
  {[seq |-> o.seq, cat |-> o.cat, count |-> o.count, merged |-> o.merged] : o \in out}
     = Uniq(r, [ncat |-> opt.ncat, merge |-> opt.merge, ns |-> opt.ns])
(* obiuniq -m k | obidemerge -d k | obiuniq -m k  =  obiuniq -m k ; demerge keeps the counts and yields *)
(* exactly one record per value present in the map                                                   *)
DemergeInverseT(r, full, out) ==
  opt.merge =>
    LET d  == SetToSeq({DemAsInput(x) : x \in Demerge(out)})
        o1 == [opt EXCEPT !.wmerge = FALSE]
    IN  /\ UniqD(d, [o1 EXCEPT !.ns = FALSE]) = {Mask(o, o1) : o \in out}
        /\ TotalCount(d) = OutCount(out)
        /\ \A o \in out : \A j \in 1..K :
              Cardinality({i \in DOMAIN d : d[i].seq = o.seq /\ d[i].cat = o.cat /\ d[i].mv = MrgKeySeq[j]})
                 = IF o.merged[j] > 0 THEN 1 ELSE 0
(* dereplication can be done by parts (chunks, sub-chunks, a second pass over dereplicated files): the partial *)
(* results, made with singletons, merge to the same set, for every requested descriptor                    *)
HomomorphismT(r, full, out) ==
  (opt.merge \/ opt.wmerge) =>
    LET o0 == [opt EXCEPT !.ns = FALSE] IN
    \A c \in 0..Len(r) :
       LET a == SetToSeq({AsInput(o, o0) : o \in UniqD(SubSeq(r, 1, c), o0)})
           b == SetToSeq({AsInput(o, o0) : o \in UniqD(SubSeq(r, c + 1, Len(r)), o0)})
       IN  UniqD(a \o b, opt) = out
(* the definition does not depend on the order in which the bag is written, and the implementation-shaped *)
(* pipeline computes it for every arrival order and chunk count                                           *)
Permuted(r, p) == [i \in DOMAIN r |-> r[p[i]]]
OrderIndependentT(r, full, out) == \A p \in Permutations(DOMAIN r) : UniqD(Permuted(r, p), opt) = out
ImplAgreesT(r, full, out) ==
  \A p \in Permutations(DOMAIN r) : \A B \in ChunkCounts : ImplUniq(Permuted(r, p), opt, B) = out

Accounting == LET r == rs  full == UniqAllD(r, opt)  out == WithNs(full, opt.ns)
              IN  /\ OnePerKeyT(r, full, out) /\ ConservationT(r, full, out)
                  /\ SingletonExactT(r, full, out) /\ MapTotalIsCountT(r, full, out)
                  /\ WMapTotalT(r, full, out) /\ PerValueT(r, full, out) /\ PlainProjectionT(r, full, out)
                  /\ UniqFold(r, opt) = out          \* FoldAgrees
Laws ==       Len(idx) <= LawsMaxN =>
              LET r == rs  full == UniqAllD(r, opt)  out == WithNs(full, opt.ns)
              IN  /\ DemergeInverseT(r, full, out) /\ HomomorphismT(r, full, out)
                  /\ OrderIndependentT(r, full, out) /\ ImplAgreesT(r, full, out)
                  /\ AdditiveT(r, full, out) /\ IndependentT(r, full, out) /\ WeightedIsPlainT(r, full, out)
(* the same, one by one (to locate a broken theorem) *)
OnePerKey        == LET r == rs full == UniqAllD(r, opt) IN OnePerKeyT(r, full, WithNs(full, opt.ns))
Conservation     == LET r == rs full == UniqAllD(r, opt) IN ConservationT(r, full, WithNs(full, opt.ns))
SingletonExact   == LET r == rs full == UniqAllD(r, opt) IN SingletonExactT(r, full, WithNs(full, opt.ns))
MapTotalIsCount  == LET r == rs full == UniqAllD(r, opt) IN MapTotalIsCountT(r, full, WithNs(full, opt.ns))
WMapTotal        == LET r == rs full == UniqAllD(r, opt) IN WMapTotalT(r, full, WithNs(full, opt.ns))
PerValue         == LET r == rs full == UniqAllD(r, opt) IN PerValueT(r, full, WithNs(full, opt.ns))
Additive         == LET r == rs full == UniqAllD(r, opt) IN AdditiveT(r, full, WithNs(full, opt.ns))
Independent      == LET r == rs full == UniqAllD(r, opt) IN IndependentT(r, full, WithNs(full, opt.ns))
WeightedIsPlain  == LET r == rs full == UniqAllD(r, opt) IN WeightedIsPlainT(r, full, WithNs(full, opt.ns))
PlainProjection  == LET r == rs full == UniqAllD(r, opt) IN PlainProjectionT(r, full, WithNs(full, opt.ns))
DemergeInverse   == LET r == rs full == UniqAllD(r, opt) IN DemergeInverseT(r, full, WithNs(full, opt.ns))
Homomorphism     == LET r == rs full == UniqAllD(r, opt) IN HomomorphismT(r, full, WithNs(full, opt.ns))
OrderIndependent == LET r == rs full == UniqAllD(r, opt) IN OrderIndependentT(r, full, WithNs(full, opt.ns))
FoldAgrees       == UniqFold(rs, opt) = UniqD(rs, opt)
ImplAgrees       == LET r == rs full == UniqAllD(r, opt) IN ImplAgreesT(r, full, WithNs(full, opt.ns))

---------------------------------------------------------------------------
(* case export: one line per (option set, bag) *)
EncRec(r) == <<r.seq, r.cat, r.count, r.mt, r.mv, r.mm, r.w, r.wt, r.wm>>
EncOut(o) == <<o.seq, o.cat, o.count, o.merged, o.wmerged>>
EncDem(d) == <<d.seq, d.cat, d.count, d.mv>>
B2I(b) == IF b THEN 1 ELSE 0
Export ==
  LET r == rs  out == UniqD(r, opt) IN
  CSVWrite("%1$s", <<ToJson([in  |-> [i \in DOMAIN r |-> EncRec(r[i])],
                            opt |-> <<opt.ncat, B2I(opt.merge), B2I(opt.ns), B2I(opt.wmerge)>>,
                            keys |-> MrgKeySeq,
                            out |-> SetToSeq({EncOut(o) : o \in out}),
                            dem |-> IF opt.merge THEN SetToSeq({EncDem(d) : d \in Demerge(out)}) ELSE <<>>])>>,
           IOEnv.VERIF_CASES)
=============================================================================

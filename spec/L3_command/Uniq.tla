-------------------------------- MODULE Uniq --------------------------------
(***************************************************************************)
(* Dereplication (obiuniq) and its inverse on one attribute (obidemerge):  *)
(* property C06.                                                           *)
(*                                                                         *)
(* A record is                                                             *)
(*   seq   : the nucleotide string (abstracted to an identifier)           *)
(*   cat   : the values of the NCat category attributes c1..cNCat, the     *)
(*           marker Missing when the record does not carry the attribute   *)
(*   count : its count (>= 1; a record without "count" counts for 1)      *)
(*   the merge attribute k in one of three shapes                          *)
(*       mt = "none" : no attribute k                                      *)
(*       mt = "val"  : k = mv                                              *)
(*       mt = "map"  : the record is already merged: merged_k = mm         *)
(*                                                                         *)
(* A merged_k map is a weight VECTOR aligned on the constant sequence      *)
(* MrgKeySeq of all possible values of k (NA included): 0 = key absent.    *)
(* With this representation "the summed weight per value" is the pointwise *)
(* sum of vectors.                                                         *)
(*                                                                         *)
(* The data set is a finite multiset of records, written as a SEQUENCE rs  *)
(* (a sequence up to permutation); every definition below is symmetric in  *)
(* the order of rs (theorem OrderIndependent), which is the order / chunk  *)
(* / mode / worker independence the property asks for: the specification   *)
(* assigns ONE output set to a bag and an option set, whatever the         *)
(* configuration.                                                          *)
(***************************************************************************)
EXTENDS Integers, Sequences, FiniteSets, SequencesExt, TLC, Json, CSV, IOUtils

CONSTANTS Seqs,        \* sequence identifiers
          NCat,        \* number of category attributes the records carry
          CatVals,     \* explicit category values (may contain NA itself)
          PlainShapes, \* not yet merged records: <<count, "none", "">> or <<count, "val", value of k>>
          MrgKeySeq,   \* all values of attribute k, NA included, in byte order: the universe of merged_k keys
          MapShapes,   \* already merged maps (weight vectors over MrgKeySeq, not all zero)
          OptSet,      \* option sets explored: <<number of requested categories, merge k ?, no-singleton ?>>
          MaxN,        \* largest bag
          ChunkCounts, \* chunk counts of the implementation-shaped pipeline (theorem ImplAgrees)
          LawsMaxN,    \* the algebraic laws (all permutations, all splits) are checked on bags up to this size
          NA, Missing

---------------------------------------------------------------------------
(* vectors *)
K == Len(MrgKeySeq)
ZeroVec == [i \in 1..K |-> 0]
Unit(v, w) == [i \in 1..K |-> IF MrgKeySeq[i] = v THEN w ELSE 0]
VecAdd(a, b) == [i \in 1..K |-> a[i] + b[i]]
RECURSIVE VecSumTo(_, _)
VecSumTo(a, i) == IF i = 0 THEN 0 ELSE a[i] + VecSumTo(a, i - 1)
VecSum(a) == VecSumTo(a, Len(a))

RECURSIVE Sum(_, _)           \* sum of f[x] for x in the finite set S
Sum(f, S) == IF S = {} THEN 0 ELSE LET x == CHOOSE y \in S : TRUE IN f[x] + Sum(f, S \ {x})
RECURSIVE SumV(_, _)          \* same for vector valued f
SumV(f, S) == IF S = {} THEN ZeroVec ELSE LET x == CHOOSE y \in S : TRUE IN VecAdd(f[x], SumV(f, S \ {x}))

---------------------------------------------------------------------------
(* the record space of the bounded model *)
CatTuples == [1..NCat -> CatVals \cup {Missing}]
Recs ==
  {[seq |-> s, cat |-> c, count |-> p[1], mt |-> p[2], mv |-> p[3], mm |-> ZeroVec] :
          s \in Seqs, c \in CatTuples, p \in PlainShapes}
  \cup {[seq |-> s, cat |-> c, count |-> VecSum(m), mt |-> "map", mv |-> "", mm |-> m] :
          s \in Seqs, c \in CatTuples, m \in MapShapes}
RecSeq == SetToSeq(Recs)      \* an arbitrary but fixed enumeration (bags = non decreasing index sequences)
NRecs == Len(RecSeq)

---------------------------------------------------------------------------
(* THE DEFINITION.  opt = [ncat, merge, ns] *)
MkOpt(t) == [ncat |-> t[1], merge |-> t[2], ns |-> t[3]]

Val(r, i) == IF r.cat[i] = Missing THEN NA ELSE r.cat[i]
Key(r, nc) == <<r.seq, [i \in 1..nc |-> Val(r, i)]>>
(* what record r brings to merged_k *)
Weight(r) == CASE r.mt = "map" -> r.mm
               [] r.mt = "val" -> Unit(r.mv, r.count)
               [] OTHER        -> Unit(NA, r.count)

Keys(rs, nc) == {Key(rs[i], nc) : i \in DOMAIN rs}
Class(rs, nc, k) == {i \in DOMAIN rs : Key(rs[i], nc) = k}
RECURSIVE CountTo(_, _)
CountTo(rs, i) == IF i = 0 THEN 0 ELSE rs[i].count + CountTo(rs, i - 1)
TotalCount(rs) == CountTo(rs, Len(rs))

Merged(rs, I, k, merge) ==
  [seq |-> k[1], cat |-> k[2],
   count  |-> Sum([i \in I |-> rs[i].count], I),
   merged |-> IF merge THEN SumV([i \in I |-> Weight(rs[i])], I) ELSE ZeroVec]

UniqAll(rs, nc, merge) == {Merged(rs, Class(rs, nc, k), k, merge) : k \in Keys(rs, nc)}
Uniq(rs, opt) == LET all == UniqAll(rs, opt.ncat, opt.merge)
                 IN  IF opt.ns THEN {o \in all : o.count # 1} ELSE all

(* The same set computed in one pass over the records (an accumulator per key): the form used to   *)
(* validate traces of 10^3 records; theorem FoldAgrees states that it is the definition above.      *)
RECURSIVE Accumulate(_, _, _, _, _)
Accumulate(rs, i, n, nc, acc) ==          \* acc[sequence][category values] = [count, vec]
  IF i > n THEN acc
  ELSE LET r     == rs[i]
           s     == r.seq
           c     == [j \in 1..nc |-> Val(r, j)]
           inner == IF s \in DOMAIN acc THEN acc[s] ELSE <<>>
           old   == IF c \in DOMAIN inner THEN inner[c] ELSE [count |-> 0, vec |-> ZeroVec]
           new   == [count |-> old.count + r.count, vec |-> VecAdd(old.vec, Weight(r))]
           upd   == IF c \in DOMAIN inner THEN [inner EXCEPT ![c] = new] ELSE (c :> new) @@ inner
       IN  Accumulate(rs, i + 1, n, nc, IF s \in DOMAIN acc THEN [acc EXCEPT ![s] = upd] ELSE (s :> upd) @@ acc)
UniqFold(rs, opt) ==
  LET acc == Accumulate(rs, 1, Len(rs), opt.ncat, <<>>)
      all == UNION {{[seq |-> s, cat |-> c, count |-> acc[s][c].count,
                      merged |-> IF opt.merge THEN acc[s][c].vec ELSE ZeroVec] : c \in DOMAIN acc[s]} : s \in DOMAIN acc}
  IN  IF opt.ns THEN {o \in all : o.count # 1} ELSE all

(* obidemerge -d k on a set of merged records: one record per value of the map, with that weight as count *)
DemergeOne(o) == {[seq |-> o.seq, cat |-> o.cat, count |-> o.merged[j], mt |-> "val", mv |-> MrgKeySeq[j], mm |-> ZeroVec] :
                     j \in {j \in 1..K : o.merged[j] > 0}}
Demerge(O) == UNION {DemergeOne(o) : o \in O}
(* an output record fed again to obiuniq: it is an already merged record *)
AsInput(o) == [seq |-> o.seq, cat |-> o.cat, count |-> o.count, mt |-> "map", mv |-> "", mm |-> o.merged]

---------------------------------------------------------------------------
(* IMPLEMENTATION-SHAPED MODEL of IUniqueSequence (value part): records are distributed on B chunks by *)
(* a hash of the sequence, each chunk is split in classes of identical sequence, every class of more  *)
(* than one record is split again on the last requested category, and so on; a class is folded into  *)
(* its first record with BioSequence.Merge, whose merged_k slot is created lazily.                   *)
SeqsSeq == SetToSeq(Seqs)
Hash(s) == CHOOSE i \in 1..Len(SeqsSeq) : SeqsSeq[i] = s

Groups(rs, F(_)) == {SelectSeq(rs, LAMBDA r : F(r) = v) : v \in {F(rs[i]) : i \in DOMAIN rs}}

(* acc = [count, has, vec]; `has` = the merged_k slot exists *)
InitStats(first, acc) == IF acc.has THEN acc
                         ELSE [acc EXCEPT !.has = TRUE,
                                          !.vec = IF first.mt = "val" THEN Unit(first.mv, acc.count) ELSE Unit(NA, acc.count)]
Start(first) == [count |-> first.count, has |-> first.mt = "map", vec |-> first.mm]
Step(first, acc, r, merge) ==
  LET a == IF merge THEN InitStats(first, acc) ELSE acc
  IN  [count |-> a.count + r.count, has |-> a.has,
       vec |-> IF merge THEN VecAdd(a.vec, Weight(r)) ELSE a.vec]
RECURSIVE Fold(_, _, _, _)
Fold(cls, i, acc, merge) == IF i > Len(cls) THEN acc ELSE Fold(cls, i + 1, Step(cls[1], acc, cls[i], merge), merge)
FoldMerge(cls, opt) ==
  LET a0 == Fold(cls, 2, Start(cls[1]), opt.merge)
      a  == IF opt.merge THEN InitStats(cls[1], a0) ELSE a0      \* len 1: seq.StatsOn(desc, na)
  IN  [seq |-> cls[1].seq, cat |-> [i \in 1..opt.ncat |-> Val(cls[1], i)], count |-> a.count,
       merged |-> IF opt.merge THEN a.vec ELSE ZeroVec]

RECURSIVE Refine(_, _, _)
Refine(cls, icat, opt) ==
  IF icat = 0 \/ Len(cls) = 1
    THEN IF opt.ns /\ Len(cls) = 1 /\ cls[1].count = 1 THEN {} ELSE {FoldMerge(cls, opt)}
    ELSE UNION {Refine(g, icat - 1, opt) : g \in Groups(cls, LAMBDA r : Val(r, icat))}

ImplUniq(rs, opt, B) ==
  UNION {UNION {Refine(g, opt.ncat, opt) : g \in Groups(chunk, LAMBDA r : r.seq)} :
            chunk \in {SelectSeq(rs, LAMBDA r : Hash(r.seq) % B = h) : h \in 0..(B - 1)}}

---------------------------------------------------------------------------
(* the bounded model: one state per (option set, bag) *)
VARIABLES opt, idx
vars == <<opt, idx>>
rs == [i \in DOMAIN idx |-> RecSeq[idx[i]]]

Init == opt \in {MkOpt(t) : t \in OptSet} /\ idx = <<>>
Next == /\ Len(idx) < MaxN
        /\ \E j \in (IF idx = <<>> THEN 1 ELSE idx[Len(idx)])..NRecs : idx' = Append(idx, j)
        /\ UNCHANGED opt

OutCount(O) == Sum([o \in O |-> o.count], O)
WithNs(full, ns) == IF ns THEN {o \in full : o.count # 1} ELSE full

(* ---- theorems of the specification, checked on every (option set, bag).  They are written over ---- *)
(* ---- r (the bag), full (its dereplication with singletons) and out (what the options ask for)  ---- *)
OnePerKeyT(r, full, out) ==
  /\ \A o1, o2 \in full : (o1.seq = o2.seq /\ o1.cat = o2.cat) => o1 = o2
  /\ {<<o.seq, o.cat>> : o \in full} = Keys(r, opt.ncat)
ConservationT(r, full, out) == OutCount(full) = TotalCount(r)
(* a class of total count 1 is a class made of one record of count 1 (what the code tests) *)
SingletonExactT(r, full, out) ==
  LET single == {k \in Keys(r, opt.ncat) : \E i \in DOMAIN r : Class(r, opt.ncat, k) = {i} /\ r[i].count = 1}
      kept   == WithNs(full, TRUE)
  IN  /\ {<<o.seq, o.cat>> : o \in full \ kept} = single
      /\ OutCount(kept) = TotalCount(r) - Cardinality(single)
(* records of the model are consistent (count = total of their map), so are the outputs *)
MapTotalIsCountT(r, full, out) == opt.merge => \A o \in out : VecSum(o.merged) = o.count
(* obiuniq -m k | obidemerge -d k | obiuniq -m k  =  obiuniq -m k ; demerge keeps the counts and yields *)
(* exactly one record per value present in the map                                                   *)
DemergeInverseT(r, full, out) ==
  opt.merge =>
    LET d == SetToSeq(Demerge(out))
    IN  /\ Uniq(d, [opt EXCEPT !.ns = FALSE]) = out
        /\ TotalCount(d) = OutCount(out)
        /\ \A o \in out : \A j \in 1..K :
              Cardinality({i \in DOMAIN d : d[i].seq = o.seq /\ d[i].cat = o.cat /\ d[i].mv = MrgKeySeq[j]})
                 = IF o.merged[j] > 0 THEN 1 ELSE 0
(* dereplication can be done by parts (chunks, sub-chunks, a second pass): partial results merge to the same set *)
HomomorphismT(r, full, out) ==
  (opt.merge /\ ~opt.ns) =>
    \A c \in 0..Len(r) :
       LET a == SetToSeq({AsInput(o) : o \in Uniq(SubSeq(r, 1, c), opt)})
           b == SetToSeq({AsInput(o) : o \in Uniq(SubSeq(r, c + 1, Len(r)), opt)})
       IN  Uniq(a \o b, opt) = out
(* the definition does not depend on the order in which the bag is written, and the implementation-shaped *)
(* pipeline computes it for every arrival order and chunk count                                           *)
Permuted(r, p) == [i \in DOMAIN r |-> r[p[i]]]
OrderIndependentT(r, full, out) == \A p \in Permutations(DOMAIN r) : Uniq(Permuted(r, p), opt) = out
ImplAgreesT(r, full, out) ==
  \A p \in Permutations(DOMAIN r) : \A B \in ChunkCounts : ImplUniq(Permuted(r, p), opt, B) = out

Accounting == LET r == rs  full == UniqAll(r, opt.ncat, opt.merge)  out == WithNs(full, opt.ns)
              IN  /\ OnePerKeyT(r, full, out) /\ ConservationT(r, full, out)
                  /\ SingletonExactT(r, full, out) /\ MapTotalIsCountT(r, full, out)
                  /\ UniqFold(r, opt) = out          \* FoldAgrees
Laws ==       Len(idx) <= LawsMaxN =>
              LET r == rs  full == UniqAll(r, opt.ncat, opt.merge)  out == WithNs(full, opt.ns)
              IN  /\ DemergeInverseT(r, full, out) /\ HomomorphismT(r, full, out)
                  /\ OrderIndependentT(r, full, out) /\ ImplAgreesT(r, full, out)
(* the same, one by one (to locate a broken theorem) *)
OnePerKey        == LET r == rs full == UniqAll(r, opt.ncat, opt.merge) IN OnePerKeyT(r, full, WithNs(full, opt.ns))
Conservation     == LET r == rs full == UniqAll(r, opt.ncat, opt.merge) IN ConservationT(r, full, WithNs(full, opt.ns))
SingletonExact   == LET r == rs full == UniqAll(r, opt.ncat, opt.merge) IN SingletonExactT(r, full, WithNs(full, opt.ns))
MapTotalIsCount  == LET r == rs full == UniqAll(r, opt.ncat, opt.merge) IN MapTotalIsCountT(r, full, WithNs(full, opt.ns))
DemergeInverse   == LET r == rs full == UniqAll(r, opt.ncat, opt.merge) IN DemergeInverseT(r, full, WithNs(full, opt.ns))
Homomorphism     == LET r == rs full == UniqAll(r, opt.ncat, opt.merge) IN HomomorphismT(r, full, WithNs(full, opt.ns))
OrderIndependent == LET r == rs full == UniqAll(r, opt.ncat, opt.merge) IN OrderIndependentT(r, full, WithNs(full, opt.ns))
FoldAgrees       == UniqFold(rs, opt) = Uniq(rs, opt)
ImplAgrees       == LET r == rs full == UniqAll(r, opt.ncat, opt.merge) IN ImplAgreesT(r, full, WithNs(full, opt.ns))

---------------------------------------------------------------------------
(* case export: one line per (option set, bag) *)
EncRec(r) == <<r.seq, r.cat, r.count, r.mt, r.mv, r.mm>>
EncOut(o) == <<o.seq, o.cat, o.count, o.merged>>
EncDem(d) == <<d.seq, d.cat, d.count, d.mv>>
Export ==
  LET r == rs  out == Uniq(r, opt) IN
  CSVWrite("%1$s", <<ToJson([in  |-> [i \in DOMAIN r |-> EncRec(r[i])],
                            opt |-> <<opt.ncat, IF opt.merge THEN 1 ELSE 0, IF opt.ns THEN 1 ELSE 0>>,
                            keys |-> MrgKeySeq,
                            out |-> SetToSeq({EncOut(o) : o \in out}),
                            dem |-> IF opt.merge THEN SetToSeq({EncDem(d) : d \in Demerge(out)}) ELSE <<>>])>>,
           IOEnv.VERIF_CASES)
=============================================================================

------------------------------ MODULE TaxFind ------------------------------
(***************************************************************************)
(* X06 - what obifind lists, and what the taxonomy options of obiannotate  *)
(* write (statements: extra/X06.md).  Built on Tax.tla (property C14): the *)
(* tree, paths, clades, ranks and alias resolution are NOT re-specified.   *)
(*                                                                         *)
(* A taxonomy T is the record of Tax.tla with one more field               *)
(*    alt : sequence of n sequences of strings, alt[x] = the names of x    *)
(*          other than its scientific name, in the order of names.dmp      *)
(* Names, ranks, patterns and output lines are TLA+ strings (TLC evaluates *)
(* \o, Len and SubSeq on them).                                            *)
(***************************************************************************)
EXTENDS Tax, TLC

-----------------------------------------------------------------------------
(* strings *)
Ch(s, i) == SubSeq(s, i, i)

RECURSIVE Spaces(_)
Spaces(k) == IF k <= 0 THEN "" ELSE " " \o Spaces(k - 1)
PadR(s, w) == s \o Spaces(w - Len(s))            \* %-ws : never truncated
PadL(s, w) == Spaces(w - Len(s)) \o s            \* %wd

RngF(s) == { s[i] : i \in 1..Len(s) }

-----------------------------------------------------------------------------
(* name patterns.  A pattern is [lit, head, tail]: the regular expression  *)
(* (head ? "^") lit (tail ? "$") where lit is made of letters, digits,     *)
(* spaces and of "." (any one symbol).  This is the fragment of the        *)
(* regular expressions the specification gives a meaning to.               *)
Arg(P) == (IF P.head THEN "^" ELSE "") \o P.lit \o (IF P.tail THEN "$" ELSE "")

MatchAt(lit, s, i) ==                    \* lit matches s from position i+1
  /\ i + Len(lit) <= Len(s)
  /\ \A k \in 1..Len(lit) : Ch(lit, k) = "." \/ Ch(lit, k) = Ch(s, i + k)

Matches(P, s) ==
  LET starts == IF P.head THEN {0} ELSE 0..Len(s)
  IN \E i \in starts : MatchAt(P.lit, s, i) /\ (P.tail => i + Len(P.lit) = Len(s))

(* the names a search looks at: the scientific name; with -a the others too.   *)
(* skip = 0 is the statement.  skip = 1 is pkg/obitax AS WRITTEN: AddNewName   *)
(* creates the map of alternative names when it meets the first one and        *)
(* forgets to put that name in it.                                             *)
NamesOf(T, x, all, skip) ==
  {T.name[x]} \cup (IF all THEN { T.alt[x][j] : j \in (1 + skip)..Len(T.alt[x]) } ELSE {})

(* does pattern P select taxon x?  -F: some name IS the pattern (the index of  *)
(* names is complete even as written); otherwise some name matches it          *)
NameSel(T, x, P, fixed, all, skip) ==
  IF fixed THEN P.lit \in NamesOf(T, x, all, 0)
  ELSE \E nm \in NamesOf(T, x, all, skip) : Matches(P, nm)

-----------------------------------------------------------------------------
(* a query = one obifind command line                                          *)
(*   mode    "names" (patterns given), "all" (none), "path" (--parents),       *)
(*           "ranks" (--rank-list)                                             *)
(*   pats    the patterns, in the order of the command line                    *)
(*   fixed   -F     allnames  -a     withpath  -P                              *)
(*   rank    --rank ("" = not given)                                           *)
(*   clades  -r ids (sequence, may be empty)                                   *)
(*   taxid   --parents id                                                      *)
IsQuery(Q) ==
  /\ Q.mode \in {"names", "all", "path", "ranks"}
  /\ (Q.mode = "names") <=> (Len(Q.pats) > 0)
  /\ \A i \in 1..Len(Q.pats) : Q.fixed => ~Q.pats[i].head /\ ~Q.pats[i].tail

Restricted(T, Q, x) ==
  /\ (Q.rank = "" \/ T.rank[x] = Q.rank)
  /\ (Len(Q.clades) = 0 \/ \E i \in 1..Len(Q.clades) : SubCladeWalk(T, x, Resolve(T, Q.clades[i])))

(* the taxa listed for one pattern / for the whole taxonomy *)
Selected(T, Q, P, skip) == { x \in Node(T) : NameSel(T, x, P, Q.fixed, Q.allnames, skip) /\ Restricted(T, Q, x) }
SelectedAll(T, Q)       == { x \in Node(T) : Restricted(T, Q, x) }

(* the command fails: a taxid it was given means nothing *)
Fails(T, Q) ==
  \/ \E i \in 1..Len(Q.clades) : Resolve(T, Q.clades[i]) = 0
  \/ Q.mode = "path" /\ Resolve(T, Q.taxid) = 0

-----------------------------------------------------------------------------
(* the line printed for a taxon: five columns *)
RECURSIVE JoinNames(_, _, _)
JoinNames(T, p, k) ==          \* names of p[k], p[k-1], ..., p[1] joined by ":"  (p = Path: root last)
  IF k = 0 THEN "" ELSE T.name[p[k]] \o (IF k > 1 THEN ":" ELSE "") \o JoinNames(T, p, k - 1)

LastCol(T, x, withpath) == IF withpath THEN LET p == Path(T, x) IN JoinNames(T, p, Len(p)) ELSE T.name[x]

Line(T, tag, x, withpath) ==
  PadR(tag, 20) \o " | " \o PadL(ToString(x), 10) \o " | " \o PadL(ToString(T.parent[x]), 10) \o " | "
     \o PadR(T.rank[x], 20) \o " | " \o LastCol(T, x, withpath)

(* The expected output is a sequence of BLOCKS, each a set of lines: the output *)
(* must be the blocks in their order, each block being its lines exactly once   *)
(* in ANY order (obifind walks a hash map).  --parents promises an order: one   *)
(* block per line.                                                              *)
Blocks(T, Q, skip) ==
  CASE Q.mode = "names" ->
         [i \in 1..Len(Q.pats) |-> { Line(T, Arg(Q.pats[i]), x, Q.withpath) : x \in Selected(T, Q, Q.pats[i], skip) }]
    [] Q.mode = "all"   -> << { Line(T, "", x, Q.withpath) : x \in SelectedAll(T, Q) } >>
    [] Q.mode = "path"  ->
         LET x == Resolve(T, Q.taxid)  p == Path(T, x)
         IN [k \in 1..Len(p) |-> { Line(T, "path:" \o ToString(x), p[k], Q.withpath) }]
    [] Q.mode = "ranks" -> << { T.rank[x] : x \in Node(T) } >>       \* every rank of the taxonomy, once

(* --rank-list AS WRITTEN: the option is accepted and ignored *)
AsWrittenQuery(Q) == IF Q.mode = "ranks" THEN [Q EXCEPT !.mode = "all"] ELSE Q

(* out (sequence of lines) is the blocks bs *)
Offsets(bs) == LET f[i \in 0..Len(bs)] == IF i = 0 THEN 0 ELSE f[i - 1] + Cardinality(bs[i]) IN f
IsBlocks(out, bs) ==
  LET off == Offsets(bs) IN
  /\ Len(out) = off[Len(bs)]
  /\ \A i \in 1..Len(bs) : { out[j] : j \in (off[i - 1] + 1)..off[i] } = bs[i]

Contains(s, sub) == \E i \in 0..(Len(s) - Len(sub)) : SubSeq(s, i + 1, i + Len(sub)) = sub
RECURSIVE TrimR(_)
TrimR(s) == IF Len(s) > 0 /\ Ch(s, Len(s)) = " " THEN TrimR(SubSeq(s, 1, Len(s) - 1)) ELSE s

(* verdict on one run: rc = exit status (0 / not 0), out = the lines of the standard output *)
FindVerdict(T, Q, rc, out) ==
  IF Fails(T, Q)
  THEN IF rc # 0 /\ \A j \in 1..Len(out) : ~Contains(out[j], " | ") THEN "ok" ELSE "unknown taxid not refused"
  ELSE IF rc # 0 THEN "failed"
  ELSE IF Q.mode = "ranks"
       THEN IF IsBlocks([j \in 1..Len(out) |-> TrimR(out[j])], Blocks(T, Q, 0)) THEN "ok"
            ELSE IF IsBlocks(out, Blocks(T, AsWrittenQuery(Q), 0)) THEN "known:rank_list_ignored"
            ELSE "rank list"
  ELSE IF IsBlocks(out, Blocks(T, Q, 0)) THEN "ok"
  ELSE IF IsBlocks(out, Blocks(T, Q, 1)) THEN "known:first_alt_name_lost"
  ELSE "listing"

-----------------------------------------------------------------------------
(* obiannotate: the taxonomy options.                                          *)
(*   O = [sci, rank, path : BOOLEAN, atrank : sequence of rank names]          *)
(*   a record = [has : BOOLEAN, taxid : Int]  (has = it carries a taxid)       *)
(* A record without taxid is given taxid 1 (the root of the NCBI taxonomy).    *)
TaxidOf(r) == IF r.has THEN r.taxid ELSE 1
NeedsTaxon(O) == O.sci \/ O.rank \/ O.path

(* the run fails: an option that must name the taxon meets a taxid that means nothing *)
AnnotFails(T, O, recs) == NeedsTaxon(O) /\ \E i \in 1..Len(recs) : Resolve(T, TaxidOf(recs[i])) = 0

RECURSIVE PathText(_, _, _)
PathText(T, p, k) ==           \* "taxid@name@rank" of p[k], ..., p[1] joined by "|"  (root first)
  IF k = 0 THEN ""
  ELSE ToString(p[k]) \o "@" \o T.name[p[k]] \o "@" \o T.rank[p[k]] \o (IF k > 1 THEN "|" ELSE "") \o PathText(T, p, k - 1)

(* integer and text attributes of the record written, as sets of <<key, value>>;  *)
(* scikey = "scientific_name" is the statement, "scienctific_name" the code as written *)
IntAttrs(T, O, r) ==
  LET x == Resolve(T, TaxidOf(r)) IN
  (IF r.has THEN { <<"taxid", r.taxid>> } ELSE {})                       \* kept as it was, alias or not
  \cup (IF x = 0 THEN {}
        ELSE { <<O.atrank[i] \o "_taxid", IF AtRank(T, x, O.atrank[i]) = 0 THEN -1 ELSE AtRank(T, x, O.atrank[i])>> : i \in 1..Len(O.atrank) })

StrAttrs(T, O, r, scikey) ==
  LET x == Resolve(T, TaxidOf(r)) IN
  IF x = 0 THEN {}
  ELSE { <<O.atrank[i] \o "_name", IF AtRank(T, x, O.atrank[i]) = 0 THEN "NA" ELSE T.name[AtRank(T, x, O.atrank[i])]>> : i \in 1..Len(O.atrank) }
       \cup (IF O.sci  THEN { <<scikey, T.name[x]>> } ELSE {})
       \cup (IF O.rank THEN { <<"taxonomic_rank", T.rank[x]>> } ELSE {})
       \cup (IF O.path THEN { <<"taxonomic_path", LET p == Path(T, x) IN PathText(T, p, Len(p))>> } ELSE {})

Pairs(ks, vs) == { <<ks[j], vs[j]>> : j \in 1..Len(ks) }

(* o = what was observed for one input record: n = times it was written, ik/iv, sk/sv = its attributes *)
RecVerdict(T, O, r, o) ==
  IF o.n # 1 THEN "record lost or duplicated"
  ELSE IF Len(o.ik) # Len(o.iv) \/ Len(o.sk) # Len(o.sv) THEN "bad-input"
  ELSE IF Pairs(o.ik, o.iv) # IntAttrs(T, O, r) \/ Cardinality(Pairs(o.ik, o.iv)) # Len(o.ik) THEN "integer attributes"
  ELSE IF Cardinality(Pairs(o.sk, o.sv)) # Len(o.sk) THEN "text attributes"
  ELSE IF Pairs(o.sk, o.sv) = StrAttrs(T, O, r, "scientific_name") THEN "ok"
  ELSE IF Pairs(o.sk, o.sv) = StrAttrs(T, O, r, "scienctific_name") THEN "known:scientific_name_key"
  ELSE "text attributes"

AnnotVerdict(T, O, recs, rc, obs) ==
  IF AnnotFails(T, O, recs) THEN (IF rc # 0 THEN "ok" ELSE "unknown taxid not refused")
  ELSE IF rc # 0 THEN "failed"
  ELSE IF Len(obs) # Len(recs) THEN "bad-input"
  ELSE LET vs == [i \in 1..Len(recs) |-> RecVerdict(T, O, recs[i], obs[i])]
           bad == { i \in 1..Len(recs) : vs[i] # "ok" /\ vs[i] # "known:scientific_name_key" }
       IN IF bad # {} THEN vs[CHOOSE i \in bad : TRUE]
          ELSE IF \E i \in 1..Len(recs) : vs[i] # "ok" THEN "known:scientific_name_key" ELSE "ok"

-----------------------------------------------------------------------------
(* obiannotate --add-lca-in SLOT [--lca-error e]                               *)
(* The record carries a bag of taxids with weights (merged_taxid) or one taxid. *)
(*   bag = sequence of <<id, weight>> (ids distinct, all meaning a taxon)      *)
(*   E   = the tolerated error in 1/1000                                       *)
EndsWith(s, suf) == Len(s) >= Len(suf) /\ SubSeq(s, Len(s) - Len(suf) + 1, Len(s)) = suf
FirstAt(s, w)    == CHOOSE i \in 0..(Len(s) - Len(w)) :
                       /\ SubSeq(s, i + 1, i + Len(w)) = w
                       /\ \A j \in 0..(i - 1) : SubSeq(s, j + 1, j + Len(w)) # w
ReplaceFirst(s, w, by) == IF ~Contains(s, w) THEN s
                          ELSE LET i == FirstAt(s, w) IN SubSeq(s, 1, i) \o by \o SubSeq(s, i + Len(w) + 1, Len(s))

(* the three attributes: SLOT_taxid (SLOT itself when it already ends in "taxid"), and the same key  *)
(* with "taxid" replaced by "name" / "error"; the bare slot "taxid" goes with scientific_name and    *)
(* lca_error                                                                                           *)
LcaKeys(slot) ==
  LET t == IF EndsWith(slot, "taxid") THEN slot ELSE slot \o "_taxid"
      n == ReplaceFirst(t, "taxid", "name")   e == ReplaceFirst(t, "taxid", "error")
  IN [taxid |-> t, name |-> IF n = "name" THEN "scientific_name" ELSE n, error |-> IF e = "error" THEN "lca_error" ELSE e]

(* weight of the bag lying in the clade of c *)
BagWeight(T, bag, c) ==
  LET f[i \in 0..Len(bag)] ==
        IF i = 0 THEN 0 ELSE f[i - 1] + (IF SubCladeWalk(T, Resolve(T, bag[i][1]), c) THEN bag[i][2] ELSE 0)
  IN f[Len(bag)]

(* What the documentation promises of the answer c and of the reported error v (in 1/1000):          *)
(*  - c lies in the clade of the exact LCA of the bag (C14);                                         *)
(*  - at most the fraction E of the weight disagrees with c (lies outside its clade);                *)
(*  - the reported error is at most E and is not smaller than the disagreeing fraction.              *)
(* Hence E = 0 accepts the exact LCA only, with error 0.  One unit of slack for the roundings.       *)
(* WHICH of the acceptable taxa is answered (the code descends towards the heaviest child and        *)
(* breaks ties in hash order) is not stated.                                                         *)
LcaAccepts(T, bag, E, c, v) ==
  LET S  == { Resolve(T, bag[i][1]) : i \in 1..Len(bag) }
      W  == BagWeight(T, bag, Root(T))
  IN /\ c \in Node(T)
     /\ SubCladeWalk(T, c, SetLCA(T, S))
     /\ LET wc == BagWeight(T, bag, c) IN
        /\ 1000 * wc + 1 >= (1000 - E) * W
        /\ 1000 * (W - wc) <= (v + 1) * W
     /\ v >= 0 /\ v <= E

(* Taxonomy.TaxonomicDistribution AS WRITTEN: when two ids of the bag mean the same taxon (a merged id and its   *)
(* new id) the weight of one of them replaces the weight of the other instead of being added to it: the bag the  *)
(* code sees keeps one entry per taxon meant (which one: hash order)                                              *)
HasSynonyms(T, bag) == \E i, j \in 1..Len(bag) : i # j /\ Resolve(T, bag[i][1]) = Resolve(T, bag[j][1])
SubBag(bag, I)      == [k \in 1..Cardinality(I) |-> bag[CHOOSE i \in I : Cardinality({ j \in I : j < i }) = k - 1]]
SeenBags(T, bag)    ==          \* one entry kept for every taxon meant
  { SubBag(bag, I) : I \in { I \in SUBSET (1..Len(bag)) :
        \A i \in 1..Len(bag) : Cardinality({ j \in I : Resolve(T, bag[j][1]) = Resolve(T, bag[i][1]) }) = 1 } }

(* the attribute names of the record written; a record that had a plain taxid is also given the bag     *)
(* merged_taxid = {taxid: 1}: accepted, not demanded                                                     *)
LcaKeySets(slot, r) ==
  LET K == LcaKeys(slot)
      want == {K.taxid, K.name, K.error} \cup (IF r.astaxid THEN {"taxid"} ELSE {"merged_taxid"})
  IN IF r.astaxid THEN {want, want \cup {"merged_taxid"}} ELSE {want}

IndexOf(ks, key) == IF \E j \in 1..Len(ks) : ks[j] = key THEN CHOOSE j \in 1..Len(ks) : ks[j] = key ELSE 0

(* one record: r = [bag, astaxid] (astaxid: the bag is one taxid written as a plain taxid attribute);  *)
(* o = the record written: integer (ik/iv), text (sk/sv), fractional (fk/fv, in 1/1000) and map (mk)   *)
(* attributes                                                                                          *)
LcaRecVerdict(T, slot, E, r, o) ==
  LET K  == LcaKeys(slot)
      jt == IndexOf(o.ik, K.taxid)   jn == IndexOf(o.sk, K.name)
      je == IndexOf(o.fk, K.error)   jz == IndexOf(o.ik, K.error)           \* an error of 0 or 1 is written as an integer
      v  == IF je # 0 THEN o.fv[je] ELSE IF jz # 0 THEN 1000 * o.iv[jz] ELSE -1
      keys == RngF(o.ik) \cup RngF(o.sk) \cup RngF(o.fk) \cup RngF(o.mk)
      okkeys == keys \in LcaKeySets(slot, r)
  IN IF o.n # 1 THEN "record lost or duplicated"
     ELSE IF ~okkeys \/ Len(o.ik) + Len(o.sk) + Len(o.fk) + Len(o.mk) # Cardinality(keys) THEN "attribute names"
     ELSE IF jt = 0 \/ jn = 0 \/ v < 0 THEN "attribute names"
     ELSE IF o.iv[jt] \notin Node(T) THEN "lca"
     ELSE IF ~LcaAccepts(T, r.bag, E, o.iv[jt], v) THEN
             (IF HasSynonyms(T, r.bag) /\ \E b \in SeenBags(T, r.bag) : LcaAccepts(T, b, E, o.iv[jt], v) THEN "known:lca_synonym_weight_lost" ELSE "lca")
     ELSE IF o.sv[jn] # T.name[o.iv[jt]] THEN "lca name"
     ELSE IF r.astaxid /\ K.taxid # "taxid" /\ (IndexOf(o.ik, "taxid") = 0 \/ o.iv[IndexOf(o.ik, "taxid")] # r.bag[1][1]) THEN "taxid changed"
     ELSE "ok"

IsBag(T, bag) == /\ Len(bag) >= 1
                 /\ \A i \in 1..Len(bag) : Resolve(T, bag[i][1]) # 0 /\ bag[i][2] >= 1
                 /\ \A i, j \in 1..Len(bag) : bag[i][1] = bag[j][1] => i = j

LcaVerdict(T, slot, E, recs, rc, obs) ==
  IF \E i \in 1..Len(recs) : ~IsBag(T, recs[i].bag) \/ (recs[i].astaxid /\ Len(recs[i].bag) # 1) THEN "bad-input"
  ELSE IF rc # 0 THEN "failed"
  ELSE IF Len(obs) # Len(recs) THEN "bad-input"
  ELSE LET vs  == [i \in 1..Len(recs) |-> LcaRecVerdict(T, slot, E, recs[i], obs[i])]
           bad == { i \in 1..Len(recs) : vs[i] # "ok" /\ vs[i] # "known:lca_synonym_weight_lost" }
       IN IF bad # {} THEN vs[CHOOSE i \in bad : TRUE]
          ELSE IF \E i \in 1..Len(recs) : vs[i] # "ok" THEN "known:lca_synonym_weight_lost" ELSE "ok"
=============================================================================

------------------------------ MODULE TaxFind ------------------------------
(***************************************************************************)
(* X06 - what obifind lists, and what the taxonomy options of obiannotate  *)
(* write (statements: extra/X06.md).  Built on Tax.tla (property C14): the *)
(* tree, paths, clades, ranks and alias resolution are NOT re-specified.   *)
(*                                                                         *)
(* A taxonomy T is the record of Tax.tla with one more field               *)
(*    alt : sequence of n sequences of strings, alt[x] = the names of x    *)
(*          other than its scientific name, in the order of names.dmp      *)
(* Names, ranks, patterns and output lines are TLA+ strings (TLC evaluates *)
(* \o, Len and SubSeq on them).                                            *)
(***************************************************************************)
EXTENDS Tax, TLC

-----------------------------------------------------------------------------
(* strings *)
Ch(s, i) == SubSeq(s, i, i)

RECURSIVE Spaces(_)
Spaces(k) == IF k <= 0 THEN "" ELSE " " \o Spaces(k - 1)
PadR(s, w) == s \o Spaces(w - Len(s))            \* %-ws : never truncated
PadL(s, w) == Spaces(w - Len(s)) \o s            \* %wd

RngF(s) == { s[i] : i \in 1..Len(s) }

-----------------------------------------------------------------------------
(* name patterns.  A pattern is [lit, head, tail]: the regular expression  *)
(* (head ? "^") lit (tail ? "$") where lit is made of letters, digits,     *)
(* spaces and of "." (any one symbol).  This is the fragment of the        *)
(* regular expressions the specification gives a meaning to.               *)
Arg(P) == (IF P.head THEN "^" ELSE "") \o P.lit \o (IF P.tail THEN "$" ELSE "")

MatchAt(lit, s, i) ==                    \* lit matches s from position i+1
  /\ i + Len(lit) <= Len(s)
  /\ \A k \in 1..Len(lit) : Ch(lit, k) = "." \/ Ch(lit, k) = Ch(s, i + k)

Matches(P, s) ==
  LET starts == IF P.head THEN {0} ELSE 0..Len(s)
  IN \E i \in starts : MatchAt(P.lit, s, i) /\ (P.tail => i + Len(P.lit) = Len(s))

(* the names a search looks at: the scientific name; with -a the others too.   *)
(* skip = 0 is the statement.  skip = 1 is pkg/obitax AS WRITTEN: AddNewName   *)
(* creates the map of alternative names when it meets the first one and        *)
(* forgets to put that name in it.                                             *)
NamesOf(T, x, all, skip) ==
  {T.name[x]} \cup (IF all THEN { T.alt[x][j] : j \in (1 + skip)..Len(T.alt[x]) } ELSE {})

(* does pattern P select taxon x?  -F: some name IS the pattern (the index of  *)
(* names is complete even as written); otherwise some name matches it          *)
NameSel(T, x, P, fixed, all, skip) ==
  IF fixed THEN P.lit \in NamesOf(T, x, all, 0)
  ELSE \E nm \in NamesOf(T, x, all, skip) : Matches(P, nm)

-----------------------------------------------------------------------------
(* a query = one obifind command line                                          *)
(*   mode    "names" (patterns given), "all" (none), "path" (--parents),       *)
(*           "ranks" (--rank-list)                                             *)
(*   pats    the patterns, in the order of the command line                    *)
(*   fixed   -F     allnames  -a     withpath  -P                              *)
(*   rank    --rank ("" = not given)                                           *)
(*   clades  -r ids (sequence, may be empty)                                   *)
(*   taxid   --parents id                                                      *)
IsQuery(Q) ==
  /\ Q.mode \in {"names", "all", "path", "ranks"}
  /\ (Q.mode = "names") <=> (Len(Q.pats) > 0)
  /\ \A i \in 1..Len(Q.pats) : Q.fixed => ~Q.pats[i].head /\ ~Q.pats[i].tail

Restricted(T, Q, x) ==
  /\ (Q.rank = "" \/ T.rank[x] = Q.rank)
  /\ (Len(Q.clades) = 0 \/ \E i \in 1..Len(Q.clades) : SubCladeWalk(T, x, Resolve(T, Q.clades[i])))

(* the taxa listed for one pattern / for the whole taxonomy *)
Selected(T, Q, P, skip) == { x \in Node(T) : NameSel(T, x, P, Q.fixed, Q.allnames, skip) /\ Restricted(T, Q, x) }
SelectedAll(T, Q)       == { x \in Node(T) : Restricted(T, Q, x) }

(* the command fails: a taxid it was given means nothing *)
Fails(T, Q) ==
  \/ \E i \in 1..Len(Q.clades) : Resolve(T, Q.clades[i]) = 0
  \/ Q.mode = "path" /\ Resolve(T, Q.taxid) = 0

-----------------------------------------------------------------------------
(* the line printed for a taxon: five columns *)
RECURSIVE JoinNames(_, _, _)
JoinNames(T, p, k) ==          \* names of p[k], p[k-1], ..., p[1] joined by ":"  (p = Path: root last)
  IF k = 0 THEN "" ELSE T.name[p[k]] \o (IF k > 1 THEN ":" ELSE "") \o JoinNames(T, p, k - 1)

LastCol(T, x, withpath) == IF withpath THEN LET p == Path(T, x) IN JoinNames(T, p, Len(p)) ELSE T.name[x]

Line(T, tag, x, withpath) ==
  PadR(tag, 20) \o " | " \o PadL(ToString(x), 10) \o " | " \o PadL(ToString(T.parent[x]), 10) \o " | "
     \o PadR(T.rank[x], 20) \o " | " \o LastCol(T, x, withpath)

(* The expected output is a sequence of BLOCKS, each a set of lines: the output *)
(* must be the blocks in their order, each block being its lines exactly once   *)
(* in ANY order (obifind walks a hash map).  --parents promises an order: one   *)
(* block per line.                                                              *)
Blocks(T, Q, skip) ==
  CASE Q.mode = "names" ->
         [i \in 1..Len(Q.pats) |-> { Line(T, Arg(Q.pats[i]), x, Q.withpath) : x \in Selected(T, Q, Q.pats[i], skip) }]
    [] Q.mode = "all"   -> << { Line(T, "", x, Q.withpath) : x \in SelectedAll(T, Q) } >>
    [] Q.mode = "path"  ->
         LET x == Resolve(T, Q.taxid)  p == Path(T, x)
         IN [k \in 1..Len(p) |-> { Line(T, "path:" \o ToString(x), p[k], Q.withpath) }]
    [] Q.mode = "ranks" -> << { T.rank[x] : x \in Node(T) } >>       \* every rank of the taxonomy, once

(* --rank-list AS WRITTEN: the option is accepted and ignored *)
AsWrittenQuery(Q) == IF Q.mode = "ranks" THEN [Q EXCEPT !.mode = "all"] ELSE Q

(* out (sequence of lines) is the blocks bs *)
Offsets(bs) == LET f[i \in 0..Len(bs)] == IF i = 0 THEN 0 ELSE f[i - 1] + Cardinality(bs[i]) IN f
IsBlocks(out, bs) ==
  LET off == Offsets(bs) IN
  /\ Len(out) = off[Len(bs)]
  /\ \A i \in 1..Len(bs) : { out[j] : j \in (off[i - 1] + 1)..off[i] } = bs[i]

Contains(s, sub) == \E i \in 0..(Len(s) - Len(sub)) : SubSeq(s, i + 1, i + Len(sub)) = sub
RECURSIVE TrimR(_)
TrimR(s) == IF Len(s) > 0 /\ Ch(s, Len(s)) = " " THEN TrimR(SubSeq(s, 1, Len(s) - 1)) ELSE s

(* verdict on one run: rc = exit status (0 / not 0), out = the lines of the standard output *)
FindVerdict(T, Q, rc, out) ==
  IF Fails(T, Q)
  THEN IF rc # 0 /\ \A j \in 1..Len(out) : ~Contains(out[j], " | ") THEN "ok" ELSE "unknown taxid not refused"
  ELSE IF rc # 0 THEN "failed"
  ELSE IF Q.mode = "ranks"
       THEN IF IsBlocks([j \in 1..Len(out) |-> TrimR(out[j])], Blocks(T, Q, 0)) THEN "ok"
            ELSE IF IsBlocks(out, Blocks(T, AsWrittenQuery(Q), 0)) THEN "known:rank_list_ignored"
            ELSE "rank list"
  ELSE IF IsBlocks(out, Blocks(T, Q, 0)) THEN "ok"
  ELSE IF IsBlocks(out, Blocks(T, Q, 1)) THEN "known:first_alt_name_lost"
  ELSE "listing"

-----------------------------------------------------------------------------
(* obiannotate: the taxonomy options.                                          *)
(*   O = [sci, rank, path : BOOLEAN, atrank : sequence of rank names]          *)
(*   a record = [has : BOOLEAN, taxid : Int]  (has = it carries a taxid)       *)
(* A record without taxid is given taxid 1 (the root of the NCBI taxonomy).    *)
TaxidOf(r) == IF r.has THEN r.taxid ELSE 1
NeedsTaxon(O) == O.sci \/ O.rank \/ O.path

(* the run fails: an option that must name the taxon meets a taxid that means nothing *)
AnnotFails(T, O, recs) == NeedsTaxon(O) /\ \E i \in 1..Len(recs) : Resolve(T, TaxidOf(recs[i])) = 0

RECURSIVE PathText(_, _, _)
PathText(T, p, k) ==           \* "taxid@name@rank" of p[k], ..., p[1] joined by "|"  (root first)
  IF k = 0 THEN ""
  ELSE ToString(p[k]) \o "@" \o T.name[p[k]] \o "@" \o T.rank[p[k]] \o (IF k > 1 THEN "|" ELSE "") \o PathText(T, p, k - 1)

(* integer and text attributes of the record written, as sets of <<key, value>>;  *)
(* scikey = "scientific_name" is the statement, "scienctific_name" the code as written *)
IntAttrs(T, O, r) ==
  LET x == Resolve(T, TaxidOf(r)) IN
  (IF r.has THEN { <<"taxid", r.taxid>> } ELSE {})                       \* kept as it was, alias or not
  \cup (IF x = 0 THEN {}
        ELSE { <<O.atrank[i] \o "_taxid", IF AtRank(T, x, O.atrank[i]) = 0 THEN -1 ELSE AtRank(T, x, O.atrank[i])>> : i \in 1..Len(O.atrank) })

StrAttrs(T, O, r, scikey) ==
  LET x == Resolve(T, TaxidOf(r)) IN
  IF x = 0 THEN {}
  ELSE { <<O.atrank[i] \o "_name", IF AtRank(T, x, O.atrank[i]) = 0 THEN "NA" ELSE T.name[AtRank(T, x, O.atrank[i])]>> : i \in 1..Len(O.atrank) }
       \cup (IF O.sci  THEN { <<scikey, T.name[x]>> } ELSE {})
       \cup (IF O.rank THEN { <<"taxonomic_rank", T.rank[x]>> } ELSE {})
       \cup (IF O.path THEN { <<"taxonomic_path", LET p == Path(T, x) IN PathText(T, p, Len(p))>> } ELSE {})

Pairs(ks, vs) == { <<ks[j], vs[j]>> : j \in 1..Len(ks) }

(* o = what was observed for one input record: n = times it was written, ik/iv, sk/sv = its attributes *)
RecVerdict(T, O, r, o) ==
  IF o.n # 1 THEN "record lost or duplicated"
  ELSE IF Len(o.ik) # Len(o.iv) \/ Len(o.sk) # Len(o.sv) THEN "bad-input"
  ELSE IF Pairs(o.ik, o.iv) # IntAttrs(T, O, r) \/ Cardinality(Pairs(o.ik, o.iv)) # Len(o.ik) THEN "integer attributes"
  ELSE IF Cardinality(Pairs(o.sk, o.sv)) # Len(o.sk) THEN "text attributes"
  ELSE IF Pairs(o.sk, o.sv) = StrAttrs(T, O, r, "scientific_name") THEN "ok"
  ELSE IF Pairs(o.sk, o.sv) = StrAttrs(T, O, r, "scienctific_name") THEN "known:scientific_name_key"
  ELSE "text attributes"

AnnotVerdict(T, O, recs, rc, obs) ==
  IF AnnotFails(T, O, recs) THEN (IF rc # 0 THEN "ok" ELSE "unknown taxid not refused")
  ELSE IF rc # 0 THEN "failed"
  ELSE IF Len(obs) # Len(recs) THEN "bad-input"
  ELSE LET vs == [i \in 1..Len(recs) |-> RecVerdict(T, O, recs[i], obs[i])]
           bad == { i \in 1..Len(recs) : vs[i] # "ok" /\ vs[i] # "known:scientific_name_key" }
       IN IF bad # {} THEN vs[CHOOSE i \in bad : TRUE]
          ELSE IF \E i \in 1..Len(recs) : vs[i] # "ok" THEN "known:scientific_name_key" ELSE "ok"
=============================================================================

----------------------------- MODULE PairedCmd -----------------------------
(***************************************************************************)
(* Extension X05: the paired-end COMMANDS end to end - obipairing,         *)
(* obitagpcr, obicomplement - stated as compositions of operators that the *)
(* listed properties already decide on one object:                         *)
(*   PEAlign.tla (C08)  consensus / statistics of ONE pair given the path  *)
(*                      the alignment kernel returned;                     *)
(*   Demux.tla   (C12)  demultiplexing of ONE read with a sample sheet;    *)
(*   SeqVal.tla  (C07)  reverse complement of ONE record (VRC).            *)
(* Nothing of those kernels is specified again here.  A command-level      *)
(* statement has the shape "record i of the output is G(record i of the    *)
(* forward file, record i of the reverse file, options)", G being built    *)
(* from the operators above, plus count / order clauses on whole files.    *)
(*                                                                         *)
(* Reads are tuples of one-character strings with a tuple of qualities.    *)
(* The kernel answer K = [left, score, path, fc, over, fs] is an INPUT:    *)
(* the value obialign.PEAlign returns for (forward read, reverse-          *)
(* complemented reverse read) under the options of the command line.       *)
(***************************************************************************)
EXTENDS Integers, Sequences, FiniteSets, SequencesExt, TLC

PE == INSTANCE PEAlign
DX == INSTANCE Demux
SV == INSTANCE SeqVal

---------------------------------------------------------------------------
(* the reverse read is reverse-complemented before anything else *)
RevRead(r)  == SV!RC(r)
RevQual(q)  == SV!Rev(q)

---------------------------------------------------------------------------
(* obipairing: one output record per pair *)

(* mismatch annotations: one entry per distinct (symbol, score, symbol, score) seen in a column *)
(* where both reads carry a base and the bases differ; it points at the LAST such column       *)
IsMM(c) == ~PE!ColIsGap(c) /\ c[1] # c[3]
MMOf(cols) ==
  LET I    == {k \in 1..Len(cols) : IsMM(cols[k])}
      last == {k \in I : \A j \in I : cols[j] = cols[k] => j <= k}
  IN  {[p |-> k, x |-> cols[k][1], qx |-> cols[k][2], y |-> cols[k][3], qy |-> cols[k][4]] : k \in last}

(* O = [minov, idn, idd]: --min-overlap, --min-identity = idn / idd *)
Assemble(f, qf, b, qb, K, O) ==
  LET cols  == PE!Columns(K.path, f, qf, b, qb)
      aln   == PE!IsAlignment(K.path, cols, O.minov, O.idn, O.idd)
      left  == K.left = 1
  IN  [aln   |-> aln,
       cols  |-> cols,
       seq   |-> IF aln THEN PE!ConsSeq(cols) ELSE PE!JoinSeq(f, b),
       jqual |-> PE!JoinQual(qf, qb),
       ali   |-> PE!AliLength(K.path),
       match |-> PE!MatchCount(cols),
       sas   |-> PE!SeqASingle(K.path, left),
       sbs   |-> PE!SeqBSingle(K.path, left),
       dir   |-> IF left THEN "left" ELSE "right",
       mm    |-> IF aln THEN MMOf(cols) ELSE {}]

(* score_norm = matches / ali_length rounded to three decimals, given as thousandths *)
NormOK(n1000, match, ali) ==
  IF ali = 0 THEN n1000 = 0
  ELSE LET d == 2 * ali * n1000 - 2000 * match IN d <= ali /\ -d <= ali

AsSet(s) == {s[i] : i \in DOMAIN s}

---------------------------------------------------------------------------
(* obitagpcr: pair, then demultiplex the consensus, then annotate / orient the two reads *)

Code(x)  == CASE x = "a" -> 0 [] x = "c" -> 1 [] x = "g" -> 2 [] x = "t" -> 3 [] OTHER -> 4
Codes(s) == [i \in 1..Len(s) |-> Code(s[i])]

NoAmp == [mk |-> 0, dir |-> "", bc |-> <<>>, fm |-> <<>>, rm |-> <<>>, fe |-> 0, re |-> 0,
          ft |-> <<>>, rt |-> <<>>, smp |-> "", err |-> 0]

(* kind: "assigned" - exactly one amplicon and its tag pair identifies a sample;                *)
(*       "nobarcode" - no amplicon; "tagpair" - the first amplicon's tags identify no sample    *)
(*       (pf, pr: the declared tags proposed for the extracted ones); "multi" - several         *)
(*       amplicons, the first one identified.  amb: tied priming sites (Demux.tla), any answer  *)
TagOutcome(sheet, S) ==
  LET d  == DX!DemuxRead(sheet, S)
      n  == Len(d.outs)
      o  == IF n = 0 THEN NoAmp ELSE d.outs[1]
      mk == sheet[o.mk]
  IN  [amb  |-> d.amb,
       n    |-> n,
       o    |-> o,
       kind |-> IF n = 0 THEN "nobarcode"
                ELSE IF n = 1 /\ o.err = 0 THEN "assigned"
                ELSE IF o.err = 1 THEN "tagpair" ELSE "multi",
       pf   |-> IF n = 0 THEN <<>> ELSE DX!Propose(mk.mode, DX!FwdTags(mk), o.ft),
       pr   |-> IF n = 0 THEN <<>> ELSE DX!Propose(mk.mode, DX!RevTags(mk), o.rt)]

(* In a JOINED consensus the ten dots are no nucleotides; what a primer laid over them matches is   *)
(* not specified (C10 / C12 speak of reads made of letters).  A joined pair is judged only when no  *)
(* primer of the sheet, in either orientation, can be laid over a dot within its error budget even  *)
(* if the dots counted as matches: the priming sites are then the same whatever the dots are taken  *)
(* for.  D = the 1-based positions of the dots in S.                                                *)
DotFreeMism(P, S, p, D) == Cardinality({j \in 1..Len(P) : (p + j) \notin D /\ ~DX!SymMatch(P[j], S[p + j])})
DotsTouched(sheet, S, D) ==
  /\ D # {}
  /\ LET lo == CHOOSE x \in D : \A y \in D : x <= y
         hi == CHOOSE x \in D : \A y \in D : x >= y
     IN  \E i \in DOMAIN sheet :
           LET mk   == sheet[i]
               pats == << <<mk.fP, mk.ef>>, <<DX!Comp(mk.rP), mk.er>>, <<mk.rP, mk.er>>, <<DX!Comp(mk.fP), mk.ef>> >>
           IN  \E q \in 1..4 :
                 LET P == pats[q][1]
                     e == pats[q][2]
                     m == Len(P)
                 IN  \E p \in DX!Max2(0, lo - m)..DX!Min2(hi - 1, Len(S) - m) : DotFreeMism(P, S, p, D) <= e
JoinDots(la) == (la + 1)..(la + 10)
(* the same question when the dots are read as the letter a (obiapat.c EncodeSequence encodes every   *)
(* byte that is not a lower-case letter as 'a'): used by the bounded model, whose primers are shorter  *)
(* than the run of dots                                                                                 *)
DotsTouchedAsA(sheet, S, D) ==
  DotsTouched(sheet, [i \in 1..Len(S) |-> IF i \in D THEN 0 ELSE S[i]], {}) \/
  (D # {} /\ LET SA == [i \in 1..Len(S) |-> IF i \in D THEN 0 ELSE S[i]]
                 lo == CHOOSE x \in D : \A y \in D : x <= y
                 hi == CHOOSE x \in D : \A y \in D : x >= y
             IN  \E i \in DOMAIN sheet :
                   LET mk   == sheet[i]
                       pats == << <<mk.fP, mk.ef>>, <<DX!Comp(mk.rP), mk.er>>, <<mk.rP, mk.er>>, <<DX!Comp(mk.fP), mk.ef>> >>
                   IN  \E q \in 1..4 : \E p \in DX!Max2(0, lo - Len(pats[q][1]))..DX!Min2(hi - 1, Len(S) - Len(pats[q][1])) :
                         DotFreeMism(pats[q][1], SA, p, {}) <= pats[q][2])

(* which file a pair goes to: -u takes the pairs without a sample; without -u they are dropped, *)
(* or kept in the main files with their error annotation under --keep-errors                     *)
WhereOf(kind, keeperr, unid) ==
  IF kind = "assigned" THEN "kept" ELSE IF unid THEN "unid" ELSE IF keeperr THEN "kept" ELSE "none"

(* --reorientate: a pair whose amplicon is found in the reverse direction is SWAPPED (the reverse *)
(* read becomes the forward read), so that every forward read starts on the forward-primer side  *)
Swapped(kind, dir, reorient) == reorient /\ kind = "assigned" /\ dir = "reverse"

---------------------------------------------------------------------------
(* whole-file clauses *)

PosIn(ids, x) == CHOOSE i \in DOMAIN ids : ids[i] = x
IsSubsequence(sub, ids) ==
  /\ \A i \in DOMAIN sub : \E j \in DOMAIN ids : ids[j] = sub[i]
  /\ \A i \in 1..(Len(sub) - 1) : PosIn(ids, sub[i]) < PosIn(ids, sub[i + 1])
=============================================================================

----------------------------- MODULE CommandMC -----------------------------
(* Bounded check of the composition theorem of Command.tla: for every way of spreading <= 5 records over   *)
(* <= 3 files (empty files included), every selection, every reader batching and every re-cutting size,    *)
(* the stream that goes through the layers is the closed-form stdout; totals are additive over files.      *)
EXTENDS Command, TLC
CONSTANTS MaxRec, MaxFiles
VARIABLES files, keep, rb, size
vars == <<files, keep, rb, size>>
Cuts(n, k) == {c \in [1..k -> 0..n] : (\A i \in 1..(k - 1) : c[i] <= c[i + 1]) /\ c[k] = n}
Files(n, k, c) == [i \in 1..k |-> [j \in 1..(c[i] - (IF i = 1 THEN 0 ELSE c[i - 1])) |-> (IF i = 1 THEN 0 ELSE c[i - 1]) + j]]
Init == \E n \in 0..MaxRec, k \in 1..MaxFiles : \E c \in Cuts(n, k) :
          /\ files = Files(n, k, c)
          /\ keep \in SUBSET (1..n)
          /\ rb \in 1..3 /\ size \in 1..3
Next == UNCHANGED vars
K(r) == r \in keep
CompositionThm == Composes(files, K, rb, size)
TotalsAdditive ==
  LET n == Len(CatFiles(files))
      len == [r \in 1..n |-> r + 2]  cnt == [r \in 1..n |-> 1 + (r % 3)]
      RECURSIVE Per(_)
      Per(fs) == IF fs = <<>> THEN [variants |-> 0, reads |-> 0, symbols |-> 0]
                 ELSE LET t == Totals(<<Head(fs)>>, len, cnt)  u == Per(Tail(fs))
                      IN [variants |-> t.variants + u.variants, reads |-> t.reads + u.reads, symbols |-> t.symbols + u.symbols]
  IN Totals(files, len, cnt) = Per(files)
=============================================================================

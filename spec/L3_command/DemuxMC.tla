------------------------------ MODULE DemuxMC ------------------------------
(***************************************************************************)
(* Bounded model of property C12 over the operators of Demux.tla.          *)
(*                                                                         *)
(* One behaviour = one case: a sample sheet (two markers, per-primer error *)
(* budgets and spacers, a tag design, a tag matching mode, the primer      *)
(* indel flag) and a read SCENARIO                                         *)
(*    [amplicons (marker, sample, orientation, primer mismatches, tag      *)
(*     edits, omitted priming site, barcode), flanks, filler between two   *)
(*     amplicons]                                                          *)
(* from which Build makes the read                                         *)
(*    tagF . spacer . fwd primer . barcode . rc(rev primer) . spacer . rc(tagR). *)
(* The single step "done" evaluates the specification on the read and on   *)
(* its reverse complement (on TLC's worker threads).  On every case TLC    *)
(* checks the theorems of the specification itself:                        *)
(*   PlantedThm   a read built from declared pieces gives back exactly     *)
(*                those pieces and the declared sample (first sentence of  *)
(*                the property), whatever the orientation, flanks, spacers;*)
(*   SymmetryThm  Demux(rc(read)) = Flip(Demux(read));                     *)
(*   InterleavedThm  interleaved sites +j +i -j -i delimit no barcode;     *)
(*   ScanThm      the primer-hit scan (state machine 0/1 with `from`) over *)
(*                all hits finds the pairs of consecutive +i/-i hits;      *)
(*   ShortcutThm  looking for the partner primer only behind the first     *)
(*                direct hit (the code as received) gives the same answer  *)
(*                on reads made of complete amplicons - and not on reads   *)
(*                with a further priming site, where it is strand-dependent*)
(*   SafetyThm    every answer of the specification passes the safety      *)
(*                predicate used on observed outputs, and the same answer  *)
(*                with another declared sample does not;                   *)
(*   ModeThm      a tag pair identified in strict mode is identified the   *)
(*                same way in hamming and indel mode.                      *)
(* Every case is exported with the expected output of both strands.        *)
(***************************************************************************)
EXTENDS Demux, Json, CSV, IOUtils

CONSTANTS SheetIdx,     \* indexes (0..767) of the sheets of the run, see ParamOf
          NSeed,        \* number of further sheets drawn from IOEnv.VERIF_SEED
          Thin,         \* TRUE: a subset of the single-mismatch positions and of the tag substitutions (quick tier)
          ScanMod       \* ScanThm is evaluated on the sheets whose index is a multiple of ScanMod (it doubles the work)

VARIABLES si, sc, done, res
vars == <<si, sc, done, res>>

B == INSTANCE Bio       \* the shared alphabet module: complement defined from the IUPAC meaning

---------------------------------------------------------------------------
(* constants of the model: primers whose windows differ in >= 4 positions from every other  *)
(* primer, complement and shift (so that filler made of a/t never makes a site within a     *)
(* budget of 2), tags over a/t (one c) that differ from their reversal, complement and      *)
(* reverse complement                                                                       *)

Prim == << [f |-> <<1, 2, 2, 1, 1, 3, 2, 1>>, r |-> <<1, 2, 0, 3, 2, 2, 1, 2>>],      \* cggcctgc cgatggcg
           [f |-> <<2, 1, 1, 1, 0, 1, 1, 1>>, r |-> <<2, 2, 2, 0, 2, 3, 1, 2>>] >>    \* gcccaccc gggagtcg
PLen == 8

TA == <<0, 0, 3, 0>>    \* aata
TB == <<3, 0, 0, 0>>    \* taaa        d(A,B) = d(A,C) = 2, d(B,C) = 4: one substitution can tie
TC == <<0, 3, 3, 3>>    \* attt
TX == <<0, 0, 3>>       \* aat
TY == <<3, 0, 0>>       \* taa
TZ == <<1, 3, 0>>       \* cta
Nt == <<>>              \* the primer carries no tag ("-" in the sheet)

Smp(ft, rt, name) == [ft |-> ft, rt |-> rt, name |-> name]
TagDesign ==
  << <<Smp(TA, TA, "s1"), Smp(TB, TB, "s2"), Smp(TC, TC, "s3")>>,      \* 1 same tag on both primers
     <<Smp(TA, TB, "s1"), Smp(TB, TA, "s2"), Smp(TC, TC, "s3")>>,      \* 2 asymmetric pairs
     <<Smp(TA, TB, "s1"), Smp(TA, TC, "s2"), Smp(TB, TC, "s3")>>,      \* 3 combinatorial: (A,A) (B,B) undeclared
     <<Smp(TX, TX, "s1"), Smp(TY, TY, "s2"), Smp(TZ, TZ, "s3")>>,      \* 4 length 3
     <<Smp(TA, Nt, "s1"), Smp(TB, Nt, "s2"), Smp(TC, Nt, "s3")>>,      \* 5 reverse primer untagged
     <<Smp(Nt, TA, "s1"), Smp(Nt, TB, "s2")>>,                         \* 6 forward primer untagged
     <<Smp(TA, TX, "s1"), Smp(TB, TY, "s2"), Smp(TA, TY, "s3")>>,      \* 7 lengths 4 and 3
     <<Smp(Nt, Nt, "s1")>> >>                                          \* 8 no tag at all: one sample per marker
Design2 == <<Smp(TA, TA, "u1"), Smp(TC, TB, "u2")>>                    \* marker 2: its own table

ModeTab   == <<"strict", "hamming", "indel">>
SpacerTab == << <<0, 0>>, <<1, 1>>, <<1, 0>>, <<0, 1>> >>
BudgetTab == << <<2, 2>>, <<1, 2>>, <<0, 1>>, <<0, 0>> >>
NSheets   == 8 * 3 * 4 * 4 * 2

ParamOf(i) == [td |-> (i % 8) + 1, mode |-> ModeTab[((i \div 8) % 3) + 1],
               sp |-> SpacerTab[((i \div 24) % 4) + 1], bud |-> BudgetTab[((i \div 96) % 4) + 1],
               indel |-> ((i \div 384) % 2) = 1]

Marker(pr, smp, mode, sf, sr, ef, er, ind) ==
  [fwd |-> pr.f, rev |-> pr.r, fP |-> AsPat(pr.f), rP |-> AsPat(pr.r), ef |-> ef, er |-> er, indel |-> ind,
   mode |-> mode, sf |-> sf, sr |-> sr, lf |-> Len(smp[1].ft), lr |-> Len(smp[1].rt), smp |-> smp]

(* marker 2 has the spacers and the budgets of marker 1 exchanged: per-primer parameters *)
SheetOf(i) ==
  LET p == ParamOf(i) IN
  << Marker(Prim[1], TagDesign[p.td], p.mode, p.sp[1], p.sp[2], p.bud[1], p.bud[2], p.indel),
     Marker(Prim[2], Design2,         p.mode, p.sp[2], p.sp[1], p.bud[2], p.bud[1], p.indel) >>

SeedIdx == LET sd == atoi(IOEnv.VERIF_SEED)
           IN  {((sd * 7919) + (j * 104729)) % NSheets : j \in 1..NSeed}
Sheets == SheetIdx \cup SeedIdx

---------------------------------------------------------------------------
(* scenarios *)

NoEd == [k |-> 0, p |-> 0, x |-> 0, q |-> 0, y |-> 0]
Ed(k, p, x, q, y) == [k |-> k, p |-> p, x |-> x, q |-> q, y |-> y]
(* k = 1: t[p] += x;  2: t[p] += x and t[q] += y;  3: t[p] deleted;  4: base x inserted before t[p] *)
ApplyEdit(t, ed) ==
  CASE ed.k = 0 -> t
    [] ed.k = 1 -> [t EXCEPT ![ed.p] = (@ + ed.x) % 4]
    [] ed.k = 2 -> [t EXCEPT ![ed.p] = (@ + ed.x) % 4, ![ed.q] = (@ + ed.y) % 4]
    [] ed.k = 3 -> SubSeq(t, 1, ed.p - 1) \o SubSeq(t, ed.p + 1, Len(t))
    [] ed.k = 4 -> SubSeq(t, 1, ed.p - 1) \o <<ed.x>> \o SubSeq(t, ed.p, Len(t))

EditsFull(L) == {Ed(1, p, x, 0, 0) : p \in 1..L, x \in IF Thin THEN {1, 3} ELSE 1..3}
                \cup {Ed(2, 1, 3, L, 3), Ed(2, 2, 3, 3, 1)}
                \cup {Ed(3, p, 0, 0, 0) : p \in 1..L}
                \cup {Ed(4, 1, 0, 0, 0), Ed(4, L, 3, 0, 0)}
EditsFew(L)  == {Ed(1, p, 3, 0, 0) : p \in 1..L} \cup {Ed(2, 1, 3, L, 3), Ed(3, 1, 0, 0, 0), Ed(3, L, 0, 0, 0), Ed(4, 2, 3, 0, 0)}

Mut(p, ms) == [i \in 1..Len(p) |-> IF i \in ms THEN (p[i] + 2) % 4 ELSE p[i]]

BC1 == <<3, 3, 0>>                 \* tta
BC2 == <<0, 3, 3, 3, 0, 0>>        \* atttaa
LFl == << <<>>, <<3, 0>> >>        \* flank choice 1 (none) / 2
RFl == << <<>>, <<0, 3, 3>> >>
Mid == << <<>>, <<0, 3>> >>

(* rmk: the marker the reverse primer is taken from (# mk: a cross-marker, non-amplicon read) *)
Amp(mk, smp, ori, fm, rm, fte, rte, drop, bc) ==
  [mk |-> mk, rmk |-> mk, smp |-> smp, ori |-> ori, fm |-> fm, rm |-> rm, fte |-> fte, rte |-> rte, drop |-> drop, bc |-> bc]
Plain(mk, smp, ori, bc) == Amp(mk, smp, ori, {}, {}, NoEd, NoEd, "", bc)

Scn(cls, amps, fl, mid) == [cls |-> cls, amps |-> amps, lf |-> LFl[fl], rf |-> RFl[fl], mid |-> Mid[mid]]

MisPos    == IF Thin THEN {1, 4, PLen} ELSE 1..PLen
MisSingle == {<<{p}, {}>> : p \in MisPos} \cup {<<{}, {p}>> : p \in MisPos}
MisMulti  == { <<{1, 8}, {}>>, <<{}, {2, 7}>>, <<{3}, {5}>>, <<{2, 6}, {4}>>, <<{1, 4, 8}, {}>>, <<{}, {2, 3, 7}>>,
               <<{1, 2}, {7, 8}>>, <<{4, 5, 6}, {1}>> }

Scen(sh) ==
  LET NS(mk) == Len(sh[mk].smp)
      base == {Scn("base", <<Plain(mk, s, o, BC1)>>, fl, 1) : mk \in {1}, s \in 1..NS(1), o \in {0, 1}, fl \in {1, 2}}
              \cup {Scn("base", <<Plain(2, s, o, BC1)>>, fl, 1) : s \in 1..NS(2), o \in {0, 1}, fl \in {1, 2}}
      mism == {Scn("mism", <<Amp(mk, 1, o, mp[1], mp[2], NoEd, NoEd, "", BC1)>>, 2, 1) :
                  mk \in {1, 2}, o \in {0, 1}, mp \in MisSingle \cup MisMulti}
      \* tag edits: every edit on sample 1 of marker 1, a few on the others; indel edits also without flank
      TE(mk, s, o, side, ed, fl) ==
         Scn("tagedit", <<Amp(mk, s, o, {}, {}, IF side = "F" THEN ed ELSE NoEd, IF side = "R" THEN ed ELSE NoEd, "", BC1)>>, fl, 1)
      TL(mk, side) == IF side = "F" THEN sh[mk].lf ELSE sh[mk].lr
      ted1 == UNION {{TE(1, 1, o, side, ed, fl) : ed \in {e \in EditsFull(TL(1, side)) : fl = 2 \/ e.k >= 3}} :
                        o \in {0, 1}, side \in {sd \in {"F", "R"} : TL(1, sd) > 0}, fl \in {1, 2}}
      ted2 == UNION {UNION {{TE(ms[1], ms[2], o, side, ed, 2) : ed \in EditsFew(TL(ms[1], side)), o \in {0, 1}} :
                               side \in {sd \in {"F", "R"} : TL(ms[1], sd) > 0}} :
                        ms \in {<<1, 2>>, <<2, 1>>}}
      part == {Scn("partial", <<Amp(mk, 1, o, {}, {}, NoEd, NoEd, d, BC1)>>, 2, 1) : mk \in {1, 2}, o \in {0, 1}, d \in {"F", "R"}}
              \cup {Scn("dimer", <<Plain(mk, 1, o, <<>>)>>, 2, 1) : mk \in {1, 2}, o \in {0, 1}}
              \cup {Scn("cross", <<[Plain(mk, 1, o, BC1) EXCEPT !.rmk = 3 - mk]>>, 2, 1) : mk \in {1, 2}, o \in {0, 1}}
              \cup {Scn("nosite", <<>>, 2, 1), Scn("nosite", <<Amp(1, 1, 0, {}, {}, NoEd, NoEd, "FR", BC2)>>, 2, 1)}
      CA(mk, o) == Plain(mk, IF o = 0 THEN 1 ELSE Min2(2, NS(mk)), o, IF o = 0 THEN BC1 ELSE BC2)
      chim == {Scn("chimera", <<CA(m1, o1), [CA(m2, o2) EXCEPT !.bc = IF o1 = 0 THEN BC2 ELSE BC1]>>, 2, md) :
                  m1 \in {1, 2}, o1 \in {0, 1}, m2 \in {1, 2}, o2 \in {0, 1}, md \in {1, 2}}
              \cup {Scn("chimera-mism", <<[CA(m1, o1) EXCEPT !.fm = {2}], [CA(3 - m1, 1 - o1) EXCEPT !.rm = {7}]>>, 1, 2) :
                  m1 \in {1, 2}, o1 \in {0, 1}}
              \cup {Scn("chimera-partial", <<[CA(m1, o1) EXCEPT !.drop = "R"], [CA(m2, o1) EXCEPT !.bc = BC2]>>, 2, 2) :
                  m1 \in {1, 2}, m2 \in {1, 2}, o1 \in {0, 1}}
              \cup {Scn("chimera-partial", <<CA(m1, o1), [CA(m2, 1 - o1) EXCEPT !.drop = "F"]>>, 2, 1) :
                  m1 \in {1, 2}, m2 \in {1, 2}, o1 \in {0, 1}}
      \* the priming site of another marker's reverse primer inside the barcode, after that marker's forward
      \* primer: hits +j +i -j -i, no two consecutive hits make a pair, the scan has to give up at -j
      intl == {Scn("interleaved", <<[CA(3 - m1, o1) EXCEPT !.drop = "R"],
                                    [CA(m1, o1) EXCEPT !.bc = BC1 \o RC(Prim[3 - m1].r) \o BC1]>>, 2, md) :
                  m1 \in {1, 2}, o1 \in {0, 1}, md \in {1, 2}}
  IN  base \cup mism \cup ted1 \cup ted2 \cup part \cup chim \cup intl

SheetLine == [cls |-> "sheet", amps |-> <<>>, lf |-> <<>>, rf |-> <<>>, mid |-> <<>>]

---------------------------------------------------------------------------
(* Build *)

Fill(n, x) == [i \in 1..n |-> x]

PlantedTags(sh, a) ==
  LET s == sh[a.mk].smp[a.smp] IN [ft |-> ApplyEdit(s.ft, a.fte), rt |-> ApplyEdit(s.rt, a.rte)]

AmpText(sh, a) ==
  LET mk == sh[a.mk]
      tg == PlantedTags(sh, a)
      Pf == Mut(mk.fwd, a.fm)
      Pr == Mut(sh[a.rmk].rev, a.rm)
      fwdtext == tg.ft \o (IF mk.lf = 0 THEN <<>> ELSE Fill(mk.sf, 3))
                 \o (IF a.drop \in {"F", "FR"} THEN <<>> ELSE Pf)
                 \o a.bc
                 \o (IF a.drop \in {"R", "FR"} THEN <<>> ELSE RC(Pr))
                 \o (IF mk.lr = 0 THEN <<>> ELSE Fill(mk.sr, 0)) \o RC(tg.rt)
  IN  IF a.ori = 0 THEN fwdtext ELSE RC(fwdtext)

Build(sh, s) ==
  s.lf \o (IF Len(s.amps) >= 1 THEN AmpText(sh, s.amps[1]) ELSE <<>>)
       \o (IF Len(s.amps) >= 2 THEN s.mid \o AmpText(sh, s.amps[2]) ELSE <<>>)
       \o s.rf

(* what a read built from declared pieces has to give back *)
Found(sh, a) ==
  /\ a.drop = "" /\ a.rmk = a.mk /\ a.bc # <<>>
  /\ Cardinality(a.fm) <= sh[a.mk].ef /\ Cardinality(a.rm) <= sh[a.mk].er
Plantable(sh, a) ==
  /\ a.fte.k \in {0, 1, 2} /\ a.rte.k \in {0, 1, 2}
  /\ (sh[a.mk].indel /\ Found(sh, a)) =>
        /\ EdSpan(sh[a.mk].fP, Mut(sh[a.mk].fwd, a.fm), 0, PLen) = Cardinality(a.fm)
        /\ EdSpan(sh[a.mk].rP, Mut(sh[a.mk].rev, a.rm), 0, PLen) = Cardinality(a.rm)
PlantedOut(sh, a) ==
  LET mk == sh[a.mk]
      tg == PlantedTags(sh, a)
      nm == IF a.fte.k = 0 /\ a.rte.k = 0 THEN mk.smp[a.smp].name ELSE Identify(mk, tg.ft, tg.rt)
  IN  [mk |-> a.mk, dir |-> IF a.ori = 0 THEN "forward" ELSE "reverse", bc |-> a.bc,
       fm |-> Mut(mk.fwd, a.fm), rm |-> Mut(mk.rev, a.rm), fe |-> Cardinality(a.fm), re |-> Cardinality(a.rm),
       ft |-> tg.ft, rt |-> tg.rt, smp |-> nm, err |-> IF nm = "" THEN 1 ELSE 0]
Planted(sh, s) ==
  FoldLeft(LAMBDA acc, i : IF Found(sh, s.amps[i]) THEN Append(acc, PlantedOut(sh, s.amps[i])) ELSE acc,
           <<>>, [i \in DOMAIN s.amps |-> i])
AllPlantable(sh, s) == s.cls # "interleaved" /\ \A i \in DOMAIN s.amps : Plantable(sh, s.amps[i])

---------------------------------------------------------------------------
Sheet == SheetOf(si)
Read  == Build(Sheet, sc)
CheckScan == si % ScanMod = 0

Init ==
  /\ si \in Sheets
  /\ sc \in {SheetLine} \cup Scen(SheetOf(si))
  /\ done = FALSE
  /\ res = <<>>

Next ==
  /\ ~done /\ done' = TRUE /\ UNCHANGED <<si, sc>>
  /\ res' = IF sc.cls = "sheet" THEN <<>>
            ELSE LET S == Read IN
                 [d |-> DemuxRead(Sheet, S), r |-> DemuxRead(Sheet, RC(S)),
                  ref |-> IF CheckScan THEN DemuxReadRef(Sheet, S) ELSE <<>>,
                  sht |-> IF CheckScan THEN <<DemuxReadShortcut(Sheet, S).outs, DemuxReadShortcut(Sheet, RC(S)).outs>> ELSE <<>>]


IsCase == done /\ sc.cls # "sheet"
Clean  == IsCase /\ ~res.d.amb /\ ~res.r.amb

---------------------------------------------------------------------------
(* theorems of the specification, checked on every case *)

(* the integer alphabet of Apat/Demux and its complement are those of Bio.tla *)
Letter == <<"a", "c", "g", "t">>
ASSUME \A x \in 0..3 : B!Comp(Letter[x + 1]) = Letter[CompNuc(x) + 1]
ASSUME B!CompIsInvolution

PlantedThm == (Clean /\ AllPlantable(Sheet, sc)) => res.d.outs = Planted(Sheet, sc)

(* interleaved priming sites of two markers delimit no barcode *)
InterleavedThm == (Clean /\ sc.cls = "interleaved") => res.d.outs = <<>>

SymmetryThm == Clean => res.r.outs = Flip(res.d.outs)

ScanThm == (Clean /\ CheckScan) => (~res.ref.amb /\ res.ref.outs = res.d.outs)

(* searching the partner primer only behind the first direct hit changes the answer only for reads that   *)
(* carry a priming site besides their amplicons (classes interleaved, cross, partial ...), never for a    *)
(* read made of complete amplicons                                                                         *)
ShortcutThm == (Clean /\ CheckScan /\ sc.cls \in {"base", "mism", "tagedit", "chimera", "chimera-mism", "dimer", "nosite"}) =>
                  (res.sht[1] = res.d.outs /\ res.sht[2] = res.r.outs)

OtherNames(mk, nm) == {mk.smp[i].name : i \in DOMAIN mk.smp} \ {nm}
SafetyThm == IsCase =>
  /\ \A i \in DOMAIN res.d.outs : SafetyVerdict(Sheet, Read, res.d.outs[i], TRUE) = "ok"
  /\ \A i \in DOMAIN res.r.outs : SafetyVerdict(Sheet, RC(Read), res.r.outs[i], TRUE) = "ok"
  /\ \A i \in DOMAIN res.d.outs : LET o == res.d.outs[i] IN
        /\ \A nm \in OtherNames(Sheet[o.mk], o.smp) :
              SafetyVerdict(Sheet, Read, [o EXCEPT !.smp = nm, !.err = 0], TRUE) = "identify"
        /\ o.smp # "" => SafetyVerdict(Sheet, Read, [o EXCEPT !.bc = @ \o <<1>>], TRUE) = "layout"

ModeThm == IsCase =>
  \A i \in DOMAIN res.d.outs : LET o == res.d.outs[i]
                                   mk == Sheet[o.mk]
                                   st == Identify([mk EXCEPT !.mode = "strict"], o.ft, o.rt)
                               IN  st # "" => /\ Identify([mk EXCEPT !.mode = "hamming"], o.ft, o.rt) = st
                                              /\ Identify([mk EXCEPT !.mode = "indel"], o.ft, o.rt) = st

---------------------------------------------------------------------------
(* export *)

RECURSIVE Str(_)
Str(chars) == IF chars = <<>> THEN "" ELSE Head(chars) \o Str(Tail(chars))
LetterOf == <<"a", "c", "g", "t", "n">>
SeqStr(S) == Str([i \in 1..Len(S) |-> LetterOf[S[i] + 1]])

OutJ(outs) == [i \in DOMAIN outs |->
                 LET o == outs[i] IN
                 [mk |-> o.mk, dir |-> o.dir, bc |-> SeqStr(o.bc), fm |-> SeqStr(o.fm), rm |-> SeqStr(o.rm),
                  fe |-> o.fe, re |-> o.re, ft |-> SeqStr(o.ft), rt |-> SeqStr(o.rt), smp |-> o.smp, err |-> o.err]]

SheetJ ==
  [k |-> "sheet", sheet |-> si, mode |-> Sheet[1].mode, indel |-> IF Sheet[1].indel THEN 1 ELSE 0,
   markers |-> [i \in DOMAIN Sheet |->
                  LET mk == Sheet[i] IN
                  [fwd |-> SeqStr(mk.fwd), rev |-> SeqStr(mk.rev), ef |-> mk.ef, er |-> mk.er, sf |-> mk.sf, sr |-> mk.sr,
                   samples |-> [j \in DOMAIN mk.smp |->
                                  [ft |-> SeqStr(mk.smp[j].ft), rt |-> SeqStr(mk.smp[j].rt), name |-> mk.smp[j].name]]]]]

CaseJ ==
  [k |-> "case", sheet |-> si, cls |-> sc.cls, read |-> SeqStr(Read), rc |-> SeqStr(RC(Read)),
   amb |-> IF res.d.amb THEN 1 ELSE 0, ambrc |-> IF res.r.amb THEN 1 ELSE 0,
   pl |-> IF AllPlantable(Sheet, sc) THEN 1 ELSE 0,
   sht |-> IF CheckScan /\ (res.sht[1] # res.d.outs \/ res.sht[2] # res.r.outs) THEN 1 ELSE 0,
   exp |-> OutJ(res.d.outs), exprc |-> OutJ(res.r.outs)]

Export == done => CSVWrite("%1$s", <<ToJson(IF sc.cls = "sheet" THEN SheetJ ELSE CaseJ)>>, IOEnv.VERIF_CASES)
=============================================================================

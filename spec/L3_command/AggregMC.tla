------------------------------ MODULE AggregMC ------------------------------
(* Bounded check of the laws of Aggreg.tla and export of one case per (record sequence, command line).      *)
(* Universe: every sequence of at most MaxLen distinct records of a curated pool (records placed on every   *)
(* boundary of the definitions: count absent / 1 / > 1, merged_sample with abundances 1 and > 1, `sample`   *)
(* alone, both, obiclean_status h / i / s, a record without status, empty map, a key that is a scalar in    *)
(* one record and a vector in another, no annotation at all, two records sharing an identifier), plus a few *)
(* special sequences (JSON null value, abundance >= 10^6).                                                   *)
EXTENDS Aggreg, Json, CSV, IOUtils
CONSTANTS MaxLen
VARIABLES R, cmd, out, done
vars == <<R, cmd, out, done>>

Cmd == INSTANCE Command          \* Totals: the count / variants / length triple stated for obicount (C05)

NUM(n) == [t |-> "int", i |-> n]
ST(x) == [t |-> "str", s |-> x]
IM(f) == [t |-> "imap", im |-> f]
SM(f) == [t |-> "smap", sm |-> f]
VEC == [t |-> "vec"]
FLT == [t |-> "float"]
BOOL == [t |-> "bool"]
NUL == [t |-> "null"]

Pool == <<
  [id |-> "s1", len |-> 8, a |-> [count |-> NUM(5), merged_sample |-> IM([A |-> 3, B |-> 2]),
                                 obiclean_status |-> SM([A |-> "h", B |-> "i"]), obiclean_weight |-> IM([A |-> 3, B |-> 2])]],
  [id |-> "s2", len |-> 3, a |-> [count |-> NUM(1), merged_sample |-> IM([A |-> 1]), obiclean_status |-> SM([A |-> "s"])]],
  [id |-> "S3", len |-> 5, a |-> [count |-> NUM(5), merged_sample |-> IM([B |-> 4, a |-> 1]),
                                 obiclean_status |-> SM([B |-> "i", a |-> "i"]), tags |-> VEC]],
  [id |-> "r4", len |-> 4, a |-> [sample |-> ST("A")]],
  [id |-> "r5", len |-> 6, a |-> [count |-> NUM(3), sample |-> ST("C"), x |-> FLT]],
  [id |-> "r6", len |-> 2, a |-> EmptyF],
  [id |-> "s7", len |-> 7, a |-> [count |-> NUM(2), merged_sample |-> IM(("A" :> 2) @@ ("7" :> 1)), sample |-> ST("Z"),
                                 tags |-> ST("t"), obiclean_status |-> SM(("A" :> "i") @@ ("7" :> "h"))]],
  [id |-> "s8", len |-> 1, a |-> [merged_sample |-> IM(EmptyF), flag |-> BOOL, obiclean_status |-> SM(EmptyF)]],
  [id |-> "s1", len |-> 9, a |-> [count |-> NUM(4), merged_sample |-> IM([C |-> 4]), obiclean_status |-> SM([C |-> "i"])]]
>>
NullRec == [id |-> "n0", len |-> 4, a |-> [x |-> NUL, merged_sample |-> IM([A |-> 1])]]
BigRec  == [id |-> "b0", len |-> 6, a |-> [count |-> NUM(1234567), merged_sample |-> IM([A |-> 1234567, B |-> 1000000])]]

Distinct(q) == \A i, j \in 1..Len(q) : q[i] = q[j] => i = j
Picks == {q \in UNION {[1..n -> 1..Len(Pool)] : n \in 0..MaxLen} : Distinct(q)}
Special == {<<NullRec>>, <<Pool[1], NullRec>>, <<NullRec, Pool[2], Pool[3]>>,
            <<BigRec>>, <<Pool[1], BigRec>>, <<BigRec, Pool[2]>>}
Universe == {[i \in 1..Len(q) |-> Pool[q[i]]] : q \in Picks} \cup Special

Flags == {"variants", "reads", "symbols"}
Commands ==
  {[c |-> "summary", json |-> j, yaml |-> y] : j, y \in BOOLEAN} \cup {[c |-> "summarymap", key |-> "merged_sample"]}
  \cup {[c |-> "count", opt |-> o] : o \in SUBSET Flags}
  \cup {[c |-> "matrix", key |-> k, layout |-> l, na |-> n] :
           k \in {"merged_sample", "obiclean_status"}, l \in {"bysample", "byrecord"}, n \in {"0", "NA"}}
  \cup {[c |-> "three", key |-> k, sname |-> n[1], vname |-> n[2]] :
           k \in {"merged_sample", "obiclean_status"}, n \in {<<"sample", "count">>, <<"site", "reads">>}}

ClassOf(rs, c) == ScenarioClass(rs, c.c, IF c.c \in {"matrix", "three"} THEN c.key ELSE "", IF c.c = "matrix" THEN c.layout ELSE "")

Expected(rs, c) ==
  IF c.c = "summary" THEN [rc |-> "zero", format |-> SummaryFormat(c.json, c.yaml), summary |-> SummaryOutput(rs), raw |-> Summary(rs)]
  ELSE IF c.c = "summarymap" THEN [rc |-> "zero", format |-> "json", summary |-> SummaryOutput(rs)]
  ELSE IF c.c = "count" THEN [rc |-> "zero", count |-> CountOutput(rs, c.opt)]
  ELSE IF ~MatrixDefined(rs, c.key) THEN [rc |-> "nonzero"]
  ELSE IF c.c = "matrix" THEN [rc |-> "zero", table |-> Table(rs, c.key, c.na, c.layout),
                               maps |-> [i \in 1..Len(rs) |-> [id |-> rs[i].id, m |-> MapText(rs[i], c.key)]]]
  ELSE [rc |-> "zero", table |-> ThreeColumns(rs, c.key, c.sname, c.vname)]

Init == R \in Universe /\ cmd \in Commands /\ out = [exp |-> [rc |-> "todo"], cls |-> ""] /\ done = FALSE
Next == ~done /\ done' = TRUE /\ out' = [exp |-> Expected(R, cmd), cls |-> ClassOf(R, cmd)] /\ UNCHANGED <<R, cmd>>
Done == done
Laws == Done /\ cmd = [c |-> "summary", json |-> FALSE, yaml |-> FALSE]          \* the laws depend on R only: evaluated once per R

(* ------------------------------------------------------------------------------------- theorems *)
Part(a, b) == Summary(SubSeq(R, a, b))
(* the summary of a concatenation is the merge of the summaries: no figure depends on where batches are cut *)
Homomorphism == Laws => \A k \in 0..Len(R) : Merge(Part(1, k), Part(k + 1, Len(R))) = Summary(R)
(* merge laws on every split of R in three parts *)
MergeLaws == Laws => \A k1 \in 0..Len(R) : \A k2 \in k1..Len(R) :
   LET x == Part(1, k1)  y == Part(k1 + 1, k2)  z == Part(k2 + 1, Len(R)) IN
   /\ Merge(Merge(x, y), z) = Merge(x, Merge(y, z))
   /\ Merge(x, y) = Merge(y, x)
   /\ Merge(x, EmptySummary) = x /\ Merge(EmptySummary, x) = x
   /\ MergeTree(<<x, y, z>>, [l |-> [l |-> [b |-> 3], r |-> [b |-> 0]], r |-> [l |-> [b |-> 1], r |-> [b |-> 2]]]) = Summary(R)
(* record-wise fold (DataSummary.Update) = definition over the multiset; any order of the records *)
RecordFold == Laws => FoldLeft(Merge, EmptySummary, [i \in 1..Len(R) |-> Summary(<<R[i]>>)]) = Summary(R)
OrderFree == Laws => \A p \in Permutations(1..Len(R)) : Summary([i \in 1..Len(R) |-> R[p[i]]]) = Summary(R)
(* sample figures are consistent: singletons <= variants <= reads when abundances are >= 1 ... *)
SampleSanity == Laws => LET S == Summary(R) IN
   /\ DOMAIN S.svar = DOMAIN S.sreads /\ DOMAIN S.ssingle = DOMAIN S.sreads /\ DOMAIN S.sbad = DOMAIN S.sreads
   /\ \A s \in DOMAIN S.sreads : S.ssingle[s] + S.sbad[s] <= S.svar[s] /\ S.svar[s] <= S.variants
   /\ S.nocs <= S.variants /\ S.nms <= S.variants
(* obicount prints projections of the same triple that Command.tla states for it *)
CountIsTotals == Laws =>
   LET n == Len(R)
       t == Cmd!Totals(<<[i \in 1..n |-> i]>>, [i \in 1..n |-> R[i].len], [i \in 1..n |-> CountOf(R[i])])
       S == Summary(R)
   IN /\ t = [variants |-> S.variants, reads |-> S.reads, symbols |-> S.length]
      /\ \A o \in SUBSET Flags : LET co == CountOutput(R, o) IN
           /\ {co.lines[i].name : i \in 1..Len(co.lines)} = (IF o = {} THEN Flags ELSE o)
           /\ \A i \in 1..Len(co.lines) : co.lines[i].n = CountFigure(S, co.lines[i].name)
           /\ \A i \in 1..Len(co.lines) : co.lines[i] = CountOutput(R, {}).lines[CHOOSE j \in 1..3 : CountNames[j] = co.lines[i].name]
(* matrix: the two layouts are transposes; nothing is lost or invented; totals are conserved *)
MatrixLaws == Laws => \A k \in {"merged_sample", "obiclean_status"} : MatrixDefined(R, k) =>
   LET tr == Table(R, k, "0", "byrecord")  ts == Table(R, k, "0", "bysample")  th == ThreeColumns(R, k, "s", "v") IN
   /\ Len(tr.rows) = Len(R) /\ Len(ts.header) = Len(R) + 1
   /\ Tail(tr.header) = [i \in 1..Len(ts.rows) |-> ts.rows[i].name]
   /\ Tail(ts.header) = [i \in 1..Len(tr.rows) |-> tr.rows[i].name]
   /\ \A i \in 1..Len(tr.rows) : \A j \in 1..Len(ts.rows) : tr.rows[i].cells[j] = ts.rows[j].cells[i]
   /\ StrictlyAscending(Tail(tr.header)) /\ StrictlyAscending(Tail(ts.header))
   /\ \A x \in Triples(R, k) : CellText(R, k, "0", x[1], x[2]) = x[3]
   /\ {th.rows[i] : i \in 1..Len(th.rows)} = Triples(R, k) /\ Len(th.rows) = Cardinality(Triples(R, k))
   /\ \A i \in 1..Len(R) : \A s \in NamesOf(R, k) :
         (s \in DOMAIN MapText(R[i], k)) <=> (<<R[i].id, s, CellText(R, k, "0", R[i].id, s)>> \in Triples(R, k))
   /\ (k = "merged_sample" => TableTotal(R, k) = MapTotal(R, k))

Export == Done => CSVWrite("%1$s", <<ToJson([R |-> R, cmd |-> cmd, exp |-> out.exp, cls |-> out.cls])>>, IOEnv.VERIF_CASES)
=============================================================================

------------------------------ MODULE OptCases ------------------------------
(***************************************************************************)
(* Property C16 - the bounded model.                                       *)
(*                                                                         *)
(* Enumerates command lines of obigrep / obiannotate / obidistribute (and  *)
(* the obimultiplex -u scenario): every option instance alone, every       *)
(* expressible pair, each repeatable option with all its occurrences, and  *)
(* Seed-driven larger subsets; x -v; x the six paired modes.  For each     *)
(* command line it evaluates Grep / Annotate / Route on the curated data   *)
(* set of OptData, checks the laws below on the result and exports the     *)
(* case with the value the specification assigns to every output file.     *)
(***************************************************************************)
EXTENDS Grep, Annotate, Route, SequencesExt, Json, CSV

CONSTANTS NSeedGrep,    \* number of seeded larger criteria sets (single file)
          NSeedPair,    \* number of seeded criteria sets tried in each paired mode
          NSeedAnnot,   \* number of seeded larger edit sets
          PairAll,      \* TRUE: every pair of criteria also goes through the paired modes
          Tools         \* the tools enumerated: subset of {"data", "grep", "annot", "dist", "mux"}

VARIABLES c, phase, out
vars == <<c, phase, out>>

Seed == IF "VERIF_SEED" \in DOMAIN IOEnv THEN atoi(IOEnv.VERIF_SEED) ELSE 1

---------------------------------------------------------------------------
(* the option instances *)
GrepInst ==
     {Crit("l", n, "", "") : n \in {9, 10, 11}}
  \cup {Crit("L", n, "", "") : n \in {9, 10, 11}}
  \cup {Crit("c", n, "", "") : n \in {2, 5, 6}}
  \cup {Crit("C", n, "", "") : n \in {1, 4, 5}}
  \cup {Crit("s", 0, "", re) : re \in {"ACGT", "^acg", "g$", "cat"}}
  \cup {Crit("D", 0, "", re) : re \in {"record", "^Record"}}
  \cup {Crit("I", 0, "", re) : re \in {"^sA", "_1", "2$"}}
  \cup {Crit("a", 0, "sample", "^A$"), Crit("a", 0, "sample", "A"), Crit("a", 0, "count", "^5"),
        Crit("a", 0, "tag", "x"), Crit("a", 0, "n", "5")}
  \cup {Crit("A", 0, k, "") : k \in {"count", "sample", "n", "definition", "zzz"}}
  \cup {Crit("idlist", 0, "", l) : l \in {"L1", "L2"}}
  \cup {Crit("p", 0, "", e) : e \in KnownPred}

(* content of the id-list files (with an unknown id and, for the paired cases, ids of mates) *)
IdList(l) == CASE l = "L1" -> {"sA_01", "sB_03", "sC_12", "nosuch", "mB_05"}
               [] l = "L2" -> {"sA_02", "sA_09", "sB_10", "sC_07", "mA_02", "mC_12", "mA_11"}
               [] OTHER    -> {}

AnnotInst ==
     {Edit("clear", 0, 0, "", "")}
  \cup {Edit("setid", 0, 0, "", e) : e \in KnownIdExpr}
  \cup {Edit("del", 0, 0, k, "") : k \in {"count", "sample", "zzz"}}
  \cup {Edit("keep", 0, 0, k, "") : k \in {"count", "tag", "n"}}
  \cup {Edit("ren", 0, 0, "cnt", "count"), Edit("ren", 0, 0, "grp", "sample"),
        Edit("ren", 0, 0, "q", "zzz"), Edit("ren", 0, 0, "tag", "n")}
  \cup {Edit("length", 0, 0, "", "")}
  \cup {Edit("set", 0, 0, "a", "1"), Edit("set", 0, 0, "b", "\"lit\""), Edit("set", 0, 0, "l", "len(sequence)"),
        Edit("set", 0, 0, "count", "7"), Edit("set", 0, 0, "sid", "sequence.Id()")}
  \cup {Edit("cut", 2, 8, "", ""), Edit("cut", 3, -2, "", ""), Edit("cut", 1, 10, "", ""),
        Edit("cut", 5, 30, "", ""), Edit("cut", -4, -1, "", ""), Edit("cut", 11, 12, "", ""),
        Edit("cut", 10, 10, "", ""), Edit("cut", -30, 9, "", ""),
        Edit("cut", 16, 20, "", "")}       \* only the 8th record is long enough: the first batches are emptied

DistOpts ==
  LET D(cc, d, na, n, h) == [c |-> cc, d |-> d, na |-> na, n |-> n, h |-> h, pat |-> <<"out_", ".fasta">>]
  IN    {D(k, "", "NA", 0, 0) : k \in {"sample", "count", "tag", "zzz"}}
   \cup {D("sample", d, "NA", 0, 0) : d \in {"count", "tag"}}
   \cup {D("sample", "", "XX", 0, 0), D("tag", "n", "XX", 0, 0), D("count", "sample", "none", 0, 0)}
   \cup {D("well", "plate", "NA", 0, 0), D("plate", "well", "NA", 0, 0), D("well", "plate", "A", 0, 0)}
   \cup {D("", "", "NA", n, 0) : n \in {1, 2, 3, 5, 12, 13}}
   \cup {D("", "", "NA", 0, h) : h \in {1, 2, 3, 7}}

---------------------------------------------------------------------------
(* Seed-driven subsets of a universe U (no randomness inside TLC: a small hash of (Seed, k, i)) *)
M == 46337
Mix(x, y) == ((((x % M) * (x % M)) % M) + (y % M) * 1009 + 12345) % M
Rnd(k, i) == Mix(Mix(Mix(Seed % M, k), i), k + i) % 100

Seeded(U, k, ok(_)) ==
  LET s == SetToSeq(U)
      p == 5 + (k % 4) * 5
      I == {i \in 1..Len(s) : Rnd(k, i) < p}
      J == {i \in I : \A j \in I : j < i => ok({s[i], s[j]})}    \* drop what conflicts with an earlier pick
  IN  {s[i] : i \in J}

Pairs(U, ok(_)) == {S \in {{x, y} : x, y \in U} : ok(S)}
Families(U) == {{x \in U : x.fam = f} : f \in {x.fam : x \in U}}

GrepSets ==  {{}} \cup Pairs(GrepInst, Compatible)                       \* singles are the pairs {x, x}
       \cup {S \in Families(GrepInst) : Compatible(S)}
       \cup {{x \in GrepInst : x.fam = "a" /\ x.re # "A"}}               \* all -a occurrences on distinct keys
       \cup {Seeded(GrepInst, k, Compatible) : k \in 1..NSeedGrep}
PairSets ==  {{}} \cup {{x} : x \in GrepInst}
       \cup (IF PairAll THEN Pairs(GrepInst, Compatible) ELSE {})
       \cup {Seeded(GrepInst, 1000 + k, Compatible) : k \in 1..NSeedPair}
AnnotSets == {{}} \cup Pairs(AnnotInst, Expressible)
       \cup {S \in Families(AnnotInst) : Expressible(S)}
       \cup {Seeded(AnnotInst, 2000 + k, Expressible) : k \in 1..NSeedAnnot}

NoD == [c |-> "", d |-> "", na |-> "", n |-> 0, h |-> 0, pat |-> <<"", "">>]
Case(tool, opts, v, mode, D) == [tool |-> tool, opts |-> opts, v |-> v, mode |-> mode, D |-> D]

Init ==
  /\ phase = "case"
  /\ out = <<>>
  /\ c \in    {Case("data", {}, FALSE, "none", NoD)}
         \cup {Case("mux", {}, FALSE, "none", [NoD EXCEPT !.n = k]) : k \in 1..Len(MuxSets)}
         \cup {Case("grep", S, v, "none", NoD) : S \in GrepSets, v \in BOOLEAN}
         \cup {Case("grep", S, v, m, NoD) : S \in PairSets, v \in BOOLEAN, m \in Modes}
         \cup {Case("annot", S, FALSE, "none", NoD) : S \in AnnotSets}
         \cup {Case("dist", {}, FALSE, "none", D) : D \in DistOpts}
  /\ c.tool \in Tools
  /\ ~(c.v /\ c.opts = {})        \* -v without any criterion says nothing
  /\ ~(c.opts = {} /\ c.mode \in {"andnot", "xor"})   \* nor does "no criterion" combined by a non-monotone mode

---------------------------------------------------------------------------
N == NData
TheList(S) == IF \E x \in S : x.fam = "idlist" THEN IdList((CHOOSE x \in S : x.fam = "idlist").re) ELSE {}
O(cc) == [crit |-> cc.opts, v |-> cc.v, ids |-> TheList(cc.opts)]
Paired(cc) == cc.mode # "none"
Kept(cc) == IF Paired(cc) THEN KeptPairRanks(Data, Mates, O(cc), cc.mode) ELSE KeptRanks(Data, O(cc))
Ids(recs, ranks) == [i \in 1..Len(ranks) |-> recs[ranks[i]].id]
DataCrc == [i \in 1..N |-> CRC[Data[i].seq]]

Compute ==
  CASE c.tool = "grep"  -> Divide(N, Kept(c))
    [] c.tool = "annot" -> AnnotateOut(Data, c.opts)
    [] c.tool = "dist"  -> Distribute(Data, DataCrc, c.D)
    [] c.tool = "mux"   -> LET reads == MuxSets[c.D.n] IN Divide(Len(reads), {i \in 1..Len(reads) : Identified(reads[i])})
    [] OTHER            -> <<>>

Step == /\ phase = "case"
        /\ out' = Compute
        /\ phase' = "done"
        /\ UNCHANGED c
Next == Step

---------------------------------------------------------------------------
(* theorems about the specification itself, checked on every enumerated command line *)
Done(tool) == phase = "done" /\ c.tool = tool
Flip(cc) == [cc EXCEPT !.v = ~cc.v]

WellFormedCase == phase = "case" =>
  /\ c.tool = "grep"  => Compatible(c.opts) /\ \A x \in c.opts : WellFormedCrit(x)
  /\ c.tool = "annot" => Expressible(c.opts) /\ \A x \in c.opts : WellFormedEdit(x)

(* kept and discarded are complementary, each record once, input order *)
GrepPartition == (Done("grep") \/ Done("mux")) =>
  LET n == IF c.tool = "mux" THEN Len(MuxSets[c.D.n]) ELSE N IN
  /\ IsPartition(n, {out.kept, out.disc})
  /\ \A s \in {out.kept, out.disc} : \A i, j \in 1..Len(s) : i < j => s[i] < s[j]

(* one clause per criterion: the kept set is the intersection of the single-criterion kept sets, *)
(* hence adding a criterion never adds a record (monotone)                                      *)
GrepConjunction == (Done("grep") /\ ~c.v /\ ~Paired(c)) =>
  /\ Kept(c) = {i \in 1..N : \A x \in c.opts : i \in Kept([c EXCEPT !.opts = {x}])}
  /\ \A x \in c.opts : Kept(c) \subseteq Kept([c EXCEPT !.opts = c.opts \ {x}])
GrepMonotonePaired == (Done("grep") /\ ~c.v /\ c.mode \in {"forward", "reverse", "and", "or"}) =>
  \A x \in c.opts : Kept(c) \subseteq Kept([c EXCEPT !.opts = c.opts \ {x}])

(* -v keeps exactly the others, in every paired mode *)
GrepInvert == (Done("grep") /\ c.opts # {}) => Kept(Flip(c)) = (1..N) \ Kept(c)

(* the six paired modes are the six boolean combinations of the two single-read verdicts *)
GrepPairTable == (Done("grep") /\ Paired(c) /\ ~c.v) =>
  LET K(m) == Kept([c EXCEPT !.mode = m])
      F == KeptRanks(Data, O(c))     R == KeptRanks(Mates, O(c))
  IN  /\ K("forward") = F /\ K("reverse") = R
      /\ K("and") = F \cap R /\ K("or") = F \cup R
      /\ K("andnot") = F \ R /\ K("xor") = (F \cup R) \ (F \cap R)

(* obiannotate *)
Touched(E, r) ==
       (IF Of(E, "clear") # {} THEN DOMAIN r.attrs ELSE {})
  \cup KeysOf(E, "del")
  \cup (IF Of(E, "keep") # {} THEN (DOMAIN r.attrs) \ KeysOf(E, "keep") ELSE {})
  \cup KeysOf(E, "ren") \cup {e.re : e \in Of(E, "ren")}
  \cup (IF Of(E, "length") # {} THEN {"seq_length"} ELSE {})
  \cup KeysOf(E, "set")
Created(E) == KeysOf(E, "ren") \cup (IF Of(E, "length") # {} THEN {"seq_length"} ELSE {}) \cup KeysOf(E, "set")

AnnotFrame == Done("annot") =>
  LET E == c.opts IN
  /\ E = {} => out = Data
  /\ Of(E, "cut") = {} => Len(out) = N
  /\ \A i \in 1..N :
       LET r == Data[i]   e == Edited(r, E)   a == EditAttrs(r, E) IN
       /\ Of(E, "cut") = {} => e.seq = r.seq /\ e.qual = r.qual
       /\ (Of(E, "cut") = {} /\ Of(E, "setid") = {}) => e.id = r.id
       /\ e.attrs = a.attrs                                             \* the cut leaves the attributes alone
       /\ \A k \in ((DOMAIN r.attrs) \cup (DOMAIN e.attrs)) \ Touched(E, r) :
            k \in DOMAIN r.attrs /\ k \in DOMAIN e.attrs /\ e.attrs[k] = r.attrs[k]
       /\ Survives(r, E) /\ Of(E, "cut") # {} =>
            /\ Len(e.seq) >= 1 /\ Len(e.qual) = Len(e.seq) /\ Len(e.seq) <= SLen(r)
            /\ \E f \in 0..(SLen(r) - 1) : e.seq = SubSeq(r.seq, f + 1, f + Len(e.seq))
(* every occurrence of a repeatable option is honoured, whatever else is on the command line *)
AnnotEveryOccurrence == Done("annot") =>
  LET E == c.opts IN
  \A i \in 1..N :
    LET r == Data[i]   e == Edited(r, E)
        idr == IF Of(E, "setid") # {} THEN DoSetId(r, (CHOOSE x \in Of(E, "setid") : TRUE).re) ELSE r IN
    /\ \A x \in Of(E, "set") : x.key \in DOMAIN e.attrs /\ e.attrs[x.key] = Expr(x.re, idr)
    /\ \A k \in KeysOf(E, "del") \ Created(E) : k \notin DOMAIN e.attrs
    /\ Of(E, "keep") # {} => (DOMAIN e.attrs) \subseteq KeysOf(E, "keep") \cup Created(E)
    /\ Of(E, "clear") # {} => (DOMAIN e.attrs) \subseteq Created(E)
    /\ Of(E, "length") # {} /\ ~(\E x \in Of(E, "set") : x.key = "seq_length") => e.attrs["seq_length"] = IntVal(SLen(r))

(* obidistribute: exactly one file per record; round robin is balanced; the class is a function of the record *)
DistPartition == Done("dist") =>
  /\ IsPartition(N, {out[f] : f \in DOMAIN out})
  /\ Cardinality({out[f] : f \in DOMAIN out}) = Cardinality(DOMAIN out)
  /\ \A f \in DOMAIN out : Len(out[f]) >= 1
  /\ c.D.n > 0 => \A f, g \in DOMAIN out : Len(out[f]) - Len(out[g]) \in {-1, 0, 1}
  /\ c.D.n > 0 => Cardinality(DOMAIN out) = Min2(c.D.n, N)
  /\ c.D.c # "" => \A i, j \in 1..N : Data[i].attrs = Data[j].attrs =>
                      \E f \in DOMAIN out : i \in RangeOf(out[f]) /\ j \in RangeOf(out[f])

---------------------------------------------------------------------------
(* export: one line per command line, with the content the specification assigns to each output *)
B(b) == IF b THEN 1 ELSE 0
Export == phase = "done" =>
  CSVWrite("%1$s", <<ToJson(
    CASE c.tool = "data" -> [tool |-> "data", fwd |-> Data, rev |-> Mates, crc |-> DataCrc, mux |-> MuxSets,
                             lists |-> [l \in {"L1", "L2"} |-> IdList(l)]]
      [] c.tool = "grep" -> [tool |-> "grep", opts |-> c.opts, v |-> B(c.v), mode |-> c.mode,
                             kept |-> Ids(Data, out.kept), disc |-> Ids(Data, out.disc),
                             keptm |-> IF Paired(c) THEN Ids(Mates, out.kept) ELSE <<>>,
                             discm |-> IF Paired(c) THEN Ids(Mates, out.disc) ELSE <<>>]
      [] c.tool = "annot" -> [tool |-> "annot", opts |-> c.opts, out |-> out]
      [] c.tool = "dist" -> [tool |-> "dist", D |-> c.D, files |-> [f \in DOMAIN out |-> Ids(Data, out[f])]]
      [] c.tool = "mux"  -> [tool |-> "mux", set |-> c.D.n, nkept |-> out.kept, ndisc |-> out.disc])>>,
    IOEnv.VERIF_CASES)
=============================================================================

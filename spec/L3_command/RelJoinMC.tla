----------------------------- MODULE RelJoinMC -----------------------------
(***************************************************************************)
(* X01 (a) - bounded model of obijoin.  One state per                      *)
(*   (option set, main record, partner table of at most MaxP rows drawn,   *)
(*    with repetition and in every order, from a curated pool).            *)
(* The pools put a record on every branch of the definition: key absent on *)
(* either side, same text under different kinds (1 vs "1"), several        *)
(* partners, duplicated partner rows, partner without nucleotides (a CSV   *)
(* row), partner overriding an attribute of the main record, sequences and *)
(* qualities of equal / different lengths, a partner whose key is the      *)
(* empty text or the NA marker (must NOT match a main record that lacks    *)
(* the key).                                                               *)
(* TLC checks the theorems below in every state and exports the case with  *)
(* the group the definition assigns to the main record.                    *)
(***************************************************************************)
EXTENDS RelJoin, Json, CSV, IOUtils

CONSTANTS MaxP,      \* longest partner table
          Bys,       \* names of the key declarations explored (subset of DOMAIN ByTable)
          Flags      \* explored <<update-id, update-sequence, update-quality>> triples, as strings of 0/1

NoAnn == [k \in {} |-> ""]
R(id, seq, qual, ann) == [id |-> id, seq |-> seq, qual |-> qual, ann |-> ann]

MainPool == <<
  R("m1", "acgt",   "",     ("a" :> "i:1") @@ ("x" :> "s:own")),
  R("m1", "acgt",   "IIII", ("a" :> "s:1") @@ ("b" :> "s:u")),
  R("m2", "acgt",   "IIII", ("a" :> "s:2") @@ ("b" :> "s:v") @@ ("x" :> "s:own")),
  R("m2", "acgtac", "",     ("b" :> "s:u")),
  R("p9", "ac",     "HH",   NoAnn),
  R("m3", "acgt",   "",     ("a" :> "i:2") @@ ("b" :> "s:u") @@ ("y" :> "s:mine")) >>

PartPool == <<
  R("m1", "",       "",       ("a" :> "s:1") @@ ("y" :> "s:new")),
  R("p9", "ggtt",   "JJJJ",   ("a" :> "i:1") @@ ("b" :> "s:u") @@ ("x" :> "s:theirs")),
  R("p9", "gg",     "",       ("a" :> "s:2") @@ ("b" :> "s:u")),
  R("p8", "ggttaa", "KKKKKK", ("a" :> "s:2") @@ ("b" :> "s:v") @@ ("y" :> "s:new")),
  R("m2", "tt",     "LL",     ("y" :> "s:other")),
  R("p7", "cccc",   "",       ("b" :> "s:1") @@ ("x" :> "s:theirs")),
  R("p6", "",       "",       ("a" :> "s:") @@ ("b" :> "s:NA") @@ ("y" :> "s:blank")) >>   \* an empty cell, an NA marker

ByTable == [dflt |-> <<>>,
            a    |-> << <<"a", "a">> >>,
            b    |-> << <<"b", "b">> >>,
            ab   |-> << <<"a", "b">> >>,                  \* --by a=b
            a_b  |-> << <<"a", "a">>, <<"b", "b">> >>,    \* --by a --by b
            id_a |-> << <<"id", "id">>, <<"a", "a">> >>,
            z    |-> << <<"z", "z">> >>]                  \* a key nobody carries

Bit(s, i) == SubSeq(s, i, i) = "1"
MkOpt(b, f) == [by |-> ByTable[b], uid |-> Bit(f, 1), useq |-> Bit(f, 2), uqual |-> Bit(f, 3)]

VARIABLES byname, flags, mi, pidx
vars == <<byname, flags, mi, pidx>>

opt == MkOpt(byname, flags)
m   == MainPool[mi]
P   == [i \in DOMAIN pidx |-> PartPool[pidx[i]]]

Init == byname \in Bys /\ flags \in Flags /\ mi \in DOMAIN MainPool /\ pidx = <<>>
Next == /\ Len(pidx) < MaxP
        /\ \E j \in DOMAIN PartPool : pidx' = Append(pidx, j)
        /\ UNCHANGED <<byname, flags, mi>>

---------------------------------------------------------------------------
(* theorems of the specification *)
by  == EffBy(opt.by)
J   == Partners(m, P, by)
grp == Group(m, P, opt)
Recs == [i \in DOMAIN grp |-> grp[i].rec]

(* the index / intersection algorithm of the code computes the relational definition *)
IndexAgrees == ImplPartners(m, P, by) = J

(* left outer join: never less than one copy, exactly one per partner, untouched without partner *)
LeftOuter == /\ Len(grp) = (IF J = {} THEN 1 ELSE Cardinality(J))
             /\ (J = {} => Recs = <<m>>)

(* a copy = the main record overridden by its partner; nothing else changes *)
Frame ==
  J # {} =>
    LET js == Asc(J, Len(P)) IN
    \A n \in DOMAIN grp :
       LET o == grp[n].rec  p == P[js[n]] IN
       /\ DOMAIN o.ann = DOMAIN m.ann \cup DOMAIN p.ann
       /\ \A k \in DOMAIN p.ann : o.ann[k] = p.ann[k]
       /\ \A k \in DOMAIN m.ann \ DOMAIN p.ann : o.ann[k] = m.ann[k]
       /\ o.id   \in {m.id, p.id}   /\ (~opt.uid => o.id = m.id)   /\ (opt.uid => o.id = p.id)
       /\ o.seq  \in {m.seq, p.seq} /\ (~opt.useq => o.seq = m.seq)  /\ (opt.useq /\ p.seq # "" => o.seq = p.seq)
       /\ o.qual \in {m.qual, p.qual} /\ (~opt.uqual => o.qual = m.qual) /\ (opt.uqual /\ p.qual # "" => o.qual = p.qual)
       /\ o.seq # ""                                              \* a copy never loses its nucleotides

(* joining a copy again with its own partner changes nothing *)
Idempotent == \A j \in J : LET o == Joined(m, P[j], opt) IN Joined(o, P[j], opt) = o

(* when the keys have the same name on both sides a copy still matches its partner *)
KeyKept == (\A i \in DOMAIN by : by[i][1] = by[i][2]) => \A j \in J : Match(Joined(m, P[j], opt), P[j], by)

(* the partners of a table are the partners in its parts (the table can be read in any batches) *)
Additive == \A c \in 0..Len(P) :
   J = Partners(m, SubSeq(P, 1, c), by) \cup {c + j : j \in Partners(m, SubSeq(P, c + 1, Len(P)), by)}

(* the acceptance predicate accepts the definition itself, except for the one clause the        *)
(* composition "as written" cannot meet (free quality string)                                   *)
SelfAccept == GroupVerdict(Recs, grp) = (IF \E n \in DOMAIN grp : grp[n].qfree THEN "wellformed" ELSE "ok")
StreamAgrees == Stream(<<m, m>>, P, opt) = grp \o grp

Laws == IndexAgrees /\ LeftOuter /\ Frame /\ Idempotent /\ KeyKept /\ Additive /\ SelfAccept /\ StreamAgrees

---------------------------------------------------------------------------
EncRec(r) == [id |-> r.id, seq |-> r.seq, qual |-> r.qual, ann |-> r.ann]
Export ==
  CSVWrite("%1$s", <<ToJson([sub   |-> "join",
                            by    |-> opt.by,
                            byname |-> byname,
                            flags |-> <<IF opt.uid THEN 1 ELSE 0, IF opt.useq THEN 1 ELSE 0, IF opt.uqual THEN 1 ELSE 0>>,
                            main  |-> EncRec(m),
                            part  |-> [i \in DOMAIN P |-> EncRec(P[i])],
                            npart |-> Cardinality(J),
                            expect |-> [n \in DOMAIN grp |-> [rec |-> EncRec(grp[n].rec), qfree |-> IF grp[n].qfree THEN 1 ELSE 0]]])>>,
           IOEnv.VERIF_CASES)
=============================================================================

---------------------------- MODULE RelDemergeMC ----------------------------
(***************************************************************************)
(* X01 (b) - bounded model of obidemerge.  The record pool is the cross    *)
(* product of: count attribute {absent, 1, 3, 5}, statistic merged_k       *)
(* {absent, one value, two values, with the NA value, one heavy value},    *)
(* scalar annotations {none, a former k, another attribute, both}, another *)
(* statistic merged_r {absent, present}, quality scores {absent, present}. *)
(* One state per (-d key, stream of at most MaxR records); streams of two  *)
(* and more records are drawn from a curated sub-pool.  The keys explored: *)
(* "k", "r" (the other statistic), "zz" (nobody carries it), "" (no -d).   *)
(***************************************************************************)
EXTENDS RelDemerge, Json, CSV, IOUtils

CONSTANTS MaxR, Keys

NoFun == [x \in {} |-> 0]
StatK == << NoFun, ("A" :> 1), ("A" :> 2) @@ ("B" :> 1), ("NA" :> 1) @@ ("A" :> 2), ("B" :> 3) >>
AnnS  == << [x \in {} |-> ""], ("k" :> "s:old"), ("x" :> "s:o"), ("k" :> "s:old") @@ ("x" :> "i:7") >>
StatR == << NoFun, ("r1" :> 3) >>
Quals == << "", "IIHH" >>
Counts == << 0, 1, 3, 5 >>

MkStats(sk, sr) == (IF sk = NoFun THEN [x \in {} |-> NoFun] ELSE ("k" :> sk))
                   @@ (IF sr = NoFun THEN [x \in {} |-> NoFun] ELSE ("r" :> sr))

PoolSet == {[id |-> "u1", seq |-> "acgt", qual |-> Quals[q], count |-> Counts[c], ann |-> AnnS[a],
             stats |-> MkStats(StatK[s], StatR[t])] :
              q \in DOMAIN Quals, c \in DOMAIN Counts, a \in DOMAIN AnnS, s \in DOMAIN StatK, t \in DOMAIN StatR}
Pool == SetToSeq(PoolSet)
Curated == {i \in DOMAIN Pool : LET r == Pool[i] IN
              /\ r.qual = "" /\ r.count = 3 /\ r.ann \in {AnnS[1], AnnS[4]} /\ ~HasStat(r, "r")}

VARIABLES key, ridx
vars == <<key, ridx>>

rs == [i \in DOMAIN ridx |-> [Pool[ridx[i]] EXCEPT !.id = "u" \o ToString(i)]]

Init == key \in Keys /\ ridx = <<>>
Next == /\ Len(ridx) < MaxR
        /\ \E j \in DOMAIN Pool :
              /\ (ridx # <<>> => (ridx[1] \in Curated /\ j \in Curated))
              /\ ridx' = Append(ridx, j)
        /\ UNCHANGED key

---------------------------------------------------------------------------
(* Uniq.tla on the projection: sequences are the nucleotide strings, no category, the values of k *)
ValSeq == <<"A", "B", "NA">>
U == INSTANCE Uniq WITH Seqs <- {"acgt"}, NCat <- 0, CatVals <- {}, PlainShapes <- {}, MrgKeySeq <- ValSeq,
                        MapShapes <- {}, OptSet <- {}, MaxN <- 0, ChunkCounts <- {}, LawsMaxN <- 0,
                        NA <- "NA", Missing <- "-",
                        opt <- [ncat |-> 0, merge |-> TRUE, ns |-> FALSE], idx <- <<>>
Vec(mp) == [i \in 1..U!K |-> IF ValSeq[i] \in DOMAIN mp THEN mp[ValSeq[i]] ELSE 0]
AbsOut(r, k) == [seq |-> r.seq, cat |-> <<>>, count |-> EffCount(r), merged |-> Vec(r.stats[k])]
AbsDem(o, k) == [seq |-> o.seq, cat |-> <<>>, count |-> o.count, mt |-> "val",
                 mv |-> SubSeq(o.ann[k], 3, Len(o.ann[k])), mm |-> U!ZeroVec]

---------------------------------------------------------------------------
(* theorems, on every record of the stream *)
All(Th(_)) == \A i \in DOMAIN rs : Th(rs[i])

(* Uniq!DemergeOne is the projection of Demerge; dereplicating the pieces again gives the record back *)
RefinesUniq == All(LAMBDA r : (key = "k" /\ HasStat(r, key)) =>
                   {AbsDem(o, key) : o \in Demerge(r, key)} = U!DemergeOne(AbsOut(r, key)))
ReUniq == All(LAMBDA r : (key = "k" /\ HasStat(r, key) /\ Consistent(r, key)) =>
                   U!Uniq(SetToSeq({AbsDem(o, key) : o \in Demerge(r, key)}), [ncat |-> 0, merge |-> TRUE, ns |-> FALSE])
                      = {AbsOut(r, key)})

Conservation == All(LAMBDA r : LET D == Demerge(r, key) IN
                   /\ (key # "" /\ HasStat(r, key)) => SumOver([o \in D |-> o.count], D) = StatTotal(r, key)
                   /\ Consistent(r, key) => SumOver([o \in D |-> EffCount(o)], D) = EffCount(r))

OnePerValue == All(LAMBDA r : (key # "" /\ HasStat(r, key)) =>
                   LET D == Demerge(r, key) IN
                   /\ Cardinality(D) = Cardinality(DOMAIN r.stats[key])
                   /\ {o.ann[key] : o \in D} = {"s:" \o v : v \in DOMAIN r.stats[key]}
                   /\ \A o \in D : o.count = r.stats[key][SubSeq(o.ann[key], 3, Len(o.ann[key]))])

Untouched == All(LAMBDA r : (key = "" \/ ~HasStat(r, key)) => Demerge(r, key) = {r})

Frame == All(LAMBDA r : \A o \in Demerge(r, key) :
                   /\ o.id = r.id /\ o.seq = r.seq /\ o.qual = r.qual
                   /\ \A a \in DOMAIN r.ann \ {key} : a \in DOMAIN o.ann /\ o.ann[a] = r.ann[a]
                   /\ DOMAIN o.ann \subseteq DOMAIN r.ann \cup {key}
                   /\ \A s \in DOMAIN r.stats \ {key} : s \in DOMAIN o.stats /\ o.stats[s] = r.stats[s]
                   /\ DOMAIN o.stats = DOMAIN r.stats \ {key})

(* demerging the pieces again changes nothing (the statistic is gone) *)
Idempotent == All(LAMBDA r : \A o \in Demerge(r, key) : Demerge(o, key) = {o})

Flat == FoldLeft(LAMBDA acc, g : acc \o SetToSeq(g), <<>>, Groups(rs, key))
SelfAccept == StreamVerdict(Flat, rs, key) = "ok"

---------------------------------------------------------------------------
Shape == IF rs = <<>> THEN "empty"
         ELSE IF key = "" THEN "no-option"
         ELSE IF \A i \in DOMAIN rs : ~HasStat(rs[i], key) THEN "none-carries-it"
         ELSE IF \A i \in DOMAIN rs : HasStat(rs[i], key) THEN "all-carry-it" ELSE "mixed"
Export ==
  CSVWrite("%1$s", <<ToJson([sub |-> "demerge", key |-> key, recs |-> rs, shape |-> Shape,
                            groups |-> [i \in DOMAIN rs |-> SetToSeq(Demerge(rs[i], key))]])>>,
           IOEnv.VERIF_CASES)
=============================================================================

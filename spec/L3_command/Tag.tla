--------------------------------- MODULE Tag ---------------------------------
(***************************************************************************)
(* Property C15: what obitag's reference search, obirefidx's per-reference *)
(* index and the resulting taxonomic assignment MEAN, and an               *)
(* implementation-shaped model of the two prefiltered scans.               *)
(*                                                                         *)
(* Reference definitions (no prefilter: the query is compared with every   *)
(* reference):                                                             *)
(*   Dist(q, r)        = columns of the shortest alignment realising the   *)
(*                       LCS  -  LCS length                  (LCS.tla)     *)
(*   Closest(q, refs)  = [d |-> the minimal distance,                      *)
(*                        best |-> ALL references at that distance]        *)
(*   LcaWithin(..., d) = LCA of the taxa of all references within d of the *)
(*                       indexed reference (itself included)               *)
(*   RefIndex          = the map  change point d |-> LcaWithin(d)  below   *)
(*                       the length of the indexed reference               *)
(*   Assigned          = LCA over the best references of the index entry   *)
(*                       selected by the observed distance                 *)
(*                                                                         *)
(* Implementation-shaped models (pkg/obitools/obitag FindClosests,         *)
(* pkg/obitools/obirefidx IndexSequence): candidates in decreasing order   *)
(* of shared 4-mers, running best distance, pruning threshold "wordmin",   *)
(* early break, one-difference shortcut once the best distance is <= 1.    *)
(* Their parameter  fixed  selects the repaired or the original pruning:   *)
(* FindClosests stops at the first candidate below a threshold computed    *)
(* from the length of the query alone (sound, by Lemma4) or, as the code   *)
(* was written, of the query and the current best reference; IndexSequence *)
(* computes a threshold that is valid for the current candidate only and   *)
(* skips that candidate (sound) or, as written, stops the scan there.      *)
(*                                                                         *)
(* References are addressed by their position in the sequence refs         *)
(* (duplicates are allowed and are different references).  Taxa are node   *)
(* numbers of a taxonomy in the sense of Tax.tla (only .parent is used).   *)
(***************************************************************************)
EXTENDS Integers, Sequences, FiniteSets, SequencesExt, LCS, D1

TX == INSTANCE Tax

MaxI(x, y) == IF x >= y THEN x ELSE y
MinI(x, y) == IF x <= y THEN x ELSE y
LeastOf(S) == CHOOSE x \in S : \A y \in S : x <= y
MostOf(S)  == CHOOSE x \in S : \A y \in S : x >= y
SumSeq(s)  == FoldLeft(LAMBDA acc, x : acc + x, 0, s)

-----------------------------------------------------------------------------
(* 4-mer counting (pkg/obikmer Encode4mer, Count4Mer, Common4Mer).  Every symbol that is not *)
(* c, g, t or u counts as a.  A sequence of n >= 4 symbols has n - 3 words.                  *)

Code(x) == CASE x = "c" -> 1 [] x = "g" -> 2 [] x = "t" -> 3 [] x = "u" -> 3 [] OTHER -> 0

Word(s, i) == 64 * Code(s[i]) + 16 * Code(s[i + 1]) + 4 * Code(s[i + 2]) + Code(s[i + 3])

Words(s) == IF Len(s) < 4 THEN <<>> ELSE [i \in 1..(Len(s) - 3) |-> Word(s, i)]

(* the table of Count4Mer restricted to the words that occur: word |-> number of occurrences *)
Count4Mer(s) ==
  LET W == Words(s) IN [w \in {W[i] : i \in DOMAIN W} |-> Cardinality({i \in DOMAIN W : W[i] = w})]

(* sum over all words of the smaller of the two counts *)
Common4Mer(c1, c2) ==
  LET ws == SetToSeq(DOMAIN c1 \cap DOMAIN c2) IN SumSeq([k \in 1..Len(ws) |-> MinI(c1[ws[k]], c2[ws[k]])])

Common4(a, b) == Common4Mer(Count4Mer(a), Count4Mer(b))

-----------------------------------------------------------------------------
(* distances *)

Dist(q, r) == Err(LCSPair(q, r))              \* Err(<<lcs, columns>>) = columns - lcs
LenDiff(q, r) == IF Len(q) >= Len(r) THEN Len(q) - Len(r) ELSE Len(r) - Len(q)

(* pv: the tuple of LCSPair(q, refs[i]) *)
PairVec(q, refs) == [i \in 1..Len(refs) |-> LCSPair(q, refs[i])]
ErrVec(pv)       == [i \in 1..Len(pv) |-> Err(pv[i])]

(* the answer of the search: the minimal distance and every reference at that distance *)
ClosestOf(dv) ==
  LET m == LeastOf({dv[i] : i \in DOMAIN dv}) IN [d |-> m, best |-> {i \in DOMAIN dv : dv[i] = m}]
Closest(q, refs) == ClosestOf(ErrVec(PairVec(q, refs)))

(* the lemma that makes a 4-mer prefilter lossless (symbols a, c, g, t): an alignment with e     *)
(* columns that are not matches has at least (columns - 3) - 4e windows of four matching         *)
(* columns, and it has at least max(|q|, |c|) columns                                            *)
Lemma4(q, c) == Common4(q, c) >= MaxI(Len(q), Len(c)) - 3 - 4 * Dist(q, c)
(* hence, whatever c: Dist(q, c) <= e  =>  Common4(q, c) >= |q| - 3 - 4e *)
Lemma4Query(q, c, e) == Dist(q, c) <= e => Common4(q, c) >= Len(q) - 3 - 4 * e

-----------------------------------------------------------------------------
(* the index of one reference.  T: taxonomy; taxa[i]: taxon of refs[i]; dv[i]: distance of the *)
(* indexed reference to refs[i] (0 for itself); len: length of the indexed reference           *)

RefsWithin(dv, d) == {i \in DOMAIN dv : dv[i] <= d}

LcaWithinRef(T, taxa, dv, d) == TX!SetLCAref(T, {taxa[i] : i \in RefsWithin(dv, d)})   \* as the property is worded
LcaWithin(T, taxa, dv, d)    == TX!SetLCA(T, {taxa[i] : i \in RefsWithin(dv, d)})      \* walking form (Tax.tla, C14)

(* distances at which something enters *)
Dists(dv) == {dv[i] : i \in DOMAIN dv}

(* RefIndex: one entry per distance below len at which the LCA changes (the smallest distance is one) *)
RefIndex(T, taxa, dv, len) ==
  LET D    == {d \in Dists(dv) : d < len}
      lw   == [d \in D |-> LcaWithin(T, taxa, dv, d)]
      prev(d) == MostOf({e \in D : e < d})
      keys == {d \in D : (\A e \in D : e >= d) \/ lw[d] # lw[prev(d)]}
  IN [d \in keys |-> lw[d]]

(* how an index is read (obitag Identify): the entry of the largest recorded distance <= d,   *)
(* failing that the entry of the smallest recorded distance; 0 for an empty index             *)
Lookup(idx, d) ==
  LET below == {k \in DOMAIN idx : k <= d} IN
  IF below # {} THEN idx[MostOf(below)]
  ELSE IF DOMAIN idx # {} THEN idx[LeastOf(DOMAIN idx)] ELSE 0

(* the two clauses asked of an index idx (a function distance -> taxon) of a reference of length len: *)
(*  entries: every recorded distance maps to the LCA of the taxa of all references within it        *)
(*  lookup : read as Identify reads it, it answers LcaWithin for every distance below len           *)
EntriesOK(idx, T, taxa, dv) == \A d \in DOMAIN idx : idx[d] = LcaWithin(T, taxa, dv, d)
LookupOK(idx, T, taxa, dv, len) ==
  \A d \in ({e \in Dists(dv) : e < len} \cup {len - 1}) : Lookup(idx, d) = LcaWithin(T, taxa, dv, d)

-----------------------------------------------------------------------------
(* the assignment.  pv = PairVec(q, refs); dm[b] = distance vector of reference b to all references *)

(* identity of the best alignment among the best references is at least one half *)
Confident(pv, best) == \E b \in best : 2 * pv[b][1] >= pv[b][2]

Assigned(T, refs, taxa, pv, dm) ==
  LET c == ClosestOf(ErrVec(pv)) IN
  IF ~Confident(pv, c.best) THEN TX!Root(T)
  ELSE TX!SetLCA(T, {Lookup(RefIndex(T, taxa, dm[b], Len(refs[b])), c.d) : b \in c.best})

(* the clause of the property: ancestor-or-self of the taxon of every best reference *)
CoversBest(T, taxa, best, x) == \A b \in best : x \in TX!Anc(T, taxa[b])

-----------------------------------------------------------------------------
(* Implementation-shaped model of obitag.FindClosests.                                          *)
(*  cw[i]  = Common4(q, refs[i]);  order = the references sorted by decreasing cw (ties in any   *)
(*  order: the code's sort is not stable);  pv = PairVec(q, refs) stands for the LCS kernel.     *)
(* The kernels are modelled by their contracts (C09): the bounded LCS kernel answers the exact   *)
(* pair when the distance is within the bound and nothing usable otherwise; D1Or0 answers D1Ref. *)

IsOrder(order, cw) ==
  /\ Len(order) = Len(cw)
  /\ {order[k] : k \in DOMAIN order} = DOMAIN cw
  /\ \A k \in 1..(Len(order) - 1) : cw[order[k]] >= cw[order[k + 1]]

(* every order the sort may produce *)
Orders(cw) == {o \in [1..Len(cw) -> 1..Len(cw)] : IsOrder(o, cw)}

(* distance seen by the scan for candidate c under the running bound e (-1: none yet), -1 = nothing usable *)
Probe(q, c, pair, e) ==
  IF e = -1 THEN Err(pair)
  ELSE IF e <= 1 THEN D1Ref(q, c)
  ELSE IF Err(pair) <= e THEN Err(pair) ELSE -1

ScanStart == [maxe |-> -1, wordmin |-> 0, best |-> {}, stop |-> FALSE, seen |-> {}]

ScanStep(q, refs, pv, cw, fixed, acc, i) ==
  IF acc.stop THEN acc
  ELSE IF cw[i] < acc.wordmin THEN [acc EXCEPT !.stop = TRUE]
  ELSE LET sc   == Probe(q, refs[i], pv[i], acc.maxe)
           seen == acc.seen \cup {i}
       IN IF sc < 0 THEN [acc EXCEPT !.seen = seen]
          ELSE IF acc.maxe = -1 \/ sc < acc.maxe
          THEN [maxe    |-> sc,
                wordmin |-> MaxI(0, (IF fixed THEN Len(q) ELSE MaxI(Len(q), Len(refs[i]))) - 3 - 4 * sc),
                best    |-> {i}, stop |-> FALSE, seen |-> seen]
          ELSE IF sc = acc.maxe THEN [acc EXCEPT !.best = @ \cup {i}, !.seen = seen]
          ELSE [acc EXCEPT !.seen = seen]

PrefilterScan(q, refs, pv, cw, order, fixed) ==
  FoldLeft(LAMBDA acc, i : ScanStep(q, refs, pv, cw, fixed, acc, i), ScanStart, order)

ScanAnswer(s) == [d |-> s.maxe, best |-> s.best]

-----------------------------------------------------------------------------
(* Implementation-shaped model of obirefidx.IndexSequence for reference k of refs.             *)
(*  path = lineage of its taxon, root first; for each ancestor in turn, the references whose    *)
(*  LCA with that taxon is this ancestor are scanned in decreasing order of shared 4-mers;      *)
(*  mini = smallest distance met so far (it goes on from one ancestor to the next).             *)
(*  dvk[i] = Dist(refs[k], refs[i]); cwk[i] = Common4(refs[k], refs[i]).                        *)

IdxProbe(r, c, d, mini) ==
  IF mini = -1 THEN d
  ELSE IF mini <= 1 THEN D1Ref(r, c)
  ELSE IF d <= mini THEN d ELSE -1

(* a candidate within mini differences shares at least max(|r|, |c|) - 3 - 4 mini words with r: a bound that  *)
(* holds for THAT candidate.  fixed: the candidate is skipped; as written: the scan of this ancestor stops.    *)
IdxStep(refs, k, dvk, cwk, fixed, acc, i) ==          \* acc = [mini, wordmin, stop]
  IF acc.stop THEN acc
  ELSE LET wm == IF acc.mini = -1 THEN acc.wordmin
                 ELSE MaxI(Len(refs[k]), Len(refs[i])) - 3 - 4 * acc.mini
       IN IF cwk[i] < wm THEN [acc EXCEPT !.wordmin = wm, !.stop = ~fixed]
          ELSE LET e == IdxProbe(refs[k], refs[i], dvk[i], acc.mini)
               IN [mini    |-> IF e >= 0 /\ (acc.mini = -1 \/ e < acc.mini) THEN e ELSE acc.mini,
                   wordmin |-> wm, stop |-> FALSE]

IndexScan(T, refs, taxa, k, dvk, cwk, order, fixed) ==
  LET path == TX!Reverse(TX!Path(T, taxa[k]))
      lca  == [i \in 1..Len(refs) |-> TX!LCA(T, taxa[k], taxa[i])]
      (* mindiff, one value per ancestor *)
      walk == FoldLeft(LAMBDA st, a :
                 LET cands == SelectSeq(order, LAMBDA i : lca[i] = path[a])
                     r == FoldLeft(LAMBDA acc, i : IdxStep(refs, k, dvk, cwk, fixed, acc, i),
                                   [mini |-> st.mini, wordmin |-> st.wordmin, stop |-> FALSE], cands)
                 IN [mini |-> r.mini, wordmin |-> r.wordmin, mind |-> Append(st.mind, r.mini)],
               [mini |-> -1, wordmin |-> 0, mind |-> <<>>], Upto(Len(path)))
      mind == walk.mind
      (* an entry wherever the running minimum decreases, starting below the length of the reference *)
      olds == FoldLeft(LAMBDA o, a : Append(o, IF mind[a] # -1 /\ mind[a] < o[a] THEN mind[a] ELSE o[a]),
                       <<Len(refs[k])>>, Upto(Len(path)))
      recs == {a \in 1..Len(path) : mind[a] # -1 /\ mind[a] < olds[a]}
  IN [d \in {mind[a] : a \in recs} |-> path[CHOOSE a \in recs : mind[a] = d]]
=============================================================================

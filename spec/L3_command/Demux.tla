------------------------------- MODULE Demux -------------------------------
(***************************************************************************)
(* Demultiplexing of obitools4 (property C12): what `obimultiplex` /       *)
(* NGSLibrary.ExtractMultiBarcode has to return for a read, given a sample *)
(* sheet.  Constant-level operator library on top of Apat.tla (primer      *)
(* matching with mismatches / indels, reverse-complemented patterns, edit  *)
(* distance).                                                              *)
(*                                                                         *)
(* Encoding (as in Apat.tla): a sequence is a tuple of small integers      *)
(* a=0 c=1 g=2 t=3 (4 = any other letter); positions are 0-based, spans    *)
(* half-open [b, e) as in Go; S[p] of the Go code is S[p+1] here.          *)
(*                                                                         *)
(* A MARKER is a record                                                    *)
(*   fP, rP   parsed patterns (Apat!Parse) of the forward / reverse primer *)
(*   ef, er   error budgets of the two primers                             *)
(*   indel    TRUE when primer matching allows insertions / deletions      *)
(*   mode     "strict" | "hamming" | "indel": how an extracted tag is      *)
(*            matched to the declared tags                                 *)
(*   sf, sr   spacers: bases between the tag and the primer                *)
(*   lf, lr   tag lengths (0 = the primer carries no tag)                  *)
(*   smp      tuple of samples [ft, rt, name]: declared tag pair -> sample *)
(* A SHEET is a tuple of markers.                                          *)
(*                                                                         *)
(* A read made of                                                          *)
(*     tagF . spacer . fwd primer . BARCODE . rc(rev primer) . spacer . rc(tagR)  *)
(* (direction "forward"), or of the reverse complement of this (direction  *)
(* "reverse"), yields the barcode oriented forward -> reverse, the two     *)
(* primer matches and the two tags read in the orientation of the sheet,   *)
(* and the sample the tag pair identifies.                                 *)
(***************************************************************************)
EXTENDS Apat, TLC

Sub0(S, b, e) == SubSeq(S, b + 1, e)                \* S[b, e)
AsPat(a) == [i \in 1..Len(a) |-> [set |-> {a[i]}, neg |-> FALSE, ob |-> FALSE]]

---------------------------------------------------------------------------
(* tag identification: exact, or the unique nearest declared tag, else none *)

Ham(a, b) == IF Len(a) # Len(b) THEN Max2(Len(a), Len(b))
             ELSE Cardinality({i \in 1..Len(a) : a[i] # b[i]})
Lev(a, b) == EdSpan(AsPat(a), b, 0, Len(b))          \* Levenshtein distance

(* the declared tag closest to t when it is the only one at that distance, <<>> otherwise *)
Nearest(T, t, D(_, _)) ==
  LET mn == SetMin({D(x, t) : x \in T})
      C  == {x \in T : D(x, t) = mn}
  IN  IF Cardinality(C) = 1 THEN CHOOSE x \in C : TRUE ELSE <<>>

(* the declared tag an extracted tag t stands for (<<>>: nothing extracted / undecidable) *)
Propose(mode, T, t) ==
  IF t = <<>> THEN <<>>
  ELSE CASE mode = "strict"  -> t
         [] mode = "hamming" -> Nearest(T, t, Ham)
         [] mode = "indel"   -> Nearest(T, t, Lev)

FwdTags(mk) == {mk.smp[i].ft : i \in DOMAIN mk.smp}
RevTags(mk) == {mk.smp[i].rt : i \in DOMAIN mk.smp}

(* name of the sample the extracted tag pair identifies, "" when there is none *)
Identify(mk, ft, rt) ==
  LET pf == Propose(mk.mode, FwdTags(mk), ft)
      pr == Propose(mk.mode, RevTags(mk), rt)
      M  == {i \in DOMAIN mk.smp : mk.smp[i].ft = pf /\ mk.smp[i].rt = pr}
  IN  IF M = {} THEN "" ELSE mk.smp[CHOOSE i \in M : TRUE].name

---------------------------------------------------------------------------
(* priming sites of one pattern: ApatPattern.AllMatches                     *)

(* hits <<p, k>> of the mismatch-only matcher, increasing p, scan started at lo *)
SubHitSeq(P, S, e, lo) ==
  LET n == Len(S)
      m == Len(P)
  IN  IF n - m < lo THEN <<>>
      ELSE SelectSeq([i \in 1..(n - m - lo + 1) |-> <<lo + i - 1, Mism(P, S, lo + i - 1, e)>>],
                     LAMBDA h : h[2] <= e)

(* FilterBestMatch: of each run of overlapping hits (windows widened by the error counts)   *)
(* the best one.  tie: another hit of the run is as good as the one kept (the property does *)
(* not say which one is the site: the read is then "ambiguous")                             *)
FBStep(acc, h, m) ==
  IF acc.best = <<>> THEN [acc EXCEPT !.best = h, !.tie = FALSE]
  ELSE IF h[1] - h[2] < acc.best[1] + m + acc.best[2]
       THEN IF h[2] < acc.best[2] THEN [acc EXCEPT !.best = h, !.tie = FALSE]
            ELSE IF h[2] = acc.best[2] THEN [acc EXCEPT !.tie = TRUE]
            ELSE acc
       ELSE [out |-> Append(acc.out, acc.best), best |-> h, tie |-> FALSE, amb |-> acc.amb \/ acc.tie]

FilterBest(H, m) ==
  LET a == FoldLeft(LAMBDA acc, h : FBStep(acc, h, m),
                    [out |-> <<>>, best |-> <<>>, tie |-> FALSE, amb |-> FALSE], H)
  IN  IF a.best = <<>> THEN [out |-> <<>>, amb |-> FALSE]
      ELSE [out |-> Append(a.out, a.best), amb |-> a.amb \/ a.tie]

(* edit distances between P and S[s, t) for t = s .. we, as a tuple (index t - s + 1) *)
SpanRow(P, S, s, we) ==
  LET m == Len(P) IN
  IF we <= s THEN <<m>>
  ELSE FoldLeft(LAMBDA acc, i : LET c == ColStep(P, S[i], acc[1], FALSE) IN <<c, Append(acc[2], c[m + 1])>>,
                <<ColInit(m), <<m>>>>, [i \in 1..(we - s) |-> s + i])[2]

(* the spans <<s, t, d>> of the window [ws, we) at the smallest edit distance from P *)
BestSpans(P, S, ws, we) ==
  LET rows == [s \in ws..we |-> SpanRow(P, S, s, we)]
      all  == UNION {{<<s, s + j - 1, rows[s][j]>> : j \in 1..(we - s + 1)} : s \in ws..we}
      mn   == SetMin({x[3] : x \in all})
  IN  {x \in all : x[3] = mn}

(* AllMatches(seq, lo, -1): the sites [b, e, k] of P in S found by a scan started at lo; an *)
(* indel hit with errors is re-aligned in the window the code hands to LocatePattern; amb   *)
(* when a run has tied best hits or the re-aligned span is not unique                       *)
AllMatchesM(P, S, e, ind, lo) ==
  LET n  == Len(S)
      m  == Len(P)
      H  == IF ind THEN IndelHitSeq(P, S, e, lo, n) ELSE SubHitSeq(P, S, e, lo)
      fb == FilterBest(H, m)
      Re(h) == IF ind /\ h[2] > 0
               THEN LET ws == Max2(h[1] - 2 * h[2], 0)
                        we == Min2(ws + m + 4 * h[2], n)
                        bs == BestSpans(P, S, ws, we)
                        x  == CHOOSE y \in bs : TRUE
                    IN  [b |-> x[1], e |-> x[2], k |-> x[3], u |-> Cardinality(bs) = 1]
               ELSE [b |-> h[1], e |-> h[1] + m, k |-> h[2], u |-> h[1] >= 0 /\ h[1] + m <= n]
      r  == [i \in 1..Len(fb.out) |-> Re(fb.out[i])]
  IN  [sites |-> SelectSeq(r, LAMBDA x : x.k <= e),
       amb   |-> fb.amb \/ \E i \in DOMAIN r : ~r[i].u]

NoSites == [sites |-> <<>>, amb |-> FALSE]

---------------------------------------------------------------------------
(* the primer matches of a read: NGSLibrary.ExtractMultiBarcode, first part *)

(* mk = +i: a primer of marker i read directly (the 5' end of an amplicon), -i: its partner *)
(* read reverse-complemented (the 3' end); fw: the amplicon runs forward -> reverse.        *)
(* full = TRUE: every hit of every pattern - "all primer hits of all markers", the list the *)
(* property speaks of; it is mirror-symmetric under reverse complementation.                *)
(* full = FALSE: the partner pattern is searched only behind the first direct hit of its    *)
(* primer (the shortcut of the code as received, before fix 86ebd97): the hits of a read and of its reverse *)
(* complement are then not mirror images of each other any more (kept to tell which reads   *)
(* are sensitive to it).                                                                    *)
MarkerMatches(mk, i, S, full) ==
  LET F  == AllMatchesM(mk.fP, S, mk.ef, mk.indel, 0)
      cR == IF full THEN AllMatchesM(Comp(mk.rP), S, mk.er, mk.indel, 0)
            ELSE IF F.sites # <<>> THEN AllMatchesM(Comp(mk.rP), S, mk.er, mk.indel, F.sites[1].b + 1)
            ELSE NoSites
      R  == AllMatchesM(mk.rP, S, mk.er, mk.indel, 0)
      cF == IF full THEN AllMatchesM(Comp(mk.fP), S, mk.ef, mk.indel, 0)
            ELSE IF R.sites # <<>> THEN AllMatchesM(Comp(mk.fP), S, mk.ef, mk.indel, R.sites[1].b + 1)
            ELSE NoSites
      T(x, sg, fw) == [j \in DOMAIN x.sites |->
                         [b |-> x.sites[j].b, e |-> x.sites[j].e, k |-> x.sites[j].k, mk |-> sg, fw |-> fw]]
  IN  [ms  |-> T(F, i, TRUE) \o T(cR, -i, TRUE) \o T(R, i, FALSE) \o T(cF, -i, FALSE),
       amb |-> F.amb \/ cR.amb \/ R.amb \/ cF.amb]

ReadMatches(sheet, S, full) ==
  LET per == [i \in DOMAIN sheet |-> MarkerMatches(sheet[i], i, S, full)]
      all == FoldLeft(LAMBDA acc, i : acc \o per[i].ms, <<>>, [i \in DOMAIN sheet |-> i])
      srt == SortSeq(all, LAMBDA x, y : x.b < y.b)
  IN  [ms  |-> srt,
       amb |-> (\E i \in DOMAIN sheet : per[i].amb)
               \/ (\E i \in 1..(Len(srt) - 1) : srt[i].b = srt[i + 1].b)]     \* the sort is not stable

(* the scan: a direct (+) hit followed by the matching complementary (-) hit delimits a barcode *)
NoMatch == [b |-> 0, e |-> 0, k |-> 0, mk |-> 0, fw |-> TRUE]
ScanStep(st, mt) ==
  IF st.state = 0
  THEN IF mt.mk > 0 THEN [st EXCEPT !.state = 1, !.from = mt] ELSE st
  ELSE IF mt.mk = -st.from.mk /\ mt.fw = st.from.fw
       THEN [state |-> 0, from |-> st.from, pairs |-> Append(st.pairs, <<st.from, mt>>)]
       ELSE IF mt.mk > 0 THEN [st EXCEPT !.from = mt]
       ELSE [st EXCEPT !.state = 0]
ScanPairs(ms) == FoldLeft(ScanStep, [state |-> 0, from |-> NoMatch, pairs |-> <<>>], ms).pairs

(* property-level reading of the same sentence on the list of ALL hits: the pairs of        *)
(* consecutive hits (+i, -i) of the same direction                                          *)
AdjacentPairs(ms) ==
  LET idx == SelectSeq([i \in 1..(Len(ms) - 1) |-> i],
                       LAMBDA i : ms[i].mk > 0 /\ ms[i + 1].mk = -ms[i].mk /\ ms[i + 1].fw = ms[i].fw)
  IN  [j \in DOMAIN idx |-> <<ms[idx[j]], ms[idx[j] + 1]>>]

---------------------------------------------------------------------------
(* tags are cut next to the primer matches *)

(* tag of length L lying sp bases before position b, read as it is *)
CutBefore(S, b, sp, L) ==
  IF L = 0 \/ b - sp - L < 0 THEN <<>> ELSE Sub0(S, b - sp - L, b - sp)
(* tag of length L lying sp bases after position e, read on the other strand *)
CutAfter(S, e, sp, L) ==
  IF L = 0 \/ e + sp + L > Len(S) THEN <<>> ELSE RC(Sub0(S, e + sp, e + sp + L))

(* one amplicon delimited by the pair <<from, mt>>: the record obimultiplex outputs; no     *)
(* record (<<>>) when the two primer matches touch or overlap (no barcode between them)     *)
AmpliconOf(sheet, S, pr) ==
  LET from == pr[1]
      mt   == pr[2]
      mk   == sheet[from.mk]
      fw   == from.fw
      m5   == Sub0(S, from.b, from.e)               \* the direct primer match
      m3   == RC(Sub0(S, mt.b, mt.e))               \* its partner, read in primer orientation
      t5   == IF fw THEN CutBefore(S, from.b, mk.sf, mk.lf) ELSE CutBefore(S, from.b, mk.sr, mk.lr)
      t3   == IF fw THEN CutAfter(S, mt.e, mk.sr, mk.lr)    ELSE CutAfter(S, mt.e, mk.sf, mk.lf)
      ft   == IF fw THEN t5 ELSE t3
      rt   == IF fw THEN t3 ELSE t5
      bc   == Sub0(S, from.e, mt.b)
      smp  == Identify(mk, ft, rt)
  IN  IF from.e >= mt.b THEN <<>>
      ELSE << [mk  |-> from.mk,
               dir |-> IF fw THEN "forward" ELSE "reverse",
               bc  |-> IF fw THEN bc ELSE RC(bc),
               fm  |-> IF fw THEN m5 ELSE m3,
               rm  |-> IF fw THEN m3 ELSE m5,
               fe  |-> IF fw THEN from.k ELSE mt.k,
               re  |-> IF fw THEN mt.k ELSE from.k,
               ft  |-> ft,
               rt  |-> rt,
               smp |-> smp,
               err |-> IF smp = "" THEN 1 ELSE 0] >>

OutsOf(sheet, S, pairs) ==
  FoldLeft(LAMBDA acc, i : acc \o AmpliconOf(sheet, S, pairs[i]), <<>>, [i \in DOMAIN pairs |-> i])

(* What obimultiplex returns for the read S: the amplicons in read order (outs); when there *)
(* is none the read itself is returned flagged "No barcode identified".  amb: the read has  *)
(* tied / non-unique priming sites, the list is one of several acceptable ones.             *)
DemuxRead(sheet, S) ==
  LET rm == ReadMatches(sheet, S, TRUE)
  IN  [outs |-> OutsOf(sheet, S, ScanPairs(rm.ms)), amb |-> rm.amb]

(* the same sentence read declaratively: pairs of consecutive hits (+i, -i) *)
DemuxReadRef(sheet, S) ==
  LET rm == ReadMatches(sheet, S, TRUE)
  IN  [outs |-> OutsOf(sheet, S, AdjacentPairs(rm.ms)), amb |-> rm.amb]

(* the scan on the shortened hit list (partner searched behind the first direct hit only) *)
DemuxReadShortcut(sheet, S) ==
  LET rm == ReadMatches(sheet, S, FALSE)
  IN  [outs |-> OutsOf(sheet, S, ScanPairs(rm.ms)), amb |-> rm.amb]

(* strand symmetry: the reverse-complemented read yields the same amplicons in reverse     *)
(* order, each with the direction flipped                                                   *)
FlipDir(d) == IF d = "forward" THEN "reverse" ELSE "forward"
Flip(outs) == [i \in 1..Len(outs) |-> [outs[Len(outs) + 1 - i] EXCEPT !.dir = FlipDir(@)]]

---------------------------------------------------------------------------
(* SAFETY, stated on an observed output record o (fields as above) of the read S: a sample  *)
(* is assigned only if the tags the record says were extracted identify it, and those tags, *)
(* the primer matches and the barcode really lie in the read as the sheet says:             *)
(*    tagF . spacer . fm . barcode . rc(rm) . spacer . rc(tagR)      (or its reverse        *)
(* complement), primer matches within the budgets.  Returns "ok" or the broken clause.      *)

OccursAt(S, p, x) == p >= 0 /\ p + Len(x) <= Len(S) /\ Sub0(S, p, p + Len(x)) = x

(* the amplicon text of record o with the spacers left open, as a tuple of <<offset, piece>> *)
Layout(mk, o) ==
  LET L1 == Len(o.ft) + (IF o.ft = <<>> THEN 0 ELSE mk.sf)
      L2 == L1 + Len(o.fm)
      L3 == L2 + Len(o.bc)
      L4 == L3 + Len(o.rm) + (IF o.rt = <<>> THEN 0 ELSE mk.sr)
  IN  [len |-> L4 + Len(o.rt),
       pcs |-> << <<0, o.ft>>, <<L1, o.fm>>, <<L2, o.bc>>, <<L3, RC(o.rm)>>, <<L4, RC(o.rt)>> >>]

LiesIn(S, mk, o) ==
  LET ly == Layout(mk, o)
      T  == IF o.dir = "forward" THEN S ELSE RC(S)
  IN  \E p \in 0..(Len(T) - ly.len) : \A i \in DOMAIN ly.pcs : OccursAt(T, p + ly.pcs[i][1], ly.pcs[i][2])

WithinBudget(mk, o) ==
  IF mk.indel
  THEN EdSpan(mk.fP, o.fm, 0, Len(o.fm)) = o.fe /\ o.fe <= mk.ef /\ EdSpan(mk.rP, o.rm, 0, Len(o.rm)) = o.re /\ o.re <= mk.er
  ELSE /\ Len(o.fm) = Len(mk.fP) /\ MismFull(mk.fP, o.fm, 0) = o.fe /\ o.fe <= mk.ef
       /\ Len(o.rm) = Len(mk.rP) /\ MismFull(mk.rP, o.rm, 0) = o.re /\ o.re <= mk.er

(* fixed = TRUE: tags are cut at fixed offsets (no tag delimiter), their place in the read is checked too *)
SafetyVerdict(sheet, S, o, fixed) ==
  IF o.mk \notin DOMAIN sheet THEN "marker"
  ELSE LET mk == sheet[o.mk] IN
       IF o.smp = "" THEN (IF o.err = 1 THEN "ok" ELSE "unflagged")
       ELSE IF o.err # 0 THEN "flagged-but-assigned"
       ELSE IF Identify(mk, o.ft, o.rt) # o.smp THEN "identify"
       ELSE IF ~WithinBudget(mk, o) THEN "budget"
       ELSE IF fixed /\ (Len(o.ft) # mk.lf \/ Len(o.rt) # mk.lr) THEN "taglength"
       ELSE IF fixed /\ ~LiesIn(S, mk, o) THEN "layout"
       ELSE "ok"
=============================================================================

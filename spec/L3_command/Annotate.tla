------------------------------ MODULE Annotate ------------------------------
(***************************************************************************)
(* obiannotate: the record written for each input record, as a function of *)
(* the requested edits.  An edit is a record [fam, n, m, key, re]:         *)
(*   "clear"                 --clear            remove every attribute     *)
(*   "setid"  re = EXPR      --set-identifier   id := EXPR                 *)
(*   "del"    key            --delete-tag KEY   remove attribute KEY       *)
(*   "keep"   key            -k KEY             keep only the -k keys      *)
(*   "ren"    key=NEW re=OLD -R NEW=OLD         rename OLD to NEW if there *)
(*   "length"                --length           seq_length := |seq|        *)
(*   "set"    key re = EXPR  -S KEY=EXPR        KEY := EXPR                *)
(*   "cut"    n=FROM m=TO    --cut FROM:TO      keep bases FROM..TO        *)
(* The edits are applied in the fixed order of CLIAnnotationWorker         *)
(*   clear, setid, del, keep, ren, length, set, cut                        *)
(* and EVERY occurrence of a repeatable option (del keep ren set) counts.  *)
(* Nothing else changes (theorems Frame* of OptCases).                     *)
(*                                                                         *)
(* --cut FROM:TO uses 1-based inclusive positions; a negative position is  *)
(* counted from the end of the sequence (len + p + 1, as implemented: the  *)
(* option is not documented); the window is clamped to the sequence; a     *)
(* record whose window is empty is discarded with a warning.  The record   *)
(* cut to [f+1..t] is renamed "<id>_sub[f+1..t]" (BioSequence.Subsequence) *)
(* and each record is cut as if it were alone in the file.                 *)
(***************************************************************************)
EXTENDS OptData

Edit(fam, n, m, key, re) == [fam |-> fam, n |-> n, m |-> m, key |-> key, re |-> re]

AnnotFams  == {"clear", "setid", "del", "keep", "ren", "length", "set", "cut"}
SingleEdit == {"clear", "setid", "length", "cut"}

Of(E, fam) == {e \in E : e.fam = fam}
KeysOf(E, fam) == {e.key : e \in Of(E, fam)}

WellFormedEdit(e) ==
  /\ e.fam \in AnnotFams
  /\ e.fam = "setid" => e.re \in KnownIdExpr
  /\ e.fam = "set" => e.re \in KnownExpr
  /\ e.fam = "cut" => e.n # 0 /\ e.m # 0

(* a set of edits one command line can express and whose result does not depend on the       *)
(* (unspecified) order in which the occurrences of one repeatable option are applied:         *)
(* -R and -S are maps keyed by the new name; renames must not chain                           *)
Expressible(E) ==
  /\ \A x, y \in E : x # y =>
       /\ ~(x.fam = y.fam /\ x.fam \in SingleEdit)
       /\ ~(x.fam = y.fam /\ x.fam \in {"ren", "set"} /\ x.key = y.key)
       /\ (x.fam = "ren" /\ y.fam = "ren") => {x.key, x.re} \cap {y.key, y.re} = {}
  /\ \A x \in Of(E, "ren") : x.key # x.re

---------------------------------------------------------------------------
(* the individual steps: record -> record *)
DoClear(r) == [r EXCEPT !.attrs = NoAttrs]
DoSetId(r, e) == [r EXCEPT !.id = IdExpr(e, r)]
DoDelete(r, K) == [r EXCEPT !.attrs = Without(r.attrs, K)]
DoKeep(r, K) == [r EXCEPT !.attrs = RestrictTo(r.attrs, K)]
DoRename(r, R) ==       \* R: set of "ren" edits
  LET app  == {e \in R : e.re \in DOMAIN r.attrs}          \* OLD missing: nothing happens
      olds == {e.re : e \in app}
      news == {e.key : e \in app}
      src(k) == (CHOOSE e \in app : e.key = k).re
  IN  [r EXCEPT !.attrs = [k \in ((DOMAIN r.attrs) \ olds) \cup news |->
                              IF k \in news THEN r.attrs[src(k)] ELSE r.attrs[k]]]
Put(r, k, v) == [r EXCEPT !.attrs = [x \in (DOMAIN r.attrs) \cup {k} |-> IF x = k THEN v ELSE r.attrs[x]]]
DoLength(r) == Put(r, "seq_length", IntVal(SLen(r)))
DoSet(r, S) ==          \* S: set of "set" edits; every expression is evaluated on r (they only read id and sequence)
  [r EXCEPT !.attrs = [k \in (DOMAIN r.attrs) \cup {e.key : e \in S} |->
                          IF \E e \in S : e.key = k THEN Expr((CHOOSE e \in S : e.key = k).re, r)
                          ELSE r.attrs[k]]]

(* 0-based half-open window [f, t) selected by --cut from:to on a sequence of length len *)
CutFrom(from, len) == Max2(0, IF from > 0 THEN from - 1 ELSE len + from + 1)
CutTo(to, len)     == Min2(len, IF to > 0 THEN to ELSE len + to + 1)
CutPossible(from, to, len) == CutFrom(from, len) < CutTo(to, len)
DoCut(r, from, to) ==
  LET f == CutFrom(from, SLen(r))
      t == CutTo(to, SLen(r))
  IN  [r EXCEPT !.id   = r.id \o "_sub[" \o ToString(f + 1) \o ".." \o ToString(t) \o "]",
                !.seq  = SubSeq(r.seq, f + 1, t),
                !.qual = SubSeq(r.qual, f + 1, t)]

(* everything but the cut and the -S edits: the record the -S expressions are evaluated on *)
PreSet(r, E) ==
  LET r1 == IF Of(E, "clear") # {} THEN DoClear(r) ELSE r
      r2 == IF Of(E, "setid") # {} THEN DoSetId(r1, (CHOOSE e \in Of(E, "setid") : TRUE).re) ELSE r1
      r3 == DoDelete(r2, KeysOf(E, "del"))
      r4 == IF Of(E, "keep") # {} THEN DoKeep(r3, KeysOf(E, "keep")) ELSE r3
      r5 == DoRename(r4, Of(E, "ren"))
      r6 == IF Of(E, "length") # {} THEN DoLength(r5) ELSE r5
  IN  r6
(* everything but the cut *)
EditAttrs(r, E) == DoSet(PreSet(r, E), Of(E, "set"))

TheCut(E) == CHOOSE e \in Of(E, "cut") : TRUE
(* is the record written at all *)
Survives(r, E) == /\ Of(E, "cut") = {} \/ CutPossible(TheCut(E).n, TheCut(E).m, SLen(r))
                  /\ \A e \in Of(E, "set") : Evaluable(e.re, PreSet(r, E))
(* the record written (meaningful when Survives) *)
Edited(r, E) ==
  LET a == EditAttrs(r, E) IN
  IF Of(E, "cut") = {} THEN a ELSE DoCut(a, TheCut(E).n, TheCut(E).m)

(* the output file for an input file *)
AnnotateOut(recs, E) ==
  LET kept == SelectSeq(recs, LAMBDA r : Survives(r, E))
  IN  [i \in 1..Len(kept) |-> Edited(kept[i], E)]
=============================================================================

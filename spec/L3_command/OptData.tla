------------------------------ MODULE OptData ------------------------------
(***************************************************************************)
(* Property C16 - common vocabulary of Grep / Annotate / Route.            *)
(*                                                                         *)
(* A sequence record is  [id, seq, qual, attrs]:                           *)
(*   id, seq, qual  strings (qual has the length of seq; it is only        *)
(*                  rendered when the data set is written as FASTQ);       *)
(*   attrs          a function  key -> tagged value.  A tagged value is a  *)
(*                  string "i:<decimal>" (integer) or "s:<text>" (string): *)
(*                  the text after the tag is what Go's fmt.Sprint prints, *)
(*                  i.e. what attribute patterns and classifiers see.      *)
(*   The definition of a record is its attribute "definition" (as in       *)
(*   pkg/obiseq), its count the integer attribute "count", 1 when absent.  *)
(*                                                                         *)
(* Regular expressions and expressions of the embedded language are NOT    *)
(* interpreted: the handful of them used by the check are atoms whose      *)
(* meaning is tabulated below (RE, Pred, Expr, IdExpr).                    *)
(***************************************************************************)
EXTENDS Integers, Sequences, FiniteSets, TLC, IOUtils

Txt(v)    == SubSeq(v, 3, Len(v))
IntOf(v)  == atoi(Txt(v))
IntVal(n) == "i:" \o ToString(n)
StrVal(s) == "s:" \o s

Has(r, k) == k \in DOMAIN r.attrs
Count(r)  == IF Has(r, "count") THEN IntOf(r.attrs["count"]) ELSE 1
Def(r)    == IF Has(r, "definition") THEN Txt(r.attrs["definition"]) ELSE ""
SLen(r)   == Len(r.seq)

Min2(a, b) == IF a < b THEN a ELSE b
Max2(a, b) == IF a > b THEN a ELSE b

(* restriction / override of attribute maps *)
RestrictTo(f, S) == [k \in (DOMAIN f) \cap S |-> f[k]]
Without(f, S)  == [k \in (DOMAIN f) \ S |-> f[k]]
NoAttrs        == [k \in {} |-> ""]

---------------------------------------------------------------------------
(* literal string tests: the meaning given to the tabulated regular expressions *)
HasSub(s, lit) == \E i \in 1..(Len(s) - Len(lit) + 1) : SubSeq(s, i, i + Len(lit) - 1) = lit
Prefix(s, lit)   == Len(s) >= Len(lit) /\ SubSeq(s, 1, Len(lit)) = lit
Suffix(s, lit)   == Len(s) >= Len(lit) /\ SubSeq(s, Len(s) - Len(lit) + 1, Len(s)) = lit

(* regular expression text |-> [k: kind, lit: literal, low: literal as seen by the      *)
(* case-insensitive sequence match (sequences are lower case)]                           *)
RE == [ x \in {} |-> [k |-> "", lit |-> "", low |-> ""] ]
   @@ ("ACGT"    :> [k |-> "contains", lit |-> "ACGT",   low |-> "acgt"])
   @@ ("^acg"    :> [k |-> "prefix",   lit |-> "acg",    low |-> "acg"])
   @@ ("g$"      :> [k |-> "suffix",   lit |-> "g",      low |-> "g"])
   @@ ("cat"     :> [k |-> "contains", lit |-> "cat",    low |-> "cat"])
   @@ ("record"  :> [k |-> "contains", lit |-> "record", low |-> "record"])
   @@ ("^Record" :> [k |-> "prefix",   lit |-> "Record", low |-> "record"])
   @@ ("^sA"     :> [k |-> "prefix",   lit |-> "sA",     low |-> "sa"])
   @@ ("_1"      :> [k |-> "contains", lit |-> "_1",     low |-> "_1"])
   @@ ("2$"      :> [k |-> "suffix",   lit |-> "2",      low |-> "2"])
   @@ ("^A$"     :> [k |-> "exact",    lit |-> "A",      low |-> "a"])
   @@ ("A"       :> [k |-> "contains", lit |-> "A",      low |-> "a"])
   @@ ("^5"      :> [k |-> "prefix",   lit |-> "5",      low |-> "5"])
   @@ ("x"       :> [k |-> "contains", lit |-> "x",      low |-> "x"])
   @@ ("5"       :> [k |-> "contains", lit |-> "5",      low |-> "5"])
KnownRE == DOMAIN RE

MatchLit(k, lit, s) ==
  CASE k = "contains" -> HasSub(s, lit)
    [] k = "prefix"   -> Prefix(s, lit)
    [] k = "suffix"   -> Suffix(s, lit)
    [] k = "exact"    -> s = lit
Match(re, s)     == MatchLit(RE[re].k, RE[re].lit, s)     \* case sensitive (-D -I -a)
MatchFold(re, s) == MatchLit(RE[re].k, RE[re].low, s)     \* case insensitive on a lower-case sequence (-s)

(* boolean expressions of the embedded language (obigrep -p) *)
KnownPred == {"sequence.Len() > 9", "sequence.Count() >= 5", "contains(annotations,\"sample\")",
              "sequence.Len() < 6 || sequence.Count() > 10"}
Pred(e, r) ==
  CASE e = "sequence.Len() > 9"                          -> SLen(r) > 9
    [] e = "sequence.Count() >= 5"                       -> Count(r) >= 5
    [] e = "contains(annotations,\"sample\")"            -> Has(r, "sample")
    [] e = "sequence.Len() < 6 || sequence.Count() > 10" -> SLen(r) < 6 \/ Count(r) > 10

(* value expressions (obiannotate -S KEY=EXPR): tagged value on the record being edited *)
KnownExpr == {"1", "7", "\"lit\"", "len(sequence)", "sequence.Id()", "annotations.sample"}
(* an expression that reads an attribute cannot be evaluated on a record that lacks it: the record is then    *)
(* not written at all (a warning is logged) - never written without the requested attribute                  *)
Evaluable(e, r) == e # "annotations.sample" \/ Has(r, "sample")
Expr(e, r) ==
  CASE e = "1"             -> IntVal(1)
    [] e = "annotations.sample" -> r.attrs["sample"]
    [] e = "7"             -> IntVal(7)
    [] e = "\"lit\""       -> StrVal("lit")
    [] e = "len(sequence)" -> IntVal(SLen(r))
    [] e = "sequence.Id()" -> StrVal(r.id)

(* identifier expressions (obiannotate --set-identifier EXPR) *)
KnownIdExpr == {"printf(\"%s_x\",sequence.Id())", "\"p_\" + sequence.Id()"}
IdExpr(e, r) ==
  CASE e = "printf(\"%s_x\",sequence.Id())" -> r.id \o "_x"
    [] e = "\"p_\" + sequence.Id()"         -> "p_" \o r.id

---------------------------------------------------------------------------
(* The curated data set: every length / count threshold used by the cases  *)
(* (9,10,11 - 1,2,4,5,6) has a record below, on and above it; records with *)
(* no attribute at all, with and without definition, keys present in some  *)
(* records only, a value that is a prefix of another ("A"/"AB", 5/50),     *)
(* pairs of values (well, plate) that differ but read the same once glued *)
(* with a separator ("A_1","2" / "A","1_2"; "A-1","2" / "A","1-2").        *)
Rec(id, seq, qual, attrs) == [id |-> id, seq |-> seq, qual |-> qual, attrs |-> attrs]

Data == <<
  Rec("sA_01", "acgtacgtac",           "ABCDEFGHIJ",
      [count |-> "i:1", sample |-> "s:A", definition |-> "s:first record"]),
  Rec("sA_02", "acgtacgtacgtacg",      "ABCDEFGHIJABCDE",
      [count |-> "i:50", sample |-> "s:B"]),
  Rec("sB_03", "acgta",                "JIHGF",
      NoAttrs),
  Rec("sB_04", "aaaaaaaaaaaa",         "AAAAAABBBBBB",
      [count |-> "i:5", definition |-> "s:def four", well |-> "s:A_1", plate |-> "s:2"]),
  Rec("sB_05", "ggcatgcat",            "CDECDECDE",
      [count |-> "i:4", sample |-> "s:AB", n |-> "i:7"]),
  Rec("sC_06", "ttgacgtacca",          "ABCDEFGHIJA",
      [count |-> "i:6", sample |-> "s:A", tag |-> "s:x", definition |-> "s:second record"]),
  Rec("sC_07", "a",                    "F",
      [sample |-> "s:B"]),
  Rec("sC_08", "acgtacgtacgtacgtacgt", "ABCDEFGHIJJIHGFEDCBA",
      [count |-> "i:2", n |-> "i:15", tag |-> "s:xy", well |-> "s:A", plate |-> "s:1_2"]),
  Rec("sA_09", "ccccccccgg",           "HHHHHHHHII",
      [count |-> "i:5", sample |-> "s:A", n |-> "i:5", definition |-> "s:Record nine"]),
  Rec("sB_10", "gattacagatt",          "ABABABABABA",
      [count |-> "i:1", tag |-> "s:y", well |-> "s:A-1", plate |-> "s:2"]),
  Rec("sA_11", "acgacgacg",            "GGGFFFEEE",
      [sample |-> "s:C", count |-> "i:10", well |-> "s:A", plate |-> "s:1-2"]),
  Rec("sC_12", "tgcatgcatg",           "ABCDEFGHIJ",
      [count |-> "i:5", sample |-> "s:B", n |-> "i:50", definition |-> "s:last"]) >>

NData == Len(Data)

(* the reverse file of the paired cases: the same records rotated by 5 ranks, ids "m..." *)
MateOf(i) == LET d == Data[((i + 4) % NData) + 1] IN [d EXCEPT !.id = "m" \o SubSeq(d.id, 2, Len(d.id))]
Mates == [i \in 1..NData |-> MateOf(i)]

(* CRC-32 (IEEE) of the sequences above as <<high 16 bits, low 16 bits>>: the hash classifier *)
(* of obidistribute is an opaque function of the sequence                                       *)
CRC == ("acgtacgtac" :> <<14886, 21395>>) @@ ("acgtacgtacgtacg" :> <<35593, 8100>>)
    @@ ("acgta" :> <<30621, 49556>>) @@ ("aaaaaaaaaaaa" :> <<63203, 2678>>)
    @@ ("ggcatgcat" :> <<46703, 51433>>) @@ ("ttgacgtacca" :> <<57358, 23063>>)
    @@ ("a" :> <<59575, 48707>>) @@ ("acgtacgtacgtacgtacgt" :> <<9428, 6360>>)
    @@ ("ccccccccgg" :> <<37396, 53026>>) @@ ("gattacagatt" :> <<23860, 21384>>)
    @@ ("acgacgacg" :> <<53948, 10026>>) @@ ("tgcatgcatg" :> <<5165, 5257>>)

(* reads of the obimultiplex scenarios: class of each read w.r.t. the sample sheet written by *)
(* the harness ("good": primers and a declared tag pair; "notag": primers, undeclared tags;    *)
(* "noprimer": nothing to find).  Sample assignment itself is property C12.  The second and    *)
(* third scenarios leave a single read, resp. no read, for the unidentified file.              *)
MuxSets == << << "good", "noprimer", "good", "notag", "noprimer", "good", "good", "notag", "good", "noprimer", "good" >>,
              << "good", "good", "good", "good", "notag", "good", "good" >>,
              << "good", "good", "good", "good" >>,
              << "noprimer", "notag" >> >>
=============================================================================

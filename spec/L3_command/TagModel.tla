------------------------------ MODULE TagModel ------------------------------
(***************************************************************************)
(* Property C15 - bounded model.  One behaviour per (query, reference set):*)
(* the step Pick chooses the references among structured neighbours of the *)
(* query (single and double edits, duplicates, extensions by a filler,     *)
(* unrelated sequences - the shapes of a reference database: near-         *)
(* duplicates, ties, unequal lengths), gives them taxa of a small          *)
(* taxonomy and evaluates the reference definitions of Tag.tla.            *)
(*                                                                         *)
(* TLC checks on every case                                                *)
(*   Lemma4Holds     the 4-mer lemma, query/reference and reference pairs  *)
(*   KernelFacts     D1Ref = distance when it is 0 or 1, else -1;          *)
(*                   distance >= difference of the lengths                 *)
(*   ScanLossless    the FindClosests-shaped scan answers Closest for      *)
(*                   EVERY candidate order the (unstable) sort may produce *)
(*   ScanPruneSound  when it breaks, nothing left is as close as the best  *)
(*   IndexLossless   the IndexSequence-shaped scan builds RefIndex         *)
(*   IndexClauses    RefIndex satisfies the two clauses asked of the real  *)
(*                   index, and the two ways of writing the LCA agree      *)
(*   AssignedCovers  the assigned taxon is an ancestor-or-self of the      *)
(*                   taxon of every best reference                         *)
(* With Fixed = TRUE (pruning as repaired: threshold of the search from    *)
(* the query length alone, index scan skipping a candidate) all hold.      *)
(* With Fixed = FALSE (threshold from the length of the current best,      *)
(* index scan stopping at a candidate - as the code was written) TLC finds *)
(* the counter-example class of the property's rationale: ScanLossless and *)
(* IndexLossless are violated (the aswritten cfg files).                 *)
(* Export writes one case per state for the replay on the real code; the   *)
(* field cls tells whether the as-written scans lose something on it.      *)
(***************************************************************************)
EXTENDS Tag, TLC, Json, CSV, IOUtils

CONSTANTS Fixed,      \* TRUE: pruning as repaired (sound); FALSE: as the code was written
          Suites      \* set of records [name, queries, alpha, families, nrefs, fillers]:
                      \*   queries  : set of queries
                      \*   alpha    : letters used by the edits
                      \*   families : subset of {"same","sub","del","ins","sub2","endins2","ext","far"}
                      \*   nrefs    : sizes of the reference sets, within {1, 2, 3}
                      \*   fillers  : sequences used to extend the query and as unrelated references
                      \*   pats     : taxa patterns tried for each reference set (numbers in Patterns; 0 = one, picked by a hash)

VARIABLES su, q, refs, pat, info, done
vars == <<su, q, refs, pat, info, done>>

-----------------------------------------------------------------------------
(* queries and fillers (cfg files cannot hold tuples) *)
Q7 == { <<"a","c","c","a","a","c","a">>, <<"a","a","a","a","a","a","a">>, <<"a","c","a","c","a","c","a">>,
        <<"a","c","g","t","a","c","g">>, <<"g","a","t","t","a","c","a">>, <<"c","c","a","a","c","c","a">> }
Q78 == Q7 \cup { <<"a","c","g","t","t","g","c","a">>, <<"a","a","c","c","a","a","c","c">>,
                 <<"t","c","a","g","g","a">>, <<"a","c","a","a","c">> }
Q10 == { <<"a","c","c","a","a","c","a","c","c","a">>, <<"a","c","g","t","a","c","g","t","a","c">>,
         <<"a","a","a","a","a","c","a","a","a","a">> }
Q5  == { <<"a","c","c","a","c">>, <<"a","c","g","t","a">>, <<"a","a","a","a","a">> }
AllAC(n) == [1..n -> {"a", "c"}]
QAC7 == AllAC(7)
F9  == { <<"g","g","t","g","t","t","g","g","t">> }
F10 == { <<"g","g","t","g","t","t","g","g","t","g">>, <<"t","t","g","t","g","g","t","t","g","t">> }
F3  == { <<"g","t","g">> }
AC   == {"a", "c"}
ACGT == {"a", "c", "g", "t"}

(* suites: "near" = single edits, ties and unequal lengths around 7 (the counter-example class of FindClosests *)
(* needs a best reference of 8 for a query of 7); "idx" = a short reference, its double substitutions and its   *)
(* extension by a filler (the counter-example class of IndexSequence needs a candidate 9 longer than the       *)
(* indexed reference); "two" = ties at distance 2 around 10.                                                   *)
Near1 == {"same", "sub", "del", "ins", "ext", "far"}
QNearQuick == { <<"a","c","a","c","a","c","a">>, <<"a","c","g","t","a","c","g">>, <<"a","a","c","c","a","a","c","c">>,
                <<"a","c","a","a","c">> }
SuiteNear(qs, al, nr) == [name |-> IF al = AC THEN "near" ELSE "near4", queries |-> qs, alpha |-> al, families |-> Near1, nrefs |-> nr, fillers |-> F3, pats |-> {0}]
SuiteIdx(qs, al)      == [name |-> "idx", queries |-> qs, alpha |-> al, families |-> {"same", "sub", "sub2", "ext"},
                          nrefs |-> {3}, fillers |-> F10, pats |-> {0, 3, 9, 11}]
SuiteTwo(qs, al)      == [name |-> "two", queries |-> qs, alpha |-> al, families |-> {"same", "sub", "sub2", "endins2"},
                          nrefs |-> {2}, fillers |-> {}, pats |-> {0}]
SuiteIdxSmall  == [name |-> "idx", queries |-> {<<"a","c","c","a","c">>}, alpha |-> AC, families |-> {"same", "sub2", "ext"},
                   nrefs |-> {3}, fillers |-> F9, pats |-> {3, 9, 11, 13}]
QuickSuites    == {SuiteNear(QNearQuick, AC, {1, 2}), SuiteIdxSmall}
ThoroughSuites == {SuiteNear(Q78, AC, {1, 2, 3}), SuiteNear(Q7, ACGT, {2}), SuiteIdx(Q5, AC), SuiteTwo(Q10, AC)}
ScanSuites     == {SuiteNear(Q78, AC, {2})}
IndexSuites    == {SuiteIdx(Q5, AC)}

-----------------------------------------------------------------------------
(* the candidate references of a query *)
Subs(s, A) == {[s EXCEPT ![p] = x] : p \in 1..Len(s), x \in A} \ {s}
Dels(s) == {DropAt(s, p) : p \in 1..Len(s)}
Inss(s, A) == {InsertAt(s, p, x) : p \in 1..(Len(s) + 1), x \in A}
Subs2(s, A) == (UNION {Subs(t, A) : t \in Subs(s, A)}) \ ({s} \cup Subs(s, A))
EndIns2(s, A) == {s \o <<x, y>> : x \in A, y \in A} \cup {<<x, y>> \o s : x \in A, y \in A}
Ext(s, F)  == {s \o f : f \in F} \cup {f \o s : f \in F}

Cands(s, u) ==
  LET Fam(f) == f \in u.families IN
  (IF Fam("same") THEN {s} ELSE {}) \cup (IF Fam("sub") THEN Subs(s, u.alpha) ELSE {})
  \cup (IF Fam("del") THEN Dels(s) ELSE {}) \cup (IF Fam("ins") THEN Inss(s, u.alpha) ELSE {})
  \cup (IF Fam("sub2") THEN Subs2(s, u.alpha) ELSE {}) \cup (IF Fam("endins2") THEN EndIns2(s, u.alpha) ELSE {})
  \cup (IF Fam("ext") THEN Ext(s, u.fillers) ELSE {}) \cup (IF Fam("far") THEN u.fillers ELSE {})

-----------------------------------------------------------------------------
(* the taxonomy of the model and the taxa given to the references *)
T6 == [parent |-> <<1, 1, 2, 2, 1, 3>>]        \* 1 root; 2 under 1; 3, 4 under 2; 5 under 1; 6 under 3
Patterns == << <<6, 6, 6>>, <<6, 3, 4>>, <<6, 4, 5>>, <<3, 6, 5>>, <<4, 5, 6>>, <<2, 6, 4>>, <<5, 5, 1>>,
               <<6, 4, 4>>, <<4, 6, 6>>, <<5, 6, 3>>, <<6, 6, 4>>, <<4, 4, 6>>, <<6, 5, 6>>, <<3, 3, 6>> >>
Weight(s) == SumSeq([p \in 1..Len(s) |-> (Code(s[p]) + 1) * p])
Hash(rs)  == SumSeq([i \in 1..Len(rs) |-> Weight(rs[i]) + 7 * i * Len(rs[i])])
TaxaFor(rs, pn) == LET pt == Patterns[IF pn = 0 THEN (Hash(rs) % Len(Patterns)) + 1 ELSE pn] IN [i \in 1..Len(rs) |-> pt[i]]

-----------------------------------------------------------------------------
Nothing == [pv |-> <<>>]

Init == su \in Suites /\ q \in su.queries /\ refs = <<>> /\ pat = 0 /\ info = Nothing /\ done = FALSE

(* everything the invariants and the export need, evaluated once *)
Eval(qq, rs, pn) ==
  LET n    == Len(rs)
      pv   == PairVec(qq, rs)
      dv   == ErrVec(pv)
      ct   == [i \in 1..n |-> Count4Mer(rs[i])]
      cq   == Count4Mer(qq)
      cw   == [i \in 1..n |-> Common4Mer(cq, ct[i])]
      up   == [k \in 1..n |-> [i \in 1..n |-> IF i > k THEN Dist(rs[k], rs[i]) ELSE 0]]
      dm   == [k \in 1..n |-> [i \in 1..n |-> IF i > k THEN up[k][i] ELSE IF i < k THEN up[i][k] ELSE 0]]
      cm   == [k \in 1..n |-> [i \in 1..n |-> Common4Mer(ct[k], ct[i])]]
      taxa == TaxaFor(rs, pn)
      cl   == ClosestOf(dv)
      idx  == [k \in 1..n |-> RefIndex(T6, taxa, dm[k], Len(rs[k]))]
  IN [pv |-> pv, dv |-> dv, cw |-> cw, dm |-> dm, cm |-> cm, taxa |-> taxa, cl |-> cl, idx |-> idx,
      assigned |-> Assigned(T6, rs, taxa, pv, dm)]

PickRefs(cs) ==
  LET m == Len(cs) IN
  \/ 1 \in su.nrefs /\ \E i \in 1..m : refs' = <<cs[i]>>
  \/ 2 \in su.nrefs /\ \E i \in 1..m : \E j \in i..m : refs' = <<cs[i], cs[j]>>           \* i = j: a duplicate
  \/ 3 \in su.nrefs /\ \E i \in 1..m : \E j \in (i + 1)..m : \E k \in j..m : refs' = <<cs[i], cs[j], cs[k]>>

(* two steps, so that the evaluations are spread over TLC's workers: Pick only chooses *)
Pick == /\ ~done /\ refs = <<>>
        /\ PickRefs(SetToSeq(Cands(q, su)))
        /\ pat' \in su.pats
        /\ UNCHANGED <<su, q, info, done>>

Compute == /\ ~done /\ refs # <<>>
           /\ info' = Eval(q, refs, pat)
           /\ done' = TRUE
           /\ UNCHANGED <<su, q, refs, pat>>

Next == Pick \/ Compute
Spec == Init /\ [][Next]_vars

-----------------------------------------------------------------------------
(* theorems *)
N == Len(refs)

Lemma4Holds ==
  done => /\ \A i \in 1..N : info.cw[i] >= MaxI(Len(q), Len(refs[i])) - 3 - 4 * info.dv[i]
          /\ \A i \in 1..N : \A e \in 0..3 : info.dv[i] <= e => info.cw[i] >= Len(q) - 3 - 4 * e
          /\ \A k \in 1..N : \A i \in 1..N :
                info.cm[k][i] >= MaxI(Len(refs[k]), Len(refs[i])) - 3 - 4 * info.dm[k][i]

D1Agrees(a, b, d) == D1Ref(a, b) = (IF d <= 1 THEN d ELSE -1)
KernelFacts ==
  done => /\ \A i \in 1..N : D1Agrees(q, refs[i], info.dv[i]) /\ info.dv[i] >= LenDiff(q, refs[i])
          /\ \A k \in 1..N : \A i \in 1..N : D1Agrees(refs[k], refs[i], info.dm[k][i])
          /\ \A k \in 1..N : info.dm[k][k] = Dist(refs[k], refs[k])

ScanOf(order, fx) == PrefilterScan(q, refs, info.pv, info.cw, order, fx)

ScanLossless == done => \A o \in Orders(info.cw) : ScanAnswer(ScanOf(o, Fixed)) = info.cl

ScanPruneSound ==
  done => \A o \in Orders(info.cw) :
            LET s == ScanOf(o, Fixed) IN
            /\ s.maxe = LeastOf({info.dv[i] : i \in s.seen})              \* whatever the pruning
            /\ s.best = {i \in s.seen : info.dv[i] = s.maxe}
            /\ \A i \in (1..N) \ s.seen : info.dv[i] > s.maxe             \* this one needs Lemma4Query

IndexOf(k, order, fx) == IndexScan(T6, refs, info.taxa, k, info.dm[k], info.cm[k], order, fx)

IndexLossless == done => \A k \in 1..N : \A o \in Orders(info.cm[k]) : IndexOf(k, o, Fixed) = info.idx[k]

IndexClauses ==
  done => \A k \in 1..N :
            /\ EntriesOK(info.idx[k], T6, info.taxa, info.dm[k])
            /\ LookupOK(info.idx[k], T6, info.taxa, info.dm[k], Len(refs[k]))
            /\ 0 \in DOMAIN info.idx[k] /\ info.idx[k][0] \in TX!Anc(T6, info.taxa[k])
            /\ \A d \in Dists(info.dm[k]) :
                 LcaWithin(T6, info.taxa, info.dm[k], d) = LcaWithinRef(T6, info.taxa, info.dm[k], d)

AssignedCovers == done => CoversBest(T6, info.taxa, info.cl.best, info.assigned)

TypeOK == done => /\ N \in su.nrefs /\ info.cl.best # {} /\ info.cl.best \subseteq 1..N /\ info.cl.d >= 0

-----------------------------------------------------------------------------
(* export *)
SeqOfSet(A) == Sorted(A)

(* does an as-written scan lose something on this case, for some order of tied candidates? *)
ScanLoses  == \E o \in Orders(info.cw) : ScanAnswer(ScanOf(o, FALSE)) # info.cl
IndexLoses == \E k \in 1..N : \E o \in Orders(info.cm[k]) : IndexOf(k, o, FALSE) # info.idx[k]

Cls == (IF ScanLoses THEN "scanloss" ELSE "scanok") \o "/" \o (IF IndexLoses THEN "idxloss" ELSE "idxok")
       \o "/" \o (IF Cardinality(info.cl.best) > 1 THEN "tie" ELSE "single")

IdxPairs(ix) == LET ks == SeqOfSet(DOMAIN ix) IN [j \in 1..Len(ks) |-> <<ks[j], ix[ks[j]]>>]

(* LcaWithin for d = 0 .. the largest distance (or len - 1 if larger): what any recorded key must map to *)
LcawVec(k) ==
  LET top == MaxI(Len(refs[k]) - 1, MostOf(Dists(info.dm[k])))
  IN [e \in 1..(top + 1) |-> LcaWithin(T6, info.taxa, info.dm[k], e - 1)]

Case ==
  [q |-> q, refs |-> refs, taxa |-> info.taxa, parent |-> T6.parent,
   d |-> info.cl.d, best |-> SeqOfSet(info.cl.best), pairs |-> info.pv, cw |-> info.cw,
   idx |-> [k \in 1..N |-> IdxPairs(info.idx[k])],
   lcaw |-> [k \in 1..N |-> LcawVec(k)],
   assigned |-> info.assigned,
   cover |-> SeqOfSet({x \in TX!Node(T6) : CoversBest(T6, info.taxa, info.cl.best, x)}),
   cls |-> Cls, suite |-> su.name]

Export == done => CSVWrite("%1$s", <<ToJson(Case)>>, IOEnv.VERIF_CASES)
=============================================================================

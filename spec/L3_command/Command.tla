------------------------------ MODULE Command ------------------------------
(***************************************************************************)
(* L3 - a record-wise command as the composition of the layers below:      *)
(*                                                                         *)
(*   files --Chunker/parsers (L2)--> stream of batches                     *)
(*         --multi-file reader: streams concatenated in command-line order *)
(*         --per-record stage on a worker pool + SortBatches/Rebatch (L1)  *)
(*         --writer (L2) or a reduction (obicount, obisummary)             *)
(*                                                                         *)
(* Each layer's GUARANTEE is the next layer's ASSUMPTION:                  *)
(*   Chunker:  chunks are whole records, numbered 0..k-1   (Chunker.tla)   *)
(*   reader :  batches satisfy the order contract          (StreamOps)     *)
(*   stage  :  Pipeline.Confluence - the delivered stream is               *)
(*             FilterOut(input, keep, size) whatever the schedule          *)
(*   writer :  Writer.FinalOutput - the bytes are Expected(fmt, stream)    *)
(* so the observable behaviour of the command is a FUNCTION of (files,     *)
(* functional options), written here in closed form.  Records are          *)
(* integers, `len` and `count` give their length and abundance.            *)
(***************************************************************************)
EXTENDS StreamOps

(* records of the files, in command-line order (an empty file contributes nothing) *)
RECURSIVE CatFiles(_)
CatFiles(files) == IF files = <<>> THEN <<>> ELSE Head(files) \o CatFiles(Tail(files))

(* stdout of a selecting command (obiconvert: keep = everything; obigrep -l L: len >= L; obiannotate: everything) *)
Stdout(files, Keep(_)) == SelectSeq(CatFiles(files), Keep)

(* the same through the layers: any batching of the reader, any batch size of the re-cutting stage *)
ThroughLayers(files, Keep(_), readerBatch, size) ==
  LET inp == Chop(CatFiles(files), readerBatch)                 \* what the reader delivers, as batches
      kept == {r \in {CatFiles(files)[i] : i \in 1..Len(CatFiles(files))} : Keep(r)}
  IN Records(FilterOut(inp, kept, size))

(* composition theorem (checked by TLC on bounded instances in CommandMC) *)
Composes(files, Keep(_), readerBatch, size) ==
  ThroughLayers(files, Keep, readerBatch, size) = Stdout(files, Keep)

(* reductions: obicount / obisummary totals are conservation laws over the selected records *)
RECURSIVE SumOver(_, _)
SumOver(s, f) == IF s = <<>> THEN 0 ELSE f[Head(s)] + SumOver(Tail(s), f)
Totals(files, len, count) ==
  LET rs == CatFiles(files) IN
  [variants |-> Len(rs), reads |-> SumOver(rs, count), symbols |-> SumOver(rs, len)]

(* exit status: 0 iff no layer met a fault (ReaderFault / WriterFault give the per-layer conditions) *)
ExitStatus(readerFault, writerFault) == IF readerFault \/ writerFault THEN "nonzero" ELSE "zero"
=============================================================================

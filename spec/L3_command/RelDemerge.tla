----------------------------- MODULE RelDemerge -----------------------------
(***************************************************************************)
(* obidemerge -d k (extension check X01, part b): the inverse of the       *)
(* dereplication statistic merged_k, with its FRAME: what the command must *)
(* leave alone.  spec/L3_command/Uniq.tla states Demerge on the abstract   *)
(* records of obiuniq (sequence, categories, count, weight vector); here   *)
(* the record is the whole record a user sees,                             *)
(*                                                                         *)
(*   [id, seq, qual, count, ann, stats]                                    *)
(*                                                                         *)
(* count = 0 stands for "no count attribute" (such a record counts for 1), *)
(* ann are the scalar annotations (tagged values "t:text"), stats the      *)
(* merged_<key> slots: key -> (value -> weight > 0).  Theorem RefinesUniq  *)
(* (RelDemergeMC) ties the two: projected on Uniq's records this Demerge   *)
(* is Uniq!DemergeOne, so the laws checked there (demerge then dereplicate *)
(* again = identity) carry over.                                           *)
(*                                                                         *)
(*   - a record carrying merged_k with values v1..vn (n >= 1) is replaced  *)
(*     by n records, one per value: attribute k = the value (a string, the *)
(*     NA marker included), count = the weight of that value, merged_k     *)
(*     removed, everything else (identifier, nucleotides, qualities, other *)
(*     annotations, other merged_* slots) as in the original - a former    *)
(*     attribute k is overwritten;                                         *)
(*   - hence the counts of the n records add up to the total of the map,   *)
(*     which is the count of the original whenever the statistic is        *)
(*     consistent (what obiuniq writes);                                   *)
(*   - a record without merged_k is output once, untouched, whatever else  *)
(*     it carries; without -d nothing is touched at all;                   *)
(*   - groups follow the input order, the order inside a group is free.    *)
(* An EMPTY merged_k map is outside the statement ("one record per value"  *)
(* and "nothing is lost" contradict each other there; the code drops the   *)
(* record).                                                                *)
(***************************************************************************)
EXTENDS Integers, Sequences, FiniteSets, SequencesExt, TLC

EffCount(r) == IF r.count = 0 THEN 1 ELSE r.count

HasStat(r, k) == k \in DOMAIN r.stats
InScope(r, k) == HasStat(r, k) => DOMAIN r.stats[k] # {}

RECURSIVE SumOver(_, _)
SumOver(f, S) == IF S = {} THEN 0 ELSE LET x == CHOOSE y \in S : TRUE IN f[x] + SumOver(f, S \ {x})
StatTotal(r, k) == SumOver(r.stats[k], DOMAIN r.stats[k])
Consistent(r, k) == HasStat(r, k) => StatTotal(r, k) = EffCount(r)

Without(f, k) == [x \in DOMAIN f \ {k} |-> f[x]]

(* the record made for value v of merged_k *)
Piece(r, k, v) == [id |-> r.id, seq |-> r.seq, qual |-> r.qual,
                   count |-> r.stats[k][v],
                   ann   |-> (k :> ("s:" \o v)) @@ r.ann,
                   stats |-> Without(r.stats, k)]

(* THE DEFINITION.  k = "" : no -d option *)
Demerge(r, k) == IF k # "" /\ HasStat(r, k) THEN {Piece(r, k, v) : v \in DOMAIN r.stats[k]} ELSE {r}

(* a stream: the sequence of the groups (sets), in input order *)
Groups(rs, k) == [i \in DOMAIN rs |-> Demerge(rs[i], k)]

---------------------------------------------------------------------------
(* acceptance of an observed output stream: cut into consecutive groups of the expected sizes, *)
(* each compared as a set (the pieces of a record differ by their value of k)                  *)
Range1(s) == {s[i] : i \in DOMAIN s}
StreamVerdict(got, rs, k) ==
  LET G     == Groups(rs, k)
      ranks == [i \in DOMAIN rs |-> i]
      total == FoldLeft(LAMBDA a, i : a + Cardinality(G[i]), 0, ranks)
      cmp(part, g) ==
        IF Range1(part) = g THEN "ok"
        ELSE IF {[id |-> o.id, seq |-> o.seq, qual |-> o.qual] : o \in Range1(part)} # {[id |-> o.id, seq |-> o.seq, qual |-> o.qual] : o \in g} THEN "record"
        ELSE IF Cardinality(g) = 1 /\ (CHOOSE o \in g : TRUE) \in {rs[i] : i \in DOMAIN rs} THEN "untouched"
        ELSE IF {o.ann : o \in Range1(part)} # {o.ann : o \in g} \/ {o.stats : o \in Range1(part)} # {o.stats : o \in g} THEN "attributes"
        ELSE "counts"
  IN  IF total # Len(got) THEN "multiplicity"
      ELSE FoldLeft(LAMBDA st, i :
                      IF st[2] # "ok" THEN st
                      ELSE <<st[1] + Cardinality(G[i]), cmp(SubSeq(got, st[1] + 1, st[1] + Cardinality(G[i])), G[i])>>,
                    <<0, "ok">>, ranks)[2]
=============================================================================

-------------------------------- MODULE Grep --------------------------------
(***************************************************************************)
(* obigrep: which records are selected by a set of command-line criteria.  *)
(*                                                                         *)
(* A criterion is a record [fam, n, m, key, re] (m unused, always 0):      *)
(*   fam "l" / "L"   minimum / maximum sequence length n  (-l -L)          *)
(*   fam "c" / "C"   minimum / maximum count n            (-c -C)          *)
(*   fam "s" "D" "I" regular expression re on the sequence (case           *)
(*                   insensitive), the definition, the identifier          *)
(*   fam "a"         regular expression re on attribute key (-a key=re)    *)
(*   fam "A"         attribute key must be present (-A key)                *)
(*   fam "idlist"    the identifier belongs to the --id-list file          *)
(*   fam "p"         boolean expression re (-p)                            *)
(* An option set is  O = [crit: set of criteria, v: BOOLEAN (-v),          *)
(* ids: the content of the id-list file].                                  *)
(*                                                                         *)
(*   Sel(r, O)  ==  every requested criterion holds on r                   *)
(*   Keep(r, O) ==  Sel(r, O), inverted by -v                              *)
(* With a paired file the verdicts of the two mates are combined by the    *)
(* --paired-mode truth table and -v keeps exactly the other pairs.         *)
(***************************************************************************)
EXTENDS OptData

Crit(fam, n, key, re) == [fam |-> fam, n |-> n, m |-> 0, key |-> key, re |-> re]

Holds(c, r, ids) ==
  CASE c.fam = "l"      -> SLen(r) >= c.n
    [] c.fam = "L"      -> SLen(r) <= c.n
    [] c.fam = "c"      -> Count(r) >= c.n
    [] c.fam = "C"      -> Count(r) <= c.n
    [] c.fam = "s"      -> MatchFold(c.re, r.seq)
    [] c.fam = "D"      -> Match(c.re, Def(r))
    [] c.fam = "I"      -> Match(c.re, r.id)
    [] c.fam = "a"      -> Has(r, c.key) /\ Match(c.re, Txt(r.attrs[c.key]))
    [] c.fam = "A"      -> Has(r, c.key)
    [] c.fam = "idlist" -> r.id \in ids
    [] c.fam = "p"      -> Pred(c.re, r)

GrepFams == {"l", "L", "c", "C", "s", "D", "I", "a", "A", "idlist", "p"}
(* families that may be given once only (the last occurrence wins on a command line) *)
SingleFams == {"l", "L", "c", "C", "idlist"}

WellFormedCrit(c) ==
  /\ c.fam \in GrepFams
  /\ c.fam \in {"s", "D", "I", "a"} => c.re \in KnownRE
  /\ c.fam = "p" => c.re \in KnownPred
  /\ c.fam \in {"L", "C"} => c.n >= 1
  /\ c.fam \in {"l", "c"} => c.n >= 2     \* -l 1 and -c 1 are the default values: "not requested" for the code

(* a set of criteria one command line can express *)
Compatible(S) ==
  \A x, y \in S : x # y =>
     /\ ~(x.fam = y.fam /\ x.fam \in SingleFams)
     /\ ~(x.fam = "a" /\ y.fam = "a" /\ x.key = y.key)     \* -a is a map: one pattern per key

Sel(r, O)  == \A c \in O.crit : Holds(c, r, O.ids)
Keep(r, O) == IF O.v THEN ~Sel(r, O) ELSE Sel(r, O)

Modes == {"forward", "reverse", "and", "or", "andnot", "xor"}
PairRule(mode, a, b) ==
  CASE mode = "forward" -> a
    [] mode = "reverse" -> b
    [] mode = "and"     -> a /\ b
    [] mode = "or"      -> a \/ b
    [] mode = "andnot"  -> a /\ ~b
    [] mode = "xor"     -> (a /\ ~b) \/ (b /\ ~a)
(* r is the forward read, m its mate *)
SelPair(r, m, O, mode)  == PairRule(mode, Sel(r, O), Sel(m, O))
KeepPair(r, m, O, mode) == IF O.v THEN ~SelPair(r, m, O, mode) ELSE SelPair(r, m, O, mode)

(* ranks (1-based) of the records kept from a file / a pair of files *)
KeptRanks(recs, O) == {i \in 1..Len(recs) : Keep(recs[i], O)}
KeptPairRanks(recs, mates, O, mode) == {i \in 1..Len(recs) : KeepPair(recs[i], mates[i], O, mode)}
=============================================================================

---------------------------- MODULE PairedCmdMC ----------------------------
(***************************************************************************)
(* Bounded model of extension X05 over the operators of PairedCmd.tla.     *)
(* One behaviour = one case: a tiny tagged amplicon of a tiny sample sheet *)
(* (one marker, three samples, strict tags), in either orientation, read   *)
(* from both ends (la bases forward, lb bases reverse).  The pair can only *)
(* be JOINED (--min-overlap above the read lengths: ali_length <= min(la,  *)
(* lb) whatever the kernel answers), so the expected output of obipairing  *)
(* and obitagpcr does not depend on the kernel:                            *)
(*    consensus = forward . 10 dots . rc(reverse), then Demux.tla.         *)
(* Theorems of the specification itself, checked on every case:            *)
(*   JoinThm     length and qualities of the joined record;                *)
(*   SwapThm     exchanging the forward and the reverse file gives the     *)
(*               reverse complement of the consensus, hence the same       *)
(*               outcome with the direction flipped;                       *)
(*   ReorientThm a pair assigned to a sample, re-oriented (swapped when    *)
(*               the direction is "reverse") and submitted again, is       *)
(*               assigned to the same sample in the forward direction.     *)
(* Every case is exported with its expected output (R step).               *)
(***************************************************************************)
EXTENDS PairedCmd, Json, CSV, IOUtils

CONSTANTS Lens      \* set of <<la, lb>> pairs - defined in the module (cfg files hold no tuples)

VARIABLES c, done, res
vars == <<c, done, res>>

FP == <<1, 2, 2, 1, 1, 3, 2, 1>>      \* cggcctgc
RP == <<1, 2, 0, 3, 2, 2, 1, 2>>      \* cgatggcg
TA == <<0, 0, 3, 0>>
TB == <<3, 0, 0, 0>>
TC == <<0, 3, 3, 3>>
TX == <<2, 2, 0, 2>>                  \* not declared
BC == <<3, 3, 0, 1, 2, 0>>
Tags == {TA, TB, TC, TX}

Samples == << [ft |-> TA, rt |-> TB, name |-> "s1"], [ft |-> TB, rt |-> TA, name |-> "s2"], [ft |-> TC, rt |-> TC, name |-> "s3"] >>
Sheet == << [fP |-> DX!AsPat(FP), rP |-> DX!AsPat(RP), ef |-> 0, er |-> 0, indel |-> FALSE, mode |-> "strict",
             sf |-> 0, sr |-> 0, lf |-> 4, lr |-> 4, smp |-> Samples] >>

Letter(x) == <<"a", "c", "g", "t", "n">>[x + 1]
Letters(s) == [i \in 1..Len(s) |-> Letter(s[i])]

LensQuick    == {<<14, 14>>, <<20, 13>>, <<8, 14>>, <<30, 30>>}
LensThorough == LensQuick \cup {<<12, 12>>, <<14, 8>>, <<25, 25>>, <<30, 14>>, <<11, 16>>}

Amp(ft, rt, ori) ==
  LET a == ft \o FP \o BC \o DX!RC(RP) \o DX!RC(rt) IN IF ori = 0 THEN a ELSE DX!RC(a)

Cases == {[ft |-> ft, rt |-> rt, ori |-> ori, la |-> ln[1], lb |-> ln[2], reorient |-> ro] :
            ft \in Tags, rt \in Tags, ori \in {0, 1}, ln \in Lens, ro \in {0, 1}}

X5Min(a, b) == IF a <= b THEN a ELSE b
ReadsOf(cs) ==
  LET amp == Amp(cs.ft, cs.rt, cs.ori)
      la  == X5Min(cs.la, Len(amp))
      lb  == X5Min(cs.lb, Len(amp))
  IN  [f |-> Letters(SubSeq(amp, 1, la)), r |-> Letters(SubSeq(DX!RC(amp), 1, lb)),
       qf |-> [i \in 1..la |-> 30], qr |-> [i \in 1..lb |-> 10 + i]]

Joined(f, r) == PE!JoinSeq(f, RevRead(r))

Compute(cs) ==
  LET rd == ReadsOf(cs)
      j  == Joined(rd.f, rd.r)
      T  == TagOutcome(Sheet, Codes(j))
      T2 == TagOutcome(Sheet, Codes(Joined(rd.r, rd.f)))
      sw == Swapped(T.kind, T.o.dir, TRUE)
      T3 == TagOutcome(Sheet, Codes(IF sw THEN Joined(rd.r, rd.f) ELSE j))
  IN  [rd |-> rd, j |-> j, jq |-> PE!JoinQual(rd.qf, RevQual(rd.qr)), T |-> T, T2 |-> T2, T3 |-> T3,
       dots |-> DotsTouchedAsA(Sheet, Codes(j), JoinDots(Len(rd.f)))]

NoRes == [none |-> TRUE]
Init == c \in Cases /\ done = FALSE /\ res = NoRes
Next == ~done /\ done' = TRUE /\ res' = Compute(c) /\ UNCHANGED c

JoinThm == done => /\ Len(res.j) = Len(res.rd.f) + 10 + Len(res.rd.r) /\ Len(res.jq) = Len(res.j)
                   /\ \A i \in 1..10 : res.j[Len(res.rd.f) + i] = "." /\ res.jq[Len(res.rd.f) + i] = 0
                   /\ res.jq[Len(res.j)] = res.rd.qr[1]
SwapThm == done => /\ Codes(Joined(res.rd.r, res.rd.f)) = DX!RC(Codes(res.j))
                   /\ (~res.T.amb /\ ~res.T2.amb /\ res.T.n <= 1) =>
                         /\ res.T2.kind = res.T.kind
                         /\ res.T.kind = "assigned" => /\ res.T2.o.smp = res.T.o.smp
                                                       /\ res.T2.o.dir = DX!FlipDir(res.T.o.dir)
                                                       /\ res.T2.o.ft = res.T.o.ft /\ res.T2.o.rt = res.T.o.rt
ReorientThm == (done /\ res.T.kind = "assigned" /\ ~res.T.amb /\ ~res.T3.amb) =>
                   res.T3.kind = "assigned" /\ res.T3.o.dir = "forward" /\ res.T3.o.smp = res.T.o.smp

EvSheet == [mode |-> "strict", indel |-> 0, delim |-> 0, delimc |-> "", tagind |-> 0, id |-> 1,
            markers |-> << [fwd |-> Letters(FP), rev |-> Letters(RP), ef |-> 0, er |-> 0, sf |-> 0, sr |-> 0, lf |-> 4, lr |-> 4,
                            samples |-> Samples] >>]

B2I(b) == IF b THEN 1 ELSE 0
Export ==
  done =>
    /\ CSVWrite("%1$s", <<ToJson([kind |-> "tagjoin", cls |-> "tagjoin", f |-> res.rd.f, r |-> res.rd.r, qf |-> res.rd.qf, qr |-> res.rd.qr,
                                  sheet |-> EvSheet, reorient |-> c.reorient, seq |-> res.j, qual |-> res.jq,
                                  tkind |-> res.T.kind, smp |-> res.T.o.smp, dir |-> res.T.o.dir, ft |-> res.T.o.ft, rt |-> res.T.o.rt,
                                  swap |-> B2I(Swapped(res.T.kind, res.T.o.dir, c.reorient = 1)), amb |-> B2I(res.T.amb \/ res.dots)])>>,
                IOEnv.VERIF_CASES)
    /\ (c.reorient = 0 =>
          CSVWrite("%1$s", <<ToJson([kind |-> "join", cls |-> "join", f |-> res.rd.f, r |-> res.rd.r, qf |-> res.rd.qf, qr |-> res.rd.qr,
                                     sheet |-> EvSheet, reorient |-> 0, seq |-> res.j, qual |-> res.jq,
                                     tkind |-> "", smp |-> "", dir |-> "", ft |-> <<>>, rt |-> <<>>, swap |-> 0, amb |-> 0])>>,
                   IOEnv.VERIF_CASES))
=============================================================================

------------------------------ MODULE Microsat ------------------------------
(***************************************************************************)
(* Extension X04, part (a): what obimicrosat must find and write.          *)
(*                                                                         *)
(* A sequence is a tuple of one-character strings (lower-case IUPAC).      *)
(* Positions are 1-based.  Options o = [m, M, N, L, f, re]:                *)
(*   m..M  allowed length of the unit         (--min-unit-length / --max-) *)
(*   N     least number of repeats, N >= 2    (--min-unit-count)           *)
(*   L     least total length                 (--min-length)               *)
(*   f     least length of each flank         (--min-flank-length)         *)
(*   re    re-orient the record               (default; -n switches off)   *)
(*                                                                         *)
(* Part 1  the declarative definition over strings: s has a microsatellite *)
(*         of unit length p, k repeats, at [a, a+kp) IFF ... ; the one     *)
(*         that is reported (leftmost, there the longest)                  *)
(* Part 2  the same by one right-to-left fold per unit length (linear:     *)
(*         what the trace specification evaluates on long sequences)       *)
(* Part 3  the unit: normalised form (smallest of all rotations on both    *)
(*         strands), orientation, and the annotated record                 *)
(* Part 4  the search AS WRITTEN in the code (two regular expressions of a *)
(*         backtracking engine and min_unit), and the exact class of       *)
(*         inputs on which it departs from Part 1                          *)
(* MicrosatMC.tla lets TLC check that the parts agree.                     *)
(***************************************************************************)
EXTENDS Integers, Sequences, FiniteSets, SequencesExt, Bio

---------------------------------------------------------------------------
(* Part 1 - definition *)

MsClear(x) == x \in Nucleotides                   \* a c g t only: any other symbol interrupts a repeat

(* s[i .. i+len-1] is made of a c g t and has period p *)
MsStretch(s, i, len, p) ==
  /\ i >= 1 /\ i + len - 1 <= Len(s)
  /\ \A j \in i..(i + len - 1) : MsClear(s[j])
  /\ \A j \in i..(i + len - 1 - p) : s[j] = s[j + p]

(* a word is primitive when it is not a shorter word repeated *)
MsPrimitive(w) ==
  \A d \in 1..(Len(w) - 1) : (Len(w) % d = 0) => \E j \in 1..(Len(w) - d) : w[j] # w[j + d]

(* THE DEFINITION.  s has a microsatellite (unit length p, k repeats) at position a iff               *)
(*   - the kp symbols from a are a c g t and are k copies of the p symbols at a,                      *)
(*   - that unit is primitive (so p is the smallest period: "acac" x 3 is "ac" x 6),                  *)
(*   - m <= p <= M, k >= N, kp >= L,                                                                  *)
(*   - k is as large as possible: no further whole copy of the unit follows.                          *)
(* What is left of a last, incomplete copy belongs to the right flank.                                *)
IsMicrosat(s, a, p, k, o) ==
  /\ p \in o.m..o.M /\ k >= o.N /\ k * p >= o.L /\ k >= 1
  /\ MsStretch(s, a, k * p, p)
  /\ MsPrimitive(SubSeq(s, a, a + p - 1))
  /\ ~MsStretch(s, a, (k + 1) * p, p)

MsAll(s, o) ==
  {t \in (1..Len(s)) \X (o.m..o.M) \X (1..Len(s)) : t[3] * t[2] <= Len(s) /\ IsMicrosat(s, t[1], t[2], t[3], o)}

(* the one that is reported: the leftmost; among those that start there the one with the longest unit *)
(* (theorem LongerUnitLonger: it is also the longest one).  <<>> when there is none.                 *)
MsPick(all) ==
  IF all = {} THEN <<>>
  ELSE CHOOSE t \in all : \A u \in all : t[1] < u[1] \/ (t[1] = u[1] /\ t[2] >= u[2])

MsFound(s, o) == MsPick(MsAll(s, o))

---------------------------------------------------------------------------
(* Part 2 - linear evaluation.  MsExtRow(s, p)[i] = length of the longest stretch of period p that    *)
(* starts at i (0 when s[i] is not a c g t), computed from the right:                                 *)
(*   e[i] = 0                 if s[i] is not clear                                                     *)
(*        = e[i+1] + 1        if e[i+1] < p  (nothing to compare yet)  or  s[i] = s[i+p]               *)
(*        = p                 otherwise                                                               *)
MsExtRow(s, p) ==
  LET n == Len(s)
      rev == FoldLeft(LAMBDA acc, kk :
                        LET i == n + 1 - kk
                            nxt == IF kk = 1 THEN 0 ELSE acc[kk - 1]
                            v == IF ~MsClear(s[i]) THEN 0
                                 ELSE IF nxt < p THEN nxt + 1
                                 ELSE IF s[i] = s[i + p] THEN nxt + 1
                                 ELSE p
                        IN Append(acc, v),
                      <<>>, [kk \in 1..n |-> kk])
  IN [i \in 1..n |-> rev[n + 1 - i]]

MsExtDef(s, p, i) ==          \* the same, by definition
  LET lens == {len \in 0..(Len(s) - i + 1) : MsStretch(s, i, len, p)} IN CHOOSE x \in lens : \A y \in lens : y <= x

MsRows(s, o) == [p \in o.m..o.M |-> MsExtRow(s, p)]

(* candidates of unit length p from the row: positions where N copies and L symbols fit, unit primitive *)
MsFoundFast(s, o) ==
  LET rows == MsRows(s, o)
      ok(a, p) == LET k == rows[p][a] \div p
                  IN k >= o.N /\ k * p >= o.L /\ k >= 1 /\ MsPrimitive(SubSeq(s, a, a + p - 1))
      starts == {a \in 1..Len(s) : \E p \in o.m..o.M : ok(a, p)}
  IN IF starts = {} THEN <<>>
     ELSE LET a == CHOOSE x \in starts : \A y \in starts : x <= y
              ps == {p \in o.m..o.M : ok(a, p)}
              p == CHOOSE x \in ps : \A y \in ps : y <= x
          IN <<a, p, rows[p][a] \div p>>

---------------------------------------------------------------------------
(* Part 3 - the unit and the annotated record *)

MsRot(u, i) == SubSeq(u, i + 1, Len(u)) \o SubSeq(u, 1, i)                 \* i in 0..Len(u)-1
MsRotations(u) == {MsRot(u, i) : i \in 0..(Len(u) - 1)}
MsRcRotations(u) == {RC(r) : r \in MsRotations(u)}
MsClass(u) == MsRotations(u) \cup MsRcRotations(u)

MsRank(x) == CASE x = "a" -> 0 [] x = "c" -> 1 [] x = "g" -> 2 [] x = "t" -> 3
MsLess(u, v) ==               \* strict alphabetical order on words of the same length
  \E i \in 1..Len(u) : MsRank(u[i]) < MsRank(v[i]) /\ \A j \in 1..(i - 1) : u[j] = v[j]

(* normalised unit: the alphabetically smallest of the rotations of the unit and of its reverse complement *)
MsNormalized(u) == LET c == MsClass(u) IN CHOOSE w \in c : \A v \in c : ~MsLess(v, w)

(* "direct": the normalised unit is a rotation of the unit as read; "reverse": of its reverse         *)
(* complement.  A unit whose class is its own reverse complement (at, cg, acgt, tcga ...) is both:    *)
(* either answer is accepted.                                                                         *)
MsOrients(u) ==
  (IF MsNormalized(u) \in MsRotations(u) THEN {"direct"} ELSE {})
  \cup (IF MsNormalized(u) \in MsRcRotations(u) THEN {"reverse"} ELSE {})

(* the record written for the microsatellite t = <<a, p, k>> of s when the orientation or is reported *)
MsAnnot(s, t, o, or) ==
  LET a == t[1]  p == t[2]  k == t[3]
      flip == (or = "reverse") /\ o.re
      seq2 == IF flip THEN RC(s) ELSE s
      from == IF flip THEN Len(s) - (a - 1) - k * p + 1 ELSE a
      to   == from + k * p - 1
  IN [ul |-> p, uc |-> k, slen |-> Len(s), from |-> from, to |-> to,
      ms |-> SubSeq(seq2, from, to),
      unit |-> SubSeq(seq2, from, from + p - 1),
      norm |-> MsNormalized(SubSeq(s, a, a + p - 1)),
      orient |-> or,
      left |-> SubSeq(seq2, 1, from - 1),
      right |-> SubSeq(seq2, to + 1, Len(s)),
      seq |-> seq2,
      cmp |-> IF flip THEN 1 ELSE 0]            \* 1: the identifier gets the suffix "_cmp"

(* the set of acceptable outputs for s: empty = the record is dropped *)
MsOutputsOf(s, t, o) ==
  IF t = <<>> THEN {}
  ELSE {r \in {MsAnnot(s, t, o, or) : or \in MsOrients(SubSeq(s, t[1], t[1] + t[2] - 1))} :
          Len(r.left) >= o.f /\ Len(r.right) >= o.f}

MsOutputs(s, o) == MsOutputsOf(s, MsFound(s, o), o)

---------------------------------------------------------------------------
(* Part 4 - the search as written (pkg/obitools/obimicrosat/microsat.go).                              *)
(* RxMatch: leftmost match of  ([acgt]{lo,hi})\1{N-1,}  by a backtracking engine: smallest start; there *)
(* the group is tried from its longest length down; the copies are taken greedily.  ext(p, a) is the    *)
(* length of the longest stretch of period p at a.                                                     *)
MsRxMatch(s, ext(_, _), lo, hi, N) ==
  LET ok(a, u) == ext(u, a) >= N * u
      starts == {a \in 1..Len(s) : \E u \in lo..hi : ok(a, u)}
  IN IF starts = {} THEN <<>>
     ELSE LET a == CHOOSE x \in starts : \A y \in starts : x <= y
              us == {u \in lo..hi : ok(a, u)}
              u == CHOOSE x \in us : \A y \in us : y <= x
          IN <<a, u, (ext(u, a) \div u) * u>>                  \* start, length of the group, length of the match

(* min_unit: smallest i in 1..len-1 with w[1..len-i] = w[i+1..len], 0 when there is none *)
MsMinUnit(w) ==
  LET n == Len(w)
      per == {i \in 1..(n - 1) : \A j \in 1..(n - i) : w[j] = w[j + i]}
  IN IF per = {} THEN 0 ELSE CHOOSE x \in per : \A y \in per : x <= y

(* the worker: <<a, p, k>>, <<>> (record dropped) or <<0, 0, 0>> (nil dereference: second search empty) *)
MsCodeFindWith(s, o, ext(_, _)) ==
  LET m1 == MsRxMatch(s, ext, o.m, o.M, o.N)
  IN IF m1 = <<>> THEN <<>>
     ELSE LET ul == MsMinUnit(SubSeq(s, m1[1], m1[1] + m1[3] - 1))
          IN IF ul < o.m THEN <<>>
             ELSE LET m2 == MsRxMatch(s, ext, ul, ul, o.N)
                  IN IF m2 = <<>> THEN <<0, 0, 0>>
                     ELSE IF m2[3] < o.L THEN <<>>
                     ELSE <<m2[1], ul, m2[3] \div ul>>

MsCodeFind(s, o) == MsCodeFindWith(s, o, LAMBDA p, a : MsExtDef(s, p, a))
MsCodeFindFast(s, o) ==
  LET rows == [p \in o.m..o.M |-> MsExtRow(s, p)] IN MsCodeFindWith(s, o, LAMBDA p, a : rows[p][a])

(* where the code departs: the FIRST repeat met (N copies of any group of m..M symbols) is not itself a *)
(* microsatellite - its smallest period is below m, or it is shorter than L - and the search stops there *)
(* although a microsatellite starts further right.                                                      *)
MsDeparture(s, o, found, code) ==
  IF code = found THEN "none"
  ELSE IF code # <<>> \/ found = <<>> THEN "unexplained"
  ELSE LET rows == [p \in o.m..o.M |-> MsExtRow(s, p)]
           m1 == MsRxMatch(s, LAMBDA p, a : rows[p][a], o.m, o.M, o.N)
       IN IF m1 = <<>> \/ m1[1] >= found[1] THEN "unexplained"
          ELSE IF MsMinUnit(SubSeq(s, m1[1], m1[1] + m1[3] - 1)) < o.m THEN "masked_by_smaller_period"
          ELSE "masked_by_short_repeat"
=============================================================================

-------------------------------- MODULE ObiFp --------------------------------
(***************************************************************************)
(* What every method of obifp.Uint64 / Uint128 / Uint256 must return       *)
(* (property C20), as a function of the operands.                          *)
(*                                                                         *)
(* Operands and results travel as little-endian byte sequences (8, 16 or   *)
(* 32 bytes = 1, 2 or 4 limbs of 64 bits); a byte is a limb of L = 8 bits  *)
(* of LimbModel, whose operators are checked against the bit-level         *)
(* definitions of BitVec by BitVecLaws.tla.  The methods are grouped; one  *)
(* case / event = one group evaluated on (a, b, n):                        *)
(*                                                                         *)
(*  "un"   a        Not IsZero AsUint64 Set64 Zero MaxValue One, the casts *)
(*  "sh"   a, n     LeftShift(n) RightShift(n)            (any n >= 0)     *)
(*  "bin"  a, b     And Or Xor Cmp (+ the five predicates) Add Sub         *)
(*                  and for Uint128 with b < 2^64: Add64 Cmp64             *)
(*  "mul"  a, b     Mul, and for Uint128 with b < 2^64: Mul64              *)
(*  "div"  a, b#0   Uint128: QuoRem Div Mod (+ QuoRem64 Div64 Mod64),      *)
(*                  Uint256: Div                                           *)
(*  "u64x" a, b, n  Uint64 only: LeftShift64 / RightShift64(n <= 64, b),   *)
(*                  Add64 / Sub64(b, carry n % 2), Mul64(b)                *)
(*                                                                         *)
(* A result that does not exist because the exact value does not fit is    *)
(* the empty sequence together with the flag <op>p = 1: the method MUST    *)
(* signal (panic); flag 0: it must NOT.  Where the property is silent      *)
(* (narrowing cast of a value that does not fit) the field is "don't       *)
(* care": DC.  EVERY field is a sequence of integers (an integer or flag   *)
(* result is a one-element sequence) so that fields compare uniformly.     *)
(***************************************************************************)
EXTENDS LimbModel

L8 == 8
DC == <<-9>>             \* don't care
Match(exp, obs) == exp = DC \/ exp = obs

K64  == 8                \* bytes in 64 bits
Limbs(a) == Len(a) \div 8                                   \* 1, 2, 4

Rel(c) == IF c = 0 THEN <<25>> ELSE IF c < 0 THEN <<10>> ELSE <<20>>    \* Equals 1, LessThan 2, GreaterThan 4, <= 8, >= 16
B64(c) == Force(LZExt(<<c>>, K64))                          \* a carry bit as a 64-bit word

---------------------------------------------------------------------------
Un(a) ==
  LET k == Len(a)
      cast(w) == IF LFits(a, w) THEN Force(LCast(a, w)) ELSE DC
  IN [ not   |-> Force(LNot(a, L8)),
       isz   |-> IF LIsZero(a) THEN <<1>> ELSE <<0>>,
       lo64  |-> IF LFits(a, K64) THEN LTrunc(a, K64) ELSE DC,          \* AsUint64
       set64  |-> Force(LZExt(LTrunc(a, K64), k)),                       \* Set64 of the low word of a
       from64 |-> Force(LZExt(LTrunc(a, K64), k)),                       \* From64 of the same word
       zero  |-> Force(LZero(k)),
       zerou |-> Force(LZero(k)),                                        \* ZeroUint
       max   |-> Force([j \in 1..k |-> 255]),
       one   |-> Force([j \in 1..k |-> IF j = 1 THEN 1 ELSE 0]),
       c64   |-> cast(8), c128 |-> cast(16), c256 |-> cast(32) ]

Sh(a, n) == [ shl |-> Force(LShl(a, n, L8)), shr |-> Force(LShr(a, n, L8)) ]

Arith(r) == [v |-> IF r.c = 1 THEN <<>> ELSE r.v, p |-> <<r.c>>]           \* value or "must signal"

Bin(a, b) ==
  LET add == Arith(LAdd(a, b, L8))
      sub == Arith(LSub(a, b, L8))
      cmp == LCmp(a, b)
      w64 == Limbs(a) = 2 /\ LFits(b, K64)                             \* the Uint128 xxx64(v uint64) variants
  IN [ and |-> Force(LAnd(a, b, L8)), or |-> Force(LOr(a, b, L8)), xor |-> Force(LXor(a, b, L8)),
       cmp |-> <<cmp>>, rel |-> Rel(cmp),
       add |-> add.v, addp |-> add.p, sub |-> sub.v, subp |-> sub.p,
       add64 |-> IF w64 THEN add.v ELSE DC, add64p |-> IF w64 THEN add.p ELSE DC,
       cmp64 |-> IF w64 THEN <<cmp>> ELSE DC ]

MulG(a, b) ==
  LET m   == LMul(a, b, L8)
      v   == IF m.ovf THEN <<>> ELSE m.v
      p   == IF m.ovf THEN <<1>> ELSE <<0>>
      w64 == Limbs(a) = 2 /\ LFits(b, K64)
  IN [ mul |-> v, mulp |-> p, mul64 |-> IF w64 THEN v ELSE DC, mul64p |-> IF w64 THEN p ELSE DC ]

(* the division record, given the exact quotient and remainder *)
DivRec(a, b, q, r) ==
  LET two == Limbs(a) = 2
      w64 == two /\ LFits(b, K64)
  IN [ dq   |-> q,                                      \* Div
       q    |-> IF two THEN q ELSE DC,                 \* QuoRem
       r    |-> IF two THEN r ELSE DC,
       mr   |-> IF two THEN r ELSE DC,                 \* Mod
       q64  |-> IF w64 THEN q ELSE DC,                 \* QuoRem64
       r64  |-> IF w64 THEN LTrunc(r, K64) ELSE DC,
       d64  |-> IF w64 THEN q ELSE DC,                 \* Div64
       m64  |-> IF w64 THEN LTrunc(r, K64) ELSE DC,    \* Mod64
       divp |-> <<0>>, hang |-> <<0>> ]                         \* no panic, terminates
DivG(a, b) == LET d == LDivMod(a, b, L8) IN DivRec(a, b, d.q, d.r)

(* trace validation of a division: the observed quotient dq is VERIFIED     *)
(* (dq*b <= a, a - dq*b < b: one multiplication instead of 8*Len(a)         *)
(* subtractions), the exact remainder follows                               *)
DivFromObserved(a, b, dq) ==
  IF Len(dq) # Len(a) THEN [dq |-> <<-2>>]
  ELSE LET p == LMul(dq, b, L8)
           d == LSub(a, p.v, L8)
       IN IF ~p.ovf /\ d.c = 0 /\ LCmp(d.v, b) < 0 THEN DivRec(a, b, dq, d.v) ELSE [dq |-> <<-2>>]

U64x(a, b, n) ==
  LET sl == LShlIn(a, n, b, L8)   sr == LShrIn(a, n, b, L8)
      ad == LAddC(a, b, n % 2, L8)   sb == LSubC(a, b, n % 2, L8)
      m  == LMul(a, b, L8)
  IN [ lv |-> Force(sl.v), lc |-> Force(sl.c), rv |-> Force(sr.v), rc |-> Force(sr.c),
       av |-> ad.v, ac |-> B64(ad.c), sv |-> sb.v, sc |-> B64(sb.c),
       mv |-> m.v, mc |-> m.h ]

Expect(g, a, b, n) ==
  CASE g = "un"   -> Un(a)
    [] g = "sh"   -> Sh(a, n)
    [] g = "bin"  -> Bin(a, b)
    [] g = "mul"  -> MulG(a, b)
    [] g = "div"  -> DivG(a, b)
    [] g = "u64x" -> U64x(a, b, n)
=============================================================================

------------------------------ MODULE RelJoin ------------------------------
(***************************************************************************)
(* obijoin as a relational operator (extension check X01, part a).         *)
(*                                                                         *)
(*   obijoin -j PARTNERS [--by l[=r]]... [-i] [-s] [-q]  MAIN              *)
(*                                                                         *)
(* is the LEFT OUTER EQUI-JOIN of the main stream with the partner table:  *)
(*                                                                         *)
(*   - a partner p MATCHES a main record m when, for every declared pair   *)
(*     of keys (l, r), m carries l, p carries r and the two values have    *)
(*     the same textual rendering (the integer 1 and the string "1" are    *)
(*     equal: the code compares fmt.Sprint of the values - kept as the     *)
(*     statement, it is what lets a CSV table be joined with JSON          *)
(*     annotations).  The pseudo key "id" is the record identifier.        *)
(*     No --by at all means  id = id.                                      *)
(*   - a main record without partner is output once, unchanged;            *)
(*   - a main record with partners p1..pn is output n times, once per      *)
(*     partner (partners that are equal as records still count twice);     *)
(*     the copy made for p carries the annotations of m overridden by all  *)
(*     the annotations of p, and the identifier / nucleotides / qualities  *)
(*     of p instead of those of m when -i / -s / -q is given and p has a   *)
(*     non-empty one;                                                      *)
(*   - the groups follow the order of the main stream; inside a group the  *)
(*     order of the copies is free (the code walks a Go map);              *)
(*   - every output record is a well-formed record: quality scores, when   *)
(*     present, are as many as nucleotides.  When the composition above    *)
(*     would not be (only one of -s / -q given and lengths differ) the     *)
(*     statement leaves the quality string free but keeps this clause.     *)
(*                                                                         *)
(* A record is [id, seq, qual, ann]: seq and qual are strings ("" = none), *)
(* ann a function from attribute names to TAGGED values "t:text" (t = i,   *)
(* s, b, f, m: integer, string, boolean, float, map; the tag keeps TLC from *)
(* comparing values of different kinds and lets the specification say      *)
(* that the join compares the text only).                                  *)
(***************************************************************************)
EXTENDS Integers, Sequences, FiniteSets, SequencesExt, TLC

Text(v) == SubSeq(v, 3, Len(v))

HasKey(r, k)  == IF k = "id" THEN TRUE ELSE k \in DOMAIN r.ann
KeyText(r, k) == IF k = "id" THEN r.id ELSE Text(r.ann[k])

(* the pairs of keys a command line declares: by is a sequence of <<left, right>> *)
EffBy(by) == IF by = <<>> THEN << <<"id", "id">> >> ELSE by

Match(m, p, by) ==
  \A i \in DOMAIN by : /\ HasKey(m, by[i][1]) /\ HasKey(p, by[i][2])
                       /\ KeyText(m, by[i][1]) = KeyText(p, by[i][2])

(* ranks of the partners of m in the table P (a sequence of records) *)
Partners(m, P, by) == {j \in DOMAIN P : Match(m, P[j], by)}

(* opt = [by, uid, useq, uqual] *)
Joined(m, p, opt) ==
  [id   |-> IF opt.uid THEN p.id ELSE m.id,
   seq  |-> IF opt.useq /\ p.seq # "" THEN p.seq ELSE m.seq,
   qual |-> IF opt.uqual /\ p.qual # "" THEN p.qual ELSE m.qual,
   ann  |-> p.ann @@ m.ann]

WellFormed(r) == r.qual = "" \/ Len(r.qual) = Len(r.seq)

(* increasing enumeration of a finite set of integers *)
RECURSIVE AscFrom(_, _, _)
AscFrom(S, i, hi) == IF i > hi THEN <<>> ELSE (IF i \in S THEN <<i>> ELSE <<>>) \o AscFrom(S, i + 1, hi)
Asc(S, hi) == AscFrom(S, 1, hi)

(* THE DEFINITION: what one main record becomes.  A sequence standing for a bag (order free);  *)
(* qfree marks the copies whose quality string the statement leaves free (see above).           *)
Group(m, P, opt) ==
  LET by == EffBy(opt.by)
      J  == Asc(Partners(m, P, by), Len(P))
  IN  IF J = <<>> THEN << [rec |-> m, qfree |-> FALSE] >>
      ELSE [n \in 1..Len(J) |-> LET o == Joined(m, P[J[n]], opt)
                                IN  [rec |-> o, qfree |-> WellFormed(m) /\ WellFormed(P[J[n]]) /\ ~WellFormed(o)]]

(* the output stream is the concatenation of the groups, in main order *)
Stream(M, P, opt) == FoldLeft(LAMBDA acc, m : acc \o Group(m, P, opt), <<>>, M)

---------------------------------------------------------------------------
(* IMPLEMENTATION-SHAPED MODEL (pkg/obitools/obijoin/join.go): one index per right key,          *)
(* value text -> set of ranks; the partners are the intersection of the looked-up sets, the scan  *)
(* stops at the first value that is absent from its index; a main record that lacks a left key   *)
(* is passed through.                                                                             *)
IndexOf(P, k) ==
  LET have == {j \in DOMAIN P : HasKey(P[j], k)}
      vals == {KeyText(P[j], k) : j \in have}
  IN  [v \in vals |-> {j \in have : KeyText(P[j], k) = v}]

RECURSIVE GetFrom(_, _, _, _)
GetFrom(idx, keys, i, keeps) ==                 \* idx: sequence of indexes, keys: sequence of looked-up texts
  IF i > Len(idx) THEN keeps
  ELSE IF keys[i] \notin DOMAIN idx[i] THEN {}
  ELSE GetFrom(idx, keys, i + 1, IF i = 1 THEN idx[i][keys[i]] ELSE keeps \cap idx[i][keys[i]])

ImplPartners(m, P, by) ==
  IF \E i \in DOMAIN by : ~HasKey(m, by[i][1]) THEN {}
  ELSE GetFrom([i \in DOMAIN by |-> IndexOf(P, by[i][2])], [i \in DOMAIN by |-> KeyText(m, by[i][1])], 1, {})

---------------------------------------------------------------------------
(* acceptance of an observed group / stream (used by the trace specification; the replay driver  *)
(* makes the same three comparisons on the exported groups).  Returns "ok" or a reason.           *)
NoQual(r) == [id |-> r.id, seq |-> r.seq, ann |-> r.ann]
CountIn(s, x, F(_)) == Cardinality({i \in DOMAIN s : F(s[i]) = x})
SameBag(s, t, F(_)) == /\ Len(s) = Len(t)
                       /\ \A i \in DOMAIN s : CountIn(s, F(s[i]), F) = CountIn(t, F(s[i]), F)

GroupVerdict(got, exp) ==         \* got: sequence of records, exp: Group(...)
  LET E  == [i \in DOMAIN exp |-> exp[i].rec]
      Ex == SelectSeq(exp, LAMBDA e : ~e.qfree)
  IN  IF Len(got) # Len(exp) THEN "multiplicity"
      ELSE IF ~SameBag(got, E, NoQual) THEN "records"
      ELSE IF \E i \in DOMAIN Ex : CountIn(got, Ex[i].rec, LAMBDA r : r) < CountIn(Ex, Ex[i].rec, LAMBDA e : e.rec) THEN "qualities"
      ELSE IF \E i \in DOMAIN got : ~WellFormed(got[i]) THEN "wellformed"
      ELSE "ok"

(* a whole output stream: cut into consecutive groups of the expected sizes *)
StreamVerdict(got, M, P, opt) ==
  LET G     == [i \in DOMAIN M |-> Group(M[i], P, opt)]
      ranks == [i \in DOMAIN M |-> i]
      total == FoldLeft(LAMBDA a, i : a + Len(G[i]), 0, ranks)
  IN  IF total # Len(got) THEN "multiplicity"
      ELSE FoldLeft(LAMBDA st, i :
                      IF st[2] # "ok" THEN st
                      ELSE <<st[1] + Len(G[i]), GroupVerdict(SubSeq(got, st[1] + 1, st[1] + Len(G[i])), G[i])>>,
                    <<0, "ok">>, ranks)[2]
=============================================================================

----------------------------- MODULE TaxFindMC -----------------------------
(***************************************************************************)
(* Bounded model for X06.  TLC enumerates every labelled rooted tree with  *)
(* at most MaxN nodes x rank / scientific-name / alternative-name / alias  *)
(* variants, puts a fixed family of obifind command lines and obiannotate  *)
(* option sets to each (the taxids and ranks they mention are picked       *)
(* differently from tree to tree), checks the theorems below and exports   *)
(* one case per (taxonomy, command line) with the expected output.         *)
(***************************************************************************)
EXTENDS TaxFind, Json, CSV, IOUtils

CONSTANTS MaxN, RankVariants, NameVariants, AltVariants, AliasVariants

VARIABLES par,    \* the parameters of the taxonomy
          tax,    \* the taxonomy
          k,      \* which command: 1..NF obifind queries, then 2*NA obiannotate runs, then NL --add-lca-in runs
          exp,    \* the expected outcome
          done
vars == <<par, tax, k, exp, done>>

Ranks   == <<"species", "genus", "family">>
SciPool == <<"ab", "abc", "cab", "b ab", "ab">>

DepthP(p, x) == Cardinality({ Up(p, x, j) : j \in 0..(Len(p) - 1) }) - 1

MkTax(p, rv, nv, av, w) ==
  LET n == Len(p) IN
  [ parent |-> p,
    rank   |-> [x \in 1..n |-> IF rv = 3 THEN Ranks[(x % 3) + 1] ELSE Ranks[((DepthP(p, x) + rv) % 3) + 1]],
    name   |-> [x \in 1..n |-> SciPool[((x + nv) % 5) + 1]],
    alt    |-> [x \in 1..n |-> CASE (x + av) % 3 = 0 -> IF x % 2 = 0 THEN <<"syn" \o ToString(x), "ab x">> ELSE <<"syn" \o ToString(x), "ab x", "c ab">>
                                 [] (x + av) % 3 = 1 -> <<"cab">>
                                 [] OTHER -> <<>>],
    alias  |-> SelectSeq([i \in 1..n |-> <<n + i, i>>], LAMBDA pr : (pr[2] + w) % 2 = 0) ]

(* ids that mean something, picked by a hash of the tree *)
RIds(T)    == SelectSeq([j \in 1..(2 * Len(T.parent) + 2) |-> j - 1], LAMBDA id : Resolve(T, id) # 0)
Hash(T)    == LET n == Len(T.parent) IN
              (IF n = 1 THEN 0 ELSE T.parent[1] + 3 * T.parent[n] + 5 * T.parent[(n \div 2) + 1]) + Len(T.alias)
Pick(T, j) == RIds(T)[((Hash(T) + j) % Len(RIds(T))) + 1]
PickRank(T, j) == T.rank[((Hash(T) + j) % Len(T.parent)) + 1]
Unknown(T) == 2 * Len(T.parent) + 1

P(lit, h, t) == [lit |-> lit, head |-> h, tail |-> t]
Q0 == [mode |-> "all", pats |-> <<>>, fixed |-> FALSE, allnames |-> FALSE, withpath |-> FALSE,
       rank |-> "", clades |-> <<>>, taxid |-> 0]

Queries(T) ==
  << Q0,
     [Q0 EXCEPT !.rank = PickRank(T, 0)],
     [Q0 EXCEPT !.rank = "order"],
     [Q0 EXCEPT !.clades = <<Pick(T, 0)>>],
     [Q0 EXCEPT !.clades = <<Pick(T, 1), Pick(T, 2)>>, !.rank = PickRank(T, 1), !.withpath = TRUE],
     [Q0 EXCEPT !.clades = <<Pick(T, 3), Unknown(T)>>],
     [Q0 EXCEPT !.mode = "names", !.pats = <<P("ab", FALSE, FALSE), P("ab", TRUE, FALSE), P("b", FALSE, TRUE), P("ab", TRUE, TRUE)>>],
     [Q0 EXCEPT !.mode = "names", !.allnames = TRUE,
                !.pats = <<P("ab", FALSE, FALSE), P("a.c", FALSE, FALSE), P("c", TRUE, FALSE), P("syn", FALSE, FALSE), P(" x", FALSE, TRUE)>>],
     [Q0 EXCEPT !.mode = "names", !.fixed = TRUE, !.pats = <<P("ab", FALSE, FALSE), P("cab", FALSE, FALSE), P("a", FALSE, FALSE)>>],
     [Q0 EXCEPT !.mode = "names", !.fixed = TRUE, !.allnames = TRUE, !.withpath = TRUE,
                !.pats = <<P("cab", FALSE, FALSE), P("ab x", FALSE, FALSE), P("zz", FALSE, FALSE)>>],
     [Q0 EXCEPT !.mode = "names", !.allnames = TRUE, !.withpath = TRUE, !.clades = <<Pick(T, 4)>>, !.rank = PickRank(T, 2),
                !.pats = <<P("b", FALSE, FALSE), P("cab", FALSE, FALSE)>>],
     [Q0 EXCEPT !.mode = "names", !.clades = <<Pick(T, 5), Pick(T, 6)>>, !.pats = <<P("a", FALSE, FALSE)>>],
     [Q0 EXCEPT !.mode = "path", !.taxid = Pick(T, 1)],
     [Q0 EXCEPT !.mode = "path", !.taxid = Pick(T, 2), !.withpath = TRUE],
     [Q0 EXCEPT !.mode = "path", !.taxid = Pick(T, 3), !.rank = "order", !.clades = <<Pick(T, 0)>>],
     [Q0 EXCEPT !.mode = "path", !.taxid = Unknown(T)],
     [Q0 EXCEPT !.mode = "ranks"] >>
NF == 17

Opts(T) ==
  << [sci |-> TRUE,  rank |-> FALSE, path |-> FALSE, atrank |-> <<>>],
     [sci |-> FALSE, rank |-> TRUE,  path |-> TRUE,  atrank |-> <<>>],
     [sci |-> FALSE, rank |-> FALSE, path |-> FALSE, atrank |-> <<PickRank(T, 0), "order">>],
     [sci |-> TRUE,  rank |-> TRUE,  path |-> TRUE,  atrank |-> <<"species", "family">>] >>
NA == 4

(* the records of an obiannotate run: known() = every id that means something + a record without taxid;   *)
(* every() = the unknown ids too                                                                            *)
Rec(id)      == [has |-> TRUE, taxid |-> id]
NoTaxid      == [has |-> FALSE, taxid |-> 0]
KnownRecs(T) == [j \in 1..Len(RIds(T)) |-> Rec(RIds(T)[j])] \o <<NoTaxid>>
EveryRecs(T) == [j \in 1..(2 * Len(T.parent) + 1) |-> Rec(j)] \o <<NoTaxid>>

(* two runs per option set: all known ids; all ids (fails when the options need the taxon) *)
AnnotCase(T, j) ==
  LET O    == Opts(T)[((j - 1) \div 2) + 1]
      recs == IF j % 2 = 1 THEN KnownRecs(T) ELSE EveryRecs(T)
  IN [opts |-> O, recs |-> recs, fails |-> AnnotFails(T, O, recs),
      ints |-> [i \in 1..Len(recs) |-> IntAttrs(T, O, recs[i])],
      strs |-> [i \in 1..Len(recs) |-> StrAttrs(T, O, recs[i], "scientific_name")],
      strs_written |-> [i \in 1..Len(recs) |-> StrAttrs(T, O, recs[i], "scienctific_name")]]

(* --add-lca-in: per record the set of acceptable answers [c, lo, hi] (taxon, smallest and largest acceptable       *)
(* reported error in 1/1000) by the statement, and by the code as written (weights of synonymous ids not added)    *)
BagOf(ids) == [i \in 1..Len(ids) |-> <<ids[i], 1 + (ids[i] % 3)>>]
LcaSlots == <<"lca", "taxid", "family_taxid", "taxid_of">>
LcaTols  == <<0, 500, 250, 0>>
AccSet(T, bag, E) ==
  \* (an acceptable error stays acceptable when it grows, up to E: the smallest one is the one whose predecessor is refused)
  { [c |-> c, lo |-> CHOOSE v \in 0..E : LcaAccepts(T, bag, E, c, v) /\ (v = 0 \/ ~LcaAccepts(T, bag, E, c, v - 1)), hi |-> E] :
      c \in { c \in Node(T) : LcaAccepts(T, bag, E, c, E) } }
LcaCase(T, j) ==
  LET all  == RIds(T)
      E    == LcaTols[j]
      bags == << BagOf(all), BagOf(SubSeq(all, 1, 1)), BagOf(SubSeq(all, Len(all) - ((Len(all) + 1) \div 2) + 1, Len(all))),
                 BagOf(SubSeq(all, 1, (Len(all) + 1) \div 2)), <<<<Pick(T, j), 1>>>> >>
      recs == [i \in 1..Len(bags) |-> [bag |-> bags[i], astaxid |-> i = Len(bags), synonyms |-> HasSynonyms(T, bags[i])]]
  IN [slot |-> LcaSlots[j], E |-> E, lrecs |-> recs, keys |-> LcaKeys(LcaSlots[j]),
      keysets |-> [i \in 1..Len(bags) |-> LcaKeySets(LcaSlots[j], recs[i])],
      acc |-> [i \in 1..Len(bags) |-> AccSet(T, bags[i], E)],
      acc_written |-> [i \in 1..Len(bags) |-> IF HasSynonyms(T, bags[i]) THEN UNION { AccSet(T, b, E) : b \in SeenBags(T, bags[i]) } ELSE {}]]
NL == 4

FindCase(T, j) ==
  LET Q == Queries(T)[j] IN
  [q |-> Q, args |-> [i \in 1..Len(Q.pats) |-> Arg(Q.pats[i])], fails |-> Fails(T, Q),
   blocks         |-> IF Fails(T, Q) THEN <<>> ELSE Blocks(T, Q, 0),
   blocks_written |-> IF Fails(T, Q) THEN <<>> ELSE Blocks(T, AsWrittenQuery(Q), 1)]

-----------------------------------------------------------------------------
(* Init only picks the parameters (cheap, single-threaded in TLC); the taxonomy and the expected outcome are built *)
(* in the one step every behaviour takes                                                                          *)
Init ==
  /\ \E n \in 1..MaxN : \E p \in [1..n -> 1..n] :
        /\ IsRootedTree(p)
        /\ \E rv \in RankVariants, nv \in NameVariants, av \in AltVariants, w \in AliasVariants :
              par = [p |-> p, rv |-> rv, nv |-> nv, av |-> av, w |-> w]
  /\ k \in 1..(NF + 2 * NA + NL)
  /\ tax = <<>> /\ exp = <<>> /\ done = FALSE
Compute ==
  /\ ~done
  /\ LET T == MkTax(par.p, par.rv, par.nv, par.av, par.w) IN
     /\ tax' = T
     /\ exp' = (IF k <= NF THEN FindCase(T, k) ELSE IF k <= NF + 2 * NA THEN AnnotCase(T, k - NF) ELSE LcaCase(T, k - NF - 2 * NA))
  /\ done' = TRUE /\ UNCHANGED <<par, k>>
Next == Compute
Spec == Init /\ [][Next]_vars

-----------------------------------------------------------------------------
(* Theorems *)
WellFormed == done => IsTaxonomy(tax) /\ Len(Queries(tax)) = NF /\ Len(Opts(tax)) = NA
              /\ \A j \in 1..NF : IsQuery(Queries(tax)[j])

FQ == done /\ k <= NF
Sel(Q, i) == Selected(tax, Q, Q.pats[i], 0)

(* the restrictions are an intersection: rank and clades act independently of each other and of the names; *)
(* the clades of -r are a union; the root's clade restricts nothing                                         *)
RestrictionLaws == (FQ /\ ~exp.fails) =>
  LET Q == exp.q IN
  /\ SelectedAll(tax, Q) = SelectedAll(tax, [Q EXCEPT !.clades = <<>>]) \cap SelectedAll(tax, [Q EXCEPT !.rank = ""])
  /\ SelectedAll(tax, [Q EXCEPT !.rank = ""]) =
        (IF Len(Q.clades) = 0 THEN Node(tax) ELSE UNION { CladeWalk(tax, Resolve(tax, Q.clades[i])) : i \in 1..Len(Q.clades) })
  /\ SelectedAll(tax, [Q EXCEPT !.clades = <<Root(tax)>>]) = SelectedAll(tax, [Q EXCEPT !.clades = <<>>])
  /\ \A i \in 1..Len(Q.pats) : Sel(Q, i) = Selected(tax, [Q EXCEPT !.clades = <<>>, !.rank = ""], Q.pats[i], 0) \cap SelectedAll(tax, Q)

(* -a only adds taxa; a fixed pattern (without ".") selects a subset of what the same text selects as a regular   *)
(* expression; anchoring only removes taxa; "^lit$" selects what -F lit selects                                    *)
NameLaws == (FQ /\ exp.q.mode = "names") =>
  LET Q == exp.q IN
  \A i \in 1..Len(Q.pats) :
     LET pt == Q.pats[i]
         re(h, t) == Selected(tax, [Q EXCEPT !.fixed = FALSE], P(pt.lit, h, t), 0)
     IN /\ Selected(tax, [Q EXCEPT !.allnames = FALSE], pt, 0) \subseteq Selected(tax, [Q EXCEPT !.allnames = TRUE], pt, 0)
        /\ ~Contains(pt.lit, ".") =>
              /\ Selected(tax, [Q EXCEPT !.fixed = TRUE], P(pt.lit, FALSE, FALSE), 0) = re(TRUE, TRUE)
              /\ re(TRUE, TRUE) \subseteq re(TRUE, FALSE) \cap re(FALSE, TRUE)
              /\ re(TRUE, FALSE) \cup re(FALSE, TRUE) \subseteq re(FALSE, FALSE)

(* the code as written lists a subset, and departs only for a search by regular expression over all names *)
AsWrittenLaws == (FQ /\ ~exp.fails /\ exp.q.mode # "ranks") =>
  LET Q == exp.q IN
  /\ \A i \in 1..Len(exp.blocks) : exp.blocks_written[i] \subseteq exp.blocks[i]
  /\ (exp.blocks_written # exp.blocks) => (Q.mode = "names" /\ Q.allnames /\ ~Q.fixed)

(* --parents: the taxon first, the root last, each line the parent of the one before; restrictions do not apply *)
PathLaws == (FQ /\ ~exp.fails /\ exp.q.mode = "path") =>
  LET Q == exp.q  x == Resolve(tax, Q.taxid)  p == Path(tax, x) IN
  /\ Len(exp.blocks) = Depth(tax, x) + 1
  /\ exp.blocks[1] = { Line(tax, "path:" \o ToString(x), x, Q.withpath) }
  /\ exp.blocks[Len(exp.blocks)] = { Line(tax, "path:" \o ToString(x), Root(tax), Q.withpath) }
  /\ exp.blocks = Blocks(tax, [Q EXCEPT !.rank = "", !.clades = <<>>], 0)

(* layout of a line: the separators stand at fixed columns (names and ranks here are shorter than 20 symbols),   *)
(* the path column of a taxon is the path column of its parent followed by ":" and its name                       *)
LineLaws == done =>
  \A x \in Node(tax) :
     LET l == Line(tax, "ab", x, FALSE)  lp == Line(tax, "ab", x, TRUE) IN
     /\ SubSeq(l, 21, 23) = " | " /\ SubSeq(l, 34, 36) = " | " /\ SubSeq(l, 47, 49) = " | " /\ SubSeq(l, 70, 72) = " | "
     /\ SubSeq(l, 73, Len(l)) = tax.name[x] /\ SubSeq(l, 1, 72) = SubSeq(lp, 1, 72)
     /\ LastCol(tax, x, TRUE) = IF IsRoot(tax, x) THEN tax.name[x]
                                ELSE LastCol(tax, tax.parent[x], TRUE) \o ":" \o tax.name[x]

(* obiannotate: a merged taxid is annotated as the taxon it stands for; the taxid itself is left as it was;      *)
(* a record without taxid is annotated as taxid 1; the path text grows by one entry per level                    *)
AnnotLaws == (done /\ k > NF /\ k <= NF + 2 * NA) =>
  LET O == exp.opts IN
  /\ \A i \in 1..Len(tax.alias) :
        LET a == Rec(tax.alias[i][1])  b == Rec(tax.alias[i][2]) IN
        /\ StrAttrs(tax, O, a, "scientific_name") = StrAttrs(tax, O, b, "scientific_name")
        /\ IntAttrs(tax, O, a) \ {<<"taxid", a.taxid>>} = IntAttrs(tax, O, b) \ {<<"taxid", b.taxid>>}
  /\ StrAttrs(tax, O, NoTaxid, "scientific_name") = StrAttrs(tax, O, Rec(1), "scientific_name")
  /\ IntAttrs(tax, O, NoTaxid) = IntAttrs(tax, O, Rec(1)) \ {<<"taxid", 1>>}
  /\ \A x \in Node(tax) :
        LET p == Path(tax, x)  own == ToString(x) \o "@" \o tax.name[x] \o "@" \o tax.rank[x] IN
        PathText(tax, p, Len(p)) = IF IsRoot(tax, x) THEN own
                                   ELSE LET pp == Path(tax, tax.parent[x]) IN PathText(tax, pp, Len(pp)) \o "|" \o own
  /\ exp.fails <=> (NeedsTaxon(O) /\ (k - NF) % 2 = 0)        \* even = the run with the unknown ids


(* --add-lca-in: with zero tolerance the exact LCA of C14 and the error 0 are the only answer accepted; the exact  *)
(* LCA is acceptable under every tolerance; a larger tolerance accepts more; the attribute names                 *)
LcaLaws == (done /\ k = NF + 1) =>
  LET all == RIds(tax)
      bags == { BagOf(all), BagOf(SubSeq(all, 1, 1)), BagOf(SubSeq(all, Len(all) - ((Len(all) + 1) \div 2) + 1, Len(all))) }
  IN /\ \A bag \in bags :
          LET x == SeqLCA(tax, { bag[i][1] : i \in 1..Len(bag) }) IN
          /\ IsBag(tax, bag)
          /\ \A c \in Node(tax), v \in 0..2 : LcaAccepts(tax, bag, 0, c, v) <=> (c = x /\ v = 0)
          /\ \A E \in {50, 500} : LcaAccepts(tax, bag, E, x, 0)
          /\ \A c \in Node(tax), v \in {0, 40, 300} :
                /\ LcaAccepts(tax, bag, 50, c, v) => LcaAccepts(tax, bag, 500, c, v)
                /\ LcaAccepts(tax, bag, 500, c, v) => 2 * BagWeight(tax, bag, c) + 1 >= BagWeight(tax, bag, Root(tax))
     /\ LcaKeys("lca") = [taxid |-> "lca_taxid", name |-> "lca_name", error |-> "lca_error"]
     /\ LcaKeys("taxid") = [taxid |-> "taxid", name |-> "scientific_name", error |-> "lca_error"]
     /\ LcaKeys("family_taxid") = [taxid |-> "family_taxid", name |-> "family_name", error |-> "family_error"]
     /\ LcaKeys("my") = [taxid |-> "my_taxid", name |-> "my_name", error |-> "my_error"]

(* the exported sets of acceptable answers: never empty, the exact LCA always in it, alone with error 0 at zero    *)
(* tolerance; what the code as written may answer beyond the statement needs synonymous ids and a tolerance        *)
LcaCaseLaws == (done /\ k > NF + 2 * NA) =>
  \A i \in 1..Len(exp.lrecs) :
     LET bag == exp.lrecs[i].bag   x == SeqLCA(tax, { bag[j][1] : j \in 1..Len(bag) }) IN
     /\ [c |-> x, lo |-> 0, hi |-> exp.E] \in exp.acc[i]
     /\ exp.E = 0 => exp.acc[i] = { [c |-> x, lo |-> 0, hi |-> 0] }
     /\ ~(exp.acc_written[i] \subseteq exp.acc[i]) => (exp.lrecs[i].synonyms /\ exp.E > 0)
     \* an acceptable error stays acceptable when it grows up to E (sampled): the exported intervals [lo, hi] say all
     /\ \A c \in Node(tax), v \in {0, 1, exp.E \div 3, exp.E \div 2, exp.E - 1} \cap 0..(exp.E - 1) :
           LcaAccepts(tax, bag, exp.E, c, v) => LcaAccepts(tax, bag, exp.E, c, v + 1)
     /\ \A c \in Node(tax) : LcaAccepts(tax, bag, exp.E, c, exp.E) <=> (\E a \in exp.acc[i] : a.c = c)

(* the verdict operators accept the expected output in any order inside a block, and refuse a line lost, doubled, *)
(* or moved to another block                                                                                      *)
SetToSeq(S) == LET f[s \in SUBSET S] == IF s = {} THEN <<>> ELSE LET e == CHOOSE e \in s : TRUE IN <<e>> \o f[s \ {e}] IN f[S]
RECURSIVE Flat(_, _)
Flat(bs, i) == IF i > Len(bs) THEN <<>> ELSE SetToSeq(bs[i]) \o Flat(bs, i + 1)
Rev(s) == [i \in 1..Len(s) |-> s[Len(s) + 1 - i]]
VerdictLaws == (FQ /\ ~exp.fails /\ exp.q.mode # "ranks") =>
  LET out == Flat(exp.blocks, 1)  Q == exp.q IN
  /\ FindVerdict(tax, Q, 0, out) = "ok"
  /\ FindVerdict(tax, Q, 1, out) = "failed"
  /\ Len(out) >= 1 => /\ FindVerdict(tax, Q, 0, Tail(out)) # "ok"
                      /\ FindVerdict(tax, Q, 0, <<out[1]>> \o out) # "ok"
  /\ (Len(exp.blocks) >= 2 /\ Rev(out) # out /\ \A i \in 1..Len(exp.blocks) : Cardinality(exp.blocks[i]) = 1)
        => FindVerdict(tax, Q, 0, Rev(out)) # "ok"
  /\ (exp.blocks_written # exp.blocks) => FindVerdict(tax, Q, 0, Flat(exp.blocks_written, 1)) = "known:first_alt_name_lost"

-----------------------------------------------------------------------------
Export ==
  done => CSVWrite("%1$s", <<ToJson([parent |-> tax.parent, rank |-> tax.rank, name |-> tax.name, alt |-> tax.alt,
                                    alias |-> tax.alias, k |-> k, exp |-> exp])>>, IOEnv.VERIF_CASES)
=============================================================================

------------------------------ MODULE KmerSimMC ------------------------------
(***************************************************************************)
(* Extension X04 (b) - bounded model of KmerSim.tla.  One state per        *)
(* (references, query, k, --max-kmers, self); odd k = sparse mode.         *)
(* Theorems (INVARIANTS):                                                  *)
(*   SharedAgrees     pairs of windows = sum of products of multiplicities *)
(*                    = the fold over the query used everywhere else       *)
(*   Symmetric        Shared(q, r) = Shared(r, q)                          *)
(*   StrandInvariant  the answer is the same for the reverse complement of *)
(*                    the query, and of any reference                      *)
(*   HitIffShares     a reference is in the answer iff it shares a k-mer   *)
(*                    (C19's statement), itself excluded                   *)
(*   SelfCount        a sequence against itself: sum of squares, at least  *)
(*                    its number of k-mers                                 *)
(*   MaxKmersLaws     counts never grow when the limit shrinks; a limit    *)
(*                    that no k-mer exceeds changes nothing; limit 0       *)
(*                    empties the index                                    *)
(*   FilterLaws       the filter keeps a subset, exactly the counts >= m,  *)
(*                    m <= 1 keeps all; Max is one of the largest          *)
(*   CodeIsAllSwitches  Push/NewKmerMap/Query as written, for EVERY order  *)
(*                    of the addresses, answer exactly KsAnswerV with the  *)
(*                    three switches on (count + 1, boundary of the limit, *)
(*                    query kept when last)                                *)
(*   SwitchesOffIsSpec KsAnswerV with every switch off is KsAnswer         *)
(*   ExactLaws        the exact-overlap relation of Part 4 is symmetric,   *)
(*                    holds for equal and reverse-complementary pairs, and *)
(*                    such pairs share every k-mer of the query            *)
(* Export: the answer (and, filtered by each m, the number of matches)     *)
(* under every combination of switches, fewest first.                      *)
(***************************************************************************)
EXTENDS Integers, Sequences, FiniteSets, TLC, Json, CSV, IOUtils, SequencesExt, KmerSim

CONSTANTS KsConfigs    \* set of records [fam, alpha, rlo, rn, nr, qlo, qn, kmo]

VARIABLES refs, q, k, mo, self, fam, done, res
vars == <<refs, q, k, mo, self, fam, done, res>>

KsQuickConfigs ==
  {[fam |-> "pair",   alpha |-> {"a", "t"}, rlo |-> 4, rn |-> 4, nr |-> 2, qlo |-> 4, qn |-> 4,
    kmo |-> {<<2, -1>>, <<2, 2>>, <<3, -1>>}],
   [fam |-> "triple", alpha |-> {"a", "t"}, rlo |-> 3, rn |-> 3, nr |-> 3, qlo |-> 3, qn |-> 3,
    kmo |-> {<<2, 2>>}],
   [fam |-> "iupac",  alpha |-> {"a", "c", "n"}, rlo |-> 3, rn |-> 3, nr |-> 1, qlo |-> 3, qn |-> 3,
    kmo |-> {<<2, -1>>, <<2, 0>>, <<2, 1>>}],
   [fam |-> "nest",   alpha |-> {"a", "t"}, rlo |-> 6, rn |-> 6, nr |-> 1, qlo |-> 4, qn |-> 4,
    kmo |-> {<<2, -1>>}]}
KsThoroughConfigs ==
  {[fam |-> "pair",   alpha |-> {"a", "t"}, rlo |-> 4, rn |-> 4, nr |-> 2, qlo |-> 3, qn |-> 5,
    kmo |-> {<<2, -1>>, <<2, 1>>, <<2, 2>>, <<2, 3>>, <<3, -1>>, <<3, 2>>}],
   [fam |-> "pair5",  alpha |-> {"a", "t"}, rlo |-> 5, rn |-> 5, nr |-> 2, qlo |-> 5, qn |-> 5,
    kmo |-> {<<2, 3>>, <<3, -1>>, <<4, -1>>}],
   [fam |-> "triple", alpha |-> {"a", "t"}, rlo |-> 3, rn |-> 3, nr |-> 3, qlo |-> 2, qn |-> 4,
    kmo |-> {<<2, -1>>, <<2, 0>>, <<2, 1>>, <<2, 2>>, <<2, 3>>, <<3, -1>>, <<3, 2>>}],
   [fam |-> "iupac",  alpha |-> {"a", "c", "n"}, rlo |-> 3, rn |-> 4, nr |-> 1, qlo |-> 3, qn |-> 4,
    kmo |-> {<<2, -1>>, <<2, 0>>, <<2, 1>>, <<3, -1>>}],
   [fam |-> "acgt",   alpha |-> {"a", "c", "g", "t"}, rlo |-> 3, rn |-> 4, nr |-> 1, qlo |-> 3, qn |-> 3,
    kmo |-> {<<2, -1>>, <<2, 2>>, <<3, -1>>}],
   [fam |-> "nest",   alpha |-> {"a", "t"}, rlo |-> 6, rn |-> 7, nr |-> 1, qlo |-> 4, qn |-> 5,
    kmo |-> {<<2, -1>>, <<3, -1>>}]}

KsWords(S, lo, n) == UNION {[1..m -> S] : m \in lo..n}
KsTuples(S, n) == UNION {[1..m -> S] : m \in 1..n}

RECURSIVE KsStr(_)
KsStr(w) == IF w = <<>> THEN "" ELSE w[1] \o KsStr(Tail(w))

Sparse == k % 2 = 1
KsMinCs == 0..4           \* values of --min-shared-kmers exported

Init == /\ \E c \in KsConfigs :
             /\ refs \in KsTuples(KsWords(c.alpha, c.rlo, c.rn), c.nr)
             /\ q \in KsWords(c.alpha, c.qlo, c.qn)
             /\ \E km \in c.kmo : k = km[1] /\ mo = km[2]
             /\ fam = c.fam
        /\ self \in {0} \cup {i \in 1..Len(refs) : refs[i] = q}
        /\ done = FALSE
        /\ res = [qk |-> <<>>, rks |-> <<>>, rbags |-> <<>>, ans |-> <<>>]

Compute ==
  /\ ~done
  /\ done' = TRUE
  /\ LET qk == CanonKmers(q, k, Sparse)
         rks == [i \in 1..Len(refs) |-> CanonKmers(refs[i], k, Sparse)]
         rbags == [i \in 1..Len(refs) |-> KmerBag(rks[i])]
     IN res' = [qk |-> qk, rks |-> rks, rbags |-> rbags, ans |-> KsAnswer(qk, rbags, mo, self)]
  /\ UNCHANGED <<refs, q, k, mo, self, fam>>

Next == Compute

---------------------------------------------------------------------------
NR == Len(refs)

SharedAgrees ==
  done => \A i \in 1..NR :
            /\ KsSharedDef(res.qk, res.rks[i]) = KsSharedBags(KmerBag(res.qk), res.rbags[i])
            /\ KsSharedDef(res.qk, res.rks[i]) = KsCount(res.qk, res.rbags, i, -1)

Symmetric ==
  done => \A i \in 1..NR : KsSharedDef(res.qk, res.rks[i]) = KsSharedDef(res.rks[i], res.qk)

StrandInvariant ==
  done => /\ KsAnswer(CanonKmers(KmerRevCompSeq(q), k, Sparse), res.rbags, mo, self) = res.ans
          /\ \A i \in 1..NR :
               LET rb2 == [j \in 1..NR |-> IF j = i THEN KmerBag(CanonKmers(KmerRevCompSeq(refs[j]), k, Sparse)) ELSE res.rbags[j]]
               IN KsAnswer(res.qk, rb2, mo, self) = res.ans

KsRange(w) == {w[j] : j \in 1..Len(w)}

HitIffShares ==
  (done /\ mo = -1) => \A i \in 1..NR : (res.ans[i] > 0) <=> (i # self /\ KsRange(res.qk) \cap KsRange(res.rks[i]) # {})

SelfCount ==
  done => \A i \in 1..NR :
            LET c == KsCount(res.rks[i], res.rbags, i, -1)
                b == res.rbags[i]
            IN /\ c >= Len(res.rks[i])
               /\ c = FoldLeft(LAMBDA acc, x : acc + b[x] * b[x], 0, SetToSeq(DOMAIN b))

KsTotalOcc == FoldLeft(LAMBDA acc, i : acc + Len(res.rks[i]), 0, [i \in 1..NR |-> i])

MaxKmersLaws ==
  done => /\ \A i \in 1..NR : \A m1 \in 0..4 :
               /\ KsCount(res.qk, res.rbags, i, m1) <= KsCount(res.qk, res.rbags, i, m1 + 1)
               /\ KsCount(res.qk, res.rbags, i, m1) <= KsCount(res.qk, res.rbags, i, -1)
          /\ \A i \in 1..NR : KsCount(res.qk, res.rbags, i, KsTotalOcc) = KsCount(res.qk, res.rbags, i, -1)
          /\ \A i \in 1..NR : KsCount(res.qk, res.rbags, i, 0) = 0

FilterLaws ==
  done => \A mc \in KsMinCs :
            LET f == KsFilter(res.ans, mc)
            IN /\ KsMatchSet(f) \subseteq KsMatchSet(res.ans)
               /\ KsMatchSet(f) = {i \in 1..NR : res.ans[i] >= mc /\ res.ans[i] >= 1}
               /\ (mc <= 1 => f = res.ans)
               /\ \A i \in KsMatchSet(f) : f[i] = res.ans[i]
               /\ (KsMatchSet(f) = {}) <=> (KsMaxSet(f) = {})

KsPerms == {p \in [1..NR -> 1..NR] : \A i, j \in 1..NR : p[i] = p[j] => i = j}

CodeIsAllSwitches ==
  done => LET idx == KsCodeIndex(res.rks, mo)
          IN \A rank \in KsPerms :
               KsCodeQuery(res.qk, idx, rank, self, NR) = KsAnswerV(res.qk, res.rbags, mo, self, rank, KsCodeDv)

SwitchesOffIsSpec ==
  done => \A rank \in KsPerms : KsAnswerV(res.qk, res.rbags, mo, self, rank, KsSpecDv) = res.ans

ExactLaws ==
  done => \A i \in 1..NR :
            LET e == KsExact(q, refs[i])  f == KsExact(refs[i], q)
            IN /\ e = f
               /\ (refs[i] = q /\ KmerRevCompSeq(q) # q) => e = [where |-> "end", rev |-> 0, len |-> Len(q), pos |-> 1]
               /\ (refs[i] = KmerRevCompSeq(q) /\ refs[i] # q) => e = [where |-> "end", rev |-> 1, len |-> Len(q), pos |-> 1]
               (* the placement vote: an exact END overlap gets the full score at its own shift, an INTERNAL one does not *)
               /\ (e.len >= 4 /\ e.where # "none") =>
                     LET b == IF e.rev = 1 THEN KmerRevCompSeq(refs[i]) ELSE refs[i]
                     IN KsPerfectAt(q, b, KsExactShift(q, refs[i], e)) <=> (e.where = "end")
               /\ (e.where # "none" /\ Len(q) = Len(refs[i]) /\ PlainSeq(q) /\ PlainSeq(refs[i]) /\ Len(q) >= k)
                     => KsCount(res.qk, res.rbags, i, -1) >= Len(res.qk)

---------------------------------------------------------------------------
(* export: under each combination of switches (fewest first, equal values merged), the answer of Query and the *)
(* number of references left by each --min-shared-kmers; once with addresses growing with the index of the      *)
(* reference (va), once decreasing (vd)                                                                          *)
KsVariants(rank) ==
  LET vals == [j \in 1..Len(KsDvOrder) |-> KsAnswerV(res.qk, res.rbags, mo, self, rank, KsDvOrder[j])]
      firsts == SelectSeq([j \in 1..Len(KsDvOrder) |-> j], LAMBDA j : \A h \in 1..(j - 1) : vals[h] # vals[j])
  IN [h \in 1..Len(firsts) |->
        [dv |-> KsDvName(KsDvOrder[firsts[h]]),
         ans |-> vals[firsts[h]],
         nm |-> [mc \in 1..5 |-> Cardinality(KsMatchSet(KsFilter(vals[firsts[h]], mc - 1)))],
         mx |-> SetToSeq(KsMaxSet(vals[firsts[h]]))]]

KsClassOf ==
  fam \o (IF Sparse THEN "/sparse" ELSE "/plain")
      \o (IF mo = -1 THEN "/nolimit" ELSE "/limit")
      \o (IF self = 0 THEN "/other" ELSE "/self")
      \o (IF KsMatchSet(res.ans) = {} THEN "/nohit" ELSE "/hit")

Export ==
  done =>
    CSVWrite("%1$s",
      <<ToJson([kind |-> "ks", cls |-> KsClassOf,
                refs |-> [i \in 1..NR |-> KsStr(refs[i])], q |-> KsStr(q),
                k |-> k, sp |-> IF Sparse THEN 1 ELSE 0, mo |-> mo, self |-> self,
                va |-> KsVariants(KsRankAsc(NR)), vd |-> KsVariants(KsRankDesc(NR))])>>,
      IOEnv.VERIF_CASES)
=============================================================================

------------------------------- MODULE Aggreg -------------------------------
(***************************************************************************)
(* L3 - the aggregating commands: obicount, obisummary, obimatrix.         *)
(*                                                                         *)
(* Each command reduces the stream of records to a value.  The reader      *)
(* (Chunker/parsers, C01), the worker pool and the pair-wise merge of the  *)
(* per-worker values are not visible in what the user is promised: every   *)
(* printed figure is defined below over the MULTISET of input records      *)
(* (sums and cardinalities only - no reference to batches, workers or      *)
(* order), and the implementation-shaped reading (one partial value per    *)
(* batch / worker, merged pair-wise in any tree) is shown equal to it:     *)
(*                                                                         *)
(*     Summary(R1 \o R2) = Merge(Summary(R1), Summary(R2))                 *)
(*     Merge associative, commutative, Summary(<<>>) its identity          *)
(*                                                                         *)
(* (AggregMC checks these on a bounded universe).                          *)
(*                                                                         *)
(* A record is  [id |-> text, len |-> Nat, a |-> annotations]  where       *)
(* annotations is a function key -> value and a value is one of            *)
(*   [t |-> "int", i |-> n]     [t |-> "str", s |-> text]                  *)
(*   [t |-> "float"]  [t |-> "bool"]  [t |-> "null"]      (scalars)        *)
(*   [t |-> "imap", im |-> (name -> Int)]   [t |-> "smap", sm |-> (name -> text)]   (maps)   *)
(*   [t |-> "vec"]                                         (vectors)       *)
(* Text is a TLA+ string; the byte order of texts (sort order of rows and  *)
(* columns) is defined through the ASCII table below.                      *)
(***************************************************************************)
EXTENDS Integers, Sequences, FiniteSets, SequencesExt, TLC

EmptyF == [x \in {} |-> 0]

(* ------------------------------------------------------------------ records *)
Has(r, k) == k \in DOMAIN r.a
KindOf(v) == IF v.t \in {"imap", "smap"} THEN "map" ELSE IF v.t = "vec" THEN "vector" ELSE "scalar"
HasKind(r, k, kind) == Has(r, k) /\ KindOf(r.a[k]) = kind

(* abundance of a record: its `count` annotation, 1 when it has none *)
CountOf(r) == IF Has(r, "count") /\ r.a["count"].t = "int" THEN r.a["count"].i ELSE 1

(* the samples a record belongs to, with its abundance in each: the `merged_sample` map when the record has *)
(* one (obiuniq -m sample), otherwise its `sample` annotation with the whole abundance of the record        *)
SampleMap(r) ==
  IF Has(r, "merged_sample")
  THEN (IF r.a["merged_sample"].t = "imap" THEN r.a["merged_sample"].im ELSE EmptyF)
  ELSE IF Has(r, "sample") /\ r.a["sample"].t = "str" THEN (r.a["sample"].s :> CountOf(r))
  ELSE EmptyF
InSample(r, s) == s \in DOMAIN SampleMap(r)

(* a variant that obiclean tagged `i` (internal: a probable error) in sample s although it was seen there   *)
(* more than once; only defined on dereplicated data (merged_sample + obiclean_status maps)                 *)
BadIn(r, s) ==
  /\ Has(r, "merged_sample") /\ InSample(r, s) /\ SampleMap(r)[s] > 1
  /\ Has(r, "obiclean_status") /\ r.a["obiclean_status"].t = "smap"
  /\ s \in DOMAIN r.a["obiclean_status"].sm /\ r.a["obiclean_status"].sm[s] = "i"

(* ------------------------------------------------- folds over a sequence of records (order-free: + only) *)
SumOf(R, F(_)) == FoldLeft(LAMBDA acc, r : acc + F(r), 0, R)
NumOf(R, P(_)) == FoldLeft(LAMBDA acc, r : IF P(r) THEN acc + 1 ELSE acc, 0, R)
KeysOf(R, kind) == UNION {{k \in DOMAIN R[i].a : KindOf(R[i].a[k]) = kind} : i \in 1..Len(R)}
KeyCount(R, kind) == [k \in KeysOf(R, kind) |-> NumOf(R, LAMBDA r : HasKind(r, k, kind))]
SamplesOf(R) == UNION {DOMAIN SampleMap(R[i]) : i \in 1..Len(R)}

(* ------------------------------------------------------------------ obisummary: the value that is folded *)
Summary(R) ==
  [variants |-> Len(R),
   reads    |-> SumOf(R, CountOf),
   length   |-> SumOf(R, LAMBDA r : r.len),
   nms      |-> NumOf(R, LAMBDA r : Has(r, "merged_sample")),
   nocs     |-> NumOf(R, LAMBDA r : Has(r, "obiclean_status")),
   nocw     |-> NumOf(R, LAMBDA r : Has(r, "obiclean_weight")),
   scalar   |-> KeyCount(R, "scalar"),
   map      |-> KeyCount(R, "map"),
   vector   |-> KeyCount(R, "vector"),
   sreads   |-> [s \in SamplesOf(R) |-> SumOf(R, LAMBDA r : IF InSample(r, s) THEN SampleMap(r)[s] ELSE 0)],
   svar     |-> [s \in SamplesOf(R) |-> NumOf(R, LAMBDA r : InSample(r, s))],
   ssingle  |-> [s \in SamplesOf(R) |-> NumOf(R, LAMBDA r : InSample(r, s) /\ SampleMap(r)[s] = 1)],
   sbad     |-> [s \in SamplesOf(R) |-> NumOf(R, LAMBDA r : BadIn(r, s))]]

(* pair-wise merge of two partial values (what DataSummary.Add has to compute) *)
AddF(f, g) == [k \in (DOMAIN f) \cup (DOMAIN g) |->
                 (IF k \in DOMAIN f THEN f[k] ELSE 0) + (IF k \in DOMAIN g THEN g[k] ELSE 0)]
Merge(x, y) ==
  [variants |-> x.variants + y.variants, reads |-> x.reads + y.reads, length |-> x.length + y.length,
   nms |-> x.nms + y.nms, nocs |-> x.nocs + y.nocs, nocw |-> x.nocw + y.nocw,
   scalar |-> AddF(x.scalar, y.scalar), map |-> AddF(x.map, y.map), vector |-> AddF(x.vector, y.vector),
   sreads |-> AddF(x.sreads, y.sreads), svar |-> AddF(x.svar, y.svar),
   ssingle |-> AddF(x.ssingle, y.ssingle), sbad |-> AddF(x.sbad, y.sbad)]
EmptySummary == Summary(<<>>)

(* implementation-shaped reading: one partial value per batch, merged along a tree.  A tree is a leaf       *)
(* [b |-> batch number] (b = 0: the empty summary a worker that received nothing contributes) or a node     *)
(* [l |-> tree, r |-> tree].                                                                                *)
RECURSIVE MergeTree(_, _)
MergeTree(parts, tree) ==
  IF "b" \in DOMAIN tree THEN (IF tree.b = 0 THEN EmptySummary ELSE parts[tree.b])
  ELSE Merge(MergeTree(parts, tree.l), MergeTree(parts, tree.r))

(* a stored sparse map (keys with a zero figure may be missing) carries the same information as f *)
SparseEq(obs, f) == /\ (DOMAIN obs) \subseteq (DOMAIN f)
                    /\ \A k \in DOMAIN f : (IF k \in DOMAIN obs THEN obs[k] ELSE 0) = f[k]

(* what obisummary prints (JSON or YAML carry the same tree), in a canonical flat form:                     *)
(*  count{variants,reads,total_length} always; annotations{...} iff some record has an annotation;          *)
(*  samples{sample_count, sample_stats} iff some record belongs to a sample; obiclean_bad is reported per   *)
(*  sample iff EVERY record carries an obiclean_status (-1 stands for "not reported")                        *)
Render(S) ==
  [variants |-> S.variants, reads |-> S.reads, total_length |-> S.length,
   has_annotations |-> IF (DOMAIN S.scalar) \cup (DOMAIN S.map) \cup (DOMAIN S.vector) = {} THEN 0 ELSE 1,
   scalar_attributes |-> Cardinality(DOMAIN S.scalar),
   map_attributes    |-> Cardinality(DOMAIN S.map),
   vector_attributes |-> Cardinality(DOMAIN S.vector),
   scalar |-> S.scalar, map |-> S.map, vector |-> S.vector,
   has_samples  |-> IF DOMAIN S.sreads = {} THEN 0 ELSE 1,
   sample_count |-> Cardinality(DOMAIN S.sreads),
   stats |-> [s \in DOMAIN S.sreads |->
               [reads |-> S.sreads[s], variants |-> S.svar[s], singletons |-> S.ssingle[s],
                obiclean_bad |-> IF S.variants = S.nocs THEN S.sbad[s] ELSE -1]]]
SummaryOutput(R) == Render(Summary(R))
(* --yaml-output selects YAML unless --json-output is given too; JSON otherwise *)
SummaryFormat(json, yaml) == IF yaml /\ ~json THEN "yaml" ELSE "json"

(* ---------------------------------------------------------------------- obicount: projections of Summary *)
CountNames == <<"variants", "reads", "symbols">>
CountFigure(S, name) == IF name = "variants" THEN S.variants ELSE IF name = "reads" THEN S.reads ELSE S.length
(* opt \subseteq {"variants","reads","symbols"} = the flags -v -r -s given; none given = all three.  The    *)
(* header line is "entites,n" (sic), then the selected figures in the fixed order variants, reads, symbols. *)
CountSelected(opt) == IF opt = {} THEN {"variants", "reads", "symbols"} ELSE opt
CountOutput(R, opt) ==
  LET S == Summary(R) IN
  [header |-> <<"entites", "n">>,
   lines  |-> [k \in 1..Len(SelectSeq(CountNames, LAMBDA n : n \in CountSelected(opt))) |->
                 LET n == SelectSeq(CountNames, LAMBDA m : m \in CountSelected(opt))[k]
                 IN [name |-> n, n |-> CountFigure(S, n)]]]

(* ------------------------------------------------------------------------------ byte order of texts *)
Printable == " !\"#$%&'()*+,-./0123456789:;<=>?@ABCDEFGHIJKLMNOPQRSTUVWXYZ[\\]^_`abcdefghijklmnopqrstuvwxyz{|}~"
Ascii == [c \in {SubSeq(Printable, i, i) : i \in 1..Len(Printable)} |->
            31 + (CHOOSE i \in 1..Len(Printable) : SubSeq(Printable, i, i) = c)]
Codes(s) == [i \in 1..Len(s) |-> Ascii[SubSeq(s, i, i)]]
LessCodes(x, y) ==
  LET n == IF Len(x) < Len(y) THEN Len(x) ELSE Len(y)
      d == {k \in 1..n : x[k] # y[k]}
  IN IF d = {} THEN Len(x) < Len(y)
     ELSE LET k == CHOOSE k \in d : \A j \in d : k <= j IN x[k] < y[k]
TextLess(s, t) == LessCodes(Codes(s), Codes(t))
(* a sequence of texts is THE ascending enumeration of the set S *)
StrictlyAscending(q) == \A i \in 1..(Len(q) - 1) : TextLess(q[i], q[i + 1])
AscendingEnumOf(q, S) == {q[i] : i \in 1..Len(q)} = S /\ Len(q) = Cardinality(S) /\ StrictlyAscending(q)
SortedTexts(S) == SetToSortSeq(S, TextLess)

(* --------------------------------------------------------------------------------------- obimatrix *)
(* the map attribute `key` of a record as name -> text of the value (decimal digits for integers) *)
IsMapOn(r, key) == HasKind(r, key, "map")
MapText(r, key) == IF r.a[key].t = "imap" THEN [s \in DOMAIN r.a[key].im |-> ToString(r.a[key].im[s])]
                   ELSE r.a[key].sm
IdsOf(R) == {R[i].id : i \in 1..Len(R)}
(* the table exists iff every record has the map attribute and no identifier is used twice; otherwise the   *)
(* command must fail (non-zero exit status) rather than print a table that silently lacks data              *)
MatrixDefined(R, key) == /\ \A i \in 1..Len(R) : IsMapOn(R[i], key)
                         /\ \A i, j \in 1..Len(R) : R[i].id = R[j].id => i = j
RecOf(R, id) == R[CHOOSE i \in 1..Len(R) : R[i].id = id]
NamesOf(R, key) == UNION {DOMAIN MapText(R[i], key) : i \in 1..Len(R)}
CellText(R, key, na, id, s) == LET m == MapText(RecOf(R, id), key) IN IF s \in DOMAIN m THEN m[s] ELSE na
(* layout "bysample" (the default): one row per map key (sample), one column per record identifier;         *)
(* layout "byrecord" (--transpose): one row per record identifier, one column per map key.  The first       *)
(* header cell is "id"; columns and rows are in ascending byte order of their names.                        *)
RowSet(R, key, layout) == IF layout = "byrecord" THEN IdsOf(R) ELSE NamesOf(R, key)
ColSet(R, key, layout) == IF layout = "byrecord" THEN NamesOf(R, key) ELSE IdsOf(R)
CellAt(R, key, na, layout, row, col) ==
  IF layout = "byrecord" THEN CellText(R, key, na, row, col) ELSE CellText(R, key, na, col, row)
Table(R, key, na, layout) ==
  LET cols == SortedTexts(ColSet(R, key, layout))
      rows == SortedTexts(RowSet(R, key, layout))
  IN [header |-> <<"id">> \o cols,
      rows   |-> [i \in 1..Len(rows) |->
                   [name |-> rows[i], cells |-> [j \in 1..Len(cols) |-> CellAt(R, key, na, layout, rows[i], cols[j])]]]]
(* three-column layout: one line per (record, map key) pair that exists, ascending by (id, key) *)
Triples(R, key) == UNION {{<<R[i].id, s, MapText(R[i], key)[s]>> : s \in DOMAIN MapText(R[i], key)} : i \in 1..Len(R)}
TripleLess(x, y) == TextLess(x[1], y[1]) \/ (x[1] = y[1] /\ TextLess(x[2], y[2]))
ThreeColumns(R, key, sname, vname) ==
  [header |-> <<"id", sname, vname>>, rows |-> SetToSortSeq(Triples(R, key), TripleLess)]

(* ------------------------------------------------------------------------------- scenario classes *)
(* features of a scenario, named by the specification (they label coverage counters and select known        *)
(* findings; they are never a verdict).  tool: summary | summarymap | count | matrix | three                *)
Feature(name, cond) == IF cond THEN <<name>> ELSE <<>>
JoinPlus(q) == FoldLeft(LAMBDA acc, x : IF acc = "" THEN x ELSE acc \o "+" \o x, "", q)
ScenarioClass(rs, tool, key, layout) ==
  LET isM == tool \in {"matrix", "three"}
      feats == Feature("null", \E i \in 1..Len(rs) : \E k \in DOMAIN rs[i].a : rs[i].a[k].t = "null")
            \o Feature("dup", isM /\ \E i, j \in 1..Len(rs) : i # j /\ rs[i].id = rs[j].id)
            \o Feature("nomap", isM /\ \E i \in 1..Len(rs) : ~IsMapOn(rs[i], key))
            \o Feature("emptymap", isM /\ \E i \in 1..Len(rs) : IsMapOn(rs[i], key) /\ DOMAIN MapText(rs[i], key) = {})
            \o Feature("big", isM /\ \E i \in 1..Len(rs) : IsMapOn(rs[i], key) /\ rs[i].a[key].t = "imap"
                                       /\ \E s \in DOMAIN rs[i].a[key].im : rs[i].a[key].im[s] >= 1000000)
            \o Feature("norecord", rs = <<>>)
  IN tool \o (IF tool = "matrix" THEN "/" \o layout ELSE "") \o "/" \o (IF feats = <<>> THEN "plain" ELSE JoinPlus(feats))

(* conservation: with integer maps the cells of the table (an absent cell counting 0) add up to the sum of  *)
(* the map values of the input, in both layouts and in the three-column form                                *)
CellInt(R, key, id, s) == LET m == RecOf(R, id).a[key].im IN IF s \in DOMAIN m THEN m[s] ELSE 0
TableTotal(R, key) == LET ids == SetToSeq(IdsOf(R))  names == SetToSeq(NamesOf(R, key)) IN
  FoldLeft(LAMBDA acc, id : acc + FoldLeft(LAMBDA acc2, s : acc2 + CellInt(R, key, id, s), 0, names), 0, ids)
MapTotal(R, key) == SumOf(R, LAMBDA r : LET m == r.a[key].im IN
                                         FoldLeft(LAMBDA acc, s : acc + m[s], 0, SetToSeq(DOMAIN m)))
=============================================================================

----------------------------- MODULE SplitCutMC -----------------------------
(***************************************************************************)
(* X01 (c) - bounded model of obisplit: every read over {a,c,g,t} of       *)
(* length 1..MaxL against each configuration of Configs.  The              *)
(* configurations put a pattern on every branch of the choice rule: a      *)
(* palindromic pattern (both strands hit the same span: equal starts), a   *)
(* pattern and its reverse complement configured separately, two patterns  *)
(* overlapping by construction, two patterns sharing a pool, one mismatch  *)
(* allowed.  TLC checks the property-level clauses of SplitCut on every    *)
(* site list the choice rule can produce, and exports the case with the    *)
(* set of fragment lists the statement allows.                             *)
(***************************************************************************)
EXTENDS SplitCut, Json, CSV, IOUtils

CONSTANTS MaxL, Cfgs

Pat3(tag, pool, rank) == [tag |-> tag, pool |-> pool, rank |-> rank]
ConfigTable ==
  [one   |-> [pats |-> <<Pat3("AC", "pa", 1)>>, e |-> 0],
   two   |-> [pats |-> <<Pat3("AC", "pb", 2), Pat3("TT", "pa", 1)>>, e |-> 0],
   err   |-> [pats |-> <<Pat3("ACG", "pa", 1)>>, e |-> 1],
   pal   |-> [pats |-> <<Pat3("AT", "pa", 1)>>, e |-> 0],
   rcpair |-> [pats |-> <<Pat3("ACG", "pb", 2), Pat3("CGT", "pa", 1)>>, e |-> 0],
   pool  |-> [pats |-> <<Pat3("AC", "pa", 1), Pat3("GG", "pa", 1)>>, e |-> 0],
   palerr |-> [pats |-> <<Pat3("ACGT", "pa", 1), Pat3("GA", "pb", 2)>>, e |-> 1],
   iupac |-> [pats |-> <<Pat3("RY", "pa", 1)>>, e |-> 0]]

VARIABLES cname, read
vars == <<cname, read>>

ccfg == ConfigTable[cname].pats
cerr == ConfigTable[cname].e

Init == cname \in Cfgs /\ read = <<>>
Next == Len(read) < MaxL /\ \E x \in 0..3 : read' = Append(read, x) /\ UNCHANGED cname

---------------------------------------------------------------------------
SL == SiteLists(ccfg, read, cerr)

(* clause 1 *)
Sites == \A K \in SL : SitesOK(ccfg, read, cerr, K)
(* clause 2 *)
Tiling == \A K \in SL : Tiles(read, K, Fragments(ccfg, read, K))
(* clause 3, consistency of the annotations: the flank of a fragment is the site that ends / starts there *)
Flanks == \A K \in SL : LET F == Fragments(ccfg, read, K) IN
   \A i \in DOMAIN F :
      /\ (F[i].lpat = "") = (F[i].from = 0)
      /\ F[i].lpat # "" => \E k \in DOMAIN K : K[k].e = F[i].from /\ TagOf(ccfg, K[k]) = F[i].lpat
                                                /\ K[k].err = F[i].lerr /\ MatchOf(read, K[k]) = F[i].lmatch
      /\ F[i].rpat # "" => \E k \in DOMAIN K : K[k].b = F[i].to /\ TagOf(ccfg, K[k]) = F[i].rpat
                                                /\ K[k].err = F[i].rerr /\ MatchOf(read, K[k]) = F[i].rmatch
      /\ (F[i].rpat = "") = (F[i].to = Len(read))
(* the choice is a function of the read up to the order of equal starts *)
FewChoices == Cardinality(SL) >= 1
(* strand symmetry: when no two occurrences interfere, the reverse-complemented read is cut at the mirrored sites *)
NoInterference(S) == LET O == AllOccs(ccfg, S, cerr) IN \A x, y \in O : x # y => ~Widened(x, y)
MirrorSite(o, n) == [b |-> n - o.e, e |-> n - o.b, err |-> o.err, pi |-> o.pi, fwd |-> ~o.fwd]
Strand == (read # <<>> /\ NoInterference(read)) =>
   LET n == Len(read) IN
   {{MirrorSite(K[i], n) : i \in DOMAIN K} : K \in SL} = {Range(K) : K \in SiteLists(ccfg, RC(read), cerr)}

---------------------------------------------------------------------------
Class == LET O == AllOccs(ccfg, read, cerr) IN
         IF O = {} THEN "no-occurrence"
         ELSE IF \E x, y \in O : x # y /\ x.b = y.b THEN "equal-starts"
         ELSE IF \E x, y \in O : x # y /\ Widened(x, y) THEN "overlapping"
         ELSE IF \E F \in AllowedFrags(ccfg, read, cerr) : F = <<>> THEN "covered"
         ELSE "clean"
Export ==
  read # <<>> =>
  CSVWrite("%1$s", <<ToJson([sub |-> "split", class |-> cname \o "/" \o Class, read |-> ToText(read), e |-> cerr,
                            pats |-> [i \in DOMAIN ccfg |-> <<ccfg[i].tag, ccfg[i].pool>>],
                            allowed |-> SetToSeq(AllowedFrags(ccfg, read, cerr))])>>,
           IOEnv.VERIF_CASES)
=============================================================================

------------------------------- MODULE KmerSim -------------------------------
(***************************************************************************)
(* Extension X04, part (b): what obikmersimcount / obikmermatch count.     *)
(* Built on Kmer.tla (property C19): CanonKmers(s, k, sparse) is the list  *)
(* of canonical k-mers of s (one per window without ambiguity code, the    *)
(* central digit ignored in sparse mode); C19 decides that list and WHICH  *)
(* references a query hits.  Here: HOW MANY k-mers a query shares with     *)
(* each reference, what --min-shared-kmers, --max-kmers and --self do.     *)
(*                                                                         *)
(* Part 1  the count as a function of the two multisets of canonical       *)
(*         k-mers; the index with --max-kmers; the answer of a query       *)
(* Part 2  the same with the three deviations of the code as switches      *)
(*         (dv.plus, dv.occ, dv.self): dv all FALSE is Part 1, dv all TRUE *)
(*         is the code; used to NAME a disagreement, never to accept an    *)
(*         unlisted one                                                    *)
(* Part 3  KmerMap.Push / NewKmerMap / Query AS WRITTEN (lists of          *)
(*         references per k-mer, sort by address, counting loop)           *)
(* KmerSimMC.tla lets TLC check that Part 3 is Part 2 with every switch on *)
(* and the laws of Part 1.                                                 *)
(***************************************************************************)
EXTENDS Integers, Sequences, FiniteSets, SequencesExt, TLC, Kmer

---------------------------------------------------------------------------
(* Part 1 *)

(* k-mer size really used: NewKmerMap makes it even in plain mode and odd in sparse mode (by design, with a warning) *)
KsEffK(k, sparse) == IF sparse /\ k % 2 = 0 THEN k + 1 ELSE IF ~sparse /\ k % 2 = 1 THEN k - 1 ELSE k

KsBagCount(bag, x) == IF x \in DOMAIN bag THEN bag[x] ELSE 0

(* THE COUNT.  Number of pairs (window of q, window of r) that hold the same canonical k-mer:          *)
(*    Shared(q, r) = SUM over k-mers x of  q(x) * r(x)                                                 *)
(* where q(x), r(x) are the numbers of occurrences of x in the two sequences.  For sequences without   *)
(* repeated k-mer it is the number of distinct k-mers they have in common.                             *)
KsSharedDef(qk, rk) == Cardinality({p \in (1..Len(qk)) \X (1..Len(rk)) : qk[p[1]] = rk[p[2]]})

KsSharedBags(qbag, rbag) ==
  FoldLeft(LAMBDA acc, x : acc + qbag[x] * rbag[x], 0, SetToSeq(DOMAIN qbag \cap DOMAIN rbag))

(* occurrences of x over all the references (each occurrence counts) *)
KsOcc(rbags, x) == FoldLeft(LAMBDA acc, i : acc + KsBagCount(rbags[i], x), 0, [i \in 1..Len(rbags) |-> i])

(* --max-kmers M: a k-mer that occurs more than M times in the references is not indexed; -1 = no limit *)
KsKept(rbags, x, maxocc) == maxocc = -1 \/ KsOcc(rbags, x) <= maxocc

(* count of the query (list of keys qk) against reference i *)
KsCount(qk, rbags, i, maxocc) ==
  FoldLeft(LAMBDA acc, x : acc + (IF KsKept(rbags, x, maxocc) THEN KsBagCount(rbags[i], x) ELSE 0), 0, qk)

(* the answer of Query: the references that share a k-mer, each with its count, the query itself         *)
(* (self = its index when the query IS one of the references, --self; 0 otherwise) left out;           *)
(* as a vector: 0 = not in the answer                                                                   *)
KsAnswer(qk, rbags, maxocc, self) ==
  [i \in 1..Len(rbags) |-> IF i = self THEN 0 ELSE KsCount(qk, rbags, i, maxocc)]

(* --min-shared-kmers m keeps the references whose count is at least m *)
KsFilter(ans, minc) == [i \in 1..Len(ans) |-> IF ans[i] >= minc THEN ans[i] ELSE 0]
KsMatchSet(ans) == {i \in 1..Len(ans) : ans[i] > 0}
(* KmerMatch.Max: any reference of the answer with the largest count *)
KsMaxSet(ans) == {i \in KsMatchSet(ans) : \A j \in KsMatchSet(ans) : ans[j] <= ans[i]}

---------------------------------------------------------------------------
(* Part 2 - the deviations of the code, as switches *)

KsDv(plus, occ, slf) == [plus |-> plus, occ |-> occ, slf |-> slf]
KsSpecDv == KsDv(FALSE, FALSE, FALSE)
KsCodeDv == KsDv(TRUE, TRUE, TRUE)
(* from the fewest switches to all of them: the first variant that explains an observation names it *)
KsDvOrder == <<KsDv(FALSE, FALSE, FALSE), KsDv(TRUE, FALSE, FALSE), KsDv(FALSE, TRUE, FALSE), KsDv(FALSE, FALSE, TRUE),
               KsDv(TRUE, TRUE, FALSE), KsDv(TRUE, FALSE, TRUE), KsDv(FALSE, TRUE, TRUE), KsDv(TRUE, TRUE, TRUE)>>
KsDvName(dv) ==
  IF dv = KsSpecDv THEN "spec"
  ELSE (IF dv.plus THEN "+count_plus_one" ELSE "") \o (IF dv.occ THEN "+max_kmers_boundary" ELSE "")
       \o (IF dv.slf THEN "+self_counted_when_last" ELSE "")

(*  dv.plus : every count is one more than the number of shared k-mers (n = 1 then n++ on the first hit) *)
(*  dv.occ  : a k-mer that occurs exactly M times is dropped too (len >= maxoccurs)                       *)
(*  dv.slf  : the query itself is kept in its own answer when its address is the highest of the hits     *)
(*            (the last group of the counting loop is stored without the test); rank[i] = position of    *)
(*            reference i in the order of the addresses, observed on the run                             *)
KsKeptV(rbags, x, maxocc, dv) ==
  maxocc = -1 \/ (IF dv.occ THEN KsOcc(rbags, x) < maxocc ELSE KsOcc(rbags, x) <= maxocc)

KsAnswerV(qk, rbags, maxocc, self, rank, dv) ==
  LET c == [i \in 1..Len(rbags) |->
              FoldLeft(LAMBDA acc, x : acc + (IF KsKeptV(rbags, x, maxocc, dv) THEN KsBagCount(rbags[i], x) ELSE 0), 0, qk)]
      selfkept == dv.slf /\ self # 0 /\ \A j \in 1..Len(rbags) : c[j] > 0 => rank[j] <= rank[self]
  IN [i \in 1..Len(rbags) |->
        IF c[i] = 0 THEN 0
        ELSE IF i = self /\ ~selfkept THEN 0
        ELSE IF dv.plus THEN c[i] + 1 ELSE c[i]]

KsRankAsc(n) == [i \in 1..n |-> i]                 \* addresses grow with the index
KsRankDesc(n) == [i \in 1..n |-> n + 1 - i]
(* the query has the highest / the lowest address of all *)
KsRankSelfHigh(n, self) == [i \in 1..n |-> IF i = self THEN n + 1 ELSE i]
KsRankSelfLow(n, self) == [i \in 1..n |-> IF i = self THEN 0 ELSE i]

(* the first variant (fewest switches) whose value v(dv) equals the observation; "none" when no variant explains it *)
KsExplain(obs, v(_)) ==
  LET hits == SelectSeq(KsDvOrder, LAMBDA dv : v(dv) = obs)
  IN IF hits = <<>> THEN "none" ELSE KsDvName(hits[1])

---------------------------------------------------------------------------
(* Part 3 - the code as written (pkg/obikmer/kmermap.go).  References are numbers 1..n; rank[i] is the *)
(* position of reference i in the order of the addresses.                                              *)

KsGet(idx, x) == IF x \in DOMAIN idx THEN idx[x] ELSE <<>>

(* Push of every reference in turn: the k-mer lists grow while len <= maxoccurs; then NewKmerMap deletes *)
(* the k-mers whose list has maxoccurs entries or more                                                   *)
KsCodeIndex(rks, maxocc) ==
  LET pushed == FoldLeft(LAMBDA idx, i :
                   FoldLeft(LAMBDA ix, x :
                              IF maxocc = -1 \/ Len(KsGet(ix, x)) <= maxocc
                              THEN (x :> Append(KsGet(ix, x), i)) @@ ix ELSE ix,
                            idx, rks[i]),
                   <<>>, [i \in 1..Len(rks) |-> i])
      keep == {x \in DOMAIN pushed : ~(maxocc >= 0 /\ Len(pushed[x]) >= maxocc)}
  IN [x \in keep |-> pushed[x]]

(* Query: concatenate the lists of the k-mers of the query, sort by address, count runs *)
KsCodeQuery(qk, idx, rank, self, nrefs) ==
  LET hits == FoldLeft(LAMBDA acc, x : acc \o KsGet(idx, x), <<>>, qk)
      sorted == SortSeq(hits, LAMBDA a, b : rank[a] < rank[b])
      fin == FoldLeft(LAMBDA st, sq :
                 IF sq # st.prev
                 THEN [prev |-> sq, n |-> 2,
                       rep |-> IF st.prev # 0 /\ st.prev # self THEN (st.prev :> st.n) @@ st.rep ELSE st.rep]
                 ELSE [st EXCEPT !.n = st.n + 1],
               [prev |-> 0, n |-> 0, rep |-> <<>>], sorted)
      rep == IF fin.prev # 0 THEN (fin.prev :> fin.n) @@ fin.rep ELSE fin.rep
  IN [i \in 1..nrefs |-> IF i \in DOMAIN rep THEN rep[i] ELSE 0]

---------------------------------------------------------------------------
(* Part 4 - obikmermatch: which (query, reference) pairs must come out as exact.                       *)
(* The alignment itself (scores, consensus of an inexact overlap) is not specified here.  What is: when *)
(* the shorter of query and reference occurs EXACTLY, and only once (both strands counted), in the      *)
(* longer one, the pair is reported over the whole length of the shorter one with identity 1, on the    *)
(* strand of the occurrence.  where = "end": the occurrence is a prefix or a suffix of the longer        *)
(* sequence (or the two are equal); "internal": both ends of the longer one overhang - the listed       *)
(* deviation of the code (such a pair is reported with mismatches, or not at all).                      *)
(* The clause is stated for overlaps longer than k and of KsMinOverlap symbols or more (the placement  *)
(* of the two sequences is voted by the 4-mers they share: a handful of symbols cannot outvote chance). *)
KsMinOverlap == 20

KsOccs(w, t) == {p \in 1..(Len(t) - Len(w) + 1) : SubSeq(t, p, p + Len(w) - 1) = w}

KsExact(q, r) ==
  LET sh == IF Len(q) <= Len(r) THEN q ELSE r
      lg == IF Len(q) <= Len(r) THEN r ELSE q
      fw == KsOccs(sh, lg)
      rv == KsOccs(KmerRevCompSeq(sh), lg)
  IN IF Len(sh) = 0 \/ Cardinality(fw) + Cardinality(rv) # 1 THEN [where |-> "none", rev |-> 0, len |-> 0, pos |-> 0]
     ELSE LET p == CHOOSE x \in fw \cup rv : TRUE
          IN [where |-> IF p = 1 \/ p = Len(lg) - Len(sh) + 1 THEN "end" ELSE "internal",
              rev |-> IF fw = {} THEN 1 ELSE 0, len |-> Len(sh),
              pos |-> p]            \* where sh (or its reverse complement when rev = 1) starts in lg, 1-based

(* A second listed deviation, of the placement vote (obikmer.FastShiftFourMer in its default, "relative", mode).   *)
(* The query a and the reference b (reverse-complemented when the occurrence is on the other strand) are placed at *)
(* the shift d = position in a minus position in b (0-based) whose shared 4-mers, DIVIDED by the length the vote    *)
(* believes the overlap has, score highest; equal scores: the smallest shift.  An exact overlap scores 1, the       *)
(* maximum, whatever its length: an exact overlap of a handful of symbols at a smaller shift (the end of b on the   *)
(* start of a) ties with the real one and wins.  KsTieBefore says whether such a competitor exists.                *)
KsMin2(x, y) == IF x <= y THEN x ELSE y
KsMax2(x, y) == IF x >= y THEN x ELSE y
KsTrueOver(la, lb, d) == KsMin2(la, d + lb) - KsMax2(0, d)
KsVotedOver(la, lb, d) == IF d > 0 THEN la - d ELSE IF d < 0 THEN lb + d ELSE KsMin2(la, lb)
KsPerfectAt(a, b, d) ==
  LET lo == KsMax2(0, d)  hi == KsMin2(Len(a), d + Len(b)) - 1            \* 0-based positions of a
  IN /\ hi - lo + 1 >= 4
     /\ KsVotedOver(Len(a), Len(b), d) = hi - lo + 1
     /\ \A i \in lo..hi : a[i + 1] = b[i - d + 1]
KsTieBefore(a, b, dstar) == \E d \in (4 - Len(b))..(dstar - 1) : KsPerfectAt(a, b, d)

(* the shift of the exact overlap e = KsExact(q, r) when q is placed against r (or its reverse complement) *)
KsExactShift(q, r, e) ==
  IF Len(q) <= Len(r)
  THEN (IF e.rev = 0 THEN -(e.pos - 1) ELSE -(Len(r) - e.pos - Len(q) + 1))
  ELSE e.pos - 1
=============================================================================

----------------------------- MODULE MicrosatMC -----------------------------
(***************************************************************************)
(* Extension X04 (a) - bounded model of Microsat.tla.  One state per       *)
(* (sequence, options); the step Compute evaluates the definition, the     *)
(* linear evaluation and the search as written in the code.  Theorems      *)
(* (INVARIANTS):                                                           *)
(*   FastAgrees        the folds of Part 2 give the lengths and the answer *)
(*                     of the definition                                   *)
(*   OneCountPerUnit   (a, p) determines k                                 *)
(*   LongerUnitLonger  two microsatellites that start at the same place:   *)
(*                     the longer unit is the longer microsatellite        *)
(*                     (Fine and Wilf), so "longest unit" = "longest"      *)
(*   LeftMaximal       the reported one cannot be extended to the left     *)
(*                     by one symbol                                       *)
(*   StrandExistence   s has a microsatellite iff its reverse complement   *)
(*                     has one                                             *)
(*   UnitLaws          the normalised unit is the same for every rotation  *)
(*                     and both strands, belongs to the class, and at      *)
(*                     least one orientation is right                      *)
(*   RecordLaws        every acceptable record: left.microsat.right is     *)
(*                     the sequence, the microsatellite is k copies of a   *)
(*                     primitive unit of length p, from/to are consistent, *)
(*                     and after re-orientation the unit is a rotation of  *)
(*                     the normalised unit                                 *)
(*   CodeSound         what the search as written returns IS the reported  *)
(*                     microsatellite, never a nil dereference (N >= 2)    *)
(*   CodeDeparts       when it returns nothing although there is one, the  *)
(*                     first repeat met lies further left and is not a     *)
(*                     microsatellite itself (period < m, or shorter than  *)
(*                     L): the two departure classes                       *)
(*   CodeFastAgrees    the linear form of the search as written = its      *)
(*                     definition                                          *)
(* Export writes, per state, the set of acceptable records and the         *)
(* departure class.                                                        *)
(***************************************************************************)
EXTENDS Integers, Sequences, FiniteSets, TLC, Json, CSV, IOUtils, SequencesExt, Microsat

CONSTANTS MsConfigs      \* set of records [fam, alpha, n, opts]

VARIABLES s, o, fam, done, res
vars == <<s, o, fam, done, res>>

MsOpt(m, M, N, L, f, re) == [m |-> m, M |-> M, N |-> N, L |-> L, f |-> f, re |-> re]

(* option grids *)
MsScanOpts ==
  {MsOpt(mm[1], mm[2], N, L, f, TRUE) :
     mm \in {<<1, 2>>, <<1, 3>>, <<2, 2>>, <<2, 3>>}, N \in {2, 3}, L \in {0, 5, 7}, f \in {0, 2}}
MsScanOptsQuick ==
  {MsOpt(mm[1], mm[2], N, L, f, TRUE) :
     mm \in {<<1, 2>>, <<1, 3>>, <<2, 2>>, <<2, 3>>}, N \in {2, 3}, L \in {0, 5}, f \in {0, 2}}
MsBreakOptsQuick ==
  {MsOpt(2, 3, N, L, 0, TRUE) : N \in {2, 3}, L \in {0, 5}} \cup {MsOpt(1, 3, 2, 5, 0, TRUE)}
MsStrandOptsQuick ==
  {MsOpt(1, M, 2, 0, f, re) : M \in {2, 3}, f \in {0, 1}, re \in {TRUE, FALSE}}
MsScanOptsSmall ==
  {MsOpt(mm[1], mm[2], N, L, 0, TRUE) : mm \in {<<1, 3>>, <<2, 3>>}, N \in {2, 3}, L \in {0, 5}}
MsStrandOpts ==
  {MsOpt(1, M, 2, L, f, re) : M \in {2, 3}, L \in {0, 5}, f \in {0, 1}, re \in {TRUE, FALSE}}
MsWideOpts ==
  {MsOpt(mm[1], mm[2], N, L, 0, TRUE) : mm \in {<<1, 4>>, <<2, 5>>, <<3, 6>>}, N \in {2, 3}, L \in {0, 9}}

MsQuickConfigs ==
  {[fam |-> "scan",   alpha |-> {"a", "c"},           lo |-> 0, n |-> 7,  opts |-> MsScanOptsQuick],
   [fam |-> "break",  alpha |-> {"a", "c", "n"},      lo |-> 6, n |-> 6,  opts |-> MsBreakOptsQuick],
   [fam |-> "strand", alpha |-> {"a", "c", "g", "t"}, lo |-> 0, n |-> 4,  opts |-> MsStrandOptsQuick],
   [fam |-> "wide",   alpha |-> {"a", "c"},           lo |-> 10, n |-> 10, opts |-> {MsOpt(2, 5, 2, 0, 0, TRUE)}]}
MsThoroughConfigs ==
  {[fam |-> "scan",   alpha |-> {"a", "c"},           lo |-> 0, n |-> 10, opts |-> MsScanOpts],
   [fam |-> "break",  alpha |-> {"a", "c", "n"},      lo |-> 4, n |-> 7,  opts |-> MsScanOptsSmall],
   [fam |-> "strand", alpha |-> {"a", "c", "g", "t"}, lo |-> 0, n |-> 5,  opts |-> MsStrandOpts],
   [fam |-> "wide",   alpha |-> {"a", "c"},           lo |-> 12, n |-> 12, opts |-> MsWideOpts]}

MsSeqs(S, lo, n) == UNION {[1..k -> S] : k \in lo..n}

RECURSIVE MsStr(_)
MsStr(q) == IF q = <<>> THEN "" ELSE q[1] \o MsStr(Tail(q))

MsNothing == [all |-> {}, found |-> <<>>, fast |-> <<>>, code |-> <<>>, codefast |-> <<>>, outs |-> {}, dep |-> "none"]

Init == /\ \E c \in MsConfigs : s \in MsSeqs(c.alpha, c.lo, c.n) /\ o \in c.opts /\ fam = c.fam
        /\ done = FALSE
        /\ res = MsNothing

Compute ==
  /\ ~done
  /\ done' = TRUE
  /\ LET all   == MsAll(s, o)
         found == MsPick(all)
         code  == MsCodeFind(s, o)
     IN res' = [all |-> all, found |-> found,
                fast  |-> MsFoundFast(s, o),
                code  |-> code,
                codefast |-> MsCodeFindFast(s, o),
                outs  |-> MsOutputsOf(s, found, o),
                dep   |-> MsDeparture(s, o, found, code)]
  /\ UNCHANGED <<s, o, fam>>

Next == Compute

---------------------------------------------------------------------------
NoL == [o EXCEPT !.L = 0]

FastAgrees ==
  done => /\ res.fast = res.found
          /\ \A p \in o.m..o.M : LET row == MsExtRow(s, p) IN \A i \in 1..Len(s) : row[i] = MsExtDef(s, p, i)

OneCountPerUnit ==
  done => \A t, u \in res.all : (t[1] = u[1] /\ t[2] = u[2]) => t = u

LongerUnitLonger ==
  done => \A t, u \in MsAll(s, NoL) : (t[1] = u[1] /\ t[2] < u[2]) => t[2] * t[3] < u[2] * u[3]

LeftMaximal ==
  (done /\ res.found # <<>>) =>
     LET a == res.found[1]  p == res.found[2]
     IN a = 1 \/ ~MsClear(s[a - 1]) \/ s[a - 1] # s[a - 1 + p]

StrandExistence ==
  done => ((res.found = <<>>) <=> (MsFound(RC(s), o) = <<>>))

UnitLaws ==
  (done /\ res.found # <<>>) =>
     LET u == SubSeq(s, res.found[1], res.found[1] + res.found[2] - 1)
         nz == MsNormalized(u)
     IN /\ nz \in MsClass(u)
        /\ \A v \in MsClass(u) : MsNormalized(v) = nz /\ ~MsLess(v, nz)
        /\ MsOrients(u) # {}
        /\ MsPrimitive(u) /\ MsPrimitive(nz)

MsRepeat(u, k) == [i \in 1..(k * Len(u)) |-> u[((i - 1) % Len(u)) + 1]]

RecordLaws ==
  done => \A r \in res.outs :
            /\ r.left \o r.ms \o r.right = r.seq
            /\ r.seq = (IF r.cmp = 1 THEN RC(s) ELSE s)
            /\ (r.cmp = 1) <=> (o.re /\ r.orient = "reverse")
            /\ r.ms = MsRepeat(r.unit, r.uc)
            /\ Len(r.unit) = r.ul /\ r.ul \in o.m..o.M /\ r.uc >= o.N /\ r.ul * r.uc >= o.L
            /\ r.from = Len(r.left) + 1 /\ r.to = r.from + r.ul * r.uc - 1 /\ r.slen = Len(s)
            /\ MsPrimitive(r.unit)
            /\ r.norm = MsNormalized(r.unit)
            /\ (o.re => r.norm \in MsRotations(r.unit))
            /\ ((~o.re /\ r.orient = "direct") => r.norm \in MsRotations(r.unit))
            /\ Len(r.left) >= o.f /\ Len(r.right) >= o.f

CodeSound ==
  done => /\ res.code # <<0, 0, 0>>
          /\ (res.code # <<>> => res.code = res.found)

CodeDeparts ==
  done => /\ res.dep \in {"none", "masked_by_smaller_period", "masked_by_short_repeat"}
          /\ (res.dep = "none") <=> (res.code = res.found)

CodeFastAgrees == done => res.codefast = res.code

---------------------------------------------------------------------------
MsOutRec(r) ==
  [ul |-> r.ul, uc |-> r.uc, slen |-> r.slen, from |-> r.from, to |-> r.to, ms |-> MsStr(r.ms), unit |-> MsStr(r.unit),
   norm |-> MsStr(r.norm), orient |-> r.orient, left |-> MsStr(r.left), right |-> MsStr(r.right), seq |-> MsStr(r.seq), cmp |-> r.cmp]

MsClassOf ==
  fam \o "/" \o
  (IF res.found = <<>> THEN "none"
   ELSE IF res.outs = {} THEN "flank_too_short"
   ELSE IF Cardinality(res.outs) = 2 THEN "found/either_orientation"
   ELSE "found/" \o (CHOOSE r \in res.outs : TRUE).orient)
  \o (IF res.dep = "none" THEN "" ELSE "/" \o res.dep)

Export ==
  done =>
    CSVWrite("%1$s",
      <<ToJson([kind |-> "ms", cls |-> MsClassOf, s |-> MsStr(s),
                umin |-> o.m, umax |-> o.M, cnt |-> o.N, minlen |-> o.L, flank |-> o.f, re |-> IF o.re THEN 1 ELSE 0,
                outs |-> SetToSeq({MsOutRec(r) : r \in res.outs}),
                dep |-> res.dep,
                codedrop |-> IF res.code = <<>> THEN 1 ELSE 0])>>,
      IOEnv.VERIF_CASES)
=============================================================================

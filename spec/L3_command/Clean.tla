------------------------------- MODULE Clean -------------------------------
(***************************************************************************)
(* C13 - what obiclean must compute for ONE sample (default distance 1).   *)
(*                                                                         *)
(* A data set is a sequence of [seq, count] with pairwise distinct seq     *)
(* (sequences are tuples of one-character strings).                        *)
(*   Edge(s, f)  <=>  count(f) > count(s)  /\  the two sequences differ by  *)
(*                    exactly one substitution or one indel                *)
(*   SonCount(f) = number of s with Edge(s, f)                             *)
(*   Weight: every node starts with its count; a node whose sons have all  *)
(*           contributed gives round(W * count(f) / sum of its fathers'    *)
(*           counts) to each father f      (reweightSequences)             *)
(*   ratio filter p/q (only when p/q < 1): the edge s->f is kept iff       *)
(*           W(s)/W(f) <= p/q ; SonCount decremented for removed edges     *)
(*   status: "i" has a father, "h" no father but sons, "s" neither.        *)
(* The worker pool that builds the edges is in CleanRace.tla.              *)
(***************************************************************************)
EXTENDS Integers, Sequences, FiniteSets, TLC, Json, CSV, IOUtils

CONSTANTS Pool,      \* candidate sequences
          Counts,    \* candidate counts
          MaxSeqs

VARIABLES ds, ratio, res, phase
vars == <<ds, ratio, res, phase>>

---------------------------------------------------------------------------
(* exactly one edit apart *)
DropAt(s, i) == SubSeq(s, 1, i - 1) \o SubSeq(s, i + 1, Len(s))
OneSub(a, b) == Len(a) = Len(b) /\ Cardinality({i \in 1..Len(a) : a[i] # b[i]}) = 1
OneIndel(a, b) ==
  \/ Len(a) = Len(b) + 1 /\ \E i \in 1..Len(a) : DropAt(a, i) = b
  \/ Len(b) = Len(a) + 1 /\ \E i \in 1..Len(b) : DropAt(b, i) = a
D1(a, b) == OneSub(a, b) \/ OneIndel(a, b)

N(d) == Len(d)
Edge(d, s, f) == s # f /\ d[f].count > d[s].count /\ D1(d[s].seq, d[f].seq)
Fathers(d, s) == {f \in 1..N(d) : Edge(d, s, f)}
Sons(d, f) == {s \in 1..N(d) : Edge(d, s, f)}

RECURSIVE SumCounts(_, _)
SumCounts(d, S) == IF S = {} THEN 0 ELSE LET x == CHOOSE x \in S : TRUE IN d[x].count + SumCounts(d, S \ {x})

(* math.Round(a / c) for non negative integers: half away from zero *)
RoundDiv(a, c) == (2 * a + c) \div (2 * c)

RECURSIVE W(_, _)
RECURSIVE SumContrib(_, _, _)
W(d, n) == d[n].count + SumContrib(d, n, Sons(d, n))
SumContrib(d, f, S) ==
  IF S = {} THEN 0
  ELSE LET s == CHOOSE x \in S : TRUE
       IN RoundDiv(W(d, s) * d[f].count, SumCounts(d, Fathers(d, s))) + SumContrib(d, f, S \ {s})

(* ratio = <<p, q>> ; no filtering when p >= q (the code tests RatioMax() < 1.0) *)
Kept(d, r, s, f) == Edge(d, s, f) /\ (r[1] >= r[2] \/ W(d, s) * r[2] <= W(d, f) * r[1])
KeptFathers(d, r, s) == {f \in 1..N(d) : Kept(d, r, s, f)}
KeptSons(d, r, f) == {s \in 1..N(d) : Kept(d, r, s, f)}
Status(d, r, n) == IF KeptFathers(d, r, n) # {} THEN "i" ELSE IF KeptSons(d, r, n) # {} THEN "h" ELSE "s"

Graph(d, r) == [n \in 1..N(d) |->
   [weight |-> W(d, n), soncount |-> Cardinality(KeptSons(d, r, n)), status |-> Status(d, r, n),
    fathers |-> KeptFathers(d, r, n)]]

---------------------------------------------------------------------------
S2(x, y) == <<x, y>>
PoolQuick == { <<"a","a">>, <<"a","c">>, <<"a","a","a">>, <<"a","c","a">>, <<"a","a","c">>, <<"c","a">>,
               <<"a","a","a","a">>, <<"a","c","c">> }
PoolThorough == PoolQuick \cup { <<"c","c">>, <<"a","a","c","a">>, <<"c","a","a">> }

Subsets == {S \in SUBSET Pool : Cardinality(S) <= MaxSeqs}
RECURSIVE SetToSeq(_)
SetToSeq(S) == IF S = {} THEN <<>> ELSE LET x == CHOOSE x \in S : TRUE IN <<x>> \o SetToSeq(S \ {x})

Init ==
  /\ phase = "case" /\ res = <<>>
  /\ ratio \in {<<1, 1>>, <<1, 2>>}
  /\ \E S \in Subsets : \E cs \in [1..Cardinality(S) -> Counts] :
        ds = [i \in 1..Cardinality(S) |-> [seq |-> SetToSeq(S)[i], count |-> cs[i]]]

Step == phase = "case" /\ res' = Graph(ds, ratio) /\ phase' = "done" /\ UNCHANGED <<ds, ratio>>
Next == Step

---------------------------------------------------------------------------
(* sanity theorems of the definition *)
Acyclic == phase = "done" => \A n \in 1..N(ds) : \A f \in res[n].fathers : ds[f].count > ds[n].count
StatusConsistent == phase = "done" => \A n \in 1..N(ds) :
   /\ (res[n].status = "i") = (res[n].fathers # {})
   /\ (res[n].status = "h") => res[n].soncount > 0
   /\ (res[n].status = "s") => res[n].soncount = 0
WeightAtLeastCount == phase = "done" => \A n \in 1..N(ds) : res[n].weight >= ds[n].count
(* without rounding loss the total weight of the heads would be the total count: never more than +-(#edges) away *)
D1Symmetric == phase = "done" => \A a, b \in 1..N(ds) : D1(ds[a].seq, ds[b].seq) = D1(ds[b].seq, ds[a].seq)

Str(s) == LET RECURSIVE F(_) F(t) == IF t = <<>> THEN "" ELSE Head(t) \o F(Tail(t)) IN F(s)
Export == phase = "done" =>
  CSVWrite("%1$s", <<ToJson([seqs |-> [i \in 1..N(ds) |-> Str(ds[i].seq)], counts |-> [i \in 1..N(ds) |-> ds[i].count],
                            ratio |-> ratio,
                            weight |-> [i \in 1..N(ds) |-> res[i].weight],
                            soncount |-> [i \in 1..N(ds) |-> res[i].soncount],
                            status |-> [i \in 1..N(ds) |-> res[i].status],
                            fathers |-> [i \in 1..N(ds) |-> [j \in 1..N(ds) |-> IF j \in res[i].fathers THEN 1 ELSE 0]]])>>,
           IOEnv.VERIF_CASES)
=============================================================================

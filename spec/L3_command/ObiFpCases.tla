----------------------------- MODULE ObiFpCases -----------------------------
(***************************************************************************)
(* Case generator for property C20 (step M, exports the cases of step R).  *)
(*                                                                         *)
(* Operands are built from 64-bit limb PATTERNS -- the word-boundary       *)
(* values of the property's quantifier, written directly as bytes:         *)
(*   0: 0        1: 1          2: 2^32-1    3: 2^32      4: 2^32+1         *)
(*   5: 2^63-1   6: 2^63       7: 2^63+1    8: 2^64-2    9: 2^64-1         *)
(*  10: 0xAA..AA 11: 0x55..55 12: 0x0123456789ABCDEF (all bytes distinct)  *)
(*  13: 3  (0x55..55 * 3 = 2^64-1: with all-ones below it, the product      *)
(*      carries out of the cross-product sum without any high word)        *)
(* A K-limb operand is a tuple of K pattern numbers (limb 0 first).        *)
(* Operand sets:  Combo(K,S) = every combination of the patterns of S in   *)
(* the K limbs;  Family(K,P,F) = pattern p of P in one limb, the same      *)
(* filler f of F in all the others.  TLC enumerates the operand pairs and  *)
(* ALL shift amounts 0..64K+64, evaluates ObiFp!Expect and exports one     *)
(* JSON line per case; the harness replays it on the real types.           *)
(* Invariants checked on every case: algebraic laws tying the exported     *)
(* expectations together (WellFormed).                                     *)
(***************************************************************************)
EXTENDS ObiFp, TLC, Json, CSV, IOUtils

CONSTANTS Ks,         \* limb counts explored: subset of {1, 2, 4}
          PAll,       \* patterns of the one-limb families
          PFill,      \* fillers of the families
          PCombo,     \* patterns combined freely in all limbs
          PShift,     \* patterns of the shifted operands
          PPartner,   \* patterns of the second operand of "bin"
          PMul,       \* patterns of the multiplication operands
          PMulFill,   \* their fillers
          PDivA, PDivB,   \* patterns of dividend / divisor
          PDivFill,       \* fillers of the dividend
          PX          \* patterns of the Uint64 carry operations

VARIABLES c, out

PatBytes == <<
  <<0, 0, 0, 0, 0, 0, 0, 0>>,                    \*  0
  <<1, 0, 0, 0, 0, 0, 0, 0>>,                    \*  1
  <<255, 255, 255, 255, 0, 0, 0, 0>>,            \*  2^32-1
  <<0, 0, 0, 0, 1, 0, 0, 0>>,                    \*  2^32
  <<1, 0, 0, 0, 1, 0, 0, 0>>,                    \*  2^32+1
  <<255, 255, 255, 255, 255, 255, 255, 127>>,    \*  2^63-1
  <<0, 0, 0, 0, 0, 0, 0, 128>>,                  \*  2^63
  <<1, 0, 0, 0, 0, 0, 0, 128>>,                  \*  2^63+1
  <<254, 255, 255, 255, 255, 255, 255, 255>>,    \*  2^64-2
  <<255, 255, 255, 255, 255, 255, 255, 255>>,    \*  2^64-1
  <<170, 170, 170, 170, 170, 170, 170, 170>>,    \*  0xAAAAAAAAAAAAAAAA
  <<85, 85, 85, 85, 85, 85, 85, 85>>,            \*  0x5555555555555555
  <<239, 205, 171, 137, 103, 69, 35, 1>>,        \*  0x0123456789ABCDEF
  <<3, 0, 0, 0, 0, 0, 0, 0>> >>                  \*  3 = 2^1+1 = 2^2-1

Bytes(p) == Force([i \in 1..(8 * Len(p)) |-> PatBytes[p[(i - 1) \div 8 + 1] + 1][((i - 1) % 8) + 1]])

Tup(f, K) == [j \in 1..K |-> f[j]]
Combo(K, S) == { Force(Tup(f, K)) : f \in [1..K -> S] }
Family(K, P, F) == { Force([j \in 1..K |-> IF j = i THEN p ELSE f]) : i \in 1..K, p \in P, f \in F }
Vals(K) == Combo(K, PCombo) \cup Family(K, PAll, PFill)

ShVals(K)   == Family(K, PShift, PFill) \cup Combo(K, PShift \cap PCombo)
Partners(K) == Family(K, PPartner, PFill) \cup Combo(K, PPartner \cap PCombo)
MulVals(K)  == Family(K, PMul, PMulFill) \cup Combo(K, PMul \cap PCombo)
DivA(K)     == Family(K, PDivA, PDivFill)
DivB(K)     == { t \in Family(K, PDivB, {0}) \cup Family(K, PDivB \cap PCombo, {9}) : \E j \in 1..K : t[j] # 0 }

Case(g, p, q, n) == [g |-> g, pa |-> p, pb |-> q, n |-> n]

(* written as nested quantifiers so that TLC enumerates the cases without    *)
(* first building (and sorting) one big set of records                       *)
Init ==
  /\ out = <<>>
  /\ \E K \in Ks :
       \/ \E p \in ShVals(K), n \in 0..(64 * K + 64) : c = Case("sh", p, <<>>, n)
       \/ \E p \in Vals(K) : c = Case("un", p, <<>>, 0)
       \/ \E p \in Vals(K), q \in Partners(K) : c = Case("bin", p, q, 0) \/ c = Case("bin", q, p, 0)
       \/ \E p \in MulVals(K), q \in MulVals(K) : c = Case("mul", p, q, 0)
       \/ K > 1 /\ \E p \in DivA(K), q \in DivB(K) : c = Case("div", p, q, 0)
       \/ K = 1 /\ \E p \in PX, q \in PX, n \in 0..64 : c = Case("u64x", <<p>>, <<q>>, n)

Next ==
  /\ out = <<>>
  /\ LET a == Bytes(c.pa)
         b == IF c.pb = <<>> THEN <<>> ELSE Bytes(c.pb)
     IN out' = [g |-> c.g, a |-> a, b |-> b, n |-> c.n, x |-> Expect(c.g, a, b, c.n)]
  /\ UNCHANGED c

---------------------------------------------------------------------------
(* laws between the exported expectations (cheap, evaluated on every case) *)
IsBytes(s) == \A i \in 1..Len(s) : s[i] \in 0..255
WellFormed ==
  out # <<>> =>
    LET x == out.x  a == out.a  b == out.b  k == Len(out.a) IN
    /\ \A f \in DOMAIN x : x[f] = DC \/ \A i \in 1..Len(x[f]) : x[f][i] \in -1..255
    /\ out.g = "sh" =>
         /\ Len(x.shl) = k /\ Len(x.shr) = k /\ IsBytes(x.shl) /\ IsBytes(x.shr)
         /\ out.n = 0 => (x.shl = a /\ x.shr = a)
         /\ out.n >= 8 * k => (LIsZero(x.shl) /\ LIsZero(x.shr))
         /\ Force(LShr(x.shl, out.n, L8)) = Force(LAnd(a, LShr([j \in 1..k |-> 255], out.n, L8), L8))  \* (a<<n)>>n keeps the low bits
    /\ out.g = "bin" =>
         /\ (x.addp = <<1>>) = (x.add = <<>>) /\ (x.subp = <<1>>) = (x.sub = <<>>)
         /\ (x.subp = <<1>>) = (x.cmp = <<-1>>)                          \* underflow <=> a < b
         /\ x.subp = <<0>> => LAdd(x.sub, b, L8) = [v |-> a, c |-> 0]      \* (a-b)+b = a
         /\ x.addp = <<0>> => LSub(x.add, b, L8) = [v |-> a, c |-> 0]      \* (a+b)-b = a
         /\ Force(LXor(x.and, x.xor, L8)) = x.or                          \* (a&b)^(a^b) = a|b
    /\ out.g = "mul" =>
         /\ (x.mulp = <<1>>) = (x.mul = <<>>)
         /\ (LIsZero(a) \/ LIsZero(b)) => (x.mulp = <<0>> /\ LIsZero(x.mul))
         /\ MulG(b, a).mul = x.mul                                      \* a*b = b*a, same overflow verdict
    /\ out.g = "div" =>
         /\ DivFromObserved(a, b, x.dq) = x         \* the long division agrees with the multiplicative check

Export == out # <<>> => CSVWrite("%1$s", <<ToJson(out)>>, IOEnv.VERIF_CASES)
=============================================================================

------------------------------- MODULE Route -------------------------------
(***************************************************************************)
(* Where each record goes.                                                 *)
(*  - obigrep: stdout (or -o) receives the kept records, --save-discarded  *)
(*    exactly the others; with --paired-with the reverse files hold, rank  *)
(*    by rank, the mates of the forward files.                             *)
(*  - obidistribute: every record goes to exactly one file, chosen from    *)
(*    the record alone (-c KEY [-d KEY] [--na-value], -H n) or from its    *)
(*    rank (-n n: round robin).                                            *)
(*  - obimultiplex -u FILE: the reads that could not be assigned go to     *)
(*    FILE, the others to stdout.                                          *)
(* Streams are sequences of ranks (1-based positions in the input file):   *)
(* the files keep the input order.                                         *)
(***************************************************************************)
EXTENDS OptData

(* the ranks of K among i..n in increasing order *)
Asc(n, K, i) == SelectSeq([j \in 1..(n - i + 1) |-> j + i - 1], LAMBDA r : r \in K)

(* DivideOn: the two output streams of a predicate on ranks *)
Divide(n, K) == [kept |-> Asc(n, K, 1), disc |-> Asc(n, (1..n) \ K, 1)]

RangeOf(s) == {s[i] : i \in 1..Len(s)}
IsPartition(n, streams) ==        \* streams: a set of sequences of ranks
  /\ \A i \in 1..n : Cardinality({s \in streams : i \in RangeOf(s)}) = 1
  /\ \A s \in streams : RangeOf(s) \subseteq 1..n /\ Len(s) = Cardinality(RangeOf(s))

---------------------------------------------------------------------------
(* obidistribute.  D = [c, d, na, n, h, pat]: classifier key, directory key ("" = none),   *)
(* NA value, number of round-robin batches, hash size, file name pattern with one %s      *)
(* split around the %s as <<prefix, suffix>>.                                              *)
ValueOr(r, k, na) == IF Has(r, k) THEN Txt(r.attrs[k]) ELSE na

(* crc = <<hi, lo>> 16-bit halves of CRC-32(sequence); (hi * 65536 + lo) mod h in 32-bit safe steps *)
HashClass(crc, h) == (((crc[1] % h) * (65536 % h)) + (crc[2] % h)) % h

FileOf(r, rank, crc, D) ==
  LET class == IF D.c # "" THEN ValueOr(r, D.c, D.na)
               ELSE IF D.n > 0 THEN ToString(((rank - 1) % D.n) + 1)
               ELSE ToString(HashClass(crc, D.h))
      dir   == IF D.c # "" /\ D.d # "" THEN ValueOr(r, D.d, D.na) ELSE ""
      name  == D.pat[1] \o class \o D.pat[2]
  IN  IF dir = "" THEN name ELSE dir \o "/" \o name

(* the file set: file name |-> ranks of its records, in input order *)
Distribute(recs, crcs, D) ==
  LET n == Len(recs)
      file == [i \in 1..n |-> FileOf(recs[i], i, crcs[i], D)]
      names == {file[i] : i \in 1..n}
  IN  [f \in names |-> SelectSeq([j \in 1..n |-> j], LAMBDA i : file[i] = f)]

---------------------------------------------------------------------------
(* obimultiplex -u: a read is identified iff its class (OptData!MuxSets) is "good" *)
Identified(class) == class = "good"
=============================================================================

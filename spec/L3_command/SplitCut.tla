------------------------------ MODULE SplitCut ------------------------------
(***************************************************************************)
(* obisplit (extension check X01, part c): cutting a read at the           *)
(* occurrences of the configured patterns.  Built on Apat.tla (C10): an    *)
(* occurrence of a pattern is a position where it matches with at most e   *)
(* mismatches (mismatch mode of the matcher; --allows-indels is judged by  *)
(* the weaker clauses of SplitTrace only).                                 *)
(*                                                                         *)
(* config : sequence of [tag, pool, rank]: the pattern text (pure IUPAC),  *)
(*          the name of its pool, the rank of that name in byte order      *)
(*          (TLC does not order strings; equal names have equal ranks).    *)
(* read   : S, a tuple of symbols 0..3 (a c g t), positions 0-based,       *)
(*          spans half open.                                               *)
(*                                                                         *)
(* STATEMENT (what a user relies on)                                       *)
(*  1. SITES.  The cut sites of a read are occurrences of the configured   *)
(*     patterns, on either strand, within the error budget; they are       *)
(*     sorted and pairwise disjoint.  A read without any occurrence has no *)
(*     site; a read with an occurrence has at least one; an occurrence     *)
(*     standing alone (no other occurrence, of any pattern on any strand,  *)
(*     within the widened overlap distance) is always a site.              *)
(*  2. TILING.  The fragments are exactly the non-empty stretches between  *)
(*     consecutive sites (and the read's ends), in read order: fragments   *)
(*     and sites tile the read.  No fragment <=> the read is covered by    *)
(*     sites (the record then disappears: kept as the statement).          *)
(*  3. ANNOTATION.  Fragment i of n carries obisplit_frg = i,              *)
(*     obisplit_nfrg = n, its 1-based location, and for each flank the     *)
(*     pattern, the matched text read on the pattern's strand and the      *)
(*     error count of the flanking site ("" / 0 at a read end); the group  *)
(*     is the pair of flanking pool names ("extremity" for a read end,     *)
(*     same name twice collapses, two pools in byte order), the set is the *)
(*     pool when both flanks name it or one flank is a read end.           *)
(*  4. CHOICE among overlapping occurrences (design of the code, kept as   *)
(*     the statement): per pattern and strand the occurrences are scanned  *)
(*     left to right and the best (fewest mismatches, leftmost) of each    *)
(*     run of occurrences overlapping once widened by their error counts   *)
(*     is kept; the kept occurrences of all patterns, sorted by start      *)
(*     (equal starts: any order), are scanned again and of each run        *)
(*     overlapping the current candidate the one with strictly fewer       *)
(*     mismatches wins.                                                    *)
(***************************************************************************)
EXTENDS Apat, TLC

Letter == <<"a", "c", "g", "t", "n">>
Code   == [a |-> 0, c |-> 1, g |-> 2, t |-> 3, n |-> 4]
ToSyms(str) == [i \in 1..Len(str) |-> Code[SubSeq(str, i, i)]]
ToText(S)   == FoldLeft(LAMBDA acc, x : acc \o Letter[x + 1], "", S)
TagChars(tag) == [i \in 1..Len(tag) |-> SubSeq(tag, i, i)]

(* an occurrence: [b, e, err, pi, fwd] = span, mismatches, rank of the pattern in the config, strand *)
Occ(p, k, m, i, f) == [b |-> p, e |-> p + m, err |-> k, pi |-> i, fwd |-> f]

(* all occurrences of pattern i of the config on strand f, as a set *)
OccsOf(cfg, S, e, i, f) ==
  LET Pf == Parse(TagChars(cfg[i].tag))
      P  == IF f THEN Pf ELSE Comp(Pf)
  IN  {Occ(h[1], h[2], Len(P), i, f) : h \in SubHits(P, S, e, 0, Len(S))}
AllOccs(cfg, S, e) == UNION {OccsOf(cfg, S, e, i, f) : i \in DOMAIN cfg, f \in BOOLEAN}

(* increasing enumeration by start of a set of occurrences of ONE pattern and strand (distinct starts) *)
ByStart(O) == SetToSortSeq(O, LAMBDA x, y : x.b < y.b)

None == [b |-> -1, e |-> -1, err |-> -1, pi |-> 0, fwd |-> TRUE]

(* clause 4, first scan (obiapat FilterBestMatch, its intended reading: the first occurrence opens the first run) *)
FilterBest(L) ==
  LET st == FoldLeft(LAMBDA s, m :
                       IF s[2] = None THEN <<s[1], m>>
                       ELSE IF m.b - m.err < s[2].e + s[2].err
                            THEN (IF m.err < s[2].err THEN <<s[1], m>> ELSE s)
                            ELSE <<Append(s[1], s[2]), m>>,
                     <<<<>>, None>>, L)
  IN  IF st[2] = None THEN st[1] ELSE Append(st[1], st[2])

Raw(cfg, S, e) ==
  UNION {Range(FilterBest(ByStart(OccsOf(cfg, S, e, i, f)))) : i \in DOMAIN cfg, f \in BOOLEAN}

(* the occurrences grouped by start, in increasing order of start *)
StartGroups(O) ==
  FoldLeft(LAMBDA acc, o :
             IF acc # <<>> /\ (CHOOSE x \in acc[Len(acc)] : TRUE).b = o.b
             THEN [acc EXCEPT ![Len(acc)] = @ \cup {o}]
             ELSE Append(acc, {o}),
           <<>>, SetToSortSeq(O, LAMBDA x, y : x.b < y.b))

(* the orders a sort on the start position may produce: any order among equal starts *)
Orders(O) ==
  LET perms(g) == LET k == Cardinality(g) IN {q \in [1..k -> g] : \A i, j \in 1..k : i # j => q[i] # q[j]}
  IN  FoldLeft(LAMBDA acc, g : IF Cardinality(g) = 1 THEN {s \o <<CHOOSE x \in g : TRUE>> : s \in acc}
                                ELSE {s \o q : s \in acc, q \in perms(g)},
               {<<>>}, StartGroups(O))

(* how many such orders there are (product of the factorials of the group sizes, capped) *)
OrderCount(O) ==
  LET fact(k) == FoldLeft(LAMBDA a, i : a * i, 1, [i \in 1..k |-> i])
  IN  FoldLeft(LAMBDA a, g : IF a > 100000 THEN a ELSE a * fact(Cardinality(g)), 1, StartGroups(O))

(* clause 4, second scan (obisplit LocatePatterns) *)
Resolve(L) ==
  LET st == FoldLeft(LAMBDA s, m :
                       IF s[2] = None THEN <<s[1], m>>
                       ELSE IF m.b < s[2].e
                            THEN (IF m.err < s[2].err THEN <<s[1], m>> ELSE s)
                            ELSE <<Append(s[1], s[2]), m>>,
                     <<<<>>, None>>, L)
  IN  IF st[2] = None THEN st[1] ELSE Append(st[1], st[2])

(* the possible site lists of a read *)
SiteLists(cfg, S, e) == {Resolve(L) : L \in Orders(Raw(cfg, S, e))}

---------------------------------------------------------------------------
(* clauses 2 and 3: the fragments of a read given its sites *)
Ext(p) == [b |-> p, e |-> p, err |-> 0, pi |-> 0, fwd |-> TRUE]
NameOf(cfg, o) == IF o.pi = 0 THEN "extremity" ELSE cfg[o.pi].pool
RankOf(cfg, o) == IF o.pi = 0 THEN -1 ELSE cfg[o.pi].rank
TagOf(cfg, o)  == IF o.pi = 0 THEN "" ELSE cfg[o.pi].tag
MatchOf(S, o)  == IF o.pi = 0 THEN ""
                  ELSE LET w == SubSeq(S, o.b + 1, o.e) IN ToText(IF o.fwd THEN w ELSE RC(w))

GroupName(cfg, l, r) ==
  LET ln == NameOf(cfg, l)  rn == NameOf(cfg, r) IN
  IF ln = rn THEN ln
  ELSE IF rn = "extremity" THEN "extremity-" \o ln
  ELSE IF ln = "extremity" THEN "extremity-" \o rn
  ELSE IF RankOf(cfg, r) < RankOf(cfg, l) THEN rn \o "-" \o ln ELSE ln \o "-" \o rn
SetName(cfg, l, r) ==
  LET ln == NameOf(cfg, l)  rn == NameOf(cfg, r) IN
  IF ln = rn THEN (IF ln = "extremity" THEN "NA" ELSE ln)
  ELSE IF rn = "extremity" THEN ln
  ELSE IF ln = "extremity" THEN rn
  ELSE "NA"

Frag(cfg, S, l, r) ==
  [from |-> l.e, to |-> r.b,
   group |-> GroupName(cfg, l, r), set |-> SetName(cfg, l, r),
   lerr |-> l.err, rerr |-> r.err, lpat |-> TagOf(cfg, l), rpat |-> TagOf(cfg, r),
   lmatch |-> MatchOf(S, l), rmatch |-> MatchOf(S, r)]

(* fragments for the site list K: the non-empty gaps between consecutive boundaries, numbered *)
Fragments(cfg, S, K) ==
  LET B == <<Ext(0)>> \o K \o <<Ext(Len(S))>>
      F == FoldLeft(LAMBDA acc, i : IF B[i + 1].b > B[i].e THEN Append(acc, Frag(cfg, S, B[i], B[i + 1])) ELSE acc,
                    <<>>, [i \in 1..(Len(B) - 1) |-> i])
  IN  [i \in DOMAIN F |-> F[i] @@ [frg |-> i, nfrg |-> Len(F)]]

(* THE DEFINITION: the fragment lists the statement allows for a read *)
AllowedFrags(cfg, S, e) == {Fragments(cfg, S, K) : K \in SiteLists(cfg, S, e)}

---------------------------------------------------------------------------
(* property-level predicates (theorems of SplitCutMC, clauses of SplitTrace) *)
Widened(a, b) == a.b - a.err < b.e + b.err /\ b.b - b.err < a.e + a.err
Alone(o, O)   == \A x \in O \ {o} : ~Widened(o, x)

SitesOK(cfg, S, e, K) ==
  LET O == AllOccs(cfg, S, e) IN
  /\ \A i \in DOMAIN K : K[i] \in O
  /\ \A i \in 1..(Len(K) - 1) : K[i].e <= K[i + 1].b
  /\ (O = {}) = (K = <<>>)
  /\ \A o \in O : Alone(o, O) => o \in Range(K)

Tiles(S, K, F) ==
  LET B == <<Ext(0)>> \o K \o <<Ext(Len(S))>>
      gaps == {i \in 1..(Len(B) - 1) : B[i + 1].b > B[i].e}
  IN  /\ Len(F) = Cardinality(gaps)
      /\ {<<F[i].from, F[i].to>> : i \in DOMAIN F} = {<<B[i].e, B[i + 1].b>> : i \in gaps}
      /\ \A i \in 1..(Len(F) - 1) : F[i].to <= F[i + 1].from
      /\ FoldLeft(LAMBDA a, i : a + (F[i].to - F[i].from), 0, [i \in DOMAIN F |-> i])
           + FoldLeft(LAMBDA a, i : a + (K[i].e - K[i].b), 0, [i \in DOMAIN K |-> i]) = Len(S)
=============================================================================

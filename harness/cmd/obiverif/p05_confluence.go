package main

// C05, library level: the REAL per-record workers of the commands inside the real worker pool, under every
// completion schedule exported by TLC from Pipeline.tla (forced with gates), compared with the
// schedule-free reference run (one worker, batches processed in order).  With the verif build the
// recycled slices are poisoned (hook in obiseq), so a use-after-recycle changes the output deterministically.

import (
	"fmt"
	"sort"
	"strings"
	"time"

	"git.metabarcoding.org/obitools/obitools4/obitools4/pkg/obiapat"
	"git.metabarcoding.org/obitools/obitools4/obitools4/pkg/obiformats"
	"git.metabarcoding.org/obitools/obitools4/obitools4/pkg/obiiter"
	"git.metabarcoding.org/obitools/obitools4/obitools4/pkg/obingslibrary"
	"git.metabarcoding.org/obitools/obitools4/obitools4/pkg/obiseq"
)

func init() {
	register("C05", &driver{replay: replayC05})
}

const (
	c05Fwd = "ttagataccccactatgc"
	c05Rev = "tagaacaggctcctctag"
)

var c05Tags = []string{"aattaac", "gaagtag", "gaatatc", "gcctcct"}

const c05Sheet = `wolf_diet    13a_F730603      aattaac  TTAGATACCCCACTATGC    TAGAACAGGCTCCTCTAG     F       @
wolf_diet    15a_F730814      gaagtag  TTAGATACCCCACTATGC    TAGAACAGGCTCCTCTAG     F       @
wolf_diet    26a_F040644      gaatatc  TTAGATACCCCACTATGC    TAGAACAGGCTCCTCTAG     F       @
wolf_diet    29a_F260619      gcctcct  TTAGATACCCCACTATGC    TAGAACAGGCTCCTCTAG     F       @
`

func rcStr(s string) string {
	b := []byte(s)
	n := len(b)
	out := make([]byte, n)
	comp := map[byte]byte{'a': 't', 'c': 'g', 'g': 'c', 't': 'a'}
	for i := 0; i < n; i++ {
		out[n-1-i] = comp[b[i]]
	}
	return string(out)
}

// pseudo random but reproducible payloads (the same objects must be rebuilt for every run: workers edit in place)
func c05Seq(k, j, n int) string {
	b := make([]byte, n)
	x := uint32(k*7919 + j*104729 + 17)
	for i := range b {
		x = x*1664525 + 1013904223
		b[i] = "acgt"[(x>>24)%4]
	}
	return string(b)
}

func c05Read(k, j int) *obiseq.BioSequence {
	tag := c05Tags[(k+j)%4]
	bar := c05Seq(k, j, 40+(k*3+j*5)%30)
	s := "cc" + tag + c05Fwd + bar + rcStr(c05Rev) + rcStr(tag) + "gg"
	if (k+j)%3 == 0 {
		s = rcStr(s)
	}
	q := make([]byte, len(s))
	for i := range q {
		q[i] = byte(20 + (i*7+k+j)%20)
	}
	return obiseq.NewBioSequenceWithQualities(fmt.Sprintf("b%d_%d", k, j), []byte(s), "", q)
}

func c05Batches(sizes []int) []obiiter.BioSequenceBatch {
	out := make([]obiiter.BioSequenceBatch, len(sizes))
	for k, s := range sizes {
		sl := obiseq.MakeBioSequenceSlice()
		for j := 0; j < s; j++ {
			sl = append(sl, c05Read(k, j))
		}
		out[k] = obiiter.MakeBioSequenceBatch("verif", k, sl)
	}
	return out
}

func c05Workers() map[string]func() obiseq.SeqSliceWorker {
	return map[string]func() obiseq.SeqSliceWorker{
		"revcomp": func() obiseq.SeqSliceWorker {
			return obiseq.SeqToSliceWorker(obiseq.ReverseComplementWorker(true), true)
		},
		"revcomp_copy": func() obiseq.SeqSliceWorker {
			return obiseq.SeqToSliceWorker(obiseq.ReverseComplementWorker(false), true)
		},
		"pcr": func() obiseq.SeqSliceWorker {
			return obiapat.PCRSliceWorker(obiapat.OptionForwardPrimer(c05Fwd, 2), obiapat.OptionReversePrimer(c05Rev, 2),
				obiapat.OptionMinLength(10), obiapat.OptionMaxLength(200), obiapat.OptionWithExtension(3))
		},
		"demux": func() obiseq.SeqSliceWorker {
			lib, err := obiformats.ReadNGSFilter(strings.NewReader(c05Sheet))
			if err != nil {
				panic(err)
			}
			return lib.ExtractMultiBarcodeSliceWorker(obingslibrary.OptionAllowedMismatches(2))
		},
	}
}

func formatAll(bs []obiiter.BioSequenceBatch) string {
	var sb strings.Builder
	for _, b := range bs {
		fmt.Fprintf(&sb, "#batch %d\n", b.Order())
		for _, s := range b.Slice() {
			if s.HasQualities() {
				sb.WriteString(obiformats.FormatFastq(s, obiformats.FormatFastSeqJsonHeader))
			} else {
				sb.WriteString(obiformats.FormatFasta(s, obiformats.FormatFastSeqJsonHeader))
			}
			sb.WriteByte('\n')
		}
	}
	return sb.String()
}

func drainBatches(it obiiter.IBioSequence) ([]obiiter.BioSequenceBatch, bool) {
	var res []obiiter.BioSequenceBatch
	done := make(chan struct{})
	go func() {
		for it.Next() {
			res = append(res, it.Get())
		}
		close(done)
	}()
	ok := waitTimeout(done, streamPatience)
	return res, ok
}

func replayC05(env *Env) {
	if env.optInt("stress", 0) > 0 {
		c05Stress(env)
		return
	}
	cases := loadCases[streamCase](env.cases)
	kinds := c05Workers()
	// reference outputs per (kind, sizes): one worker, no gate
	refs := map[string]string{}
	for name, mk := range kinds {
		for _, c := range cases {
			key := name + fmt.Sprint(c.Sizes)
			if _, ok := refs[key]; ok {
				continue
			}
			w := mk()
			var out []obiiter.BioSequenceBatch
			for _, b := range c05Batches(c.Sizes) {
				sl, err := w(b.Slice())
				if err != nil {
					panic(err)
				}
				out = append(out, obiiter.MakeBioSequenceBatch("verif", b.Order(), sl))
			}
			refs[key] = formatAll(out)
		}
	}
	type job struct {
		kind string
		c    streamCase
	}
	var jobs []job
	for name := range kinds {
		for _, c := range cases {
			jobs = append(jobs, job{name, c})
		}
	}
	parallel(len(jobs), 0, func(i int) {
		j := jobs[i]
		c := j.c
		real := kinds[j.kind]()
		sc := newSched()
		worker := func(sl obiseq.BioSequenceSlice) (obiseq.BioSequenceSlice, error) {
			var b int
			fmt.Sscanf(sl[0].Id(), "b%d_", &b)
			sc.park(b)
			return real(sl)
		}
		pl := &probeLog{}
		in := c05Batches(c.Sizes)
		pipe := probe(source(in, ident(len(in))).MakeISliceWorker(worker, true, c.W), pl).SortBatches()
		var got []obiiter.BioSequenceBatch
		var ok bool
		done := make(chan struct{})
		go func() { got, ok = drainBatches(pipe); close(done) }()
		reached := true
		for k, b := range c.Emits {
			if !sc.release(b, 5*time.Second) {
				reached = false
				for _, r := range c.Emits[k:] {
					go sc.release(r, streamPatience)
				}
				break
			}
			deadline := time.Now().Add(5 * time.Second)
			for pl.count() < k+1 && time.Now().Before(deadline) {
				time.Sleep(20 * time.Microsecond)
			}
		}
		<-done
		cl := j.kind
		if !reached {
			env.mu.Lock()
			env.classes["sched/unreached"]++
			env.mu.Unlock()
			return
		}
		if !ok {
			env.fail("C05."+j.kind+".hang", cl, "pool with the real worker did not terminate", c)
			return
		}
		text := formatAll(got)
		if text != refs[j.kind+fmt.Sprint(c.Sizes)] {
			env.fail("C05."+j.kind+".schedule_dependent", cl,
				fmt.Sprintf("output under emit order %v with %d workers differs from the one-worker reference:\n%s\n--- reference ---\n%s",
					c.Emits, c.W, firstDiff(text, refs[j.kind+fmt.Sprint(c.Sizes)]), ""), c)
		}
		env.ok(cl)
		if i%97 == 0 {
			env.sample(map[string]any{"worker": j.kind, "w": c.W, "emits": c.Emits})
		}
	})
}

// c05Stress: the pool without gates on very long streams of one-record batches (a window of a few nanoseconds
// between two steps of a worker is met once in 10^4..10^5 batches).  Every batch number must come out once,
// carrying what the one-worker run gives for it.
// c05MultiFile: several input files read one after the other (ReadSequencesBatchFromFiles, what every command does
// with more than one file argument).  The batches of one file reach the renumbering stage in any order (parallel
// header parsing): whatever that order, the stream must carry the records of file 1 in file order, then those of
// file 2, ... once sorted on the batch numbers, every batch number exactly once.
func c05MultiFile(env *Env) {
	for round := 0; round < 60; round++ {
		nfiles := 2 + env.rng.Intn(3)
		files := make([][]obiiter.BioSequenceBatch, nfiles)
		arrivals := make([][]int, nfiles)
		names := make([]string, nfiles)
		want := []string{}
		for f := range files {
			nb := 1 + env.rng.Intn(5)
			sizes := make([]int, nb)
			for k := range sizes {
				sizes[k] = 1 + env.rng.Intn(3)
			}
			files[f] = c05Batches(sizes)
			for _, b := range files[f] {
				for _, s := range b.Slice() {
					s.SetId(fmt.Sprintf("f%d_%s", f, s.Id()))
					want = append(want, s.Id())
				}
			}
			arrivals[f] = env.rng.Perm(nb)
			names[f] = fmt.Sprintf("file%d", f)
		}
		reader := func(name string, _ ...obiformats.WithOption) (obiiter.IBioSequence, error) {
			var f int
			fmt.Sscanf(name, "file%d", &f)
			return source(files[f], arrivals[f]), nil
		}
		cl := "multifile"
		it := obiformats.ReadSequencesBatchFromFiles(names, reader, 1)
		got, ok := drainBatches(it)
		if !ok {
			env.fail("C05.files.hang", cl, fmt.Sprintf("reading %d files (batches arriving as %v) did not terminate", nfiles, arrivals), map[string]any{"arrivals": arrivals})
			return
		}
		sort.SliceStable(got, func(i, j int) bool { return got[i].Order() < got[j].Order() })
		ids := []string{}
		orders := []int{}
		for _, b := range got {
			orders = append(orders, b.Order())
			for _, s := range b.Slice() {
				ids = append(ids, s.Id())
			}
		}
		dense := true
		for i, o := range orders {
			dense = dense && o == i
		}
		if !dense || strings.Join(ids, " ") != strings.Join(want, " ") {
			env.fail("C05.files.order", cl, fmt.Sprintf("%d files whose batches reach the renumbering stage as %v: batch numbers %v, records %v; expected the files one after the other, each in file order: %v",
				nfiles, arrivals, orders, ids, want), map[string]any{"arrivals": arrivals})
		} else {
			env.ok(cl)
		}
	}
}

func c05Stress(env *Env) {
	c05MultiFile(env)
	n := env.optInt("stress", 200000)
	rounds := env.optInt("stressrounds", 2)
	mk := c05Workers()["revcomp_copy"]
	ref := make([]string, n)
	w1 := mk()
	for k := 0; k < n; k++ {
		sl, err := w1(obiseq.BioSequenceSlice{c05Read(k, 0)})
		if err != nil || len(sl) != 1 {
			panic(fmt.Sprint("reference worker: ", err, len(sl)))
		}
		ref[k] = sl[0].Id() + " " + sl[0].String()
	}
	for _, w := range []int{2, 5, 16} {
		for r := 0; r < rounds; r++ {
			cl := fmt.Sprintf("stress/w%d", w)
			in := make([]obiiter.BioSequenceBatch, n)
			for k := range in {
				in[k] = obiiter.MakeBioSequenceBatch("verif", k, obiseq.BioSequenceSlice{c05Read(k, 0)})
			}
			pipe := source(in, ident(n)).MakeISliceWorker(mk(), true, w)
			seen := make([]int, n)
			var bad []string
			done := make(chan struct{})
			go func() {
				defer close(done)
				for pipe.Next() {
					b := pipe.Get()
					k := b.Order()
					if k < 0 || k >= n {
						bad = append(bad, fmt.Sprintf("batch number %d out of range", k))
						continue
					}
					seen[k]++
					if sl := b.Slice(); len(sl) != 1 || sl[0].Id()+" "+sl[0].String() != ref[k] {
						if len(bad) < 5 {
							bad = append(bad, fmt.Sprintf("batch %d does not carry the record the one-worker run gives for it", k))
						}
					}
				}
			}()
			if !waitTimeout(done, 120*time.Second) {
				env.fail("C05.pool.hang", cl, fmt.Sprintf("pool of %d workers on %d one-record batches did not terminate", w, n), map[string]any{"w": w, "n": n})
				return
			}
			lost, dup := 0, 0
			for _, c := range seen {
				if c == 0 {
					lost++
				} else if c > 1 {
					dup++
				}
			}
			if lost > 0 || dup > 0 || len(bad) > 0 {
				env.fail("C05.pool.batch_ownership", cl, fmt.Sprintf("pool of %d workers on %d one-record batches: %d batch numbers never came out, %d came out more than once; %v",
					w, n, lost, dup, bad), map[string]any{"w": w, "n": n, "lost": lost, "dup": dup})
			} else {
				env.ok(cl)
			}
		}
	}
}

func firstDiff(a, b string) string {
	la, lb := strings.Split(a, "\n"), strings.Split(b, "\n")
	for i := 0; i < len(la) && i < len(lb); i++ {
		if la[i] != lb[i] {
			return fmt.Sprintf("line %d: got %.200q want %.200q", i, la[i], lb[i])
		}
	}
	return fmt.Sprintf("%d lines vs %d lines", len(la), len(lb))
}

package main

// X01 (b): obidemerge.
//
// replay: every case of RelDemergeMC (-d key, stream of records) goes through the real
//   obidemerge.MakeDemergeWorker ("lib") and - a seeded share, and every case without -d - through the real
//   binary ("cmd").  The output is cut into the groups the specification exported; each group is compared as a
//   set of whole records (identifier, nucleotides, qualities, count, every annotation, every merged_* slot).
// record: whole runs on random streams (hundreds of records, up to 8 values per statistic, other statistics and
//   annotations, records without the statistic, inconsistent totals), through the binary (several batches and
//   workers) and through MakeIWorker; RelTrace.tla judges the whole output stream.

import (
	"fmt"
	"math/rand"
	"path/filepath"
	"sort"
	"strconv"

	"git.metabarcoding.org/obitools/obitools4/obitools4/pkg/obiiter"
	"git.metabarcoding.org/obitools/obitools4/obitools4/pkg/obiseq"
	"git.metabarcoding.org/obitools/obitools4/obitools4/pkg/obitools/obidemerge"
)

func x01DemergeLib(key string, recs []x01Rec, batch, workers int) (out []x01Rec, status string) {
	status = "ok"
	defer func() {
		if r := recover(); r != nil {
			status = fmt.Sprintf("panic: %v", r)
		}
	}()
	w := obidemerge.MakeDemergeWorker(key)
	if batch <= 0 {
		for _, r := range recs {
			sl, err := w(x01MkSeq(r))
			if err != nil {
				return out, "error: " + err.Error()
			}
			for _, s := range sl {
				out = append(out, x01Snapshot(s, true))
			}
		}
		return out, status
	}
	seqs := obiseq.MakeBioSequenceSlice()
	for _, r := range recs {
		seqs = append(seqs, x01MkSeq(r))
	}
	it := obiiter.IBatchOver("x01", seqs, batch).MakeIWorker(w, false, workers)
	got := map[int][]x01Rec{}
	for it.Next() {
		b := it.Get()
		rs := []x01Rec{}
		for _, s := range b.Slice() {
			rs = append(rs, x01Snapshot(s, true))
		}
		if _, dup := got[b.Order()]; dup {
			return out, "batch number " + strconv.Itoa(b.Order()) + " delivered twice"
		}
		got[b.Order()] = rs
	}
	orders := []int{}
	for o := range got {
		orders = append(orders, o)
	}
	sort.Ints(orders)
	for _, o := range orders {
		out = append(out, got[o]...)
	}
	return out, status
}

func x01DemergeArgv(key string, extra []string, file string) []string {
	a := []string{"--no-progressbar"}
	if key != "" {
		a = append(a, "-d", key)
	}
	a = append(a, extra...)
	return append(a, file)
}

func x01ReplayDemerge(env *Env, c *x01Case, i int, bindir, dir string, pick bool) {
	nexp := 0
	for _, g := range c.Groups {
		nexp += len(g)
	}
	compare := func(level string, got []x01Rec, how string) {
		cls := fmt.Sprintf("demerge/%s/%s/%s", level, map[bool]string{true: "no-option", false: "-d"}[c.Key == ""], c.Shape)
		c.Level = level
		if len(got) != nexp {
			x01Fail(env, "X01.demerge.multiplicity", cls, fmt.Sprintf("%s: %d records, the specification gives %d: got %s", how, len(got), nexp, x01Brief(got)), c)
			return
		}
		at := 0
		for gi, g := range c.Groups {
			part := got[at : at+len(g)]
			at += len(g)
			if x01BagEq(x01Bag(part, true), x01Bag(g, true)) {
				continue
			}
			what := "X01.demerge.counts"
			strip := func(rs []x01Rec) []x01Rec {
				o := []x01Rec{}
				for _, r := range rs {
					r.Count = 0
					o = append(o, r)
				}
				return o
			}
			if len(g) == 1 && x01Canon(g[0], true) == x01Canon(c.Recs[gi], true) {
				what = "X01.demerge.untouched"
			} else if !x01BagEq(x01Bag(strip(part), true), x01Bag(strip(g), true)) {
				what = "X01.demerge.attributes"
			}
			x01Fail(env, what, cls, fmt.Sprintf("%s: record %d: got %s ; want %s", how, gi+1, x01Brief(part), x01Brief(g)), c)
			return
		}
		env.ok(cls)
		if i%300 == 0 {
			env.sample(map[string]any{"demerge": how, "key": c.Key, "records": c.Recs, "out": len(got)})
		}
	}
	if c.Key != "" { // "no -d" is an option-level notion: command level only
		got, st := x01DemergeLib(c.Key, c.Recs, 0, 1)
		if st != "ok" {
			c.Level = "lib"
			x01Fail(env, "X01.demerge.lib_failed", "demerge/lib", st, c)
		} else {
			compare("lib", got, "MakeDemergeWorker")
		}
	}
	if bindir == "" || !(pick || c.Key == "") || len(c.Recs) == 0 || !x01Uniform(c.Recs) {
		return
	}
	f, err := x01WriteSeqFile(filepath.Join(dir, "d"+strconv.Itoa(i)), c.Recs)
	if err != nil {
		return
	}
	argv := x01DemergeArgv(c.Key, []string{"--max-cpu", strconv.Itoa(1 + i%4)}, f)
	p := x01Run(filepath.Join(bindir, "obidemerge"), argv, dir)
	how := "obidemerge " + fmt.Sprint(argv[1:])
	c.Level = "cmd"
	if p.Hung || p.Rc != 0 {
		x01Fail(env, "X01.demerge.cmd_failed", "demerge/cmd", fmt.Sprintf("%s: rc=%d hung=%v %s", how, p.Rc, p.Hung, p.Stderr), c)
		return
	}
	got, err := x01ParseSeqText(p.Out, true)
	if err != nil {
		x01Fail(env, "X01.demerge.cmd_output", "demerge/cmd", how+": "+err.Error(), c)
		return
	}
	compare("cmd", got, how)
}

// ------------------------------------------------------------------------------------ record

type x01DemergeEvent struct {
	Sub     string   `json:"sub"`
	Level   string   `json:"level"`
	Seed    int64    `json:"seed"`
	Key     string   `json:"key"`
	Recs    []x01Rec `json:"recs"`
	Out     []x01Rec `json:"out"`
	Status  string   `json:"status"`
	How     string   `json:"how"`
	Workers int      `json:"workers"`
	Batch   int      `json:"batch"`
}

func x01DemergeScenario(rng *rand.Rand, seed int64, big bool) (key string, recs []x01Rec) {
	n := 20 + rng.Intn(300)
	if big {
		n = 5200 + rng.Intn(500)
	}
	key = []string{"sample", "", "sample", "run", "sample", "absent"}[int(uint64(seed)%6)]
	fastq := rng.Intn(2) == 0
	values := []string{"NA", "A", "B", "C", "soil 1", "x-7", "12", "true", "D", "E", "F", "G"}
	for i := 0; i < n; i++ {
		l := 8 + rng.Intn(30)
		if big {
			l = 200
		}
		r := x01Rec{Id: "u" + strconv.Itoa(i+1), Seq: x01RandSeq(rng, l), Ann: x01Ann{}, Stats: x01Stats{}}
		if rng.Intn(7) == 0 {
			r.Id = "u" + strconv.Itoa(1+rng.Intn(i+1)) // identifiers need not be unique
		}
		if fastq {
			r.Qual = x01RandQual(rng, l)
		}
		total := 0
		if rng.Intn(5) > 0 {
			m := map[string]int{}
			for k := 1 + rng.Intn(8); k > 0; k-- {
				w := 1 + rng.Intn(40)
				if rng.Intn(3) == 0 {
					w = 1
				}
				m[values[rng.Intn(len(values))]] = w
			}
			for _, w := range m {
				total += w
			}
			r.Stats["sample"] = m
		}
		if rng.Intn(3) == 0 {
			r.Stats["run"] = map[string]int{"r1": 1 + rng.Intn(9), "r2": 1 + rng.Intn(9)}
		}
		switch {
		case total > 0 && rng.Intn(8) > 0:
			r.Count = total // consistent, what obiuniq writes
		case rng.Intn(2) == 0:
			r.Count = 1 + rng.Intn(60)
		}
		if rng.Intn(3) == 0 {
			r.Ann["sample"] = "s:former" // overwritten when the record is demerged on sample
		}
		if rng.Intn(2) == 0 {
			r.Ann["own"] = "s:keep me " + strconv.Itoa(i)
		}
		if rng.Intn(3) == 0 {
			r.Ann["depth"] = "i:" + strconv.Itoa(rng.Intn(90))
		}
		if rng.Intn(4) == 0 {
			r.Ann["ok"] = "b:" + strconv.FormatBool(rng.Intn(2) == 0)
		}
		recs = append(recs, r)
	}
	return
}

func x01RecordDemerge(env *Env, bindir, dir string) {
	jobs := []int64{}
	if js := env.opt("jobseed", ""); js != "" {
		v, _ := strconv.ParseInt(js, 10, 64)
		jobs = []int64{v}
	} else {
		for i := 0; i < env.n; i++ {
			jobs = append(jobs, env.seed*104729+int64(i))
		}
	}
	nbig := env.optInt("big", 0)
	parallel(len(jobs), 8, func(i int) {
		seed := jobs[i]
		rng := rand.New(rand.NewSource(seed))
		big := (i < nbig && env.opt("jobseed", "") == "") || env.opt("jobbig", "") == "1"
		key, recs := x01DemergeScenario(rng, seed, big)
		ev := x01DemergeEvent{Sub: "demerge", Seed: seed, Key: key, Recs: recs, Out: []x01Rec{}, Status: "ok"}
		useCmd := bindir != "" && (key == "" || big || (seed/6)%2 == 0)
		if env.opt("joblevel", "") != "" {
			useCmd = env.opt("joblevel", "") != "lib"
		}
		if useCmd {
			ev.Level = "cmd"
			if big {
				ev.Level = "cmd-big"
			}
			ev.Workers = 1 + rng.Intn(8)
			ev.Batch = []int{1, 3, 17, 1000}[rng.Intn(4)]
			f, err := x01WriteSeqFile(filepath.Join(dir, "t"+strconv.FormatInt(seed, 10)), recs)
			if err != nil {
				ev.Status = err.Error()
			} else {
				argv := x01DemergeArgv(key, []string{"--max-cpu", strconv.Itoa(ev.Workers), "--batch-size", strconv.Itoa(ev.Batch)}, f)
				ev.How = "obidemerge " + fmt.Sprint(argv[1:])
				p := x01Run(filepath.Join(bindir, "obidemerge"), argv, dir)
				if p.Hung || p.Rc != 0 {
					ev.Status = fmt.Sprintf("rc=%d hung=%v %s", p.Rc, p.Hung, p.Stderr)
				} else if got, err := x01ParseSeqText(p.Out, true); err != nil {
					ev.Status = "output: " + err.Error()
				} else {
					ev.Out = got
				}
			}
		} else {
			if key == "" {
				key = "sample"
				ev.Key = key
			}
			ev.Level = "lib"
			ev.Workers = 1 + rng.Intn(6)
			ev.Batch = 1 + rng.Intn(40)
			ev.How = fmt.Sprintf("MakeDemergeWorker through MakeIWorker, batches of %d, %d workers", ev.Batch, ev.Workers)
			got, st := x01DemergeLib(key, recs, ev.Batch, ev.Workers)
			ev.Status = st
			if got != nil {
				ev.Out = got
			}
		}
		env.emit(ev)
	})
}

package main

// C09: LCS and one-difference kernels (obialign.FastLCSScore, FastLCSEGFScore, D1Or0).
//
// replay: every ordered pair (a, b) exported by TLC from spec/L0_kernel/LCSCheck.tla comes with, for
// each error bound, the description of the answers LCS.tla allows (Expect: the mandatory pair, or
// "not found / any pair with at least m differences"), the D1 verdict and the whole set of edits
// that reproduce b from a.  The real kernels are called with both argument orders, on a fresh
// (nil), a reused and a poisoned scratch buffer, and every answer is compared with that description.
// Nothing is recomputed here: the driver only decodes, calls and tests membership.
//
// record: seeded random pairs far beyond TLC's enumeration (up to several hundred bases, IUPAC
// codes, 0-6 planted edits, length differences, bounds around the planted distance); every call and
// its answer is logged for spec/trace/LCSTrace.tla, which re-evaluates the reference on each event.

import (
	"encoding/json"
	"fmt"
	"math/rand"
	"os"
	"strings"
	"sync"
	"sync/atomic"

	"git.metabarcoding.org/obitools/obitools4/obitools4/pkg/obialign"
	"git.metabarcoding.org/obitools/obitools4/obitools4/pkg/obiseq"
)

func init() {
	register("C09", &driver{replay: replayC09, record: recordC09})
}

type c09Case struct {
	A       string              `json:"a"`
	B       string              `json:"b"`
	Bounds  []int               `json:"bounds"`
	Lcs     [][]int             `json:"lcs"`  // per bound: [s, l, m]
	Egf     [][]int             `json:"egf"`  // first argument plays the longer part on equal lengths
	Egf2    [][]int             `json:"egf2"` // the other orientation (same when the lengths differ)
	D1      int                 `json:"d1"`
	Edits   [][]json.RawMessage `json:"edits"`   // [pos, "x", "y"]
	Impl    [][]int             `json:"impl"`    // answers of the banded model (diagnostic only)
	ImplEgf [][]int             `json:"implegf"` // idem, end-gap-free
}

type c09Edit struct {
	pos  int
	x, y string
}

func decodeEdits(raw [][]json.RawMessage) ([]c09Edit, error) {
	out := make([]c09Edit, 0, len(raw))
	for _, r := range raw {
		if len(r) != 3 {
			return nil, fmt.Errorf("edit with %d fields", len(r))
		}
		var e c09Edit
		if err := json.Unmarshal(r[0], &e.pos); err != nil {
			return nil, err
		}
		if err := json.Unmarshal(r[1], &e.x); err != nil {
			return nil, err
		}
		if err := json.Unmarshal(r[2], &e.y); err != nil {
			return nil, err
		}
		out = append(out, e)
	}
	return out, nil
}

// admits: is the answer (s, l) in the set described by exp = [s, l, m] ?
func admits(exp []int, s, l int) bool {
	if s == exp[0] && l == exp[1] {
		return true
	}
	return exp[2] >= 0 && s >= 0 && l-s >= exp[2]
}

func alphaClass(a, b string) string {
	for _, c := range a + b {
		if !strings.ContainsRune("acgt", c) {
			return "iupac"
		}
	}
	return "acgt"
}

func byteStr(c byte) string {
	if c == 0 {
		return ""
	}
	return string([]byte{c})
}

// A panic of a kernel on valid input is reported as an answer (-99,-99) that no specification admits.
const panicked = -99

func callLCS(sa, sb *obiseq.BioSequence, e int, buf *[]uint64) (s, l int) {
	defer func() {
		if r := recover(); r != nil {
			s, l = panicked, panicked
		}
	}()
	return obialign.FastLCSScore(sa, sb, e, buf)
}

func callEGF(sa, sb *obiseq.BioSequence, e int, buf *[]uint64) (s, l, end int) {
	defer func() {
		if r := recover(); r != nil {
			s, l, end = panicked, panicked, panicked
		}
	}()
	return obialign.FastLCSEGFScore(sa, sb, e, buf)
}

func callD1(sa, sb *obiseq.BioSequence) (d, pos int, x, y byte) {
	defer func() {
		if r := recover(); r != nil {
			d, pos, x, y = panicked, panicked, 0, 0
		}
	}()
	return obialign.D1Or0(sa, sb)
}

const (
	bufFresh = iota
	bufReused
	bufPoisoned
)

var bufNames = []string{"fresh", "reused", "poisoned"}

// scratch hands out the buffer argument for one call
type scratch struct {
	buf  []uint64
	salt uint64
}

func (s *scratch) get(mode int) *[]uint64 {
	switch mode {
	case bufFresh:
		return nil
	case bufPoisoned:
		// whatever an earlier user left there: every word of the whole capacity is overwritten
		full := s.buf[:cap(s.buf)]
		s.salt = s.salt*6364136223846793005 + 1442695040888963407
		for i := range full {
			switch (s.salt >> 60) & 3 {
			case 0:
				full[i] = ^uint64(0)
			case 1:
				full[i] = (uint64(1) << 32) | (uint64(0xfff0) << 16) | 0xfffe // in band, huge score, length 0
			default:
				full[i] = s.salt ^ (uint64(i) * 0x9e3779b97f4a7c15)
			}
		}
		return &s.buf
	}
	return &s.buf
}

type c09Counters struct {
	classes map[string]int
	n       int64
}

// ok counts one comparison of an answer of the real code with the exported expectation (the class
// counters say what was exercised; disagreements are reported separately through fail)
func (c *c09Counters) ok(class string) {
	c.classes[class]++
	c.n++
}

func (c *c09Counters) merge(env *Env) {
	atomic.AddInt64(&env.checked, c.n)
	env.mu.Lock()
	for k, v := range c.classes {
		env.classes[k] += v
	}
	env.mu.Unlock()
}

// failure flood control: at most maxPerKey lines per (assert, class)
type failLimiter struct {
	mu   sync.Mutex
	seen map[string]int
}

const maxPerKey = 25

func (f *failLimiter) fail(env *Env, assert, class, detail string, c any) {
	f.mu.Lock()
	f.seen[assert+"|"+class]++
	n := f.seen[assert+"|"+class]
	f.mu.Unlock()
	if n <= maxPerKey {
		env.fail(assert, class, detail, c)
	} else {
		atomic.AddInt64(&env.failed, 1)
	}
}

func replayC09(env *Env) {
	cases := loadCases[c09Case](env.cases)
	lim := &failLimiter{seen: map[string]int{}}
	var implDiff, implSame int64
	nw := 16
	var wg sync.WaitGroup
	var next int64 = -1
	for w := 0; w < nw; w++ {
		wg.Add(1)
		go func(w int) {
			defer wg.Done()
			cnt := &c09Counters{classes: map[string]int{}}
			sc := &scratch{salt: uint64(env.seed)*977 + uint64(w)}
			for {
				i := int(atomic.AddInt64(&next, 1))
				if i >= len(cases) {
					break
				}
				c := &cases[i]
				replayOneC09(env, lim, cnt, sc, c, &implDiff, &implSame)
			}
			cnt.merge(env)
		}(w)
	}
	wg.Wait()
	env.mu.Lock()
	env.classes["diag/banded_model_equal"] += int(implSame)
	env.classes["diag/banded_model_differs"] += int(implDiff)
	env.mu.Unlock()
}

func replayOneC09(env *Env, lim *failLimiter, cnt *c09Counters, sc *scratch, c *c09Case, implDiff, implSame *int64) {
	nb := len(c.Bounds)
	if len(c.Lcs) != nb || len(c.Egf) != nb || len(c.Egf2) != nb {
		fmt.Fprintln(os.Stderr, "malformed case", c.A, c.B)
		os.Exit(2)
	}
	edits, err := decodeEdits(c.Edits)
	if err != nil {
		fmt.Fprintln(os.Stderr, "malformed edits", err)
		os.Exit(2)
	}
	sa := obiseq.NewBioSequence("a", []byte(c.A), "")
	sb := obiseq.NewBioSequence("b", []byte(c.B), "")
	alpha := alphaClass(c.A, c.B)

	for k, e := range c.Bounds {
		where := "within"
		if c.Lcs[k][2] >= 0 {
			where = "beyond"
		}
		whereE := "within"
		if c.Egf[k][2] >= 0 || c.Egf2[k][2] >= 0 {
			whereE = "beyond"
		}
		base := "lcs/" + alpha + "/" + where
		baseE := "egf/" + alpha + "/" + whereE
		// a failure seen with a fresh buffer is reported under the class without buffer state;
		// one that needs a reused/poisoned buffer carries the buffer state in its class
		var bad, badE, badSym, badSymE string
		var badDetail, badEDetail, badSymDetail, badSymEDetail string
		for mode := bufFresh; mode <= bufPoisoned; mode++ {
			// ---- global kernel, both argument orders
			s, l := callLCS(sa, sb, e, sc.get(mode))
			s2, l2 := callLCS(sb, sa, e, sc.get(mode))
			for o, r := range [][2]int{{s, l}, {s2, l2}} {
				cnt.ok(base + "/" + bufNames[mode]) // counted as exercised, whatever the outcome
				if !admits(c.Lcs[k], r[0], r[1]) && bad == "" {
					bad = bufNames[mode]
					badDetail = fmt.Sprintf("FastLCSScore(%s) on (%q,%q) maxError=%d buffer=%s answered %s; LCS.tla allows %s",
						[]string{"a,b", "b,a"}[o], c.A, c.B, e, bufNames[mode], ans(r[0], r[1]), describe(c.Lcs[k]))
				}
			}
			cnt.ok("lcs/symmetry")
			if !(s == s2 && l == l2) && badSym == "" {
				badSym = bufNames[mode]
				badSymDetail = fmt.Sprintf("FastLCSScore(%q,%q,%d)=(%d,%d) but with swapped arguments (%d,%d), buffer=%s",
					c.A, c.B, e, s, l, s2, l2, bufNames[mode])
			}
			// ---- end-gap-free kernel
			es, el, _ := callEGF(sa, sb, e, sc.get(mode))
			es2, el2, _ := callEGF(sb, sa, e, sc.get(mode))
			for o, r := range [][2]int{{es, el}, {es2, el2}} {
				cnt.ok(baseE + "/" + bufNames[mode])
				if !(admits(c.Egf[k], r[0], r[1]) || admits(c.Egf2[k], r[0], r[1])) && badE == "" {
					badE = bufNames[mode]
					badEDetail = fmt.Sprintf("FastLCSEGFScore(%s) on (%q,%q) maxError=%d buffer=%s answered %s; LCS.tla allows %s (or, other orientation, %s)",
						[]string{"a,b", "b,a"}[o], c.A, c.B, e, bufNames[mode], ans(r[0], r[1]), describe(c.Egf[k]), describe(c.Egf2[k]))
				}
			}
			if len(c.A) != len(c.B) {
				cnt.ok("egf/symmetry")
				if !(es == es2 && el == el2) && badSymE == "" {
					badSymE = bufNames[mode]
					badSymEDetail = fmt.Sprintf("FastLCSEGFScore(%q,%q,%d)=(%d,%d) but with swapped arguments (%d,%d), buffer=%s",
						c.A, c.B, e, es, el, es2, el2, bufNames[mode])
				}
			}
			// ---- diagnostic only: equality with the implementation-shaped model (zeroed buffer)
			if mode == bufFresh && len(c.Impl) == nb && len(c.ImplEgf) == nb {
				if c.Impl[k][0] == s && c.Impl[k][1] == l && c.ImplEgf[k][0] == es && c.ImplEgf[k][1] == el {
					atomic.AddInt64(implSame, 1)
				} else {
					atomic.AddInt64(implDiff, 1)
				}
			}
		}
		suffix := func(mode string) string {
			if mode == "fresh" {
				return ""
			}
			return "/" + mode + "-buffer-only"
		}
		if bad != "" {
			lim.fail(env, "C09.lcs."+contractClause(where), base+suffix(bad), badDetail, c)
		}
		if badE != "" {
			lim.fail(env, "C09.egf."+contractClause(whereE), baseE+suffix(badE), badEDetail, c)
		}
		if badSym != "" {
			lim.fail(env, "C09.lcs.symmetry", base+suffix(badSym), badSymDetail, c)
		}
		if badSymE != "" {
			lim.fail(env, "C09.egf.symmetry", baseE+suffix(badSymE), badSymEDetail, c)
		}
	}

	// ---- one-difference test
	d, pos, x, y := callD1(sa, sb)
	classD := fmt.Sprintf("d1/%s/expect=%d", alpha, c.D1)
	cnt.ok(classD)
	if len(edits) > 1 {
		cnt.ok("d1/ambiguous_position")
	}
	if d != c.D1 {
		lim.fail(env, "C09.d1.verdict", classD, fmt.Sprintf("D1Or0(%q,%q) answered %d; D1.tla says %d", c.A, c.B, d, c.D1), c)
	} else if d == 1 {
		found := false
		for _, ed := range edits {
			if ed.pos == pos && ed.x == byteStr(x) && ed.y == byteStr(y) {
				found = true
				break
			}
		}
		if !found {
			lim.fail(env, "C09.d1.edit", classD, fmt.Sprintf("D1Or0(%q,%q) reports edit (pos=%d,%q,%q) which does not turn a into b; valid edits: %s",
				c.A, c.B, pos, byteStr(x), byteStr(y), describeEdits(edits)), c)
		}
	}
	env.sample(map[string]any{"a": c.A, "b": c.B, "bounds": c.Bounds, "lcs_allowed": c.Lcs, "d1": c.D1})
}

func ans(s, l int) string {
	if s == panicked {
		return "PANIC"
	}
	return fmt.Sprintf("(%d,%d)", s, l)
}

func contractClause(where string) string {
	if where == "beyond" {
		return "spurious_beyond_bound"
	}
	return "exact_within_bound"
}

func describe(exp []int) string {
	if exp[2] < 0 {
		return fmt.Sprintf("exactly (%d,%d)", exp[0], exp[1])
	}
	return fmt.Sprintf("(-1,-1) or a pair with >= %d differences", exp[2])
}

func describeEdits(ed []c09Edit) string {
	parts := []string{}
	for _, e := range ed {
		parts = append(parts, fmt.Sprintf("(%d,%q,%q)", e.pos, e.x, e.y))
	}
	return "{" + strings.Join(parts, ",") + "}"
}

// --------------------------------------------------------------------------------- record

type c09Event struct {
	K   string   `json:"k"`  // "lcs" | "egf" | "d1"
	Sc  string   `json:"sc"` // scenario family (coverage class only)
	A   []string `json:"a"`  // one-character strings
	B   []string `json:"b"`
	E   int      `json:"e"`   // maxError (0 for d1)
	Buf string   `json:"buf"` // fresh | reused | poisoned
	R   []int    `json:"r"`   // lcs/egf: [score, length]; d1: [d, pos]
	RR  []int    `json:"rr"`  // the same call with swapped arguments
	X   string   `json:"x"`   // d1: reported symbols ("" when d # 1)
	Y   string   `json:"y"`
	RX  string   `json:"rx"`
	RY  string   `json:"ry"`
	End int      `json:"end"` // egf: third return value (logged, not judged)
}

func chars(s []byte) []string {
	out := make([]string, len(s))
	for i, c := range s {
		out[i] = string([]byte{c})
	}
	return out
}

const iupacAmbig = "uryswkmbdhvn"

func (g *c09Gen) randSeq(n int, pAmb float64) []byte {
	s := make([]byte, n)
	for i := range s {
		if g.rng.Float64() < pAmb {
			s[i] = iupacAmbig[g.rng.Intn(len(iupacAmbig))]
		} else {
			s[i] = "acgt"[g.rng.Intn(4)]
		}
	}
	return s
}

type c09Gen struct {
	rng *rand.Rand
}

// mutate applies k random single-symbol edits
func (g *c09Gen) mutate(s []byte, k int) []byte {
	out := append([]byte(nil), s...)
	for ; k > 0; k-- {
		op := g.rng.Intn(3)
		if len(out) == 0 {
			op = 1
		}
		switch op {
		case 0: // substitution by a different base
			p := g.rng.Intn(len(out))
			c := "acgt"[g.rng.Intn(4)]
			for c == out[p] {
				c = "acgt"[g.rng.Intn(4)]
			}
			out[p] = c
		case 1: // insertion
			p := g.rng.Intn(len(out) + 1)
			c := "acgt"[g.rng.Intn(4)]
			out = append(out[:p], append([]byte{c}, out[p:]...)...)
		case 2: // deletion
			p := g.rng.Intn(len(out))
			out = append(out[:p], out[p+1:]...)
		}
	}
	return out
}

func (g *c09Gen) pick(xs ...int) int { return xs[g.rng.Intn(len(xs))] }

func recordC09(env *Env) {
	g := &c09Gen{rng: env.rng}
	maxLen := env.optInt("maxlen", 100)
	sc := &scratch{salt: uint64(env.seed) * 7919}
	if path := env.opt("replay", ""); path != "" { // --replay of a reported event: same arguments, real code again
		for _, ev := range loadCases[c09Event](path) {
			ev.R, ev.RR, ev.X, ev.Y, ev.RX, ev.RY, ev.End = []int{}, []int{}, "", "", "", "", 0
			runEventC09(&ev, sc)
			env.emit(ev)
		}
		return
	}
	for n := 0; n < env.n; n++ {
		var a, b []byte
		var ev c09Event
		pAmb := []float64{0, 0, 0.02, 0.1, 0.5}[g.rng.Intn(5)]
		ln := 1 + g.rng.Intn(maxLen)
		if g.rng.Intn(4) == 0 {
			ln = 1 + g.rng.Intn(12)
		}
		kind := []string{"lcs", "lcs", "lcs", "egf", "d1", "d1"}[g.rng.Intn(6)]
		e := 0
		switch kind {
		case "lcs", "egf":
			fam := g.rng.Intn(5)
			switch fam {
			case 0, 1: // related by k planted edits
				k := g.rng.Intn(7)
				a = g.randSeq(ln, pAmb)
				b = g.mutate(a, k)
				e = g.pick(-1, 0, k-1, k, k, k+1, 2*k+1, k+40)
				ev.Sc = "edits"
			case 2: // block deletion (length difference) plus a few edits
				a = g.randSeq(ln, pAmb)
				d := 1 + g.rng.Intn(8)
				if d > len(a) {
					d = len(a)
				}
				p := g.rng.Intn(len(a) - d + 1)
				b = append(append([]byte(nil), a[:p]...), a[p+d:]...)
				k := g.rng.Intn(3)
				b = g.mutate(b, k)
				e = g.pick(-1, d-1, d, d+k, d+k+1, d+2*k+2)
				ev.Sc = "lendiff"
			case 3: // unrelated
				a = g.randSeq(ln, pAmb)
				b = g.randSeq(1+g.rng.Intn(maxLen), pAmb)
				e = g.pick(-1, -1, 0, 3, len(a)/2, len(a)+len(b), 3*(len(a)+len(b)))
				ev.Sc = "unrelated"
			case 4: // b is a (mutated) piece of a with overhangs on both sides: end-gap-free territory
				a = g.randSeq(ln, pAmb)
				p := g.rng.Intn(len(a))
				q := p + g.rng.Intn(len(a)-p) + 1
				k := g.rng.Intn(4)
				b = g.mutate(a[p:q], k)
				e = g.pick(-1, 0, k-1, k, k+1, len(a)-len(b)+k, len(a)-len(b)+k-1)
				ev.Sc = "piece"
			}
			if e < -1 {
				e = 0
			}
		case "d1":
			a = g.randSeq(ln, []float64{0, 0, 0.1}[g.rng.Intn(3)])
			if g.rng.Intn(3) == 0 { // homopolymer runs: ambiguous edit positions
				for i := range a {
					a[i] = "aacc"[g.rng.Intn(4)]
				}
			}
			switch g.rng.Intn(6) {
			case 0:
				b = append([]byte(nil), a...)
				ev.Sc = "d0"
			case 1, 2:
				b = g.mutate(a, 1)
				ev.Sc = "d1"
			case 3: // edit at an end
				b = append([]byte(nil), a...)
				switch g.rng.Intn(4) {
				case 0:
					b = b[1:]
				case 1:
					b = b[:len(b)-1]
				case 2:
					b = append([]byte{"acgt"[g.rng.Intn(4)]}, b...)
				case 3:
					b = append(b, "acgt"[g.rng.Intn(4)])
				}
				ev.Sc = "d1end"
			case 4:
				b = g.mutate(a, 2)
				ev.Sc = "d2"
			case 5:
				b = g.mutate(a, 2+g.rng.Intn(3))
				ev.Sc = "dmore"
			}
		}
		if g.rng.Intn(2) == 0 {
			a, b = b, a
		}
		mode := g.rng.Intn(3)
		ev.K, ev.A, ev.B, ev.E, ev.Buf = kind, chars(a), chars(b), e, bufNames[mode]
		runEventC09(&ev, sc)
		env.emit(ev)
	}
}

// runEventC09 calls the real kernel named by the event on its arguments (both orders) and stores the answers.
func runEventC09(ev *c09Event, sc *scratch) {
	a := []byte(strings.Join(ev.A, ""))
	b := []byte(strings.Join(ev.B, ""))
	sa := obiseq.NewBioSequence("a", a, "")
	sb := obiseq.NewBioSequence("b", b, "")
	mode := bufFresh
	for m, name := range bufNames {
		if name == ev.Buf {
			mode = m
		}
	}
	e := ev.E
	switch ev.K {
	case "lcs":
		s, l := callLCS(sa, sb, e, sc.get(mode))
		s2, l2 := callLCS(sb, sa, e, sc.get(mode))
		ev.R, ev.RR = []int{s, l}, []int{s2, l2}
	case "egf":
		s, l, end := callEGF(sa, sb, e, sc.get(mode))
		s2, l2, _ := callEGF(sb, sa, e, sc.get(mode))
		ev.R, ev.RR, ev.End = []int{s, l}, []int{s2, l2}, end
	case "d1":
		ev.Buf = "fresh"
		d, pos, x, y := callD1(sa, sb)
		d2, pos2, x2, y2 := callD1(sb, sa)
		ev.R, ev.RR = []int{d, pos}, []int{d2, pos2}
		ev.X, ev.Y, ev.RX, ev.RY = byteStr(x), byteStr(y), byteStr(x2), byteStr(y2)
	}
}

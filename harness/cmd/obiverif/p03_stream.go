package main

// C03: stream combinators of pkg/obiiter.
//
// replay: cases exported by TLC from StreamCases.tla (deterministic combinators: input partition x
// arrival permutation x parameters -> required output batches) and Pipeline.tla (completion
// schedules of the worker pool, forced with gates) are run on the real combinators.
// record: nondeterministic combinators (worker pools, Pool, IFragments, multi-file reader, whole
// pipelines) under random latencies; the observed streams are logged for StreamTrace.tla.

import (
	"encoding/json"
	"fmt"
	"reflect"
	"sort"
	"strconv"
	"sync"
	"time"

	"git.metabarcoding.org/obitools/obitools4/obitools4/pkg/obiformats"
	"git.metabarcoding.org/obitools/obitools4/obitools4/pkg/obiiter"
	"git.metabarcoding.org/obitools/obitools4/obitools4/pkg/obioptions"
	"git.metabarcoding.org/obitools/obitools4/obitools4/pkg/obiseq"
)

func init() {
	register("C03", &driver{replay: replayC03, record: recordC03})
}

type outBatch struct {
	O     int   `json:"o"`
	Items []int `json:"items"`
	Mates []int `json:"mates,omitempty"`
}

type streamCase struct {
	Op      string          `json:"op"`
	Sizes   []int           `json:"sizes"`
	Arrival []int           `json:"arrival"`
	Size    int             `json:"size"`
	Keep    []int           `json:"keep"`
	Sizes2  []int           `json:"sizes2"`
	Sizes3  []int           `json:"sizes3"`
	Out     json.RawMessage `json:"out"`
	W       int             `json:"w,omitempty"`
	Emits   []int           `json:"emits,omitempty"`
}

const streamPatience = 20 * time.Second

func recNum(s *obiseq.BioSequence) int {
	if s == nil {
		return -1
	}
	n, err := strconv.Atoi(s.Id()[1:])
	if err != nil {
		return -1
	}
	return n
}

func mkRec(n int) *obiseq.BioSequence {
	l := 3 + 2*n // StreamCases.FragLens
	if n > 64 {
		l = 3 + n%7
	}
	b := make([]byte, l)
	for i := range b {
		b[i] = "acgt"[(i+n)%4]
	}
	return obiseq.NewBioSequence("r"+strconv.Itoa(n), b, "")
}

// batchesOf builds the batches of a stream: batch k holds consecutive record numbers.
func batchesOf(sizes []int, base int) []obiiter.BioSequenceBatch {
	out := make([]obiiter.BioSequenceBatch, len(sizes))
	n := base
	for k, s := range sizes {
		sl := obiseq.MakeBioSequenceSlice()
		for j := 0; j < s; j++ {
			n++
			sl = append(sl, mkRec(n))
		}
		out[k] = obiiter.MakeBioSequenceBatch("verif", k, sl)
	}
	return out
}

// source pushes the batches in the given order of batch numbers, then closes.
func source(batches []obiiter.BioSequenceBatch, arrival []int) obiiter.IBioSequence {
	it := obiiter.MakeIBioSequence()
	it.Add(1)
	go func() { it.WaitAndClose() }()
	go func() {
		for _, o := range arrival {
			it.Push(batches[o])
		}
		it.Done()
	}()
	return it
}

func ident(n int) []int {
	a := make([]int, n)
	for i := range a {
		a[i] = i
	}
	return a
}

func toOut(b obiiter.BioSequenceBatch, mates bool) outBatch {
	ob := outBatch{O: b.Order(), Items: []int{}}
	for _, s := range b.Slice() {
		ob.Items = append(ob.Items, recNum(s))
		if mates {
			ob.Mates = append(ob.Mates, recNum(s.PairedWith()))
		}
	}
	return ob
}

// collect drains an iterator; ok=false when it does not terminate.
func collect(it obiiter.IBioSequence, mates bool) ([]outBatch, bool) {
	res := []outBatch{}
	done := make(chan struct{})
	var mu sync.Mutex
	go func() {
		for it.Next() {
			b := toOut(it.Get(), mates)
			mu.Lock()
			res = append(res, b)
			mu.Unlock()
		}
		close(done)
	}()
	ok := waitTimeout(done, streamPatience)
	mu.Lock()
	defer mu.Unlock()
	return append([]outBatch{}, res...), ok
}

func keepPred(keep []int) obiseq.SequencePredicate {
	return func(s *obiseq.BioSequence) bool {
		n := recNum(s)
		return n >= 1 && n <= len(keep) && keep[n-1] == 1
	}
}

func identityWorker(sl obiseq.BioSequenceSlice) (obiseq.BioSequenceSlice, error) { return sl, nil }

func sameBatches(a, b []outBatch) bool {
	if len(a) != len(b) {
		return false
	}
	for i := range a {
		if a[i].O != b[i].O || !reflect.DeepEqual(normInts(a[i].Items), normInts(b[i].Items)) ||
			!reflect.DeepEqual(normInts(a[i].Mates), normInts(b[i].Mates)) {
			return false
		}
	}
	return true
}

func normInts(a []int) []int {
	if a == nil {
		return []int{}
	}
	return a
}

var pairMu sync.Mutex // PairTo reads the global batch size

func runStreamCase(env *Env, c streamCase) {
	cl := c.Op
	in1 := batchesOf(c.Sizes, 0)
	f0 := fatalCount()
	check := func(name string, got []outBatch, ok bool, want []outBatch) {
		if !ok {
			env.fail("C03."+c.Op+".hang", cl, fmt.Sprintf("%s: the output stream was never closed (got %v so far)", name, got), c)
			return
		}
		if !sameBatches(got, want) {
			env.fail("C03."+c.Op+".output", cl, fmt.Sprintf("%s delivered %v, specification requires %v", name, got, want), c)
		}
	}
	var want []outBatch
	var want2 [][]outBatch
	if c.Op == "fragments" {
		// decoded in its own branch
	} else if c.Op == "divide" || c.Op == "distribute" {
		if err := json.Unmarshal(c.Out, &want2); err != nil {
			panic(err)
		}
	} else if err := json.Unmarshal(c.Out, &want); err != nil {
		panic(err)
	}
	switch c.Op {
	case "sort":
		got, ok := collect(source(in1, c.Arrival).SortBatches(), false)
		check("SortBatches", got, ok, want)
	case "workers":
		for w := 1; w <= 3; w++ {
			got, ok := collect(source(batchesOf(c.Sizes, 0), c.Arrival).MakeISliceWorker(identityWorker, false, w).SortBatches(), false)
			check(fmt.Sprintf("MakeISliceWorker(%d workers)+SortBatches", w), got, ok, want)
		}
	case "expand":
		keep := keepPred(c.Keep)
		dupWorker := func(s *obiseq.BioSequence) (obiseq.BioSequenceSlice, error) {
			if keep(s) {
				return obiseq.BioSequenceSlice{s, mkRec(recNum(s) + 1000)}, nil
			}
			return obiseq.BioSequenceSlice{s}, nil
		}
		for w := 1; w <= 3; w++ {
			got, ok := collect(source(batchesOf(c.Sizes, 0), c.Arrival).MakeIWorker(dupWorker, false, w).SortBatches(), false)
			check(fmt.Sprintf("MakeIWorker(1->2 worker, %d workers)+SortBatches", w), got, ok, want)
		}
	case "limitmemory":
		got, ok := collect(source(in1, c.Arrival).LimitMemory(0.9), false)
		sort.SliceStable(got, func(i, j int) bool { return got[i].O < got[j].O })
		check("LimitMemory", got, ok, want)
	case "copytee":
		a, b := source(in1, c.Arrival).CopyTee()
		var ga, gb []outBatch
		var oka, okb bool
		var wg sync.WaitGroup
		wg.Add(2)
		go func() { ga, oka = collect(a, false); wg.Done() }()
		go func() { gb, okb = collect(b, false); wg.Done() }()
		wg.Wait()
		sort.SliceStable(ga, func(i, j int) bool { return ga[i].O < ga[j].O })
		sort.SliceStable(gb, func(i, j int) bool { return gb[i].O < gb[j].O })
		check("CopyTee(first output)", ga, oka, want)
		check("CopyTee(second output)", gb, okb, want)
	case "rebatch":
		got, ok := collect(source(in1, c.Arrival).Rebatch(c.Size), false)
		check("Rebatch", got, ok, want)
	case "filterempty":
		got, ok := collect(source(in1, c.Arrival).FilterEmpty(), false)
		check("FilterEmpty", got, ok, want)
	case "filter":
		for w := 1; w <= 3; w++ {
			got, ok := collect(source(batchesOf(c.Sizes, 0), c.Arrival).FilterOn(keepPred(c.Keep), c.Size, w), false)
			check(fmt.Sprintf("FilterOn(%d workers)", w), got, ok, want)
		}
	case "batchover":
		all := obiseq.MakeBioSequenceSlice()
		for _, b := range in1 {
			all = append(all, b.Slice()...)
		}
		got, ok := collect(obiiter.IBatchOver("verif", all, c.Size), false)
		check("IBatchOver", got, ok, want)
	case "complete":
		got, ok := collect(source(in1, c.Arrival).CompleteFileIterator(), false)
		check("CompleteFileIterator", got, ok, want)
	case "concat":
		rev2 := ident(len(c.Sizes2))
		for i, j := 0, len(rev2)-1; i < j; i, j = i+1, j-1 { // the second stream arrives in reverse order
			rev2[i], rev2[j] = rev2[j], rev2[i]
		}
		s2 := source(batchesOf(c.Sizes2, 100), rev2)
		s3 := source(batchesOf(c.Sizes3, 200), ident(len(c.Sizes3)))
		got, ok := collect(source(in1, c.Arrival).Concat(s2, s3), false)
		sort.SliceStable(got, func(i, j int) bool { return got[i].O < got[j].O })
		check("Concat", got, ok, want)
	case "pair":
		pairMu.Lock()
		obioptions.SetBatchSize(c.Size)
		s2 := source(batchesOf(c.Sizes2, 100), ident(len(c.Sizes2)))
		got, ok := collect(source(in1, c.Arrival).PairTo(s2), true)
		pairMu.Unlock()
		for i := range want {
			if want[i].Mates == nil {
				want[i].Mates = []int{}
			}
		}
		for i := range got {
			if got[i].Mates == nil {
				got[i].Mates = []int{}
			}
		}
		check("PairTo", got, ok, want)
	case "divide":
		t, f := source(in1, c.Arrival).DivideOn(keepPred(c.Keep), c.Size)
		var gt, gf []outBatch
		var okt, okf bool
		var wg sync.WaitGroup
		wg.Add(2)
		go func() { gt, okt = collect(t, false); wg.Done() }()
		go func() { gf, okf = collect(f, false); wg.Done() }()
		wg.Wait()
		check("DivideOn(true stream)", gt, okt, want2[0])
		check("DivideOn(false stream)", gf, okf, want2[1])
	case "distribute":
		d := source(in1, c.Arrival).Distribute(obiseq.PredicateClassifier(keepPred(c.Keep)), c.Size)
		got := map[int][]outBatch{}
		oks := map[int]bool{}
		var mu sync.Mutex
		var wg sync.WaitGroup
		newsDone := make(chan struct{})
		go func() {
			for key := range d.News() {
				it, err := d.Outputs(key)
				if err != nil {
					continue
				}
				wg.Add(1)
				go func(key int) {
					g, ok := collect(it, false)
					mu.Lock()
					got[key] = g
					oks[key] = ok
					mu.Unlock()
					wg.Done()
				}(key)
			}
			close(newsDone)
		}()
		if !waitTimeout(newsDone, streamPatience) {
			env.fail("C03.distribute.hang", cl, "the news channel of Distribute was never closed", c)
			break
		}
		wg.Wait()
		for k := 0; k < 2; k++ {
			g, seen := got[k]
			if !seen {
				g = []outBatch{}
				oks[k] = true
			}
			check(fmt.Sprintf("Distribute(class %d)", k), g, oks[k], want2[k])
		}
	case "fragments":
		var wantf []struct {
			O     int     `json:"o"`
			Items [][]int `json:"items"`
		}
		if err := json.Unmarshal(c.Out, &wantf); err != nil {
			panic(err)
		}
		for w := 1; w <= 3; w++ {
			it := obiiter.IFragments(6, 5, 2, c.Size, w)(source(batchesOf(c.Sizes, 0), c.Arrival))
			res := [][]string{}
			done := make(chan struct{})
			go func() {
				for it.Next() {
					b := it.Get()
					ids := []string{fmt.Sprint(b.Order())}
					for _, s := range b.Slice() {
						// "rN" or "rN_sub[a..b]" -> record, 0-based from, exclusive to
						var r, a, e int
						if n, _ := fmt.Sscanf(s.Id(), "r%d_sub[%d..%d]", &r, &a, &e); n == 3 {
							a--
						} else {
							fmt.Sscanf(s.Id(), "r%d", &r)
							a, e = 0, s.Len()
						}
						ids = append(ids, fmt.Sprintf("r%d[%d,%d):%d", r, a, e, s.Len()))
					}
					res = append(res, ids)
				}
				close(done)
			}()
			if !waitTimeout(done, streamPatience) {
				env.fail("C03.fragments.hang", cl, "IFragments output never closed", c)
				break
			}
			exp := [][]string{}
			for _, b := range wantf {
				ids := []string{fmt.Sprint(b.O)}
				for _, f := range b.Items {
					ids = append(ids, fmt.Sprintf("r%d[%d,%d):%d", f[0], f[1], f[2], f[2]-f[1]))
				}
				exp = append(exp, ids)
			}
			if fmt.Sprint(res) != fmt.Sprint(exp) {
				env.fail("C03.fragments.output", cl, fmt.Sprintf("IFragments(%d workers) delivered %v, specification requires %v", w, res, exp), c)
			}
		}
	case "merge":
		it := source(in1, c.Arrival).IMergeSequenceBatch("NA", nil, c.Size)
		got := []outBatch{}
		done := make(chan struct{})
		go func() {
			for it.Next() {
				b := it.Get()
				ob := outBatch{O: b.Order(), Items: []int{}}
				for _, s := range b.Slice() {
					ob.Items = append(ob.Items, s.Count())
				}
				got = append(got, ob)
			}
			close(done)
		}()
		ok := waitTimeout(done, streamPatience)
		check("IMergeSequenceBatch", got, ok, want)
	case "sched":
		runSchedCase(env, c, want)
	default:
		panic("unknown op " + c.Op)
	}
	if fatalCount() > f0 {
		env.fail("C03."+c.Op+".fatal", cl, "log.Fatal during a healthy run: "+fmt.Sprint(fatalMessages()), c)
	}
	env.ok(cl)
}

// ----------------------------------------------------------------- gates (completion schedules)

type sched struct {
	mu     sync.Mutex
	parked map[int]chan struct{}
	cond   *sync.Cond
}

func newSched() *sched {
	s := &sched{parked: map[int]chan struct{}{}}
	s.cond = sync.NewCond(&s.mu)
	return s
}

// park is called by a worker holding batch b: blocks until released.
func (s *sched) park(b int) {
	ch := make(chan struct{})
	s.mu.Lock()
	s.parked[b] = ch
	s.cond.Broadcast()
	s.mu.Unlock()
	<-ch
}

// release waits (bounded) until batch b is parked, then lets it go.
func (s *sched) release(b int, d time.Duration) bool {
	deadline := time.Now().Add(d)
	s.mu.Lock()
	for s.parked[b] == nil {
		if time.Now().After(deadline) {
			s.mu.Unlock()
			return false
		}
		s.mu.Unlock()
		time.Sleep(50 * time.Microsecond)
		s.mu.Lock()
	}
	ch := s.parked[b]
	delete(s.parked, b)
	s.mu.Unlock()
	close(ch)
	return true
}

// probe: order-preserving relay on the public API; logs what went through.
type probeLog struct {
	mu   sync.Mutex
	seen []outBatch
}

func (p *probeLog) count() int { p.mu.Lock(); defer p.mu.Unlock(); return len(p.seen) }

func probe(in obiiter.IBioSequence, pl *probeLog) obiiter.IBioSequence {
	out := obiiter.MakeIBioSequence()
	out.Add(1)
	go func() { out.WaitAndClose() }()
	go func() {
		for in.Next() {
			b := in.Get()
			pl.mu.Lock()
			pl.seen = append(pl.seen, toOut(b, false))
			pl.mu.Unlock()
			out.Push(b)
		}
		out.Done()
	}()
	return out
}

// runSchedCase forces the Emit order of Pipeline.tla on the real MakeISliceWorker pool.
func runSchedCase(env *Env, c streamCase, want []outBatch) {
	in := batchesOf(c.Sizes, 0)
	first := map[int]int{} // first record number -> batch number
	n := 0
	for k, s := range c.Sizes {
		first[n+1] = k
		n += s
	}
	sc := newSched()
	keep := keepPred(c.Keep)
	worker := func(sl obiseq.BioSequenceSlice) (obiseq.BioSequenceSlice, error) {
		b := first[recNum(sl[0])]
		sc.park(b)
		j := 0
		for _, s := range sl {
			if keep(s) {
				sl[j] = s
				j++
			}
		}
		return sl[:j], nil
	}
	pl := &probeLog{}
	pipe := probe(source(in, ident(len(in))).MakeISliceWorker(worker, false, c.W), pl).SortBatches().Rebatch(c.Size)
	var got []outBatch
	var ok bool
	done := make(chan struct{})
	go func() { got, ok = collect(pipe, false); close(done) }()
	for i, b := range c.Emits {
		if !sc.release(b, 5*time.Second) {
			env.emit(map[string]any{"note": "schedule infeasible on the real pool", "case": c, "at": i})
			env.mu.Lock()
			env.classes["sched/unreached"]++
			env.mu.Unlock()
			// let everything go so that goroutines end
			for _, r := range c.Emits[i:] {
				go sc.release(r, streamPatience)
			}
			<-done
			return
		}
		deadline := time.Now().Add(5 * time.Second)
		for pl.count() < i+1 && time.Now().Before(deadline) {
			time.Sleep(20 * time.Microsecond)
		}
	}
	<-done
	if !ok {
		env.fail("C03.sched.hang", "sched", "pipeline did not terminate under the forced schedule", c)
		return
	}
	order := []int{}
	for _, b := range pl.seen {
		order = append(order, b.O)
	}
	if !reflect.DeepEqual(order, normInts(c.Emits)) {
		env.mu.Lock()
		env.classes["sched/unreached"]++
		env.mu.Unlock()
	} else {
		env.mu.Lock()
		env.classes["sched/reproduced"]++
		env.mu.Unlock()
	}
	if !sameBatches(got, want) {
		env.fail("C03.sched.output", "sched", fmt.Sprintf("pool->SortBatches->Rebatch delivered %v under emit order %v, specification requires %v", got, order, want), c)
	}
}

func replayC03(env *Env) {
	cases := loadCases[streamCase](env.cases)
	for i := range cases {
		if cases[i].Op == "" && cases[i].Emits != nil {
			cases[i].Op = "sched"
		}
	}
	parallel(len(cases), 0, func(i int) {
		if env.tooManyFailures() {
			return
		}
		func() {
			defer func() {
				if r := recover(); r != nil {
					env.fail("C03."+cases[i].Op+".panic", cases[i].Op, fmt.Sprint("panic: ", r), cases[i])
					env.ok(cases[i].Op)
				}
			}()
			runStreamCase(env, cases[i])
		}()
		if i%5000 == 11 {
			env.sample(cases[i])
		}
	})
}

// ------------------------------------------------------------------------------------- record

type streamEvent struct {
	Op     string     `json:"op"`
	Sizes  []int      `json:"sizes"`
	Sizes2 []int      `json:"sizes2"`
	Sizes3 []int      `json:"sizes3"`
	Keep   []int      `json:"keep"`
	W      int        `json:"w"`
	Size   int        `json:"size"`
	Push   []int      `json:"push"`
	Out    []outBatch `json:"out"`
	Hung   int        `json:"hung"`
	Fatal  int        `json:"fatal"`
}

func jitterWorker(seed int64, keep obiseq.SequencePredicate) obiseq.SeqSliceWorker {
	return func(sl obiseq.BioSequenceSlice) (obiseq.BioSequenceSlice, error) {
		if len(sl) > 0 {
			d := (int64(recNum(sl[0]))*7919 + seed) % 5
			time.Sleep(time.Duration(d*40) * time.Microsecond)
		}
		j := 0
		for _, s := range sl {
			if keep(s) {
				sl[j] = s
				j++
			}
		}
		return sl[:j], nil
	}
}

func recordC03(env *Env) {
	ops := []string{"pool_workers", "pool_filter", "pool", "pipeline", "files", "concat", "sortlate"}
	evs := make([]streamEvent, env.n)
	for i := range evs {
		n := env.rng.Intn(10)
		e := streamEvent{Op: ops[i%len(ops)], W: 1 + env.rng.Intn(6), Size: 1 + env.rng.Intn(4)}
		e.Sizes = randSizes(env, n)
		e.Sizes2 = randSizes(env, env.rng.Intn(5))
		e.Sizes3 = randSizes(env, env.rng.Intn(4))
		tot := 0
		for _, s := range e.Sizes {
			tot += s
		}
		e.Keep = make([]int, tot)
		for j := range e.Keep {
			if env.rng.Intn(4) > 0 {
				e.Keep[j] = 1
			}
		}
		e.Push = env.rng.Perm(n)
		if e.Op == "concat" || e.Op == "pool" {
			e.Push = ident(n)
		}
		if e.Op == "sortlate" {
			// a long stream in which one batch arrives after many of its successors (one very slow worker)
			n = 40 + env.rng.Intn(60)
			e.Sizes = randSizes(env, n)
			tot = 0
			for _, s := range e.Sizes {
				tot += s
			}
			e.Keep = make([]int, tot)
			late := env.rng.Intn(n / 2)
			delay := 1 + env.rng.Intn(n-late-1)
			e.Push = []int{}
			for b := 0; b < n; b++ {
				if b != late {
					e.Push = append(e.Push, b)
				}
				if b == late+delay {
					e.Push = append(e.Push, late)
				}
			}
		}
		evs[i] = e
	}
	seed := env.seed
	parallel(len(evs), 0, func(i int) {
		e := &evs[i]
		f0 := fatalCount()
		var it obiiter.IBioSequence
		src := func() obiiter.IBioSequence { return source(batchesOf(e.Sizes, 0), e.Push) }
		switch e.Op {
		case "sortlate":
			it = src().SortBatches()
		case "pool_workers": // raw output of the worker pool (unsorted)
			it = src().MakeISliceWorker(jitterWorker(seed+int64(i), keepPred(e.Keep)), false, e.W)
		case "pool_filter": // FilterOn = workers + Rebatch
			it = src().FilterOn(keepPred(e.Keep), e.Size, e.W)
		case "pool": // Pool of three streams
			it = src().Pool(source(batchesOf(e.Sizes2, 100), ident(len(e.Sizes2))), source(batchesOf(e.Sizes3, 200), ident(len(e.Sizes3))))
		case "concat":
			it = src().Concat(source(batchesOf(e.Sizes2, 100), ident(len(e.Sizes2))), source(batchesOf(e.Sizes3, 200), ident(len(e.Sizes3))))
		case "pipeline": // workers -> workers -> filter -> rebatch, as the commands chain them
			it = src().MakeISliceWorker(jitterWorker(seed+int64(i), keepPred(e.Keep)), false, e.W).
				MakeISliceWorker(jitterWorker(seed+int64(i)+3, func(*obiseq.BioSequence) bool { return true }), false, 1+e.W%3).
				SortBatches().Rebatch(e.Size)
		case "files": // multi-file reader: each "file" is a stream, W concurrent readers
			files := map[string][]int{"f1": e.Sizes, "f2": e.Sizes2, "f3": e.Sizes3}
			base := map[string]int{"f1": 0, "f2": 100, "f3": 200}
			// the real readers end with a parallel header-parsing stage: their batches arrive in any order
			reader := func(name string, _ ...obiformats.WithOption) (obiiter.IBioSequence, error) {
				arr := ident(len(files[name]))
				if name == "f1" {
					arr = e.Push
				}
				return source(batchesOf(files[name], base[name]), arr), nil
			}
			it = obiformats.ReadSequencesBatchFromFiles([]string{"f1", "f2", "f3"}, reader, 1+e.W%5) // 1..5 readers for 3 files
		}
		got, ok := collect(it, false)
		e.Out = got
		if !ok {
			e.Hung = 1
		}
		if fatalCount() > f0 {
			e.Fatal = 1
		}
	})
	for _, e := range evs {
		env.emit(e)
	}
	// the memory brake of obipcr (LimitMemory) under lasting memory pressure (a limit that is never met): after its
	// bounded wait it must let every batch through and end the stream
	{
		e := streamEvent{Op: "limitmem", Sizes: []int{2, 1, 3}, Sizes2: []int{}, Sizes3: []int{}, Keep: []int{}, Push: ident(3), Out: []outBatch{}}
		it := source(batchesOf(e.Sizes, 0), e.Push).LimitMemory(1e-12)
		var out []outBatch
		done := make(chan struct{})
		go func() {
			defer close(done)
			for it.Next() {
				out = append(out, toOut(it.Get(), false))
			}
		}()
		if !waitTimeout(done, 90*time.Second) {
			e.Hung = 1
		} else {
			e.Out = out
		}
		env.emit(e)
	}
	// Pool and the multi-file reader number their output with a shared counter: 16 streams of one-record batches
	// pushed at full speed, several rounds; a round is bad when the numbers that come out are not 0..N-1 once each
	{
		rounds, streams, per := env.optInt("poolrounds", 12), 16, 1500
		bad := 0
		for r := 0; r < rounds; r++ {
			srcs := make([]obiiter.IBioSequence, streams)
			for k := range srcs {
				sizes := make([]int, per)
				for j := range sizes {
					sizes[j] = 1
				}
				srcs[k] = source(batchesOf(sizes, 0), ident(per))
			}
			var it obiiter.IBioSequence
			if r%2 == 0 {
				it = srcs[0].Pool(srcs[1:]...)
			} else {
				names := make([]string, streams)
				byName := map[string]obiiter.IBioSequence{}
				for k := range names {
					names[k] = "s" + strconv.Itoa(k)
					byName[names[k]] = srcs[k]
				}
				reader := func(name string, _ ...obiformats.WithOption) (obiiter.IBioSequence, error) { return byName[name], nil }
				it = obiformats.ReadSequencesBatchFromFiles(names, reader, 8)
			}
			seen := make([]int, streams*per)
			ok := true
			done := make(chan struct{})
			go func() {
				defer close(done)
				for it.Next() {
					o := it.Get().Order()
					if o < 0 || o >= len(seen) {
						ok = false
						continue
					}
					seen[o]++
				}
			}()
			if !waitTimeout(done, 60*time.Second) {
				ok = false
			} else {
				for _, c := range seen {
					if c != 1 {
						ok = false
					}
				}
			}
			if !ok {
				bad++
			}
		}
		env.emit(streamEvent{Op: "poolstress", Sizes: []int{streams, per, rounds}, Sizes2: []int{}, Sizes3: []int{}, Keep: []int{}, Push: []int{},
			Out: []outBatch{}, W: bad})
	}
}

func randSizes(env *Env, n int) []int {
	s := make([]int, n)
	for j := range s {
		if env.rng.Intn(4) > 0 {
			s[j] = 1 + env.rng.Intn(3)
		}
	}
	return s
}
